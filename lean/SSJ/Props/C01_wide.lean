/-
  C01 (wide threshold scope) — Set-similarity joins return every qualifying pair.

  Companion of SSJ/Props/C01.lean (same namespace `SSJ.Props.C01`; property text, model and vocabulary as there).
  `C01.setsim_complete` assumes a Python FLOAT threshold `thr` with `2⁻²⁰ ≤ thr ≤ 1` (`ThrOK`).  The property says
  "threshold" without restriction — the validation accepts every `0 < t ≤ 1`, also given as the Python int `1`.

  WHAT CHANGED.  `setsim_complete_wide` has the same conclusion as `setsim_complete`, but the threshold is the VALUE
  `a.threshold : PyV` itself, under the hypothesis `WideThr m a.threshold` (SSJ/Proofs/ArithWide.lean):
      * a Python float `t` with `thrLo m ≤ t ≤ 1`, where `thrLo m = 2⁻⁹⁸⁹` for JACCARD and DICE and `2⁻⁴⁹⁵` for COSINE, or
      * the Python int `1`.
  "Satisfies the comparison" is `Spec.qualStrict m a.compOp a.threshold A B` — `compFn` compares `PyV` values by Python
  semantics, so the int `1` is compared numerically with the float similarity (`1 <= 1.0` holds).
  Every `ThrOK` threshold is covered (`ThrOK.wide`), so this theorem subsumes `setsim_complete`.

  WHY THE RANGE STOPS AT `thrLo m`.  Not the error analysis but binary64 OVERFLOW of the size upper bound of
  `filter_utils.get_size_upper_bound`: `n / t` (JACCARD), `((2 − t) / t) · n` (DICE), `n / (t · t)` (COSINE) must stay below
  `2¹⁰²⁴` for token counts up to `2³² − 1`; from `t = 2⁻⁹⁹³` (JACCARD), `2⁻⁹⁹²` (DICE), `2⁻⁴⁹⁷` (COSINE) on the generated code
  really fails for large records (`SSJ.cosine_overflow_at_500`: COSINE, `t = 2⁻⁵⁰⁰`, `2²⁴` tokens — Python raises
  `OverflowError` in `floor(inf)`; the model returns `err overflow`).  The proved limits leave a factor-2 slack.

  STILL OUTSIDE.  Thresholds in `(0, thrLo m)`: there the real code raises `OverflowError` / `ZeroDivisionError` for large
  enough token counts (recorded known finding K2) and works for small ones; no theorem covers them.  Int thresholds
  other than `1` are rejected by the validation (`0`) or (`≥ 2`) exceed 1.  Everything else as in C01.lean (`InScope`,
  pairs of two empty token sets: C09, missing values: C08).
-/
import SSJ.Proofs.EntryWide
import SSJ.Props.C01

namespace SSJ.Props.C01
open SSJ SSJ.Props

/-- `setsim_complete` for every covered threshold value (a float in `[thrLo m, 1]` or the int `1`): the call succeeds,
    and every pair of rows with present join values, not both tokenizing to nothing, whose similarity satisfies the
    comparison against the threshold both raw and rounded, is named by a row of the result; when requested, that
    row's `_sim_score` is the similarity rounded to 4 decimals. -/
theorem setsim_complete_wide (m : Measure) (hm : SetMeasure m) (a : JoinArgs) (t : TokObj) (toks : TokFn) (cpu : Int)
    (l r : Frame) (hv : validateJoin m.name a t = .ok (l, r))
    (hth : WideThr m a.threshold) (hs : InScope (toks true) r)
    (ls : Row) (hls : ls ∈ l.rows) (rs : Row) (hrs : rs ∈ r.rows)
    (hpl : Present l a.lAttr ls) (hpr : Present r a.rAttr rs)
    (hne : Spec.bothEmpty (tokensOf (toks true) l a.lAttr ls) (tokensOf (toks true) r a.rAttr rs) = false)
    (hq : Spec.qualStrict m a.compOp a.threshold (tokensOf (toks true) l a.lAttr ls)
      (tokensOf (toks true) r a.rAttr rs) = true)
    (hb : BodyOK a.toTableArgs l r a.outSimScore) :
    ∃ fr, (setSimJoinPy m a t toks cpu).result = .ok fr ∧
      ∃ row ∈ fr.rows, rowKeys row = (keyOf l a.lKey ls, keyOf r a.rKey rs) ∧
        (a.outSimScore = true → rowScore row = scoreCell (Spec.score4 m (tokensOf (toks true) l a.lAttr ls)
          (tokensOf (toks true) r a.rAttr rs))) :=
  EntryWide.complete_wide m a t toks cpu l r hm hv hth hs ls hls rs hrs hpl hpr hne hq hb

/-- the hypothesis in the form of C01.lean: `a.threshold = .float thr` with `thrLo m ≤ thr ≤ 1` -/
theorem setsim_complete_wide_float (m : Measure) (hm : SetMeasure m) (a : JoinArgs) (t : TokObj) (toks : TokFn) (cpu : Int)
    (l r : Frame) (hv : validateJoin m.name a t = .ok (l, r))
    (thr : Rat) (hthr : a.threshold = .float thr) (hok : ThrWide m thr) (hs : InScope (toks true) r)
    (ls : Row) (hls : ls ∈ l.rows) (rs : Row) (hrs : rs ∈ r.rows)
    (hpl : Present l a.lAttr ls) (hpr : Present r a.rAttr rs)
    (hne : Spec.bothEmpty (tokensOf (toks true) l a.lAttr ls) (tokensOf (toks true) r a.rAttr rs) = false)
    (hq : Spec.qualStrict m a.compOp (.float thr) (tokensOf (toks true) l a.lAttr ls)
      (tokensOf (toks true) r a.rAttr rs) = true)
    (hb : BodyOK a.toTableArgs l r a.outSimScore) :
    ∃ fr, (setSimJoinPy m a t toks cpu).result = .ok fr ∧
      ∃ row ∈ fr.rows, rowKeys row = (keyOf l a.lKey ls, keyOf r a.rKey rs) ∧
        (a.outSimScore = true → rowScore row = scoreCell (Spec.score4 m (tokensOf (toks true) l a.lAttr ls)
          (tokensOf (toks true) r a.rAttr rs))) :=
  setsim_complete_wide m hm a t toks cpu l r hv (hthr ▸ .float thr hok) hs ls hls rs hrs hpl hpr hne (hthr ▸ hq) hb

/-! non-vacuity.
    (1) The request of `EntrySetSim.Ex` with threshold `2⁻³⁰` (below the former limit `2⁻²⁰`):
        `jaccard_join(exL, exR, 'id', 'id', 's', 's', tok, 2**-30, allow_missing=True, n_jobs=2)` on 4 CPUs; the pair
        ((1,"ab"), (7,"abc")) has Jaccard = the double nearest 2/3 and is reported.
    (2) The same request with the threshold given as the Python int `1` and the tokenization table `exToks1`
        ("ab" ↦ {a,b}, "abc" ↦ {a,b}): the pair has two EQUAL token sets, similarity 1.0 `>= 1`, and is reported. -/
section Example
open EntrySetSim.Ex EntryWide.Ex

example : WideThr .jaccard exArgsSmall.threshold ∧ ¬ ThrOK (1 / 2 ^ 30) :=
  ⟨thrSmall .jaccard, fun h => absurd h.lo (by norm_num)⟩

example : ∃ fr, (setSimJoinPy .jaccard exArgsSmall {} exToks 4).result = .ok fr ∧
    ∃ row ∈ fr.rows, rowKeys row = (keyOf exL "id" exLs, keyOf exR "id" exRs) ∧
      (exArgsSmall.outSimScore = true → rowScore row = scoreCell (Spec.score4 .jaccard
        (tokensOf (exToks true) exL "s" exLs) (tokensOf (exToks true) exR "s" exRs))) :=
  setsim_complete_wide .jaccard (Or.inl rfl) exArgsSmall {} exToks 4 exL exR exValidSmall (thrSmall .jaccard) exScope
    exLs exLs_mem exRs exRs_mem exLs_present exRs_present exPair_nonempty exPair_qual_small (by decide +kernel)

example : ∃ fr, (setSimJoinPy .jaccard exArgsInt {} exToks1 4).result = .ok fr ∧
    ∃ row ∈ fr.rows, rowKeys row = (keyOf exL "id" exLs, keyOf exR "id" exRs) ∧
      (exArgsInt.outSimScore = true → rowScore row = scoreCell (Spec.score4 .jaccard
        (tokensOf (exToks1 true) exL "s" exLs) (tokensOf (exToks1 true) exR "s" exRs))) :=
  setsim_complete_wide .jaccard (Or.inl rfl) exArgsInt {} exToks1 4 exL exR exValidInt .intOne exScope1
    exLs exLs_mem exRs exRs_mem exLs_present exRs_present exPair_nonempty1 exPair_qual_int (by decide +kernel)

example : exArgsInt.threshold = .int 1 ∧ (keyOf exL "id" exLs, keyOf exR "id" exRs) = (Cell.int 1, Cell.int 7) :=
  ⟨rfl, by decide +kernel⟩

end Example

section AxiomCheck
#print axioms setsim_complete_wide
#print axioms setsim_complete_wide_float
end AxiomCheck

end SSJ.Props.C01

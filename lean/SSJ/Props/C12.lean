/-
  C12 — Calls leave inputs and tokenizer untouched; no call affects a later one.

  STATEMENT.  No join, filter, matcher, profiler or non-inplace converter call modifies the tables or candidate set
  passed to it (values, dtypes, columns, index), and every call that returns normally leaves the tokenizer
  configured exactly as it received it, although joins temporarily switch it between set and bag mode.
  Consequently the result of a call is the same whatever calls were made before it with the same tokenizer and
  table objects, including the default q-gram tokenizer shared by all edit_distance_join calls.

  MODEL.  The only mutable state the package touches is the `return_set` flag of the tokenizer objects the caller
  passes in.  `SSJ/Model/Session.lean` makes it explicit: the state of a session is the list of flags, one per
  tokenizer object (`tokId`); `Session.runCall cpu c flag` runs the join call `c` (which ∈ jaccard, cosine, dice,
  overlap_coefficient, overlap, edit_distance) with its tokenizer's flag being `flag` and yields an `Outcome` =
  (result: DataFrame or exception, `flagAfter`); `Session.run cpu flags calls` threads the flags through a history.
  The joins are `setSimJoinPy`, `overlapCoefficientJoinPy`, `overlapJoinPy`, `editDistanceJoinPy`
  (`SSJ/Model/Frame.lean`); `withFlag` is `tokenizer.set_return_set(want) … set_return_set(original)`.
  A tokenizer object shared by several calls (e.g. the module-level default q-gram tokenizer of
  `edit_distance_join`) is simply several calls with the same `tokId`.

  WHAT IS PROVED.
  * `flag_restored_*`: each of the four kinds of join, when it returns normally, leaves the flag as it found it
    (`overlap_join`, with its `try … finally`, on every path);
  * `join_result_ignores_incoming_mode`: the temporary switch is real — a join forces the mode it needs, so its
    result does not depend on the mode the tokenizer happens to be in;
  * `history_independent(_or_rejected)`, `mixed_history_independent`: in any history every call's outcome equals its
    outcome in isolation and the flags end as they began — provided each join returns normally, is an overlap join,
    or is rejected by its validation block (C15: then it has not touched the flag either).
    The ONE excluded case is real: a jaccard/cosine/dice/overlap-coefficient/edit-distance join that raises AFTER
    validation (e.g. the tokenizer itself raises) propagates the exception with the flag still switched
    (`withFlag`, as in the Python code, has no `finally`).
  * `inputs_immutable`: see below.

  INPUT TABLES.  In the model a DataFrame is a VALUE (`Frame`); an entry point is a function from its arguments to
  its result, so "the call modified the table object it was given" cannot even be expressed — in-place mutation of
  DataFrames is outside what the model can exhibit, and is checked by the harness instead (deep snapshots of every
  input — values, dtypes, columns, index — before and after each call of the correspondence suites, and the
  `isolation` suite replaying calls in different orders).  What the model does say, and what is stated here:
  the outcome of every entry point is a FUNCTION of (arguments, tokenizer flag) — `Session.runCall cpu c flag`
  mentions no history (that is `history_independent`) — and the non-join entry points (`filterTables`,
  `applyMatcher`, `filterCandset`, profiler, converters) return a bare result, not an `Outcome`: they have no
  channel through which to change a flag, and depend on the tokenizer only through what they read
  (`filters_and_matcher_only_read_the_tokenizer`).

  NOT COVERED.  Mutation of DataFrame objects (harness); tokenizer attributes other than `return_set` (the package
  never writes them); exceptions raised inside the body of a join (excluded case above).
-/
import SSJ.Proofs.SessionMixed
import SSJ.Proofs.EntryMatcher

namespace SSJ.Props.C12
open SSJ

/-! ## A. The tokenizer is handed back as it was received -/

/-- jaccard / cosine / dice join: a call that returns normally leaves the tokenizer's flag as it found it. -/
theorem flag_restored_set_sim (m : Measure) (a : JoinArgs) (t : TokObj) (toks : TokFn) (cpu : Int) (fr : Frame)
    (h : (setSimJoinPy m a t toks cpu).result = .ok fr) :
    (setSimJoinPy m a t toks cpu).flagAfter = t.returnSet :=
  setSimJoinPy_flag m a t toks cpu fr h

/-- overlap coefficient join: likewise. -/
theorem flag_restored_overlap_coefficient (a : JoinArgs) (t : TokObj) (toks : TokFn) (cpu : Int) (fr : Frame)
    (h : (overlapCoefficientJoinPy a t toks cpu).result = .ok fr) :
    (overlapCoefficientJoinPy a t toks cpu).flagAfter = t.returnSet :=
  overlapCoefficientJoinPy_flag a t toks cpu fr h

/-- edit distance join (which switches the shared q-gram tokenizer to bag mode): likewise. -/
theorem flag_restored_edit_distance (a : JoinArgs) (t : TokObj) (toks : TokFn) (cpu : Int) (fr : Frame)
    (h : (editDistanceJoinPy a t toks cpu).result = .ok fr) :
    (editDistanceJoinPy a t toks cpu).flagAfter = t.returnSet :=
  editDistanceJoinPy_flag a t toks cpu fr h

/-- overlap join: the flag is restored on EVERY path (normal return or exception). -/
theorem flag_restored_overlap (a : JoinArgs) (t : TokObj) (toks : TokFn) (cpu : Int) :
    (overlapJoinPy a t toks cpu).flagAfter = t.returnSet :=
  overlapJoinPy_flag a t toks cpu

/-- any join call of a session: normal return ⇒ flag unchanged. -/
theorem flag_restored (cpu : Int) (c : Session.Call) (flag : Bool) (fr : Frame)
    (h : (Session.runCall cpu c flag).result = .ok fr) : (Session.runCall cpu c flag).flagAfter = flag :=
  Session.runCall_flag_of_ok cpu c flag fr h

/-- a join rejected by its validation block has not touched the flag either (C15). -/
theorem flag_untouched_when_rejected (cpu : Int) (c : Session.Call) (flag : Bool) (e : PyErr)
    (h : Session.Rejected c flag e) :
    (Session.runCall cpu c flag).result = .error e ∧ (Session.runCall cpu c flag).flagAfter = flag :=
  Session.runCall_rejected cpu c flag e h

/-- The temporary switch: a join tokenizes in the mode IT needs (set mode; bag mode for edit distance), so its
    result — DataFrame or exception — is the same whatever mode the tokenizer is in when the call is made. -/
theorem join_result_ignores_incoming_mode (cpu : Int) (c : Session.Call) (flag flag' : Bool) :
    (Session.runCall cpu c flag).result = (Session.runCall cpu c flag').result :=
  Session.runCall_result_flag_irrel cpu c flag flag'

/-! ## B. No call affects a later one -/

/-- HISTORY INDEPENDENCE.  If every call of a history returns normally, then each call's outcome equals its outcome
    in isolation (run alone from the initial flags), and the flags end as they began.  Calls may share tokenizer
    objects (same `tokId`) and table values freely. -/
theorem history_independent (cpu : Int) (flags : List Bool) (calls : List Session.Call)
    (hid : ∀ c ∈ calls, c.tokId < flags.length)
    (hok : ∀ c ∈ calls, ∃ fr, (Session.runCall cpu c (flags.getD c.tokId false)).result = .ok fr) :
    Session.run cpu flags calls =
      (flags, calls.map (fun c => Session.runCall cpu c (flags.getD c.tokId false))) :=
  Session.run_independent cpu flags calls hid hok

/-- … more generally each call may return normally, OR be an overlap join (restores on every path), OR be rejected
    by its validation block: in none of these cases can it influence a later call. -/
theorem history_independent_or_rejected (cpu : Int) (flags : List Bool) (calls : List Session.Call)
    (hok : ∀ c ∈ calls,
      (∃ fr, (Session.runCall cpu c (flags.getD c.tokId false)).result = .ok fr) ∨
      c.which = "overlap" ∨
      (∃ e, Session.Rejected c (flags.getD c.tokId false) e)) :
    Session.run cpu flags calls =
      (flags, calls.map (fun c => Session.runCall cpu c (flags.getD c.tokId false))) :=
  Session.run_independent_or_rejected cpu flags calls hok

/-- Consequently the RESULT of each call does not even depend on the initial modes of the tokenizers: under the
    same hypothesis the list of results of a history is the list of results of the calls run alone with every
    tokenizer in bag mode (or any other mode). -/
theorem results_independent_of_history_and_modes (cpu : Int) (flags : List Bool) (calls : List Session.Call)
    (hok : ∀ c ∈ calls,
      (∃ fr, (Session.runCall cpu c (flags.getD c.tokId false)).result = .ok fr) ∨
      c.which = "overlap" ∨
      (∃ e, Session.Rejected c (flags.getD c.tokId false) e)) (b : Bool) :
    (Session.run cpu flags calls).2.map (·.result) = calls.map (fun c => (Session.runCall cpu c b).result) := by
  rw [Session.run_independent_or_rejected cpu flags calls hok, List.map_map]
  apply List.map_congr_left
  intro c _
  exact Session.runCall_result_flag_irrel cpu c _ b

/-- The default q-gram tokenizer shared by all `edit_distance_join` calls: a history of edit distance joins on ONE
    tokenizer object (all calls have `tokId = 0`), each returning normally, yields for each call the outcome it
    would have had as the first call, and the shared tokenizer ends in the mode it started in. -/
theorem shared_default_tokenizer (cpu : Int) (flag : Bool) (calls : List Session.Call)
    (hshared : ∀ c ∈ calls, c.tokId = 0)
    (hok : ∀ c ∈ calls, ∃ fr, (Session.runCall cpu c flag).result = .ok fr) :
    Session.run cpu [flag] calls = ([flag], calls.map (fun c => Session.runCall cpu c flag)) := by
  have h := Session.run_independent cpu [flag] calls
    (fun c hc => by rw [hshared c hc]; exact Nat.zero_lt_one)
    (fun c hc => by rw [hshared c hc]; exact hok c hc)
  rw [h]
  congr 1
  apply List.map_congr_left
  intro c hc
  rw [hshared c hc]
  rfl

/-- Histories MIXING joins with read-only calls (`filter_tables`, `filter_candset`, `apply_matcher`, profiler, … —
    `Session.MCall.readOnly tokId f`: any call `f` that may read the current flag of tokenizer `tokId`): if every
    join behaves (normal return / overlap join / rejected up front; nothing is required of the read-only calls),
    every call's outcome equals its outcome in isolation and the flags end as they began. -/
theorem mixed_history_independent (cpu : Int) (flags : List Bool) (calls : List Session.MCall)
    (hok : ∀ c ∈ calls, c.Behaves cpu flags) :
    Session.runM cpu flags calls =
      (flags, calls.map (fun c => Session.runMCall cpu c (flags.getD c.tokId false))) :=
  Session.runM_independent cpu flags calls hok

/-! ## C. Inputs -/

/-- INPUTS.  (DataFrame mutation itself is outside the model — see the header.)  The model-level content:
    (1) within any well-behaved history the outcome of a call is `Session.runCall cpu c flag` — a function of the
        call's own arguments and its tokenizer's flag, with no access to what earlier calls did or returned;
    (2) the tables a validated join works on are the very values it was given (`validateJoin` returns its two
        table arguments unchanged), and likewise for `filter_tables`, `apply_matcher`, `filter_candset`. -/
theorem inputs_immutable :
    (∀ (cpu : Int) (flags : List Bool) (calls : List Session.Call),
      (∀ c ∈ calls, (∃ fr, (Session.runCall cpu c (flags.getD c.tokId false)).result = .ok fr) ∨
          c.which = "overlap" ∨ (∃ e, Session.Rejected c (flags.getD c.tokId false) e)) →
      (Session.run cpu flags calls).2 = calls.map (fun c => Session.runCall cpu c (flags.getD c.tokId false))) ∧
    (∀ (mname : String) (a : JoinArgs) (t : TokObj) (l r : Frame),
      validateJoin mname a t = .ok (l, r) → a.ltable = some l ∧ a.rtable = some r) ∧
    (∀ (a : TableArgs) (l r : Frame),
      validateFilterTables a = .ok (l, r) → a.ltable = some l ∧ a.rtable = some r) ∧
    (∀ (a : MatcherArgs) (t : Option TokObj) (c l r : Frame),
      validateMatcher a t = .ok (c, l, r) → a.candset = some c ∧ a.ltable = some l ∧ a.rtable = some r) ∧
    (∀ (a : CandsetArgs) (c l r : Frame),
      validateCandset a = .ok (c, l, r) → a.candset = some c ∧ a.ltable = some l ∧ a.rtable = some r) := by
  refine ⟨?_, ?_, ?_, ?_, ?_⟩
  · intro cpu flags calls hok
    rw [Session.run_independent_or_rejected cpu flags calls hok]
  · intro mname a t l r h
    have hv := ((validateJoin_ok_iff mname a t l r).1 h).1
    exact ⟨hv.ltable, hv.rtable⟩
  · intro a l r h
    have hv := ((validateFilterTables_ok_iff a l r).1 h).1
    exact ⟨hv.ltable, hv.rtable⟩
  · intro a t c l r h
    have hv := (validateMatcher_ok_iff a t c l r).1 h
    exact ⟨hv.candset, hv.ltable, hv.rtable⟩
  · intro a c l r h
    have hv := (validateCandset_ok_iff a c l r).1 h
    exact ⟨hv.candset, hv.ltable, hv.rtable⟩

/-- The non-join entry points return a bare result (no `flagAfter`: they cannot write the flag) and see the
    tokenizer only through what they read: `filter_tables` through `return_set` (it tokenizes in the caller's
    mode), `apply_matcher` through `return_set` and the `isinstance` check; `filter_candset` is not handed a
    tokenizer object at all (its filter is the function `fp`). -/
theorem filters_and_matcher_only_read_the_tokenizer :
    (∀ (k : FilterKind) (f : FilterObj) (a : TableArgs) (t t' : TokObj) (toks : TokFn) (cpu : Int),
      t.returnSet = t'.returnSet → filterTables k f a t toks cpu = filterTables k f a t' toks cpu) ∧
    (∀ (a : MatcherArgs) (t t' : TokObj) (toks : TokFn) (sim : SimArg → SimArg → PyV) (cpu : Int),
      t.returnSet = t'.returnSet → t.isTokenizer = t'.isTokenizer →
      applyMatcher a (some t) toks sim cpu = applyMatcher a (some t') toks sim cpu) :=
  ⟨fun k f a t t' toks cpu h => filterTables_reads_flag_only k f a t t' toks cpu h,
   fun a t t' toks sim cpu h1 h2 => applyMatcher_reads_only a t t' toks sim cpu h1 h2⟩

/-! ## Non-vacuity -/

section Examples

def exL : Frame := { columns := ["id", "name"], dtypes := ["int64", "object"], rows := [[.int 1, .str "ann lee"]] }
def exR : Frame := { columns := ["id", "name"], dtypes := ["int64", "str"], rows := [[.int 7, .str "ann"]] }
def exArgs (thr : PyV) (op : String) : JoinArgs :=
  { ltable := some exL, rtable := some exR, lKey := "id", rKey := "id", lAttr := "name", rAttr := "name",
    threshold := thr, compOp := op }
def exTok : TokObj := { isTokenizer := true, isQgram := true, qval := 2 }

/-- a jaccard join, then an edit distance join and an overlap join on THE SAME tokenizer object (id 0), starting in
    bag mode -/
def exCalls (toks : TokFn) : List Session.Call :=
  [ { which := "jaccard", args := exArgs (.float (mkRat 1 2)) ">=", tok := exTok, tokId := 0, toks := toks },
    { which := "edit_distance", args := exArgs (.int 2) "<=", tok := exTok, tokId := 0, toks := toks },
    { which := "overlap", args := exArgs (.int 1) ">=", tok := exTok, tokId := 0, toks := toks } ]

/-- the hypothesis of `history_independent_or_rejected` is satisfiable for every tokenization table (each of the
    three calls returns normally — by the acceptance theorems of C15 — or is the overlap join) -/
example (toks : TokFn) (cpu : Int) : ∀ c ∈ exCalls toks,
    (∃ fr, (Session.runCall cpu c (([false] : List Bool).getD c.tokId false)).result = .ok fr) ∨
    c.which = "overlap" ∨ (∃ e, Session.Rejected c (([false] : List Bool).getD c.tokId false) e) := by
  intro c hc
  simp only [exCalls, List.mem_cons, List.not_mem_nil, or_false] at hc
  rcases hc with rfl | rfl | rfl
  · left
    show ∃ fr, (setSimJoinPy .jaccard (exArgs (.float (mkRat 1 2)) ">=") { exTok with returnSet := false } toks cpu).result
      = .ok fr
    exact setSimJoinPy_total .jaccard _ _ toks cpu exL exR (by decide)
  · left
    show ∃ fr, (editDistanceJoinPy (exArgs (.int 2) "<=") { exTok with returnSet := false } toks cpu).result = .ok fr
    exact editDistanceJoinPy_total _ _ toks cpu exL exR 2 (by decide) rfl
  · right; left; rfl

end Examples

end SSJ.Props.C12

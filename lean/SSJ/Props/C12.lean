/-
  C12 — Calls leave inputs and tokenizer untouched; no call affects a later one.

  STATEMENT.  No join, filter, matcher, profiler or non-inplace converter call modifies the tables or candidate set
  passed to it (values, dtypes, columns, index), and EVERY call — whether it returns normally or raises, at
  validation or inside its body — leaves the tokenizer configured exactly as it received it, although joins
  temporarily switch it between set and bag mode.
  Consequently the result of a call is the same whatever calls were made before it with the same tokenizer and
  table objects, including the default q-gram tokenizer shared by all edit_distance_join calls.

  MODEL.  The only mutable state the package touches is the `return_set` flag of the tokenizer objects the caller
  passes in.  `SSJ/Model/Session.lean` makes it explicit: the state of a session is the list of flags, one per
  tokenizer object (`tokId`); `Session.runCall cpu c flag` runs the join call `c` (which ∈ jaccard, cosine, dice,
  overlap_coefficient, overlap, edit_distance) with its tokenizer's flag being `flag` and yields an `Outcome` =
  (result: DataFrame or exception, `flagAfter`); `Session.run cpu flags calls` threads the flags through a history.
  The joins are `setSimJoinPy`, `overlapCoefficientJoinPy`, `overlapJoinPy`, `editDistanceJoinPy`
  (`SSJ/Model/Frame.lean`); `withFlag` is
  `tokenizer.set_return_set(want); try: … finally: tokenizer.set_return_set(original)` of every `*_join_py`.
  A tokenizer object shared by several calls (e.g. the module-level default q-gram tokenizer of
  `edit_distance_join`) is simply several calls with the same `tokId`.

  WHAT IS PROVED.
  * `flag_restored_*`, `flag_restored`: each of the six joins leaves the flag as it found it on EVERY path — normal
    return, rejection by the validation block, or an exception raised inside the body (e.g. the tokenizer itself
    raises on a non-string value, or the final `_id` insertion fails: `C15_body`).  No hypothesis.
  * `join_result_ignores_incoming_mode`: the temporary switch is real — a join forces the mode it needs, so its
    result does not depend on the mode the tokenizer happens to be in;
  * `history_independent`, `mixed_history_independent`: in ANY history — no condition on how the calls end — every
    call's outcome equals its outcome in isolation and the flags end as they began;
    `results_independent_of_history_and_modes`, `shared_default_tokenizer` are consequences.
    (Before the repair of the five joins — `try … finally` around the body, as `overlap_join_py` already had — a
    join raising after validation left the flag switched and these statements needed the hypothesis "every call
    returns normally, is an overlap join, or is rejected up front"; that excluded case no longer exists.)
  * `inputs_immutable`: NOT a statement about mutation of DataFrame objects (impossible in a value-level model; the
    oracle's deep snapshots check that) — it states that the validation blocks return the tables they were given and
    that outcomes are functions of (arguments, flag); see below and the theorem's docstring.

  INPUT TABLES.  In the model a DataFrame is a VALUE (`Frame`); an entry point is a function from its arguments to
  its result, so "the call modified the table object it was given" cannot even be expressed — in-place mutation of
  DataFrames is outside what the model can exhibit, and is checked by the harness instead (deep snapshots of every
  input — values, dtypes, columns, index — before and after each call of the correspondence suites, and the
  `isolation` suite replaying calls in different orders).  What the model does say, and what is stated here:
  the outcome of every entry point is a FUNCTION of (arguments, tokenizer flag) — `Session.runCall cpu c flag`
  mentions no history (that is `history_independent`) — and the non-join entry points (`filterTables`,
  `applyMatcher`, `filterCandset`, profiler, converters) return a bare result, not an `Outcome`: they have no
  channel through which to change a flag, and depend on the tokenizer only through what they read
  (`filters_and_matcher_only_read_the_tokenizer`).

  NOT COVERED.  Mutation of DataFrame objects (harness); tokenizer attributes other than `return_set` (the package
  never writes them).
-/
import SSJ.Proofs.SessionMixed
import SSJ.Proofs.EntryBody
import SSJ.Proofs.EntryMatcher

namespace SSJ.Props.C12
open SSJ

/-! ## A. The tokenizer is handed back as it was received -/

/-- jaccard / cosine / dice join: EVERY call — returning a DataFrame, rejected, or raising inside its body — leaves
    the tokenizer's flag as it found it. -/
theorem flag_restored_set_sim (m : Measure) (a : JoinArgs) (t : TokObj) (toks : TokFn) (cpu : Int) :
    (setSimJoinPy m a t toks cpu).flagAfter = t.returnSet :=
  setSimJoinPy_flag m a t toks cpu

/-- overlap coefficient join: likewise, on every path. -/
theorem flag_restored_overlap_coefficient (a : JoinArgs) (t : TokObj) (toks : TokFn) (cpu : Int) :
    (overlapCoefficientJoinPy a t toks cpu).flagAfter = t.returnSet :=
  overlapCoefficientJoinPy_flag a t toks cpu

/-- edit distance join (which switches the shared q-gram tokenizer to bag mode): likewise, on every path. -/
theorem flag_restored_edit_distance (a : JoinArgs) (t : TokObj) (toks : TokFn) (cpu : Int) :
    (editDistanceJoinPy a t toks cpu).flagAfter = t.returnSet :=
  editDistanceJoinPy_flag a t toks cpu

/-- overlap join: likewise, on every path. -/
theorem flag_restored_overlap (a : JoinArgs) (t : TokObj) (toks : TokFn) (cpu : Int) :
    (overlapJoinPy a t toks cpu).flagAfter = t.returnSet :=
  overlapJoinPy_flag a t toks cpu

/-- any join call of a session, whatever its result (DataFrame or exception): flag unchanged. -/
theorem flag_restored (cpu : Int) (c : Session.Call) (flag : Bool) : (Session.runCall cpu c flag).flagAfter = flag :=
  Session.runCall_flag cpu c flag

/-- in particular a call that RAISES — for whatever reason, at validation or in the body — leaves the flag unchanged. -/
theorem flag_restored_when_raising (cpu : Int) (c : Session.Call) (flag : Bool) (e : PyErr)
    (_h : (Session.runCall cpu c flag).result = .error e) : (Session.runCall cpu c flag).flagAfter = flag :=
  Session.runCall_flag cpu c flag

/-- a join rejected by its validation block raises that exception and has not touched the flag (C15). -/
theorem flag_untouched_when_rejected (cpu : Int) (c : Session.Call) (flag : Bool) (e : PyErr)
    (h : Session.Rejected c flag e) :
    (Session.runCall cpu c flag).result = .error e ∧ (Session.runCall cpu c flag).flagAfter = flag :=
  Session.runCall_rejected cpu c flag e h

/-- The temporary switch: a join tokenizes in the mode IT needs (set mode; bag mode for edit distance), so its
    result — DataFrame or exception — is the same whatever mode the tokenizer is in when the call is made. -/
theorem join_result_ignores_incoming_mode (cpu : Int) (c : Session.Call) (flag flag' : Bool) :
    (Session.runCall cpu c flag).result = (Session.runCall cpu c flag').result :=
  Session.runCall_result_flag_irrel cpu c flag flag'

/-! ## B. No call affects a later one -/

/-- HISTORY INDEPENDENCE, unconditionally.  In ANY history of join calls — each may return a DataFrame, be rejected,
    or raise inside its body; calls may share tokenizer objects (same `tokId`) and table values freely; tokenizer ids
    need not even be known to the state — each call's outcome equals its outcome in isolation (run alone from the
    initial flags), and the flags end as they began. -/
theorem history_independent (cpu : Int) (flags : List Bool) (calls : List Session.Call) :
    Session.run cpu flags calls =
      (flags, calls.map (fun c => Session.runCall cpu c (flags.getD c.tokId false))) :=
  Session.run_independent cpu flags calls

/-- Consequently the RESULT of each call does not even depend on the initial modes of the tokenizers: the list of
    results of a history is the list of results of the calls run alone with every tokenizer in bag mode (or any
    other mode `b`). -/
theorem results_independent_of_history_and_modes (cpu : Int) (flags : List Bool) (calls : List Session.Call)
    (b : Bool) :
    (Session.run cpu flags calls).2.map (·.result) = calls.map (fun c => (Session.runCall cpu c b).result) := by
  rw [Session.run_independent cpu flags calls, List.map_map]
  apply List.map_congr_left
  intro c _
  exact Session.runCall_result_flag_irrel cpu c _ b

/-- The default q-gram tokenizer shared by all `edit_distance_join` calls: a history of joins on ONE tokenizer
    object (all calls have `tokId = 0`) — whether they return or raise — yields for each call the outcome it would
    have had as the first call, and the shared tokenizer ends in the mode it started in. -/
theorem shared_default_tokenizer (cpu : Int) (flag : Bool) (calls : List Session.Call)
    (hshared : ∀ c ∈ calls, c.tokId = 0) :
    Session.run cpu [flag] calls = ([flag], calls.map (fun c => Session.runCall cpu c flag)) := by
  rw [Session.run_independent cpu [flag] calls]
  congr 1
  apply List.map_congr_left
  intro c hc
  rw [hshared c hc]
  rfl

/-- Histories MIXING joins with read-only calls (`filter_tables`, `filter_candset`, `apply_matcher`, profiler, … —
    `Session.MCall.readOnly tokId f`: any call `f` that may read the current flag of tokenizer `tokId`): without any
    condition on the calls, every call's outcome equals its outcome in isolation and the flags end as they began. -/
theorem mixed_history_independent (cpu : Int) (flags : List Bool) (calls : List Session.MCall) :
    Session.runM cpu flags calls =
      (flags, calls.map (fun c => Session.runMCall cpu c (flags.getD c.tokId false))) :=
  Session.runM_independent cpu flags calls

/-! ## C. Inputs -/

/-- INPUTS — what this theorem does and does NOT state.  It does NOT state that the real entry points leave the
    DataFrame objects they are given unmodified: in a value-level model a table is a value (`Frame`), there is no
    object to mutate, and "immutability" in that sense cannot be formulated, let alone proved.  That part of C12 is
    checked at runtime by the oracle of the harness, which takes DEEP SNAPSHOTS of every input (values, dtypes,
    columns, index) before each call and compares them afterwards.  The name is kept for the record; the content is:
    (1) within ANY history the outcome of a call is `Session.runCall cpu c flag` — a function of the
        call's own arguments and its tokenizer's flag, with no access to what earlier calls did or returned
        (`history_independent` restated);
    (2) the validation blocks RETURN THEIR ARGUMENTS: the tables a validated join works on are the very values it was
        given (`validateJoin … = .ok (l, r)` implies `a.ltable = some l`, `a.rtable = some r`), and likewise for
        `filter_tables`, `apply_matcher`, `filter_candset` — no copy, projection or conversion happens before the body. -/
theorem inputs_immutable :
    (∀ (cpu : Int) (flags : List Bool) (calls : List Session.Call),
      (Session.run cpu flags calls).2 = calls.map (fun c => Session.runCall cpu c (flags.getD c.tokId false))) ∧
    (∀ (mname : String) (a : JoinArgs) (t : TokObj) (l r : Frame),
      validateJoin mname a t = .ok (l, r) → a.ltable = some l ∧ a.rtable = some r) ∧
    (∀ (a : TableArgs) (l r : Frame),
      validateFilterTables a = .ok (l, r) → a.ltable = some l ∧ a.rtable = some r) ∧
    (∀ (a : MatcherArgs) (t : Option TokObj) (c l r : Frame),
      validateMatcher a t = .ok (c, l, r) → a.candset = some c ∧ a.ltable = some l ∧ a.rtable = some r) ∧
    (∀ (a : CandsetArgs) (c l r : Frame),
      validateCandset a = .ok (c, l, r) → a.candset = some c ∧ a.ltable = some l ∧ a.rtable = some r) := by
  refine ⟨?_, ?_, ?_, ?_, ?_⟩
  · intro cpu flags calls
    rw [Session.run_independent cpu flags calls]
  · intro mname a t l r h
    have hv := ((validateJoin_ok_iff mname a t l r).1 h).1
    exact ⟨hv.ltable, hv.rtable⟩
  · intro a l r h
    have hv := ((validateFilterTables_ok_iff a l r).1 h).1
    exact ⟨hv.ltable, hv.rtable⟩
  · intro a t c l r h
    have hv := (validateMatcher_ok_iff a t c l r).1 h
    exact ⟨hv.candset, hv.ltable, hv.rtable⟩
  · intro a c l r h
    have hv := (validateCandset_ok_iff a c l r).1 h
    exact ⟨hv.candset, hv.ltable, hv.rtable⟩

/-- The non-join entry points return a bare result (no `flagAfter`: they cannot write the flag) and see the
    tokenizer only through what they read: `filter_tables` through `return_set` (it tokenizes in the caller's
    mode), `apply_matcher` through `return_set` and the `isinstance` check; `filter_candset` is not handed a
    tokenizer object at all (its filter is the function `fp`). -/
theorem filters_and_matcher_only_read_the_tokenizer :
    (∀ (k : FilterKind) (f : FilterObj) (a : TableArgs) (t t' : TokObj) (toks : TokFn) (cpu : Int),
      t.returnSet = t'.returnSet → filterTables k f a t toks cpu = filterTables k f a t' toks cpu) ∧
    (∀ (a : MatcherArgs) (t t' : TokObj) (toks : TokFn) (sim : SimArg → SimArg → PyV) (cpu : Int),
      t.returnSet = t'.returnSet → t.isTokenizer = t'.isTokenizer →
      applyMatcher a (some t) toks sim cpu = applyMatcher a (some t') toks sim cpu) :=
  ⟨fun k f a t t' toks cpu h => filterTables_reads_flag_only k f a t t' toks cpu h,
   fun a t t' toks sim cpu h1 h2 => applyMatcher_reads_only a t t' toks sim cpu h1 h2⟩

/-! ## Non-vacuity -/

section Examples

def exL : Frame := { columns := ["id", "name"], dtypes := ["int64", "object"], rows := [[.int 1, .str "ann lee"]] }
def exR : Frame := { columns := ["id", "name"], dtypes := ["int64", "str"], rows := [[.int 7, .str "ann"]] }
def exArgs (thr : PyV) (op : String) : JoinArgs :=
  { ltable := some exL, rtable := some exR, lKey := "id", rKey := "id", lAttr := "name", rAttr := "name",
    threshold := thr, compOp := op }
def exTok : TokObj := { isTokenizer := true, isQgram := true, qval := 2 }

/-- a jaccard join, then an edit distance join and an overlap join on THE SAME tokenizer object (id 0), starting in
    bag mode -/
def exCalls (toks : TokFn) : List Session.Call :=
  [ { which := "jaccard", args := exArgs (.float (mkRat 1 2)) ">=", tok := exTok, tokId := 0, toks := toks },
    { which := "edit_distance", args := exArgs (.int 2) "<=", tok := exTok, tokId := 0, toks := toks },
    { which := "overlap", args := exArgs (.int 1) ">=", tok := exTok, tokId := 0, toks := toks } ]

/-- the history is not trivial: its first two calls return DataFrames for every tokenization table (by the
    acceptance theorems of C15) … -/
example (toks : TokFn) (cpu : Int) : ∀ c ∈ exCalls toks, c.which ≠ "overlap" →
    ∃ fr, (Session.runCall cpu c false).result = .ok fr := by
  intro c hc hne
  simp only [exCalls, List.mem_cons, List.not_mem_nil, or_false] at hc
  rcases hc with rfl | rfl | rfl
  · show ∃ fr, (setSimJoinPy .jaccard (exArgs (.float (mkRat 1 2)) ">=") { exTok with returnSet := false } toks cpu).result
      = .ok fr
    exact setSimJoinPy_total .jaccard _ _ toks cpu exL exR (by decide) (by decide +kernel)
  · show ∃ fr, (editDistanceJoinPy (exArgs (.int 2) "<=") { exTok with returnSet := false } toks cpu).result = .ok fr
    exact editDistanceJoinPy_total _ _ toks cpu exL exR 2 (by decide) rfl (by decide +kernel)
  · exact absurd rfl hne

/-- … and the shared tokenizer, which started in bag mode, is in bag mode afterwards -/
example (toks : TokFn) (cpu : Int) : (Session.run cpu [false] (exCalls toks)).1 = [false] := by
  rw [history_independent]

/-- a table whose join column holds the int 5: the jaccard join on it RAISES inside its body (TypeError from the
    tokenizer, after validation has passed) … -/
def exBad : Frame := { columns := ["id", "name"], dtypes := ["int64", "object"], rows := [[.int 1, .int 5]] }
def exBadArgs : JoinArgs := { exArgs (.float (mkRat 1 2)) ">=" with ltable := some exBad }
def exBadCall (toks : TokFn) : Session.Call :=
  { which := "jaccard", args := exBadArgs, tok := exTok, tokId := 0, toks := toks }

example (toks : TokFn) (cpu : Int) : (Session.runCall cpu (exBadCall toks) false).result = .error .typeErr := by
  show (setSimJoinPy .jaccard exBadArgs { exTok with returnSet := false } toks cpu).result = .error .typeErr
  exact (TableCall.setSim .jaccard exBadArgs { exTok with returnSet := false } toks exBad exR (by decide)).typeErr
    (by decide) _ _ cpu

/-- … and nevertheless the tokenizer comes back in bag mode and the later calls are unaffected -/
example (toks : TokFn) (cpu : Int) :
    Session.run cpu [false] (exBadCall toks :: exCalls toks) =
      ([false], (exBadCall toks :: exCalls toks).map (fun c => Session.runCall cpu c false)) :=
  shared_default_tokenizer cpu false _ (by
    intro c hc
    simp only [exCalls, List.mem_cons, List.not_mem_nil, or_false] at hc
    rcases hc with rfl | rfl | rfl | rfl <;> rfl)

end Examples

end SSJ.Props.C12

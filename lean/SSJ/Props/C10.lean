/-
  C10 — Results depend only on the rows and parameters, not on schedule or presentation.

  "The multiset of result rows (keys, projected attributes, scores) of every join, of apply_matcher, of
   filter_candset and of SizeFilter/OverlapFilter.filter_tables is unchanged by the value of n_jobs (1, several, more
   jobs than rows, negative). …  The _id column of a join or filter_tables result is always 0..n-1."

  Model functions: the entry points of `SSJ/Model/Frame.lean` (`setSimJoinPy`, `overlapCoefficientJoinPy`,
  `editDistanceJoinPy`, `overlapJoinPy`, `filterTables`, `overlapFilterTables`; collected in `SSJ.TableCall`,
  `Proofs/EntryGeneric.lean`) and `applyMatcher`, `filterCandset` of `SSJ/Model/Matcher.lean`; the chunking
  `chunksFor` / `numProcesses` (`n_jobs` semantics of `get_num_processes_to_launch` + `split_table`).
  `j.set am nj` are the join arguments `j` with `allow_missing = am`, `n_jobs = nj`; `a.withJobs nj` the table /
  matcher / candset arguments with `n_jobs = nj`.  The cpu count of the machine is a parameter, too.

  What is proved, for ALL values of `n_jobs` and of the cpu count (positive, zero, negative, larger than the table):
  * `ids`: `_id` is `0..n-1` for every join / filter_tables result (no hypothesis beyond valid arguments);
  * `chunks_flatten`, `num_processes`, `single_chunk`, `chunk_count`: the chunks the entry points work on partition
    the table;
  * EXACT entry points — `overlap_join`, `overlap_coefficient_join`, `OverlapFilter.filter_tables`,
    `SizeFilter.filter_tables`, `apply_matcher`, `filter_candset`: the result has the SAME rows in the SAME order
    (and the same columns) for any two `n_jobs` / cpu counts — stronger than "same multiset";
    `edit_distance_join`: the rows (without `_id`) for any two `n_jobs` are PERMUTATIONS of each other (the order of
    the matches of one right row depends on the per-chunk token ordering);
  * Jaccard / cosine / Dice joins (`njobs_irrelevant_setsim`): whether a NON-STRADDLING pair of present rows (one
    whose raw and rounded similarity agree about the threshold) is in the result does not depend on `n_jobs` — proved
    RELATIVE to entry-level completeness (`hcomplete`, property C01, proved by another file `Props/C01.lean` not
    available when this file was written); entry-level soundness (C02) is not assumed but proved here
    (`setSimJoin_sound_keys`).

  Scope / hypotheses: arguments pass the validations; the theorems that CONCLUDE that the two calls return frames
  (`*_njobs`) assume the body conditions `BodyOK` of SSJ/Props/Common.lean — present join values are strings, no
  `_id` in the output header; they do not depend on `n_jobs`, and without them every call raises for every `n_jobs`
  (`C15_body`) — resp. string match columns (`apply_matcher` with a tokenizer) / a `filter_pair` that does not raise on
  the referenced pairs (`filter_candset`); the right table (resp. the candidate set) has fewer than 2^40
  rows (precision limit of the float arithmetic in `split_table`; `chunksFor_flatten`).  For `edit_distance_join`:
  finite threshold, q ≥ 1 and a bag tokenizer obeying the q-gram count lemma — in particular the real q-gram
  tokenizer `qgrams q pad` (`editDistanceJoin_njobs_qgrams`).  No hypothesis on the tokenizer is needed for the other
  exact entry points.

  Not covered: the elided part of the property statement (row order of the input tables, label renaming — other
  properties); `PrefixFilter/PositionFilter/SuffixFilter.filter_tables` (not claimed by C10: their candidate sets
  depend on the per-chunk token ordering).
-/
import SSJ.Proofs.EntryGeneric
import SSJ.Proofs.BodyOK
import SSJ.Props.Common

namespace SSJ.Props.C10
open SSJ SSJ.Props

/-! ### `_id` -/

variable {call : Bool → Int → Int → Except PyErr Frame} {a : TableArgs} {l r : Frame} {oss : Bool}

/-- IDS: the `_id` column (first cell of every row) of every join / filter_tables result is `0, 1, …, n-1` -/
theorem ids (h : TableCall call a l r oss) (am : Bool) (nj cpu : Int) (fr : Frame) (hfr : call am nj cpu = .ok fr) :
    fr.rows.map (fun row => row.cell 0) = (List.range fr.rows.length).map (fun (i : Nat) => Cell.int i) := by
  obtain ⟨_, _, work, _, hcall⟩ := h.normal
  rw [hcall] at hfr
  exact RT.ids _ l r am oss cpu work fr hfr

/-- … i.e. row number `i` has `_id = i` -/
theorem id_cell (h : TableCall call a l r oss) (am : Bool) (nj cpu : Int) (fr : Frame) (hfr : call am nj cpu = .ok fr)
    (i : Nat) (hi : i < fr.rows.length) : (fr.rows[i]).cell 0 = Cell.int i := by
  obtain ⟨_, _, work, _, hcall⟩ := h.normal
  rw [hcall] at hfr
  exact RT.id_cell _ l r am oss cpu work fr hfr i hi

/-! ### the chunks partition the table -/

/-- `n_jobs` semantics: a negative `n_jobs` counts down from the cpu count (`-1` = all cpus), and at least one
    process is used -/
theorem num_processes (nJobs cpu : Int) :
    numProcesses nJobs cpu = max (if nJobs < 0 then cpu + 1 + nJobs else nJobs) 1 :=
  numProcesses_spec nJobs cpu

/-- whatever `n_jobs` and the cpu count are, the chunks concatenate to the table (order kept, nothing lost or
    repeated) -/
theorem chunks_flatten {α : Type} (table : List α) (nJobs cpu : Int) (hlen : table.length < 2 ^ 40) :
    (chunksFor table nJobs cpu).flatten = table :=
  chunksFor_flatten table nJobs cpu hlen

/-- at most one job (or at most one row): a single chunk, the table itself -/
theorem single_chunk {α : Type} (table : List α) (nJobs cpu : Int)
    (h : min (numProcesses nJobs cpu) table.length ≤ 1) : chunksFor table nJobs cpu = [table] :=
  chunksFor_single table nJobs cpu h

/-- otherwise there are `min(processes, rows)` chunks — never more chunks than rows -/
theorem chunk_count {α : Type} (table : List α) (nJobs cpu : Int)
    (h : 1 < min (numProcesses nJobs cpu) table.length) :
    ((chunksFor table nJobs cpu).length : Int) = min (numProcesses nJobs cpu) table.length := by
  unfold chunksFor
  simp only [not_le.2 h, if_false, splitTable_length]
  omega

/-! ### exact entry points: same rows, same order, for every `n_jobs` -/

/-- `OverlapFilter.filter_tables` -/
theorem overlapFilterTables_njobs (f : OverlapFilterObj) (a : TableArgs) (oss : Bool) (tok : String → List Tok)
    (l r : Frame) (hv : validateTablesAttrs a = .ok (l, r)) (hk : validateOutAndKeys a l r = .ok ())
    (hlen : r.rows.length < 2 ^ 40) (nj cpu nj' cpu' : Int)
    (hb : BodyOK a l r oss) :
    ∃ fr fr', overlapFilterTables f (a.withJobs nj) oss tok cpu = .ok fr ∧
      overlapFilterTables f (a.withJobs nj') oss tok cpu' = .ok fr' ∧
      fr.columns = fr'.columns ∧ fr.rows = fr'.rows := by
  obtain ⟨G, hG⟩ := Work.overlap_rowwise f oss tok
  obtain ⟨fr, fr', h1, h2, hc, hr⟩ :=
    RT.njobs_eq (Work.overlap_faithful f oss tok) hG a l r f.allowMissing hlen nj cpu nj' cpu' hb
  exact ⟨fr, fr', (eg_overlapFilterTables_eq f (a.withJobs nj) oss tok cpu l r hv hk).trans h1,
    (eg_overlapFilterTables_eq f (a.withJobs nj') oss tok cpu' l r hv hk).trans h2, hc, hr⟩

/-- `overlap_join_py` -/
theorem overlapJoin_njobs (j : JoinArgs) (t : TokObj) (toks : TokFn) (l r : Frame) (f : OverlapFilterObj)
    (hf : mkOverlapFilter j.threshold j.compOp j.allowMissing t = .ok f)
    (hv : validateTablesAttrs j.toTableArgs = .ok (l, r)) (hk : validateOutAndKeys j.toTableArgs l r = .ok ())
    (hlen : r.rows.length < 2 ^ 40) (nj cpu nj' cpu' : Int)
    (hb : BodyOK j.toTableArgs l r j.outSimScore) :
    ∃ fr fr', (overlapJoinPy (j.set j.allowMissing nj) t toks cpu).result = .ok fr ∧
      (overlapJoinPy (j.set j.allowMissing nj') t toks cpu').result = .ok fr' ∧
      fr.columns = fr'.columns ∧ fr.rows = fr'.rows := by
  obtain ⟨G, hG⟩ := Work.overlap_rowwise { overlapSize := j.threshold, compOp := j.compOp } j.outSimScore (toks true)
  obtain ⟨fr, fr', h1, h2, hc, hr⟩ :=
    RT.njobs_eq (Work.overlap_faithful _ _ _) hG j.toTableArgs l r j.allowMissing hlen nj cpu nj' cpu' hb
  exact ⟨fr, fr', (overlapJoinPy_eq (j.set j.allowMissing nj) t toks cpu l r f hf hv hk).trans h1,
    (overlapJoinPy_eq (j.set j.allowMissing nj') t toks cpu' l r f hf hv hk).trans h2, hc, hr⟩

/-- `overlap_coefficient_join_py` -/
theorem overlapCoefficientJoin_njobs (j : JoinArgs) (t : TokObj) (toks : TokFn) (l r : Frame)
    (hv : validateJoin "OVERLAP_COEFFICIENT" j t = .ok (l, r))
    (hlen : r.rows.length < 2 ^ 40) (nj cpu nj' cpu' : Int)
    (hb : BodyOK j.toTableArgs l r j.outSimScore) :
    ∃ fr fr', (overlapCoefficientJoinPy (j.set j.allowMissing nj) t toks cpu).result = .ok fr ∧
      (overlapCoefficientJoinPy (j.set j.allowMissing nj') t toks cpu').result = .ok fr' ∧
      fr.columns = fr'.columns ∧ fr.rows = fr'.rows := by
  obtain ⟨G, hG⟩ := Work.ovc_rowwise j.threshold j.compOp j.allowEmpty j.outSimScore (toks true)
  obtain ⟨fr, fr', h1, h2, hc, hr⟩ :=
    RT.njobs_eq (Work.ovc_faithful _ _ _ _ _) hG j.toTableArgs l r j.allowMissing hlen nj cpu nj' cpu' hb
  exact ⟨fr, fr', (overlapCoefficientJoinPy_eq (j.set j.allowMissing nj) t toks cpu l r hv).trans h1,
    (overlapCoefficientJoinPy_eq (j.set j.allowMissing nj') t toks cpu' l r hv).trans h2, hc, hr⟩

/-- `SizeFilter.filter_tables` -/
theorem sizeFilterTables_njobs (f : FilterObj) (a : TableArgs) (t : TokObj) (toks : TokFn)
    (l r : Frame) (hv : validateTablesAttrs a = .ok (l, r)) (hk : validateOutAndKeys a l r = .ok ())
    (hlen : r.rows.length < 2 ^ 40) (nj cpu nj' cpu' : Int)
    (hb : BodyOK a l r false) :
    ∃ fr fr', filterTables .size f (a.withJobs nj) t toks cpu = .ok fr ∧
      filterTables .size f (a.withJobs nj') t toks cpu' = .ok fr' ∧
      fr.columns = fr'.columns ∧ fr.rows = fr'.rows := by
  obtain ⟨G, hG⟩ := Work.sizeFilter_rowwise f (toks t.returnSet)
  obtain ⟨fr, fr', h1, h2, hc, hr⟩ :=
    RT.njobs_eq (Work.filter_faithful .size f (toks t.returnSet)) hG a l r f.allowMissing hlen nj cpu nj' cpu' hb
  exact ⟨fr, fr', (eg_filterTables_eq .size f (a.withJobs nj) t toks cpu l r hv hk).trans h1,
    (eg_filterTables_eq .size f (a.withJobs nj') t toks cpu' l r hv hk).trans h2, hc, hr⟩

/-- `apply_matcher`: same columns, same rows in the same order for every `n_jobs` (and whether or not the token
    cache is used) -/
theorem applyMatcher_njobs (a : MatcherArgs) (t : Option TokObj) (toks : TokFn) (sim : SimArg → SimArg → PyV)
    (c l r : Frame)
    (hc : a.candset = some c) (hlt : a.ltable = some l) (hrt : a.rtable = some r)
    (hv1 : validateAttr a.candLKey c = .ok ()) (hv2 : validateAttr a.candRKey c = .ok ())
    (hv3 : validateAttr a.lKey l = .ok ()) (hv4 : validateAttr a.rKey r = .ok ())
    (hv5 : validateAttr a.lAttr l = .ok ()) (hv6 : validateAttr a.rAttr r = .ok ())
    (hv7 : validateOutputAttrs a.lOut l a.rOut r = .ok ())
    (hv8 : ∀ tk, t = some tk → validateTokenizer tk = .ok ())
    (hv9 : genCheck (Gen.validate_comp_op (.str a.compOp)) = .ok ())
    (hv10 : validateKeyAttr a.lKey l = .ok ()) (hv11 : validateKeyAttr a.rKey r = .ok ())
    (hl : ∀ cr ∈ c.rows, PyMem (cr.cell (c.colIdx a.candLKey)) (l.col a.lKey))
    (hr : ∀ cr ∈ c.rows, PyMem (cr.cell (c.colIdx a.candRKey)) (r.col a.rKey))
    (hlen : c.rows.length < 2 ^ 40) (nj cpu nj' cpu' : Int)
    (hstr : t.isSome → StrColumn l a.lAttr ∧ StrColumn r a.rAttr) :
    ∃ fr fr', applyMatcher (a.withJobs nj) t toks sim cpu = .ok fr ∧
      applyMatcher (a.withJobs nj') t toks sim cpu' = .ok fr' ∧
      fr.columns = fr'.columns ∧ fr.rows = fr'.rows := by
  obtain ⟨fr, h1, c1, r1⟩ := applyMatcher_rows (a.withJobs nj) t toks sim cpu c l r hc hlt hrt hv1 hv2 hv3 hv4 hv5
    hv6 hv7 hv8 hv9 hv10 hv11 hl hr (chunksFor_flatten c.rows nj cpu hlen) hstr
  obtain ⟨fr', h2, c2, r2⟩ := applyMatcher_rows (a.withJobs nj') t toks sim cpu' c l r hc hlt hrt hv1 hv2 hv3 hv4 hv5
    hv6 hv7 hv8 hv9 hv10 hv11 hl hr (chunksFor_flatten c.rows nj' cpu' hlen) hstr
  refine ⟨fr, fr', h1, h2, ?_, ?_⟩
  · rw [c1, c2, matcherHeader_withJobs, matcherHeader_withJobs]
  · rw [r1, r2, matcherTableSpec_withJobs, matcherTableSpec_withJobs]

/-- `filter_candset` (for any filter, given as its `filter_pair` — a Python call `fp` that does not raise on the
    referenced value pairs, `hfp`; e.g. `filterPairPy k f tok` on string columns): same columns, same rows in the same
    order for every `n_jobs` -/
theorem filterCandset_njobs (a : CandsetArgs) (fp : Cell → Cell → Except PyErr Bool) (c l r : Frame)
    (hc : a.candset = some c) (hlt : a.ltable = some l) (hrt : a.rtable = some r)
    (hv1 : validateAttr a.candLKey c = .ok ()) (hv2 : validateAttr a.candRKey c = .ok ())
    (hv3 : validateAttr a.lKey l = .ok ()) (hv4 : validateAttr a.rKey r = .ok ())
    (hv5 : validateAttr a.lAttr l = .ok ()) (hv6 : validateAttr a.rAttr r = .ok ())
    (hv7 : validateAttrType a.lAttr l = .ok ()) (hv8 : validateAttrType a.rAttr r = .ok ())
    (hv9 : validateKeyAttr a.lKey l = .ok ()) (hv10 : validateKeyAttr a.rKey r = .ok ())
    (lval rval : Row → Cell)
    (hl : ∀ cr ∈ c.rows, ∃ lrow ∈ l.rows, (lrow.cell (l.colIdx a.lKey)).pyEq (cr.cell (c.colIdx a.candLKey)) = true ∧
                                         lrow.cell (l.colIdx a.lAttr) = lval cr)
    (hr : ∀ cr ∈ c.rows, ∃ rrow ∈ r.rows, (rrow.cell (r.colIdx a.rKey)).pyEq (cr.cell (c.colIdx a.candRKey)) = true ∧
                                         rrow.cell (r.colIdx a.rAttr) = rval cr)
    (hfp : ∀ cr ∈ c.rows, ∃ b, fp (lval cr) (rval cr) = .ok b)
    (hlen : c.rows.length < 2 ^ 40) (nj cpu nj' cpu' : Int) :
    ∃ fr fr', filterCandset (a.withJobs nj) fp cpu = .ok fr ∧ filterCandset (a.withJobs nj') fp cpu' = .ok fr' ∧
      fr.columns = fr'.columns ∧ fr.rows = fr'.rows := by
  let fpb : Cell → Cell → Bool := fun x y => match fp x y with | .ok b => b | .error _ => false
  have hfp' : ∀ cr ∈ c.rows, fp (lval cr) (rval cr) = .ok (fpb (lval cr) (rval cr)) := by
    intro cr hcr
    obtain ⟨b, hb⟩ := hfp cr hcr
    show _ = Except.ok (match fp (lval cr) (rval cr) with | .ok b => b | .error _ => false)
    rw [hb]
  have hlen' : (candLabelled c).length < 2 ^ 40 := by rw [eg_candLabelled_length]; exact hlen
  obtain ⟨fr, h1, c1, _, r1⟩ := filterCandset_rows (a.withJobs nj) fp fpb cpu c l r hc hlt hrt hv1 hv2 hv3 hv4 hv5 hv6 hv7
    hv8 hv9 hv10 lval rval hl hr hfp' (chunksFor_flatten _ nj cpu hlen')
  obtain ⟨fr', h2, c2, _, r2⟩ := filterCandset_rows (a.withJobs nj') fp fpb cpu' c l r hc hlt hrt hv1 hv2 hv3 hv4 hv5 hv6
    hv7 hv8 hv9 hv10 lval rval hl hr hfp' (chunksFor_flatten _ nj' cpu' hlen')
  exact ⟨fr, fr', h1, h2, c1.trans c2.symm, r1.trans r2.symm⟩

/-! ### the edit-distance join: the same multiset of rows for every `n_jobs` -/

/-- `edit_distance_join_py`: for any two `n_jobs` / cpu counts both calls succeed with the same columns and their
    rows (keys, projected attributes, distance — everything but `_id`) are permutations of each other.  `hqg` is the
    q-gram count lemma for the tokenizer in bag mode. -/
theorem editDistanceJoin_njobs (j : JoinArgs) (t : TokObj) (toks : TokFn) (l r : Frame)
    (hv : validateJoin "EDIT_DISTANCE" j t = .ok (l, r)) (hthr : FiniteNum j.threshold)
    (hq1 : 1 ≤ t.qval)
    (hqg : ∀ s s' : String, ((toks false s).diff (toks false s')).length ≤ t.qval.toNat * lev s s')
    (hlen : r.rows.length < 2 ^ 40) (nj cpu nj' cpu' : Int)
    (hb : BodyOK j.toTableArgs l r j.outSimScore) :
    ∃ fr fr', (editDistanceJoinPy (j.set j.allowMissing nj) t toks cpu).result = .ok fr ∧
      (editDistanceJoinPy (j.set j.allowMissing nj') t toks cpu').result = .ok fr' ∧
      fr.columns = fr'.columns ∧
      (fr.rows.map (fun row => row.drop 1)).Perm (fr'.rows.map (fun row => row.drop 1)) := by
  obtain ⟨G, hG⟩ := Work.ed_rowwisePerm (edTau j.threshold) t.qval j.compOp j.outSimScore (toks false) hq1
    (validateJoin_ed_op j t l r hv) hqg
  obtain ⟨fr, fr', h1, h2, hc, hr⟩ :=
    RT.njobs_perm (Work.ed_faithful _ _ _ _ _) hG j.toTableArgs l r j.allowMissing hlen nj cpu nj' cpu' hb
  exact ⟨fr, fr', (editDistanceJoinPy_eq (j.set j.allowMissing nj) t toks cpu l r hv hthr).trans h1,
    (editDistanceJoinPy_eq (j.set j.allowMissing nj') t toks cpu' l r hv hthr).trans h2, hc, hr⟩

/-- … in particular with the real q-gram tokenizer (`QgramTokenizer(qval=q, padding=pad, return_set=False)`) -/
theorem editDistanceJoin_njobs_qgrams (j : JoinArgs) (t : TokObj) (toks : TokFn) (l r : Frame) (pad : Bool)
    (hv : validateJoin "EDIT_DISTANCE" j t = .ok (l, r)) (hthr : FiniteNum j.threshold)
    (hq1 : 1 ≤ t.qval) (htok : toks false = qgrams t.qval.toNat pad)
    (hlen : r.rows.length < 2 ^ 40) (nj cpu nj' cpu' : Int)
    (hb : BodyOK j.toTableArgs l r j.outSimScore) :
    ∃ fr fr', (editDistanceJoinPy (j.set j.allowMissing nj) t toks cpu).result = .ok fr ∧
      (editDistanceJoinPy (j.set j.allowMissing nj') t toks cpu').result = .ok fr' ∧
      fr.columns = fr'.columns ∧
      (fr.rows.map (fun row => row.drop 1)).Perm (fr'.rows.map (fun row => row.drop 1)) :=
  editDistanceJoin_njobs j t toks l r hv hthr hq1
    (fun s s' => by rw [htok]; exact qgrams_diff_le _ pad s s') hlen nj cpu nj' cpu' hb

/-- the characterisation behind it: in every chunk, right row `rs` is matched with exactly the left rows within the
    distance bound that share a q-gram with it -/
theorem editDistance_row_matches (tau q : Int) (op : String) (tok : String → List Tok) (lAttr rAttr : Nat)
    (lArr chunk : List Row) (hq1 : 1 ≤ q) (hop : op ∈ ["<=", "<", "="])
    (hqg : ∀ s s' : String, ((tok s).diff (tok s')).length ≤ q.toNat * lev s s')
    (ra : Row) (hra : ra ∈ chunk) (c k : Nat) :
    (c, k) ∈ edRow tau q op tok lAttr rAttr lArr chunk ra ↔
      c < lArr.length ∧ k = lev ((lArr.getD c []).cell lAttr).strVal (ra.cell rAttr).strVal ∧
      Spec.qualED op tau ((lArr.getD c []).cell lAttr).strVal (ra.cell rAttr).strVal = true ∧
      Spec.shareToken tok ((lArr.getD c []).cell lAttr).strVal (ra.cell rAttr).strVal = true :=
  mem_edRow_iff_spec tau q op tok lAttr rAttr lArr chunk hq1 hop hqg ra hra c k

/-! ### Jaccard / cosine / Dice joins: non-straddling pairs -/

/-- the result `fr` contains a row for the pair of source rows `(ls, rs)` (identified by their keys) -/
def HasPair (a : TableArgs) (l r fr : Frame) (ls rs : Row) : Prop :=
  ∃ row ∈ fr.rows, rowKeys row = (keyOf l a.lKey ls, keyOf r a.rKey rs)

/-- SOUND, at entry level (property C02, the part needed here): if the result of a Jaccard / cosine / Dice join —
    for any `n_jobs` — contains a row for two source rows with present join values, then either both token sets are
    empty and `allow_empty` holds, or the ROUNDED similarity satisfies the comparison.  (Set-mode tokenizer output
    duplicate-free.) -/
theorem setSimJoin_sound_keys (m : Measure) (j : JoinArgs) (t : TokObj) (toks : TokFn) (l r : Frame)
    (hv : validateJoin m.name j t = .ok (l, r)) (hnd : ∀ s, (toks true s).Nodup)
    (cpu : Int) (fr : Frame) (hfr : (setSimJoinPy m j t toks cpu).result = .ok fr)
    (ls rs : Row) (hls : ls ∈ l.rows) (hrs : rs ∈ r.rows)
    (hlp : Present l j.lAttr ls) (hrp : Present r j.rAttr rs) (hp : HasPair j.toTableArgs l r fr ls rs) :
    (Spec.bothEmpty (tokensOf (toks true) l j.lAttr ls) (tokensOf (toks true) r j.rAttr rs) = true ∧
      j.allowEmpty = true) ∨
    (Spec.bothEmpty (tokensOf (toks true) l j.lAttr ls) (tokensOf (toks true) r j.rAttr rs) = false ∧
      Spec.qualRounded m j.compOp j.threshold (tokensOf (toks true) l j.lAttr ls)
        (tokensOf (toks true) r j.rAttr rs) = true) := by
  obtain ⟨_, hk⟩ := validateJoin_parts _ _ _ _ _ hv
  obtain ⟨k1, k2⟩ := eg_validateOutAndKeys_keys _ _ _ hk
  rw [setSimJoinPy_eq m j t toks cpu l r hv] at hfr
  obtain ⟨fr', hfr', _, hrows⟩ := RT.run_ok (Work.setSim_faithful m j.threshold j.compOp j.allowEmpty j.outSimScore
    (toks true)) j.toTableArgs l r j.allowMissing j.nJobs cpu
    (runTables_bodyOK _ _ _ _ _ _ _ _ hfr)
  rw [show j.toTableArgs.withJobs j.nJobs = j.toTableArgs from rfl, hfr] at hfr'
  cases hfr'
  obtain ⟨row, hrow, hkeys⟩ := hp
  obtain ⟨i, hi, rfl⟩ := List.getElem_of_mem hrow
  obtain ⟨x, hx, hxi⟩ := rows_getElem_of_eq _ _ hrows i hi
  rw [hxi] at hkeys
  simp only [rowKeys, keyOf, Prod.mk.injEq] at hkeys
  have h0 : x.cell 0 = ls.cell (l.colIdx j.lKey) := hkeys.1
  have h1 : x.cell 1 = rs.cell (r.colIdx j.rKey) := hkeys.2
  have hxP := RT.present_of_keys j.toTableArgs l r j.outSimScore k1 k2 _ j.allowMissing x hx ls rs hls hrs hlp hrp h0 h1
  exact RT.setSim_present_sound m j.threshold j.compOp j.allowEmpty j.outSimScore (toks true) hnd j.toTableArgs l r
    k1 k2 j.nJobs cpu x hxP ls rs hls hrs h0 h1

/-- N_JOBS IS IRRELEVANT FOR NON-STRADDLING PAIRS (relative to entry-level completeness `hcomplete`, property C01):
    for two source rows with present join values and not both token sets empty, whose raw-and-rounded qualification
    (`qualStrict`) agrees with the rounded one (`qualRounded`), the results for any two `n_jobs` / cpu counts agree
    on whether the pair is reported.

    `hcomplete` — for every `n_jobs` and cpu count the pair is reported if it qualifies strictly — is exactly what the
    entry-level completeness theorem `Props/C01.lean: setsim_complete` provides for this pair (from
    `setSimJoinPairs_complete` + `bounds_of_qual_core`, under its scope hypotheses `SetMeasure m`, `ThrOK`,
    `InScope`); that file was not available to this one, hence the explicit hypothesis.  Soundness is NOT assumed: it
    is `setSimJoin_sound_keys` above.  (Pairs with both token sets empty are reported iff `allow_empty`, independently
    of `n_jobs`: property C09.) -/
theorem njobs_irrelevant_setsim (m : Measure) (j : JoinArgs) (t : TokObj) (toks : TokFn) (l r : Frame)
    (hv : validateJoin m.name j t = .ok (l, r)) (hnd : ∀ s, (toks true s).Nodup)
    (ls rs : Row) (hls : ls ∈ l.rows) (hrs : rs ∈ r.rows)
    (hlp : Present l j.lAttr ls) (hrp : Present r j.rAttr rs)
    (hne : Spec.bothEmpty (tokensOf (toks true) l j.lAttr ls) (tokensOf (toks true) r j.rAttr rs) = false)
    (hcomplete : ∀ nj cpu : Int,
      Spec.qualStrict m j.compOp j.threshold (tokensOf (toks true) l j.lAttr ls)
        (tokensOf (toks true) r j.rAttr rs) = true →
      ∃ fr, (setSimJoinPy m (j.set j.allowMissing nj) t toks cpu).result = .ok fr ∧
        HasPair j.toTableArgs l r fr ls rs)
    (hns : Spec.qualStrict m j.compOp j.threshold (tokensOf (toks true) l j.lAttr ls)
              (tokensOf (toks true) r j.rAttr rs) =
           Spec.qualRounded m j.compOp j.threshold (tokensOf (toks true) l j.lAttr ls)
              (tokensOf (toks true) r j.rAttr rs))
    (nj cpu nj' cpu' : Int) (fr fr' : Frame)
    (h1 : (setSimJoinPy m (j.set j.allowMissing nj) t toks cpu).result = .ok fr)
    (h2 : (setSimJoinPy m (j.set j.allowMissing nj') t toks cpu').result = .ok fr') :
    HasPair j.toTableArgs l r fr ls rs ↔ HasPair j.toTableArgs l r fr' ls rs := by
  have key : ∀ (n c n' c' : Int) (f f' : Frame),
      (setSimJoinPy m (j.set j.allowMissing n) t toks c).result = .ok f →
      (setSimJoinPy m (j.set j.allowMissing n') t toks c').result = .ok f' →
      HasPair j.toTableArgs l r f ls rs → HasPair j.toTableArgs l r f' ls rs := by
    intro n c n' c' f f' hf hf' hp
    have hs : (Spec.bothEmpty (tokensOf (toks true) l j.lAttr ls) (tokensOf (toks true) r j.rAttr rs) = true ∧
          j.allowEmpty = true) ∨
        (Spec.bothEmpty (tokensOf (toks true) l j.lAttr ls) (tokensOf (toks true) r j.rAttr rs) = false ∧
          Spec.qualRounded m j.compOp j.threshold (tokensOf (toks true) l j.lAttr ls)
            (tokensOf (toks true) r j.rAttr rs) = true) :=
      setSimJoin_sound_keys m (j.set j.allowMissing n) t toks l r hv hnd c f hf ls rs hls hrs hlp hrp hp
    rcases hs with ⟨hb, _⟩ | ⟨_, hq⟩
    · rw [hne] at hb; cases hb
    · obtain ⟨f'', hf'', hp''⟩ := hcomplete n' c' (by rw [hns]; exact hq)
      rw [hf'] at hf''
      cases hf''
      exact hp''
  exact ⟨key nj cpu nj' cpu' fr fr' h1 h2, key nj' cpu' nj cpu fr' fr h2 h1⟩

/-! ### non-vacuity -/

example : numProcesses (-1) 4 = 4 ∧ numProcesses 0 4 = 1 ∧ numProcesses 7 4 = 7 ∧ numProcesses (-9) 4 = 1 := by
  simp [num_processes]

/-- more negative than the machine has cpus: one process, one chunk -/
example : chunksFor [1, 2, 3] (-9) 4 = [[1, 2, 3]] := single_chunk _ _ _ (by rw [num_processes]; decide)

def exL : Frame := { columns := ["id", "name"], dtypes := ["int64", "object"],
                     rows := [[.int 1, .str "ab"], [.int 2, .missing]] }
def exR : Frame := { columns := ["rid", "title"], dtypes := ["int64", "object"],
                     rows := [[.int 7, .str "abc"], [.int 8, .str "b"]] }
def exJoin : JoinArgs := { ltable := some exL, rtable := some exR, lKey := "id", rKey := "rid", lAttr := "name",
                           rAttr := "title", threshold := .int 1, compOp := "<=" }
def exTokObj : TokObj := { isQgram := true, qval := 2 }

/-- the hypotheses of `editDistanceJoin_njobs_qgrams` are satisfiable: a concrete edit-distance join with the real
    2-gram tokenizer; 1 job on 4 cpus vs. 7 jobs on 2 cpus -/
example : ∃ fr fr', (editDistanceJoinPy (exJoin.set false 1) exTokObj (fun _ => qgrams 2 true) 4).result = .ok fr ∧
    (editDistanceJoinPy (exJoin.set false 7) exTokObj (fun _ => qgrams 2 true) 2).result = .ok fr' ∧
    fr.columns = fr'.columns ∧
    (fr.rows.map (fun row => row.drop 1)).Perm (fr'.rows.map (fun row => row.drop 1)) :=
  editDistanceJoin_njobs_qgrams exJoin exTokObj (fun _ => qgrams 2 true) exL exR true (by decide)
    (Or.inl ⟨1, rfl⟩) (by decide) rfl (by decide) 1 4 7 2 (by decide +kernel)

/-- … and those of the exact statements: `OverlapFilter.filter_tables` on the same tables -/
example : ∃ fr fr', overlapFilterTables { overlapSize := .int 1, compOp := ">=" } (exJoin.toTableArgs.withJobs 1) true
      (fun s => [s]) 4 = .ok fr ∧
    overlapFilterTables { overlapSize := .int 1, compOp := ">=" } (exJoin.toTableArgs.withJobs (-1)) true
      (fun s => [s]) 8 = .ok fr' ∧ fr.columns = fr'.columns ∧ fr.rows = fr'.rows :=
  overlapFilterTables_njobs _ exJoin.toTableArgs true _ exL exR (by decide) (by decide) (by decide) 1 4 (-1) 8
    (by decide +kernel)

section AxiomCheck
#print axioms ids
#print axioms id_cell
#print axioms num_processes
#print axioms chunks_flatten
#print axioms single_chunk
#print axioms chunk_count
#print axioms overlapFilterTables_njobs
#print axioms overlapJoin_njobs
#print axioms overlapCoefficientJoin_njobs
#print axioms sizeFilterTables_njobs
#print axioms applyMatcher_njobs
#print axioms filterCandset_njobs
#print axioms editDistanceJoin_njobs
#print axioms editDistanceJoin_njobs_qgrams
#print axioms editDistance_row_matches
#print axioms setSimJoin_sound_keys
#print axioms njobs_irrelevant_setsim
end AxiomCheck

end SSJ.Props.C10

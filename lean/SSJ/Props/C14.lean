/-
  C14 — Filters prune what their technique promises to prune.
  "SizeFilter (JACCARD, COSINE, DICE, EDIT_DISTANCE) decides on the two token counts alone and is tight: besides
  keeping every pair whose counts allow the threshold to be met (C04), it drops every pair whose counts put the best
  attainable similarity more than 1e-4 below the threshold (for edit distance: whose counts differ by more than the
  threshold).  PrefixFilter, PositionFilter and OverlapFilter never keep a pair that has no token in common unless
  both values have no tokens at all (C09), and the pairs PositionFilter.filter_tables keeps are a subset of those kept
  by PrefixFilter and by SizeFilter with the same parameters on the same tables."

  MODEL.  `filterPair k f tok l r` (`filter_pair`, `true` = dropped), `filterTables k f a t toks cpu` (`filter_tables`,
  DataFrame in / DataFrame out), `overlapFilterPair` (SSJ/Model/Frame.lean, Filters.lean).

  WHAT IS PROVED.
    SizeFilter decides on the counts alone  : `size_counts_only` (filter_pair: equal counts ⇒ equal verdict, even across
        tokenizers), `size_pair_exact` (kept ⇔ right count inside the window computed from the left count),
        `size_tables_counts_only` (filter_tables at entry level: a pair of present rows is listed ⇔ `SizeEmits f |A| |B|`,
        a condition on the two counts; this is `SSJ.mem_sizePairs_iff` lifted through chunking).  Any measure.
    SizeFilter is tight                     : `size_tight_jaccard/_dice/_cosine` (filter_pair), `size_tight_tables_jaccard/
        _dice/_cosine` (filter_tables): both values have tokens and the best similarity attainable with these counts
        (JACCARD `min/max`, DICE `2·min/(n+k)`, COSINE `√(min/max)`) is more than 1e-4 below the threshold ⇒ dropped /
        not listed.  One value without tokens (best attainable similarity 0): `size_tight_left_empty`,
        `size_tight_right_empty` (filter_pair; the second needs `prefThr m ≤ thr`, see below), `size_tight_tables_one_empty`
        (filter_tables; no extra hypothesis).  EDIT_DISTANCE: `size_tight_ed`, `size_tight_tables_ed` (counts differing by
        more than the threshold ⇒ dropped / not listed).
    No common token ⇒ not kept              : `no_common_token_prefix`, `no_common_token_position` (filter_pair),
        `no_common_token_prefix_tables`, `no_common_token_position_tables` (filter_tables at entry level), any measure,
        any threshold, any tokenizer; `overlap_filter_kept_common` (OverlapFilter.filter_pair, threshold an int ≥ 1),
        `overlap_filter_tables_kept_common` (OverlapFilter.filter_tables at entry level, any threshold/operator).
    Inclusions                              : `position_subset_prefix` (any measure/threshold/tokenizer),
        `position_subset_size` (JACCARD/COSINE/DICE), `position_subset_size_ed` (EDIT_DISTANCE, τ ≥ 0), both from
        `position_subset_size_of` (any filter object whose size lower bound never exceeds the count itself).

  HYPOTHESES / SCOPE.  Thresholds of the set measures: doubles with `2⁻²⁰ ≤ thr ≤ 1` (`ThrOK`), token counts below 2³²
  (precision limits, not enumeration bounds); COSINE tightness needs `thr > 1e-4` (so that `thr − 1e-4` is a positive
  number to square).  `size_tight_right_empty` (LEFT value has tokens, RIGHT value has none, filter_pair) needs
  `prefThr m ≤ thr` (1e-4 JACCARD, 2e-4 DICE, 1e-2 COSINE): below, `round(·,4)` can make the size lower bound of a
  non-empty record 0 and `filter_pair` then keeps the pair (non-empty, empty) although its similarity is 0 — e.g.
  COSINE, thr = 0.005, one token: `ceil(round(0.000025·1, 4)) = 0`.  filter_tables is not affected (an empty probe finds
  no non-empty record because `upper 0 = 0`; an empty record is never indexed for a non-empty probe).
  filter_tables theorems: valid table arguments, right table of fewer than 2⁴⁰ rows, tokenizer used in its current
  mode (as for C04).  For the inclusions with the SAME arguments `a t toks cpu` both calls use the same chunks.
  Under OVERLAP `position_subset_size` is not claimed (the size filter's early exit `lower n > n` fires for probes with
  fewer tokens than the threshold); `position_subset_size_of` states the exact condition.

  NOT COVERED: SuffixFilter (it makes no pruning promise in C14); OverlapFilter with a float overlap size.
-/
import SSJ.Proofs.EntryFilters

namespace SSJ.Props.C14
open SSJ SSJ.Spec SSJ.Props

/-! ## SizeFilter decides on the two token counts alone -/

/-- two pairs of present values with the same token counts (even under different tokenizers) get the same verdict
    from SizeFilter.filter_pair -/
theorem size_counts_only (f : FilterObj) (tok tok' : String → List Tok) (l r l' r' : Cell)
    (hl : l.isMissing = false) (hr : r.isMissing = false) (hl' : l'.isMissing = false) (hr' : r'.isMissing = false)
    (h1 : (tok l.strVal).length = (tok' l'.strVal).length) (h2 : (tok r.strVal).length = (tok' r'.strVal).length) :
    filterPair .size f tok l r = filterPair .size f tok' l' r' :=
  EntryFilters.sizeFilterPair_counts f tok tok' l r l' r' hl hr hl' hr' h1 h2

/-- SizeFilter.filter_pair keeps a pair of present values (not both without tokens) iff the right count lies in the
    size window `[lower |A|, upper |A|]` computed from the left count -/
theorem size_pair_exact (f : FilterObj) (tok : String → List Tok) (l r : Cell)
    (hl : l.isMissing = false) (hr : r.isMissing = false)
    (hne : ¬ ((tok l.strVal).length = 0 ∧ (tok r.strVal).length = 0)) :
    filterPair .size f tok l r = false ↔
      (f.cfg.lower (tok l.strVal).length ≤ ((tok r.strVal).length : Int) ∧
        ((tok r.strVal).length : Int) ≤ f.cfg.upper (tok l.strVal).length) :=
  EntryFilters.sizeFilterPair_iff f tok l r hl hr hne

/-- SizeFilter.filter_tables lists a pair of source rows with present join values iff `SizeEmits f |A| |B|` holds — a
    condition on the two token counts only: both 0 and empties handled, or `|A| ≠ 0`, `lower |B| ≤ |B|` (no early
    exit) and `lower |B| ≤ |A| ≤ upper |B|` -/
theorem size_tables_counts_only (f : FilterObj) (a : TableArgs) (t : TokObj) (toks : TokFn) (cpu : Int) (l r fr : Frame)
    (hv : validateTablesAttrs a = .ok (l, r)) (hk : validateOutAndKeys a l r = .ok ())
    (hrows : r.rows.length < 2 ^ 40) (hres : filterTables .size f a t toks cpu = .ok fr)
    (ls rs : Row) (hls : ls ∈ l.rows) (hrs : rs ∈ r.rows)
    (hlp : Present l a.lAttr ls) (hrp : Present r a.rAttr rs) :
    (∃ row ∈ fr.rows, rowKeys row = (keyOf l a.lKey ls, keyOf r a.rKey rs)) ↔
      SizeEmits f (tokensOf (toks t.returnSet) l a.lAttr ls).length (tokensOf (toks t.returnSet) r a.rAttr rs).length :=
  EntryFilters.filterTables_size_iff f a t toks cpu l r fr hv hk hrows hres ls rs hls hrs hlp hrp

/-! ## SizeFilter is tight: filter_pair -/

section TightPair
variable (thr : Rat) (ht : ThrOK thr) (f : FilterObj) (tok : String → List Tok)
  (hsm : ∀ s, (tok s).length < 2 ^ 32) (l r : Cell) (hl : l.isMissing = false) (hr : r.isMissing = false)
include ht hsm hl hr

/-- JACCARD: both values have tokens and `min(n,k)/max(n,k) < thr − 1e-4` ⇒ dropped -/
theorem size_tight_jaccard (hmeas : f.cfg.measure = .jaccard) (hthr : f.cfg.threshold = .float thr)
    (hA : 1 ≤ (tok l.strVal).length) (hB : 1 ≤ (tok r.strVal).length)
    (h : ((min (tok l.strVal).length (tok r.strVal).length : Nat) : Rat) /
         ((max (tok l.strVal).length (tok r.strVal).length : Nat) : Rat) < thr - 1 / 10000) :
    filterPair .size f tok l r = true := by
  refine EntryFilters.sizeFilterPair_dropped f tok l r hl hr (by omega) ?_
  have sb := EntryFilters.sameBounds_set f.cfg .jaccard (Or.inl rfl) thr hmeas hthr
  rw [sb.lower, sb.upper]
  exact SSJ.size_tight_jaccard thr ht _ _ hA hB (hsm _) (hsm _) h

/-- DICE: both values have tokens and `2·min(n,k)/(n+k) < thr − 1e-4` ⇒ dropped -/
theorem size_tight_dice (hmeas : f.cfg.measure = .dice) (hthr : f.cfg.threshold = .float thr)
    (hA : 1 ≤ (tok l.strVal).length) (hB : 1 ≤ (tok r.strVal).length)
    (h : (2 * (min (tok l.strVal).length (tok r.strVal).length : Nat) : Rat) /
         (((tok l.strVal).length : Rat) + (tok r.strVal).length) < thr - 1 / 10000) :
    filterPair .size f tok l r = true := by
  refine EntryFilters.sizeFilterPair_dropped f tok l r hl hr (by omega) ?_
  have sb := EntryFilters.sameBounds_set f.cfg .dice (Or.inr (Or.inr rfl)) thr hmeas hthr
  rw [sb.lower, sb.upper]
  exact SSJ.size_tight_dice thr ht _ _ hA hB (hsm _) (hsm _) h

/-- COSINE: both values have tokens and `√(min(n,k)/max(n,k)) < thr − 1e-4`, i.e. `min/max < (thr − 1e-4)²` with
    `thr > 1e-4` ⇒ dropped -/
theorem size_tight_cosine (hmeas : f.cfg.measure = .cosine) (hthr : f.cfg.threshold = .float thr) (h4 : 1 / 10000 < thr)
    (hA : 1 ≤ (tok l.strVal).length) (hB : 1 ≤ (tok r.strVal).length)
    (h : ((min (tok l.strVal).length (tok r.strVal).length : Nat) : Rat) /
         ((max (tok l.strVal).length (tok r.strVal).length : Nat) : Rat) < (thr - 1 / 10000) ^ 2) :
    filterPair .size f tok l r = true := by
  refine EntryFilters.sizeFilterPair_dropped f tok l r hl hr (by omega) ?_
  have sb := EntryFilters.sameBounds_set f.cfg .cosine (Or.inr (Or.inl rfl)) thr hmeas hthr
  rw [sb.lower, sb.upper]
  exact SSJ.size_tight_cosine thr ht h4 _ _ hA hB (hsm _) (hsm _) h

/-- the LEFT value has no tokens, the right one has (similarity 0): dropped -/
theorem size_tight_left_empty (m : Measure) (hm : SetMeasure m) (hmeas : f.cfg.measure = m) (hthr : f.cfg.threshold = .float thr)
    (hA : (tok l.strVal).length = 0) (hB : 1 ≤ (tok r.strVal).length) :
    filterPair .size f tok l r = true := by
  refine EntryFilters.sizeFilterPair_dropped f tok l r hl hr (by omega) ?_
  have sb := EntryFilters.sameBounds_set f.cfg m hm thr hmeas hthr
  rw [sb.lower, sb.upper, hA]
  have := EntryFilters.upper_zero_lt m hm thr ht _ hB (hsm _)
  omega

/-- the RIGHT value has no tokens, the left one has (similarity 0): dropped — for thresholds `≥ prefThr m` (header) -/
theorem size_tight_right_empty (m : Measure) (hm : SetMeasure m) (hmeas : f.cfg.measure = m) (hthr : f.cfg.threshold = .float thr) (h4 : prefThr m ≤ thr)
    (hA : 1 ≤ (tok l.strVal).length) (hB : (tok r.strVal).length = 0) :
    filterPair .size f tok l r = true := by
  refine EntryFilters.sizeFilterPair_dropped f tok l r hl hr (by omega) ?_
  have sb := EntryFilters.sameBounds_set f.cfg m hm thr hmeas hthr
  rw [sb.lower, sb.upper, hB]
  have := lower_pos m hm thr ht h4 _ hA (hsm _)
  omega

end TightPair

/-- EDIT_DISTANCE (int threshold τ): token counts differing by more than τ ⇒ SizeFilter.filter_pair drops the pair -/
theorem size_tight_ed (f : FilterObj) (tau : Int) (hm : f.cfg.measure = .editDistance) (hthr : f.cfg.threshold = .int tau)
    (tok : String → List Tok) (l r : Cell) (hl : l.isMissing = false) (hr : r.isMissing = false)
    (hne : ¬ ((tok l.strVal).length = 0 ∧ (tok r.strVal).length = 0))
    (h : tau < ((tok l.strVal).length : Int) - (tok r.strVal).length ∨
         tau < ((tok r.strVal).length : Int) - (tok l.strVal).length) :
    filterPair .size f tok l r = true := by
  refine EntryFilters.sizeFilterPair_dropped f tok l r hl hr hne ?_
  rw [EntryFilters.lower_ed f.cfg tau hm hthr, EntryFilters.upper_ed f.cfg tau hm hthr]
  omega

/-! ## SizeFilter is tight: filter_tables -/

section TightTables
variable (f : FilterObj) (a : TableArgs) (t : TokObj) (toks : TokFn) (cpu : Int) (l r fr : Frame)
  (hv : validateTablesAttrs a = .ok (l, r)) (hk : validateOutAndKeys a l r = .ok ())
  (hrows : r.rows.length < 2 ^ 40) (hres : filterTables .size f a t toks cpu = .ok fr)
  (ls rs : Row) (hls : ls ∈ l.rows) (hrs : rs ∈ r.rows)
  (hlp : Present l a.lAttr ls) (hrp : Present r a.rAttr rs)
include hv hk hrows hres hls hrs hlp hrp

/-- the result of SizeFilter.filter_tables has no row for the pair of source rows `ls`, `rs` -/
local notation "NotListed" => ¬ ∃ row ∈ fr.rows, rowKeys row = (keyOf l a.lKey ls, keyOf r a.rKey rs)

/-- JACCARD: both values have tokens and `min/max < thr − 1e-4` ⇒ not listed -/
theorem size_tight_tables_jaccard (thr : Rat) (ht : ThrOK thr) (hmeas : f.cfg.measure = .jaccard) (hthr : f.cfg.threshold = .float thr)
    (hsm : ∀ s, (toks t.returnSet s).length < 2 ^ 32)
    (hA : 1 ≤ (tokensOf (toks t.returnSet) l a.lAttr ls).length) (hB : 1 ≤ (tokensOf (toks t.returnSet) r a.rAttr rs).length)
    (h : ((min (tokensOf (toks t.returnSet) l a.lAttr ls).length (tokensOf (toks t.returnSet) r a.rAttr rs).length : Nat) : Rat) /
         ((max (tokensOf (toks t.returnSet) l a.lAttr ls).length (tokensOf (toks t.returnSet) r a.rAttr rs).length : Nat) : Rat)
          < thr - 1 / 10000) : NotListed := by
  intro hrow
  obtain ⟨h1, h2, -⟩ := EntryFilters.filterTables_size_window f a t toks cpu l r fr hv hk hrows hres ls rs hls hrs hlp hrp
    hrow (by omega)
  have sb := EntryFilters.sameBounds_set f.cfg .jaccard (Or.inl rfl) thr hmeas hthr
  rw [sb.lower] at h1
  rw [sb.upper] at h2
  rw [min_comm, max_comm] at h
  exact SSJ.size_tight_jaccard thr ht _ _ hB hA (hsm _) (hsm _) h ⟨h1, h2⟩

/-- DICE: both values have tokens and `2·min/(n+k) < thr − 1e-4` ⇒ not listed -/
theorem size_tight_tables_dice (thr : Rat) (ht : ThrOK thr) (hmeas : f.cfg.measure = .dice) (hthr : f.cfg.threshold = .float thr)
    (hsm : ∀ s, (toks t.returnSet s).length < 2 ^ 32)
    (hA : 1 ≤ (tokensOf (toks t.returnSet) l a.lAttr ls).length) (hB : 1 ≤ (tokensOf (toks t.returnSet) r a.rAttr rs).length)
    (h : (2 * (min (tokensOf (toks t.returnSet) l a.lAttr ls).length (tokensOf (toks t.returnSet) r a.rAttr rs).length : Nat) : Rat) /
         (((tokensOf (toks t.returnSet) l a.lAttr ls).length : Rat) + (tokensOf (toks t.returnSet) r a.rAttr rs).length)
          < thr - 1 / 10000) : NotListed := by
  intro hrow
  obtain ⟨h1, h2, -⟩ := EntryFilters.filterTables_size_window f a t toks cpu l r fr hv hk hrows hres ls rs hls hrs hlp hrp
    hrow (by omega)
  have sb := EntryFilters.sameBounds_set f.cfg .dice (Or.inr (Or.inr rfl)) thr hmeas hthr
  rw [sb.lower] at h1
  rw [sb.upper] at h2
  rw [min_comm, add_comm] at h
  exact SSJ.size_tight_dice thr ht _ _ hB hA (hsm _) (hsm _) h ⟨h1, h2⟩

/-- COSINE: both values have tokens and `min/max < (thr − 1e-4)²`, `thr > 1e-4` ⇒ not listed -/
theorem size_tight_tables_cosine (thr : Rat) (ht : ThrOK thr) (hmeas : f.cfg.measure = .cosine) (hthr : f.cfg.threshold = .float thr) (h4 : 1 / 10000 < thr)
    (hsm : ∀ s, (toks t.returnSet s).length < 2 ^ 32)
    (hA : 1 ≤ (tokensOf (toks t.returnSet) l a.lAttr ls).length) (hB : 1 ≤ (tokensOf (toks t.returnSet) r a.rAttr rs).length)
    (h : ((min (tokensOf (toks t.returnSet) l a.lAttr ls).length (tokensOf (toks t.returnSet) r a.rAttr rs).length : Nat) : Rat) /
         ((max (tokensOf (toks t.returnSet) l a.lAttr ls).length (tokensOf (toks t.returnSet) r a.rAttr rs).length : Nat) : Rat)
          < (thr - 1 / 10000) ^ 2) : NotListed := by
  intro hrow
  obtain ⟨h1, h2, -⟩ := EntryFilters.filterTables_size_window f a t toks cpu l r fr hv hk hrows hres ls rs hls hrs hlp hrp
    hrow (by omega)
  have sb := EntryFilters.sameBounds_set f.cfg .cosine (Or.inr (Or.inl rfl)) thr hmeas hthr
  rw [sb.lower] at h1
  rw [sb.upper] at h2
  rw [min_comm, max_comm] at h
  exact SSJ.size_tight_cosine thr ht h4 _ _ hB hA (hsm _) (hsm _) h ⟨h1, h2⟩

/-- exactly one of the two values has no tokens (similarity 0) ⇒ not listed; any covered threshold -/
theorem size_tight_tables_one_empty (m : Measure) (hm : SetMeasure m) (thr : Rat) (ht : ThrOK thr)
    (hmeas : f.cfg.measure = m) (hthr : f.cfg.threshold = .float thr)
    (hsm : ∀ s, (toks t.returnSet s).length < 2 ^ 32)
    (h : ((tokensOf (toks t.returnSet) l a.lAttr ls).length = 0 ∧ 1 ≤ (tokensOf (toks t.returnSet) r a.rAttr rs).length) ∨
         (1 ≤ (tokensOf (toks t.returnSet) l a.lAttr ls).length ∧ (tokensOf (toks t.returnSet) r a.rAttr rs).length = 0)) :
    NotListed := by
  intro hrow
  obtain ⟨h1, h2, h3⟩ := EntryFilters.filterTables_size_window f a t toks cpu l r fr hv hk hrows hres ls rs hls hrs hlp hrp
    hrow (by omega)
  rcases h with ⟨hA, -⟩ | ⟨hA, hB⟩
  · exact h3 hA
  · have sb := EntryFilters.sameBounds_set f.cfg m hm thr hmeas hthr
    rw [sb.upper, hB] at h2
    have := EntryFilters.upper_zero_lt m hm thr ht _ hA (hsm _)
    omega

/-- EDIT_DISTANCE (int threshold τ): token counts differing by more than τ ⇒ not listed -/
theorem size_tight_tables_ed (tau : Int) (hm : f.cfg.measure = .editDistance) (hthr : f.cfg.threshold = .int tau)
    (hne : ¬ ((tokensOf (toks t.returnSet) l a.lAttr ls).length = 0 ∧ (tokensOf (toks t.returnSet) r a.rAttr rs).length = 0))
    (h : tau < ((tokensOf (toks t.returnSet) l a.lAttr ls).length : Int) - (tokensOf (toks t.returnSet) r a.rAttr rs).length ∨
         tau < ((tokensOf (toks t.returnSet) r a.rAttr rs).length : Int) - (tokensOf (toks t.returnSet) l a.lAttr ls).length) :
    NotListed := by
  intro hrow
  obtain ⟨h1, h2, -⟩ := EntryFilters.filterTables_size_window f a t toks cpu l r fr hv hk hrows hres ls rs hls hrs hlp hrp
    hrow hne
  rw [EntryFilters.lower_ed f.cfg tau hm hthr] at h1
  rw [EntryFilters.upper_ed f.cfg tau hm hthr] at h2
  omega

end TightTables

/-! ## no common token ⇒ not kept (unless both values have no tokens) -/

/-- a pair of present values kept by PrefixFilter.filter_pair has a token in common, unless both have no tokens;
    any measure, threshold, tokenizer -/
theorem no_common_token_prefix (f : FilterObj) (tok : String → List Tok) (l r : Cell)
    (hl : l.isMissing = false) (hr : r.isMissing = false)
    (hne : ¬ ((tok l.strVal).length = 0 ∧ (tok r.strVal).length = 0))
    (h : filterPair .prefix f tok l r = false) : ∃ w, w ∈ tok l.strVal ∧ w ∈ tok r.strVal :=
  EntryFilters.prefixFilterPair_common f tok l r hl hr hne h

/-- the same for PositionFilter.filter_pair -/
theorem no_common_token_position (f : FilterObj) (tok : String → List Tok) (l r : Cell)
    (hl : l.isMissing = false) (hr : r.isMissing = false)
    (hne : ¬ ((tok l.strVal).length = 0 ∧ (tok r.strVal).length = 0))
    (h : filterPair .position f tok l r = false) : ∃ w, w ∈ tok l.strVal ∧ w ∈ tok r.strVal :=
  EntryFilters.positionFilterPair_common f tok l r hl hr hne h

/-- a pair of source rows with present join values listed by PrefixFilter.filter_tables has a token in common, unless
    both have no tokens -/
theorem no_common_token_prefix_tables (f : FilterObj) (a : TableArgs) (t : TokObj) (toks : TokFn) (cpu : Int)
    (l r fr : Frame) (hv : validateTablesAttrs a = .ok (l, r)) (hk : validateOutAndKeys a l r = .ok ())
    (hrows : r.rows.length < 2 ^ 40) (hres : filterTables .prefix f a t toks cpu = .ok fr)
    (ls rs : Row) (hls : ls ∈ l.rows) (hrs : rs ∈ r.rows)
    (hlp : Present l a.lAttr ls) (hrp : Present r a.rAttr rs)
    (hrow : ∃ row ∈ fr.rows, rowKeys row = (keyOf l a.lKey ls, keyOf r a.rKey rs))
    (hne : ¬ (tokensOf (toks t.returnSet) l a.lAttr ls = [] ∧ tokensOf (toks t.returnSet) r a.rAttr rs = [])) :
    ∃ w, w ∈ tokensOf (toks t.returnSet) l a.lAttr ls ∧ w ∈ tokensOf (toks t.returnSet) r a.rAttr rs :=
  EntryFilters.filterTables_common_token .prefix f a t toks cpu l r fr (Or.inl rfl) hv hk hrows hres ls rs hls hrs hlp hrp
    hrow hne

/-- the same for PositionFilter.filter_tables -/
theorem no_common_token_position_tables (f : FilterObj) (a : TableArgs) (t : TokObj) (toks : TokFn) (cpu : Int)
    (l r fr : Frame) (hv : validateTablesAttrs a = .ok (l, r)) (hk : validateOutAndKeys a l r = .ok ())
    (hrows : r.rows.length < 2 ^ 40) (hres : filterTables .position f a t toks cpu = .ok fr)
    (ls rs : Row) (hls : ls ∈ l.rows) (hrs : rs ∈ r.rows)
    (hlp : Present l a.lAttr ls) (hrp : Present r a.rAttr rs)
    (hrow : ∃ row ∈ fr.rows, rowKeys row = (keyOf l a.lKey ls, keyOf r a.rKey rs))
    (hne : ¬ (tokensOf (toks t.returnSet) l a.lAttr ls = [] ∧ tokensOf (toks t.returnSet) r a.rAttr rs = [])) :
    ∃ w, w ∈ tokensOf (toks t.returnSet) l a.lAttr ls ∧ w ∈ tokensOf (toks t.returnSet) r a.rAttr rs :=
  EntryFilters.filterTables_common_token .position f a t toks cpu l r fr (Or.inr rfl) hv hk hrows hres ls rs hls hrs hlp hrp
    hrow hne

/-- OverlapFilter (overlap size an int `k ≥ 1`, operator `>=`, `>` or `=` as its constructor demands): a pair of
    present values kept by filter_pair has at least `k ≥ 1` tokens in common — in particular OverlapFilter never
    keeps a pair without a common token, not even two values without tokens -/
theorem overlap_filter_kept_common (f : OverlapFilterObj) (k : Int) (hk : f.overlapSize = .int k) (hk1 : 1 ≤ k)
    (hop : f.compOp = ">=" ∨ f.compOp = ">" ∨ f.compOp = "=") (tok : String → List Tok) (l r : Cell)
    (hl : l.isMissing = false) (hr : r.isMissing = false) (h : overlapFilterPair f tok l r = false) :
    k ≤ (interCount (tok l.strVal) (tok r.strVal) : Int) ∧ 1 ≤ interCount (tok l.strVal) (tok r.strVal) := by
  obtain ⟨-, -, hc⟩ := (overlapFilterPair_iff f tok l r hl hr).1 h
  rw [hk] at hc
  have := EntryFilters.overlap_comp_ge f.compOp hop _ k hc
  exact ⟨this, by omega⟩

/-- OverlapFilter.filter_tables (set tokenizer): a listed pair of source rows with present join values has a common
    token — whatever the overlap size and the operator -/
theorem overlap_filter_tables_kept_common (f : OverlapFilterObj) (a : TableArgs) (oss : Bool) (tok : String → List Tok)
    (cpu : Int) (l r fr : Frame) (hnd : ∀ s, (tok s).Nodup)
    (hv : validateTablesAttrs a = .ok (l, r)) (hk : validateOutAndKeys a l r = .ok ())
    (hrows : r.rows.length < 2 ^ 40) (hres : overlapFilterTables f a oss tok cpu = .ok fr)
    (ls rs : Row) (hls : ls ∈ l.rows) (hrs : rs ∈ r.rows)
    (hlp : Present l a.lAttr ls) (hrp : Present r a.rAttr rs)
    (hrow : ∃ row ∈ fr.rows, rowKeys row = (keyOf l a.lKey ls, keyOf r a.rKey rs)) :
    1 ≤ interCount (tokensOf tok l a.lAttr ls) (tokensOf tok r a.rAttr rs) :=
  ((EntryFilters.overlapFilterTables_iff f a oss tok cpu l r fr hnd hv hk hrows hres ls rs hls hrs hlp hrp).1 hrow).1

/-! ## PositionFilter.filter_tables ⊆ PrefixFilter.filter_tables, SizeFilter.filter_tables -/

section Subsets
variable (f : FilterObj) (a : TableArgs) (t : TokObj) (toks : TokFn) (cpu : Int) (l r fp fx : Frame)
  (hv : validateTablesAttrs a = .ok (l, r)) (hk : validateOutAndKeys a l r = .ok ())
include hv hk

/-- every row of `PositionFilter.filter_tables` occurs (up to its `_id`) in `PrefixFilter.filter_tables` called with
    the same filter parameters on the same arguments; in particular every key pair kept by the former is kept by the
    latter.  Any measure, threshold, tokenizer, `n_jobs`. -/
theorem position_subset_prefix (hp : filterTables .position f a t toks cpu = .ok fp)
    (hx : filterTables .prefix f a t toks cpu = .ok fx) :
    ∀ row ∈ fp.rows, ∃ row' ∈ fx.rows, row'.drop 1 = row.drop 1 ∧ rowKeys row' = rowKeys row :=
  EntryFilters.filterTables_subset a t toks cpu l r .position .prefix f f rfl fp fx hv hk hp hx
    (fun ch _ x y h => EntryFilters.emits_position_prefix f _ _ _ _ ch x y h)

/-- the same towards SizeFilter, for ANY filter object whose size lower bound never exceeds the count itself on the
    token lists the tokenizer produces (so that SizeFilter's early exit `lower n > n` never fires) -/
theorem position_subset_size_of
    (hearly : ∀ s, f.cfg.lower (toks t.returnSet s).length ≤ ((toks t.returnSet s).length : Int))
    (hp : filterTables .position f a t toks cpu = .ok fp)
    (hx : filterTables .size f a t toks cpu = .ok fx) :
    ∀ row ∈ fp.rows, ∃ row' ∈ fx.rows, row'.drop 1 = row.drop 1 ∧ rowKeys row' = rowKeys row :=
  EntryFilters.filterTables_subset a t toks cpu l r .position .size f f rfl fp fx hv hk hp hx
    (fun ch _ x y h => EntryFilters.emits_position_size f _ _ _ _ ch (fun _ _ => hearly _) x y h)

/-- JACCARD / COSINE / DICE: every row of `PositionFilter.filter_tables` occurs (up to `_id`) in
    `SizeFilter.filter_tables` with the same parameters on the same arguments -/
theorem position_subset_size (m : Measure) (hm : SetMeasure m) (thr : Rat) (ht : ThrOK thr)
    (hmeas : f.cfg.measure = m) (hthr : f.cfg.threshold = .float thr)
    (hsm : ∀ s, (toks t.returnSet s).length < 2 ^ 32)
    (hp : filterTables .position f a t toks cpu = .ok fp)
    (hx : filterTables .size f a t toks cpu = .ok fx) :
    ∀ row ∈ fp.rows, ∃ row' ∈ fx.rows, row'.drop 1 = row.drop 1 ∧ rowKeys row' = rowKeys row :=
  position_subset_size_of f a t toks cpu l r fp fx hv hk
    (fun s => by rw [(EntryFilters.sameBounds_set f.cfg m hm thr hmeas hthr).lower]; exact EntryFilters.lower_le_self m hm thr ht _ (hsm s)) hp hx

/-- EDIT_DISTANCE with an int threshold `τ ≥ 0`: the same inclusion -/
theorem position_subset_size_ed (tau : Int) (htau : 0 ≤ tau) (hm : f.cfg.measure = .editDistance)
    (hthr : f.cfg.threshold = .int tau)
    (hp : filterTables .position f a t toks cpu = .ok fp)
    (hx : filterTables .size f a t toks cpu = .ok fx) :
    ∀ row ∈ fp.rows, ∃ row' ∈ fx.rows, row'.drop 1 = row.drop 1 ∧ rowKeys row' = rowKeys row :=
  position_subset_size_of f a t toks cpu l r fp fx hv hk
    (fun s => by rw [EntryFilters.lower_ed f.cfg tau hm hthr]; omega) hp hx

end Subsets

/-! ## non-vacuity -/
section NonVacuity
open EntryFilters.Ex

/-- JACCARD, threshold 0.75; "x" has 2 tokens, "z" has 4: best attainable similarity 2/4 < 0.75 − 1e-4 ⇒ dropped -/
example : filterPair .size { cfg := cfgOf .jaccard (3 / 4) } exTok (.str "x") (.str "z") = true :=
  size_tight_jaccard (3 / 4) ⟨by norm_num, by norm_num⟩ _ exTok exTok_small _ _ rfl rfl rfl rfl (by decide) (by decide)
    (by
      have e1 : (exTok (Cell.str "x").strVal).length = 2 := by decide
      have e2 : (exTok (Cell.str "z").strVal).length = 4 := by decide
      rw [e1, e2]; norm_num)

/-- "x" ↦ {a,b} and "z" ↦ {c,d,e,f} have no token in common: PrefixFilter.filter_pair drops the pair -/
example : filterPair .prefix { cfg := cfgOf .jaccard (1 / 4) } exTok (.str "x") (.str "z") = true := by
  by_contra h
  obtain ⟨w, h1, h2⟩ := no_common_token_prefix { cfg := cfgOf .jaccard (1 / 4) } exTok (.str "x") (.str "z") rfl rfl
    (by decide) (by simpa using h)
  revert h1 h2
  have e1 : exTok (Cell.str "x").strVal = ["a", "b"] := by decide
  have e2 : exTok (Cell.str "z").strVal = ["c", "d", "e", "f"] := by decide
  rw [e1, e2]
  simp only [List.mem_cons, List.not_mem_nil, or_false]
  rintro (rfl | rfl) <;> decide

/-- the inclusions apply to the two small tables (`n_jobs = 2`, a missing value) -/
example : ∃ fp fx, filterTables .position { cfg := cfgOf .jaccard (1 / 4) } exA exT exToks 4 = .ok fp ∧
    filterTables .size { cfg := cfgOf .jaccard (1 / 4) } exA exT exToks 4 = .ok fx ∧
    ∀ row ∈ fp.rows, ∃ row' ∈ fx.rows, row'.drop 1 = row.drop 1 ∧ rowKeys row' = rowKeys row := by
  obtain ⟨fp, hp⟩ := EntryFilters.filterTables_total .position { cfg := cfgOf .jaccard (1 / 4) } exA exT exToks 4 exL exR
    ex_valid ex_keys (by decide +kernel)
  obtain ⟨fx, hx⟩ := EntryFilters.filterTables_total .size { cfg := cfgOf .jaccard (1 / 4) } exA exT exToks 4 exL exR
    ex_valid ex_keys (by decide +kernel)
  exact ⟨fp, fx, hp, hx, position_subset_size _ exA exT exToks 4 exL exR fp fx ex_valid ex_keys .jaccard (Or.inl rfl)
    (1 / 4) ex_thr rfl rfl exTok_small hp hx⟩

end NonVacuity

end SSJ.Props.C14

/-
  SSJ.Model.Profiler — profiler/profiler.py: counts, percentages, formatted statistics, comments
-/
import SSJ.Model.Frame

namespace SSJ.Profiler
open SSJ

/-- `sum(pd.isnull(column))` -/
def missingCount (col : List Cell) : Nat := (col.filter Cell.isMissing).length

/-- `column.nunique(dropna=True)`: the number of distinct present values under Python equality -/
def nunique (col : List Cell) : Nat := (dedupBy Cell.pyEq (col.filter (fun c => !c.isMissing))).length

/-- `unique_values` of the (repaired, F5) profiler: `nunique(dropna=True)`, plus one when a value is missing —
    all missing values (None, NaN, pd.NA) together count as one value -/
def uniqueCount (col : List Cell) : Nat := nunique col + (if missingCount col > 0 then 1 else 0)

/-- `round(float(k) / float(n) * 100, 2)` as an exact rational (a double); `0.0` for a table without rows
    (`if num_rows > 0: … else: 0.0`, /repo 39fa1bc: no division is evaluated then) -/
def percent (k n : Nat) : PyV :=
  if n = 0 then .float 0 else
  PyV.round (PyV.mul (PyV.div (PyV.toFloat (.int k)) (PyV.toFloat (.int n))) (.int 100)) (.int 2)

/-- `str(x)` of a double produced by `round(·, 2)` in [0, 100]: the shortest repr is the decimal
    `k/100` itself with at least one fractional digit -/
def pctToString (q : Rat) : String :=
  let k := F64.rhe (q * 100)
  let ip := k / 100
  let fr := (k % 100).toNat
  if fr % 10 = 0 then s!"{ip}.{fr / 10}" else if fr < 10 then s!"{ip}.0{fr}" else s!"{ip}.{fr}"

def formatStatistic (stat : Nat) (pct : PyV) : String :=
  match pct with
  | .float q => s!"{stat} ({pctToString q}%)"
  | _ => s!"{stat} (?%)"

/-- comment selection (repaired, F5): decided on the exact counts -/
def comment (unique missing n : Nat) (fmtMissing : String) : String :=
  if unique = n && missing = 0 then "This attribute can be used as a key attribute."
  else if missing > 0 then s!"Joining on this attribute will ignore {fmtMissing} rows."
  else ""

/-- (unique stat, missing stat, comments) of one profiled column; for a table without rows:
    `("0 (0.0%)", "0 (0.0%)", "This attribute can be used as a key attribute.")` -/
def profileColumn (col : List Cell) : String × String × String :=
  let n := col.length
  let u := uniqueCount col
  let m := missingCount col
  let fu := formatStatistic u (percent u n)
  let fm := formatStatistic m (percent m n)
  (fu, fm, comment u m n fm)

/-- `profile_table_for_join(input_table, profile_attrs)`: one row (attribute, unique stat, missing stat, comments) per
    profiled attribute, in request order (all columns when `profile_attrs` is None); a non-DataFrame raises TypeError,
    an unknown attribute AssertionError; a table without rows is profiled like any other (percentages `0.0`,
    /repo 39fa1bc: it used to raise ZeroDivisionError from `float(k) / float(0)`) -/
def profileTable (t : Option Frame) (attrs : Option (List String)) : Except PyErr (List (String × String × String × String)) := do
  let f ← validateInputTable t
  let use ← match attrs with
    | none => pure f.columns
    | some l => do
        l.forM (fun a => validateAttr a f)
        pure l
  return use.map (fun a => let p := profileColumn (f.col a); (a, p.1, p.2.1, p.2.2))

end SSJ.Profiler

/-
  SSJ.Model.Index — index/size_index.py, prefix_index.py, position_index.py, inverted_index.py

  Every `build` is one Python loop over the rows; here each attribute the loop maintains is
  defined separately over the same row list (they are independent accumulators), the posting
  dictionaries by the same left-to-right fold, so insertion order and posting order agree with
  the code (checked by the `index_*` correspondence suites).
-/
import SSJ.Model.TokenOrdering

namespace SSJ

/-- `if d.get(k) is None: d[k] = []` ; `d.get(k).append(v)` -/
def appendAt {κ β : Type} [DecidableEq κ] (d : List (κ × List β)) (k : κ) (v : β) : List (κ × List β) :=
  Dict.set d k (Dict.getD d k [] ++ [v])

def probe {κ β : Type} [DecidableEq κ] (d : List (κ × List β)) (k : κ) : List β := Dict.getD d k []

/-- running minimum starting from `sys.maxsize`, running maximum starting from 0 -/
def minLength (sizes : List Nat) : Int := sizes.foldl (fun (m : Int) (n : Nat) => if (n : Int) < m then (n : Int) else m) maxsize
def maxLength (sizes : List Nat) : Int := sizes.foldl (fun (m : Int) (n : Nat) => if (n : Int) > m then (n : Int) else m) 0

def emptyRecords (cacheEmpty : Bool) (sizes : List Nat) : List Nat :=
  if cacheEmpty then sizes.zipIdx.filterMap (fun (n, rid) => if n = 0 then some rid else none) else []

/-! #### PositionIndex -/
structure PosIndex where
  index : List (Nat × List (Nat × Nat))    -- token rank ↦ [(row_id, pos)]
  sizeCache : List Nat
  minLength : Int
  maxLength : Int
  cachedTokens : List (List Nat)
  emptyRecords : List Nat
  deriving Repr

def posPostings (c : FCfg) (ordToks : List (List Nat)) : List (Nat × List (Nat × Nat)) :=
  ordToks.zipIdx.foldl (fun d (toks, rid) =>
    (pyTake toks (c.prefixLen toks.length)).zipIdx.foldl (fun d (t, pos) => appendAt d t (rid, pos)) d) []

/-- `PositionIndex(...).build(cache_empty_records, cache_tokens)` on rows whose ordered token
    lists are `ordToks` -/
def PosIndex.build (c : FCfg) (ordToks : List (List Nat)) (cacheEmpty cacheTokens : Bool) : PosIndex :=
  let sizes := ordToks.map List.length
  { index := posPostings c ordToks
    sizeCache := sizes
    minLength := SSJ.minLength sizes
    maxLength := SSJ.maxLength sizes
    cachedTokens := if cacheTokens then ordToks else []
    emptyRecords := SSJ.emptyRecords cacheEmpty sizes }

/-! #### PrefixIndex -/
structure PrefIndex where
  index : List (Nat × List Nat)            -- token rank ↦ [row_id]
  emptyRecords : List Nat
  deriving Repr

def prefPostings (c : FCfg) (ordToks : List (List Nat)) : List (Nat × List Nat) :=
  ordToks.zipIdx.foldl (fun d (toks, rid) =>
    (pyTake toks (c.prefixLen toks.length)).foldl (fun d t => appendAt d t rid) d) []

def PrefIndex.build (c : FCfg) (ordToks : List (List Nat)) (cacheEmpty : Bool) : PrefIndex :=
  { index := prefPostings c ordToks
    emptyRecords := SSJ.emptyRecords cacheEmpty (ordToks.map List.length) }

/-! #### SizeIndex -/
structure SizeIndex where
  index : List (Nat × List Nat)            -- token count ↦ [row_id]   (empty rows not indexed)
  minLength : Int
  maxLength : Int
  emptyRecords : List Nat
  deriving Repr

def SizeIndex.build (sizes : List Nat) (cacheEmpty : Bool) : SizeIndex :=
  { index := sizes.zipIdx.foldl (fun d (n, rid) => if n = 0 then d else appendAt d n rid) []
    minLength := SSJ.minLength sizes
    maxLength := SSJ.maxLength sizes
    emptyRecords := SSJ.emptyRecords cacheEmpty sizes }

/-! #### InvertedIndex (raw tokens, no ordering) -/
structure InvIndex where
  index : List (Tok × List Nat)            -- token ↦ [row_id]
  sizeCache : List Nat
  emptyRecords : List Nat
  deriving Repr

def InvIndex.build (toks : List (List Tok)) (cacheSize cacheEmpty : Bool) : InvIndex :=
  { index := toks.zipIdx.foldl (fun d (ts, rid) => ts.foldl (fun d t => appendAt d t rid) d) []
    sizeCache := if cacheSize then toks.map List.length else []
    emptyRecords := SSJ.emptyRecords cacheEmpty (toks.map List.length) }

end SSJ

/-
  SSJ.Model.Joins — join/set_sim_join.py, overlap_coefficient_join_py.py (_split),
  edit_distance_join_py.py (_split): the per-chunk join loops on projected row arrays.
-/
import SSJ.Model.Filters
import SSJ.Model.Strings

namespace SSJ

/-! ### similarity functions of py_stringmatching on token lists (utils/simfunctions.py) -/

/-- the double-precision formula of py_stringmatching's Jaccard / Cosine / Dice on the three
    counts `|A ∩ B|`, `|A|`, `|B|` -/
def simFormula (m : Measure) (i a b : Nat) : PyV :=
  match m with
  | .jaccard => PyV.div (PyV.toFloat (.int i)) (PyV.toFloat (.int ((a : Int) + b - i)))
  | .cosine => PyV.div (PyV.toFloat (.int i)) (PyV.mul (PyV.sqrt (PyV.toFloat (.int a))) (PyV.sqrt (PyV.toFloat (.int b))))
  | .dice => PyV.div (PyV.mul (.float 2) (PyV.toFloat (.int i))) (PyV.toFloat (.int ((a : Int) + b)))
  | _ => .err .other

/-- `get_sim_function(measure)(l, r)` for JACCARD / COSINE / DICE on two lists:
    exact-match shortcut 1.0, empty shortcut 0 (an int), else the formula on set sizes -/
def simRaw {α : Type} [DecidableEq α] (m : Measure) (l r : List α) : PyV :=
  if l = r then .float 1 else
  if l.length = 0 || r.length = 0 then .int 0 else
  simFormula m (interCount l r) (setLen l) (setLen r)

/-- the `_sim_score` cell holding a similarity value: numbers as such, `inf` and bools in the harness's cell encoding
    (`f:<bits>`, `bool:True` — a user's similarity function may return `a == b`); anything else is not a score the
    package can compare with a threshold (Python raises) and is outside the model -/
def scoreCell : PyV → Cell
  | .int i => .int i
  | .float q => .flt q
  | .inf => .other "f:7ff0000000000000"
  | .bool b => .other (if b then "bool:True" else "bool:False")
  | _ => .missing

/-- per-chunk configuration of a join -/
structure JoinCfg where
  f : FilterObj                -- measure / threshold / qval (allowEmpty here is the join's flag)
  compOp : String
  lAttr : Nat
  rAttr : Nat
  out : OutCfg
  outSimScore : Bool
  deriving Repr

def withScore (b : Bool) (row : Row) (s : Cell) : Row := if b then row ++ [s] else row

/-- `set_sim_join(ltable, rtable, …)` for one chunk `rtable` (tokenizer in set mode) -/
def setSimJoin (j : JoinCfg) (tok : String → List Tok) (ltable rtable : List Row) : List Row :=
  let lToks := ltable.map (fun row => tok (row.cell j.lAttr).strVal)
  let rToks := rtable.map (fun row => tok (row.cell j.rAttr).strVal)
  let ordering := genTokenOrdering (lToks ++ rToks)
  let idx := PosIndex.build j.f.cfg (lToks.map (fun t => orderUsing t ordering)) j.f.allowEmpty true
  (rtable.zip rToks).flatMap (fun (rRow, rt) =>
    let ro := orderUsing rt ordering
    if j.f.allowEmpty && ro.length = 0 then
      idx.emptyRecords.map (fun lid => withScore j.outSimScore (outputRow j.out (ltable.getD lid []) rRow) (.flt 1))
    else
      (positionFindCandidates j.f ro idx).filterMap (fun (cand, ov) =>
        if ov > 0 then
          let lo := idx.cachedTokens.getD cand []
          let s := PyV.round (simRaw j.f.cfg.measure lo ro) (.int 4)
          if compFn j.compOp s j.f.cfg.threshold then
            some (withScore j.outSimScore (outputRow j.out (ltable.getD cand []) rRow) (scoreCell s))
          else none
        else none))

/-- `_overlap_coefficient_join_split` -/
def overlapCoefficientJoinSplit (threshold : PyV) (compOp : String) (allowEmpty : Bool)
    (lAttr rAttr : Nat) (o : OutCfg) (outSimScore : Bool)
    (tok : String → List Tok) (ltable rtable : List Row) : List Row :=
  let idx := InvIndex.build (ltable.map (fun row => tok (row.cell lAttr).strVal)) true allowEmpty
  rtable.flatMap (fun rRow =>
    let rt := tok (rRow.cell rAttr).strVal
    let rn := rt.length
    if allowEmpty && rn = 0 then
      idx.emptyRecords.map (fun lid => withScore outSimScore (outputRow o (ltable.getD lid []) rRow) (.flt 1))
    else
      (overlapFindCandidates rt idx).filterMap (fun (cand, ov) =>
        let s := PyV.div (PyV.toFloat (.int ov)) (PyV.toFloat (.int (min (rn : Int) (idx.sizeCache.getD cand 0))))
        if compFn compOp s threshold then
          some (withScore outSimScore (outputRow o (ltable.getD cand []) rRow) (scoreCell s))
        else none))

/-- `_edit_distance_join_split` (tokenizer in bag mode; `threshold` already `int(floor(·))`) -/
def editDistanceJoinSplit (threshold : Int) (qval : Int) (compOp : String)
    (lAttr rAttr : Nat) (o : OutCfg) (outSimScore : Bool)
    (tok : String → List Tok) (ltable rtable : List Row) : List Row :=
  let f : FilterObj := { cfg := { measure := .editDistance, threshold := .int threshold, qval := .int qval } }
  let lToks := ltable.map (fun row => tok (row.cell lAttr).strVal)
  let rToks := rtable.map (fun row => tok (row.cell rAttr).strVal)
  let ordering := genTokenOrdering (lToks ++ rToks)
  let lLens := ltable.map (fun row => (row.cell lAttr).strVal.length)
  let idx := PrefIndex.build f.cfg (lToks.map (fun t => orderUsing t ordering)) false
  (rtable.zip rToks).flatMap (fun (rRow, rt) =>
    let rStr := (rRow.cell rAttr).strVal
    let rLen : Int := rStr.length
    let ro := orderUsing rt ordering
    (prefixFindCandidates f ro idx).filterMap (fun cand =>
      let ll : Int := lLens.getD cand 0
      if rLen - threshold ≤ ll && ll ≤ rLen + threshold then
        let lRow := ltable.getD cand []
        let d := lev (lRow.cell lAttr).strVal rStr
        if compFn compOp (.int d) (.int threshold) then
          some (withScore outSimScore (outputRow o lRow rRow) (.int d))
        else none
      else none))

end SSJ

/-
  SSJ.Model.Converter — utils/converter.py (decision logic; pandas dtype mechanics and
  `repr(float)` are parameters, see DESIGN §6 C16)
-/
import SSJ.Model.Basic

namespace SSJ.Converter
open SSJ

structure Column where
  dtype : String            -- "object" | "str" | "int" | "float" | other
  values : List Cell
  deriving Repr, DecidableEq

inductive Result where
  | retTrue (after : Column)        -- returned True; the given object now holds `after`
  | retCol (c : Column)             -- returned a new column; the input is untouched
  | err (e : PyErr)
  deriving Repr, DecidableEq

def isIntegral (q : Rat) : Bool := q.den == 1

/-- the canonical tags of the cells `float('inf')` / `float('-inf')` (the harness hands a non-finite double to the
    model as `.other ("f:" ++ <its 16 hex digits>)`; NaN is a missing cell) -/
def posInfTag : String := "f:7ff0000000000000"
def negInfTag : String := "f:fff0000000000000"

/-- `str(int(v))` / `str(v)` for a present numeric cell; `reprF` is CPython's `repr(float)` on finite doubles;
    `str(float('inf')) = 'inf'`, `str(float('-inf')) = '-inf'` (an infinity is not integral —
    `float('inf').is_integer()` is False — so a column holding one is never converted through `int`) -/
def cellToStr (reprF : Rat → String) (asInt : Bool) : Cell → Cell
  | .int i => .str (toString i)
  | .flt q => if asInt then .str (toString q.floor) else .str (reprF q)
  | .other t => if t == posInfTag then .str "inf" else if t == negInfTag then .str "-inf" else .other t
  | c => c

/-- `series_to_str(series, inplace)` -/
def seriesToStr (reprF : Rat → String) (c : Column) (inplace : Bool) : Result :=
  if c.values.length = 0 then
    if c.dtype == "object" && inplace then .retTrue c else .retCol { c with dtype := "object" }
  else if c.dtype == "object" || c.dtype == "str" then
    if inplace then .retTrue c else .retCol c
  else if c.dtype == "int" then
    let conv : Column := { dtype := "str", values := c.values.map (cellToStr reprF true) }
    if inplace then .retTrue conv else .retCol conv
  else if c.dtype == "float" then
    let present := c.values.filter (fun v => !v.isMissing)
    if present.length = 0 then .retCol { c with dtype := "object" }
    else
      let allInt := present.all (fun v => match v with | .flt q => isIntegral q | .int _ => true | _ => false)
      let conv : Column := { dtype := "str", values := c.values.map (cellToStr reprF allInt) }
      if inplace then .retTrue conv else .retCol conv
  else .err .typeErr

inductive FrameResult where
  | retTrue (after : Column)     -- inplace: the frame's column is now `after`
  | retCol (c : Column)          -- return_col
  | retFrame (c : Column)        -- a copy of the frame whose column is `c`; input untouched
  | err (e : PyErr)
  deriving Repr, DecidableEq

/-- `dataframe_column_to_str(df, col, inplace, return_col)` on the addressed column -/
def dataframeColumnToStr (reprF : Rat → String) (c : Column) (inplace returnCol : Bool) : FrameResult :=
  if inplace && returnCol then .err .assertion else
  if inplace then
    if c.values.length = 0 || c.values.all Cell.isMissing then .retTrue { c with dtype := "object" }
    else match seriesToStr reprF c false with
      | .retCol c' => .retTrue c'
      | .retTrue c' => .retTrue c'
      | .err e => .err e
  else if returnCol then
    match seriesToStr reprF c false with
    | .retCol c' => .retCol c'
    | .retTrue c' => .retCol c'
    | .err e => .err e
  else
    match seriesToStr reprF c false with
    | .retCol c' => .retFrame c'
    | .retTrue c' => .retFrame c'
    | .err e => .err e

end SSJ.Converter

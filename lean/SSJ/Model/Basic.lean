/-
  SSJ.Model.Basic — plain data the model works on: cells, rows, Python-dict association lists,
  measures and the integer bounds obtained from the *generated* `Gen.FilterUtils`.
-/
import SSJ.Gen.FilterUtils
import SSJ.Gen.Validation
import SSJ.Gen.Helper

namespace SSJ

abbrev Tok := String

/-- a DataFrame cell, by value class (see DESIGN §4.2 canonical forms) -/
inductive Cell where
  | missing                 -- None / NaN / pd.NA
  | str (s : String)
  | int (i : Int)
  | flt (q : Rat)           -- a finite double, exact value
  | other (tag : String)    -- anything else, opaque (inf, bool, objects …) as a canonical string
  deriving DecidableEq, Repr, Inhabited

abbrev Row := List Cell

def Row.cell (r : Row) (i : Nat) : Cell := r.getD i .missing

def Cell.isMissing : Cell → Bool
  | .missing => true
  | _ => false

/-- the string of a join-attribute cell.  Only ever consulted for cells that are strings: every
    entry point raises `TypeError` (as the real tokenizer does, "Input is expected to be a string")
    before a present non-string value would be tokenized — see `Cell.isStr` and its users
    (`runTables`, `filterPairPy`, `filterCandset`, `applyMatcher`). -/
def Cell.strVal : Cell → String
  | .str s => s
  | _ => ""

/-- the cell holds a Python `str` — the only values `tokenizer.tokenize` accepts -/
def Cell.isStr : Cell → Bool
  | .str _ => true
  | _ => false

/-- the cell is harmless for the tokenizer: missing (never tokenized) or a `str` -/
def Cell.strOrMissing : Cell → Bool
  | .missing => true
  | .str _ => true
  | _ => false

/-- Python truthiness `not v` of a (non-missing) cell, as far as the value classes determine it:
    `''`, `0`, `0.0`, `False` (and the empty tuple / bytes of the harness's canonical tags) are falsy;
    every other opaque object is taken to be truthy.  Used by `OverlapFilter.filter_pair` only. -/
def Cell.falsy : Cell → Bool
  | .missing => false
  | .str s => s == ""
  | .int i => i == 0
  | .flt q => q == 0
  | .other tag => tag == "bool:False" || tag == "tuple:()" || tag == "bytes:b''"

/-! ### Python `dict` as an insertion-ordered association list -/
namespace Dict
variable {κ ν : Type} [DecidableEq κ]

def get? (d : List (κ × ν)) (k : κ) : Option ν :=
  match d with
  | [] => none
  | (k', v) :: m => if k' = k then some v else get? m k

def getD (d : List (κ × ν)) (k : κ) (dflt : ν) : ν := (get? d k).getD dflt

/-- `d[k] = v`: overwrite in place if present, else append -/
def set (d : List (κ × ν)) (k : κ) (v : ν) : List (κ × ν) :=
  match d with
  | [] => [(k, v)]
  | (k', v') :: m => if k' = k then (k', v) :: m else (k', v') :: set m k v

end Dict

/-! ### Python slicing `l[0:k]` and `l[k:]` for an `Int` bound -/
def pyTake (l : List α) (k : Int) : List α :=
  if k ≥ 0 then l.take k.toNat else l.take ((l.length : Int) + k).toNat

def pyDrop (l : List α) (k : Int) : List α :=
  if k ≥ 0 then l.drop k.toNat else l.drop ((l.length : Int) + k).toNat

/-! ### Measures -/
inductive Measure where
  | cosine | dice | editDistance | jaccard | overlap
  deriving DecidableEq, Repr, Inhabited

def Measure.name : Measure → String
  | .cosine => "COSINE"
  | .dice => "DICE"
  | .editDistance => "EDIT_DISTANCE"
  | .jaccard => "JACCARD"
  | .overlap => "OVERLAP"

def Measure.ofName? (s : String) : Option Measure :=
  if s == "COSINE" then some .cosine else if s == "DICE" then some .dice
  else if s == "EDIT_DISTANCE" then some .editDistance else if s == "JACCARD" then some .jaccard
  else if s == "OVERLAP" then some .overlap else none

/-- parameters of a filter object: measure, threshold, `tokenizer.qval` (`.none` unless q-gram) -/
structure FCfg where
  measure : Measure
  threshold : PyV
  qval : PyV := .none
  deriving Repr

/-- `sys.maxsize` -/
def maxsize : Int := 9223372036854775807

/-! Integer views of the generated functions.  `toIntD` defaults to 0 when the generated
    function does not return an int (a Python error such as OverflowError): the driver reports
    such calls as errors (`FCfg.errAt`), and every theorem carries the hypothesis under which
    the generated functions provably return ints (`Proofs/Arith.lean (shape lemmas)`). -/
def FCfg.lowerV (c : FCfg) (n : Nat) : PyV := Gen.get_size_lower_bound (.int n) (.str c.measure.name) c.threshold
def FCfg.upperV (c : FCfg) (n : Nat) : PyV := Gen.get_size_upper_bound (.int n) (.str c.measure.name) c.threshold
def FCfg.prefixV (c : FCfg) (n : Nat) : PyV := Gen.get_prefix_length (.int n) (.str c.measure.name) c.threshold c.qval
def FCfg.ovThrV (c : FCfg) (l r : Nat) : PyV := Gen.get_overlap_threshold (.int l) (.int r) (.str c.measure.name) c.threshold c.qval

def FCfg.lower (c : FCfg) (n : Nat) : Int := (c.lowerV n).toIntD
def FCfg.upper (c : FCfg) (n : Nat) : Int := (c.upperV n).toIntD
def FCfg.prefixLen (c : FCfg) (n : Nat) : Int := (c.prefixV n).toIntD
def FCfg.ovThr (c : FCfg) (l r : Nat) : Int := (c.ovThrV l r).toIntD

/-- does any generated bound fail to be an int for token count `n` (paired with `m`)? -/
def FCfg.errAt (c : FCfg) (n m : Nat) : Bool :=
  !(c.lowerV n).isInt || !(c.upperV n).isInt || !(c.prefixV n).isInt || !(c.ovThrV n m).isInt

/-- comparison operators by name, from the generated COMP_OP_MAP -/
def compFn (op : String) : PyV → PyV → Bool := (Gen.comp_op_map op).getD (fun _ _ => false)

/-- ascending sort of naturals (Python `list.sort()` on ints) -/
def sortNat (l : List Nat) : List Nat := l.mergeSort (fun a b => decide (a ≤ b))

/-- remove duplicates keeping first occurrences (iteration order of a small-int `set` is not
    observable to the properties; the harness compares such outputs as sets) -/
def dedup [DecidableEq α] (l : List α) : List α :=
  l.foldl (fun acc a => if a ∈ acc then acc else acc ++ [a]) []

/-- `len(set(l) & set(r))` -/
def interCount {α : Type} [DecidableEq α] (l r : List α) : Nat :=
  ((dedup l).filter (fun t => decide (t ∈ r))).length

/-- `len(set(l))` -/
def setLen {α : Type} [DecidableEq α] (l : List α) : Nat := (dedup l).length

/-! ### Python equality of cells (pandas `unique()` / `nunique()`), used by key validation and the profiler -/

/-- the numeric value of a cell as Python compares it: ints and finite floats by their exact value, bools as
    `True = 1`, `False = 0` (the harness encodes a bool cell as `.other "bool:True"` / `.other "bool:False"`);
    strings, missing values, infinities and other objects are not numbers -/
def Cell.numVal? : Cell → Option Rat
  | .int i => some (i : Rat)
  | .flt q => some q
  | .other t => if t == "bool:True" then some 1 else if t == "bool:False" then some 0 else none
  | _ => none

/-- Python `==` between two present cells, the equality under which pandas' `unique()` / `nunique()` (a hash table
    keyed by `hash` and `==`) identifies values — for object columns and for numeric dtypes alike:
    numbers compare by exact value across int / float / bool (`1 == 1.0 == True`, `2**53 + 1 != float(2**53)`),
    everything else only with itself (`'1' != 1`; `inf == inf`; opaque objects by their canonical tag) -/
def Cell.pyEq (a b : Cell) : Bool :=
  match a, b with
  | .int i, .int j => i == j          -- (the two frequent cases first: no rational arithmetic needed)
  | .str s, .str t => s == t
  | _, _ =>
    match a.numVal?, b.numVal? with
    | some x, some y => x == y
    | none, none => a == b
    | _, _ => false

/-! ### Python `dict` keyed by cells: lookup and assignment under Python equality

A Python `dict` finds a key by `hash` and `==`: the probe `1.0` (or `True`) FINDS the entry stored under `1`, and an
assignment under `1.0` REPLACES THE VALUE of an existing entry `1` while the dict keeps the first key object.  The
dictionaries `apply_matcher` / `filter_candset` build from the tables (`build_dict_from_table`, `generate_tokens`)
are probed with the CANDSET's key values, whose dtype may differ from the table's (a candset key column turns
`float64` as soon as it passed through a NaN, a CSV file or a merge). -/
namespace Dict
variable {ν : Type}

/-- `d[k]` / `d.get(k)` on a cell-keyed dict: the value of the first (the only) entry whose key is Python-equal to `k` -/
def getPy? (d : List (Cell × ν)) (k : Cell) : Option ν :=
  match d with
  | [] => none
  | (k', v) :: m => if k'.pyEq k then some v else getPy? m k

def getPyD (d : List (Cell × ν)) (k : Cell) (dflt : ν) : ν := (getPy? d k).getD dflt

/-- `d[k] = v` on a cell-keyed dict: an entry whose key is Python-equal to `k` keeps its key object and gets the new
    value; otherwise a new entry is appended -/
def setPy (d : List (Cell × ν)) (k : Cell) (v : ν) : List (Cell × ν) :=
  match d with
  | [] => [(k, v)]
  | (k', v') :: m => if k'.pyEq k then (k', v) :: m else (k', v') :: setPy m k v

end Dict

end SSJ

namespace SSJ.Profiler
open SSJ

/-- the distinct elements of `l` under the equality `eq`, as a hash table keyed by `eq` collects them: an element is
    added unless an equal one is already there (only the number of elements is used) -/
def dedupBy {α : Type} (eq : α → α → Bool) (l : List α) : List α :=
  l.foldl (fun acc a => if acc.any (fun b => eq b a) then acc else a :: acc) []

end SSJ.Profiler

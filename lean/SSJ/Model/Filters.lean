/-
  SSJ.Model.Filters — filter/size_filter.py, prefix_filter.py, position_filter.py,
  suffix_filter.py, overlap_filter.py: `filter_pair`, `find_candidates`, `_filter_tables_split`.
-/
import SSJ.Model.Index

namespace SSJ

/-! ### output rows (utils/generic_helper.py get_output_row_from_tables) -/
structure OutCfg where
  lKey : Nat
  rKey : Nat
  lOut : List Nat        -- find_output_attribute_indices(l_columns, l_out_attrs)
  rOut : List Nat
  hasOut : Bool          -- l_out_attrs is not None or r_out_attrs is not None
  deriving Repr

def getOutputRow (o : OutCfg) (l r : Row) : Row :=
  [l.cell o.lKey, r.cell o.rKey] ++ o.lOut.map l.cell ++ o.rOut.map r.cell

def outputRow (o : OutCfg) (l r : Row) : Row :=
  if o.hasOut then getOutputRow o l r else [l.cell o.lKey, r.cell o.rKey]

/-- a filter object -/
structure FilterObj where
  cfg : FCfg
  allowEmpty : Bool := true
  allowMissing : Bool := false
  deriving Repr

/-- the both-sides-empty branch common to Size/Prefix/Position/Suffix `filter_pair` -/
def emptyPairDropped (f : FilterObj) : Bool :=
  match f.cfg.measure with
  | .overlap => true
  | .editDistance => false
  | _ => !f.allowEmpty

/-- `allow_empty and sim_measure_type not in ['OVERLAP', 'EDIT_DISTANCE']` -/
def handleEmpty (f : FilterObj) : Bool :=
  f.allowEmpty && !(f.cfg.measure == .overlap || f.cfg.measure == .editDistance)

/-! ### SizeFilter -/
def sizeFilterPair (f : FilterObj) (tok : String → List Tok) (l r : Cell) : Bool :=
  if l.isMissing || r.isMissing then !f.allowMissing else
  let ln := (tok l.strVal).length
  let rn := (tok r.strVal).length
  if ln = 0 && rn = 0 then emptyPairDropped f else
  let lo := f.cfg.lower ln
  let hi := f.cfg.upper ln
  if lo ≤ (rn : Int) && (rn : Int) ≤ hi then false else true

/-- ints `lo, lo+1, …, hi` (`xrange(lo, hi + 1)`) -/
def intRange (lo hi : Int) : List Int :=
  (List.range (hi + 1 - lo).toNat).map (fun (i : Nat) => lo + (i : Int))

def sizeFindCandidates (f : FilterObj) (probeSize : Nat) (idx : SizeIndex) : List Nat :=
  if idx.index.isEmpty then [] else
  let lo := f.cfg.lower probeSize
  let hi := f.cfg.upper probeSize
  if lo > (probeSize : Int) then [] else
  let lo := if lo < idx.minLength then idx.minLength else lo
  let hi := if hi > idx.maxLength then idx.maxLength else hi
  dedup ((intRange lo hi).flatMap (fun s => if s < 0 then [] else probe idx.index s.toNat))

def sizeFilterTablesSplit (f : FilterObj) (tok : String → List Tok) (o : OutCfg)
    (lAttr rAttr : Nat) (ltable rtable : List Row) : List Row :=
  let he := handleEmpty f
  let idx := SizeIndex.build (ltable.map (fun row => (tok (row.cell lAttr).strVal).length)) he
  rtable.flatMap (fun rRow =>
    let rn := (tok (rRow.cell rAttr).strVal).length
    if he && rn = 0 then idx.emptyRecords.map (fun lid => outputRow o (ltable.getD lid []) rRow)
    else (sizeFindCandidates f rn idx).map (fun cand => outputRow o (ltable.getD cand []) rRow))

/-! ### PrefixFilter -/
def prefixFilterPair (f : FilterObj) (tok : String → List Tok) (l r : Cell) : Bool :=
  if l.isMissing || r.isMissing then !f.allowMissing else
  let lt := tok l.strVal
  let rt := tok r.strVal
  let ln := lt.length
  let rn := rt.length
  if ln = 0 && rn = 0 then emptyPairDropped f else
  let ordering := genTokenOrdering [lt, rt]
  let ol := orderUsing lt ordering
  let or_ := orderUsing rt ordering
  let lp := f.cfg.prefixLen ln
  let rp := f.cfg.prefixLen rn
  if lp ≤ 0 || rp ≤ 0 then true else
  let lpre := pyTake ol lp
  let rpre := pyTake or_ rp
  if lpre.any (fun t => decide (t ∈ rpre)) then false else true

def prefixFindCandidates (f : FilterObj) (probeToks : List Nat) (idx : PrefIndex) : List Nat :=
  if idx.index.isEmpty then [] else
  let pl := f.cfg.prefixLen probeToks.length
  dedup ((pyTake probeToks pl).flatMap (fun t => probe idx.index t))

def prefixFilterTablesSplit (f : FilterObj) (tok : String → List Tok) (o : OutCfg)
    (lAttr rAttr : Nat) (ltable rtable : List Row) : List Row :=
  let lToks := ltable.map (fun row => tok (row.cell lAttr).strVal)
  let rToks := rtable.map (fun row => tok (row.cell rAttr).strVal)
  let ordering := genTokenOrdering (lToks ++ rToks)
  let he := handleEmpty f
  let idx := PrefIndex.build f.cfg (lToks.map (fun t => orderUsing t ordering)) he
  (rtable.zip rToks).flatMap (fun (rRow, rt) =>
    let ro := orderUsing rt ordering
    if he && ro.length = 0 then idx.emptyRecords.map (fun lid => outputRow o (ltable.getD lid []) rRow)
    else (prefixFindCandidates f ro idx).map (fun cand => outputRow o (ltable.getD cand []) rRow))

/-! ### PositionFilter -/

/-- one posting `(cand, cand_pos)` met at probe position `probe_pos` -/
def posStep (f : FilterObj) (n : Nat) (lo hi : Int) (sizeCache : List Nat)
    (d : List (Nat × Int)) (cand candPos probePos : Nat) : List (Nat × Int) :=
  let cur := Dict.getD d cand 0
  if cur ≠ -1 then
    let cn := sizeCache.getD cand 0
    if lo ≤ (cn : Int) && (cn : Int) ≤ hi then
      let ub : Int := if (n : Int) - probePos ≤ (cn : Int) - candPos then (n : Int) - probePos
                      else (cn : Int) - candPos
      if cur + ub ≥ f.cfg.ovThr cn n then Dict.set d cand (cur + 1) else Dict.set d cand (-1)
    else d
  else d

def positionFindCandidates (f : FilterObj) (probeToks : List Nat) (idx : PosIndex) : List (Nat × Int) :=
  if idx.index.isEmpty then [] else
  let n := probeToks.length
  let lo := max (f.cfg.lower n) idx.minLength
  let hi := min (f.cfg.upper n) idx.maxLength
  let pl := f.cfg.prefixLen n
  (pyTake probeToks pl).zipIdx.foldl (fun d (t, ppos) =>
    (probe idx.index t).foldl (fun d (cand, cpos) => posStep f n lo hi idx.sizeCache d cand cpos ppos) d) []

def positionFilterPair (f : FilterObj) (tok : String → List Tok) (l r : Cell) : Bool :=
  if l.isMissing || r.isMissing then !f.allowMissing else
  let lt := tok l.strVal
  let rt := tok r.strVal
  let ln := lt.length
  let rn := rt.length
  if ln = 0 && rn = 0 then emptyPairDropped f else
  let ordering := genTokenOrdering [lt, rt]
  let ol := orderUsing lt ordering
  let or_ := orderUsing rt ordering
  let lp := f.cfg.prefixLen ln
  let rp := f.cfg.prefixLen rn
  if lp ≤ 0 || rp ≤ 0 then true else
  let lpre := pyTake ol lp          -- l_prefix_dict: every prefix token ↦ 0 (l_pos is never advanced)
  let thr := f.cfg.ovThr ln rn
  -- state: (current_overlap, r_pos, dropped)
  let fin := (pyTake or_ rp).foldl (fun (st : Int × Nat × Bool) t =>
      let (cur, rpos, dropped) := st
      if dropped then st else
      if decide (t ∈ lpre) then
        let ub : Int := 1 + min ((ln : Int) - 0 - 1) ((rn : Int) - rpos - 1)
        if cur + ub < thr then (cur, rpos, true) else (cur + 1, rpos + 1, false)
      else (cur, rpos + 1, false)) ((0 : Int), 0, false)
  if fin.2.2 then true else
  if fin.1 > 0 then false else true

def positionFilterTablesSplit (f : FilterObj) (tok : String → List Tok) (o : OutCfg)
    (lAttr rAttr : Nat) (ltable rtable : List Row) : List Row :=
  let lToks := ltable.map (fun row => tok (row.cell lAttr).strVal)
  let rToks := rtable.map (fun row => tok (row.cell rAttr).strVal)
  let ordering := genTokenOrdering (lToks ++ rToks)
  let he := handleEmpty f
  let idx := PosIndex.build f.cfg (lToks.map (fun t => orderUsing t ordering)) he false
  (rtable.zip rToks).flatMap (fun (rRow, rt) =>
    let ro := orderUsing rt ordering
    if he && ro.length = 0 then idx.emptyRecords.map (fun lid => outputRow o (ltable.getD lid []) rRow)
    else (positionFindCandidates f ro idx).filterMap (fun (cand, ov) =>
      if ov > 0 then some (outputRow o (ltable.getD cand []) rRow) else none))

/-! ### SuffixFilter -/

/-- Python `int(x)` on a float: truncation towards zero -/
def truncRat (x : Rat) : Int := if x ≥ 0 then x.floor else x.ceil

/-- `_binary_search(tokens, probe, left, right)`; fuel bounds the recursion depth -/
def suffixBinarySearch (tokens : List Nat) (probeTok : Nat) : Nat → Int → Int → Int
  | 0, left, _ => left
  | fuel + 1, left, right =>
    if left = right then left else
    let mid : Int := ((left + right : Int) : Rat) / 2 |>.floor
    let midTok := tokens.getD mid.toNat 0
    if midTok = probeTok then mid
    else if midTok < probeTok then suffixBinarySearch tokens probeTok fuel (mid + 1) right
    else suffixBinarySearch tokens probeTok fuel left mid

/-- `_partition(tokens, probe_token, left, right)` → `(tokens_left, tokens_right, flag, diff)` -/
def suffixPartition (tokens : List Nat) (probeTok : Nat) (left right : Int) : List Nat × List Nat × Int × Int :=
  let right := min right ((tokens.length : Int) - 1)
  if right < left then ([], [], 0, 1) else
  if tokens.getD left.toNat 0 > probeTok then (if left = 0 then ([], tokens, 1, 1) else ([], [], 0, 1)) else
  if tokens.getD right.toNat 0 < probeTok then
    (if right = (tokens.length : Int) - 1 then (tokens, [], 1, 1) else ([], [], 0, 1)) else
  let pos := suffixBinarySearch tokens probeTok (right - left + 2).toNat left right
  let tl := tokens.take pos.toNat
  if tokens.getD pos.toNat 0 = probeTok then (tl, tokens.drop (pos.toNat + 1), 1, 0)
  else (tl, tokens.drop pos.toNat, 1, 1)

def intAbs (x : Int) : Int := if x < 0 then -x else x

/-- `_est_hamming_dist_lower_bound`; `fuel` ≥ max_depth + 1 -/
def suffixEstHamming (maxDepth : Nat) : Nat → List Nat → List Nat → Int → Int → Int → Nat → Int
  | 0, _, _, ln, rn, _, _ => intAbs (ln - rn)
  | fuel + 1, l, r, ln, rn, hmax, depth =>
    let absDiff := intAbs (ln - rn)
    if depth > maxDepth || ln = 0 || rn = 0 then absDiff else
    if ln = 1 && rn = 1 then (if l.getD 0 0 = r.getD 0 0 then 0 else 1) else
    let rMid : Int := ((rn : Rat) / 2).floor
    let rMidTok := r.getD rMid.toNat 0
    let o : Rat := ((hmax - absDiff : Int) : Rat) / 2
    let (oL, oR) : Int × Int := if ln < rn then (1, 0) else (0, 1)
    let (rL, rR, _, _) := suffixPartition r rMidTok rMid rMid
    let (lL, lR, flag, diff) := suffixPartition l rMidTok
        (max 0 (truncRat ((rMid : Rat) - o - ((absDiff * oL : Int) : Rat))))
        (min (ln - 1) (truncRat ((rMid : Rat) + o + ((absDiff * oR : Int) : Rat))))
    if flag = 0 then hmax + 1 else
    let rLn : Int := rL.length
    let rRn : Int := rR.length
    let lLn : Int := lL.length
    let lRn : Int := lR.length
    let hd := intAbs (lLn - rLn) + intAbs (lRn - rRn) + diff
    if hd > hmax then hd else
    let hdL := suffixEstHamming maxDepth fuel lL rL lLn rLn (hmax - intAbs (lRn - rRn) - diff) (depth + 1)
    let hd := hdL + intAbs (lRn - rRn) + diff
    if hd ≤ hmax then
      let hdR := suffixEstHamming maxDepth fuel lR rR lRn rRn (hmax - hdL - diff) (depth + 1)
      hdL + hdR + diff
    else hd

/-- `_filter_suffix(l_suffix, r_suffix, l_prefix_num_tokens, r_prefix_num_tokens, l_num_tokens, r_num_tokens)` on token lists
    in which no token repeats (the body of `_filter_suffix` without the numbering step; see `suffixFilterSuffixN`) -/
def suffixFilterSuffix (f : FilterObj) (lSuf rSuf : List Nat) (lp rp : Int) (ln rn : Nat) : Bool :=
  let thr := f.cfg.ovThr ln rn
  if lp ≥ thr && rp ≥ thr then false else
  let hmax : Int := (ln : Int) + rn - 2 * thr + max lp rp
  let hd := suffixEstHamming 2 4 lSuf rSuf ((ln : Int) - lp) ((rn : Int) - rp) hmax 1
  if hd ≤ hmax then false else true

/-- `_number_repeated_tokens(ordered_tokens)`: every token of a sorted list is paired with its occurrence number.  The
    Python tuples `(token, occurrence)` are compared lexicographically; with `occurrence < base` the natural number
    `token * base + occurrence` is an order-isomorphic encoding of the pair. -/
def numberRepeatedAux (base : Nat) : Option Nat → Nat → List Nat → List Nat
  | _, _, [] => []
  | prev, occ, t :: ts =>
    let occ' := if prev = some t then occ + 1 else 0
    (t * base + occ') :: numberRepeatedAux base (some t) occ' ts

def numberRepeated (base : Nat) (l : List Nat) : List Nat := numberRepeatedAux base none 0 l

/-- `_filter_suffix` as called by `filter_pair` / `filter_tables`: under EDIT_DISTANCE the two suffixes (q-gram bags) are
    first turned into sets by `_number_repeated_tokens`; for the other measures it is `suffixFilterSuffix` itself.
    (The real code numbers the tokens after the early exit, which does not look at the lists.) -/
def suffixFilterSuffixN (f : FilterObj) (lSuf rSuf : List Nat) (lp rp : Int) (ln rn : Nat) : Bool :=
  if f.cfg.measure = .editDistance then
    let base := lSuf.length + rSuf.length + 1
    suffixFilterSuffix f (numberRepeated base lSuf) (numberRepeated base rSuf) lp rp ln rn
  else suffixFilterSuffix f lSuf rSuf lp rp ln rn

def suffixFilterPair (f : FilterObj) (tok : String → List Tok) (l r : Cell) : Bool :=
  if l.isMissing || r.isMissing then !f.allowMissing else
  let lt := tok l.strVal
  let rt := tok r.strVal
  let ln := lt.length
  let rn := rt.length
  if ln = 0 && rn = 0 then emptyPairDropped f else
  let ordering := genTokenOrdering [lt, rt]
  let ol := orderUsing lt ordering
  let or_ := orderUsing rt ordering
  let lp := f.cfg.prefixLen ln
  let rp := f.cfg.prefixLen rn
  if lp ≤ 0 || rp ≤ 0 then true else
  suffixFilterSuffixN f (pyDrop ol lp) (pyDrop or_ rp) lp rp ln rn

def suffixFilterTablesSplit (f : FilterObj) (tok : String → List Tok) (o : OutCfg)
    (lAttr rAttr : Nat) (ltable rtable : List Row) : List Row :=
  let lToks := ltable.map (fun row => tok (row.cell lAttr).strVal)
  let rToks := rtable.map (fun row => tok (row.cell rAttr).strVal)
  let ordering := genTokenOrdering (lToks ++ rToks)
  let he := handleEmpty f
  (ltable.zip lToks).flatMap (fun (lRow, lt) =>
    let ol := orderUsing lt ordering
    let ln := ol.length
    let lp := f.cfg.prefixLen ln
    let lSuf := pyDrop ol lp
    (rtable.zip rToks).flatMap (fun (rRow, rt) =>
      let or_ := orderUsing rt ordering
      let rn := or_.length
      if he && ln = 0 && rn = 0 then [outputRow o lRow rRow] else
      let rp := f.cfg.prefixLen rn
      if lp ≤ 0 || rp ≤ 0 then [] else
      if !suffixFilterSuffixN f lSuf (pyDrop or_ rp) lp rp ln rn then [outputRow o lRow rRow] else []))

/-! ### OverlapFilter -/
structure OverlapFilterObj where
  overlapSize : PyV
  compOp : String
  allowMissing : Bool := false
  deriving Repr

/-- `len(set(l) ∩ set(r))` -/
def overlapCount (l r : List Tok) : Nat := interCount l r

def overlapFilterPair (f : OverlapFilterObj) (tok : String → List Tok) (l r : Cell) : Bool :=
  if l.isMissing || r.isMissing then !f.allowMissing else
  if l.strVal = "" || r.strVal = "" then true else
  let n := overlapCount (tok l.strVal) (tok r.strVal)
  if compFn f.compOp (.int n) f.overlapSize then false else true

def overlapFindCandidates (probeToks : List Tok) (idx : InvIndex) : List (Nat × Int) :=
  if idx.index.isEmpty then [] else
  probeToks.foldl (fun d t => (probe idx.index t).foldl (fun d cand => Dict.set d cand (Dict.getD d cand 0 + 1)) d) []

def overlapFilterTablesSplit (f : OverlapFilterObj) (tok : String → List Tok) (o : OutCfg)
    (lAttr rAttr : Nat) (outSimScore : Bool) (ltable rtable : List Row) : List Row :=
  let idx := InvIndex.build (ltable.map (fun row => tok (row.cell lAttr).strVal)) false false
  rtable.flatMap (fun rRow =>
    let rt := tok (rRow.cell rAttr).strVal
    (overlapFindCandidates rt idx).filterMap (fun (cand, ov) =>
      if compFn f.compOp (.int ov) f.overlapSize then
        some (outputRow o (ltable.getD cand []) rRow ++ (if outSimScore then [Cell.int ov] else []))
      else none))

end SSJ

/-
  SSJ.Model.Strings — concrete models of the two py_stringmatching pieces whose *definition*
  matters to the edit-distance properties: q-gram tokenization and Levenshtein distance.
  (Both are external code; these transcriptions are correspondence-checked, suites `qgrams`, `lev`.)
-/
import SSJ.Model.Basic

namespace SSJ

/-- all contiguous windows of length `q` of a list (none if shorter) -/
def windows {α : Type} (q : Nat) : List α → List (List α)
  | [] => []
  | a :: l => if (a :: l).length < q then [] else (a :: l).take q :: windows q l

/-- `QgramTokenizer(qval=q, padding=pad, prefix_pad='#', suffix_pad='$', return_set=False).tokenize` -/
def qgramsChars (q : Nat) (pad : Bool) (s : List Char) : List (List Char) :=
  let s' := if pad then List.replicate (q - 1) '#' ++ s ++ List.replicate (q - 1) '$' else s
  if q = 0 then [] else windows q s'

def qgrams (q : Nat) (pad : Bool) (s : String) : List Tok :=
  (qgramsChars q pad s.toList).map String.ofList

/-- `convert_bag_to_set`: first occurrences, order kept -/
def bagToSet (l : List Tok) : List Tok := dedup l

/-- Levenshtein distance by the textbook recursion on lists (row-by-row DP) -/
def levRow (a : Char) (prev : List Nat) (t : List Char) : List Nat :=
  -- prev = distances between the previous prefix of s and all prefixes of t (length |t|+1)
  match prev with
  | [] => []
  | p0 :: ps =>
    let rec go (left diag : Nat) (ps : List Nat) (t : List Char) (acc : List Nat) : List Nat :=
      match ps, t with
      | p :: ps', c :: t' =>
        let v := min (min (p + 1) (left + 1)) (diag + (if a = c then 0 else 1))
        go v p ps' t' (acc ++ [v])
      | _, _ => acc
    go (p0 + 1) p0 ps t [p0 + 1]

def levChars (s t : List Char) : Nat :=
  let row0 := List.range (t.length + 1)
  (s.foldl (fun row a => levRow a row t) row0).getLastD 0

def lev (s t : String) : Nat := levChars s.toList t.toList

end SSJ

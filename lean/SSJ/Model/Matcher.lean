/-
  SSJ.Model.Matcher — matcher/apply_matcher.py and Filter.filter_candset (filter/filter.py)
-/
import SSJ.Model.Frame

namespace SSJ

/-- `build_dict_from_table(table, key_idx, …, remove_null=False)`: key ↦ row; later rows win.  A Python dict:
    keys are identified by Python equality (`Dict.setPy`: a row whose key is `1.0` overwrites the entry of key `1`);
    for a validated key column (`PyDistinct`) every row gets its own entry -/
def buildDict (rows : List Row) (keyIdx : Nat) : List (Cell × Row) :=
  rows.foldl (fun d row => Dict.setPy d (row.cell keyIdx) row) []

/-- the argument handed to `sim_function`: tokens when a tokenizer is given, else the raw value -/
inductive SimArg where
  | toks (l : List Tok)
  | raw (c : Cell)
  deriving DecidableEq, Repr

structure MatcherArgs where
  candset : Option Frame
  candLKey : String
  candRKey : String
  ltable : Option Frame
  rtable : Option Frame
  lKey : String
  rKey : String
  lAttr : String
  rAttr : String
  threshold : PyV
  compOp : String := ">="
  allowMissing : Bool := false
  lOut : Option (List String) := none
  rOut : Option (List String) := none
  lPre : String := "l_"
  rPre : String := "r_"
  outSimScore : Bool := true
  nJobs : Int := 1

/-- `generate_tokens(table, key, attr, tokenizer)`: key ↦ tokens for rows with a present value -/
def generateTokens (rows : List Row) (keyIdx attrIdx : Nat) (tok : String → List Tok) : List (Cell × List Tok) :=
  (rows.filter (fun r => !(r.cell attrIdx).isMissing)).foldl
    (fun d r => Dict.setPy d (r.cell keyIdx) (tok (r.cell attrIdx).strVal)) []

/-- `_apply_matcher_split` on one chunk of candset rows.  The candidate's key values `l_id`, `r_id` are looked up
    in the table dictionaries (and in the token cache) as Python does — by Python equality (`Dict.getPy?`): a
    candidate key `1.0` finds the table row of key `1`.  Without output attributes the output row carries the
    CANDSET's key values (`[candset_row[0], l_id, r_id]`), with output attributes the TABLES' key values
    (`get_output_row_from_tables(l_row, r_row, …)`). -/
def applyMatcherSplit (a : MatcherArgs) (candLIdx candRIdx : Nat)
    (lRows rRows : List Row) (lKeyIdx lAttrIdx rKeyIdx rAttrIdx : Nat) (o : OutCfg)
    (tok : Option (String → List Tok)) (sim : SimArg → SimArg → PyV)
    (cache : Option (List (Cell × List Tok) × List (Cell × List Tok)))
    (chunk : List Row) : Except PyErr (List Row) := do
  let lDict := buildDict lRows lKeyIdx
  let rDict := buildDict rRows rKeyIdx
  let rows ← chunk.mapM (fun (cr : Row) => do
    let lId := cr.cell candLIdx
    let rId := cr.cell candRIdx
    let lRow ← match Dict.getPy? lDict lId with | some r => pure r | none => throw PyErr.other  -- KeyError
    let rRow ← match Dict.getPy? rDict rId with | some r => pure r | none => throw PyErr.other
    let lv := lRow.cell lAttrIdx
    let rv := rRow.cell rAttrIdx
    let mk (score : Cell) : Row :=
      withScore a.outSimScore
        (if o.hasOut then cr.cell 0 :: getOutputRow o lRow rRow else [cr.cell 0, lId, rId]) score
    if lv.isMissing || rv.isMissing then
      pure (if a.allowMissing then some (mk .missing) else none)
    else
      -- no token cache: `tokenizer.tokenize(l_value)`, `tokenizer.tokenize(r_value)` — TypeError for a non-`str`
      -- (with the cache the tokens were produced, and non-strings rejected, by `generate_tokens`)
      if tok.isSome && cache.isNone && !(lv.isStr && rv.isStr) then throw PyErr.typeErr else
      let (la, ra) : SimArg × SimArg :=
        match tok with
        | some tk =>
          match cache with
          | some (lc, rc) => (.toks (Dict.getPyD lc lId []), .toks (Dict.getPyD rc rId []))
          | none => (.toks (tk lv.strVal), .toks (tk rv.strVal))
        | none => (.raw lv, .raw rv)
      let s := sim la ra
      pure (if compFn a.compOp s a.threshold then some (mk (scoreCell s)) else none))
  return rows.filterMap id

/-- the optional token cache of `apply_matcher` (tokenizer given and `len(ltable) + len(rtable) < 2 * len(candset)`):
    `generate_tokens` applies `tokenizer.tokenize` to EVERY present value of the two columns (referenced by the
    candset or not), before any candidate row is looked at — TypeError for a non-`str` -/
def tokenCache (tokFn : Option (String → List Tok)) (useCache : Bool) (lRows rRows : List Row)
    (lKeyIdx lAttrIdx rKeyIdx rAttrIdx : Nat) : Except PyErr (Option (List (Cell × List Tok) × List (Cell × List Tok))) :=
  match tokFn with
  | some tk =>
    if useCache then
      if joinCellsOk lRows lAttrIdx && joinCellsOk rRows rAttrIdx then
        .ok (some (generateTokens lRows lKeyIdx lAttrIdx tk, generateTokens rRows rKeyIdx rAttrIdx tk))
      else .error .typeErr
    else .ok none
  | none => .ok none

def applyMatcher (a : MatcherArgs) (t : Option TokObj) (toks : TokFn) (sim : SimArg → SimArg → PyV) (cpu : Int) :
    Except PyErr Frame := do
  let c ← validateInputTable a.candset
  validateAttr a.candLKey c
  validateAttr a.candRKey c
  let l ← validateInputTable a.ltable
  let r ← validateInputTable a.rtable
  validateAttr a.lKey l
  validateAttr a.rKey r
  validateAttr a.lAttr l
  validateAttr a.rAttr r
  validateOutputAttrs a.lOut l a.rOut r
  match t with
  | some tk => validateTokenizer tk
  | none => pure ()
  genCheck (Gen.validate_comp_op (.str a.compOp))
  validateKeyAttr a.lKey l
  validateKeyAttr a.rKey r
  if c.rows.isEmpty then return c else
  let lOut := removeRedundantAttrs a.lOut a.lKey
  let rOut := removeRedundantAttrs a.rOut a.rKey
  let lProj := getAttrsToProject lOut a.lKey a.lAttr
  let rProj := getAttrsToProject rOut a.rKey a.rAttr
  let lRows := l.rows.map (fun row => (lProj.map l.colIdx).map row.cell)
  let rRows := r.rows.map (fun row => (rProj.map r.colIdx).map row.cell)
  let lKeyIdx := lProj.idxOf a.lKey
  let lAttrIdx := lProj.idxOf a.lAttr
  let rKeyIdx := rProj.idxOf a.rKey
  let rAttrIdx := rProj.idxOf a.rAttr
  let o : OutCfg := { lKey := lKeyIdx, rKey := rKeyIdx,
                      lOut := findOutputAttributeIndices lProj lOut,
                      rOut := findOutputAttributeIndices rProj rOut,
                      hasOut := lOut.isSome || rOut.isSome }
  let tokFn : Option (String → List Tok) := t.map (fun tk => toks tk.returnSet)
  let cache ← tokenCache tokFn (decide ((l.rows.length + r.rows.length : Nat) < c.rows.length * 2))
                lRows rRows lKeyIdx lAttrIdx rKeyIdx rAttrIdx
  let header := "_id" :: (getOutputHeader a.lKey a.rKey lOut rOut a.lPre a.rPre ++
                  (if a.outSimScore then ["_sim_score"] else []))
  let chunks ← (chunksFor c.rows a.nJobs cpu).mapM (fun ch => do
      let rows ← applyMatcherSplit a (c.colIdx a.candLKey) (c.colIdx a.candRKey) lRows rRows
                  lKeyIdx lAttrIdx rKeyIdx rAttrIdx o tokFn sim cache ch
      mkRows rows header)
  return { columns := header
           index := chunks.flatMap (fun p => (List.range p.length).map (fun (i : Nat) => Cell.int i))
           rows := chunks.flatten }

/-! ### filter_candset -/
structure CandsetArgs where
  candset : Option Frame
  candLKey : String
  candRKey : String
  ltable : Option Frame
  rtable : Option Frame
  lKey : String
  rKey : String
  lAttr : String
  rAttr : String
  nJobs : Int := 1

/-- `Filter.filter_candset` for any filter given as its `filter_pair` — a Python call that may raise
    (`filterPairPy`, `overlapFilterPairPy`: TypeError when a value handed to the tokenizer is not a `str`);
    the first exception in candset order (KeyError for an unknown key, or the one of `filter_pair`)
    fails the call.  Candidate keys are looked up by Python equality (`Dict.getPy?`); the kept rows are the
    candset's own rows (`candset[valid_rows]`), key cells unchanged -/
def filterCandset (a : CandsetArgs) (fp : Cell → Cell → Except PyErr Bool) (cpu : Int) : Except PyErr Frame := do
  let c ← validateInputTable a.candset
  validateAttr a.candLKey c
  validateAttr a.candRKey c
  let l ← validateInputTable a.ltable
  let r ← validateInputTable a.rtable
  validateAttr a.lKey l
  validateAttr a.rKey r
  validateAttr a.lAttr l
  validateAttr a.rAttr r
  validateAttrType a.lAttr l
  validateAttrType a.rAttr r
  validateKeyAttr a.lKey l
  validateKeyAttr a.rKey r
  if c.rows.isEmpty then return c else
  let lRows := l.rows.map (fun row => [row.cell (l.colIdx a.lKey), row.cell (l.colIdx a.lAttr)])
  let rRows := r.rows.map (fun row => [row.cell (r.colIdx a.rKey), row.cell (r.colIdx a.rAttr)])
  let lProj := [a.lKey, a.lAttr]
  let rProj := [a.rKey, a.rAttr]
  let lDict := buildDict lRows (lProj.idxOf a.lKey)
  let rDict := buildDict rRows (rProj.idxOf a.rKey)
  let li := c.colIdx a.candLKey
  let ri := c.colIdx a.candRKey
  let labelled := c.rows.zip (c.index ++ List.replicate (c.rows.length - c.index.length) Cell.missing)
  let chunks ← (chunksFor labelled a.nJobs cpu).mapM (fun ch =>
    ch.filterMapM (fun ((cr, lab) : Row × Cell) => do
      let lRow ← match Dict.getPy? lDict (cr.cell li) with | some x => pure x | none => throw PyErr.other
      let rRow ← match Dict.getPy? rDict (cr.cell ri) with | some x => pure x | none => throw PyErr.other
      let drop ← fp (lRow.cell (lProj.idxOf a.lAttr)) (rRow.cell (rProj.idxOf a.rAttr))
      pure (if !drop then some (cr, lab) else none)))
  let kept := chunks.flatten
  return { c with index := kept.map (·.2), rows := kept.map (·.1) }

end SSJ

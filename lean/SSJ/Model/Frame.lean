/-
  SSJ.Model.Frame — DataFrame-level model: validation (utils/validation.py), projection and
  dropna (utils/generic_helper.py), split_table / n_jobs, missing-value pairs
  (utils/missing_value_handler.py), and the `*_join_py` / `filter_tables` entry points.

  pandas itself is *modelled by hand* here (DESIGN §8): a frame is its column labels, dtype
  tags, index labels and rows of cells.
-/
import SSJ.Model.Joins

namespace SSJ

structure Frame where
  columns : List String
  dtypes : List String := []      -- "object", "str", "int64", "float64", …
  index : List Cell := []
  rows : List Row
  deriving Repr, DecidableEq, Inhabited

def Frame.colIdx (f : Frame) (a : String) : Nat := f.columns.idxOf a
def Frame.hasCol (f : Frame) (a : String) : Bool := f.columns.contains a
def Frame.col (f : Frame) (a : String) : List Cell := f.rows.map (fun r => r.cell (f.colIdx a))
def Frame.dtype (f : Frame) (a : String) : String := f.dtypes.getD (f.colIdx a) "object"

/-- the tokenizer object as far as the package inspects it -/
structure TokObj where
  isTokenizer : Bool := true
  isQgram : Bool := false
  qval : Int := 2
  returnSet : Bool := false
  deriving Repr, DecidableEq, Inhabited

/-- tokenization table supplied with a request: mode (`return_set`) → string → tokens -/
abbrev TokFn := Bool → String → List Tok

/-! ### validation -/
def raiseIf (c : Bool) (e : PyErr) : Except PyErr Unit := if c then .error e else .ok ()

def genCheck (v : PyV) : Except PyErr Unit :=
  match v with
  | .err e => .error e
  | _ => .ok ()

def validateInputTable (t : Option Frame) : Except PyErr Frame :=
  match t with
  | some f => .ok f
  | none => .error .typeErr

def validateAttr (a : String) (f : Frame) : Except PyErr Unit := raiseIf (!f.hasCol a) .assertion

/-- `attr_type != object and not isinstance(attr_type, pd.StringDtype)` (repaired, F3) -/
def validateAttrType (a : String) (f : Frame) : Except PyErr Unit :=
  raiseIf (f.dtype a != "object" && f.dtype a != "str") .assertion

def validateTokenizer (t : TokObj) : Except PyErr Unit := raiseIf (!t.isTokenizer) .typeErr

def validateTokenizerForSimMeasure (t : TokObj) (m : Measure) : Except PyErr Unit := do
  raiseIf (!t.isTokenizer) .typeErr
  raiseIf (m == .editDistance && !t.isQgram) .assertion

def validateOutputAttrs (lOut : Option (List String)) (l : Frame) (rOut : Option (List String)) (r : Frame) :
    Except PyErr Unit := do
  raiseIf ((lOut.getD []).any (fun a => !l.hasCol a)) .assertion
  raiseIf ((rOut.getD []).any (fun a => !r.hasCol a)) .assertion

/-- `len(table[key].unique()) == len(table)` and no missing key.  `unique()` identifies values under Python
    equality (`Cell.pyEq`): `1`, `1.0` and `True` are one value, `'1'` is another -/
def validateKeyAttr (a : String) (f : Frame) : Except PyErr Unit :=
  let c := f.col a
  raiseIf (!((Profiler.dedupBy Cell.pyEq c).length == c.length && !c.any Cell.isMissing)) .assertion

/-! ### projection helpers (utils/generic_helper.py) -/
def removeRedundantAttrs (out : Option (List String)) (key : String) : Option (List String) :=
  out.map (fun l => dedup (l.filter (· ≠ key)))

def getAttrsToProject (out : Option (List String)) (key join : String) : List String :=
  [key, join] ++ (out.getD []).filter (· ≠ join)

/-- `find_output_attribute_indices(columns, out_attrs)` -/
def findOutputAttributeIndices (columns : List String) (out : Option (List String)) : List Nat :=
  (out.getD []).map (fun a => columns.idxOf a)

def getOutputHeader (lKey rKey : String) (lOut rOut : Option (List String)) (lPre rPre : String) : List String :=
  [lPre ++ lKey, rPre ++ rKey] ++ (lOut.getD []).map (lPre ++ ·) ++ (rOut.getD []).map (rPre ++ ·)

/-- `dataframe[proj_attrs].dropna(subset=[join_attr]).values` -/
def convertToArray (f : Frame) (proj : List String) (joinAttr : String) : List Row :=
  let idxs := proj.map f.colIdx
  let j := f.colIdx joinAttr
  (f.rows.filter (fun r => !(r.cell j).isMissing)).map (fun r => idxs.map r.cell)

/-! ### n_jobs and split_table -/
def numProcesses (nJobs cpu : Int) : Int := (Gen.get_num_processes_to_launch (.int nJobs) (.int cpu)).toIntD

def pySlice {α : Type} (l : List α) (lo hi : Int) : List α :=
  let lo' := (if lo < 0 then max 0 ((l.length : Int) + lo) else lo).toNat
  let hi' := (if hi < 0 then max 0 ((l.length : Int) + hi) else hi).toNat
  (l.drop lo').take (hi' - lo')

def splitBounds (len k : Nat) : List (Int × Int) :=
  let ss := Gen.split_table_split_size (.int k) (.int len)
  (List.range k).map (fun (i : Nat) => ((Gen.split_table_lo (.int i) ss).toIntD, (Gen.split_table_hi (.int i) ss).toIntD))

def splitTable {α : Type} (table : List α) (k : Nat) : List (List α) :=
  (splitBounds table.length k).map (fun (lo, hi) => pySlice table lo hi)

/-- how the entry points chunk the right table / candset: `n_jobs = min(num_procs, len)`;
    `≤ 1` ⇒ one chunk (the whole table), else `split_table` -/
def chunksFor {α : Type} (table : List α) (nJobs cpu : Int) : List (List α) :=
  let n := min (numProcesses nJobs cpu) table.length
  if n ≤ 1 then [table] else splitTable table n.toNat

/-! ### pandas `DataFrame(rows, columns=header)` -/
def mkRows (rows : List Row) (header : List String) : Except PyErr (List Row) :=
  if rows.isEmpty then .ok [] else
  let w := rows.foldl (fun m r => max m r.length) 0
  if w ≠ header.length then .error .other     -- ValueError: k columns passed, passed data had w columns
  else .ok (rows.map (fun r => r ++ List.replicate (w - r.length) Cell.missing))

/-! ### missing-value pairs (utils/missing_value_handler.py) -/
def getPairsWithMissingValue (l r : Frame) (lKey rKey lJoin rJoin : String)
    (lOut rOut : Option (List String)) (lPre rPre : String) (outSimScore : Bool) : Except PyErr (List String × List Row) :=
  let o : OutCfg := { lKey := l.colIdx lKey, rKey := r.colIdx rKey,
                      lOut := findOutputAttributeIndices l.columns lOut,
                      rOut := findOutputAttributeIndices r.columns rOut,
                      hasOut := lOut.isSome || rOut.isSome }
  let lj := l.colIdx lJoin
  let rj := r.colIdx rJoin
  let lMissing := l.rows.filter (fun row => (row.cell lj).isMissing)
  let lNotMissing := l.rows.filter (fun row => !(row.cell lj).isMissing)
  let rMissing := r.rows.filter (fun row => (row.cell rj).isMissing)
  let rows1 := lMissing.flatMap (fun lRow => r.rows.map (fun rRow =>
      withScore (missingScoreFirstLoop outSimScore) (outputRow o lRow rRow) .missing))
  let rows2 := rMissing.flatMap (fun rRow => lNotMissing.map (fun lRow =>
      withScore outSimScore (outputRow o lRow rRow) .missing))
  let header := getOutputHeader lKey rKey lOut rOut lPre rPre ++ (if outSimScore then ["_sim_score"] else [])
  (mkRows (rows1 ++ rows2) header).map (fun rows => (header, rows))
where
  /-- whether the first loop (left value missing) appends the NaN score; `true` mirrors the
      repaired code (defect F2: the pinned tree appended it only in the second loop) -/
  missingScoreFirstLoop (b : Bool) : Bool := b

/-! ### generic `*_join_py` / `filter_tables` skeleton -/

structure TableArgs where
  ltable : Option Frame
  rtable : Option Frame
  lKey : String
  rKey : String
  lAttr : String
  rAttr : String
  lOut : Option (List String) := none
  rOut : Option (List String) := none
  lPre : String := "l_"
  rPre : String := "r_"
  nJobs : Int := 1
  deriving Repr

/-- the table/attribute validations shared by every join and `filter_tables`, in code order,
    up to (not including) tokenizer / threshold / operator checks -/
def validateTablesAttrs (a : TableArgs) : Except PyErr (Frame × Frame) := do
  let l ← validateInputTable a.ltable
  let r ← validateInputTable a.rtable
  validateAttr a.lKey l
  validateAttr a.rKey r
  validateAttr a.lAttr l
  validateAttr a.rAttr r
  validateAttrType a.lAttr l
  validateAttrType a.rAttr r
  return (l, r)

def validateOutAndKeys (a : TableArgs) (l r : Frame) : Except PyErr Unit := do
  validateOutputAttrs a.lOut l a.rOut r
  validateKeyAttr a.lKey l
  validateKeyAttr a.rKey r

/-- result frame of a join / filter_tables: `_id` first (the frame `output_table.insert(0, '_id', …)`
    leaves behind when it succeeds) -/
def finish (header : List String) (chunks : List (List Row)) (missing : Option (List Row)) : Frame :=
  let parts := chunks ++ (match missing with | some m => [m] | none => [])
  let rows := parts.flatten
  { columns := "_id" :: header
    index := parts.flatMap (fun p => (List.range p.length).map (fun (i : Nat) => Cell.int i))
    rows := rows.zipIdx.map (fun ((r, i) : Row × Nat) => Cell.int i :: r) }

/-- the last statement of every join / `filter_tables`: `output_table.insert(0, '_id', range(…))`.
    pandas raises `ValueError: cannot insert _id, already exists` (`PyErr.other`) iff the output header
    (prefixed keys, prefixed output attributes, `_sim_score`) already has a column named `_id`; other
    duplicate labels are accepted. -/
def finishPy (header : List String) (chunks : List (List Row)) (missing : Option (List Row)) : Except PyErr Frame :=
  if "_id" ∈ header then .error .other else .ok (finish header chunks missing)

/-- every join cell (column `j`) of a projected array can be handed to the tokenizer: it is a `str`
    (rows with a missing join value have been dropped from the array; a missing cell would be harmless) -/
def joinCellsOk (rows : List Row) (j : Nat) : Bool := rows.all (fun row => (row.cell j).strOrMissing)

/-- projection, (tokenizer's TypeError on a non-string join value,) chunking, per-chunk work, concat,
    missing pairs, `_id` (ValueError when the header already has `_id`) — the part after the
    validations that all `*_join_py` and `filter_tables` bodies share -/
def runTables (a : TableArgs) (l r : Frame) (allowMissing outSimScore : Bool) (cpu : Int)
    (work : OutCfg → Nat → Nat → List Row → List Row → List Row) : Except PyErr Frame := do
  let lOut := removeRedundantAttrs a.lOut a.lKey
  let rOut := removeRedundantAttrs a.rOut a.rKey
  let lProj := getAttrsToProject lOut a.lKey a.lAttr
  let rProj := getAttrsToProject rOut a.rKey a.rAttr
  let lArr := convertToArray l lProj a.lAttr
  let rArr := convertToArray r rProj a.rAttr
  let o : OutCfg := { lKey := lProj.idxOf a.lKey, rKey := rProj.idxOf a.rKey,
                      lOut := findOutputAttributeIndices lProj lOut,
                      rOut := findOutputAttributeIndices rProj rOut,
                      hasOut := lOut.isSome || rOut.isSome }
  let header := getOutputHeader a.lKey a.rKey lOut rOut a.lPre a.rPre ++ (if outSimScore then ["_sim_score"] else [])
  -- every per-chunk worker tokenizes all join values of the left array and of its right chunk before it
  -- assembles any output: a present value that is not a `str` makes the tokenizer raise
  -- `TypeError: Input is expected to be a string` (also when the other table is empty)
  raiseIf (!(joinCellsOk lArr (lProj.idxOf a.lAttr) && joinCellsOk rArr (rProj.idxOf a.rAttr))) .typeErr
  let chunks ← (chunksFor rArr a.nJobs cpu).mapM (fun ch =>
      mkRows (work o (lProj.idxOf a.lAttr) (rProj.idxOf a.rAttr) lArr ch) header)
  let missing ← if allowMissing then
      (getPairsWithMissingValue l r a.lKey a.rKey a.lAttr a.rAttr lOut rOut a.lPre a.rPre outSimScore).map
        (fun p => some p.2)
    else pure none
  finishPy header chunks missing

/-- outcome of an API call: result or exception, and the tokenizer's flag afterwards -/
structure Outcome where
  result : Except PyErr Frame
  flagAfter : Bool

/-- run `body` with the tokenizer's `return_set` forced to `want`; the flag is restored afterwards, also when the body
    raises (`try: … finally:` in every `*_join_py`); `want` only matters inside the body -/
def withFlag (t : TokObj) (_want : Bool) (body : Except PyErr Frame) : Outcome :=
  { result := body, flagAfter := t.returnSet }

/-! ### jaccard / cosine / dice joins -/
structure JoinArgs extends TableArgs where
  threshold : PyV
  compOp : String := ">="
  allowEmpty : Bool := true
  allowMissing : Bool := false
  outSimScore : Bool := true
  deriving Repr

/-- the validation block at the top of every `*_join_py` (in code order).  `mname` is the measure
    name handed to `validate_threshold` / `validate_comp_op_for_sim_measure`; edit distance
    additionally insists on a q-gram tokenizer. -/
def validateJoin (mname : String) (a : JoinArgs) (t : TokObj) : Except PyErr (Frame × Frame) := do
  let (l, r) ← validateTablesAttrs a.toTableArgs
  if mname == "EDIT_DISTANCE" then validateTokenizerForSimMeasure t .editDistance else validateTokenizer t
  genCheck (Gen.validate_threshold a.threshold (.str mname))
  genCheck (Gen.validate_comp_op_for_sim_measure (.str a.compOp) (.str mname))
  validateOutAndKeys a.toTableArgs l r
  return (l, r)

def setSimJoinPy (m : Measure) (a : JoinArgs) (t : TokObj) (toks : TokFn) (cpu : Int) : Outcome :=
  match validateJoin m.name a t with
  | .error e => { result := .error e, flagAfter := t.returnSet }
  | .ok (l, r) =>
    withFlag t true (runTables a.toTableArgs l r a.allowMissing a.outSimScore cpu
      (fun o lAttr rAttr lArr ch =>
        setSimJoin { f := { cfg := { measure := m, threshold := a.threshold }, allowEmpty := a.allowEmpty },
                     compOp := a.compOp, lAttr := lAttr, rAttr := rAttr, out := o, outSimScore := a.outSimScore }
          (toks true) lArr ch))

def overlapCoefficientJoinPy (a : JoinArgs) (t : TokObj) (toks : TokFn) (cpu : Int) : Outcome :=
  match validateJoin "OVERLAP_COEFFICIENT" a t with
  | .error e => { result := .error e, flagAfter := t.returnSet }
  | .ok (l, r) =>
    withFlag t true (runTables a.toTableArgs l r a.allowMissing a.outSimScore cpu
      (fun o lAttr rAttr lArr ch =>
        overlapCoefficientJoinSplit a.threshold a.compOp a.allowEmpty lAttr rAttr o a.outSimScore (toks true) lArr ch))

/-- `edit_distance_join_py`; `threshold = int(floor(threshold))` after validation -/
def editDistanceJoinPy (a : JoinArgs) (t : TokObj) (toks : TokFn) (cpu : Int) : Outcome :=
  match validateJoin "EDIT_DISTANCE" a t with
  | .error e => { result := .error e, flagAfter := t.returnSet }
  | .ok (l, r) =>
    match PyV.toInt (PyV.floor a.threshold) with
    | .int tau =>
      withFlag t false (runTables a.toTableArgs l r a.allowMissing a.outSimScore cpu
        (fun o lAttr rAttr lArr ch =>
          editDistanceJoinSplit tau t.qval a.compOp lAttr rAttr o a.outSimScore (toks false) lArr ch))
    | .err e => { result := .error e, flagAfter := t.returnSet }
    | _ => { result := .error .typeErr, flagAfter := t.returnSet }

/-! ### filters at table level -/
inductive FilterKind where
  | size | prefix | position | suffix
  deriving DecidableEq, Repr, Inhabited

/-- filter constructor: `validate_sim_measure_type`, `validate_tokenizer_for_sim_measure`,
    `validate_threshold`, in that order -/
def mkFilter (measureName : String) (threshold : PyV) (allowEmpty allowMissing : Bool) (t : TokObj) :
    Except PyErr FilterObj := do
  genCheck (Gen.validate_sim_measure_type (.str measureName))
  match Measure.ofName? measureName.toUpper with
  | none => .error .typeErr
  | some m =>
    validateTokenizerForSimMeasure t m
    genCheck (Gen.validate_threshold threshold (.str m.name))
    return { cfg := { measure := m, threshold := threshold, qval := if t.isQgram then .int t.qval else .none },
             allowEmpty := allowEmpty, allowMissing := allowMissing }

def filterTablesSplit (k : FilterKind) (f : FilterObj) (tok : String → List Tok) (o : OutCfg)
    (lAttr rAttr : Nat) (ltable rtable : List Row) : List Row :=
  match k with
  | .size => sizeFilterTablesSplit f tok o lAttr rAttr ltable rtable
  | .prefix => prefixFilterTablesSplit f tok o lAttr rAttr ltable rtable
  | .position => positionFilterTablesSplit f tok o lAttr rAttr ltable rtable
  | .suffix => suffixFilterTablesSplit f tok o lAttr rAttr ltable rtable

/-- `Filter.filter_tables` of Size/Prefix/Position/SuffixFilter (tokenizer used in its current mode) -/
def filterTables (k : FilterKind) (f : FilterObj) (a : TableArgs) (t : TokObj) (toks : TokFn) (cpu : Int) :
    Except PyErr Frame := do
  let (l, r) ← validateTablesAttrs a
  validateOutAndKeys a l r
  runTables a l r f.allowMissing false cpu
    (fun o lAttr rAttr lArr ch => filterTablesSplit k f (toks t.returnSet) o lAttr rAttr lArr ch)

def filterPair (k : FilterKind) (f : FilterObj) (tok : String → List Tok) (l r : Cell) : Bool :=
  match k with
  | .size => sizeFilterPair f tok l r
  | .prefix => prefixFilterPair f tok l r
  | .position => positionFilterPair f tok l r
  | .suffix => suffixFilterPair f tok l r

/-- `filter_pair(lstring, rstring)` as a Python call: unless one of the values is missing (then the
    method returns before tokenizing), both values are handed to `tokenizer.tokenize`, which raises
    `TypeError` for anything that is not a `str` -/
def filterPairPy (k : FilterKind) (f : FilterObj) (tok : String → List Tok) (l r : Cell) : Except PyErr Bool :=
  if !(l.isMissing || r.isMissing) && !(l.isStr && r.isStr) then .error .typeErr
  else .ok (filterPair k f tok l r)

/-- `OverlapFilter.filter_pair` as a Python call: returns before tokenizing when a value is missing or
    falsy (`(not lstring) or (not rstring)` — so `0`, `0.0`, `False`, `''` never reach the tokenizer);
    otherwise `tokenizer.tokenize` raises `TypeError` for a non-`str` -/
def overlapFilterPairPy (f : OverlapFilterObj) (tok : String → List Tok) (l r : Cell) : Except PyErr Bool :=
  if !(l.isMissing || r.isMissing) && !(l.falsy || r.falsy) && !(l.isStr && r.isStr) then .error .typeErr
  else .ok (overlapFilterPair f tok l r)

/-! ### OverlapFilter and overlap_join -/
def mkOverlapFilter (overlapSize : PyV) (compOp : String) (allowMissing : Bool) (t : TokObj) :
    Except PyErr OverlapFilterObj := do
  validateTokenizer t
  genCheck (Gen.validate_threshold overlapSize (.str "OVERLAP"))
  genCheck (Gen.validate_comp_op_for_sim_measure (.str compOp) (.str "OVERLAP"))
  return { overlapSize := overlapSize, compOp := compOp, allowMissing := allowMissing }

def overlapFilterTables (f : OverlapFilterObj) (a : TableArgs) (outSimScore : Bool) (tok : String → List Tok)
    (cpu : Int) : Except PyErr Frame := do
  let (l, r) ← validateTablesAttrs a
  validateOutAndKeys a l r
  runTables a l r f.allowMissing outSimScore cpu
    (fun o lAttr rAttr lArr ch => overlapFilterTablesSplit f tok o lAttr rAttr outSimScore lArr ch)

/-- `overlap_join_py`: validate the tokenizer; then, with the tokenizer switched to set mode
    inside `try … finally` (repair of defect F4), construct the OverlapFilter (which validates
    threshold and operator) and run `filter_tables`.  The flag is restored on every path. -/
def overlapJoinPy (a : JoinArgs) (t : TokObj) (toks : TokFn) (cpu : Int) : Outcome :=
  { result := do
      let f ← mkOverlapFilter a.threshold a.compOp a.allowMissing t
      overlapFilterTables f a.toTableArgs a.outSimScore (toks true) cpu
    flagAfter := t.returnSet }

end SSJ

/-
  SSJ.Model.TokenOrdering — utils/token_ordering.py
-/
import SSJ.Model.Basic

namespace SSJ

/-- `token_freq_dict[token] = token_freq_dict.get(token, 0) + 1` over all tokens of all lists -/
def tokenFreq (lists : List (List Tok)) : List (Tok × Nat) :=
  lists.foldl (fun d l => l.foldl (fun d t => Dict.set d t (Dict.getD d t 0 + 1)) d) []

/-- `sorted(items, key=itemgetter(0))` then the stable `sorted(·, key=itemgetter(1))`;
    ranks 1,2,… in that order (rarest first, ties alphabetical) -/
def rankTokens (freq : List (Tok × Nat)) : List (Tok × Nat) :=
  let byTok := freq.mergeSort (fun a b => decide (a.1 ≤ b.1))
  let byFreq := byTok.mergeSort (fun a b => decide (a.2 ≤ b.2))
  byFreq.zipIdx.map (fun (p, i) => (p.1, i + 1))

/-- `gen_token_ordering_for_lists` / `gen_token_ordering_for_tables` (the latter on the token
    lists of the rows of the given tables, in table order) -/
def genTokenOrdering (lists : List (List Tok)) : List (Tok × Nat) :=
  rankTokens (tokenFreq lists)

/-- `order_using_token_ordering`: ranks of the known tokens, ascending -/
def orderUsing (tokens : List Tok) (ordering : List (Tok × Nat)) : List Nat :=
  sortNat (tokens.filterMap (fun t => Dict.get? ordering t))

end SSJ

/-
  SSJ.Model.Session — call histories sharing tokenizer objects (properties C12 / C15).
  State = the `return_set` flag of each tokenizer object; every API call is a step.
-/
import SSJ.Model.Matcher

namespace SSJ.Session
open SSJ

structure Call where
  which : String          -- "jaccard" | "cosine" | "dice" | "overlap_coefficient" | "overlap" | "edit_distance"
  args : JoinArgs
  tok : TokObj            -- the static part of the tokenizer object (its flag comes from the state)
  tokId : Nat
  toks : TokFn

/-- one join call made when the tokenizer's flag is `flag` -/
def runCall (cpu : Int) (c : Call) (flag : Bool) : Outcome :=
  let t := { c.tok with returnSet := flag }
  if c.which == "jaccard" then setSimJoinPy .jaccard c.args t c.toks cpu
  else if c.which == "cosine" then setSimJoinPy .cosine c.args t c.toks cpu
  else if c.which == "dice" then setSimJoinPy .dice c.args t c.toks cpu
  else if c.which == "overlap_coefficient" then overlapCoefficientJoinPy c.args t c.toks cpu
  else if c.which == "overlap" then overlapJoinPy c.args t c.toks cpu
  else editDistanceJoinPy c.args t c.toks cpu

def step (cpu : Int) (flags : List Bool) (c : Call) : List Bool × Outcome :=
  let o := runCall cpu c (flags.getD c.tokId false)
  (flags.set c.tokId o.flagAfter, o)

def run (cpu : Int) (flags : List Bool) : List Call → List Bool × List Outcome
  | [] => (flags, [])
  | c :: cs =>
    let (f1, o) := step cpu flags c
    let (f2, os) := run cpu f1 cs
    (f2, o :: os)

end SSJ.Session

/-
  SSJ.Proofs.JoinExact — the EXACT joins: `OverlapFilter.filter_tables` (= `overlap_join`),
  `OverlapFilter.filter_pair` and the overlap-coefficient join.  They count the common tokens
  of a pair through an inverted index, so their output is characterised without any slack.
-/
import SSJ.Spec.Spec
import SSJ.Proofs.Candidates
import SSJ.Proofs.DictFold
import SSJ.Proofs.TokenOrdering
import Mathlib.Data.List.Basic
import Mathlib.Data.List.Nodup

namespace SSJ

/-! ### generic list helpers -/
section Generic

theorem jx_flatMap_eq_zipIdx_flatMap {α β : Type} (l : List α) (g : α → List β) (n : Nat) :
    l.flatMap g = (l.zipIdx n).flatMap (fun p => g p.1) := by
  induction l generalizing n with
  | nil => rfl
  | cons a l ih => simp [List.zipIdx_cons, ← ih (n + 1)]

theorem jx_getD_of_mem_zipIdx {α : Type} (l : List α) (a : α) (i : Nat) (dflt : α)
    (h : (a, i) ∈ l.zipIdx) : l.getD i dflt = a := by
  rw [List.mem_zipIdx_iff_getElem?] at h
  simp only at h
  rw [List.getD_eq_getElem?_getD, h]; rfl

theorem jx_lt_of_mem_zipIdx {α : Type} (l : List α) (a : α) (i : Nat)
    (h : (a, i) ∈ l.zipIdx) : i < l.length := by
  rw [List.mem_zipIdx_iff_getElem?] at h
  simp only at h
  by_contra hc
  rw [List.getElem?_eq_none (by omega)] at h
  cases h

theorem jx_mem_zipIdx_getD {α : Type} (l : List α) (i : Nat) (dflt : α) (h : i < l.length) :
    (l.getD i dflt, i) ∈ l.zipIdx := by
  rw [List.mem_zipIdx_iff_getElem?]
  simp only
  rw [List.getD_eq_getElem?_getD, List.getElem?_eq_getElem h]; rfl

/-- a `flatMap` over `zipIdx` whose blocks are duplicate-free on a key and tag every element
    with the index of its block is duplicate-free on (key, index) -/
theorem jx_nodup_flatMap_zipIdx {α β γ : Type} (l : List α) (g : α × Nat → List β)
    (key : β → γ) (idx : β → Nat)
    (hidx : ∀ p ∈ l.zipIdx, ∀ b ∈ g p, idx b = p.2)
    (hkey : ∀ p ∈ l.zipIdx, ((g p).map key).Nodup) :
    (((l.zipIdx).flatMap g).map (fun b => (key b, idx b))).Nodup := by
  rw [List.map_flatMap, List.nodup_flatMap]
  constructor
  · intro p hp
    have h1 := hkey p hp
    have : (g p).map key = ((g p).map (fun b => (key b, idx b))).map Prod.fst := by
      rw [List.map_map]; rfl
    rw [this] at h1
    exact List.Nodup.of_map _ h1
  · have hnd : ((l.zipIdx).map Prod.snd).Nodup := by
      rw [List.zipIdx_map_snd]; exact List.nodup_range'
    have hpw : (l.zipIdx).Pairwise (fun a b => a.2 ≠ b.2) := List.pairwise_map.1 hnd
    have hpw' : (l.zipIdx).Pairwise (fun a b => a ∈ l.zipIdx ∧ b ∈ l.zipIdx ∧ a.2 ≠ b.2) := by
      have := List.Pairwise.and_mem.1 hpw
      exact this.imp (fun h => ⟨h.1, h.2.1, h.2.2⟩)
    refine hpw'.imp ?_
    rintro p q ⟨hp, hq, hne⟩
    simp only [Function.onFun]
    intro x hx1 hx2
    rw [List.mem_map] at hx1 hx2
    obtain ⟨b1, hb1, rfl⟩ := hx1
    obtain ⟨b2, hb2, he⟩ := hx2
    have e1 := hidx p hp b1 hb1
    have e2 := hidx q hq b2 hb2
    have : idx b2 = idx b1 := congrArg Prod.snd he
    exact hne (by rw [← e1, ← e2, this])

theorem jx_nodup_filterMap_key {α β γ : Type} (l : List α) (f : α → Option β) (ka : α → γ) (kb : β → γ)
    (hf : ∀ a b, f a = some b → kb b = ka a) (h : (l.map ka).Nodup) :
    ((l.filterMap f).map kb).Nodup := by
  induction l with
  | nil => simp
  | cons a l ih =>
    rw [List.map_cons, List.nodup_cons] at h
    rw [List.filterMap_cons]
    cases hfa : f a with
    | none => exact ih h.2
    | some b =>
      simp only [List.map_cons, List.nodup_cons]
      refine ⟨?_, ih h.2⟩
      intro hm
      apply h.1
      rw [List.mem_map] at hm ⊢
      obtain ⟨b', hb', e⟩ := hm
      rw [List.mem_filterMap] at hb'
      obtain ⟨a', ha', hfa'⟩ := hb'
      exact ⟨a', ha', by rw [← hf a' b' hfa', e, hf a b hfa]⟩

end Generic

/-! ### the inverted index and its size / empty-record caches -/

theorem jx_getElem?_rowToks (tok : String → List Tok) (attr : Nat) (table : List Row) (c : Nat) :
    (table.map (fun row => tok (row.cell attr).strVal))[c]? =
      if c < table.length then some (tok ((table.getD c []).cell attr).strVal) else none := by
  by_cases h : c < table.length
  · rw [if_pos h, List.getElem?_map, List.getD_eq_getElem?_getD, List.getElem?_eq_getElem h]; rfl
  · rw [if_neg h, List.getElem?_eq_none (by simpa using h)]

theorem jx_rowToks_nodup (tok : String → List Tok) (hnd : ∀ s, (tok s).Nodup) (attr : Nat) (table : List Row) :
    ∀ y ∈ table.map (fun row => tok (row.cell attr).strVal), y.Nodup := by
  intro y hy
  rw [List.mem_map] at hy
  obtain ⟨row, _, rfl⟩ := hy
  exact hnd _

/-- OverlapFilter.find_candidates as a list of pairs: `(c, k)` occurs iff row `c` exists, shares at
    least one token with the probe, and `k` is the number of shared tokens -/
theorem jx_mem_overlapFindCandidates (toks : List (List Tok)) (x : List Tok) (hx : x.Nodup)
    (hy : ∀ y ∈ toks, y.Nodup) (cs ce : Bool) (c : Nat) (k : Int) :
    (c, k) ∈ overlapFindCandidates x (InvIndex.build toks cs ce) ↔
      ∃ y, toks[c]? = some y ∧ 1 ≤ interCount x y ∧ k = ((interCount x y : Nat) : Int) := by
  have hk := overlapFindCandidates_keys toks x cs ce
  have hg := overlapFindCandidates_get toks x hx hy cs ce c
  constructor
  · intro h
    have h2 := Dict.get?_of_mem _ _ _ hk h
    rw [hg] at h2
    cases hc : toks[c]? with
    | none => rw [hc] at h2; cases h2
    | some y =>
      rw [hc] at h2
      simp only at h2
      split at h2
      · cases h2
      · rename_i hne
        refine ⟨y, rfl, by omega, ?_⟩
        exact (Option.some.inj h2).symm
  · rintro ⟨y, hy', h1, rfl⟩
    apply Dict.mem_of_get?
    rw [hg, hy']
    simp only
    rw [if_neg (by omega)]

/-! ### 1. OverlapFilter.filter_tables -/

/-- the `(left id, right id, overlap)` triples emitted by `OverlapFilter._filter_tables_split`,
    in output order -/
def overlapPairs (f : OverlapFilterObj) (tok : String → List Tok) (lAttr rAttr : Nat)
    (ltable rtable : List Row) : List (Nat × Nat × Int) :=
  let idx := InvIndex.build (ltable.map (fun row => tok (row.cell lAttr).strVal)) false false
  rtable.zipIdx.flatMap (fun p =>
    (overlapFindCandidates (tok (p.1.cell rAttr).strVal) idx).filterMap (fun q =>
      if compFn f.compOp (.int q.2) f.overlapSize then some (q.1, p.2, q.2) else none))

theorem overlapFilterTablesSplit_eq_pairs (f : OverlapFilterObj) (tok : String → List Tok) (o : OutCfg)
    (lAttr rAttr : Nat) (outSimScore : Bool) (ltable rtable : List Row) :
    overlapFilterTablesSplit f tok o lAttr rAttr outSimScore ltable rtable =
      (overlapPairs f tok lAttr rAttr ltable rtable).map (fun p =>
        outputRow o (ltable.getD p.1 []) (rtable.getD p.2.1 []) ++
          (if outSimScore then [Cell.int p.2.2] else [])) := by
  unfold overlapFilterTablesSplit overlapPairs
  simp only
  rw [jx_flatMap_eq_zipIdx_flatMap _ _ 0, List.map_flatMap]
  apply List.flatMap_congr
  rintro ⟨rRow, d⟩ hp
  have hd : rtable.getD d [] = rRow := jx_getD_of_mem_zipIdx _ _ _ _ hp
  rw [List.map_filterMap]
  apply List.filterMap_congr
  rintro ⟨cand, ov⟩ _
  simp only
  subst hd
  split <;> rfl

/-- EXACT: `(c, d, k)` is emitted iff both ids are valid, `k` is the number of common tokens of the two rows,
    `k ≥ 1`, and the comparison `k op overlap_size` holds. -/
theorem overlapPairs_mem (f : OverlapFilterObj) (tok : String → List Tok) (hnd : ∀ s, (tok s).Nodup)
    (lAttr rAttr : Nat) (ltable rtable : List Row) (c d : Nat) (k : Int) :
    (c, d, k) ∈ overlapPairs f tok lAttr rAttr ltable rtable ↔
      c < ltable.length ∧ d < rtable.length ∧
      k = ((interCount (tok ((rtable.getD d []).cell rAttr).strVal)
              (tok ((ltable.getD c []).cell lAttr).strVal) : Nat) : Int) ∧
      1 ≤ interCount (tok ((rtable.getD d []).cell rAttr).strVal)
              (tok ((ltable.getD c []).cell lAttr).strVal) ∧
      compFn f.compOp (.int k) f.overlapSize = true := by
  unfold overlapPairs
  simp only [List.mem_flatMap, List.mem_filterMap]
  constructor
  · rintro ⟨⟨rRow, d'⟩, hp, ⟨cand, ov⟩, hq, hsome⟩
    simp only at hsome hq
    split at hsome
    · rename_i hcmp
      simp only [Option.some.injEq, Prod.mk.injEq] at hsome
      obtain ⟨rfl, rfl, rfl⟩ := hsome
      have hd := jx_getD_of_mem_zipIdx rtable rRow d' [] hp
      have hlt := jx_lt_of_mem_zipIdx rtable rRow d' hp
      rw [jx_mem_overlapFindCandidates _ _ (hnd _) (jx_rowToks_nodup tok hnd lAttr ltable)] at hq
      obtain ⟨y, hy, h1, h2⟩ := hq
      rw [jx_getElem?_rowToks] at hy
      split at hy
      · rename_i hc
        cases hy
        rw [hd]
        exact ⟨hc, hlt, h2, h1, hcmp⟩
      · cases hy
    · cases hsome
  · rintro ⟨hc, hd, hk, h1, hcmp⟩
    refine ⟨(rtable.getD d [], d), jx_mem_zipIdx_getD rtable d [] hd, (c, k), ?_, ?_⟩
    · simp only
      rw [jx_mem_overlapFindCandidates _ _ (hnd _) (jx_rowToks_nodup tok hnd lAttr ltable)]
      refine ⟨_, ?_, h1, hk⟩
      rw [jx_getElem?_rowToks, if_pos hc]
    · simp only
      rw [if_pos hcmp]

theorem overlapPairs_nodup (f : OverlapFilterObj) (tok : String → List Tok)
    (lAttr rAttr : Nat) (ltable rtable : List Row) :
    ((overlapPairs f tok lAttr rAttr ltable rtable).map (fun p => (p.1, p.2.1))).Nodup := by
  unfold overlapPairs
  simp only
  apply jx_nodup_flatMap_zipIdx rtable _ (fun b : Nat × Nat × Int => b.1) (fun b : Nat × Nat × Int => b.2.1)
  · intro p _ b hb
    rw [List.mem_filterMap] at hb
    obtain ⟨q, _, hq⟩ := hb
    split at hq
    · cases hq; rfl
    · cases hq
  · intro p _
    have hk := overlapFindCandidates_keys (ltable.map (fun row => tok (row.cell lAttr).strVal))
      (tok (p.1.cell rAttr).strVal) false false
    refine jx_nodup_filterMap_key _ _ (fun q : Nat × Int => q.1) (fun b : Nat × Nat × Int => b.1) ?_ hk
    intro a b hab
    split at hab
    · cases hab; rfl
    · cases hab

/-! ### 3. overlap-coefficient join -/

theorem jx_mem_emptyRecords (ce : Bool) (sizes : List Nat) (rid : Nat) :
    rid ∈ emptyRecords ce sizes ↔ ce = true ∧ sizes[rid]? = some 0 := by
  unfold emptyRecords
  cases ce with
  | false => simp
  | true =>
    simp only [if_true, true_and, List.mem_filterMap]
    constructor
    · rintro ⟨⟨n, i⟩, hp, hsome⟩
      rw [List.mem_zipIdx_iff_getElem?] at hp
      simp only at hp hsome
      split at hsome
      · rename_i h0
        cases hsome
        rw [hp, h0]
      · cases hsome
    · intro h
      refine ⟨(0, rid), ?_, ?_⟩
      · rw [List.mem_zipIdx_iff_getElem?]; exact h
      · simp

theorem jx_emptyRecords_nodup (ce : Bool) (sizes : List Nat) : (emptyRecords ce sizes).Nodup := by
  unfold emptyRecords
  split
  · have hnd : ((sizes.zipIdx).map Prod.snd).Nodup := by
      rw [List.zipIdx_map_snd]; exact List.nodup_range'
    have hpw : (sizes.zipIdx).Pairwise (fun a b => a.2 ≠ b.2) := List.pairwise_map.1 hnd
    refine List.Pairwise.filterMap _ ?_ hpw
    rintro ⟨n, i⟩ ⟨n', i'⟩ hne b hb b' hb'
    simp only at hb hb' hne
    split at hb
    · split at hb'
      · cases hb; cases hb'; exact hne
      · cases hb'
    · cases hb
  · exact List.nodup_nil

theorem jx_emptyRecords_build (toks : List (List Tok)) (cs ce : Bool) :
    (InvIndex.build toks cs ce).emptyRecords = emptyRecords ce (toks.map List.length) := rfl

theorem jx_sizeCache_build (toks : List (List Tok)) (ce : Bool) :
    (InvIndex.build toks true ce).sizeCache = toks.map List.length := rfl

theorem jx_getElem?_rowSizes (tok : String → List Tok) (attr : Nat) (table : List Row) (c : Nat) :
    ((table.map (fun row => tok (row.cell attr).strVal)).map List.length)[c]? =
      if c < table.length then some (tok ((table.getD c []).cell attr).strVal).length else none := by
  rw [List.getElem?_map, jx_getElem?_rowToks]
  split <;> rfl

/-- the model's score expression (probe side first) is the symmetric specification `Spec.ovcScore` -/
theorem jx_ovcScore_eq (a b : List Tok) :
    PyV.div (PyV.toFloat (.int ((interCount b a : Nat) : Int)))
        (PyV.toFloat (.int (min (b.length : Int) (a.length : Int)))) = Spec.ovcScore a b := by
  unfold Spec.ovcScore
  rw [interCount_comm b a]
  have : min (b.length : Int) (a.length : Int) = ((min a.length b.length : Nat) : Int) := by omega
  rw [this]

/-- the `(left id, right id, score cell)` triples emitted by `_overlap_coefficient_join_split`,
    in output order -/
def ovcPairs (threshold : PyV) (compOp : String) (allowEmpty : Bool) (tok : String → List Tok)
    (lAttr rAttr : Nat) (ltable rtable : List Row) : List (Nat × Nat × Cell) :=
  let idx := InvIndex.build (ltable.map (fun row => tok (row.cell lAttr).strVal)) true allowEmpty
  rtable.zipIdx.flatMap (fun p =>
    let rt := tok (p.1.cell rAttr).strVal
    let rn := rt.length
    if allowEmpty && rn = 0 then idx.emptyRecords.map (fun lid => (lid, p.2, Cell.flt 1))
    else (overlapFindCandidates rt idx).filterMap (fun q =>
      let s := PyV.div (PyV.toFloat (.int q.2)) (PyV.toFloat (.int (min (rn : Int) (idx.sizeCache.getD q.1 0))))
      if compFn compOp s threshold then some (q.1, p.2, scoreCell s) else none))

theorem overlapCoefficientJoinSplit_eq_pairs (threshold : PyV) (compOp : String) (allowEmpty : Bool)
    (lAttr rAttr : Nat) (o : OutCfg) (outSimScore : Bool) (tok : String → List Tok) (ltable rtable : List Row) :
    overlapCoefficientJoinSplit threshold compOp allowEmpty lAttr rAttr o outSimScore tok ltable rtable =
      (ovcPairs threshold compOp allowEmpty tok lAttr rAttr ltable rtable).map (fun p =>
        withScore outSimScore (outputRow o (ltable.getD p.1 []) (rtable.getD p.2.1 [])) p.2.2) := by
  unfold overlapCoefficientJoinSplit ovcPairs
  simp only
  rw [jx_flatMap_eq_zipIdx_flatMap _ _ 0, List.map_flatMap]
  apply List.flatMap_congr
  rintro ⟨rRow, d⟩ hp
  have hd : rtable.getD d [] = rRow := jx_getD_of_mem_zipIdx _ _ _ _ hp
  subst hd
  simp only
  split
  · rw [List.map_map]; rfl
  · rw [List.map_filterMap]
    apply List.filterMap_congr
    rintro ⟨cand, ov⟩ _
    simp only
    split <;> rfl

/-- EXACT (simplified form): `(c, d, s)` is emitted iff both ids are valid and either both rows are empty,
    `allow_empty` holds and the score is 1.0, or the rows share at least one token, the score is the
    unrounded overlap coefficient and the comparison with the threshold holds for it. -/
theorem ovcPairs_mem' (threshold : PyV) (compOp : String) (allowEmpty : Bool) (tok : String → List Tok)
    (hnd : ∀ s, (tok s).Nodup) (lAttr rAttr : Nat) (ltable rtable : List Row) (c d : Nat) (s : Cell) :
    (c, d, s) ∈ ovcPairs threshold compOp allowEmpty tok lAttr rAttr ltable rtable ↔
      c < ltable.length ∧ d < rtable.length ∧
      ((Spec.bothEmpty (tok ((ltable.getD c []).cell lAttr).strVal)
            (tok ((rtable.getD d []).cell rAttr).strVal) = true ∧ allowEmpty = true ∧ s = .flt 1) ∨
       (1 ≤ interCount (tok ((rtable.getD d []).cell rAttr).strVal)
              (tok ((ltable.getD c []).cell lAttr).strVal) ∧
        s = scoreCell (Spec.ovcScore (tok ((ltable.getD c []).cell lAttr).strVal)
              (tok ((rtable.getD d []).cell rAttr).strVal)) ∧
        compFn compOp (Spec.ovcScore (tok ((ltable.getD c []).cell lAttr).strVal)
              (tok ((rtable.getD d []).cell rAttr).strVal)) threshold = true)) := by
  unfold ovcPairs
  simp only [List.mem_flatMap]
  constructor
  · rintro ⟨⟨rRow, d'⟩, hp, hmem⟩
    have hd := jx_getD_of_mem_zipIdx rtable rRow d' [] hp
    have hlt := jx_lt_of_mem_zipIdx rtable rRow d' hp
    simp only at hmem
    split at hmem
    · rename_i hcond
      rw [Bool.and_eq_true, decide_eq_true_eq] at hcond
      rw [List.mem_map] at hmem
      obtain ⟨lid, hlid, he⟩ := hmem
      simp only [Prod.mk.injEq] at he
      obtain ⟨rfl, rfl, rfl⟩ := he
      rw [jx_emptyRecords_build, jx_mem_emptyRecords, jx_getElem?_rowSizes] at hlid
      obtain ⟨_, h0⟩ := hlid
      split at h0
      · rename_i hc
        refine ⟨hc, hlt, Or.inl ⟨?_, hcond.1, rfl⟩⟩
        rw [hd]
        unfold Spec.bothEmpty
        rw [Bool.and_eq_true, decide_eq_true_eq, decide_eq_true_eq]
        exact ⟨Option.some.inj h0, hcond.2⟩
      · cases h0
    · rw [List.mem_filterMap] at hmem
      obtain ⟨⟨cand, ov⟩, hq, hsome⟩ := hmem
      simp only at hsome hq
      split at hsome
      · rename_i hcmp
        simp only [Option.some.injEq, Prod.mk.injEq] at hsome
        obtain ⟨rfl, rfl, rfl⟩ := hsome
        rw [jx_mem_overlapFindCandidates _ _ (hnd _) (jx_rowToks_nodup tok hnd lAttr ltable)] at hq
        obtain ⟨y, hy, h1, h2⟩ := hq
        rw [jx_getElem?_rowToks] at hy
        split at hy
        · rename_i hc
          cases hy
          have hsz : (InvIndex.build (ltable.map (fun row => tok (row.cell lAttr).strVal)) true allowEmpty).sizeCache.getD
              cand 0 = (tok ((ltable.getD cand []).cell lAttr).strVal).length := by
            rw [jx_sizeCache_build, List.getD_eq_getElem?_getD, jx_getElem?_rowSizes, if_pos hc]; rfl
          rw [hsz, h2, jx_ovcScore_eq] at hcmp
          rw [hsz, h2, jx_ovcScore_eq]
          rw [hd]
          exact ⟨hc, hlt, Or.inr ⟨h1, rfl, hcmp⟩⟩
        · cases hy
      · cases hsome
  · rintro ⟨hc, hd, hcase⟩
    refine ⟨(rtable.getD d [], d), jx_mem_zipIdx_getD rtable d [] hd, ?_⟩
    simp only
    rcases hcase with ⟨hbe, hae, rfl⟩ | ⟨h1, rfl, hcmp⟩
    · unfold Spec.bothEmpty at hbe
      rw [Bool.and_eq_true, decide_eq_true_eq, decide_eq_true_eq] at hbe
      rw [if_pos (by rw [Bool.and_eq_true, decide_eq_true_eq]; exact ⟨hae, hbe.2⟩)]
      rw [List.mem_map]
      refine ⟨c, ?_, rfl⟩
      rw [jx_emptyRecords_build, jx_mem_emptyRecords, jx_getElem?_rowSizes, if_pos hc, hbe.1]
      exact ⟨hae, rfl⟩
    · have hne : (tok ((rtable.getD d []).cell rAttr).strVal).length ≠ 0 := by
        intro h0
        have hnil : tok ((rtable.getD d []).cell rAttr).strVal = [] := List.eq_nil_of_length_eq_zero h0
        rw [hnil] at h1
        simp [interCount, dedup] at h1
      rw [if_neg (by rw [Bool.and_eq_true, decide_eq_true_eq]; exact fun h => hne h.2)]
      rw [List.mem_filterMap]
      have hsz : (InvIndex.build (ltable.map (fun row => tok (row.cell lAttr).strVal)) true allowEmpty).sizeCache.getD
          c 0 = (tok ((ltable.getD c []).cell lAttr).strVal).length := by
        rw [jx_sizeCache_build, List.getD_eq_getElem?_getD, jx_getElem?_rowSizes, if_pos hc]; rfl
      refine ⟨(c, ((interCount (tok ((rtable.getD d []).cell rAttr).strVal)
              (tok ((ltable.getD c []).cell lAttr).strVal) : Nat) : Int)), ?_, ?_⟩
      · rw [jx_mem_overlapFindCandidates _ _ (hnd _) (jx_rowToks_nodup tok hnd lAttr ltable)]
        refine ⟨_, ?_, h1, rfl⟩
        rw [jx_getElem?_rowToks, if_pos hc]
      · simp only
        rw [hsz, jx_ovcScore_eq, if_pos hcmp]

/-- EXACT, in the requested shape.  The conjunct `¬(allowEmpty ∧ |rt d| = 0)` of the second disjunct is redundant
    (`1 ≤ interCount …` already forces the right row to be non-empty); see `ovcPairs_mem'`. -/
theorem ovcPairs_mem (threshold : PyV) (compOp : String) (allowEmpty : Bool) (tok : String → List Tok)
    (hnd : ∀ s, (tok s).Nodup) (lAttr rAttr : Nat) (ltable rtable : List Row) (c d : Nat) (s : Cell) :
    (c, d, s) ∈ ovcPairs threshold compOp allowEmpty tok lAttr rAttr ltable rtable ↔
      c < ltable.length ∧ d < rtable.length ∧
      ((Spec.bothEmpty (tok ((ltable.getD c []).cell lAttr).strVal)
            (tok ((rtable.getD d []).cell rAttr).strVal) = true ∧ allowEmpty = true ∧ s = .flt 1) ∨
       (¬(allowEmpty = true ∧ (tok ((rtable.getD d []).cell rAttr).strVal).length = 0) ∧
        1 ≤ interCount (tok ((rtable.getD d []).cell rAttr).strVal)
              (tok ((ltable.getD c []).cell lAttr).strVal) ∧
        s = scoreCell (Spec.ovcScore (tok ((ltable.getD c []).cell lAttr).strVal)
              (tok ((rtable.getD d []).cell rAttr).strVal)) ∧
        compFn compOp (Spec.ovcScore (tok ((ltable.getD c []).cell lAttr).strVal)
              (tok ((rtable.getD d []).cell rAttr).strVal)) threshold = true)) := by
  rw [ovcPairs_mem' threshold compOp allowEmpty tok hnd]
  constructor
  · rintro ⟨hc, hd, h | ⟨h1, h2, h3⟩⟩
    · exact ⟨hc, hd, Or.inl h⟩
    · refine ⟨hc, hd, Or.inr ⟨?_, h1, h2, h3⟩⟩
      rintro ⟨_, h0⟩
      rw [List.eq_nil_of_length_eq_zero h0] at h1
      simp [interCount, dedup] at h1
  · rintro ⟨hc, hd, h | ⟨_, h1, h2, h3⟩⟩
    · exact ⟨hc, hd, Or.inl h⟩
    · exact ⟨hc, hd, Or.inr ⟨h1, h2, h3⟩⟩

theorem ovcPairs_nodup (threshold : PyV) (compOp : String) (allowEmpty : Bool) (tok : String → List Tok)
    (lAttr rAttr : Nat) (ltable rtable : List Row) :
    ((ovcPairs threshold compOp allowEmpty tok lAttr rAttr ltable rtable).map (fun p => (p.1, p.2.1))).Nodup := by
  unfold ovcPairs
  simp only
  apply jx_nodup_flatMap_zipIdx rtable _ (fun b : Nat × Nat × Cell => b.1) (fun b : Nat × Nat × Cell => b.2.1)
  · intro p _ b hb
    split at hb
    · rw [List.mem_map] at hb
      obtain ⟨lid, _, rfl⟩ := hb
      rfl
    · rw [List.mem_filterMap] at hb
      obtain ⟨q, _, hq⟩ := hb
      split at hq
      · cases hq; rfl
      · cases hq
  · intro p _
    split
    · rw [List.map_map]
      have : ((fun b : Nat × Nat × Cell => b.1) ∘ fun lid : Nat => (lid, p.2, Cell.flt 1)) = id := rfl
      rw [this, List.map_id, jx_emptyRecords_build]
      exact jx_emptyRecords_nodup _ _
    · have hk := overlapFindCandidates_keys (ltable.map (fun row => tok (row.cell lAttr).strVal))
        (tok (p.1.cell rAttr).strVal) true allowEmpty
      refine jx_nodup_filterMap_key _ _ (fun q : Nat × Int => q.1) (fun b : Nat × Nat × Cell => b.1) ?_ hk
      intro a b hab
      split at hab
      · cases hab; rfl
      · cases hab

/-! ### 2. OverlapFilter.filter_pair -/

/-- EXACT: on two non-missing cells the pair survives (`False`) iff both strings are non-empty and the
    comparison holds for the number of common tokens. -/
theorem overlapFilterPair_iff (f : OverlapFilterObj) (tok : String → List Tok) (l r : Cell)
    (hl : l.isMissing = false) (hr : r.isMissing = false) :
    overlapFilterPair f tok l r = false ↔
      (l.strVal ≠ "" ∧ r.strVal ≠ "" ∧
        compFn f.compOp (.int (interCount (tok l.strVal) (tok r.strVal))) f.overlapSize = true) := by
  unfold overlapFilterPair overlapCount
  rw [hl, hr]
  simp only [Bool.or_self, Bool.false_eq_true, if_false]
  by_cases h1 : l.strVal = ""
  · simp [h1]
  · by_cases h2 : r.strVal = ""
    · simp [h2]
    · simp only [h1, h2, decide_false, Bool.or_self, Bool.false_eq_true, if_false, ne_eq, not_false_eq_true,
        true_and]
      split
      · rename_i h; simp [h]
      · rename_i h; simp [h]

theorem overlapFilterPair_missing (f : OverlapFilterObj) (tok : String → List Tok) (l r : Cell)
    (h : l.isMissing = true ∨ r.isMissing = true) : overlapFilterPair f tok l r = !f.allowMissing := by
  unfold overlapFilterPair
  rw [if_pos]
  rcases h with h | h <;> simp [h]

end SSJ

/-
  SSJ.Proofs.Rows — property C11: output tables have the documented columns and faithfully
  project the source rows.
-/
import SSJ.Model.Frame

namespace SSJ

/-! ### dedup -/

theorem dedup_foldl_spec {α : Type} [DecidableEq α] (l : List α) : ∀ acc : List α,
    ∃ t, l.foldl (fun acc a => if a ∈ acc then acc else acc ++ [a]) acc = acc ++ t ∧ t.Sublist l ∧
      (acc.Nodup → (acc ++ t).Nodup) ∧ ∀ a, a ∈ t ↔ (a ∈ l ∧ a ∉ acc) := by
  induction l with
  | nil => intro acc; exact ⟨[], by simp⟩
  | cons x xs ih =>
    intro acc
    by_cases hx : x ∈ acc
    · obtain ⟨t, h1, h2, h3, h4⟩ := ih acc
      refine ⟨t, ?_, h2.cons x, h3, ?_⟩
      · simp only [List.foldl_cons, hx, if_true]; exact h1
      · intro a; rw [h4]; simp only [List.mem_cons]
        constructor
        · rintro ⟨h, h'⟩; exact ⟨Or.inr h, h'⟩
        · rintro ⟨h | h, h'⟩
          · subst h; exact absurd hx h'
          · exact ⟨h, h'⟩
    · obtain ⟨t, h1, h2, h3, h4⟩ := ih (acc ++ [x])
      refine ⟨x :: t, ?_, h2.cons_cons x, ?_, ?_⟩
      · simp only [List.foldl_cons, hx, if_false]; rw [h1]; simp
      · intro hn
        have : (acc ++ [x]).Nodup := by
          rw [List.nodup_append]; refine ⟨hn, by simp, ?_⟩
          intro a ha b hb; simp only [List.mem_singleton] at hb; subst hb
          intro h; subst h; exact hx ha
        have := h3 this
        simpa using this
      · intro a; simp only [List.mem_cons, h4, List.mem_append, not_or, List.not_mem_nil, or_false]
        constructor
        · rintro (h | ⟨h, h', _⟩)
          · subst h; exact ⟨Or.inl rfl, hx⟩
          · exact ⟨Or.inr h, h'⟩
        · rintro ⟨h | h, h'⟩
          · exact Or.inl h
          · by_cases hax : a = x
            · exact Or.inl hax
            · exact Or.inr ⟨h, h', hax⟩

theorem dedup_spec {α : Type} [DecidableEq α] (l : List α) :
    (dedup l).Nodup ∧ (dedup l).Sublist l ∧ ∀ a, a ∈ dedup l ↔ a ∈ l := by
  obtain ⟨t, h1, h2, h3, h4⟩ := dedup_foldl_spec l []
  have : dedup l = t := by unfold dedup; rw [h1]; simp
  rw [this]
  refine ⟨by simpa using h3 List.nodup_nil, h2, ?_⟩
  intro a; rw [h4]; simp

/-! ### remove_redundant_attrs -/

/-- remove_redundant_attrs: key removed, repeats removed, order kept -/
theorem removeRedundantAttrs_spec (out : List String) (key : String) :
    ∃ l, removeRedundantAttrs (some out) key = some l ∧ l.Nodup ∧ key ∉ l ∧
      (∀ a, a ∈ l ↔ (a ∈ out ∧ a ≠ key)) ∧ l.Sublist out := by
  obtain ⟨h1, h2, h3⟩ := dedup_spec (out.filter (· ≠ key))
  refine ⟨_, rfl, h1, ?_, ?_, h2.trans List.filter_sublist⟩
  · rw [h3]; simp
  · intro a; rw [h3]; simp

theorem removeRedundantAttrs_none (key : String) : removeRedundantAttrs none key = none := rfl

/-! ### positional lookup -/

theorem cell_map_map_idxOf (proj : List String) (g : String → Nat) (srow : Row) (a : String)
    (h : a ∈ proj) :
    Row.cell ((proj.map g).map srow.cell) (proj.idxOf a) = srow.cell (g a) := by
  have hlt : proj.idxOf a < proj.length := List.idxOf_lt_length_iff.mpr h
  unfold Row.cell
  rw [List.getD_eq_getElem?_getD, List.getElem?_map, List.getElem?_map,
    List.getElem?_eq_getElem hlt]
  simp [List.getElem_idxOf]

theorem mem_getAttrsToProject (out : Option (List String)) (key attr a : String) :
    a ∈ getAttrsToProject out key attr ↔ a = key ∨ a = attr ∨ a ∈ out.getD [] := by
  unfold getAttrsToProject
  simp only [List.mem_append, List.mem_cons, List.not_mem_nil, or_false, List.mem_filter,
    decide_eq_true_eq]
  constructor
  · rintro ((h | h) | ⟨h, _⟩)
    · exact Or.inl h
    · exact Or.inr (Or.inl h)
    · exact Or.inr (Or.inr h)
  · rintro (h | h | h)
    · exact Or.inl (Or.inl h)
    · exact Or.inl (Or.inr h)
    · by_cases ha : a = attr
      · exact Or.inl (Or.inr ha)
      · exact Or.inr ⟨h, ha⟩

/-- generic form: holds for any `out'` (not only de-duplicated ones) -/
theorem projection_faithful' (g : String → Nat) (key attr : String) (out' : Option (List String))
    (srow : Row) :
    let proj := getAttrsToProject out' key attr
    let arow : Row := (proj.map g).map srow.cell
    arow.cell (proj.idxOf key) = srow.cell (g key) ∧
    arow.cell (proj.idxOf attr) = srow.cell (g attr) ∧
    (findOutputAttributeIndices proj out').map arow.cell = (out'.getD []).map (fun a => srow.cell (g a)) := by
  intro proj arow
  refine ⟨?_, ?_, ?_⟩
  · exact cell_map_map_idxOf proj g srow key ((mem_getAttrsToProject ..).mpr (Or.inl rfl))
  · exact cell_map_map_idxOf proj g srow attr ((mem_getAttrsToProject ..).mpr (Or.inr (Or.inl rfl)))
  · unfold findOutputAttributeIndices
    rw [List.map_map]
    apply List.map_congr_left
    intro a ha
    exact cell_map_map_idxOf proj g srow a ((mem_getAttrsToProject ..).mpr (Or.inr (Or.inr ha)))

/-- positional lookup in the projection returns the source cell -/
theorem projection_faithful (f : Frame) (key attr : String) (out : Option (List String)) (srow : Row) :
    let out' := removeRedundantAttrs out key
    let proj := getAttrsToProject out' key attr
    let arow : Row := (proj.map f.colIdx).map srow.cell
    arow.cell (proj.idxOf key) = srow.cell (f.colIdx key) ∧
    arow.cell (proj.idxOf attr) = srow.cell (f.colIdx attr) ∧
    (findOutputAttributeIndices proj out').map arow.cell = (out'.getD []).map (fun a => srow.cell (f.colIdx a)) :=
  projection_faithful' f.colIdx key attr (removeRedundantAttrs out key) srow

/-- rows of the projected array = present rows of the frame, in order, projected -/
theorem convertToArray_spec (f : Frame) (proj : List String) (joinAttr : String) :
    convertToArray f proj joinAttr =
      (f.rows.filter (fun r => !(r.cell (f.colIdx joinAttr)).isMissing)).map (fun r => (proj.map f.colIdx).map r.cell) :=
  rfl

/-! ### output rows -/

theorem outputRow_faithful' (gl gr : String → Nat) (lKey rKey lAttr rAttr : String)
    (lOut' rOut' : Option (List String)) (ls rs : Row) :
    let lProj := getAttrsToProject lOut' lKey lAttr
    let rProj := getAttrsToProject rOut' rKey rAttr
    let o : OutCfg := { lKey := lProj.idxOf lKey, rKey := rProj.idxOf rKey,
                        lOut := findOutputAttributeIndices lProj lOut', rOut := findOutputAttributeIndices rProj rOut',
                        hasOut := lOut'.isSome || rOut'.isSome }
    outputRow o ((lProj.map gl).map ls.cell) ((rProj.map gr).map rs.cell) =
      [ls.cell (gl lKey), rs.cell (gr rKey)] ++
        (lOut'.getD []).map (fun a => ls.cell (gl a)) ++ (rOut'.getD []).map (fun a => rs.cell (gr a)) := by
  intro lProj rProj o
  obtain ⟨hl1, _, hl3⟩ := projection_faithful' gl lKey lAttr lOut' ls
  obtain ⟨hr1, _, hr3⟩ := projection_faithful' gr rKey rAttr rOut' rs
  unfold outputRow
  split
  · unfold getOutputRow
    simp only [o]
    rw [hl1, hr1, hl3, hr3]
  · rename_i hno
    simp only [o, Bool.or_eq_true, not_or, Bool.not_eq_true, Option.isSome_eq_false_iff,
      Option.isNone_iff_eq_none] at hno
    simp only [o]
    rw [hl1, hr1, hno.1, hno.2]
    simp

/-- an output row built from projected rows lists: left key, right key, the requested left
    attributes, the requested right attributes — each taken from the source rows -/
theorem outputRow_faithful (l r : Frame) (lKey rKey lAttr rAttr : String) (lOut rOut : Option (List String)) (ls rs : Row) :
    let lOut' := removeRedundantAttrs lOut lKey
    let rOut' := removeRedundantAttrs rOut rKey
    let lProj := getAttrsToProject lOut' lKey lAttr
    let rProj := getAttrsToProject rOut' rKey rAttr
    let o : OutCfg := { lKey := lProj.idxOf lKey, rKey := rProj.idxOf rKey,
                        lOut := findOutputAttributeIndices lProj lOut', rOut := findOutputAttributeIndices rProj rOut',
                        hasOut := lOut'.isSome || rOut'.isSome }
    outputRow o ((lProj.map l.colIdx).map ls.cell) ((rProj.map r.colIdx).map rs.cell) =
      [ls.cell (l.colIdx lKey), rs.cell (r.colIdx rKey)] ++
        (lOut'.getD []).map (fun a => ls.cell (l.colIdx a)) ++ (rOut'.getD []).map (fun a => rs.cell (r.colIdx a)) :=
  outputRow_faithful' l.colIdx r.colIdx lKey rKey lAttr rAttr
    (removeRedundantAttrs lOut lKey) (removeRedundantAttrs rOut rKey) ls rs

/-! ### header / mkRows -/

/-- header and row widths agree, so `mkRows` never fails and never pads on rows of the right shape -/
theorem getOutputHeader_length (lKey rKey : String) (lOut rOut : Option (List String)) (lPre rPre : String) :
    (getOutputHeader lKey rKey lOut rOut lPre rPre).length = 2 + (lOut.getD []).length + (rOut.getD []).length := by
  unfold getOutputHeader
  simp only [List.length_append, List.length_map, List.length_cons, List.length_nil]

theorem foldl_max_length_const (rows : List Row) (n : Nat) (h : ∀ r ∈ rows, r.length = n) :
    ∀ m, rows.foldl (fun m r => max m r.length) m = if rows.isEmpty then m else max m n := by
  induction rows with
  | nil => intro m; rfl
  | cons x xs ih =>
    intro m
    have hx : x.length = n := h x (by simp)
    have ih' := ih (fun r hr => h r (by simp [hr])) (max m x.length)
    simp only [List.foldl_cons, List.isEmpty_cons]
    rw [ih', hx]
    split <;> simp [Nat.max_assoc]

theorem mkRows_id (rows : List Row) (header : List String) (h : ∀ r ∈ rows, r.length = header.length) :
    mkRows rows header = .ok rows := by
  unfold mkRows
  cases hr : rows with
  | nil => rfl
  | cons x xs =>
    rw [← hr]
    have he : rows.isEmpty = false := by rw [hr]; rfl
    have hw := foldl_max_length_const rows header.length h 0
    rw [he] at hw
    simp only [Nat.zero_max, Bool.false_eq_true, if_false] at hw
    simp only [he, Bool.false_eq_true, if_false, hw, ne_eq, not_true_eq_false]
    congr 1
    conv => rhs; rw [← List.map_id rows]
    apply List.map_congr_left
    intro r hr'
    rw [h r hr']; simp

/-- every output row assembled with the `OutCfg` of `runTables` has the width of the header
    (before the optional `_sim_score` column) -/
theorem outputRow_length (lKey rKey lAttr rAttr : String) (lOut' rOut' : Option (List String))
    (lPre rPre : String) (la ra : Row) :
    let lProj := getAttrsToProject lOut' lKey lAttr
    let rProj := getAttrsToProject rOut' rKey rAttr
    let o : OutCfg := { lKey := lProj.idxOf lKey, rKey := rProj.idxOf rKey,
                        lOut := findOutputAttributeIndices lProj lOut', rOut := findOutputAttributeIndices rProj rOut',
                        hasOut := lOut'.isSome || rOut'.isSome }
    (outputRow o la ra).length = (getOutputHeader lKey rKey lOut' rOut' lPre rPre).length := by
  intro lProj rProj o
  rw [getOutputHeader_length]
  unfold outputRow
  split
  · simp [getOutputRow, o, findOutputAttributeIndices]; omega
  · rename_i hno
    simp only [o, Bool.or_eq_true, not_or, Bool.not_eq_true, Option.isSome_eq_false_iff,
      Option.isNone_iff_eq_none] at hno
    simp [hno.1, hno.2]

/-! ### finish / runTables -/

theorem finish_columns (header : List String) (chunks : List (List Row)) (missing : Option (List Row)) :
    (finish header chunks missing).columns = "_id" :: header := rfl

theorem finish_ids (header : List String) (chunks : List (List Row)) (missing : Option (List Row)) :
    (finish header chunks missing).rows.map (fun row => row.cell 0) =
      (List.range (finish header chunks missing).rows.length).map (fun (i : Nat) => Cell.int i) := by
  unfold finish
  simp only [List.map_map, List.length_map, List.length_zipIdx]
  have : ((fun (row : Row) => row.cell 0) ∘ fun (x : Row × Nat) => Cell.int x.2 :: x.1) =
      (fun (i : Nat) => Cell.int i) ∘ Prod.snd := by
    funext x; simp [Row.cell]
  rw [this, ← List.map_map, List.zipIdx_map_snd, List.range_eq_range']

/-- inversion of a successful bind in `Except` -/
theorem except_bind_eq_ok_iff {ε α β : Type} (x : Except ε α) (f : α → Except ε β) (b : β) :
    (x >>= f) = .ok b ↔ ∃ a, x = .ok a ∧ f a = .ok b := by
  cases x with
  | error e => exact ⟨fun h => (by cases h), fun ⟨_, h, _⟩ => (by cases h)⟩
  | ok a => exact ⟨fun h => ⟨a, rfl, h⟩, fun ⟨_, h, h'⟩ => (by cases h; exact h')⟩

theorem raiseIf_eq_ok (c : Bool) (e : PyErr) (u : Unit) : raiseIf c e = .ok u ↔ c = false := by
  cases c
  · exact ⟨fun _ => rfl, fun _ => rfl⟩
  · exact ⟨fun h => (by cases h), fun h => (by cases h)⟩

/-- `output_table.insert(0, '_id', …)` succeeds iff the header has no `_id` column -/
theorem finishPy_eq_ok (header : List String) (chunks : List (List Row)) (missing : Option (List Row)) (fr : Frame) :
    finishPy header chunks missing = .ok fr ↔ "_id" ∉ header ∧ fr = finish header chunks missing := by
  unfold finishPy
  by_cases h : "_id" ∈ header
  · rw [if_pos h]; exact ⟨fun h' => (by cases h'), fun h' => absurd h h'.1⟩
  · rw [if_neg h]
    exact ⟨fun h' => ⟨h, (Except.ok.inj h').symm⟩, fun h' => by rw [h'.2]⟩

theorem finishPy_of_not_mem (header : List String) (chunks : List (List Row)) (missing : Option (List Row))
    (h : "_id" ∉ header) : finishPy header chunks missing = .ok (finish header chunks missing) :=
  (finishPy_eq_ok _ _ _ _).2 ⟨h, rfl⟩

theorem finishPy_of_mem (header : List String) (chunks : List (List Row)) (missing : Option (List Row))
    (h : "_id" ∈ header) : finishPy header chunks missing = .error .other := by
  unfold finishPy; rw [if_pos h]

/-- INVERSION of a successful `runTables`: the tokenizer met only strings, the header has no `_id`
    column, and the result is `finish` of some chunk results and missing rows -/
theorem runTables_inv (a : TableArgs) (l r : Frame) (allowMissing outSimScore : Bool) (cpu : Int)
    (work : OutCfg → Nat → Nat → List Row → List Row → List Row) (fr : Frame)
    (h : runTables a l r allowMissing outSimScore cpu work = .ok fr) :
    (joinCellsOk (convertToArray l (getAttrsToProject (removeRedundantAttrs a.lOut a.lKey) a.lKey a.lAttr) a.lAttr)
        ((getAttrsToProject (removeRedundantAttrs a.lOut a.lKey) a.lKey a.lAttr).idxOf a.lAttr) &&
     joinCellsOk (convertToArray r (getAttrsToProject (removeRedundantAttrs a.rOut a.rKey) a.rKey a.rAttr) a.rAttr)
        ((getAttrsToProject (removeRedundantAttrs a.rOut a.rKey) a.rKey a.rAttr).idxOf a.rAttr)) = true ∧
    "_id" ∉ (getOutputHeader a.lKey a.rKey (removeRedundantAttrs a.lOut a.lKey)
        (removeRedundantAttrs a.rOut a.rKey) a.lPre a.rPre ++ (if outSimScore then ["_sim_score"] else [])) ∧
    ∃ chunks missing, fr = finish (getOutputHeader a.lKey a.rKey (removeRedundantAttrs a.lOut a.lKey)
        (removeRedundantAttrs a.rOut a.rKey) a.lPre a.rPre ++ (if outSimScore then ["_sim_score"] else []))
        chunks missing := by
  unfold runTables at h
  simp only [] at h
  obtain ⟨u, h1, h⟩ := (except_bind_eq_ok_iff _ _ _).1 h
  obtain ⟨chunks, _, h⟩ := (except_bind_eq_ok_iff _ _ _).1 h
  have h1' := (raiseIf_eq_ok _ _ _).1 h1
  have key : ∃ missing, finishPy (getOutputHeader a.lKey a.rKey (removeRedundantAttrs a.lOut a.lKey)
        (removeRedundantAttrs a.rOut a.rKey) a.lPre a.rPre ++ (if outSimScore then ["_sim_score"] else []))
        chunks missing = .ok fr := by
    cases allowMissing
    · exact ⟨none, h⟩
    · rw [if_pos rfl] at h
      obtain ⟨missing, _, h⟩ := (except_bind_eq_ok_iff _ _ _).1 h
      exact ⟨missing, h⟩
  obtain ⟨missing, h⟩ := key
  obtain ⟨hid, hfr⟩ := (finishPy_eq_ok _ _ _ _).1 h
  exact ⟨by simpa using h1', hid, chunks, missing, hfr⟩

theorem runTables_eq_finish (a : TableArgs) (l r : Frame) (allowMissing outSimScore : Bool) (cpu : Int)
    (work : OutCfg → Nat → Nat → List Row → List Row → List Row) (fr : Frame)
    (h : runTables a l r allowMissing outSimScore cpu work = .ok fr) :
    ∃ chunks missing, fr = finish (getOutputHeader a.lKey a.rKey (removeRedundantAttrs a.lOut a.lKey)
        (removeRedundantAttrs a.rOut a.rKey) a.lPre a.rPre ++ (if outSimScore then ["_sim_score"] else []))
        chunks missing :=
  (runTables_inv a l r allowMissing outSimScore cpu work fr h).2.2

/-- the columns of every join / filter_tables result -/
theorem runTables_columns (a : TableArgs) (l r : Frame) (allowMissing outSimScore : Bool) (cpu : Int)
    (work : OutCfg → Nat → Nat → List Row → List Row → List Row) (fr : Frame)
    (h : runTables a l r allowMissing outSimScore cpu work = .ok fr) :
    fr.columns = "_id" :: (getOutputHeader a.lKey a.rKey (removeRedundantAttrs a.lOut a.lKey)
        (removeRedundantAttrs a.rOut a.rKey) a.lPre a.rPre ++ (if outSimScore then ["_sim_score"] else [])) := by
  obtain ⟨chunks, missing, rfl⟩ := runTables_eq_finish a l r allowMissing outSimScore cpu work fr h
  rfl

/-- `_id` is 0..n-1 -/
theorem runTables_ids (a : TableArgs) (l r : Frame) (allowMissing outSimScore : Bool) (cpu : Int)
    (work : OutCfg → Nat → Nat → List Row → List Row → List Row) (fr : Frame)
    (h : runTables a l r allowMissing outSimScore cpu work = .ok fr) :
    fr.rows.map (fun row => row.cell 0) = (List.range fr.rows.length).map (fun (i : Nat) => Cell.int i) := by
  obtain ⟨chunks, missing, rfl⟩ := runTables_eq_finish a l r allowMissing outSimScore cpu work fr h
  exact finish_ids _ _ _

section AxiomCheck
#print axioms removeRedundantAttrs_spec
#print axioms removeRedundantAttrs_none
#print axioms projection_faithful
#print axioms convertToArray_spec
#print axioms outputRow_faithful
#print axioms getOutputHeader_length
#print axioms mkRows_id
#print axioms outputRow_length
#print axioms runTables_columns
#print axioms runTables_ids
end AxiomCheck

end SSJ

/-
  SSJ.Proofs.TokenOrdering — facts about `Dict`, `dedup`/`interCount`/`setLen`,
  `genTokenOrdering` and `orderUsing`.
-/
import Mathlib.Data.List.Sort
import Mathlib.Data.List.Nodup
import Mathlib.Data.String.Basic
import SSJ.Model.TokenOrdering
import SSJ.Proofs.DictFold

namespace SSJ

/-! ### Dictionary basics -/
namespace Dict
variable {κ ν : Type} [DecidableEq κ]

theorem keys_nodup_set (d : List (κ × ν)) (k : κ) (v : ν) (h : (d.map (·.1)).Nodup) :
    ((Dict.set d k v).map (·.1)).Nodup := by
  rw [keys_set]
  split
  · exact h
  · rename_i hk
    exact List.nodup_append.mpr ⟨h, List.nodup_singleton k, by
      intro a ha b hb
      simp only [List.mem_singleton] at hb
      subst hb
      exact fun e => hk (e ▸ ha)⟩

theorem get?_isSome_iff (d : List (κ × ν)) (k : κ) :
    (Dict.get? d k).isSome ↔ k ∈ d.map (·.1) := by
  induction d with
  | nil => simp [get?]
  | cons p m ih =>
    obtain ⟨k', v'⟩ := p
    by_cases h : k' = k
    · simp [get?, h]
    · have h' : ¬ k = k' := fun e => h e.symm
      simp [get?, h, h', ih]

theorem get?_of_mem (d : List (κ × ν)) (k : κ) (v : ν) (hnd : (d.map (·.1)).Nodup)
    (h : (k, v) ∈ d) : Dict.get? d k = some v := by
  induction d with
  | nil => simp at h
  | cons p m ih =>
    obtain ⟨k', v'⟩ := p
    simp only [List.map_cons, List.nodup_cons] at hnd
    rcases List.mem_cons.mp h with h | h
    · cases h; simp [get?]
    · have : k' ≠ k := by
        rintro rfl
        exact hnd.1 (List.mem_map.mpr ⟨_, h, rfl⟩)
      simp only [get?, this, if_false]
      exact ih hnd.2 h

/-- two dictionaries with duplicate-free keys and the same lookups are permutations -/
theorem perm_of_get?_eq (d1 d2 : List (κ × ν)) (h1 : (d1.map (·.1)).Nodup)
    (h2 : (d2.map (·.1)).Nodup) (h : ∀ k, Dict.get? d1 k = Dict.get? d2 k) : d1.Perm d2 := by
  classical
  rw [List.perm_ext_iff_of_nodup (List.Nodup.of_map _ h1) (List.Nodup.of_map _ h2)]
  rintro ⟨k, v⟩
  constructor
  · intro hm
    exact mem_of_get? _ _ _ ((h k) ▸ get?_of_mem _ _ _ h1 hm)
  · intro hm
    exact mem_of_get? _ _ _ ((h k).symm ▸ get?_of_mem _ _ _ h2 hm)

end Dict

/-! ### `dedup`, `interCount`, `setLen` -/
section Dedup
variable {α : Type} [DecidableEq α]

private abbrev dstep (acc : List α) (a : α) : List α := if a ∈ acc then acc else acc ++ [a]

private theorem mem_foldl_dstep (l acc : List α) (a : α) :
    a ∈ l.foldl dstep acc ↔ a ∈ acc ∨ a ∈ l := by
  induction l generalizing acc with
  | nil => simp
  | cons x l ih =>
    rw [List.foldl_cons, ih]
    by_cases hx : x ∈ acc
    · simp only [dstep, hx, if_true, List.mem_cons]
      constructor
      · rintro (h | h) <;> simp [h]
      · rintro (h | rfl | h) <;> simp_all
    · simp only [dstep, hx, if_false, List.mem_append, List.mem_cons]
      tauto

private theorem nodup_foldl_dstep (l acc : List α) (h : acc.Nodup) :
    (l.foldl dstep acc).Nodup := by
  induction l generalizing acc with
  | nil => simpa
  | cons x l ih =>
    rw [List.foldl_cons]
    apply ih
    by_cases hx : x ∈ acc
    · simpa [dstep, hx]
    · simp only [dstep, hx, if_false]
      exact List.nodup_append.mpr ⟨h, List.nodup_singleton x, by
        intro a ha b hb
        simp only [List.mem_singleton] at hb
        subst hb
        exact fun e => hx (e ▸ ha)⟩

private theorem foldl_dstep_of_nodup (l acc : List α) (h : (acc ++ l).Nodup) :
    l.foldl dstep acc = acc ++ l := by
  induction l generalizing acc with
  | nil => simp
  | cons x l ih =>
    have hx : x ∉ acc := by
      intro hx
      have := (List.nodup_append.mp h).2.2 x hx x (by simp)
      exact this rfl
    rw [List.foldl_cons]
    simp only [dstep, hx, if_false]
    rw [ih]
    · simp
    · simpa using h

theorem dedup_eq_self_of_nodup (l : List α) (h : l.Nodup) : dedup l = l := by
  have := foldl_dstep_of_nodup l [] (by simpa using h)
  simpa [dedup, dstep] using this

theorem dedup_nodup (l : List α) : (dedup l).Nodup :=
  nodup_foldl_dstep l [] List.nodup_nil

theorem mem_dedup (l : List α) (a : α) : a ∈ dedup l ↔ a ∈ l := by
  have := mem_foldl_dstep l [] a
  simpa [dedup, dstep] using this

theorem interCount_comm (a b : List α) : interCount a b = interCount b a := by
  unfold interCount
  apply List.Perm.length_eq
  rw [List.perm_ext_iff_of_nodup ((dedup_nodup a).filter _) ((dedup_nodup b).filter _)]
  intro t
  simp only [List.mem_filter, mem_dedup, decide_eq_true_eq]
  tauto

theorem interCount_le_left (a b : List α) : interCount a b ≤ setLen a := by
  unfold interCount setLen
  exact List.length_filter_le _ _

end Dedup

/-! ### `orderUsing` -/

private theorem sortNat_perm (l : List Nat) : (sortNat l).Perm l := List.mergeSort_perm _ _

private theorem sortNat_sorted (l : List Nat) : (sortNat l).Pairwise (· ≤ ·) := by
  have := List.pairwise_mergeSort (le := fun a b : Nat => decide (a ≤ b))
    (fun a b c h1 h2 => by simp only [decide_eq_true_eq] at *; omega)
    (fun a b => by simp only [Bool.or_eq_true, decide_eq_true_eq]; omega) l
  exact this.imp (by simp)

theorem orderUsing_perm (toks : List Tok) (o : List (Tok × Nat)) :
    (orderUsing toks o).Perm (toks.filterMap (fun t => Dict.get? o t)) :=
  sortNat_perm _

theorem mem_orderUsing (toks : List Tok) (o : List (Tok × Nat)) (r : Nat) :
    r ∈ orderUsing toks o ↔ ∃ t ∈ toks, Dict.get? o t = some r := by
  rw [(orderUsing_perm toks o).mem_iff, List.mem_filterMap]

theorem orderUsing_sorted (toks : List Tok) (o : List (Tok × Nat)) :
    (orderUsing toks o).Pairwise (· ≤ ·) :=
  sortNat_sorted _

private theorem filterMap_length_of_isSome {β γ : Type} (f : β → Option γ) (l : List β)
    (h : ∀ t ∈ l, (f t).isSome) : (l.filterMap f).length = l.length := by
  induction l with
  | nil => simp
  | cons x l ih =>
    obtain ⟨r, hr⟩ := Option.isSome_iff_exists.mp (h x (by simp))
    rw [List.filterMap_cons_some hr]
    simp [ih (fun t ht => h t (List.mem_cons_of_mem _ ht))]

theorem orderUsing_length (toks : List Tok) (o : List (Tok × Nat))
    (hk : ∀ t ∈ toks, (Dict.get? o t).isSome) :
    (orderUsing toks o).length = toks.length := by
  rw [(orderUsing_perm toks o).length_eq]
  exact filterMap_length_of_isSome _ _ hk

private theorem filterMap_nodup {β γ : Type} (f : β → Option γ) (l : List β) (hnd : l.Nodup)
    (hinj : ∀ t1 ∈ l, ∀ t2 ∈ l, ∀ r, f t1 = some r → f t2 = some r → t1 = t2) :
    (l.filterMap f).Nodup := by
  induction l with
  | nil => simp
  | cons x l ih =>
    have hnd' := List.nodup_cons.mp hnd
    have ih' := ih hnd'.2 (fun t1 h1 t2 h2 => hinj t1 (List.mem_cons_of_mem _ h1) t2
      (List.mem_cons_of_mem _ h2))
    cases hx : f x with
    | none => rw [List.filterMap_cons_none hx]; exact ih'
    | some r =>
      rw [List.filterMap_cons_some hx]
      refine List.nodup_cons.mpr ⟨?_, ih'⟩
      intro hm
      obtain ⟨t, ht, htr⟩ := List.mem_filterMap.mp hm
      have := hinj x (by simp) t (List.mem_cons_of_mem _ ht) r hx htr
      exact hnd'.1 (this ▸ ht)

private theorem orderUsing_nodup (toks : List Tok) (o : List (Tok × Nat)) (hnd : toks.Nodup)
    (hinj : ∀ t1 ∈ toks, ∀ t2 ∈ toks, ∀ r,
      Dict.get? o t1 = some r → Dict.get? o t2 = some r → t1 = t2) :
    (orderUsing toks o).Nodup :=
  (orderUsing_perm toks o).nodup_iff.mpr (filterMap_nodup _ _ hnd hinj)

theorem orderUsing_strict (toks : List Tok) (o : List (Tok × Nat)) (hnd : toks.Nodup)
    (hinj : ∀ t1 ∈ toks, ∀ t2 ∈ toks, ∀ r,
      Dict.get? o t1 = some r → Dict.get? o t2 = some r → t1 = t2) :
    (orderUsing toks o).Pairwise (· < ·) := by
  have h1 := orderUsing_sorted toks o
  have h2 : (orderUsing toks o).Pairwise (· ≠ ·) := orderUsing_nodup toks o hnd hinj
  exact (h1.and h2).imp (fun h => Nat.lt_of_le_of_ne h.1 h.2)

private theorem length_filter_filterMap {β γ : Type} (f : β → Option γ) (p : γ → Bool)
    (q : β → Bool) (l : List β) (h : ∀ t ∈ l, ∃ r, f t = some r ∧ p r = q t) :
    ((l.filterMap f).filter p).length = (l.filter q).length := by
  induction l with
  | nil => simp
  | cons x l ih =>
    obtain ⟨r, hr, hpq⟩ := h x (by simp)
    have ih' := ih (fun t ht => h t (List.mem_cons_of_mem _ ht))
    rw [List.filterMap_cons_some hr]
    simp only [List.filter_cons, hpq]
    split <;> simp [ih']

set_option linter.unusedVariables false in
theorem interCount_orderUsing (a b : List Tok) (o : List (Tok × Nat)) (ha : a.Nodup)
    (hb : b.Nodup)
    (hka : ∀ t ∈ a, (Dict.get? o t).isSome) (hkb : ∀ t ∈ b, (Dict.get? o t).isSome)
    (hinj : ∀ t1 ∈ a ++ b, ∀ t2 ∈ a ++ b, ∀ r,
      Dict.get? o t1 = some r → Dict.get? o t2 = some r → t1 = t2) :
    interCount (orderUsing a o) (orderUsing b o) = interCount a b := by
  have hinja : ∀ t1 ∈ a, ∀ t2 ∈ a, ∀ r,
      Dict.get? o t1 = some r → Dict.get? o t2 = some r → t1 = t2 :=
    fun t1 h1 t2 h2 => hinj t1 (List.mem_append_left _ h1) t2 (List.mem_append_left _ h2)
  unfold interCount
  rw [dedup_eq_self_of_nodup _ (orderUsing_nodup a o ha hinja), dedup_eq_self_of_nodup _ ha]
  rw [((orderUsing_perm a o).filter _).length_eq]
  apply length_filter_filterMap
  intro t ht
  obtain ⟨r, hr⟩ := Option.isSome_iff_exists.mp (hka t ht)
  refine ⟨r, hr, ?_⟩
  rw [decide_eq_decide, mem_orderUsing]
  constructor
  · rintro ⟨t', ht', hr'⟩
    have := hinj t (List.mem_append_left _ ht) t' (List.mem_append_right _ ht') r hr hr'
    exact this ▸ ht'
  · intro htb
    exact ⟨t, htb, hr⟩

theorem setLen_orderUsing (a : List Tok) (o : List (Tok × Nat)) (ha : a.Nodup)
    (hka : ∀ t ∈ a, (Dict.get? o t).isSome)
    (hinj : ∀ t1 ∈ a, ∀ t2 ∈ a, ∀ r,
      Dict.get? o t1 = some r → Dict.get? o t2 = some r → t1 = t2) :
    setLen (orderUsing a o) = a.length := by
  unfold setLen
  rw [dedup_eq_self_of_nodup _ (orderUsing_nodup a o ha hinj), orderUsing_length a o hka]

theorem orderUsing_eq_iff (a b : List Tok) (o : List (Tok × Nat)) (ha : a.Nodup) (hb : b.Nodup)
    (hka : ∀ t ∈ a, (Dict.get? o t).isSome) (hkb : ∀ t ∈ b, (Dict.get? o t).isSome)
    (hinj : ∀ t1 ∈ a ++ b, ∀ t2 ∈ a ++ b, ∀ r,
      Dict.get? o t1 = some r → Dict.get? o t2 = some r → t1 = t2) :
    orderUsing a o = orderUsing b o ↔ (∀ t, t ∈ a ↔ t ∈ b) := by
  constructor
  · intro heq t
    constructor
    · intro ht
      obtain ⟨r, hr⟩ := Option.isSome_iff_exists.mp (hka t ht)
      have hm : r ∈ orderUsing b o := heq ▸ (mem_orderUsing a o r).mpr ⟨t, ht, hr⟩
      obtain ⟨t', ht', hr'⟩ := (mem_orderUsing b o r).mp hm
      have := hinj t (List.mem_append_left _ ht) t' (List.mem_append_right _ ht') r hr hr'
      exact this ▸ ht'
    · intro ht
      obtain ⟨r, hr⟩ := Option.isSome_iff_exists.mp (hkb t ht)
      have hm : r ∈ orderUsing a o := heq ▸ (mem_orderUsing b o r).mpr ⟨t, ht, hr⟩
      obtain ⟨t', ht', hr'⟩ := (mem_orderUsing a o r).mp hm
      have := hinj t (List.mem_append_right _ ht) t' (List.mem_append_left _ ht') r hr hr'
      exact this ▸ ht'
  · intro hmem
    have hp : a.Perm b := (List.perm_ext_iff_of_nodup ha hb).mpr hmem
    have hp' : (orderUsing a o).Perm (orderUsing b o) :=
      (orderUsing_perm a o).trans ((hp.filterMap _).trans (orderUsing_perm b o).symm)
    exact hp'.eq_of_pairwise (fun _ _ _ _ h1 h2 => Nat.le_antisymm h1 h2)
      (orderUsing_sorted a o) (orderUsing_sorted b o)

/-! ### `tokenFreq` -/

private abbrev freqStep (d : List (Tok × Nat)) (t : Tok) : List (Tok × Nat) :=
  Dict.set d t (Dict.getD d t 0 + 1)

private theorem tokenFreq_eq (lists : List (List Tok)) :
    tokenFreq lists = lists.flatten.foldl freqStep [] := by
  rw [List.foldl_flatten]; rfl

private theorem get?_foldl_freqStep (ts : List Tok) (d : List (Tok × Nat)) (t : Tok) :
    Dict.get? (ts.foldl freqStep d) t =
      if t ∈ ts then some (Dict.getD d t 0 + ts.count t) else Dict.get? d t := by
  induction ts generalizing d with
  | nil => simp
  | cons x ts ih =>
    rw [List.foldl_cons, ih]
    by_cases hx : x = t
    · subst hx
      simp only [freqStep, Dict.getD, Dict.get?_set_self, Option.getD_some, List.mem_cons,
        true_or, if_true, List.count_cons_self]
      split
      · congr 1; omega
      · rename_i h
        simp [List.count_eq_zero_of_not_mem h]
    · have hx' : ¬ t = x := fun e => hx e.symm
      simp only [freqStep, Dict.getD, Dict.get?_set_other _ _ _ _ hx, List.mem_cons, hx',
        false_or, List.count_cons_of_ne hx]

private theorem keys_nodup_foldl_freqStep (ts : List Tok) (d : List (Tok × Nat))
    (h : (d.map (·.1)).Nodup) : ((ts.foldl freqStep d).map (·.1)).Nodup := by
  induction ts generalizing d with
  | nil => simpa
  | cons x ts ih =>
    rw [List.foldl_cons]
    exact ih _ (Dict.keys_nodup_set _ _ _ h)

theorem tokenFreq_get? (lists : List (List Tok)) (t : Tok) :
    Dict.get? (tokenFreq lists) t =
      if t ∈ lists.flatten then some (lists.flatten.count t) else none := by
  rw [tokenFreq_eq, get?_foldl_freqStep]
  simp [Dict.getD, Dict.get?]

theorem tokenFreq_keys_nodup (lists : List (List Tok)) :
    ((tokenFreq lists).map (·.1)).Nodup := by
  rw [tokenFreq_eq]
  exact keys_nodup_foldl_freqStep _ _ (by simp)

theorem tokenFreq_perm (l1 l2 : List (List Tok)) (h : l1.flatten.Perm l2.flatten) :
    (tokenFreq l1).Perm (tokenFreq l2) := by
  apply Dict.perm_of_get?_eq _ _ (tokenFreq_keys_nodup l1) (tokenFreq_keys_nodup l2)
  intro t
  simp only [tokenFreq_get?, h.mem_iff, h.count_eq]

/-! ### `rankTokens` / `genTokenOrdering` -/

private theorem mem_rank (l : List (Tok × Nat)) (t : Tok) (r : Nat) :
    (t, r) ∈ l.zipIdx.map (fun (p, i) => (p.1, i + 1)) ↔
      ∃ p i, l[i]? = some p ∧ p.1 = t ∧ r = i + 1 := by
  constructor
  · intro h
    obtain ⟨⟨p, i⟩, hm, he⟩ := List.mem_map.mp h
    simp only [Prod.mk.injEq] at he
    exact ⟨p, i, List.mem_zipIdx_iff_getElem?.mp hm, he.1, he.2.symm⟩
  · rintro ⟨p, i, h, rfl, rfl⟩
    exact List.mem_map.mpr ⟨(p, i), List.mem_zipIdx_iff_getElem?.mpr h, rfl⟩

private theorem keys_rank (l : List (Tok × Nat)) :
    (l.zipIdx.map (fun (p, i) => (p.1, i + 1))).map (·.1) = l.map (·.1) := by
  rw [List.map_map]
  conv_rhs => rw [← List.zipIdx_map_fst 0 l, List.map_map]
  rfl

theorem rankTokens_keys_perm (freq : List (Tok × Nat)) :
    ((rankTokens freq).map (·.1)).Perm (freq.map (·.1)) := by
  unfold rankTokens
  simp only [keys_rank]
  exact ((List.mergeSort_perm _ _).trans (List.mergeSort_perm _ _)).map _

theorem genTokenOrdering_isSome (lists : List (List Tok)) (l : List Tok) (hl : l ∈ lists)
    (t : Tok) (ht : t ∈ l) : (Dict.get? (genTokenOrdering lists) t).isSome := by
  rw [Dict.get?_isSome_iff, genTokenOrdering, (rankTokens_keys_perm _).mem_iff,
    ← Dict.get?_isSome_iff, tokenFreq_get?]
  have : t ∈ lists.flatten := List.mem_flatten.mpr ⟨l, hl, ht⟩
  simp [this]

theorem genTokenOrdering_inj (lists : List (List Tok)) (t1 t2 : Tok) (r : Nat)
    (h1 : Dict.get? (genTokenOrdering lists) t1 = some r)
    (h2 : Dict.get? (genTokenOrdering lists) t2 = some r) : t1 = t2 := by
  have m1 := Dict.mem_of_get? _ _ _ h1
  have m2 := Dict.mem_of_get? _ _ _ h2
  unfold genTokenOrdering rankTokens at m1 m2
  obtain ⟨p1, i1, e1, rfl, hr1⟩ := (mem_rank _ _ _).mp m1
  obtain ⟨p2, i2, e2, rfl, hr2⟩ := (mem_rank _ _ _).mp m2
  have : i1 = i2 := by omega
  subst this
  rw [e1] at e2
  cases e2
  rfl

theorem genTokenOrdering_pos (lists : List (List Tok)) (t : Tok) (r : Nat)
    (h : Dict.get? (genTokenOrdering lists) t = some r) : 1 ≤ r := by
  have m := Dict.mem_of_get? _ _ _ h
  unfold genTokenOrdering rankTokens at m
  obtain ⟨p, i, _, _, hr⟩ := (mem_rank _ _ _).mp m
  omega

/-! ### Stretch: the ordering only depends on the multiset of all tokens -/

private theorem mergeSort_byTok_eq (d1 d2 : List (Tok × Nat)) (hnd : (d1.map (·.1)).Nodup)
    (hp : d1.Perm d2) :
    d1.mergeSort (fun a b => decide (a.1 ≤ b.1)) = d2.mergeSort (fun a b => decide (a.1 ≤ b.1)) := by
  have tr : ∀ a b c : Tok × Nat, decide (a.1 ≤ b.1) = true → decide (b.1 ≤ c.1) = true →
      decide (a.1 ≤ c.1) = true := by
    intro a b c h1 h2
    simp only [decide_eq_true_eq] at *
    exact le_trans h1 h2
  have tot : ∀ a b : Tok × Nat, (decide (a.1 ≤ b.1) || decide (b.1 ≤ a.1)) = true := by
    intro a b
    simp only [Bool.or_eq_true, decide_eq_true_eq]
    exact le_total a.1 b.1
  have s1 := List.pairwise_mergeSort tr tot d1
  have s2 := List.pairwise_mergeSort tr tot d2
  have p : (d1.mergeSort (fun a b => decide (a.1 ≤ b.1))).Perm
      (d2.mergeSort (fun a b => decide (a.1 ≤ b.1))) :=
    (List.mergeSort_perm _ _).trans (hp.trans (List.mergeSort_perm _ _).symm)
  refine p.eq_of_pairwise ?_ s1 s2
  intro a b hma hmb h1 h2
  simp only [decide_eq_true_eq] at h1 h2
  have hk : a.1 = b.1 := le_antisymm h1 h2
  have ha : a ∈ d1 := List.mem_mergeSort.mp hma
  have hb : b ∈ d1 := hp.symm.mem_iff.mp (List.mem_mergeSort.mp hmb)
  have ea := Dict.get?_of_mem d1 a.1 a.2 hnd ha
  have eb := Dict.get?_of_mem d1 b.1 b.2 hnd hb
  rw [hk, eb] at ea
  cases a; cases b
  simp only at hk ea
  cases ea
  rw [hk]

theorem genTokenOrdering_perm_invariant (l1 l2 : List (List Tok))
    (h : l1.flatten.Perm l2.flatten) : genTokenOrdering l1 = genTokenOrdering l2 := by
  unfold genTokenOrdering rankTokens
  simp only
  rw [mergeSort_byTok_eq _ _ (tokenFreq_keys_nodup l1) (tokenFreq_perm l1 l2 h)]

end SSJ

/-
  SSJ.Proofs.EntryFilters — helpers for the entry-level filter properties (C04, C14, filter half of C09):
  from "the similarity reaches the threshold" to the integer facts `BoundsFacts`; the pair versions
  (`filterPair`) and the table versions (`filterTables`, through `runTables`) of the four filters.
-/
import SSJ.Proofs.Arith
import SSJ.Proofs.FilterSafe
import SSJ.Proofs.Suffix
import SSJ.Proofs.Frames
import SSJ.Proofs.BodyOK
import SSJ.Proofs.EntryMatcher
import SSJ.Proofs.JoinExact
import SSJ.Proofs.JoinSetSim
import SSJ.Proofs.JoinED
import SSJ.Proofs.QGram
import SSJ.Proofs.EntryED
import SSJ.Proofs.Session
import SSJ.Props.Common

namespace SSJ
namespace EntryFilters
open SSJ.Props SSJ.Spec F64

/-! ## 1. set measures: from the similarity to `BoundsFacts` -/

/-- the three real-number bounds for a pair of EQUAL sets (`o = n = k`); needed separately because the
    double-precision cosine of two equal sets may be slightly below 1 whereas py_stringmatching returns 1.0 -/
theorem F_bounds_self (m : Measure) (hm : SetMeasure m) {t n : Rat} (ht : ThrOK t) (hn1 : 1 ≤ n) (hn : n ≤ 2 ^ 32) :
    lowF m t n ≤ n + 4 / 100000 ∧ n - 4 / 100000 ≤ upF m t n ∧ ovF m t n n ≤ n + 4 / 100000 := by
  have hc : Counts n n n := ⟨hn1, le_refl _, le_refl _, hn, hn⟩
  have hn0 : n ≠ 0 := by intro h; rw [h] at hn1; norm_num at hn1
  have hr1 : rn (1 : Rat) = 1 := by
    have := rn_int 1 (by norm_num)
    simpa using this
  rcases hm with rfl | rfl | rfl
  · have hq : t ≤ simF .jaccard n n n := by
      simp only [simF]
      rw [show n + n - n = n by ring, div_self hn0, hr1]
      exact ht.hi
    exact ⟨jac_low ht hc hq, jac_up ht hc hq, jac_ov ht hc hq⟩
  · have key : ∀ K : Rat, 1 ≤ K → t * t * (n * n) ≤ n * n * K := by
      intro K hK
      have h1 : t * t ≤ 1 := by nlinarith [ht.pos, ht.hi]
      have h2 : 0 ≤ n * n := by positivity
      nlinarith
    exact ⟨cos_low ht hc (key _ (by norm_num)), cos_up ht hc (key _ (by norm_num)),
      cos_ov ht hc (key _ (by norm_num))⟩
  · have hq : t ≤ simF .dice n n n := by
      simp only [simF]
      rw [show 2 * n / (n + n) = 1 by field_simp; ring, hr1]
      exact ht.hi
    exact ⟨dice_low ht hc hq, dice_up ht hc hq, dice_ov ht hc hq⟩

/-- all pruning bounds accept a pair of equal sets of `n ≥ 1` tokens -/
theorem bounds_self (m : Measure) (hm : SetMeasure m) (t : Rat) (ht : ThrOK t) (n : Nat) (hn1 : 1 ≤ n)
    (hn : n < 2 ^ 32) : BoundsFacts (cfgOf m t) n n n ∧ (cfgOf m t).lower n ≤ (n : Int) := by
  obtain ⟨f1, f2, f3⟩ := F_bounds_self m hm ht (n := (n : Rat)) (by exact_mod_cast hn1) (natCast_le_of_lt hn)
  have L := lower_le_of m hm ht n n hn hn f1
  have U := le_upper_of m hm ht n n hn hn f2
  have O := ovThr_le_of m hm ht n n n hn hn hn f3
  have P := prefixLen_eq m hm t ht n hn1 hn
  exact ⟨⟨L, U, O, by omega, by omega⟩, L⟩

/-! ### the similarity of two sets without a common token is 0 -/

theorem ofExact_zero : PyV.ofExact 0 = .float 0 := by
  rw [ofExact_float (le_refl _) (by norm_num), rn_zero]

theorem simFormula_zero (m : Measure) (hm : SetMeasure m) (n k : Nat) (hn1 : 1 ≤ n) (hk1 : 1 ≤ k)
    (hn : n < 2 ^ 32) (hk : k < 2 ^ 32) : simFormula m 0 n k = .float 0 := by
  have hn' := natCast_le_of_lt hn
  have hk' := natCast_le_of_lt hk
  have hn1' : (1 : Rat) ≤ n := by exact_mod_cast hn1
  have hk1' : (1 : Rat) ≤ k := by exact_mod_cast hk1
  have e0 : PyV.toFloat (.int ((0 : Nat) : Int)) = .float 0 := by
    have := toFloat_n 0 (by norm_num)
    simpa using this
  rcases hm with rfl | rfl | rfl
  · have e : ((n : Int) + k - ((0 : Nat) : Int)) = ((n + k : Nat) : Int) := by push_cast; ring
    simp only [simFormula]
    rw [e, e0, toFloat_n _ (by push_cast; linarith), div_ff _ _ (by push_cast; linarith), zero_div, ofExact_zero]
  · obtain ⟨p1, p2⟩ := sqrt_prod_range hn1 hn hk1 hk
    have hs : ∀ x : Nat, PyV.sqrt (.float (x : Rat)) = .float (fsqrt x) := by
      intro x
      have : ¬ ((x : Rat) < 0) := not_lt.mpr (by positivity)
      simp only [PyV.sqrt, this, if_false]
    simp only [simFormula]
    rw [e0, toFloat_n _ (by linarith), toFloat_n _ (by linarith), hs, hs, mul_ff,
      ofExact_float (by have := fsqrt_nonneg (n : Rat); have := fsqrt_nonneg (k : Rat); positivity)
        (by nlinarith [fsqrt_range hn1 hn, fsqrt_range hk1 hk, fsqrt_nonneg (n : Rat), fsqrt_nonneg (k : Rat)]),
      div_ff _ _ (by linarith), zero_div, ofExact_zero]
  · have e : ((n : Int) + k) = ((n + k : Nat) : Int) := by push_cast; rfl
    simp only [simFormula]
    rw [e, e0, toFloat_n _ (by push_cast; linarith), mul_ff, mul_zero, ofExact_zero,
      div_ff _ _ (by push_cast; linarith), zero_div, ofExact_zero]

/-! ### equal sets -/

theorem sameSet_counts (A B : List Tok) (hA : A.Nodup) (hB : B.Nodup) (h : Spec.sameSet A B = true) :
    B.length = A.length ∧ interCount A B = A.length := by
  rw [jss_sameSet_iff] at h
  constructor
  · exact ((List.perm_ext_iff_of_nodup hA hB).2 h).length_eq.symm
  · unfold interCount
    rw [dedup_eq_self_of_nodup A hA, List.filter_eq_self.2]
    intro t ht
    simpa using (h t).1 ht

/-- MAIN arithmetic bridge: if py_stringmatching's similarity of two token sets (not both empty, fewer than 2³²
    tokens each) is a float `s ≥ thr`, the sets share a token and every pruning bound accepts the pair — with
    either set in the role of the probe -/
theorem qual_facts (m : Measure) (hm : SetMeasure m) (thr : Rat) (ht : ThrOK thr) (A B : List Tok)
    (hA : A.Nodup) (hB : B.Nodup) (hAs : A.length < 2 ^ 32) (hBs : B.length < 2 ^ 32)
    (hne : ¬ (A.length = 0 ∧ B.length = 0))
    (s : Rat) (hs : Spec.simSet m A B = .float s) (hq : thr ≤ s) :
    1 ≤ interCount A B ∧
    BoundsFacts (cfgOf m thr) A.length B.length (interCount A B) ∧
    BoundsFacts (cfgOf m thr) B.length A.length (interCount A B) ∧
    (cfgOf m thr).lower A.length ≤ (interCount A B : Int) ∧
    (cfgOf m thr).lower B.length ≤ (interCount A B : Int) := by
  unfold Spec.simSet at hs
  split at hs
  · next hsame =>
    obtain ⟨e1, e2⟩ := sameSet_counts A B hA hB hsame
    have hn1 : 1 ≤ A.length := by omega
    obtain ⟨hb, hl⟩ := bounds_self m hm thr ht A.length hn1 hAs
    rw [e1, e2]
    exact ⟨hn1, hb, hb, hl, hl⟩
  · split at hs
    · cases hs
    · next hemp =>
      simp only [Bool.or_eq_true, decide_eq_true_eq, not_or] at hemp
      have h1 := interCount_le_length_left A B hA
      have h2 := interCount_le_length_right A B hB
      rcases Nat.eq_zero_or_pos (interCount A B) with h0 | hpos
      · rw [h0, simFormula_zero m hm _ _ (by omega) (by omega) hAs hBs] at hs
        cases hs
        exact absurd hq (not_le.mpr ht.pos)
      · obtain ⟨a1, a2, a3, a4, a5, a6, a7, a8⟩ :=
          bounds_of_qual_core m hm thr ht A.length B.length (interCount A B) hpos h1 h2 hAs hBs s hs hq
        exact ⟨hpos, ⟨a1, a2, a4, a5, a6⟩,
          ⟨(bounds_of_qual_core m hm thr ht B.length A.length (interCount A B) hpos h2 h1 hBs hAs s
              (by rw [← simFormula_symm m hm]; exact hs) hq).1,
           (bounds_of_qual_core m hm thr ht B.length A.length (interCount A B) hpos h2 h1 hBs hAs s
              (by rw [← simFormula_symm m hm]; exact hs) hq).2.1, a3, a6, a5⟩, a7, a8⟩

/-- inside the scope the similarity of two token sets is the int 0 (exactly one side empty) or a float -/
theorem simSet_cases (m : Measure) (hm : SetMeasure m) (A B : List Tok) (hA : A.Nodup) (hB : B.Nodup)
    (hAs : A.length < 2 ^ 32) (hBs : B.length < 2 ^ 32) :
    Spec.simSet m A B = .int 0 ∨ ∃ s : Rat, Spec.simSet m A B = .float s := by
  unfold Spec.simSet
  split
  · exact Or.inr ⟨1, rfl⟩
  · split
    · exact Or.inl rfl
    · next hemp =>
      simp only [Bool.or_eq_true, decide_eq_true_eq, not_or] at hemp
      right
      have h1 := interCount_le_length_left A B hA
      have h2 := interCount_le_length_right A B hB
      rcases Nat.eq_zero_or_pos (interCount A B) with h0 | hpos
      · exact ⟨0, by rw [h0, simFormula_zero m hm _ _ (by omega) (by omega) hAs hBs]⟩
      · exact ⟨_, simFormula_eq m hm _ _ _ hpos h1 h2 hAs hBs⟩

theorem compFn_ge : compFn ">=" = PyV.geb := by
  funext x y; simp [compFn, Gen.comp_op_map]

/-- the property's reading of "meets the threshold" (`qualStrict … ">="`: the double-precision similarity AND its
    4-decimal rounding are `≥ thr`) implies the hypothesis the safety theorems use -/
theorem reaches_of_qualStrict (m : Measure) (hm : SetMeasure m) (thr : Rat) (hpos : 0 < thr) (A B : List Tok)
    (hA : A.Nodup) (hB : B.Nodup) (hAs : A.length < 2 ^ 32) (hBs : B.length < 2 ^ 32)
    (h : Spec.qualStrict m ">=" (.float thr) A B = true) :
    ∃ s : Rat, Spec.simSet m A B = .float s ∧ thr ≤ s := by
  unfold Spec.qualStrict at h
  rw [Bool.and_eq_true, compFn_ge] at h
  have h1 := h.1
  rcases simSet_cases m hm A B hA hB hAs hBs with h0 | ⟨s, hs⟩
  · rw [h0] at h1
    simp [PyV.geb, PyV.leb, PyV.numVal?] at h1
    linarith
  · rw [hs] at h1
    refine ⟨s, hs, ?_⟩
    simpa [PyV.geb, PyV.leb, PyV.numVal?] using h1

/-! ### the bounds do not depend on `qval` under the set measures; the filter constructor -/

/-- two configurations yield the same four integer bounds -/
structure SameBounds (c c' : FCfg) : Prop where
  lower : ∀ n, c.lower n = c'.lower n
  upper : ∀ n, c.upper n = c'.upper n
  prefixLen : ∀ n, c.prefixLen n = c'.prefixLen n
  ovThr : ∀ l r, c.ovThr l r = c'.ovThr l r

theorem BoundsFacts.of_same {c c' : FCfg} (sb : SameBounds c c') {n k o : Nat} (h : BoundsFacts c' n k o) :
    BoundsFacts c n k o :=
  ⟨by rw [sb.lower]; exact h.lower, by rw [sb.upper]; exact h.upper, by rw [sb.ovThr]; exact h.ovThr,
   by rw [sb.prefixLen]; exact h.prefN, by rw [sb.prefixLen]; exact h.prefK⟩

/-- under JACCARD / COSINE / DICE the bounds depend on measure and threshold only — not on `qval`, which a filter
    constructed with a q-gram tokenizer carries -/
theorem sameBounds_set (c : FCfg) (m : Measure) (hm : SetMeasure m) (thr : Rat)
    (h1 : c.measure = m) (h2 : c.threshold = .float thr) : SameBounds c (cfgOf m thr) := by
  have j1 : PyV.eqb (.str "JACCARD") (.str "COSINE") = false := by decide
  have j2 : PyV.eqb (.str "JACCARD") (.str "DICE") = false := by decide
  have j3 : PyV.eqb (.str "JACCARD") (.str "EDIT_DISTANCE") = false := by decide
  have d1 : PyV.eqb (.str "DICE") (.str "COSINE") = false := by decide
  have d2 : PyV.eqb (.str "DICE") (.str "DICE") = true := by decide
  have c1 : PyV.eqb (.str "COSINE") (.str "COSINE") = true := by decide
  refine ⟨fun n => ?_, fun n => ?_, fun n => ?_, fun l r => ?_⟩
  · unfold FCfg.lower FCfg.lowerV cfgOf; rw [h1, h2]
  · unfold FCfg.upper FCfg.upperV cfgOf; rw [h1, h2]
  · unfold FCfg.prefixLen FCfg.prefixV cfgOf Gen.get_prefix_length
    rw [h1, h2]
    rcases hm with rfl | rfl | rfl <;> simp only [Measure.name, j1, j2, j3, d1, d2, c1, Bool.false_eq_true, if_false, if_true]
  · unfold FCfg.ovThr FCfg.ovThrV cfgOf Gen.get_overlap_threshold
    rw [h1, h2]
    rcases hm with rfl | rfl | rfl <;> simp only [Measure.name, j1, j2, j3, d1, d2, c1, Bool.false_eq_true, if_false, if_true]

/-- what a successful filter constructor call returns -/
theorem mkFilter_ok (name : String) (thr : PyV) (ae am : Bool) (t : TokObj) (f : FilterObj)
    (h : mkFilter name thr ae am t = .ok f) :
    ∃ m, Measure.ofName? name.toUpper = some m ∧ f.cfg.measure = m ∧ f.cfg.threshold = thr ∧
      f.cfg.qval = (if t.isQgram then .int t.qval else .none) ∧ f.allowEmpty = ae ∧ f.allowMissing = am := by
  unfold mkFilter at h
  cases h1 : genCheck (Gen.validate_sim_measure_type (.str name)) with
  | error e => rw [h1] at h; cases h
  | ok u =>
    rw [h1] at h
    simp only [bind, Except.bind] at h
    cases hm : Measure.ofName? name.toUpper with
    | none => rw [hm] at h; cases h
    | some m =>
      rw [hm] at h
      simp only at h
      cases h2 : validateTokenizerForSimMeasure t m with
      | error e => rw [h2] at h; cases h
      | ok u2 =>
        rw [h2] at h
        simp only at h
        cases h3 : genCheck (Gen.validate_threshold thr (.str m.name)) with
        | error e => rw [h3] at h; cases h
        | ok u3 =>
          rw [h3] at h
          simp only [pure, Except.pure] at h
          cases h
          exact ⟨m, rfl, rfl, rfl, rfl, rfl, rfl⟩


/-! ## 2. `filter_pair`, set measures (C04) -/

/-- C04 for `filter_pair` of the four filters under JACCARD / COSINE / DICE.  The suffix filter needs
    `prefThr m ≤ thr` (so that the prefix is never longer than the record). -/
theorem filterPair_safe_set (k : FilterKind) (m : Measure) (hm : SetMeasure m) (thr : Rat) (ht : ThrOK thr)
    (f : FilterObj) (hmeas : f.cfg.measure = m) (hthr : f.cfg.threshold = .float thr) (tok : String → List Tok)
    (hnd : ∀ s, (tok s).Nodup) (hsm : ∀ s, (tok s).length < 2 ^ 32) (l r : Cell)
    (hl : l.isMissing = false) (hr : r.isMissing = false)
    (hne : ¬ ((tok l.strVal).length = 0 ∧ (tok r.strVal).length = 0))
    (s : Rat) (hs : Spec.simSet m (tok l.strVal) (tok r.strVal) = .float s) (hq : thr ≤ s)
    (hsuf : k = .suffix → prefThr m ≤ thr) :
    filterPair k f tok l r = false := by
  obtain ⟨ho, b1, b2, -, -⟩ := qual_facts m hm thr ht _ _ (hnd _) (hnd _) (hsm _) (hsm _) hne s hs hq
  have sb := sameBounds_set f.cfg m hm thr hmeas hthr
  replace b1 := BoundsFacts.of_same sb b1
  replace b2 := BoundsFacts.of_same sb b2
  cases k
  · exact sizeFilterPair_safe f tok l r hl hr hne b1.lower b1.upper
  · exact prefixFilterPair_safe f tok hnd l r hl hr ho b1.prefN b1.prefK
  · exact positionFilterPair_safe f tok hnd l r hl hr ho b1.prefN b1.prefK b2.ovThr
  · have h4 := hsuf rfl
    have h1 := interCount_le_length_left _ (tok r.strVal) (hnd l.strVal)
    have h2 := interCount_le_length_right (tok l.strVal) _ (hnd r.strVal)
    have p1 := b1.prefN
    have p2 := b1.prefK
    refine suffixFilterPair_safe f tok hnd l r hl hr hne (by omega) (by omega) ?_ ?_ b2.ovThr
    · rw [sb.prefixLen]; exact prefixLen_le m hm thr ht h4 _ (hsm _)
    · rw [sb.prefixLen]; exact prefixLen_le m hm thr ht h4 _ (hsm _)

/-! ## 3. `filter_tables` at entry level: the bridge between result rows and per-chunk emission -/

theorem keys_of_validateOutAndKeys (a : TableArgs) (l r : Frame) (h : validateOutAndKeys a l r = .ok ()) :
    validateKeyAttr a.lKey l = .ok () ∧ validateKeyAttr a.rKey r = .ok () := by
  have hb := validateOutAndKeys_bind a l r (fun _ => (Except.ok () : Except PyErr Unit))
  rw [h] at hb
  have hb' : (Except.ok () : Except PyErr Unit) =
      if (a.lOut.getD []).any (fun x => !l.hasCol x) then .error .assertion
      else if (a.rOut.getD []).any (fun x => !r.hasCol x) then .error .assertion
      else if !keyTest l a.lKey then .error .assertion
      else if !keyTest r a.rKey then .error .assertion
      else .ok () := hb
  split_ifs at hb' with h1 h2 h3 h4
  simp only [Bool.not_eq_true', Bool.not_eq_false] at h3 h4
  unfold keyTest at h3 h4
  unfold validateKeyAttr raiseIf
  simp only [h3, h4, Bool.not_true, Bool.false_eq_true, if_false, and_self]

theorem filterTables_eq (k : FilterKind) (f : FilterObj) (a : TableArgs) (t : TokObj) (toks : TokFn) (cpu : Int)
    (l r : Frame) (hv : validateTablesAttrs a = .ok (l, r)) (hk : validateOutAndKeys a l r = .ok ()) :
    filterTables k f a t toks cpu =
      runTables a l r f.allowMissing false cpu
        (fun o lAttr rAttr lArr ch => filterTablesSplit k f (toks t.returnSet) o lAttr rAttr lArr ch) := by
  unfold filterTables
  rw [hv]
  show (validateOutAndKeys a l r >>= fun _ => _) = _
  rw [hk]
  rfl

/-- does the suffix filter keep the pair (token lists `lt`, `rt`) under the given ordering? -/
def suffixKeeps (f : FilterObj) (ordering : List (Tok × Nat)) (lt rt : List Tok) : Bool :=
  let ol := orderUsing lt ordering
  let ln := ol.length
  let lp := f.cfg.prefixLen ln
  let or_ := orderUsing rt ordering
  let rn := or_.length
  if handleEmpty f && ln = 0 && rn = 0 then true else
  let rp := f.cfg.prefixLen rn
  if lp ≤ 0 || rp ≤ 0 then false else
  !suffixFilterSuffixN f (pyDrop ol lp) (pyDrop or_ rp) lp rp ln rn

theorem suffixPairRows_eq (f : FilterObj) (o : OutCfg) (ordering : List (Tok × Nat))
    (lRow : Row) (lt : List Tok) (rRow : Row) (rt : List Tok) :
    suffixPairRows f o ordering lRow lt rRow rt =
      if suffixKeeps f ordering lt rt then [outputRow o lRow rRow] else [] := by
  unfold suffixPairRows suffixKeeps
  simp only
  split_ifs <;> simp_all

section Emit
variable (f : FilterObj) (tok : String → List Tok) (lAttr rAttr : Nat) (lt rt : List Row)

/-- the filter of kind `k`, run on the left array `lt` and the chunk `rt`, emits the pair of rows `(x, y)` -/
def Emits (k : FilterKind) (x y : Row) : Prop :=
  match k with
  | .size => ∃ c d, (c, d) ∈ sizePairs f tok lAttr rAttr lt rt ∧ lt.getD c [] = x ∧ rt.getD d [] = y
  | .prefix => ∃ c d, (c, d) ∈ prefixPairs f tok lAttr rAttr lt rt ∧ lt.getD c [] = x ∧ rt.getD d [] = y
  | .position => ∃ c d, (c, d) ∈ positionPairs f tok lAttr rAttr lt rt ∧ lt.getD c [] = x ∧ rt.getD d [] = y
  | .suffix => x ∈ lt ∧ y ∈ rt ∧
      suffixKeeps f (tableOrdering tok lAttr rAttr lt rt) (tok (x.cell lAttr).strVal) (tok (y.cell rAttr).strVal) = true

theorem sizePairs_valid (c d : Nat) (h : (c, d) ∈ sizePairs f tok lAttr rAttr lt rt) :
    c < lt.length ∧ d < rt.length := by
  rw [mem_sizePairs_iff] at h
  exact ⟨h.1, h.2.1⟩

theorem prefixPairs_valid (c d : Nat) (h : (c, d) ∈ prefixPairs f tok lAttr rAttr lt rt) :
    c < lt.length ∧ d < rt.length := by
  unfold prefixPairs at h
  rw [mem_idPairs] at h
  obtain ⟨hd, hc⟩ := h
  refine ⟨?_, hd⟩
  by_cases he : handleEmpty f = true ∧ (rowToks tok rAttr rt d).length = 0
  · exact ((mem_prefixCands_empty f tok lAttr rAttr lt rt d hd he c).1 hc).1
  · exact ((mem_prefixCands_nonempty f tok lAttr rAttr lt rt d hd he c).1 hc).1

theorem positionPairs_valid (c d : Nat) (h : (c, d) ∈ positionPairs f tok lAttr rAttr lt rt) :
    c < lt.length ∧ d < rt.length :=
  prefixPairs_valid f tok lAttr rAttr lt rt c d (positionPairs_subset_prefixPairs f tok lAttr rAttr lt rt _ h)

theorem getD_mem' (l : List Row) (i : Nat) (h : i < l.length) : l.getD i [] ∈ l :=
  (RT.mem_chunk_index l _).2 ⟨i, h, rfl⟩

theorem Emits.mem (k : FilterKind) (x y : Row) (h : Emits f tok lAttr rAttr lt rt k x y) : x ∈ lt ∧ y ∈ rt := by
  cases k
  · obtain ⟨c, d, hcd, rfl, rfl⟩ := h
    obtain ⟨hc, hd⟩ := sizePairs_valid f tok lAttr rAttr lt rt c d hcd
    exact ⟨getD_mem' _ _ hc, getD_mem' _ _ hd⟩
  · obtain ⟨c, d, hcd, rfl, rfl⟩ := h
    obtain ⟨hc, hd⟩ := prefixPairs_valid f tok lAttr rAttr lt rt c d hcd
    exact ⟨getD_mem' _ _ hc, getD_mem' _ _ hd⟩
  · obtain ⟨c, d, hcd, rfl, rfl⟩ := h
    obtain ⟨hc, hd⟩ := positionPairs_valid f tok lAttr rAttr lt rt c d hcd
    exact ⟨getD_mem' _ _ hc, getD_mem' _ _ hd⟩
  · exact ⟨h.1, h.2.1⟩

/-- the rows `_filter_tables_split` produces are exactly the output rows of the emitted pairs -/
theorem mem_filterTablesSplit_iff (k : FilterKind) (o : OutCfg) (p : Row) :
    p ∈ filterTablesSplit k f tok o lAttr rAttr lt rt ↔
      ∃ x y, Emits f tok lAttr rAttr lt rt k x y ∧ p = outputRow o x y := by
  cases k
  · show p ∈ sizeFilterTablesSplit f tok o lAttr rAttr lt rt ↔ _
    rw [sizeFilterTablesSplit_eq, List.mem_map]
    constructor
    · rintro ⟨⟨c, d⟩, hcd, rfl⟩; exact ⟨_, _, ⟨c, d, hcd, rfl, rfl⟩, rfl⟩
    · rintro ⟨x, y, ⟨c, d, hcd, rfl, rfl⟩, rfl⟩; exact ⟨(c, d), hcd, rfl⟩
  · show p ∈ prefixFilterTablesSplit f tok o lAttr rAttr lt rt ↔ _
    rw [prefixFilterTablesSplit_eq, List.mem_map]
    constructor
    · rintro ⟨⟨c, d⟩, hcd, rfl⟩; exact ⟨_, _, ⟨c, d, hcd, rfl, rfl⟩, rfl⟩
    · rintro ⟨x, y, ⟨c, d, hcd, rfl, rfl⟩, rfl⟩; exact ⟨(c, d), hcd, rfl⟩
  · show p ∈ positionFilterTablesSplit f tok o lAttr rAttr lt rt ↔ _
    rw [positionFilterTablesSplit_eq, List.mem_map]
    constructor
    · rintro ⟨⟨c, d⟩, hcd, rfl⟩; exact ⟨_, _, ⟨c, d, hcd, rfl, rfl⟩, rfl⟩
    · rintro ⟨x, y, ⟨c, d, hcd, rfl, rfl⟩, rfl⟩; exact ⟨(c, d), hcd, rfl⟩
  · show p ∈ suffixFilterTablesSplit f tok o lAttr rAttr lt rt ↔ _
    rw [mem_suffixFilterTablesSplit]
    constructor
    · rintro ⟨x, hx, y, hy, hp⟩
      rw [suffixPairRows_eq] at hp
      split at hp
      · next hkeep => exact ⟨x, y, ⟨hx, hy, hkeep⟩, by simpa using hp⟩
      · simp at hp
    · rintro ⟨x, y, ⟨hx, hy, hkeep⟩, rfl⟩
      refine ⟨x, hx, y, hy, ?_⟩
      rw [suffixPairRows_eq]
      unfold tableOrdering at hkeep
      rw [if_pos hkeep]
      simp

end Emit

section Bridge
variable (k : FilterKind) (f : FilterObj) (a : TableArgs) (t : TokObj) (toks : TokFn) (cpu : Int) (l r fr : Frame)

/-- the per-chunk work of `filter_tables` -/
def work (k : FilterKind) (f : FilterObj) (t : TokObj) (toks : TokFn) :
    OutCfg → Nat → Nat → List Row → List Row → List Row :=
  fun o lAttr rAttr lArr ch => filterTablesSplit k f (toks t.returnSet) o lAttr rAttr lArr ch

theorem work_width :
    ∀ ch, ∀ row ∈ work k f t toks (RT.out a) (RT.lAttrIdx a) (RT.rAttrIdx a) (RT.lArr a l) ch,
      row.length = (RT.header a false).length := by
  intro ch row hrow
  obtain ⟨x, y, -, rfl⟩ := (mem_filterTablesSplit_iff f _ _ _ _ _ k _ row).1 hrow
  exact RT.outputRow_length a x y

/-- TOTAL: with valid table arguments `filter_tables` returns a frame -/
theorem filterTables_total (hv : validateTablesAttrs a = .ok (l, r)) (hk : validateOutAndKeys a l r = .ok ())
    (hb : BodyOK a l r false) :
    ∃ fr, filterTables k f a t toks cpu = .ok fr := by
  rw [filterTables_eq k f a t toks cpu l r hv hk]
  obtain ⟨fr, h, _⟩ := runTables_ok a l r f.allowMissing false cpu (work k f t toks) (work_width k f a t toks l)
    hb.lstr hb.rstr hb.noClash
  exact ⟨fr, h⟩

/-- the rows of the result: payloads (chunk results, then missing-value rows) preceded by `_id` -/
theorem filterTables_rows (hv : validateTablesAttrs a = .ok (l, r)) (hk : validateOutAndKeys a l r = .ok ())
    (hres : filterTables k f a t toks cpu = .ok fr) :
    fr.rows =
      (((chunksFor (RT.rArr a r) a.nJobs cpu).flatMap (fun ch =>
          work k f t toks (RT.out a) (RT.lAttrIdx a) (RT.rAttrIdx a) (RT.lArr a l) ch))
        ++ (if f.allowMissing then RT.missingRows a l r false else [])).zipIdx.map
        (fun (x : Row × Nat) => Cell.int x.2 :: x.1) := by
  rw [filterTables_eq k f a t toks cpu l r hv hk] at hres
  exact (runTables_rows a l r f.allowMissing false cpu (work k f t toks) (work_width k f a t toks l) fr hres).2

theorem mem_zipIdx_map_cons (ps : List Row) (row : Row) :
    row ∈ ps.zipIdx.map (fun (x : Row × Nat) => Cell.int x.2 :: x.1) ↔
      ∃ (p : Row) (i : Nat), ps[i]? = some p ∧ row = Cell.int i :: p := by
  rw [List.mem_map]
  constructor
  · rintro ⟨⟨p, i⟩, hpi, rfl⟩
    exact ⟨p, i, List.mem_zipIdx_iff_getElem?.1 hpi, rfl⟩
  · rintro ⟨p, i, hpi, rfl⟩
    exact ⟨(p, i), List.mem_zipIdx_iff_getElem?.2 hpi, rfl⟩

/-- THE BRIDGE: for two source rows with present join values, the result of `filter_tables` has a row with their
    two keys iff the filter, run on some chunk of the right array, emits the pair of their projections -/
theorem mem_filterTables_iff (hv : validateTablesAttrs a = .ok (l, r)) (hk : validateOutAndKeys a l r = .ok ())
    (hrows : r.rows.length < 2 ^ 40) (hres : filterTables k f a t toks cpu = .ok fr)
    (ls rs : Row) (hls : ls ∈ l.rows) (hrs : rs ∈ r.rows)
    (hlp : Present l a.lAttr ls) (hrp : Present r a.rAttr rs) :
    (∃ row ∈ fr.rows, rowKeys row = (keyOf l a.lKey ls, keyOf r a.rKey rs)) ↔
      ∃ ch ∈ chunksFor (RT.rArr a r) a.nJobs cpu,
        Emits f (toks t.returnSet) (RT.lAttrIdx a) (RT.rAttrIdx a) (RT.lArr a l) ch k (RT.lRow a l ls) (RT.rRow a r rs) := by
  have hlen : (RT.rArr a r).length < 2 ^ 40 := lt_of_le_of_lt (EntryED.rArr_length_le _ _) hrows
  obtain ⟨hvl, hvr⟩ := keys_of_validateOutAndKeys a l r hk
  rw [filterTables_rows k f a t toks cpu l r fr hv hk hres]
  constructor
  · rintro ⟨row, hrow, hkeys⟩
    obtain ⟨p, i, hpi, rfl⟩ := (mem_zipIdx_map_cons _ row).1 hrow
    rw [EntryED.rowKeys_cons, Prod.mk.injEq] at hkeys
    rcases List.mem_append.1 (List.mem_of_getElem? hpi) with hp | hp
    · obtain ⟨ch, hch, hp⟩ := List.mem_flatMap.1 hp
      obtain ⟨x, y, hem, rfl⟩ := (mem_filterTablesSplit_iff f _ _ _ _ _ k _ p).1 hp
      obtain ⟨hx, hy⟩ := Emits.mem f _ _ _ _ _ k x y hem
      obtain ⟨ls', hls', hlp', rfl⟩ := (RT.mem_lArr_iff a l x).1 hx
      obtain ⟨rs', hrs', hrp', rfl⟩ := (RT.mem_rArr_iff a r y).1 (RT.mem_rArr_of_mem_chunk a r cpu hlen ch hch y hy)
      have hk' := RT.outputRow_keys a l r ls' rs' false Cell.missing
      simp only [withScore, Bool.false_eq_true, if_false] at hk'
      rw [hk'.1, hk'.2] at hkeys
      have e1 : ls' = ls := row_eq_of_key_eq a.lKey l hvl ls' ls hls' hls hkeys.1
      have e2 : rs' = rs := row_eq_of_key_eq a.rKey r hvr rs' rs hrs' hrs hkeys.2
      subst e1 e2
      exact ⟨ch, hch, hem⟩
    · exfalso
      split at hp
      · obtain ⟨ls', hls', rs', hrs', hmiss, rfl⟩ := (RT.mem_missingRows_iff a l r false p).1 hp
        have hk' := RT.missingRow_keys a l r false ls' rs'
        rw [hk'.1, hk'.2] at hkeys
        have e1 : ls' = ls := row_eq_of_key_eq a.lKey l hvl ls' ls hls' hls hkeys.1
        have e2 : rs' = rs := row_eq_of_key_eq a.rKey r hvr rs' rs hrs' hrs hkeys.2
        subst e1 e2
        unfold Present valOf at hlp hrp
        rcases hmiss with h | h
        · rw [hlp] at h; cases h
        · rw [hrp] at h; cases h
      · simp at hp
  · rintro ⟨ch, hch, hem⟩
    have hp : outputRow (RT.out a) (RT.lRow a l ls) (RT.rRow a r rs) ∈
        (chunksFor (RT.rArr a r) a.nJobs cpu).flatMap (fun ch =>
          work k f t toks (RT.out a) (RT.lAttrIdx a) (RT.rAttrIdx a) (RT.lArr a l) ch) :=
      List.mem_flatMap.2 ⟨ch, hch, (mem_filterTablesSplit_iff f _ _ _ _ _ k _ _).2 ⟨_, _, hem, rfl⟩⟩
    obtain ⟨i, hi⟩ := List.getElem?_of_mem (List.mem_append_left _ hp)
    refine ⟨_, (mem_zipIdx_map_cons _ _).2 ⟨_, i, hi, rfl⟩, ?_⟩
    rw [EntryED.rowKeys_cons]
    have hk' := RT.outputRow_keys a l r ls rs false Cell.missing
    simp only [withScore, Bool.false_eq_true, if_false] at hk'
    exact Prod.ext hk'.1 hk'.2

end Bridge

/-! ## 4. what emission means, per kind -/

section EmitFacts
variable (f : FilterObj) (tok : String → List Tok) (lAttr rAttr : Nat) (lt rt : List Row)

theorem exists_index (l : List Row) (x : Row) (h : x ∈ l) : ∃ c, c < l.length ∧ l.getD c [] = x := by
  obtain ⟨c, hc, e⟩ := (RT.mem_chunk_index l x).1 h
  exact ⟨c, hc, e.symm⟩

/-- SAFETY (C04), generic in the measure: a pair with a common token which all pruning bounds accept (probe = the
    right row) is emitted.  The size filter also needs `lower |B| ≤ |B|` (its early exit), the suffix filter that
    the prefixes are not longer than the records. -/
theorem emits_of_bounds (hnd : ∀ s, (tok s).Nodup) (k : FilterKind) (x y : Row) (hx : x ∈ lt) (hy : y ∈ rt)
    (ho : 1 ≤ interCount (tok (x.cell lAttr).strVal) (tok (y.cell rAttr).strVal))
    (hb : BoundsFacts f.cfg (tok (y.cell rAttr).strVal).length (tok (x.cell lAttr).strVal).length
      (interCount (tok (x.cell lAttr).strVal) (tok (y.cell rAttr).strVal)))
    (hearly : k = .size → f.cfg.lower (tok (y.cell rAttr).strVal).length ≤ ((tok (y.cell rAttr).strVal).length : Int))
    (hsuf : k = .suffix → f.cfg.prefixLen (tok (x.cell lAttr).strVal).length ≤ (tok (x.cell lAttr).strVal).length ∧
      f.cfg.prefixLen (tok (y.cell rAttr).strVal).length ≤ (tok (y.cell rAttr).strVal).length) :
    Emits f tok lAttr rAttr lt rt k x y := by
  obtain ⟨c, hc, rfl⟩ := exists_index lt x hx
  obtain ⟨d, hd, rfl⟩ := exists_index rt y hy
  cases k
  · exact ⟨c, d, sizePairs_safe f tok lAttr rAttr lt rt c d hc hd ho hb (hearly rfl), rfl, rfl⟩
  · exact ⟨c, d, prefixPairs_safe f tok lAttr rAttr lt rt hnd c d hc hd ho hb, rfl, rfl⟩
  · exact ⟨c, d, positionPairs_safe f tok lAttr rAttr lt rt hnd c d hc hd ho hb, rfl, rfl⟩
  · refine ⟨hx, hy, ?_⟩
    obtain ⟨hm, hn⟩ := interCount_pos_length _ _ ho
    obtain ⟨q1, q2⟩ := hsuf rfl
    have h1 := interCount_le_length_left _ (tok ((rt.getD d []).cell rAttr).strVal) (hnd ((lt.getD c []).cell lAttr).strVal)
    have h2 := interCount_le_length_right (tok ((lt.getD c []).cell lAttr).strVal) _ (hnd ((rt.getD d []).cell rAttr).strVal)
    have p1 := hb.prefN
    have p2 := hb.prefK
    have hsafe := suffixPairRows_safe f ⟨0, 0, [], [], false⟩ (tableOrdering tok lAttr rAttr lt rt)
      (lt.getD c []) (rt.getD d []) _ _ (hnd ((lt.getD c []).cell lAttr).strVal) (hnd ((rt.getD d []).cell rAttr).strVal)
      (genTokenOrdering_isSome _ _ (List.mem_append_left _ (List.mem_map.2 ⟨_, hx, rfl⟩)))
      (genTokenOrdering_isSome _ _ (List.mem_append_right _ (List.mem_map.2 ⟨_, hy, rfl⟩)))
      (genTokenOrdering_inj _) (fun h => hm h.1) (by omega) (by omega) q1 q2 hb.ovThr
    rw [suffixPairRows_eq] at hsafe
    by_contra hk
    rw [if_neg hk] at hsafe
    simp at hsafe

/-- C14 (size): emission by the size filter is a condition on the two token counts alone -/
theorem emits_size_iff (x y : Row) :
    Emits f tok lAttr rAttr lt rt .size x y ↔
      x ∈ lt ∧ y ∈ rt ∧ SizeEmits f (tok (x.cell lAttr).strVal).length (tok (y.cell rAttr).strVal).length := by
  constructor
  · rintro ⟨c, d, hcd, rfl, rfl⟩
    obtain ⟨hc, hd, hs⟩ := (mem_sizePairs_iff f tok lAttr rAttr lt rt c d).1 hcd
    exact ⟨getD_mem' _ _ hc, getD_mem' _ _ hd, hs⟩
  · rintro ⟨hx, hy, hs⟩
    obtain ⟨c, hc, rfl⟩ := exists_index lt x hx
    obtain ⟨d, hd, rfl⟩ := exists_index rt y hy
    exact ⟨c, d, (mem_sizePairs_iff f tok lAttr rAttr lt rt c d).2 ⟨hc, hd, hs⟩, rfl, rfl⟩

/-- C14: the prefix filter emits only pairs with a common token (or two empty records) -/
theorem emits_prefix_common (x y : Row) (h : Emits f tok lAttr rAttr lt rt .prefix x y)
    (hne : ¬ (tok (x.cell lAttr).strVal = [] ∧ tok (y.cell rAttr).strVal = [])) :
    ∃ w, w ∈ tok (x.cell lAttr).strVal ∧ w ∈ tok (y.cell rAttr).strVal := by
  obtain ⟨c, d, hcd, rfl, rfl⟩ := h
  exact prefixPairs_common_token f tok lAttr rAttr lt rt c d hcd hne

theorem emits_position_prefix (x y : Row) (h : Emits f tok lAttr rAttr lt rt .position x y) :
    Emits f tok lAttr rAttr lt rt .prefix x y := by
  obtain ⟨c, d, hcd, rfl, rfl⟩ := h
  exact ⟨c, d, positionPairs_subset_prefixPairs f tok lAttr rAttr lt rt _ hcd, rfl, rfl⟩

theorem emits_position_size
    (hearly : ∀ y ∈ rt, f.cfg.lower (tok (y.cell rAttr).strVal).length ≤ ((tok (y.cell rAttr).strVal).length : Int))
    (x y : Row) (h : Emits f tok lAttr rAttr lt rt .position x y) :
    Emits f tok lAttr rAttr lt rt .size x y := by
  obtain ⟨c, d, hcd, rfl, rfl⟩ := h
  exact ⟨c, d, positionPairs_subset_sizePairs f tok lAttr rAttr lt rt
    (fun d hd => hearly _ (getD_mem' _ _ hd)) _ hcd, rfl, rfl⟩

theorem emits_position_common (x y : Row) (h : Emits f tok lAttr rAttr lt rt .position x y)
    (hne : ¬ (tok (x.cell lAttr).strVal = [] ∧ tok (y.cell rAttr).strVal = [])) :
    ∃ w, w ∈ tok (x.cell lAttr).strVal ∧ w ∈ tok (y.cell rAttr).strVal :=
  emits_prefix_common f tok lAttr rAttr lt rt x y (emits_position_prefix f tok lAttr rAttr lt rt x y h) hne

theorem suffixKeeps_empty (ordering : List (Tok × Nat)) : suffixKeeps f ordering [] [] = handleEmpty f := by
  have h1 := suffixPairRows_empty f ⟨0, 0, [], [], false⟩ ordering [] [] [] [] rfl rfl
  rw [suffixPairRows_eq] at h1
  cases hk : suffixKeeps f ordering [] [] <;> cases hh : handleEmpty f <;> simp [hk, hh] at h1 <;> rfl

/-- C09: a pair of rows both of which have no tokens is emitted iff the filter handles empties
    (`allow_empty` and measure not OVERLAP / EDIT_DISTANCE) -/
theorem emits_bothEmpty (k : FilterKind) (x y : Row) (hx : x ∈ lt) (hy : y ∈ rt)
    (ha : tok (x.cell lAttr).strVal = []) (hb : tok (y.cell rAttr).strVal = []) :
    Emits f tok lAttr rAttr lt rt k x y ↔ handleEmpty f = true := by
  cases k
  · constructor
    · rintro ⟨c, d, hcd, rfl, rfl⟩
      obtain ⟨hc, hd⟩ := sizePairs_valid f tok lAttr rAttr lt rt c d hcd
      exact (sizePairs_bothEmpty f tok lAttr rAttr lt rt c d hc hd ha hb).1 hcd
    · intro he
      obtain ⟨c, hc, rfl⟩ := exists_index lt x hx
      obtain ⟨d, hd, rfl⟩ := exists_index rt y hy
      exact ⟨c, d, (sizePairs_bothEmpty f tok lAttr rAttr lt rt c d hc hd ha hb).2 he, rfl, rfl⟩
  · constructor
    · rintro ⟨c, d, hcd, rfl, rfl⟩
      obtain ⟨hc, hd⟩ := prefixPairs_valid f tok lAttr rAttr lt rt c d hcd
      exact (prefixPairs_bothEmpty f tok lAttr rAttr lt rt c d hc hd ha hb).1 hcd
    · intro he
      obtain ⟨c, hc, rfl⟩ := exists_index lt x hx
      obtain ⟨d, hd, rfl⟩ := exists_index rt y hy
      exact ⟨c, d, (prefixPairs_bothEmpty f tok lAttr rAttr lt rt c d hc hd ha hb).2 he, rfl, rfl⟩
  · constructor
    · rintro ⟨c, d, hcd, rfl, rfl⟩
      obtain ⟨hc, hd⟩ := positionPairs_valid f tok lAttr rAttr lt rt c d hcd
      exact (positionPairs_bothEmpty f tok lAttr rAttr lt rt c d hc hd ha hb).1 hcd
    · intro he
      obtain ⟨c, hc, rfl⟩ := exists_index lt x hx
      obtain ⟨d, hd, rfl⟩ := exists_index rt y hy
      exact ⟨c, d, (positionPairs_bothEmpty f tok lAttr rAttr lt rt c d hc hd ha hb).2 he, rfl, rfl⟩
  · show (x ∈ lt ∧ y ∈ rt ∧ suffixKeeps f _ _ _ = true) ↔ _
    rw [ha, hb, suffixKeeps_empty]
    exact ⟨fun h => h.2.2, fun h => ⟨hx, hy, h⟩⟩

end EmitFacts

/-! ## 5. `filter_tables` at entry level: safety (C04) -/

section TablesSafe
variable (k : FilterKind) (f : FilterObj) (a : TableArgs) (t : TokObj) (toks : TokFn) (cpu : Int) (l r fr : Frame)

theorem lRow_tokens (tok : String → List Tok) (ls : Row) :
    tok ((RT.lRow a l ls).cell (RT.lAttrIdx a)).strVal = tokensOf tok l a.lAttr ls := by
  rw [RT.lRow_attr]; rfl

theorem rRow_tokens (tok : String → List Tok) (rs : Row) :
    tok ((RT.rRow a r rs).cell (RT.rAttrIdx a)).strVal = tokensOf tok r a.rAttr rs := by
  rw [RT.rRow_attr]; rfl

theorem lRow_mem (ls : Row) (hls : ls ∈ l.rows) (hlp : Present l a.lAttr ls) : RT.lRow a l ls ∈ RT.lArr a l :=
  (RT.mem_lArr_iff a l _).2 ⟨ls, hls, hlp, rfl⟩

theorem rRow_mem_chunk (hrows : r.rows.length < 2 ^ 40) (rs : Row) (hrs : rs ∈ r.rows) (hrp : Present r a.rAttr rs) :
    ∃ ch ∈ chunksFor (RT.rArr a r) a.nJobs cpu, RT.rRow a r rs ∈ ch :=
  RT.mem_chunk_of_mem_rArr a r cpu (lt_of_le_of_lt (EntryED.rArr_length_le _ _) hrows) _
    ((RT.mem_rArr_iff a r _).2 ⟨rs, hrs, hrp, rfl⟩)

/-- C04 at entry level, generic in the measure: the result has a row for every pair of present source rows with a
    common token which all pruning bounds accept (probe = right row) -/
theorem filterTables_safe_of_bounds (hv : validateTablesAttrs a = .ok (l, r))
    (hk : validateOutAndKeys a l r = .ok ()) (hrows : r.rows.length < 2 ^ 40)
    (hnd : ∀ s, (toks t.returnSet s).Nodup)
    (hres : filterTables k f a t toks cpu = .ok fr)
    (ls rs : Row) (hls : ls ∈ l.rows) (hrs : rs ∈ r.rows)
    (hlp : Present l a.lAttr ls) (hrp : Present r a.rAttr rs)
    (ho : 1 ≤ interCount (tokensOf (toks t.returnSet) l a.lAttr ls) (tokensOf (toks t.returnSet) r a.rAttr rs))
    (hb : BoundsFacts f.cfg (tokensOf (toks t.returnSet) r a.rAttr rs).length
      (tokensOf (toks t.returnSet) l a.lAttr ls).length
      (interCount (tokensOf (toks t.returnSet) l a.lAttr ls) (tokensOf (toks t.returnSet) r a.rAttr rs)))
    (hearly : k = .size → f.cfg.lower (tokensOf (toks t.returnSet) r a.rAttr rs).length ≤
      ((tokensOf (toks t.returnSet) r a.rAttr rs).length : Int))
    (hsuf : k = .suffix →
      f.cfg.prefixLen (tokensOf (toks t.returnSet) l a.lAttr ls).length ≤ (tokensOf (toks t.returnSet) l a.lAttr ls).length ∧
      f.cfg.prefixLen (tokensOf (toks t.returnSet) r a.rAttr rs).length ≤ (tokensOf (toks t.returnSet) r a.rAttr rs).length) :
    ∃ row ∈ fr.rows, rowKeys row = (keyOf l a.lKey ls, keyOf r a.rKey rs) := by
  rw [mem_filterTables_iff k f a t toks cpu l r fr hv hk hrows hres ls rs hls hrs hlp hrp]
  obtain ⟨ch, hch, hy⟩ := rRow_mem_chunk a cpu r hrows rs hrs hrp
  refine ⟨ch, hch, emits_of_bounds f _ _ _ _ _ hnd k _ _ (lRow_mem a l ls hls hlp) hy ?_ ?_ ?_ ?_⟩
  · rw [lRow_tokens a l (toks t.returnSet), rRow_tokens a r (toks t.returnSet)]; exact ho
  · rw [lRow_tokens a l (toks t.returnSet), rRow_tokens a r (toks t.returnSet)]; exact hb
  · rw [rRow_tokens a r (toks t.returnSet)]; exact hearly
  · rw [lRow_tokens a l (toks t.returnSet), rRow_tokens a r (toks t.returnSet)]; exact hsuf

/-- C04 at entry level for JACCARD / COSINE / DICE -/
theorem filterTables_safe_set (m : Measure) (hm : SetMeasure m) (thr : Rat) (ht : ThrOK thr)
    (hmeas : f.cfg.measure = m) (hthr : f.cfg.threshold = .float thr)
    (hv : validateTablesAttrs a = .ok (l, r))
    (hk : validateOutAndKeys a l r = .ok ()) (hrows : r.rows.length < 2 ^ 40)
    (hnd : ∀ s, (toks t.returnSet s).Nodup) (hsm : ∀ s, (toks t.returnSet s).length < 2 ^ 32)
    (hres : filterTables k f a t toks cpu = .ok fr)
    (ls rs : Row) (hls : ls ∈ l.rows) (hrs : rs ∈ r.rows)
    (hlp : Present l a.lAttr ls) (hrp : Present r a.rAttr rs)
    (hne : ¬ ((tokensOf (toks t.returnSet) l a.lAttr ls).length = 0 ∧ (tokensOf (toks t.returnSet) r a.rAttr rs).length = 0))
    (s : Rat) (hs : Spec.simSet m (tokensOf (toks t.returnSet) l a.lAttr ls) (tokensOf (toks t.returnSet) r a.rAttr rs) = .float s)
    (hq : thr ≤ s) (hsuf : k = .suffix → prefThr m ≤ thr) :
    ∃ row ∈ fr.rows, rowKeys row = (keyOf l a.lKey ls, keyOf r a.rKey rs) := by
  obtain ⟨ho, -, b2, -, l2⟩ := qual_facts m hm thr ht _ _ (hnd _) (hnd _) (hsm _) (hsm _) hne s hs hq
  have h2 := interCount_le_length_right (tokensOf (toks t.returnSet) l a.lAttr ls) _ (hnd (valOf r a.rAttr rs).strVal)
  have sb := sameBounds_set f.cfg m hm thr hmeas hthr
  replace b2 := BoundsFacts.of_same sb b2
  rw [← sb.lower] at l2
  refine filterTables_safe_of_bounds k f a t toks cpu l r fr hv hk hrows hnd hres ls rs hls hrs hlp hrp ho b2
    (fun _ => ?_) (fun hk' => ?_)
  · unfold tokensOf at *; omega
  · rw [sb.prefixLen, sb.prefixLen]
    exact ⟨prefixLen_le m hm thr ht (hsuf hk') _ (hsm _), prefixLen_le m hm thr ht (hsuf hk') _ (hsm _)⟩

end TablesSafe

/-! ## 6. integer shape of the generated bounds under OVERLAP and EDIT_DISTANCE -/

section Shapes

theorem ov_e1 : PyV.eqb (.str "OVERLAP") (.str "COSINE") = false := by decide
theorem ov_e2 : PyV.eqb (.str "OVERLAP") (.str "DICE") = false := by decide
theorem ov_e3 : PyV.eqb (.str "OVERLAP") (.str "EDIT_DISTANCE") = false := by decide
theorem ov_e4 : PyV.eqb (.str "OVERLAP") (.str "JACCARD") = false := by decide
theorem ov_e5 : PyV.eqb (.str "OVERLAP") (.str "OVERLAP") = true := by decide
theorem ed_e1 : PyV.eqb (.str "EDIT_DISTANCE") (.str "COSINE") = false := by decide
theorem ed_e2 : PyV.eqb (.str "EDIT_DISTANCE") (.str "DICE") = false := by decide
theorem ed_e3 : PyV.eqb (.str "EDIT_DISTANCE") (.str "EDIT_DISTANCE") = true := by decide

variable (c : FCfg) (k : Int)

theorem lower_overlap (hm : c.measure = .overlap) (ht : c.threshold = .int k) (n : Nat) : c.lower n = k := by
  unfold FCfg.lower FCfg.lowerV Gen.get_size_lower_bound
  simp only [hm, ht, Measure.name, ov_e1, ov_e2, ov_e3, ov_e4, ov_e5, Bool.false_eq_true, if_false, if_true, PyV.ceil, PyV.toInt, PyV.toIntD]

theorem upper_overlap (hm : c.measure = .overlap) (n : Nat) : c.upper n = maxsize := by
  unfold FCfg.upper FCfg.upperV Gen.get_size_upper_bound
  simp only [hm, Measure.name, ov_e1, ov_e2, ov_e3, ov_e4, ov_e5, Bool.false_eq_true, if_false, if_true, PyV.toIntD]
  rfl

theorem ovThr_overlap (hm : c.measure = .overlap) (ht : c.threshold = .int k) (l r : Nat) : c.ovThr l r = k := by
  unfold FCfg.ovThr FCfg.ovThrV Gen.get_overlap_threshold
  simp only [hm, ht, Measure.name, ov_e1, ov_e2, ov_e3, ov_e4, ov_e5, Bool.false_eq_true, if_false, if_true, PyV.ceil, PyV.toInt, PyV.toIntD]

theorem prefixLen_overlap (hm : c.measure = .overlap) (ht : c.threshold = .int k) (n : Nat) :
    c.prefixLen n = if n = 0 then 0 else max ((n : Int) - k + 1) 0 := by
  have e0 : PyV.eqb (.int (n : Int)) (.int 0) = decide (n = 0) := eqb_int0 n
  unfold FCfg.prefixLen FCfg.prefixV Gen.get_prefix_length
  simp only [hm, ht, Measure.name, e0, ov_e1, ov_e2, ov_e3, ov_e4, ov_e5]
  by_cases hn : n = 0
  · simp [hn, PyV.toIntD]
  · simp only [hn, decide_false, Bool.false_eq_true, if_false, if_true, PyV.sub, PyV.add, PyV.max, PyV.gtb, PyV.ltb,
      PyV.numVal?]
    by_cases h : (n : Int) - k + 1 < 0
    · have h' : (((n : Int) - k + 1 : Int) : Rat) < ((0 : Int) : Rat) := by exact_mod_cast h
      simp only [h', decide_true, if_true, PyV.toInt, PyV.toIntD]
      omega
    · have h' : ¬ (((n : Int) - k + 1 : Int) : Rat) < ((0 : Int) : Rat) := by exact_mod_cast h
      simp only [h', decide_false, Bool.false_eq_true, if_false, PyV.toInt, PyV.toIntD]
      omega

variable (tau q : Int)

theorem lower_ed (hm : c.measure = .editDistance) (ht : c.threshold = .int tau) (n : Nat) :
    c.lower n = (n : Int) - tau := by
  unfold FCfg.lower FCfg.lowerV Gen.get_size_lower_bound
  simp only [hm, ht, Measure.name, ed_e1, ed_e2, ed_e3, Bool.false_eq_true, if_false, if_true, PyV.sub, PyV.ceil, PyV.toInt, PyV.toIntD]

theorem upper_ed (hm : c.measure = .editDistance) (ht : c.threshold = .int tau) (n : Nat) :
    c.upper n = (n : Int) + tau := by
  unfold FCfg.upper FCfg.upperV Gen.get_size_upper_bound
  simp only [hm, ht, Measure.name, ed_e1, ed_e2, ed_e3, Bool.false_eq_true, if_false, if_true, PyV.add, PyV.floor, PyV.toInt, PyV.toIntD]

theorem ovThr_ed (hm : c.measure = .editDistance) (ht : c.threshold = .int tau) (hq : c.qval = .int q) (l r : Nat) :
    c.ovThr l r = max (l : Int) r - q * tau := by
  unfold FCfg.ovThr FCfg.ovThrV Gen.get_overlap_threshold
  simp only [hm, ht, hq, Measure.name, ed_e1, ed_e2, ed_e3, Bool.false_eq_true, if_false, if_true, PyV.add, PyV.sub,
    PyV.mul, PyV.max, PyV.gtb, PyV.ltb, PyV.numVal?]
  by_cases h : (l : Int) + q - 1 < (r : Int) + q - 1
  · have h' : (((l : Int) + q - 1 : Int) : Rat) < (((r : Int) + q - 1 : Int) : Rat) := by exact_mod_cast h
    simp only [h', decide_true, if_true, PyV.ceil, PyV.toInt, PyV.toIntD]
    omega
  · have h' : ¬ (((l : Int) + q - 1 : Int) : Rat) < (((r : Int) + q - 1 : Int) : Rat) := by exact_mod_cast h
    simp only [h', decide_false, Bool.false_eq_true, if_false, PyV.ceil, PyV.toInt, PyV.toIntD]
    omega

end Shapes

/-! ## 7. generic `filter_pair` safety; OVERLAP -/

/-- C04 for `filter_pair`, generic in the measure -/
theorem filterPair_safe_of_bounds (k : FilterKind) (f : FilterObj) (tok : String → List Tok)
    (hnd : ∀ s, (tok s).Nodup) (l r : Cell) (hl : l.isMissing = false) (hr : r.isMissing = false)
    (ho : 1 ≤ interCount (tok l.strVal) (tok r.strVal))
    (hb : BoundsFacts f.cfg (tok l.strVal).length (tok r.strVal).length (interCount (tok l.strVal) (tok r.strVal)))
    (hthr : f.cfg.ovThr (tok l.strVal).length (tok r.strVal).length ≤ (interCount (tok l.strVal) (tok r.strVal) : Int))
    (hsuf : k = .suffix → f.cfg.prefixLen (tok l.strVal).length ≤ (tok l.strVal).length ∧
      f.cfg.prefixLen (tok r.strVal).length ≤ (tok r.strVal).length) :
    filterPair k f tok l r = false := by
  obtain ⟨hm, hn⟩ := interCount_pos_length _ _ ho
  cases k
  · exact sizeFilterPair_safe f tok l r hl hr (fun h => hm h.1) hb.lower hb.upper
  · exact prefixFilterPair_safe f tok hnd l r hl hr ho hb.prefN hb.prefK
  · exact positionFilterPair_safe f tok hnd l r hl hr ho hb.prefN hb.prefK hthr
  · have h1 := interCount_le_length_left _ (tok r.strVal) (hnd l.strVal)
    have h2 := interCount_le_length_right (tok l.strVal) _ (hnd r.strVal)
    have p1 := hb.prefN
    have p2 := hb.prefK
    obtain ⟨q1, q2⟩ := hsuf rfl
    exact suffixFilterPair_safe f tok hnd l r hl hr (fun h => hm h.1) (by omega) (by omega) q1 q2 hthr

/-- under OVERLAP with an int threshold `k ≥ 1` every bound accepts a pair with at least `k` common tokens -/
theorem bounds_overlap (c : FCfg) (k : Int) (hm : c.measure = .overlap) (ht : c.threshold = .int k) (hk1 : 1 ≤ k)
    (n kk o : Nat) (hko : k ≤ (o : Int)) (hon : o ≤ n) (hok : o ≤ kk) (hsz : (kk : Int) ≤ maxsize) :
    BoundsFacts c n kk o ∧ c.ovThr n kk ≤ (o : Int) ∧ c.lower n ≤ (n : Int) ∧
      c.prefixLen n ≤ (n : Int) ∧ c.prefixLen kk ≤ (kk : Int) := by
  have hn0 : n ≠ 0 := by omega
  have hk0 : kk ≠ 0 := by omega
  refine ⟨⟨?_, ?_, ?_, ?_, ?_⟩, ?_, ?_, ?_, ?_⟩
  · rw [lower_overlap c k hm ht]; omega
  · rw [upper_overlap c hm]; exact hsz
  · rw [ovThr_overlap c k hm ht]; exact hko
  · rw [prefixLen_overlap c k hm ht, if_neg hn0]; omega
  · rw [prefixLen_overlap c k hm ht, if_neg hk0]; omega
  · rw [ovThr_overlap c k hm ht]; exact hko
  · rw [lower_overlap c k hm ht]; omega
  · rw [prefixLen_overlap c k hm ht, if_neg hn0]; omega
  · rw [prefixLen_overlap c k hm ht, if_neg hk0]; omega

/-- C04 for `filter_pair` under OVERLAP (int threshold `k ≥ 1`): a pair with at least `k` common tokens is kept -/
theorem filterPair_safe_overlap (kind : FilterKind) (f : FilterObj) (k : Int) (hm : f.cfg.measure = .overlap)
    (ht : f.cfg.threshold = .int k) (hk1 : 1 ≤ k) (tok : String → List Tok)
    (hnd : ∀ s, (tok s).Nodup) (hsm : ∀ s, (tok s).length < 2 ^ 62) (l r : Cell)
    (hl : l.isMissing = false) (hr : r.isMissing = false)
    (ho : k ≤ (interCount (tok l.strVal) (tok r.strVal) : Int)) :
    filterPair kind f tok l r = false := by
  have h1 := interCount_le_length_left _ (tok r.strVal) (hnd l.strVal)
  have h2 := interCount_le_length_right (tok l.strVal) _ (hnd r.strVal)
  have hsz : ((tok r.strVal).length : Int) ≤ maxsize := by
    have := hsm r.strVal
    unfold maxsize; omega
  obtain ⟨hb, hthr, -, q1, q2⟩ := bounds_overlap f.cfg k hm ht hk1 _ _ _ ho h1 h2 hsz
  exact filterPair_safe_of_bounds kind f tok hnd l r hl hr (by omega) hb hthr (fun _ => ⟨q1, q2⟩)

/-- C04 for `filter_tables` under OVERLAP (int threshold `k ≥ 1`) -/
theorem filterTables_safe_overlap (kind : FilterKind) (f : FilterObj) (a : TableArgs) (t : TokObj) (toks : TokFn)
    (cpu : Int) (l r fr : Frame) (k : Int) (hm : f.cfg.measure = .overlap)
    (ht : f.cfg.threshold = .int k) (hk1 : 1 ≤ k)
    (hv : validateTablesAttrs a = .ok (l, r))
    (hk : validateOutAndKeys a l r = .ok ()) (hrows : r.rows.length < 2 ^ 40)
    (hnd : ∀ s, (toks t.returnSet s).Nodup) (hsm : ∀ s, (toks t.returnSet s).length < 2 ^ 62)
    (hres : filterTables kind f a t toks cpu = .ok fr)
    (ls rs : Row) (hls : ls ∈ l.rows) (hrs : rs ∈ r.rows)
    (hlp : Present l a.lAttr ls) (hrp : Present r a.rAttr rs)
    (ho : k ≤ (interCount (tokensOf (toks t.returnSet) l a.lAttr ls) (tokensOf (toks t.returnSet) r a.rAttr rs) : Int)) :
    ∃ row ∈ fr.rows, rowKeys row = (keyOf l a.lKey ls, keyOf r a.rKey rs) := by
  have h1 := interCount_le_length_left _ (tokensOf (toks t.returnSet) r a.rAttr rs) (hnd (valOf l a.lAttr ls).strVal)
  have h2 := interCount_le_length_right (tokensOf (toks t.returnSet) l a.lAttr ls) _ (hnd (valOf r a.rAttr rs).strVal)
  have hsz : ((tokensOf (toks t.returnSet) l a.lAttr ls).length : Int) ≤ maxsize := by
    have := hsm (valOf l a.lAttr ls).strVal
    unfold tokensOf maxsize; omega
  obtain ⟨hb, -, he, q1, q2⟩ := bounds_overlap f.cfg k hm ht hk1 _ _ _ ho h2 h1 hsz
  exact filterTables_safe_of_bounds kind f a t toks cpu l r fr hv hk hrows hnd hres ls rs hls hrs hlp hrp
    (by unfold tokensOf at *; omega) hb (fun _ => he) (fun _ => ⟨q2, q1⟩)

/-! ## 8. entry-level consequences of the bridge: C09 (empties), C14 (size by counts, common token, inclusions) -/

section TablesMore
variable (k : FilterKind) (f : FilterObj) (a : TableArgs) (t : TokObj) (toks : TokFn) (cpu : Int) (l r fr : Frame)

/-- C09 at entry level: a pair of present rows both without tokens is listed iff the filter handles empties -/
theorem filterTables_bothEmpty_iff (hv : validateTablesAttrs a = .ok (l, r))
    (hk : validateOutAndKeys a l r = .ok ()) (hrows : r.rows.length < 2 ^ 40)
    (hres : filterTables k f a t toks cpu = .ok fr)
    (ls rs : Row) (hls : ls ∈ l.rows) (hrs : rs ∈ r.rows)
    (hlp : Present l a.lAttr ls) (hrp : Present r a.rAttr rs)
    (ha : tokensOf (toks t.returnSet) l a.lAttr ls = []) (hb : tokensOf (toks t.returnSet) r a.rAttr rs = []) :
    (∃ row ∈ fr.rows, rowKeys row = (keyOf l a.lKey ls, keyOf r a.rKey rs)) ↔ handleEmpty f = true := by
  rw [mem_filterTables_iff k f a t toks cpu l r fr hv hk hrows hres ls rs hls hrs hlp hrp]
  have hx := lRow_mem a l ls hls hlp
  have ea := lRow_tokens a l (toks t.returnSet) ls
  have eb := rRow_tokens a r (toks t.returnSet) rs
  constructor
  · rintro ⟨ch, hch, hem⟩
    obtain ⟨-, hy⟩ := Emits.mem f _ _ _ _ _ k _ _ hem
    exact (emits_bothEmpty f _ _ _ _ _ k _ _ hx hy (by rw [ea]; exact ha) (by rw [eb]; exact hb)).1 hem
  · intro he
    obtain ⟨ch, hch, hy⟩ := rRow_mem_chunk a cpu r hrows rs hrs hrp
    exact ⟨ch, hch, (emits_bothEmpty f _ _ _ _ _ k _ _ hx hy (by rw [ea]; exact ha) (by rw [eb]; exact hb)).2 he⟩

/-- C14 (size) at entry level: whether a pair of present rows is listed by `SizeFilter.filter_tables` is a
    condition (`SizeEmits`) on the two token counts alone -/
theorem filterTables_size_iff (hv : validateTablesAttrs a = .ok (l, r))
    (hk : validateOutAndKeys a l r = .ok ()) (hrows : r.rows.length < 2 ^ 40)
    (hres : filterTables .size f a t toks cpu = .ok fr)
    (ls rs : Row) (hls : ls ∈ l.rows) (hrs : rs ∈ r.rows)
    (hlp : Present l a.lAttr ls) (hrp : Present r a.rAttr rs) :
    (∃ row ∈ fr.rows, rowKeys row = (keyOf l a.lKey ls, keyOf r a.rKey rs)) ↔
      SizeEmits f (tokensOf (toks t.returnSet) l a.lAttr ls).length (tokensOf (toks t.returnSet) r a.rAttr rs).length := by
  rw [mem_filterTables_iff .size f a t toks cpu l r fr hv hk hrows hres ls rs hls hrs hlp hrp]
  have hx := lRow_mem a l ls hls hlp
  constructor
  · rintro ⟨ch, hch, hem⟩
    have := ((emits_size_iff f _ _ _ _ _ _ _).1 hem).2.2
    rwa [lRow_tokens a l (toks t.returnSet), rRow_tokens a r (toks t.returnSet)] at this
  · intro hs
    obtain ⟨ch, hch, hy⟩ := rRow_mem_chunk a cpu r hrows rs hrs hrp
    refine ⟨ch, hch, (emits_size_iff f _ _ _ _ _ _ _).2 ⟨hx, hy, ?_⟩⟩
    rwa [lRow_tokens a l (toks t.returnSet), rRow_tokens a r (toks t.returnSet)]

/-- C14 at entry level: a pair of present rows listed by the prefix or the position filter has a common token,
    unless both rows have no tokens -/
theorem filterTables_common_token (hkind : k = .prefix ∨ k = .position)
    (hv : validateTablesAttrs a = .ok (l, r))
    (hk : validateOutAndKeys a l r = .ok ()) (hrows : r.rows.length < 2 ^ 40)
    (hres : filterTables k f a t toks cpu = .ok fr)
    (ls rs : Row) (hls : ls ∈ l.rows) (hrs : rs ∈ r.rows)
    (hlp : Present l a.lAttr ls) (hrp : Present r a.rAttr rs)
    (hrow : ∃ row ∈ fr.rows, rowKeys row = (keyOf l a.lKey ls, keyOf r a.rKey rs))
    (hne : ¬ (tokensOf (toks t.returnSet) l a.lAttr ls = [] ∧ tokensOf (toks t.returnSet) r a.rAttr rs = [])) :
    ∃ w, w ∈ tokensOf (toks t.returnSet) l a.lAttr ls ∧ w ∈ tokensOf (toks t.returnSet) r a.rAttr rs := by
  rw [mem_filterTables_iff k f a t toks cpu l r fr hv hk hrows hres ls rs hls hrs hlp hrp] at hrow
  obtain ⟨ch, hch, hem⟩ := hrow
  rw [← lRow_tokens a l (toks t.returnSet), ← rRow_tokens a r (toks t.returnSet)] at hne ⊢
  rcases hkind with rfl | rfl
  · exact emits_prefix_common f _ _ _ _ _ _ _ hem hne
  · exact emits_position_common f _ _ _ _ _ _ _ hem hne

theorem mem_rows_payload (hv : validateTablesAttrs a = .ok (l, r)) (hk : validateOutAndKeys a l r = .ok ())
    (hres : filterTables k f a t toks cpu = .ok fr) (row : Row) :
    row ∈ fr.rows ↔ ∃ (p : Row) (i : Nat),
      (((chunksFor (RT.rArr a r) a.nJobs cpu).flatMap (fun ch =>
          work k f t toks (RT.out a) (RT.lAttrIdx a) (RT.rAttrIdx a) (RT.lArr a l) ch))
        ++ (if f.allowMissing then RT.missingRows a l r false else []))[i]? = some p ∧ row = Cell.int i :: p := by
  rw [filterTables_rows k f a t toks cpu l r fr hv hk hres]
  exact mem_zipIdx_map_cons _ row

/-- inclusion of results: if every pair emitted by kind `k₁` on a chunk is emitted by kind `k₂`, every row of the
    `k₁` result (without its `_id`) is a row of the `k₂` result -/
theorem filterTables_subset (k₁ k₂ : FilterKind) (f₁ f₂ : FilterObj) (hmiss : f₁.allowMissing = f₂.allowMissing)
    (f1 f2 : Frame)
    (hv : validateTablesAttrs a = .ok (l, r)) (hk : validateOutAndKeys a l r = .ok ())
    (h1 : filterTables k₁ f₁ a t toks cpu = .ok f1) (h2 : filterTables k₂ f₂ a t toks cpu = .ok f2)
    (hsub : ∀ ch ∈ chunksFor (RT.rArr a r) a.nJobs cpu, ∀ x y,
      Emits f₁ (toks t.returnSet) (RT.lAttrIdx a) (RT.rAttrIdx a) (RT.lArr a l) ch k₁ x y →
      Emits f₂ (toks t.returnSet) (RT.lAttrIdx a) (RT.rAttrIdx a) (RT.lArr a l) ch k₂ x y) :
    ∀ row ∈ f1.rows, ∃ row' ∈ f2.rows, row'.drop 1 = row.drop 1 ∧ rowKeys row' = rowKeys row := by
  intro row hrow
  obtain ⟨p, i, hpi, rfl⟩ := (mem_rows_payload k₁ f₁ a t toks cpu l r f1 hv hk h1 row).1 hrow
  have hp : p ∈ ((chunksFor (RT.rArr a r) a.nJobs cpu).flatMap (fun ch =>
          work k₂ f₂ t toks (RT.out a) (RT.lAttrIdx a) (RT.rAttrIdx a) (RT.lArr a l) ch))
        ++ (if f₂.allowMissing then RT.missingRows a l r false else []) := by
    rcases List.mem_append.1 (List.mem_of_getElem? hpi) with hp | hp
    · obtain ⟨ch, hch, hp⟩ := List.mem_flatMap.1 hp
      obtain ⟨x, y, hem, rfl⟩ := (mem_filterTablesSplit_iff f₁ _ _ _ _ _ k₁ _ p).1 hp
      exact List.mem_append_left _ (List.mem_flatMap.2 ⟨ch, hch,
        (mem_filterTablesSplit_iff f₂ _ _ _ _ _ k₂ _ _).2 ⟨x, y, hsub ch hch x y hem, rfl⟩⟩)
    · rw [hmiss] at hp
      exact List.mem_append_right _ hp
  obtain ⟨j, hj⟩ := List.getElem?_of_mem hp
  exact ⟨Cell.int j :: p, (mem_rows_payload k₂ f₂ a t toks cpu l r f2 hv hk h2 _).2 ⟨p, j, hj, rfl⟩, rfl, rfl⟩

end TablesMore

/-! ### the early exit of the size filter never fires for JACCARD / COSINE / DICE -/

theorem lower_le_self (m : Measure) (hm : SetMeasure m) (t : Rat) (ht : ThrOK t) (n : Nat) (hn : n < 2 ^ 32) :
    (cfgOf m t).lower n ≤ (n : Int) := by
  rcases Nat.eq_zero_or_pos n with rfl | hn1
  · apply lower_le_of m hm ht 0 0 hn hn
    rcases hm with rfl | rfl | rfl <;> simp [lowF, rn_zero] <;> norm_num
  · exact (bounds_self m hm t ht n hn1 hn).2

/-- a probe without tokens finds no non-empty record: `upper 0 < k` for `k ≥ 1` -/
theorem upper_zero_lt (m : Measure) (hm : SetMeasure m) (t : Rat) (ht : ThrOK t) (k : Nat) (hk1 : 1 ≤ k)
    (hk : k < 2 ^ 32) : (cfgOf m t).upper 0 < (k : Int) := by
  apply upper_lt_of m hm ht 0 k (by norm_num) hk
  have hk1' : (1 : Rat) ≤ k := by exact_mod_cast hk1
  have h0 : upF m t ((0 : Nat) : Rat) = 0 := by
    rcases hm with rfl | rfl | rfl <;> simp [upF, rn_zero]
  rw [h0]
  linarith

/-! ## 9. `filter_pair`: pruning promises (C14) and empties (C09) -/

section PairMore
variable (f : FilterObj) (tok : String → List Tok)

/-- the verdict of `SizeFilter.filter_pair` on present values is a function of the two token counts -/
theorem sizeFilterPair_counts (tok' : String → List Tok) (l r l' r' : Cell)
    (hl : l.isMissing = false) (hr : r.isMissing = false) (hl' : l'.isMissing = false) (hr' : r'.isMissing = false)
    (h1 : (tok l.strVal).length = (tok' l'.strVal).length) (h2 : (tok r.strVal).length = (tok' r'.strVal).length) :
    sizeFilterPair f tok l r = sizeFilterPair f tok' l' r' := by
  unfold sizeFilterPair
  simp only [hl, hr, hl', hr', h1, h2]

/-- outside the size window the pair is dropped -/
theorem sizeFilterPair_dropped (l r : Cell) (hl : l.isMissing = false) (hr : r.isMissing = false)
    (hne : ¬ ((tok l.strVal).length = 0 ∧ (tok r.strVal).length = 0))
    (h : ¬ (f.cfg.lower (tok l.strVal).length ≤ ((tok r.strVal).length : Int) ∧
            ((tok r.strVal).length : Int) ≤ f.cfg.upper (tok l.strVal).length)) :
    sizeFilterPair f tok l r = true := by
  unfold sizeFilterPair
  simp only [hl, hr, Bool.or_self, Bool.false_eq_true, if_false]
  rw [if_neg (by simpa using hne)]
  rw [if_neg (by simpa using h)]

/-- inside the size window the pair is kept (converse of the above; with `sizeFilterPair_dropped`: EXACT) -/
theorem sizeFilterPair_iff (l r : Cell) (hl : l.isMissing = false) (hr : r.isMissing = false)
    (hne : ¬ ((tok l.strVal).length = 0 ∧ (tok r.strVal).length = 0)) :
    sizeFilterPair f tok l r = false ↔
      (f.cfg.lower (tok l.strVal).length ≤ ((tok r.strVal).length : Int) ∧
        ((tok r.strVal).length : Int) ≤ f.cfg.upper (tok l.strVal).length) := by
  constructor
  · intro h
    by_contra hc
    rw [sizeFilterPair_dropped f tok l r hl hr hne hc] at h
    cases h
  · intro h
    exact sizeFilterPair_safe f tok l r hl hr hne h.1 h.2

/-- C14: a pair kept by `PrefixFilter.filter_pair` has a common token, unless both values have no tokens -/
theorem prefixFilterPair_common (l r : Cell) (hl : l.isMissing = false) (hr : r.isMissing = false)
    (hne : ¬ ((tok l.strVal).length = 0 ∧ (tok r.strVal).length = 0))
    (h : prefixFilterPair f tok l r = false) : ∃ w, w ∈ tok l.strVal ∧ w ∈ tok r.strVal := by
  unfold prefixFilterPair at h
  simp only [hl, hr, Bool.or_self, Bool.false_eq_true, if_false] at h
  rw [if_neg (by simpa using hne)] at h
  split at h
  · cases h
  · split at h
    · next hany =>
      obtain ⟨u, hu1, hu2⟩ := List.any_eq_true.1 hany
      exact common_token_of_common_rank [tok l.strVal, tok r.strVal] _ _ u
        (mem_of_mem_pyTake _ _ _ hu1) (mem_of_mem_pyTake _ _ _ (by simpa using hu2))
    · cases h

/-- the scan of `PositionFilter.filter_pair` ends with a positive overlap only if some token of the right prefix
    occurs in the left prefix -/
theorem ppScan_pos (lpre : List Nat) (ln rn : Nat) (thr : Int) (ys : List Nat) (st : Int × Nat × Bool)
    (h : 0 < (ys.foldl (ppStep lpre ln rn thr) st).1) : 0 < st.1 ∨ ∃ u ∈ ys, u ∈ lpre := by
  induction ys generalizing st with
  | nil => exact Or.inl h
  | cons u ys ih =>
    rw [List.foldl_cons] at h
    rcases ih _ h with h1 | ⟨w, hw, hwl⟩
    · by_cases hu : u ∈ lpre
      · exact Or.inr ⟨u, by simp, hu⟩
      · left
        obtain ⟨cur, rpos, dropped⟩ := st
        unfold ppStep at h1
        cases dropped <;> simp [hu] at h1 <;> exact h1
    · exact Or.inr ⟨w, List.mem_cons_of_mem _ hw, hwl⟩

/-- C14: a pair kept by `PositionFilter.filter_pair` has a common token, unless both values have no tokens -/
theorem positionFilterPair_common (l r : Cell) (hl : l.isMissing = false) (hr : r.isMissing = false)
    (hne : ¬ ((tok l.strVal).length = 0 ∧ (tok r.strVal).length = 0))
    (h : positionFilterPair f tok l r = false) : ∃ w, w ∈ tok l.strVal ∧ w ∈ tok r.strVal := by
  rw [positionFilterPair_eq] at h
  simp only [hl, hr, Bool.or_self, Bool.false_eq_true, if_false] at h
  rw [if_neg (by simpa using hne)] at h
  split at h
  · cases h
  · split at h
    · cases h
    · split at h
      · next hpos =>
        rcases ppScan_pos _ _ _ _ _ _ hpos with h0 | ⟨u, hu1, hu2⟩
        · simp at h0
        · exact common_token_of_common_rank [tok l.strVal, tok r.strVal] _ _ u
            (mem_of_mem_pyTake _ _ _ hu2) (mem_of_mem_pyTake _ _ _ hu1)
      · cases h

/-- C09: on two present values without tokens every `filter_pair` answers `emptyPairDropped` -/
theorem filterPair_empty (k : FilterKind) (l r : Cell) (hl : l.isMissing = false) (hr : r.isMissing = false)
    (ha : tok l.strVal = []) (hb : tok r.strVal = []) : filterPair k f tok l r = emptyPairDropped f := by
  cases k
  · exact sizeFilterPair_empty f tok l r hl hr ha hb
  · exact prefixFilterPair_empty f tok l r hl hr ha hb
  · exact positionFilterPair_empty f tok l r hl hr ha hb
  · exact suffixFilterPair_empty f tok l r hl hr (by rw [ha]; rfl) (by rw [hb]; rfl)

end PairMore

theorem emptyPairDropped_set (f : FilterObj) (hm : SetMeasure f.cfg.measure) : emptyPairDropped f = !f.allowEmpty := by
  unfold emptyPairDropped
  rcases hm with h | h | h <;> rw [h]

theorem handleEmpty_set (f : FilterObj) (hm : SetMeasure f.cfg.measure) : handleEmpty f = f.allowEmpty := by
  unfold handleEmpty
  rcases hm with h | h | h <;> rw [h] <;> simp

theorem handleEmpty_overlap (f : FilterObj) (hm : f.cfg.measure = .overlap) : handleEmpty f = false := by
  unfold handleEmpty; rw [hm]; simp

theorem handleEmpty_ed (f : FilterObj) (hm : f.cfg.measure = .editDistance) : handleEmpty f = false := by
  unfold handleEmpty; rw [hm]; simp

/-! ### comparisons of an overlap against an int threshold -/

theorem compFn_gt : compFn ">" = PyV.gtb := by
  funext x y; simp [compFn, Gen.comp_op_map]

/-- for the three operators OverlapFilter allows, the comparison against an int `k` implies `n ≥ k` -/
theorem overlap_comp_ge (op : String) (hop : op = ">=" ∨ op = ">" ∨ op = "=") (n : Nat) (k : Int)
    (h : compFn op (.int (n : Int)) (.int k) = true) : k ≤ (n : Int) := by
  rcases hop with rfl | rfl | rfl
  · rw [compFn_ge] at h
    simp [PyV.geb, PyV.leb, PyV.numVal?] at h
    exact_mod_cast h
  · rw [compFn_gt] at h
    simp [PyV.gtb, PyV.ltb, PyV.numVal?] at h
    have : k < (n : Int) := by exact_mod_cast h
    omega
  · rw [EntryED.compFn_eq] at h
    simp [PyV.eqb, PyV.numVal?] at h
    have : (n : Int) = k := by exact_mod_cast h
    omega

/-- C14 (size) at entry level: a listed pair of present rows, not both without tokens, lies inside the size window
    computed from the RIGHT row's count, and its left row has tokens -/
theorem filterTables_size_window (f : FilterObj) (a : TableArgs) (t : TokObj) (toks : TokFn) (cpu : Int) (l r fr : Frame)
    (hv : validateTablesAttrs a = .ok (l, r))
    (hk : validateOutAndKeys a l r = .ok ()) (hrows : r.rows.length < 2 ^ 40)
    (hres : filterTables .size f a t toks cpu = .ok fr)
    (ls rs : Row) (hls : ls ∈ l.rows) (hrs : rs ∈ r.rows)
    (hlp : Present l a.lAttr ls) (hrp : Present r a.rAttr rs)
    (hrow : ∃ row ∈ fr.rows, rowKeys row = (keyOf l a.lKey ls, keyOf r a.rKey rs))
    (hne : ¬ ((tokensOf (toks t.returnSet) l a.lAttr ls).length = 0 ∧ (tokensOf (toks t.returnSet) r a.rAttr rs).length = 0)) :
    f.cfg.lower (tokensOf (toks t.returnSet) r a.rAttr rs).length ≤ ((tokensOf (toks t.returnSet) l a.lAttr ls).length : Int) ∧
    ((tokensOf (toks t.returnSet) l a.lAttr ls).length : Int) ≤ f.cfg.upper (tokensOf (toks t.returnSet) r a.rAttr rs).length ∧
    (tokensOf (toks t.returnSet) l a.lAttr ls).length ≠ 0 := by
  rcases (filterTables_size_iff f a t toks cpu l r fr hv hk hrows hres ls rs hls hrs hlp hrp).1 hrow with
    ⟨h1, h2, -⟩ | ⟨h1, -, -, h4, h5⟩
  · exact absurd ⟨h1, h2⟩ hne
  · exact ⟨h4, h5, h1⟩

/-! ## 10. a tiny concrete instance, shared by the non-vacuity examples of the property files -/

namespace Ex
open SSJ.Props SSJ.Spec F64

/-- left table: "x", the empty string, a missing value -/
def exL : Frame := { columns := ["id", "name"], rows := [[.int 1, .str "x"], [.int 2, .str ""], [.int 3, .missing]] }
/-- right table: "y", the empty string, "z" -/
def exR : Frame := { columns := ["id", "name"], rows := [[.int 7, .str "y"], [.int 8, .str ""], [.int 9, .str "z"]] }
def exA : TableArgs :=
  { ltable := some exL, rtable := some exR, lKey := "id", rKey := "id", lAttr := "name", rAttr := "name", nJobs := 2 }
def exT : TokObj := { returnSet := true }
/-- a tokenizer given by a finite table: "x" ↦ {a, b}, "y" ↦ {a, c}, "z" ↦ {c, d, e, f}, everything else ↦ ∅ -/
def exTok : String → List Tok := fun s =>
  if s = "x" then ["a", "b"] else if s = "y" then ["a", "c"] else if s = "z" then ["c", "d", "e", "f"] else []
def exToks : TokFn := fun _ => exTok

theorem exTok_nodup : ∀ s, (exTok s).Nodup := by
  intro s; unfold exTok; split_ifs <;> decide

theorem exTok_small : ∀ s, (exTok s).length < 2 ^ 32 := by
  intro s; unfold exTok; split_ifs <;> simp

theorem ex_valid : validateTablesAttrs exA = .ok (exL, exR) :=
  (validateTablesAttrs_ok_iff exA exL exR).2
    ⟨rfl, rfl, by decide, by decide, by decide, by decide, by decide, by decide⟩

theorem ex_keys : validateOutAndKeys exA exL exR = .ok () := by decide

theorem ex_thr : ThrOK (1 / 4) := ⟨by norm_num, by norm_num⟩

theorem ex_sim : simSet .jaccard (exTok "x") (exTok "y") = .float (rn (1 / 3)) := by
  have e1 : exTok "x" = ["a", "b"] := by decide
  have e2 : exTok "y" = ["a", "c"] := by decide
  rw [e1, e2]
  have h1 : sameSet ["a", "b"] ["a", "c"] = false := by decide
  have h2 : interCount ["a", "b"] ["a", "c"] = 1 := by decide
  unfold simSet
  rw [h1]
  simp only [Bool.false_eq_true, if_false, List.length_cons, List.length_nil]
  rw [h2]
  have := simFormula_eq .jaccard (Or.inl rfl) 2 2 1 (by norm_num) (by norm_num) (by norm_num) (by norm_num) (by norm_num)
  simp only [simF] at this
  norm_num at this ⊢
  exact this

theorem ex_reach : (1 / 4 : Rat) ≤ rn (1 / 3) := by
  have := rn_lb (q := (1 / 3 : Rat)) (by norm_num)
  linarith

end Ex

/-! ## 11. EDIT_DISTANCE (bags of q-grams) -/

/-- number of q-grams of a string -/
theorem qgrams_length (q : Nat) (pad : Bool) (s : String) :
    (qgrams q pad s).length = if q = 0 then 0 else if pad then s.length + q - 1 else s.length + 1 - q := by
  by_cases hq : q = 0
  · subst hq; simp [qgrams, qgramsChars]
  · rw [if_neg hq]
    cases pad
    · unfold qgrams qgramsChars
      simp only [List.length_map, Bool.false_eq_true, if_false]
      rw [if_neg hq, EntryED.windows_length (by omega), String.length_toList]
    · rw [if_pos rfl]; exact EntryED.qgrams_padded_length q (by omega) s

/-- the q-gram counts of two strings differ by at most their edit distance -/
theorem qgrams_count_diff (q : Nat) (pad : Bool) (s t : String) :
    ((qgrams q pad s).length : Int) - (qgrams q pad t).length ≤ lev s t ∧
    ((qgrams q pad t).length : Int) - (qgrams q pad s).length ≤ lev s t := by
  obtain ⟨h1, h2⟩ := lev_length_diff s t
  rw [qgrams_length, qgrams_length]
  split_ifs <;> omega

/-- the configuration of a filter under EDIT_DISTANCE: int threshold `tau`, q-gram size `q` -/
abbrev edCfg (tau q : Int) : FCfg := { measure := .editDistance, threshold := .int tau, qval := .int q }

/-- C04, SizeFilter.filter_pair under EDIT_DISTANCE: strings within distance `tau` are kept (q-gram tokenizer, padded or
    not, any `q`) -/
theorem sizeFilterPair_safe_ed (f : FilterObj) (tau : Int) (hm : f.cfg.measure = .editDistance)
    (ht : f.cfg.threshold = .int tau) (q : Nat) (pad : Bool) (l r : Cell)
    (hl : l.isMissing = false) (hr : r.isMissing = false) (hd : (lev l.strVal r.strVal : Int) ≤ tau) :
    filterPair .size f (qgrams q pad) l r = false := by
  by_cases hne : (qgrams q pad l.strVal).length = 0 ∧ (qgrams q pad r.strVal).length = 0
  · rw [show filterPair .size f (qgrams q pad) l r = sizeFilterPair f (qgrams q pad) l r from rfl,
      sizeFilterPair_empty f _ l r hl hr (List.length_eq_zero_iff.1 hne.1) (List.length_eq_zero_iff.1 hne.2)]
    unfold emptyPairDropped; rw [hm]
  · obtain ⟨h1, h2⟩ := qgrams_count_diff q pad l.strVal r.strVal
    refine sizeFilterPair_safe f _ l r hl hr hne ?_ ?_
    · rw [lower_ed f.cfg tau hm ht]; omega
    · rw [upper_ed f.cfg tau hm ht]; omega

theorem interCount_pos_of_common {α : Type} [DecidableEq α] (a b : List α) (g : α) (h1 : g ∈ a) (h2 : g ∈ b) :
    1 ≤ interCount a b := by
  unfold interCount
  exact List.length_pos_of_mem (List.mem_filter.2 ⟨(mem_dedup a g).2 h1, by simpa using h2⟩)

theorem shareToken_iff (tok : String → List Tok) (s t : String) :
    shareToken tok s t = true ↔ ∃ g, g ∈ tok s ∧ g ∈ tok t := by
  unfold shareToken
  rw [List.any_eq_true]
  constructor
  · rintro ⟨g, h1, h2⟩; exact ⟨g, h1, by simpa using h2⟩
  · rintro ⟨g, h1, h2⟩; exact ⟨g, h1, by simpa using h2⟩

/-- the bag version of the prefix-filter principle under any injective ordering which knows all tokens -/
theorem bag_prefix_orderUsing (o : List (Tok × Nat))
    (hinj : ∀ t1 t2 r, Dict.get? o t1 = some r → Dict.get? o t2 = some r → t1 = t2) (a b : List Tok)
    (ha : ∀ t ∈ a, (Dict.get? o t).isSome) (hb : ∀ t ∈ b, (Dict.get? o t).isSome) (k : Nat)
    (h1 : (a.diff b).length ≤ k) (h2 : (b.diff a).length ≤ k) (hc : ∃ g, g ∈ a ∧ g ∈ b) :
    ∃ v, v ∈ (orderUsing a o).take (k + 1) ∧ v ∈ (orderUsing b o).take (k + 1) := by
  apply bag_prefix _ _ (orderUsing_sorted _ _) (orderUsing_sorted _ _)
  · rw [orderUsing_diff_length _ hinj _ _ ha hb]; exact h1
  · rw [orderUsing_diff_length _ hinj _ _ hb ha]; exact h2
  · obtain ⟨g, hg1, hg2⟩ := hc
    obtain ⟨r, hr⟩ := Option.isSome_iff_exists.1 (ha g hg1)
    exact ⟨r, (mem_orderUsing _ _ _).2 ⟨g, hg1, hr⟩, (mem_orderUsing _ _ _).2 ⟨g, hg2, hr⟩⟩

/-- `q · lev ≤ q·τ` in the form the prefix lengths need -/
theorem qlev_le (q : Nat) (tau : Int) (n : Nat) (h : (n : Int) ≤ tau) : q * n ≤ ((q : Int) * tau).toNat := by
  have htau : 0 ≤ tau := le_trans (Int.natCast_nonneg n) h
  obtain ⟨tn, rfl⟩ := Int.eq_ofNat_of_zero_le htau
  have h1 : n ≤ tn := by exact_mod_cast h
  rw [← Int.natCast_mul, Int.toNat_natCast]
  exact Nat.mul_le_mul_left _ h1

/-- the prefix of an ordered bag under EDIT_DISTANCE, in terms of the length of the unordered bag -/
theorem pyTake_prefixLen_ed' (tau : Int) (q : Nat) (htau : 0 ≤ tau) (o : List (Tok × Nat)) (a : List Tok)
    (ha : ∀ t ∈ a, (Dict.get? o t).isSome) :
    pyTake (orderUsing a o) ((edCfg tau q).prefixLen a.length) = (orderUsing a o).take (((q : Int) * tau).toNat + 1) := by
  have := pyTake_prefixLen_ed tau q (Int.mul_nonneg (Int.natCast_nonneg q) htau) (orderUsing a o)
  rw [orderUsing_length a o ha] at this
  exact this

/-- C04, PrefixFilter.filter_pair under EDIT_DISTANCE: strings within distance `tau` sharing a q-gram are kept -/
theorem prefixFilterPair_safe_ed (f : FilterObj) (tau : Int) (q : Nat) (hf : f.cfg = edCfg tau q) (pad : Bool)
    (l r : Cell) (hl : l.isMissing = false) (hr : r.isMissing = false)
    (hd : (lev l.strVal r.strVal : Int) ≤ tau)
    (hshare : shareToken (qgrams q pad) l.strVal r.strVal = true) :
    filterPair .prefix f (qgrams q pad) l r = false := by
  have htau : 0 ≤ tau := le_trans (Int.natCast_nonneg _) hd
  obtain ⟨g, hg1, hg2⟩ := (shareToken_iff _ _ _).1 hshare
  have hn1 : (qgrams q pad l.strVal).length ≠ 0 := fun h => by
    rw [List.length_eq_zero_iff.1 h] at hg1; simp at hg1
  have hn2 : (qgrams q pad r.strVal).length ≠ 0 := fun h => by
    rw [List.length_eq_zero_iff.1 h] at hg2; simp at hg2
  have hqt : 0 ≤ (q : Int) * tau := Int.mul_nonneg (Int.natCast_nonneg q) htau
  show prefixFilterPair f (qgrams q pad) l r = false
  unfold prefixFilterPair
  simp only [hl, hr, Bool.or_self, Bool.false_eq_true, if_false]
  rw [if_neg (by simp only [Bool.and_eq_true, decide_eq_true_eq]; exact fun h => hn1 h.1)]
  have hs1 := genTokenOrdering_isSome [qgrams q pad l.strVal, qgrams q pad r.strVal] _ (by simp : qgrams q pad l.strVal ∈ _)
  have hs2 := genTokenOrdering_isSome [qgrams q pad l.strVal, qgrams q pad r.strVal] _ (by simp : qgrams q pad r.strVal ∈ _)
  have hp1 : 0 < f.cfg.prefixLen (qgrams q pad l.strVal).length := by
    rw [hf, prefixLen_ed, if_neg hn1]; omega
  have hp2 : 0 < f.cfg.prefixLen (qgrams q pad r.strVal).length := by
    rw [hf, prefixLen_ed, if_neg hn2]; omega
  rw [if_neg (by simp only [Bool.or_eq_true, decide_eq_true_eq]; omega), if_pos]
  rw [hf, pyTake_prefixLen_ed' tau q htau _ _ hs1, pyTake_prefixLen_ed' tau q htau _ _ hs2]
  obtain ⟨v, hv1, hv2⟩ := bag_prefix_orderUsing _ (genTokenOrdering_inj _) _ _ hs1 hs2 (((q : Int) * tau).toNat)
    (le_trans (qgrams_diff_le q pad _ _) (qlev_le q tau _ hd))
    (le_trans (qgrams_diff_le' q pad _ _) (qlev_le q tau _ hd)) ⟨g, hg1, hg2⟩
  exact List.any_eq_true.2 ⟨v, hv1, by simpa using hv2⟩


/-- PrefixFilter._filter_tables_split under EDIT_DISTANCE emits every pair of rows whose token bags lose at most `q·τ`
    tokens against each other and share a token -/
theorem emits_prefix_ed (f : FilterObj) (tau : Int) (q : Nat) (htau : 0 ≤ tau) (hf : f.cfg = edCfg tau q)
    (tok : String → List Tok) (lAttr rAttr : Nat) (lt rt : List Row) (x y : Row) (hx : x ∈ lt) (hy : y ∈ rt)
    (h1 : ((tok (x.cell lAttr).strVal).diff (tok (y.cell rAttr).strVal)).length ≤ ((q : Int) * tau).toNat)
    (h2 : ((tok (y.cell rAttr).strVal).diff (tok (x.cell lAttr).strVal)).length ≤ ((q : Int) * tau).toNat)
    (hc : ∃ g, g ∈ tok (x.cell lAttr).strVal ∧ g ∈ tok (y.cell rAttr).strVal) :
    Emits f tok lAttr rAttr lt rt .prefix x y := by
  obtain ⟨c, hc', rfl⟩ := exists_index lt x hx
  obtain ⟨d, hd, rfl⟩ := exists_index rt y hy
  refine ⟨c, d, ?_, rfl, rfl⟩
  have hqt : 0 ≤ (q : Int) * tau := Int.mul_nonneg (Int.natCast_nonneg q) htau
  have hhe : handleEmpty f = false := handleEmpty_ed f (by rw [hf])
  unfold prefixPairs
  rw [mem_idPairs, mem_prefixCands_nonempty f tok lAttr rAttr lt rt d hd (fun h => by rw [hhe] at h; cases h.1)]
  refine ⟨hd, hc', ?_⟩
  have e : f.cfg = (edFilter tau q).cfg := hf
  rw [e, pyTake_prefixLen_ed tau q hqt, pyTake_prefixLen_ed tau q hqt]
  obtain ⟨g, hg1, hg2⟩ := hc
  obtain ⟨v, hv1, hv2⟩ := bag_prefix_orderUsing (tableOrdering tok lAttr rAttr lt rt) (genTokenOrdering_inj _)
    (rowToks tok lAttr lt c) (rowToks tok rAttr rt d)
    (genTokenOrdering_isSome _ _ (rowToks_mem_left tok lAttr rAttr lt rt c hc'))
    (genTokenOrdering_isSome _ _ (rowToks_mem_right tok lAttr rAttr lt rt d hd))
    (((q : Int) * tau).toNat) h1 h2 ⟨g, hg1, hg2⟩
  exact ⟨v, hv2, hv1⟩

section TablesED
variable (f : FilterObj) (a : TableArgs) (t : TokObj) (toks : TokFn) (cpu : Int) (l r fr : Frame)

/-- C04, SizeFilter.filter_tables under EDIT_DISTANCE -/
theorem filterTables_size_safe_ed (tau : Int) (hm : f.cfg.measure = .editDistance) (ht : f.cfg.threshold = .int tau)
    (q : Nat) (pad : Bool) (htok : ∀ s, toks t.returnSet s = qgrams q pad s)
    (hv : validateTablesAttrs a = .ok (l, r)) (hk : validateOutAndKeys a l r = .ok ())
    (hrows : r.rows.length < 2 ^ 40) (hres : filterTables .size f a t toks cpu = .ok fr)
    (ls rs : Row) (hls : ls ∈ l.rows) (hrs : rs ∈ r.rows)
    (hlp : Present l a.lAttr ls) (hrp : Present r a.rAttr rs)
    (hd : (lev (strOf l a.lAttr ls) (strOf r a.rAttr rs) : Int) ≤ tau)
    (hA : qgrams q pad (strOf l a.lAttr ls) ≠ []) :
    ∃ row ∈ fr.rows, rowKeys row = (keyOf l a.lKey ls, keyOf r a.rKey rs) := by
  rw [filterTables_size_iff f a t toks cpu l r fr hv hk hrows hres ls rs hls hrs hlp hrp]
  have eA : tokensOf (toks t.returnSet) l a.lAttr ls = qgrams q pad (strOf l a.lAttr ls) := htok _
  have eB : tokensOf (toks t.returnSet) r a.rAttr rs = qgrams q pad (strOf r a.rAttr rs) := htok _
  rw [eA, eB]
  obtain ⟨h1, h2⟩ := qgrams_count_diff q pad (strOf l a.lAttr ls) (strOf r a.rAttr rs)
  have htau : 0 ≤ tau := le_trans (Int.natCast_nonneg _) hd
  refine Or.inr ⟨fun h => hA (List.length_eq_zero_iff.1 h), fun h => ?_, ?_, ?_, ?_⟩
  · rw [handleEmpty_ed f hm] at h; cases h.1
  · rw [lower_ed f.cfg tau hm ht]; omega
  · rw [lower_ed f.cfg tau hm ht]; omega
  · rw [upper_ed f.cfg tau hm ht]; omega

/-- C04, PrefixFilter.filter_tables under EDIT_DISTANCE -/
theorem filterTables_prefix_safe_ed (tau : Int) (q : Nat) (hf : f.cfg = edCfg tau q)
    (pad : Bool) (htok : ∀ s, toks t.returnSet s = qgrams q pad s)
    (hv : validateTablesAttrs a = .ok (l, r)) (hk : validateOutAndKeys a l r = .ok ())
    (hrows : r.rows.length < 2 ^ 40) (hres : filterTables .prefix f a t toks cpu = .ok fr)
    (ls rs : Row) (hls : ls ∈ l.rows) (hrs : rs ∈ r.rows)
    (hlp : Present l a.lAttr ls) (hrp : Present r a.rAttr rs)
    (hd : (lev (strOf l a.lAttr ls) (strOf r a.rAttr rs) : Int) ≤ tau)
    (hshare : shareToken (qgrams q pad) (strOf l a.lAttr ls) (strOf r a.rAttr rs) = true) :
    ∃ row ∈ fr.rows, rowKeys row = (keyOf l a.lKey ls, keyOf r a.rKey rs) := by
  rw [mem_filterTables_iff .prefix f a t toks cpu l r fr hv hk hrows hres ls rs hls hrs hlp hrp]
  obtain ⟨ch, hch, hy⟩ := rRow_mem_chunk a cpu r hrows rs hrs hrp
  have htau : 0 ≤ tau := le_trans (Int.natCast_nonneg _) hd
  have eA : toks t.returnSet ((RT.lRow a l ls).cell (RT.lAttrIdx a)).strVal = qgrams q pad (strOf l a.lAttr ls) := by
    rw [lRow_tokens a l (toks t.returnSet)]; exact htok _
  have eB : toks t.returnSet ((RT.rRow a r rs).cell (RT.rAttrIdx a)).strVal = qgrams q pad (strOf r a.rAttr rs) := by
    rw [rRow_tokens a r (toks t.returnSet)]; exact htok _
  refine ⟨ch, hch, emits_prefix_ed f tau q htau hf _ _ _ _ _ _ _ (lRow_mem a l ls hls hlp) hy ?_ ?_ ?_⟩
  · rw [eA, eB]; exact le_trans (qgrams_diff_le q pad _ _) (qlev_le q tau _ hd)
  · rw [eA, eB]; exact le_trans (qgrams_diff_le' q pad _ _) (qlev_le q tau _ hd)
  · rw [eA, eB]; exact (shareToken_iff _ _ _).1 hshare

end TablesED


/-! ### PositionFilter.filter_pair on bags -/

theorem length_add_diff (x y : List Nat) : x.length + (y.diff x).length = y.length + (x.diff y).length := by
  induction x generalizing y with
  | nil => simp
  | cons a x ih =>
    rw [List.diff_cons, List.cons_diff]
    by_cases ha : a ∈ y
    · rw [if_pos ha]
      have := ih (y.erase a)
      have hl := List.length_erase_of_mem ha
      have hpos : 0 < y.length := List.length_pos_of_mem ha
      simp only [List.length_cons]
      omega
    · rw [if_neg ha, List.erase_of_not_mem ha]
      have := ih y
      simp only [List.length_cons]
      omega

theorem length_filter_not_mem_le_diff (y x : List Nat) :
    (y.filter (fun u => decide (u ∉ x))).length ≤ (y.diff x).length := by
  induction x generalizing y with
  | nil => simp
  | cons a x ih =>
    rw [List.diff_cons]
    refine le_trans ?_ (ih (y.erase a))
    by_cases ha : a ∈ y
    · obtain ⟨l1, l2, -, hy, he⟩ := List.exists_erase_eq ha
      rw [he, hy]
      simp only [List.filter_append, List.filter_cons, List.mem_cons, true_or, not_true_eq_false, decide_false,
        Bool.false_eq_true, if_false, List.length_append]
      have m1 := (List.monotone_filter_right l1 (p := fun u => decide (u ∉ a :: x)) (q := fun u => decide (u ∉ x))
        (by intro u hu; simp only [decide_eq_true_eq, List.mem_cons, not_or] at hu ⊢; exact hu.2)).length_le
      have m2 := (List.monotone_filter_right l2 (p := fun u => decide (u ∉ a :: x)) (q := fun u => decide (u ∉ x))
        (by intro u hu; simp only [decide_eq_true_eq, List.mem_cons, not_or] at hu ⊢; exact hu.2)).length_le
      simp only [List.mem_cons] at m1 m2
      omega
    · rw [List.erase_of_not_mem ha]
      exact (List.monotone_filter_right y (p := fun u => decide (u ∉ a :: x)) (q := fun u => decide (u ∉ x))
        (by intro u hu; simp only [decide_eq_true_eq, List.mem_cons, not_or] at hu ⊢; exact hu.2)).length_le

/-- the positional bound at a match, for sorted BAGS which lose at most `K` elements against each other -/
theorem pp_bound_bag (x y : List Nat) (hx : x.Pairwise (· ≤ ·)) (hy : y.Pairwise (· ≤ ·))
    (p q' : Nat) (y0 : List Nat) (t : Nat) (ys : List Nat) (hyp : y.take q' = y0 ++ t :: ys)
    (ht : t ∈ x.take p) (K : Nat) (hxy : (x.diff y).length ≤ K) (hyx : (y.diff x).length ≤ K) :
    max (x.length : Int) y.length - K ≤ ((y0.filter (fun u => decide (u ∈ x.take p))).length : Int) + 1 +
        min ((x.length : Int) - 1) ((y.length : Int) - y0.length - 1) := by
  have ey : y = y0 ++ t :: (ys ++ y.drop q') := by
    conv_lhs => rw [← List.take_append_drop q' y, hyp]
    simp
  have hA : ∀ u ∈ y0, u ∉ x.take p → u ∉ x := by
    intro u hu hnp hux
    have h1 : u ≤ t := by
      rw [ey] at hy
      exact (List.pairwise_append.1 hy).2.2 u hu t (by simp)
    have hxd : u ∈ x.drop p := by
      have : u ∈ x.take p ++ x.drop p := by rw [List.take_append_drop]; exact hux
      rcases List.mem_append.1 this with h | h
      · exact absurd h hnp
      · exact h
    have h2 : t ≤ u := by
      have hx' := hx
      rw [← List.take_append_drop p x] at hx'
      exact (List.pairwise_append.1 hx').2.2 t ht u hxd
    have : u = t := le_antisymm h1 h2
    exact hnp (this ▸ ht)
  have hpart := List.length_eq_length_filter_add (l := y0) (fun u => decide (u ∈ x.take p))
  have hN : (y0.filter (fun u => !decide (u ∈ x.take p))).length ≤ (y.diff x).length := by
    refine le_trans ?_ (length_filter_not_mem_le_diff y x)
    have e : y0.filter (fun u => !decide (u ∈ x.take p)) = y0.filter (fun u => decide (u ∉ x)) := by
      apply List.filter_congr
      intro u hu
      by_cases h : u ∈ x.take p
      · have : u ∈ x := List.mem_of_mem_take h
        simp [h, this]
      · have := hA u hu h
        simp [h, this]
    rw [e]
    have hsub : List.Sublist y0 y := by
      conv_rhs => rw [ey]
      exact List.sublist_append_left _ _
    exact (hsub.filter _).length_le
  have hC := length_add_diff x y
  have hlen : y0.length + 1 ≤ y.length := by
    have : (y.take q').length ≤ y.length := by rw [List.length_take]; omega
    rw [hyp] at this
    simp only [List.length_append, List.length_cons] at this
    omega
  omega


/-- C04, PositionFilter.filter_pair under EDIT_DISTANCE (bags of q-grams): strings within distance `tau` sharing a
    q-gram are kept -/
theorem positionFilterPair_safe_ed (f : FilterObj) (tau : Int) (q : Nat) (hf : f.cfg = edCfg tau q) (pad : Bool)
    (l r : Cell) (hl : l.isMissing = false) (hr : r.isMissing = false)
    (hd : (lev l.strVal r.strVal : Int) ≤ tau)
    (hshare : shareToken (qgrams q pad) l.strVal r.strVal = true) :
    filterPair .position f (qgrams q pad) l r = false := by
  have htau : 0 ≤ tau := le_trans (Int.natCast_nonneg _) hd
  obtain ⟨g, hg1, hg2⟩ := (shareToken_iff _ _ _).1 hshare
  have hd1 := le_trans (qgrams_diff_le q pad l.strVal r.strVal) (qlev_le q tau _ hd)
  have hd2 := le_trans (qgrams_diff_le' q pad l.strVal r.strVal) (qlev_le q tau _ hd)
  show positionFilterPair f (qgrams q pad) l r = false
  rw [positionFilterPair_eq]
  simp only [hl, hr, Bool.or_self, Bool.false_eq_true, if_false]
  generalize qgrams q pad l.strVal = a at *
  generalize qgrams q pad r.strVal = b at *
  have hn1 : a.length ≠ 0 := fun h => by
    rw [List.length_eq_zero_iff.1 h] at hg1; simp at hg1
  have hn2 : b.length ≠ 0 := fun h => by
    rw [List.length_eq_zero_iff.1 h] at hg2; simp at hg2
  have hqt : 0 ≤ (q : Int) * tau := Int.mul_nonneg (Int.natCast_nonneg q) htau
  have hK : ((((q : Int) * tau).toNat : Nat) : Int) = (q : Int) * tau := Int.toNat_of_nonneg hqt
  have hs1 := genTokenOrdering_isSome [a, b] a (by simp)
  have hs2 := genTokenOrdering_isSome [a, b] b (by simp)
  have hxl := orderUsing_length a _ hs1
  have hyl := orderUsing_length b _ hs2
  have hp1 : 0 < f.cfg.prefixLen a.length := by
    rw [hf, prefixLen_ed, if_neg hn1]; omega
  have hp2 : 0 < f.cfg.prefixLen b.length := by
    rw [hf, prefixLen_ed, if_neg hn2]; omega
  rw [if_neg (by simp only [Bool.and_eq_true, decide_eq_true_eq]; exact fun h => hn1 h.1),
    if_neg (by simp only [Bool.or_eq_true, decide_eq_true_eq]; omega)]
  have e1 : pyTake (orderUsing a (genTokenOrdering [a, b])) (f.cfg.prefixLen a.length) =
      (orderUsing a (genTokenOrdering [a, b])).take (((q : Int) * tau).toNat + 1) := by
    rw [hf]; exact pyTake_prefixLen_ed' tau q htau _ _ hs1
  have e2 : pyTake (orderUsing b (genTokenOrdering [a, b])) (f.cfg.prefixLen b.length) =
      (orderUsing b (genTokenOrdering [a, b])).take (((q : Int) * tau).toNat + 1) := by
    rw [hf]; exact pyTake_prefixLen_ed' tau q htau _ _ hs2
  have hthr : f.cfg.ovThr a.length b.length = max (a.length : Int) b.length - (((q : Int) * tau).toNat : Nat) := by
    rw [hK, hf]; exact ovThr_ed _ tau q rfl rfl rfl _ _
  rw [e1, e2, hthr]
  have hinj : ∀ t1 t2 r, Dict.get? (genTokenOrdering [a, b]) t1 = some r →
      Dict.get? (genTokenOrdering [a, b]) t2 = some r → t1 = t2 := genTokenOrdering_inj _
  have hscan := ppScan ((orderUsing a (genTokenOrdering [a, b])).take (((q : Int) * tau).toNat + 1))
    ((orderUsing b (genTokenOrdering [a, b])).take (((q : Int) * tau).toNat + 1))
    a.length b.length (max (a.length : Int) b.length - (((q : Int) * tau).toNat : Nat))
    (by
      intro y0 u ys hyp hu
      have := pp_bound_bag _ _ (orderUsing_sorted a _) (orderUsing_sorted b _) _ _ y0 u ys hyp hu
        (((q : Int) * tau).toNat)
        (by rw [orderUsing_diff_length _ hinj _ _ hs1 hs2]; exact hd1)
        (by rw [orderUsing_diff_length _ hinj _ _ hs2 hs1]; exact hd2)
      rw [hxl, hyl] at this
      exact this)
    ((orderUsing b (genTokenOrdering [a, b])).take (((q : Int) * tau).toNat + 1)) [] rfl
  simp only [List.filter_nil, List.length_nil, Nat.cast_zero] at hscan
  rw [hscan]
  obtain ⟨v, hv1, hv2⟩ := bag_prefix_orderUsing _ hinj a b hs1 hs2 (((q : Int) * tau).toNat) hd1 hd2 ⟨g, hg1, hg2⟩
  have hpos : 1 ≤ (((orderUsing b (genTokenOrdering [a, b])).take (((q : Int) * tau).toNat + 1)).filter
      (fun u => decide (u ∈ (orderUsing a (genTokenOrdering [a, b])).take (((q : Int) * tau).toNat + 1)))).length :=
    List.length_pos_of_mem (List.mem_filter.2 ⟨hv2, by simpa using hv1⟩)
  simp only [Bool.false_eq_true, if_false]
  rw [if_pos (by omega)]


/-! ## 12. `filter_candset` -/

theorem candLabelled_length (c : Frame) : (candLabelled c).length = c.rows.length := by
  rw [← candLabelled_map_fst c, List.length_map]

/-- the arguments of a `filter_candset` call are valid: candidate set and tables are given, the key / join
    attributes exist, the join attributes have string dtype, the key attributes are keys (unique, no missing value),
    the candidate set has fewer than 2⁴⁰ rows, and every candidate row references rows that exist in the two tables
    (otherwise the real code raises KeyError) -/
structure CandsetValid (a : CandsetArgs) (c l r : Frame) : Prop where
  candset : a.candset = some c
  ltable : a.ltable = some l
  rtable : a.rtable = some r
  candLKey : validateAttr a.candLKey c = .ok ()
  candRKey : validateAttr a.candRKey c = .ok ()
  lKey : validateAttr a.lKey l = .ok ()
  rKey : validateAttr a.rKey r = .ok ()
  lAttr : validateAttr a.lAttr l = .ok ()
  rAttr : validateAttr a.rAttr r = .ok ()
  lType : validateAttrType a.lAttr l = .ok ()
  rType : validateAttrType a.rAttr r = .ok ()
  lKeyUnique : validateKeyAttr a.lKey l = .ok ()
  rKeyUnique : validateKeyAttr a.rKey r = .ok ()
  rows : c.rows.length < 2 ^ 40
  refs : ∀ cr ∈ c.rows,
    (∃ lrow ∈ l.rows, keyOf l a.lKey lrow = cr.cell (c.colIdx a.candLKey)) ∧
    (∃ rrow ∈ r.rows, keyOf r a.rKey rrow = cr.cell (c.colIdx a.candRKey))

open Classical in
/-- `filter_candset` with valid arguments on a candidate set all of whose key pairs occur in the tables (otherwise
    the real code raises KeyError) returns a frame which keeps a candidate row iff `filter_pair` does not drop the
    pair of join values of the two rows it references -/
theorem filterCandset_keeps (a : CandsetArgs) (fp : Cell → Cell → Except PyErr Bool) (fpb : Cell → Cell → Bool)
    (cpu : Int) (c l r : Frame) (hval : CandsetValid a c l r)
    (hfp : ∀ ls ∈ l.rows, ∀ rs ∈ r.rows,
      fp (valOf l a.lAttr ls) (valOf r a.rAttr rs) = .ok (fpb (valOf l a.lAttr ls) (valOf r a.rAttr rs))) :
    ∃ fr, filterCandset a fp cpu = .ok fr ∧ fr.columns = c.columns ∧
      ∀ cr ∈ c.rows, ∀ ls ∈ l.rows, ∀ rs ∈ r.rows,
        keyOf l a.lKey ls = cr.cell (c.colIdx a.candLKey) → keyOf r a.rKey rs = cr.cell (c.colIdx a.candRKey) →
        (cr ∈ fr.rows ↔ fpb (valOf l a.lAttr ls) (valOf r a.rAttr rs) = false) := by
  obtain ⟨hc, hlt, hrt, hv1, hv2, hv3, hv4, hv5, hv6, hv7, hv8, hv9, hv10, hclen, href⟩ := hval
  -- the join values of the rows a candidate row references
  let lval : Row → Cell := fun cr =>
    if h : ∃ lrow ∈ l.rows, keyOf l a.lKey lrow = cr.cell (c.colIdx a.candLKey) then valOf l a.lAttr (choose h)
    else .missing
  let rval : Row → Cell := fun cr =>
    if h : ∃ rrow ∈ r.rows, keyOf r a.rKey rrow = cr.cell (c.colIdx a.candRKey) then valOf r a.rAttr (choose h)
    else .missing
  have hl : ∀ cr ∈ c.rows, ∃ lrow ∈ l.rows, lrow.cell (l.colIdx a.lKey) = cr.cell (c.colIdx a.candLKey) ∧
      lrow.cell (l.colIdx a.lAttr) = lval cr := by
    intro cr hcr
    have h := (href cr hcr).1
    refine ⟨choose h, (choose_spec h).1, (choose_spec h).2, ?_⟩
    show _ = dite _ _ _
    rw [dif_pos h]; rfl
  have hr : ∀ cr ∈ c.rows, ∃ rrow ∈ r.rows, rrow.cell (r.colIdx a.rKey) = cr.cell (c.colIdx a.candRKey) ∧
      rrow.cell (r.colIdx a.rAttr) = rval cr := by
    intro cr hcr
    have h := (href cr hcr).2
    refine ⟨choose h, (choose_spec h).1, (choose_spec h).2, ?_⟩
    show _ = dite _ _ _
    rw [dif_pos h]; rfl
  have hfp' : ∀ cr ∈ c.rows, fp (lval cr) (rval cr) = .ok (fpb (lval cr) (rval cr)) := by
    intro cr hcr
    obtain ⟨l', hl', -, hv'⟩ := hl cr hcr
    obtain ⟨r', hr', -, hvr'⟩ := hr cr hcr
    rw [← hv', ← hvr']
    exact hfp l' hl' r' hr'
  obtain ⟨fr, hfr, hcols, -, hrows⟩ := filterCandset_rows a fp fpb cpu c l r hc hlt hrt hv1 hv2 hv3 hv4 hv5 hv6 hv7 hv8 hv9
    hv10 lval rval
    (fun cr hcr => by obtain ⟨x, hx, hk, hv⟩ := hl cr hcr; exact ⟨x, hx, Cell.pyEq_of_eq hk, hv⟩)
    (fun cr hcr => by obtain ⟨x, hx, hk, hv⟩ := hr cr hcr; exact ⟨x, hx, Cell.pyEq_of_eq hk, hv⟩)
    hfp' (chunksFor_flatten _ _ _ (by rw [candLabelled_length]; exact hclen))
  refine ⟨fr, hfr, hcols, ?_⟩
  intro cr hcr ls hls rs hrs hkl hkr
  obtain ⟨l', hl', hk', hv'⟩ := hl cr hcr
  obtain ⟨r', hr', hkr', hvr'⟩ := hr cr hcr
  have e1 : l' = ls := row_eq_of_key_eq a.lKey l hv9 l' ls hl' hls (by rw [hk']; exact hkl.symm)
  have e2 : r' = rs := row_eq_of_key_eq a.rKey r hv10 r' rs hr' hrs (by rw [hkr']; exact hkr.symm)
  subst e1 e2
  rw [hrows, List.mem_filter]
  have ev1 : lval cr = valOf l a.lAttr l' := hv'.symm
  have ev2 : rval cr = valOf r a.rAttr r' := hvr'.symm
  rw [ev1, ev2]
  simp [hcr]


/-! ## 13. OverlapFilter.filter_tables at entry level -/

section OverlapTables
variable (f : OverlapFilterObj) (a : TableArgs) (oss : Bool) (tok : String → List Tok) (cpu : Int) (l r fr : Frame)

def ovWork (f : OverlapFilterObj) (oss : Bool) (tok : String → List Tok) :
    OutCfg → Nat → Nat → List Row → List Row → List Row :=
  fun o lAttr rAttr lArr ch => overlapFilterTablesSplit f tok o lAttr rAttr oss lArr ch

theorem overlapFilterTables_eq (hv : validateTablesAttrs a = .ok (l, r)) (hk : validateOutAndKeys a l r = .ok ()) :
    overlapFilterTables f a oss tok cpu = runTables a l r f.allowMissing oss cpu (ovWork f oss tok) := by
  unfold overlapFilterTables
  rw [hv]
  show (validateOutAndKeys a l r >>= fun _ => _) = _
  rw [hk]
  rfl

theorem ovWork_width :
    ∀ ch, ∀ row ∈ ovWork f oss tok (RT.out a) (RT.lAttrIdx a) (RT.rAttrIdx a) (RT.lArr a l) ch,
      row.length = (RT.header a oss).length := by
  intro ch row hrow
  unfold ovWork at hrow
  rw [overlapFilterTablesSplit_eq_pairs] at hrow
  obtain ⟨p, -, rfl⟩ := List.mem_map.1 hrow
  exact RT.outputRow_append_length a oss _ _ _

/-- TOTAL: with valid table arguments `OverlapFilter.filter_tables` returns a frame -/
theorem overlapFilterTables_total (hv : validateTablesAttrs a = .ok (l, r)) (hk : validateOutAndKeys a l r = .ok ())
    (hb : BodyOK a l r oss) :
    ∃ fr, overlapFilterTables f a oss tok cpu = .ok fr := by
  rw [overlapFilterTables_eq f a oss tok cpu l r hv hk]
  obtain ⟨fr, h, _⟩ := runTables_ok a l r f.allowMissing oss cpu (ovWork f oss tok) (ovWork_width f a oss tok l)
    hb.lstr hb.rstr hb.noClash
  exact ⟨fr, h⟩

/-- EXACT: for two source rows with present join values, `OverlapFilter.filter_tables` (set tokenizer) lists the pair
    iff the two token sets have a common token and their overlap satisfies the comparison -/
theorem overlapFilterTables_iff (hnd : ∀ s, (tok s).Nodup)
    (hv : validateTablesAttrs a = .ok (l, r)) (hk : validateOutAndKeys a l r = .ok ())
    (hrows : r.rows.length < 2 ^ 40) (hres : overlapFilterTables f a oss tok cpu = .ok fr)
    (ls rs : Row) (hls : ls ∈ l.rows) (hrs : rs ∈ r.rows)
    (hlp : Present l a.lAttr ls) (hrp : Present r a.rAttr rs) :
    (∃ row ∈ fr.rows, rowKeys row = (keyOf l a.lKey ls, keyOf r a.rKey rs)) ↔
      (1 ≤ interCount (tokensOf tok l a.lAttr ls) (tokensOf tok r a.rAttr rs) ∧
       compFn f.compOp (.int (interCount (tokensOf tok l a.lAttr ls) (tokensOf tok r a.rAttr rs))) f.overlapSize = true) := by
  have hlen : (RT.rArr a r).length < 2 ^ 40 := lt_of_le_of_lt (EntryED.rArr_length_le _ _) hrows
  obtain ⟨hvl, hvr⟩ := keys_of_validateOutAndKeys a l r hk
  rw [overlapFilterTables_eq f a oss tok cpu l r hv hk] at hres
  rw [(runTables_rows a l r f.allowMissing oss cpu (ovWork f oss tok) (ovWork_width f a oss tok l) fr hres).2]
  constructor
  · rintro ⟨row, hrow, hkeys⟩
    obtain ⟨p, i, hpi, rfl⟩ := (mem_zipIdx_map_cons _ row).1 hrow
    rw [EntryED.rowKeys_cons, Prod.mk.injEq] at hkeys
    rcases List.mem_append.1 (List.mem_of_getElem? hpi) with hp | hp
    · obtain ⟨ch, hch, hp⟩ := List.mem_flatMap.1 hp
      unfold ovWork at hp
      rw [overlapFilterTablesSplit_eq_pairs] at hp
      obtain ⟨⟨c, d, k⟩, hcdk, rfl⟩ := List.mem_map.1 hp
      obtain ⟨hc, hd, hk', ho, hcmp⟩ := (overlapPairs_mem f tok hnd _ _ _ _ c d k).1 hcdk
      obtain ⟨ls', hls', hlp', hle⟩ := (RT.mem_lArr_iff a l _).1 (getD_mem' _ _ hc)
      obtain ⟨rs', hrs', hrp', hre⟩ := (RT.mem_rArr_iff a r _).1
        (RT.mem_rArr_of_mem_chunk a r cpu hlen ch hch _ (getD_mem' _ _ hd))
      dsimp only at hkeys hk' ho hcmp
      rw [hle, hre] at hkeys hk' ho
      rw [append_ite_cell _ _ _ _ (lt_of_lt_of_le (by norm_num : 0 < 2) (two_le_outputRow_length _ _ _)),
        append_ite_cell _ _ _ _ (lt_of_lt_of_le (by norm_num : 1 < 2) (two_le_outputRow_length _ _ _))] at hkeys
      have hk'' := RT.outputRow_keys a l r ls' rs' false Cell.missing
      simp only [withScore, Bool.false_eq_true, if_false] at hk''
      rw [hk''.1, hk''.2] at hkeys
      have e1 : ls' = ls := row_eq_of_key_eq a.lKey l hvl ls' ls hls' hls hkeys.1
      have e2 : rs' = rs := row_eq_of_key_eq a.rKey r hvr rs' rs hrs' hrs hkeys.2
      subst e1 e2
      rw [rRow_tokens a r tok, lRow_tokens a l tok,
        interCount_comm (tokensOf tok r a.rAttr rs') (tokensOf tok l a.lAttr ls')] at ho hk'
      subst hk'
      exact ⟨ho, hcmp⟩
    · exfalso
      split at hp
      · obtain ⟨ls', hls', rs', hrs', hmiss, rfl⟩ := (RT.mem_missingRows_iff a l r oss p).1 hp
        have hk' := RT.missingRow_keys a l r oss ls' rs'
        rw [hk'.1, hk'.2] at hkeys
        have e1 : ls' = ls := row_eq_of_key_eq a.lKey l hvl ls' ls hls' hls hkeys.1
        have e2 : rs' = rs := row_eq_of_key_eq a.rKey r hvr rs' rs hrs' hrs hkeys.2
        subst e1 e2
        unfold Present valOf at hlp hrp
        rcases hmiss with h | h
        · rw [hlp] at h; cases h
        · rw [hrp] at h; cases h
      · simp at hp
  · rintro ⟨ho, hcmp⟩
    obtain ⟨c, hc, hce⟩ := exists_index _ _ (lRow_mem a l ls hls hlp)
    obtain ⟨ch, hch, hy⟩ := rRow_mem_chunk a cpu r hrows rs hrs hrp
    obtain ⟨d, hd, hde⟩ := exists_index _ _ hy
    have hmem : (c, d, ((interCount (tokensOf tok l a.lAttr ls) (tokensOf tok r a.rAttr rs) : Nat) : Int)) ∈
        overlapPairs f tok (RT.lAttrIdx a) (RT.rAttrIdx a) (RT.lArr a l) ch := by
      rw [overlapPairs_mem f tok hnd]
      rw [hce, hde, rRow_tokens a r tok, lRow_tokens a l tok,
        interCount_comm (tokensOf tok r a.rAttr rs) (tokensOf tok l a.lAttr ls)]
      exact ⟨hc, hd, rfl, ho, hcmp⟩
    have hp : outputRow (RT.out a) (RT.lRow a l ls) (RT.rRow a r rs) ++
        (if oss then [Cell.int (interCount (tokensOf tok l a.lAttr ls) (tokensOf tok r a.rAttr rs) : Nat)] else []) ∈
        (chunksFor (RT.rArr a r) a.nJobs cpu).flatMap (fun ch =>
          ovWork f oss tok (RT.out a) (RT.lAttrIdx a) (RT.rAttrIdx a) (RT.lArr a l) ch) := by
      refine List.mem_flatMap.2 ⟨ch, hch, ?_⟩
      unfold ovWork
      rw [overlapFilterTablesSplit_eq_pairs]
      refine List.mem_map.2 ⟨_, hmem, ?_⟩
      dsimp only
      rw [hce, hde]
    obtain ⟨i, hi⟩ := List.getElem?_of_mem (List.mem_append_left _ hp)
    refine ⟨_, (mem_zipIdx_map_cons _ _).2 ⟨_, i, hi, rfl⟩, ?_⟩
    rw [EntryED.rowKeys_cons]
    rw [append_ite_cell _ _ _ _ (lt_of_lt_of_le (by norm_num : 0 < 2) (two_le_outputRow_length _ _ _)),
      append_ite_cell _ _ _ _ (lt_of_lt_of_le (by norm_num : 1 < 2) (two_le_outputRow_length _ _ _))]
    have hk' := RT.outputRow_keys a l r ls rs false Cell.missing
    simp only [withScore, Bool.false_eq_true, if_false] at hk'
    exact Prod.ext hk'.1 hk'.2

end OverlapTables


end EntryFilters
end SSJ

section AxiomCheck
open SSJ SSJ.EntryFilters
#print axioms qual_facts
#print axioms reaches_of_qualStrict
#print axioms filterPair_safe_set
#print axioms mem_filterTables_iff
#print axioms filterTables_total
#print axioms filterTables_safe_of_bounds
#print axioms filterTables_safe_set
#print axioms filterPair_safe_overlap
#print axioms filterTables_safe_overlap
#print axioms filterTables_bothEmpty_iff
#print axioms filterTables_size_iff
#print axioms filterTables_common_token
#print axioms filterTables_subset
#print axioms prefixFilterPair_common
#print axioms positionFilterPair_common
#print axioms sizeFilterPair_safe_ed
#print axioms prefixFilterPair_safe_ed
#print axioms positionFilterPair_safe_ed
#print axioms filterTables_size_safe_ed
#print axioms filterTables_prefix_safe_ed
#print axioms filterCandset_keeps
#print axioms overlapFilterTables_iff
end AxiomCheck

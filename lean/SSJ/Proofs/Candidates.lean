/-
  SSJ.Proofs.Candidates — characterisation of `find_candidates` of the Size / Prefix / Overlap filters
  against their indexes, and the prefix-filter principle.
-/
import SSJ.Model.Filters
import SSJ.Proofs.Position
import Mathlib.Data.List.Basic
import Mathlib.Data.List.Induction
import Mathlib.Data.List.Nodup
import Mathlib.Data.List.Perm.Subperm
import Mathlib.Tactic.Linarith

namespace SSJ

/-! ### `dedup` -/
section Dedup
variable {α : Type} [DecidableEq α]

def dedupStep (acc : List α) (a : α) : List α := if a ∈ acc then acc else acc ++ [a]

theorem dedup_eq_foldl (l : List α) : dedup l = l.foldl dedupStep [] := rfl

theorem mem_foldl_dedupStep (l acc : List α) (a : α) :
    a ∈ l.foldl dedupStep acc ↔ a ∈ acc ∨ a ∈ l := by
  induction l generalizing acc with
  | nil => simp
  | cons b l ih =>
    rw [List.foldl_cons, ih]
    unfold dedupStep
    by_cases h : b ∈ acc
    · simp only [h, if_true, List.mem_cons]
      constructor
      · rintro (h1 | h1)
        · exact Or.inl h1
        · exact Or.inr (Or.inr h1)
      · rintro (h1 | h1 | h1)
        · exact Or.inl h1
        · exact Or.inl (h1 ▸ h)
        · exact Or.inr h1
    · simp only [h, if_false, List.mem_append, List.mem_cons]
      tauto

theorem nodup_foldl_dedupStep (l acc : List α) (h : acc.Nodup) : (l.foldl dedupStep acc).Nodup := by
  induction l generalizing acc with
  | nil => simpa using h
  | cons b l ih =>
    rw [List.foldl_cons]
    apply ih
    unfold dedupStep
    by_cases hb : b ∈ acc
    · simpa only [hb, if_true] using h
    · simp only [hb, if_false]
      rw [List.nodup_append]
      refine ⟨h, by simp, ?_⟩
      intro a ha c hc
      rw [List.mem_singleton] at hc
      subst hc
      intro hac
      exact hb (hac ▸ ha)

theorem cnd_mem_dedup (l : List α) (a : α) : a ∈ dedup l ↔ a ∈ l := by
  rw [dedup_eq_foldl, mem_foldl_dedupStep]; simp

theorem cnd_dedup_nodup (l : List α) : (dedup l).Nodup := by
  rw [dedup_eq_foldl]; exact nodup_foldl_dedupStep l [] List.nodup_nil

theorem foldl_dedupStep_of_nodup (l acc : List α) (hl : l.Nodup) (hd : ∀ a ∈ l, a ∉ acc) :
    l.foldl dedupStep acc = acc ++ l := by
  induction l generalizing acc with
  | nil => simp
  | cons b l ih =>
    rw [List.foldl_cons]
    have hb : b ∉ acc := hd b (List.mem_cons_self)
    have : dedupStep acc b = acc ++ [b] := by unfold dedupStep; simp only [hb, if_false]
    rw [this, ih _ (List.nodup_cons.1 hl).2]
    · simp
    · intro a ha
      rw [List.mem_append, List.mem_singleton]
      rintro (h | h)
      · exact hd a (List.mem_cons_of_mem _ ha) h
      · subst h; exact (List.nodup_cons.1 hl).1 ha

theorem dedup_of_nodup (l : List α) (hl : l.Nodup) : dedup l = l := by
  rw [dedup_eq_foldl, foldl_dedupStep_of_nodup l [] hl (by simp)]; simp

end Dedup

/-! ### PREFIX-FILTER PRINCIPLE -/

-- `commonCount` is `SSJ.commonCount` (SSJ/Proofs/Position.lean)

/-- position lemma: in a strictly sorted list `x`, if `w ∈ x` and `c` is a duplicate-free list of
elements of `x` all `> w`, then `w` sits at an index `≤ |x| - 1 - |c|`. -/
theorem mem_take_of_larger (x : List Nat) (hx : x.Pairwise (· < ·)) (w : Nat) (hw : w ∈ x)
    (c : List Nat) (hc : c.Nodup) (hcx : ∀ v ∈ c, v ∈ x ∧ w < v) :
    w ∈ x.take (x.length - c.length) := by
  obtain ⟨l1, l2, rfl⟩ := List.append_of_mem hw
  have hsub : c ⊆ l2 := by
    intro v hv
    obtain ⟨hvx, hwv⟩ := hcx v hv
    rcases List.mem_append.1 hvx with h | h
    · have := (List.pairwise_append.1 hx).2.2 v h w (by simp)
      omega
    · rcases List.mem_cons.1 h with h | h
      · omega
      · exact h
  have hlen : c.length ≤ l2.length := (List.subperm_of_subset hc hsub).length_le
  rw [List.take_append]
  simp only [List.length_append, List.length_cons]
  apply List.mem_append_right
  have : l1.length + (l2.length + 1) - c.length - l1.length = (l2.length - c.length) + 1 := by omega
  rw [this, List.take_succ_cons]
  simp

/-- PREFIX-FILTER PRINCIPLE (sets): two strictly sorted lists with at least `o ≥ 1` common elements share an element
    inside their prefixes of lengths `|x|-o+1` and `|y|-o+1` (or longer). -/
theorem prefix_principle (x y : List Nat) (hx : x.Pairwise (· < ·)) (hy : y.Pairwise (· < ·))
    (o : Nat) (ho1 : 1 ≤ o) (ho : o ≤ commonCount x y) (px py : Nat)
    (hpx : x.length - o + 1 ≤ px) (hpy : y.length - o + 1 ≤ py) :
    ∃ t, t ∈ x.take px ∧ t ∈ y.take py := by
  unfold commonCount at ho
  have hCsub : (x.filter (fun t => decide (t ∈ y))).Sublist x := List.filter_sublist
  have hCsorted : (x.filter (fun t => decide (t ∈ y))).Pairwise (· < ·) := hx.sublist hCsub
  have hCmem : ∀ v ∈ x.filter (fun t => decide (t ∈ y)), v ∈ x ∧ v ∈ y := by
    intro v hv
    simpa using List.mem_filter.1 hv
  generalize x.filter (fun t => decide (t ∈ y)) = C at ho hCsub hCsorted hCmem
  match C, ho, hCsub, hCsorted, hCmem with
  | [], ho, _, _, _ => simp at ho; omega
  | w :: c, ho, hCsub, hCsorted, hCmem =>
    have hwc := List.pairwise_cons.1 hCsorted
    have hcnd : c.Nodup := hwc.2.imp (fun h => Nat.ne_of_lt h)
    have hwx := (hCmem w List.mem_cons_self).1
    have hwy := (hCmem w List.mem_cons_self).2
    have h1 := mem_take_of_larger x hx w hwx c hcnd
      (fun v hv => ⟨(hCmem v (List.mem_cons_of_mem _ hv)).1, hwc.1 v hv⟩)
    have h2 := mem_take_of_larger y hy w hwy c hcnd
      (fun v hv => ⟨(hCmem v (List.mem_cons_of_mem _ hv)).2, hwc.1 v hv⟩)
    have hlx : (w :: c).length ≤ x.length := hCsub.length_le
    have hly : (w :: c).length ≤ y.length :=
      (List.subperm_of_subset (hCsorted.imp (fun h => Nat.ne_of_lt h))
        (fun v hv => (hCmem v hv).2)).length_le
    simp only [List.length_cons] at ho hlx hly
    refine ⟨w, List.take_subset_take_left x (by omega) h1, List.take_subset_take_left y (by omega) h2⟩

/-! ### Python dicts (association lists) -/
namespace Dict
variable {κ ν : Type} [DecidableEq κ]

theorem cnd_get?_set_self (d : List (κ × ν)) (k : κ) (v : ν) : get? (set d k v) k = some v := by
  induction d with
  | nil => simp [set, get?]
  | cons p d ih =>
    obtain ⟨k', v'⟩ := p
    by_cases h : k' = k
    · simp [set, get?, h]
    · simp [set, get?, h, ih]

theorem cnd_get?_set_other (d : List (κ × ν)) (k c : κ) (v : ν) (h : k ≠ c) :
    get? (set d k v) c = get? d c := by
  induction d with
  | nil => simp [set, get?, h]
  | cons p d ih =>
    obtain ⟨k', v'⟩ := p
    by_cases h' : k' = k
    · subst h'; simp [set, get?, h]
    · by_cases hc : k' = c
      · subst hc; simp [set, get?, h']
      · simp [set, get?, h', hc, ih]

theorem get?_set (d : List (κ × ν)) (k c : κ) (v : ν) :
    get? (set d k v) c = if k = c then some v else get? d c := by
  by_cases h : k = c
  · subst h; simp [cnd_get?_set_self]
  · simp [h, cnd_get?_set_other _ _ _ _ h]

theorem getD_set (d : List (κ × ν)) (k c : κ) (v dflt : ν) :
    getD (set d k v) c dflt = if k = c then v else getD d c dflt := by
  unfold getD; rw [get?_set]; split <;> rfl

theorem cnd_keys_set (d : List (κ × ν)) (k : κ) (v : ν) :
    (set d k v).map (·.1) = if k ∈ d.map (·.1) then d.map (·.1) else d.map (·.1) ++ [k] := by
  induction d with
  | nil => simp [set]
  | cons p d ih =>
    obtain ⟨k', v'⟩ := p
    by_cases h : k' = k
    · subst h; simp [set]
    · have h2 : ¬ k = k' := fun e => h e.symm
      simp only [set, h, if_false, List.map_cons, ih, List.mem_cons, h2, false_or]
      split <;> simp

theorem cnd_nodup_keys_set (d : List (κ × ν)) (k : κ) (v : ν) (h : (d.map (·.1)).Nodup) :
    ((set d k v).map (·.1)).Nodup := by
  rw [cnd_keys_set]
  split
  · exact h
  · rename_i hk
    rw [List.nodup_append]
    refine ⟨h, by simp, ?_⟩
    intro a ha b hb
    rw [List.mem_singleton] at hb
    subst hb
    intro e; exact hk (e ▸ ha)

theorem get?_eq_none_of_not_mem_keys (d : List (κ × ν)) (c : κ) (h : c ∉ d.map (·.1)) : get? d c = none := by
  induction d with
  | nil => rfl
  | cons p d ih =>
    obtain ⟨k', v'⟩ := p
    simp only [List.map_cons, List.mem_cons, not_or] at h
    have : ¬ k' = c := fun e => h.1 e.symm
    simp [get?, this, ih h.2]

end Dict

/-! ### posting lists: `appendAt` / `probe` -/
section Postings
variable {κ β : Type} [DecidableEq κ]

theorem cnd_probe_nil (k : κ) : probe ([] : List (κ × List β)) k = [] := rfl

theorem cnd_probe_appendAt (d : List (κ × List β)) (k c : κ) (v : β) :
    probe (appendAt d k v) c = if k = c then probe d c ++ [v] else probe d c := by
  unfold probe appendAt
  rw [Dict.getD_set]
  split
  · rename_i h; subst h; rfl
  · rfl

/-- one row: every token of `ts` gets `rid` appended to its posting list -/
theorem cnd_probe_foldl_appendAt [DecidableEq β] (ts : List κ) (rid : β) (d : List (κ × List β)) (c : κ) :
    probe (ts.foldl (fun d t => appendAt d t rid) d) c = probe d c ++ List.replicate (ts.count c) rid := by
  induction ts generalizing d with
  | nil => simp
  | cons t ts ih =>
    rw [List.foldl_cons, ih, cnd_probe_appendAt, List.count_cons]
    by_cases h : t = c
    · subst h; simp [List.replicate_succ]
    · simp [h]

/-- all rows: the posting list of `c` is, in row order, `rid` repeated as often as `c` occurs in `g row` -/
theorem probe_foldl_rows (g : List κ → List κ) (rows : List (List κ × Nat)) (d : List (κ × List Nat)) (c : κ) :
    probe (rows.foldl (fun d (p : List κ × Nat) => (g p.1).foldl (fun d t => appendAt d t p.2) d) d) c
      = probe d c ++ rows.flatMap (fun p => List.replicate ((g p.1).count c) p.2) := by
  induction rows generalizing d with
  | nil => simp
  | cons p rows ih =>
    rw [List.foldl_cons, ih, cnd_probe_foldl_appendAt, List.flatMap_cons, List.append_assoc]

theorem sum_zipIdx_ite {α : Type} (l : List α) (g : α → Nat) (c : Nat) :
    ((l.zipIdx).map (fun p => if p.2 = c then g p.1 else 0)).sum = (l[c]?.map g).getD 0 := by
  induction l using List.reverseRecOn with
  | nil => simp
  | append_singleton l a ih =>
    rw [List.zipIdx_append, List.map_append, List.sum_append, ih]
    simp only [List.zipIdx_cons, List.zipIdx_nil, List.map_cons, List.map_nil, List.sum_cons, List.sum_nil,
      Nat.zero_add, Nat.add_zero]
    by_cases h1 : c < l.length
    · rw [List.getElem?_append_left h1]
      have : ¬ l.length = c := by omega
      simp [this]
    · by_cases h2 : l.length = c
      · subst h2; simp
      · have h3 : l.length + 1 ≤ c := by omega
        rw [List.getElem?_eq_none (by omega), List.getElem?_eq_none (by simp; omega)]
        simp [h2]

/-- how often row `c` occurs in the posting list of token `t` -/
theorem count_probe_rows (g : List κ → List κ) (rows : List (List κ)) (t : κ) (c : Nat) :
    (probe (rows.zipIdx.foldl (fun d (p : List κ × Nat) => (g p.1).foldl (fun d t => appendAt d t p.2) d) []) t).count c
      = (rows[c]?.map (fun y => (g y).count t)).getD 0 := by
  rw [probe_foldl_rows, cnd_probe_nil, List.nil_append, List.count_flatMap,
    ← sum_zipIdx_ite rows (fun y => (g y).count t) c]
  congr 1
  apply List.map_congr_left
  intro p _
  simp only [Function.comp, List.count_replicate, beq_iff_eq]

theorem mem_probe_rows (g : List κ → List κ) (rows : List (List κ)) (t : κ) (c : Nat) :
    c ∈ probe (rows.zipIdx.foldl (fun d (p : List κ × Nat) => (g p.1).foldl (fun d t => appendAt d t p.2) d) []) t
      ↔ ∃ y, rows[c]? = some y ∧ t ∈ g y := by
  rw [← List.count_pos_iff, count_probe_rows]
  cases h : rows[c]? with
  | none => simp
  | some y => simp [List.count_pos_iff]

end Postings

/-! ### PrefixFilter.find_candidates -/

theorem mem_probe_prefPostings (cfg : FCfg) (ordToks : List (List Nat)) (t c : Nat) :
    c ∈ probe (prefPostings cfg ordToks) t ↔
      ∃ y, ordToks[c]? = some y ∧ t ∈ pyTake y (cfg.prefixLen y.length) :=
  mem_probe_rows (fun toks => pyTake toks (cfg.prefixLen toks.length)) ordToks t c

/-- PrefixFilter.find_candidates: exactly the rows whose indexed prefix shares a token with the probe prefix -/
theorem prefixFindCandidates_mem (f : FilterObj) (ordToks : List (List Nat)) (x : List Nat) (ce : Bool) (c : Nat) :
    c ∈ prefixFindCandidates f x (PrefIndex.build f.cfg ordToks ce) ↔
      ∃ y, ordToks[c]? = some y ∧
        ∃ t, t ∈ pyTake x (f.cfg.prefixLen x.length) ∧ t ∈ pyTake y (f.cfg.prefixLen y.length) := by
  have key : c ∈ dedup ((pyTake x (f.cfg.prefixLen x.length)).flatMap
      (fun t => probe (prefPostings f.cfg ordToks) t)) ↔
      ∃ y, ordToks[c]? = some y ∧
        ∃ t, t ∈ pyTake x (f.cfg.prefixLen x.length) ∧ t ∈ pyTake y (f.cfg.prefixLen y.length) := by
    rw [cnd_mem_dedup, List.mem_flatMap]
    constructor
    · rintro ⟨t, ht, hc⟩
      obtain ⟨y, hy, hty⟩ := (mem_probe_prefPostings _ _ _ _).1 hc
      exact ⟨y, hy, t, ht, hty⟩
    · rintro ⟨y, hy, t, ht, hty⟩
      exact ⟨t, ht, (mem_probe_prefPostings _ _ _ _).2 ⟨y, hy, hty⟩⟩
  unfold prefixFindCandidates PrefIndex.build
  simp only
  by_cases he : (prefPostings f.cfg ordToks).isEmpty = true
  · rw [if_pos he]
    rw [← key]
    have : prefPostings f.cfg ordToks = [] := List.isEmpty_iff.1 he
    rw [this, cnd_mem_dedup]
    simp [cnd_probe_nil]
  · rw [if_neg he]; exact key

theorem prefixFindCandidates_nodup (f : FilterObj) (ordToks : List (List Nat)) (x : List Nat) (ce : Bool) :
    (prefixFindCandidates f x (PrefIndex.build f.cfg ordToks ce)).Nodup := by
  unfold prefixFindCandidates
  simp only
  split
  · exact List.nodup_nil
  · exact cnd_dedup_nodup _

/-! ### OverlapFilter.find_candidates -/

/-- the counter update `d[cand] = d.get(cand, 0) + 1` -/
def ovIncr (d : List (Nat × Int)) (cand : Nat) : List (Nat × Int) :=
  Dict.set d cand (Dict.getD d cand 0 + 1)

theorem get?_foldl_incr (cands : List Nat) (d : List (Nat × Int)) (c : Nat) :
    Dict.get? (cands.foldl ovIncr d) c =
      if cands.count c = 0 then Dict.get? d c else some (Dict.getD d c 0 + (cands.count c : Int)) := by
  induction cands generalizing d with
  | nil => simp
  | cons a cands ih =>
    rw [List.foldl_cons, ih, List.count_cons]
    unfold ovIncr
    rw [Dict.get?_set, Dict.getD_set]
    by_cases h : a = c
    · subst h
      simp only [if_true, beq_self_eq_true]
      by_cases h0 : List.count a cands = 0
      · simp [h0]
      · simp only [h0, if_false, Nat.succ_ne_zero]
        congr 1; omega
    · have hb : (a == c) = false := by simpa using h
      simp only [h, if_false, hb, Nat.add_zero, Bool.false_eq_true]

theorem nodup_keys_foldl_incr (cands : List Nat) (d : List (Nat × Int)) (h : (d.map (·.1)).Nodup) :
    ((cands.foldl ovIncr d).map (·.1)).Nodup := by
  induction cands generalizing d with
  | nil => simpa using h
  | cons a cands ih =>
    rw [List.foldl_cons]
    exact ih _ (Dict.cnd_nodup_keys_set _ _ _ h)

theorem overlapFindCandidates_eq (x : List Tok) (idx : InvIndex) :
    overlapFindCandidates x idx = (x.flatMap (fun t => probe idx.index t)).foldl ovIncr [] := by
  unfold overlapFindCandidates
  split
  · rename_i he
    have : idx.index = [] := List.isEmpty_iff.1 he
    rw [this]
    have : x.flatMap (fun t => probe ([] : List (Tok × List Nat)) t) = [] :=
      List.flatMap_eq_nil_iff.2 (fun _ _ => rfl)
    rw [this]; rfl
  · rw [List.foldl_flatMap]; rfl

theorem sum_count_eq_length_filter {κ : Type} [DecidableEq κ] (x y : List κ) (hy : y.Nodup) :
    (x.map (fun t => y.count t)).sum = (x.filter (fun t => decide (t ∈ y))).length := by
  induction x with
  | nil => rfl
  | cons a x ih =>
    rw [List.map_cons, List.sum_cons, ih, List.filter_cons]
    by_cases h : a ∈ y
    · simp [h, List.count_eq_one_of_mem hy h, Nat.add_comm]
    · simp [h, List.count_eq_zero_of_not_mem h]

theorem count_probe_invIndex (toks : List (List Tok)) (cs ce : Bool) (t : Tok) (c : Nat) :
    (probe (InvIndex.build toks cs ce).index t).count c = (toks[c]?.map (fun y => y.count t)).getD 0 :=
  count_probe_rows (fun y => y) toks t c

/-- OverlapFilter.find_candidates on duplicate-free token lists: candidate ↦ size of the intersection, for exactly
    the rows with a non-empty intersection -/
theorem overlapFindCandidates_get (toks : List (List Tok)) (x : List Tok) (hx : x.Nodup)
    (hy : ∀ y ∈ toks, y.Nodup) (cs ce : Bool) (c : Nat) :
    Dict.get? (overlapFindCandidates x (InvIndex.build toks cs ce)) c =
      match toks[c]? with
      | some y => if interCount x y = 0 then none else some ((interCount x y : Nat) : Int)
      | none => none := by
  rw [overlapFindCandidates_eq, get?_foldl_incr, List.count_flatMap]
  have hsum : (x.map (List.count c ∘ fun t => probe (InvIndex.build toks cs ce).index t)).sum
      = (x.map (fun t => (toks[c]?.map (fun y => y.count t)).getD 0)).sum := by
    congr 1
    apply List.map_congr_left
    intro t _
    exact count_probe_invIndex toks cs ce t c
  rw [hsum]
  cases h : toks[c]? with
  | none => simp [Dict.get?]
  | some y =>
    have hyn : y.Nodup := hy y (List.mem_of_getElem? h)
    simp only [Option.map_some, Option.getD_some]
    rw [sum_count_eq_length_filter x y hyn]
    have : interCount x y = (x.filter (fun t => decide (t ∈ y))).length := by
      unfold interCount; rw [dedup_of_nodup x hx]
    rw [this]
    simp [Dict.get?, Dict.getD]

theorem overlapFindCandidates_keys (toks : List (List Tok)) (x : List Tok) (cs ce : Bool) :
    ((overlapFindCandidates x (InvIndex.build toks cs ce)).map (·.1)).Nodup := by
  rw [overlapFindCandidates_eq]
  exact nodup_keys_foldl_incr _ [] List.nodup_nil

/-! ### SizeFilter.find_candidates -/

theorem cnd_foldl_min_le (sizes : List Nat) (init : Int) :
    sizes.foldl (fun (m : Int) (n : Nat) => if (n : Int) < m then (n : Int) else m) init ≤ init ∧
    ∀ s ∈ sizes, sizes.foldl (fun (m : Int) (n : Nat) => if (n : Int) < m then (n : Int) else m) init ≤ (s : Int) := by
  induction sizes generalizing init with
  | nil => simp
  | cons a sizes ih =>
    rw [List.foldl_cons]
    have hj : (if (a : Int) < init then (a : Int) else init) ≤ init ∧
        (if (a : Int) < init then (a : Int) else init) ≤ (a : Int) := by split <;> omega
    generalize (if (a : Int) < init then (a : Int) else init) = j at hj
    obtain ⟨h1, h2⟩ := ih j
    refine ⟨by omega, ?_⟩
    intro s hs
    rcases List.mem_cons.1 hs with h | h
    · subst h; omega
    · exact h2 s h

theorem cnd_foldl_max_ge (sizes : List Nat) (init : Int) :
    init ≤ sizes.foldl (fun (m : Int) (n : Nat) => if (n : Int) > m then (n : Int) else m) init ∧
    ∀ s ∈ sizes, (s : Int) ≤ sizes.foldl (fun (m : Int) (n : Nat) => if (n : Int) > m then (n : Int) else m) init := by
  induction sizes generalizing init with
  | nil => simp
  | cons a sizes ih =>
    rw [List.foldl_cons]
    have hj : init ≤ (if (a : Int) > init then (a : Int) else init) ∧
        (a : Int) ≤ (if (a : Int) > init then (a : Int) else init) := by split <;> omega
    generalize (if (a : Int) > init then (a : Int) else init) = j at hj
    obtain ⟨h1, h2⟩ := ih j
    refine ⟨by omega, ?_⟩
    intro s hs
    rcases List.mem_cons.1 hs with h | h
    · subst h; omega
    · exact h2 s h

theorem cnd_minLength_le (sizes : List Nat) (s : Nat) (hs : s ∈ sizes) : minLength sizes ≤ (s : Int) :=
  (cnd_foldl_min_le sizes maxsize).2 s hs

theorem cnd_le_maxLength (sizes : List Nat) (s : Nat) (hs : s ∈ sizes) : (s : Int) ≤ maxLength sizes :=
  (cnd_foldl_max_ge sizes 0).2 s hs

theorem mem_intRange (lo hi s : Int) : s ∈ intRange lo hi ↔ lo ≤ s ∧ s ≤ hi := by
  unfold intRange
  simp only [List.mem_map, List.mem_range]
  constructor
  · rintro ⟨i, hi', rfl⟩; omega
  · rintro ⟨h1, h2⟩
    exact ⟨(s - lo).toNat, by omega, by omega⟩

theorem probe_foldl_sizes (rows : List (Nat × Nat)) (d : List (Nat × List Nat)) (m : Nat) :
    probe (rows.foldl (fun d (p : Nat × Nat) => if p.1 = 0 then d else appendAt d p.1 p.2) d) m
      = probe d m ++ (rows.filter (fun p => decide (p.1 ≠ 0 ∧ p.1 = m))).map (·.2) := by
  induction rows generalizing d with
  | nil => simp
  | cons p rows ih =>
    rw [List.foldl_cons, ih, List.filter_cons]
    by_cases h0 : p.1 = 0
    · simp [h0]
    · rw [if_neg h0, cnd_probe_appendAt]
      by_cases hm : p.1 = m
      · have hm0 : ¬ m = 0 := hm ▸ h0
        simp [hm, hm0]
      · simp [hm]

theorem mem_probe_sizeIndex (sizes : List Nat) (ce : Bool) (m c : Nat) :
    c ∈ probe (SizeIndex.build sizes ce).index m ↔ sizes[c]? = some m ∧ m ≠ 0 := by
  have := probe_foldl_sizes sizes.zipIdx [] m
  unfold SizeIndex.build
  simp only
  rw [this, cnd_probe_nil, List.nil_append, List.mem_map]
  constructor
  · rintro ⟨⟨n, rid⟩, hp, rfl⟩
    rw [List.mem_filter, List.mem_zipIdx_iff_getElem?] at hp
    simp only [decide_eq_true_eq] at hp
    obtain ⟨h1, h2, rfl⟩ := hp
    exact ⟨h1, h2⟩
  · rintro ⟨h1, h2⟩
    refine ⟨(m, c), ?_, rfl⟩
    rw [List.mem_filter, List.mem_zipIdx_iff_getElem?]
    simp [h1, h2]

/-- SizeFilter.find_candidates: exactly the non-empty rows whose size lies in the window of the probe size
    (and nothing at all when the lower bound exceeds the probe size itself) -/
theorem sizeFindCandidates_mem (f : FilterObj) (sizes : List Nat) (n : Nat) (ce : Bool) (c : Nat) :
    c ∈ sizeFindCandidates f n (SizeIndex.build sizes ce) ↔
      ∃ s, sizes[c]? = some s ∧ s ≠ 0 ∧ f.cfg.lower n ≤ (n : Int) ∧
        f.cfg.lower n ≤ (s : Int) ∧ (s : Int) ≤ f.cfg.upper n := by
  -- membership in the un-guarded candidate list, for arbitrary window bounds clipped by min/max length
  have key : ∀ lo hi : Int,
      c ∈ dedup ((intRange (if lo < minLength sizes then minLength sizes else lo)
          (if hi > maxLength sizes then maxLength sizes else hi)).flatMap
            (fun s => if s < 0 then [] else probe (SizeIndex.build sizes ce).index s.toNat)) ↔
      ∃ s, sizes[c]? = some s ∧ s ≠ 0 ∧ lo ≤ (s : Int) ∧ (s : Int) ≤ hi := by
    intro lo hi
    rw [cnd_mem_dedup, List.mem_flatMap]
    constructor
    · rintro ⟨s, hs, hc⟩
      rw [mem_intRange] at hs
      split at hc
      · simp at hc
      · rename_i hneg
        rw [mem_probe_sizeIndex] at hc
        refine ⟨s.toNat, hc.1, hc.2, ?_, ?_⟩
        · have := hs.1; split at this <;> omega
        · have := hs.2; split at this <;> omega
    · rintro ⟨s, h1, h2, h3, h4⟩
      have hmem : s ∈ sizes := List.mem_of_getElem? h1
      have hmin := cnd_minLength_le sizes s hmem
      have hmax := cnd_le_maxLength sizes s hmem
      refine ⟨(s : Int), ?_, ?_⟩
      · rw [mem_intRange]
        constructor
        · split <;> omega
        · split <;> omega
      · rw [if_neg (by omega)]
        rw [mem_probe_sizeIndex]
        exact ⟨by simpa using h1, h2⟩
  unfold sizeFindCandidates
  simp only
  by_cases he : (SizeIndex.build sizes ce).index.isEmpty = true
  · rw [if_pos he]
    have hnil : (SizeIndex.build sizes ce).index = [] := List.isEmpty_iff.1 he
    constructor
    · intro h; simp at h
    · rintro ⟨s, h1, h2, -⟩
      have := (mem_probe_sizeIndex sizes ce s c).2 ⟨h1, h2⟩
      rw [hnil, cnd_probe_nil] at this
      simp at this
  · rw [if_neg he]
    by_cases hlo : f.cfg.lower n > (n : Int)
    · rw [if_pos hlo]
      constructor
      · intro h; simp at h
      · rintro ⟨s, _, _, h3, _⟩; omega
    · rw [if_neg hlo]
      refine Iff.trans (key (f.cfg.lower n) (f.cfg.upper n)) ?_
      constructor
      · rintro ⟨s, h1, h2, h3, h4⟩; exact ⟨s, h1, h2, by omega, h3, h4⟩
      · rintro ⟨s, h1, h2, _, h3, h4⟩; exact ⟨s, h1, h2, h3, h4⟩

theorem sizeFindCandidates_nodup (f : FilterObj) (sizes : List Nat) (n : Nat) (ce : Bool) :
    (sizeFindCandidates f n (SizeIndex.build sizes ce)).Nodup := by
  unfold sizeFindCandidates
  simp only
  split
  · exact List.nodup_nil
  · split
    · exact List.nodup_nil
    · exact cnd_dedup_nodup _

end SSJ

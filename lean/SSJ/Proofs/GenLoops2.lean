/-
  SSJ.Proofs.GenLoops2 — stage 3: the generated functions of `SSJ/Gen/Loops2.lean` (filters, indexes, join
  workers; written by tools/py2lean2.py from the Python AST) EQUAL the hand-model functions.
-/
import SSJ.Gen.Loops2
import SSJ.Proofs.GenLoops
import SSJ.Model.Matcher
import Mathlib.Tactic.Linarith
import Mathlib.Data.List.GetD

namespace SSJ.Gen2
open SSJ

set_option linter.unusedSimpArgs false


/-! ### A1 -/
private theorem nrt_fold (base : Nat) (l : List Nat) (acc : List NumTok) (prev : Option Nat) (occ : Nat) :
    List.map (fun p => p.tok * base + p.occ)
      (List.foldl
          (fun (b : List NumTok × Option Nat × Nat) a =>
            if (some a == b.2.1) = true then (b.1 ++ [{ tok := a, occ := b.2.2 + 1 }], some a, b.2.2 + 1)
            else (b.1 ++ [{ tok := a, occ := 0 }], some a, 0))
          (acc, prev, occ) l).1 =
    acc.map (fun p => p.tok * base + p.occ) ++ numberRepeatedAux base prev occ l := by
  induction l generalizing acc prev occ with
  | nil => simp [numberRepeatedAux]
  | cons x xs ih =>
    rw [List.foldl_cons]
    by_cases h : prev = some x
    · subst h
      simp only [beq_self_eq_true, if_true]
      rw [ih]; simp [numberRepeatedAux]
    · have h' : (some x == prev) = false := by
        cases prev with
        | none => rfl
        | some y => simp at h ⊢; exact fun e => h e.symm
      simp only [h', Bool.false_eq_true, if_false]
      rw [ih]; simp [numberRepeatedAux, h]

theorem number_repeated_tokens_eq (base : Nat) (l : List Nat) :
    (number_repeated_tokens l).map (fun p => p.tok * base + p.occ) = numberRepeated base l := by
  unfold number_repeated_tokens numberRepeated
  gen2_loop_norm
  rw [nrt_fold]; simp

/-! ### A2 -/
theorem SuffixFilter_binary_search_eq (fuel : Nat) (tokens : List Nat) (p : Nat) (left right : Int) :
    SuffixFilter_binary_search fuel tokens p left right = suffixBinarySearch tokens p fuel left right := by
  induction fuel generalizing left right with
  | zero => rfl
  | succ n ih =>
    unfold SuffixFilter_binary_search suffixBinarySearch
    simp only [ih, ite_pure, Id.run_pure, beq_iff_eq, decide_eq_true_eq, Nat.default_eq_zero]

/-! ### A3 `_partition` -/
theorem floor_half (n : Int) : ((n : Rat) / 2).floor = n / 2 := by
  apply le_antisymm
  · have : ((n : Rat) / 2).floor < n / 2 + 1 := by
      rw [Rat.floor_lt_iff]
      have h : n < 2 * (n / 2 + 1) := by omega
      have h' : (n : Rat) < 2 * ((n / 2 + 1 : Int) : Rat) := by exact_mod_cast h
      linarith
    omega
  · rw [Rat.le_floor_iff]
    have h : 2 * (n / 2) ≤ n := by omega
    have h' : 2 * ((n / 2 : Int) : Rat) ≤ (n : Rat) := by exact_mod_cast h
    linarith

/-- the position found by `_binary_search` is not to the left of the window -/
theorem le_suffixBinarySearch (tokens : List Nat) (p : Nat) (fuel : Nat) (left right : Int)
    (h : left ≤ right) : left ≤ suffixBinarySearch tokens p fuel left right := by
  induction fuel generalizing left right with
  | zero => exact le_refl _
  | succ n ih =>
    unfold suffixBinarySearch
    simp only [floor_half]
    split
    · exact le_refl _
    · split
      · omega
      · split
        · exact le_trans (by omega) (ih _ _ (by omega))
        · exact ih _ _ (by omega)

theorem pyTake_of_nonneg {α : Type} (l : List α) (k : Int) (h : 0 ≤ k ∨ l = []) :
    pyTake l k = l.take k.toNat := by
  unfold pyTake
  rcases h with h | h
  · simp [h]
  · subst h; simp

theorem pyDrop_of_nonneg {α : Type} (l : List α) (k : Int) (h : 0 ≤ k ∨ l = []) :
    pyDrop l k = l.drop k.toNat := by
  unfold pyDrop
  rcases h with h | h
  · simp [h]
  · subst h; simp

/-- `_partition`.  Hypothesis: the window does not start at a negative position (Python would index from the
    end of the list there), or the list is empty. -/
theorem SuffixFilter_partition_eq (tokens : List Nat) (p : Nat) (left right : Int)
    (h : 0 ≤ left ∨ tokens = []) :
    SuffixFilter_partition tokens p left right = suffixPartition tokens p left right := by
  unfold SuffixFilter_partition suffixPartition
  simp only [SuffixFilter_binary_search_eq, ite_pure, Id.run_pure, beq_iff_eq, decide_eq_true_eq,
    Nat.default_eq_zero, Int.ofNat_eq_natCast]
  split
  · rfl
  · rename_i hlr
    have hpos : 0 ≤ suffixBinarySearch tokens p (min right (↑tokens.length - 1) - left + 2).toNat left
        (min right (↑tokens.length - 1)) ∨ tokens = [] := by
      rcases h with h | h
      · exact Or.inl (le_trans h (le_suffixBinarySearch _ _ _ _ _ (by omega)))
      · exact Or.inr h
    have hpos1 : 0 ≤ suffixBinarySearch tokens p (min right (↑tokens.length - 1) - left + 2).toNat left
        (min right (↑tokens.length - 1)) + 1 ∨ tokens = [] := by
      rcases hpos with h | h
      · exact Or.inl (by omega)
      · exact Or.inr h
    rw [pyTake_of_nonneg _ _ hpos, pyDrop_of_nonneg _ _ hpos, pyDrop_of_nonneg _ _ hpos1]
    have e : ∀ k : Int, 0 ≤ k ∨ tokens = [] →
        List.drop (k + 1).toNat tokens = List.drop (k.toNat + 1) tokens := by
      intro k hk
      rcases hk with hk | hk
      · congr 1; omega
      · subst hk; simp
    rw [e _ hpos]

/-! ### A4 `_est_hamming_dist_lower_bound` -/

/-- Hypothesis: the claimed length of the right suffix is not negative (Python would index `r_suffix` from its
    end), or the right suffix is empty. -/
theorem SuffixFilter_est_hamming_dist_lower_bound_eq (fuel : Nat) (l r : List Nat) (ln rn hmax : Int) (depth : Nat) (h : 0 ≤ rn ∨ r = []) :
    SuffixFilter_est_hamming_dist_lower_bound fuel l r ln rn hmax depth = suffixEstHamming 2 fuel l r ln rn hmax depth := by
  induction fuel generalizing l r ln rn hmax depth with
  | zero => rfl
  | succ n ih =>
    have ih' : ∀ (l r : List Nat) (ln : Int) (k : Nat) (hmax : Int) (depth : Nat),
        SuffixFilter_est_hamming_dist_lower_bound n l r ln (k : Int) hmax depth
          = suffixEstHamming 2 n l r ln (k : Int) hmax depth :=
      fun l r ln k hmax depth => ih l r ln k hmax depth (Or.inl (Int.natCast_nonneg k))
    unfold SuffixFilter_est_hamming_dist_lower_bound suffixEstHamming
    have h1 : 0 ≤ ((rn : Rat) / 2).floor ∨ r = [] := by
      rcases h with h | h
      · left; rw [floor_half]; omega
      · exact Or.inr h
    simp only [SuffixFilter_partition_eq _ _ _ _ h1, SuffixFilter_partition_eq _ _ _ _ (Or.inl (le_max_left _ _))]
    by_cases hlt : ln < rn
    · simp only [hlt, ite_pure, Id.run_pure, beq_iff_eq, decide_eq_true_eq, Nat.default_eq_zero, Int.ofNat_eq_natCast, ih', if_true]
      generalize suffixPartition r _ _ _ = pr
      generalize suffixPartition l _ _ _ = pl
      simp only [beq_eq_decide, Bool.not_eq_eq_eq_not, Bool.not_true, decide_eq_false_iff_not, ite_not]
    · simp only [hlt, ite_pure, Id.run_pure, beq_iff_eq, decide_eq_true_eq, Nat.default_eq_zero, Int.ofNat_eq_natCast, ih', if_false]
      generalize suffixPartition r _ _ _ = pr
      generalize suffixPartition l _ _ _ = pl
      simp only [beq_eq_decide, Bool.not_eq_eq_eq_not, Bool.not_true, decide_eq_false_iff_not, ite_not]

/-! ### A5 numbered tokens: the encoding `(t, k) ↦ t * base + k` is an order embedding on `k < base` -/
def enc (base : Nat) (p : NumTok) : Nat := p.tok * base + p.occ

theorem enc_default (base : Nat) : enc base default = 0 := by
  show (0 : Nat) * base + 0 = 0
  simp

theorem numTok_lt_def (x y : NumTok) : x < y ↔ (x.tok < y.tok ∨ (x.tok = y.tok ∧ x.occ < y.occ)) := Iff.rfl

theorem enc_lt_iff (base : Nat) (x y : NumTok) (hx : x.occ < base) (hy : y.occ < base) :
    enc base x < enc base y ↔ x < y := by
  rw [numTok_lt_def]
  unfold enc
  constructor
  · intro h
    by_cases h1 : x.tok < y.tok
    · exact Or.inl h1
    · by_cases h2 : x.tok = y.tok
      · right; refine ⟨h2, ?_⟩; rw [h2] at h; omega
      · exfalso
        have h3 : y.tok + 1 ≤ x.tok := by omega
        have := Nat.mul_le_mul_right base h3
        rw [Nat.add_mul] at this
        omega
  · rintro (h | ⟨h1, h2⟩)
    · have h3 : x.tok + 1 ≤ y.tok := h
      have := Nat.mul_le_mul_right base h3
      rw [Nat.add_mul] at this
      omega
    · rw [h1]; omega

theorem enc_eq_iff (base : Nat) (x y : NumTok) (hx : x.occ < base) (hy : y.occ < base) :
    enc base x = enc base y ↔ x = y := by
  constructor
  · intro h
    have h1 := enc_lt_iff base x y hx hy
    have h2 := enc_lt_iff base y x hy hx
    rw [numTok_lt_def] at h1 h2
    have a : ¬ (x.tok < y.tok ∨ x.tok = y.tok ∧ x.occ < y.occ) := fun c => by have := h1.mpr c; omega
    have b : ¬ (y.tok < x.tok ∨ y.tok = x.tok ∧ y.occ < x.occ) := fun c => by have := h2.mpr c; omega
    cases x; cases y
    simp only [NumTok.mk.injEq] at *
    omega
  · rintro rfl; rfl

theorem getD_map_enc (base : Nat) (l : List NumTok) (i : Nat) :
    (l.map (enc base)).getD i 0 = enc base (l.getD i default) := by
  rw [← enc_default base, List.getD_map]

theorem getD_occ_lt (base : Nat) (hb : 0 < base) (l : List NumTok) (hl : ∀ x ∈ l, x.occ < base) (i : Nat) :
    (l.getD i default).occ < base := by
  by_cases h : i < l.length
  · rw [List.getD_eq_getElem _ _ h]; exact hl _ (List.getElem_mem h)
  · rw [List.getD_eq_default _ _ (by omega)]; exact hb

theorem binary_search_enc (base : Nat) (hb : 0 < base) (fuel : Nat) (tokens : List NumTok) (p : NumTok)
    (hl : ∀ x ∈ tokens, x.occ < base) (hp : p.occ < base) (left right : Int) :
    SuffixFilter_binary_search fuel tokens p left right
      = SuffixFilter_binary_search fuel (tokens.map (enc base)) (enc base p) left right := by
  induction fuel generalizing left right with
  | zero => rfl
  | succ n ih =>
    unfold SuffixFilter_binary_search
    simp only [ih, ite_pure, Id.run_pure, beq_iff_eq, decide_eq_true_eq, Nat.default_eq_zero, getD_map_enc,
      enc_lt_iff base _ _ (getD_occ_lt base hb tokens hl _) hp,
      enc_eq_iff base _ _ (getD_occ_lt base hb tokens hl _) hp]

theorem pyTake_map {α β : Type} (f : α → β) (l : List α) (k : Int) : pyTake (l.map f) k = (pyTake l k).map f := by
  unfold pyTake; split <;> simp [List.map_take]

theorem pyDrop_map {α β : Type} (f : α → β) (l : List α) (k : Int) : pyDrop (l.map f) k = (pyDrop l k).map f := by
  unfold pyDrop; split <;> simp [List.map_drop]

theorem partition_enc (base : Nat) (hb : 0 < base) (tokens : List NumTok) (p : NumTok)
    (hl : ∀ x ∈ tokens, x.occ < base) (hp : p.occ < base) (left right : Int) :
    SuffixFilter_partition (tokens.map (enc base)) (enc base p) left right =
      ((SuffixFilter_partition tokens p left right).1.map (enc base),
       (SuffixFilter_partition tokens p left right).2.1.map (enc base),
       (SuffixFilter_partition tokens p left right).2.2.1,
       (SuffixFilter_partition tokens p left right).2.2.2) := by
  unfold SuffixFilter_partition
  simp only [ite_pure, Id.run_pure, beq_iff_eq, decide_eq_true_eq, Nat.default_eq_zero, getD_map_enc,
    List.length_map, ← binary_search_enc base hb _ tokens p hl hp, gt_iff_lt,
    enc_lt_iff base _ _ (getD_occ_lt base hb tokens hl _) hp,
    enc_lt_iff base _ _ hp (getD_occ_lt base hb tokens hl _),
    enc_eq_iff base _ _ (getD_occ_lt base hb tokens hl _) hp, pyTake_map, pyDrop_map]
  split_ifs <;> simp

theorem mem_pyTake {α : Type} (l : List α) (k : Int) (x : α) (h : x ∈ pyTake l k) : x ∈ l := by
  unfold pyTake at h; split at h <;> exact List.mem_of_mem_take h

theorem mem_pyDrop {α : Type} (l : List α) (k : Int) (x : α) (h : x ∈ pyDrop l k) : x ∈ l := by
  unfold pyDrop at h; split at h <;> exact List.mem_of_mem_drop h

theorem partition_subset {τ : Type} [DecidableEq τ] [LT τ] [DecidableLT τ] [Inhabited τ]
    (tokens : List τ) (p : τ) (left right : Int) :
    (∀ x ∈ (SuffixFilter_partition tokens p left right).1, x ∈ tokens) ∧
    (∀ x ∈ (SuffixFilter_partition tokens p left right).2.1, x ∈ tokens) := by
  unfold SuffixFilter_partition
  simp only [ite_pure, Id.run_pure, beq_iff_eq, decide_eq_true_eq]
  split_ifs <;> simp <;> (try constructor) <;> intro x hx <;>
    first | exact mem_pyTake _ _ _ hx | exact mem_pyDrop _ _ _ hx

theorem est_enc (base : Nat) (hb : 0 < base) (fuel : Nat) (l r : List NumTok)
    (hl : ∀ x ∈ l, x.occ < base) (hr : ∀ x ∈ r, x.occ < base) (ln rn hmax : Int) (depth : Nat) :
    SuffixFilter_est_hamming_dist_lower_bound fuel l r ln rn hmax depth
      = SuffixFilter_est_hamming_dist_lower_bound fuel (l.map (enc base)) (r.map (enc base)) ln rn hmax depth := by
  induction fuel generalizing l r ln rn hmax depth with
  | zero => rfl
  | succ n ih =>
    unfold SuffixFilter_est_hamming_dist_lower_bound
    have hp := getD_occ_lt base hb r hr
    simp only [Nat.default_eq_zero, getD_map_enc, partition_enc base hb _ _ hl (hp _), partition_enc base hb _ _ hr (hp _),
      enc_eq_iff base _ _ (getD_occ_lt base hb l hl _) (hp _), List.length_map, beq_iff_eq]
    have sr := partition_subset r (r.getD ((rn : Rat) / 2).floor.toNat default) ((rn : Rat) / 2).floor ((rn : Rat) / 2).floor
    generalize SuffixFilter_partition r _ _ _ = pr at sr ⊢
    have key : ∀ (pl : List NumTok × List NumTok × Int × Int), ((∀ x ∈ pl.1, x ∈ l) ∧ ∀ x ∈ pl.2.1, x ∈ l) →
        (∀ (ln rn hmax : Int) (depth : Nat),
          SuffixFilter_est_hamming_dist_lower_bound n (pl.1.map (enc base)) (pr.1.map (enc base)) ln rn hmax depth
            = SuffixFilter_est_hamming_dist_lower_bound n pl.1 pr.1 ln rn hmax depth) ∧
        (∀ (ln rn hmax : Int) (depth : Nat),
          SuffixFilter_est_hamming_dist_lower_bound n (pl.2.1.map (enc base)) (pr.2.1.map (enc base)) ln rn hmax depth
            = SuffixFilter_est_hamming_dist_lower_bound n pl.2.1 pr.2.1 ln rn hmax depth) := by
      intro pl sl
      exact ⟨fun a b c d => (ih pl.1 pr.1 (fun x hx => hl x (sl.1 x hx)) (fun x hx => hr x (sr.1 x hx)) a b c d).symm,
             fun a b c d => (ih pl.2.1 pr.2.1 (fun x hx => hl x (sl.2 x hx)) (fun x hx => hr x (sr.2 x hx)) a b c d).symm⟩
    have he : (enc base (l.getD 0 default) == enc base (r.getD 0 default))
        = (l.getD 0 default == r.getD 0 default) := by
      rw [Bool.eq_iff_iff]; simp only [beq_iff_eq]
      exact enc_eq_iff base _ _ (getD_occ_lt base hb l hl _) (hp _)
    by_cases hlt : ln < rn
    · simp only [hlt, ite_pure, Id.run_pure, beq_iff_eq, decide_eq_true_eq, if_true]
      have sl := partition_subset l (r.getD ((rn : Rat) / 2).floor.toNat default)
        (max 0 (truncRat (↑(↑rn / 2 : Rat).floor - ↑(hmax - intAbs (ln - rn)) / 2 - ↑(intAbs (ln - rn) * 1))))
        (min (ln - 1) (truncRat (↑(↑rn / 2 : Rat).floor + ↑(hmax - intAbs (ln - rn)) / 2 + ↑(intAbs (ln - rn) * 0))))
      generalize SuffixFilter_partition l _ _ _ = pl at sl ⊢
      simp only [(key pl sl).1, (key pl sl).2, he]
    · simp only [hlt, ite_pure, Id.run_pure, beq_iff_eq, decide_eq_true_eq, if_false]
      have sl := partition_subset l (r.getD ((rn : Rat) / 2).floor.toNat default)
        (max 0 (truncRat (↑(↑rn / 2 : Rat).floor - ↑(hmax - intAbs (ln - rn)) / 2 - ↑(intAbs (ln - rn) * 0))))
        (min (ln - 1) (truncRat (↑(↑rn / 2 : Rat).floor + ↑(hmax - intAbs (ln - rn)) / 2 + ↑(intAbs (ln - rn) * 1))))
      generalize SuffixFilter_partition l _ _ _ = pl at sl ⊢
      simp only [(key pl sl).1, (key pl sl).2, he]

private theorem nrt_occ_fold (l : List Nat) (acc : List NumTok) (prev : Option Nat) (occ : Nat)
    (h1 : ∀ x ∈ acc, x.occ < acc.length) (h2 : occ + 1 ≤ acc.length ∨ prev = none) :
    ∀ x ∈ (List.foldl
          (fun (b : List NumTok × Option Nat × Nat) a =>
            if (some a == b.2.1) = true then (b.1 ++ [{ tok := a, occ := b.2.2 + 1 }], some a, b.2.2 + 1)
            else (b.1 ++ [{ tok := a, occ := 0 }], some a, 0))
          (acc, prev, occ) l).1, x.occ < acc.length + l.length := by
  induction l generalizing acc prev occ with
  | nil => simpa using h1
  | cons a as ih =>
    rw [List.foldl_cons]
    have hlen : acc.length + (a :: as).length = (acc.length + 1) + as.length := by simp; omega
    rw [hlen]
    split
    · rename_i hc
      have hp : prev = some a := by
        have : some a = prev := by simpa using hc
        exact this.symm
      have h3 : occ + 1 ≤ acc.length := by
        rcases h2 with h | h
        · exact h
        · rw [h] at hp; cases hp
      have := ih (acc ++ [{ tok := a, occ := occ + 1 }]) (some a) (occ + 1)
        (by intro x hx; simp at hx ⊢; rcases hx with hx | hx
            · have := h1 x hx; omega
            · subst hx; simp; omega)
        (Or.inl (by simp; omega))
      simpa using this
    · have := ih (acc ++ [{ tok := a, occ := 0 }]) (some a) 0
        (by intro x hx; simp at hx ⊢; rcases hx with hx | hx
            · have := h1 x hx; omega
            · subst hx; simp)
        (Or.inl (by simp))
      simpa using this

theorem number_repeated_tokens_occ_lt (l : List Nat) : ∀ x ∈ number_repeated_tokens l, x.occ < l.length + 1 := by
  unfold number_repeated_tokens
  gen2_loop_norm
  intro x hx
  have := nrt_occ_fold l [] none 0 (by simp) (Or.inr rfl) x hx
  simp at this; omega

/-- `_filter_suffix`.  Hypothesis: the right prefix length does not exceed the right token count (otherwise the
    claimed suffix length is negative and Python indexes from the end), or the right suffix is empty. -/
theorem SuffixFilter_filter_suffix_eq (f : FilterObj) (lSuf rSuf : List Nat) (lp rp : Int) (ln rn : Nat)
    (h : rp ≤ (rn : Int) ∨ rSuf = []) :
    SuffixFilter_filter_suffix f lSuf rSuf lp rp ln rn = suffixFilterSuffixN f lSuf rSuf lp rp ln rn := by
  unfold SuffixFilter_filter_suffix suffixFilterSuffixN suffixFilterSuffix
  have hb : 0 < lSuf.length + rSuf.length + 1 := by omega
  have e1 := est_enc (lSuf.length + rSuf.length + 1) hb 4 (number_repeated_tokens lSuf) (number_repeated_tokens rSuf)
    (fun x hx => by have := number_repeated_tokens_occ_lt lSuf x hx; omega)
    (fun x hx => by have := number_repeated_tokens_occ_lt rSuf x hx; omega)
  have hN : (0 : Int) ≤ (rn : Int) - rp ∨ numberRepeated (lSuf.length + rSuf.length + 1) rSuf = [] := by
    rcases h with h | h
    · left; omega
    · right; subst h; rfl
  have h0 : (0 : Int) ≤ (rn : Int) - rp ∨ rSuf = [] := by
    rcases h with h | h
    · left; omega
    · exact Or.inr h
  have hnl : ∀ l : List Nat, (number_repeated_tokens l).map (enc (lSuf.length + rSuf.length + 1))
      = numberRepeated (lSuf.length + rSuf.length + 1) l := fun l => number_repeated_tokens_eq _ l
  simp only [e1, hnl, Int.ofNat_eq_natCast, Nat.cast_add,
    SuffixFilter_est_hamming_dist_lower_bound_eq _ _ _ _ _ _ _ hN,
    SuffixFilter_est_hamming_dist_lower_bound_eq _ _ _ _ _ _ _ h0, ite_pure, Id.run_pure, beq_iff_eq,
    decide_eq_true_eq]
  split_ifs <;> rfl

/-! ## Group B: `filter_pair` -/

theorem emptyPairDropped_eq (f : FilterObj) :
    (if decide (f.cfg.measure = Measure.overlap) = true then true
      else if decide (f.cfg.measure = Measure.editDistance) = true then false else !f.allowEmpty)
      = emptyPairDropped f := by
  unfold emptyPairDropped
  cases f.cfg.measure <;> simp

theorem SizeFilter_filter_pair_eq (f : FilterObj) (tok : String → List Tok) (l r : Cell) :
    SizeFilter_filter_pair f tok l r = sizeFilterPair f tok l r := by
  unfold SizeFilter_filter_pair sizeFilterPair
  simp only [ite_pure, Id.run_pure, Int.ofNat_eq_natCast, beq_eq_decide]
  simp only [emptyPairDropped_eq]

theorem OverlapFilter_filter_pair_eq (f : OverlapFilterObj) (tok : String → List Tok) (l r : Cell) :
    OverlapFilter_filter_pair f tok l r = overlapFilterPair f tok l r := by
  unfold OverlapFilter_filter_pair overlapFilterPair
  simp only [ite_pure, Id.run_pure, Int.ofNat_eq_natCast, bne_iff_ne, ne_eq, Bool.not_not,
    Bool.or_eq_true, Bool.not_eq_true', decide_eq_true_eq, bne_eq_false_iff_eq]

/-! ### prefix filter -/
theorem interCount_pos_iff_any (a b : List Nat) :
    decide (((dedup a).filter (fun t => decide (t ∈ b))).length > 0) = a.any (fun t => decide (t ∈ b)) := by
  rw [Bool.eq_iff_iff]
  simp only [gt_iff_lt, decide_eq_true_eq, List.length_pos_iff, List.any_eq_true]
  constructor
  · intro h
    obtain ⟨x, hx⟩ := List.exists_mem_of_ne_nil _ h
    rw [List.mem_filter, mem_dedup] at hx
    exact ⟨x, hx.1, by simpa using hx.2⟩
  · rintro ⟨x, hx1, hx2⟩
    apply List.ne_nil_of_mem (a := x)
    rw [List.mem_filter, mem_dedup]
    exact ⟨hx1, by simpa using hx2⟩

theorem PrefixFilter_filter_pair_eq (f : FilterObj) (tok : String → List Tok) (l r : Cell) :
    PrefixFilter_filter_pair f tok l r = prefixFilterPair f tok l r := by
  unfold PrefixFilter_filter_pair prefixFilterPair
  simp only [ite_pure, Id.run_pure, Int.ofNat_eq_natCast, beq_eq_decide,
    gen_token_ordering_for_lists_eq, order_using_token_ordering_eq, interCount_pos_iff_any]
  simp only [emptyPairDropped_eq]

/-! ### suffix filter -/
theorem pyDrop_eq_nil {α : Type} (l : List α) (k : Int) (h0 : 0 ≤ k) (h : (l.length : Int) ≤ k) : pyDrop l k = [] := by
  unfold pyDrop
  simp only [ge_iff_le, h0, if_true]
  apply List.drop_eq_nil_of_le
  omega

theorem SuffixFilter_filter_pair_eq (f : FilterObj) (tok : String → List Tok) (l r : Cell) :
    SuffixFilter_filter_pair f tok l r = suffixFilterPair f tok l r := by
  unfold SuffixFilter_filter_pair suffixFilterPair
  simp only [ite_pure, Id.run_pure, Int.ofNat_eq_natCast, beq_eq_decide,
    gen_token_ordering_for_lists_eq, order_using_token_ordering_eq]
  simp only [emptyPairDropped_eq]
  split
  · rfl
  · split
    · rfl
    · split
      · rfl
      · rename_i h1 h2 h3
        apply SuffixFilter_filter_suffix_eq
        have hlen : (orderUsing (tok r.strVal) (genTokenOrdering [tok l.strVal, tok r.strVal])).length
            = (tok r.strVal).length :=
          orderUsing_length _ _ (fun t ht => genTokenOrdering_isSome _ (tok r.strVal) (by simp) t ht)
        by_cases hle : f.cfg.prefixLen (tok r.strVal).length ≤ ((tok r.strVal).length : Int)
        · exact Or.inl hle
        · right
          apply pyDrop_eq_nil
          · omega
          · rw [hlen]; omega

/-! ### loops with an early `return`: `forIn` with `ForInStep.done` -/
def stepFold {α β : Type} (step : α → β → ForInStep β) (s : ForInStep β) (a : α) : ForInStep β :=
  match s with
  | .done b => .done b
  | .yield b => step a b

def fisVal {β : Type} : ForInStep β → β
  | .done b => b
  | .yield b => b

theorem foldl_stepFold_done {α β : Type} (step : α → β → ForInStep β) (l : List α) (b : β) :
    l.foldl (stepFold step) (.done b) = .done b := by
  induction l with
  | nil => rfl
  | cons x xs ih => simpa [stepFold] using ih

theorem forIn_pure_step {α β : Type} (l : List α) (init : β) (step : α → β → ForInStep β) :
    (forIn l init (fun a b => (pure (step a b) : Id (ForInStep β))))
      = pure (fisVal (l.foldl (stepFold step) (.yield init))) := by
  induction l generalizing init with
  | nil => rfl
  | cons x xs ih =>
    rw [List.forIn_cons, List.foldl_cons]
    simp only [pure_bind, stepFold]
    cases h : step x init with
    | done b => simp [foldl_stepFold_done, fisVal]
    | yield b => simp [ih]

theorem get?_foldl_set0 (lpre : List Nat) (d : List (Nat × Nat)) (a : Nat) :
    Dict.get? (lpre.foldl (fun b a => Dict.set b a 0) d) a = if a ∈ lpre then some 0 else Dict.get? d a := by
  induction lpre generalizing d with
  | nil => simp
  | cons x xs ih =>
    rw [List.foldl_cons, ih]
    by_cases h : a ∈ xs
    · simp [h]
    · by_cases hx : x = a
      · subst hx; simp [h, Dict.get?_set_self]
      · have : ¬ a = x := fun e => hx e.symm
        simp [h, this, Dict.get?_set_other _ _ _ _ hx]

abbrev PPState := Option Bool × Option Nat × Int × Nat

/-- the prefix loop of `PositionFilter.filter_pair` (with its early `return True`) against the model's fold with
    a `dropped` flag -/
theorem pos_pair_core (lpre : List Nat) (ln rn : Nat) (thr : Int) (G : Nat → PPState → ForInStep PPState)
    (hG : ∀ a b, G a b =
      if a ∈ lpre then
        (if b.2.2.1 + (1 + min ((ln : Int) - 0 - 1) ((rn : Int) - b.2.2.2 - 1)) < thr
          then ForInStep.done (some true, some 0, b.2.2.1, b.2.2.2)
          else ForInStep.yield (none, some 0, b.2.2.1 + 1, b.2.2.2 + 1))
      else ForInStep.yield (none, none, b.2.2.1, b.2.2.2 + 1))
    (ts : List Nat) (lp : Option Nat) (c : Int) (p : Nat) :
    let s := fisVal (ts.foldl (stepFold G) (.yield (none, lp, c, p)))
    let st := ts.foldl (fun (st : Int × Nat × Bool) t =>
                  if st.2.2 = true then st
                  else
                    if decide (t ∈ lpre) = true then
                      if st.1 + (1 + min ((ln : Int) - 0 - 1) ((rn : Int) - ↑st.2.1 - 1)) < thr then (st.1, st.2.1, true)
                      else (st.1 + 1, st.2.1 + 1, false)
                    else (st.1, st.2.1 + 1, false)) (c, p, false)
    (s.1 = none ∧ st.2.2 = false ∨ s.1 = some true ∧ st.2.2 = true) ∧ s.2.2.1 = st.1 := by
  induction ts generalizing lp c p with
  | nil => simp [fisVal]
  | cons t ts ih =>
    simp only [List.foldl_cons, stepFold, hG]
    by_cases hm : t ∈ lpre
    · simp only [hm, if_true, decide_true, Bool.false_eq_true, if_false]
      split
      · rw [foldl_stepFold_done]
        have hstay : ∀ (l : List Nat) (x : Int × Nat × Bool), x.2.2 = true →
            l.foldl (fun (st : Int × Nat × Bool) t =>
                  if st.2.2 = true then st
                  else
                    if decide (t ∈ lpre) = true then
                      if st.1 + (1 + min ((ln : Int) - 0 - 1) ((rn : Int) - ↑st.2.1 - 1)) < thr then (st.1, st.2.1, true)
                      else (st.1 + 1, st.2.1 + 1, false)
                    else (st.1, st.2.1 + 1, false)) x = x := by
          intro l x hx
          induction l with
          | nil => rfl
          | cons y ys ihy => rw [List.foldl_cons, if_pos hx]; exact ihy
        rw [hstay _ _ rfl]
        simp [fisVal]
      · exact ih _ _ _
    · simp only [hm, if_false, decide_false, Bool.false_eq_true]
      exact ih _ _ _

theorem PositionFilter_filter_pair_eq (f : FilterObj) (tok : String → List Tok) (l r : Cell) :
    PositionFilter_filter_pair f tok l r = positionFilterPair f tok l r := by
  unfold PositionFilter_filter_pair positionFilterPair
  simp only [ite_pure, Int.ofNat_eq_natCast, beq_eq_decide,
    gen_token_ordering_for_lists_eq, order_using_token_ordering_eq, Option.getD_some]
  simp only [emptyPairDropped_eq]
  gen2_loop_norm
  simp only [forIn_pure_step, pure_bind]
  split
  · rfl
  · split
    · rfl
    · split
      · rfl
      · generalize pyTake (orderUsing (tok l.strVal) _) _ = lpre
        generalize pyTake (orderUsing (tok r.strVal) _) _ = ts
        generalize f.cfg.ovThr _ _ = thr
        generalize (tok l.strVal).length = ln
        generalize (tok r.strVal).length = rn
        generalize hGe : (fun (a : Nat) (b : PPState) =>
          if (Dict.get? (List.foldl (fun b a => Dict.set b a 0) [] lpre) a).isSome = true then _ else _) = G
        have key := pos_pair_core lpre ln rn thr G (by
          intro a b
          rw [← hGe]
          simp only [get?_foldl_set0]
          by_cases hm : a ∈ lpre <;> simp [hm, Dict.get?]) ts (some 0) 0 0
        simp only at key
        generalize fisVal (List.foldl (stepFold G) _ ts) = s at key ⊢
        generalize List.foldl _ ((0 : Int), 0, false) ts = st at key ⊢
        obtain ⟨k1, k2⟩ := key
        rcases k1 with ⟨ka, kb⟩ | ⟨ka, kb⟩
        · simp [ka, kb, k2]
        · simp [ka, kb]

/-! ## Group C: `find_candidates` of the size and prefix filters, index builders -/
theorem SizeFilter_find_candidates_eq (f : FilterObj) (n : Nat) (idx : SizeIndex) :
    SizeFilter_find_candidates f n idx = sizeFindCandidates f n idx := by
  unfold SizeFilter_find_candidates sizeFindCandidates dedup intRange
  gen2_loop_norm
  simp only [decide_eq_true_eq, Int.ofNat_eq_natCast, List.foldl_flatMap, List.foldl_map]

theorem PrefixFilter_find_candidates_eq (f : FilterObj) (toks : List Nat) (idx : PrefIndex) :
    PrefixFilter_find_candidates f toks idx = prefixFindCandidates f toks idx := by
  unfold PrefixFilter_find_candidates prefixFindCandidates dedup
  gen2_loop_norm
  simp only [List.foldl_flatMap]

theorem ensure_none {κ β : Type} [DecidableEq κ] (d : List (κ × List β)) (k : κ) (v : β)
    (h : (Dict.get? d k).isNone = true) :
    Dict.set (Dict.set d k []) k ((Dict.get? (Dict.set d k []) k).getD [] ++ [v]) = appendAt d k v := by
  have := ensure_then_append d k v; rwa [if_pos h] at this

theorem ensure_some {κ β : Type} [DecidableEq κ] (d : List (κ × List β)) (k : κ) (v : β)
    (h : ¬ (Dict.get? d k).isNone = true) :
    Dict.set d k ((Dict.get? d k).getD [] ++ [v]) = appendAt d k v := by
  have := ensure_then_append d k v; rwa [if_neg h] at this

/-! ### `SizeIndex.build` -/
abbrev SiState := Int × Int × List (Nat × List Nat) × List Nat × Nat

private def siStep (ce : Bool) (b : SiState) (a : Nat) : SiState :=
  (if (a : Int) < b.1 then (a : Int) else b.1,
   if (a : Int) > b.2.1 then (a : Int) else b.2.1,
   if a = 0 then b.2.2.1 else appendAt b.2.2.1 a b.2.2.2.2,
   if ce && a == 0 then b.2.2.2.1 ++ [b.2.2.2.2] else b.2.2.2.1,
   b.2.2.2.2 + 1)

private theorem siFold (ce : Bool) (L : List Nat) (mn mx : Int) (idx : List (Nat × List Nat)) (er : List Nat)
    (rid : Nat) :
    L.foldl (siStep ce) (mn, mx, idx, er, rid) =
      (L.foldl (fun (m : Int) (n : Nat) => if (n : Int) < m then (n : Int) else m) mn,
       L.foldl (fun (m : Int) (n : Nat) => if (n : Int) > m then (n : Int) else m) mx,
       (L.zipIdx rid).foldl (fun d (p : Nat × Nat) => if p.1 = 0 then d else appendAt d p.1 p.2) idx,
       er ++ (if ce then (L.zipIdx rid).filterMap (fun (p : Nat × Nat) => if p.1 = 0 then some p.2 else none) else []),
       rid + L.length) := by
  induction L generalizing mn mx idx er rid with
  | nil => simp
  | cons a as ih =>
    rw [List.foldl_cons, siStep, ih]
    simp only [List.foldl_cons, List.zipIdx_cons, List.length_cons]
    refine Prod.ext rfl (Prod.ext rfl (Prod.ext rfl (Prod.ext ?_ (by simp; omega))))
    cases ce <;> simp
    by_cases h0 : a = 0 <;> simp [h0]

private theorem si_main (ce : Bool) (L : List Nat) (F : SiState → Nat → SiState)
    (hF : ∀ b a, F b a = siStep ce b a) :
    ({ index := (L.foldl F (maxsize, 0, [], [], 0)).2.2.1,
       minLength := (L.foldl F (maxsize, 0, [], [], 0)).1,
       maxLength := (L.foldl F (maxsize, 0, [], [], 0)).2.1,
       emptyRecords := (L.foldl F (maxsize, 0, [], [], 0)).2.2.2.1 } : SizeIndex)
      = SizeIndex.build L ce := by
  have : F = siStep ce := by funext b a; exact hF b a
  subst this
  rw [siFold]
  unfold SizeIndex.build minLength maxLength emptyRecords
  simp only [List.nil_append]

theorem SizeIndex_build_eq (sizes : List Nat) (ce : Bool) : SizeIndex_build sizes ce = SizeIndex.build sizes ce := by
  unfold SizeIndex_build
  gen2_loop_norm
  refine si_main ce sizes _ ?_
  intro b a
  unfold siStep
  simp only [Int.ofNat_eq_natCast, decide_eq_true_eq, beq_iff_eq]
  split_ifs <;> first | rfl | simp_all [ensure_none, ensure_some]

/-! ### `PrefixIndex.build` -/
abbrev PxState := List (Nat × List Nat) × List Nat × Nat

private def pxStep (cfg : FCfg) (ce : Bool) (b : PxState) (a : List Nat) : PxState :=
  ((pyTake a (cfg.prefixLen a.length)).foldl (fun d t => appendAt d t b.2.2) b.1,
   if ce && a.length == 0 then b.2.1 ++ [b.2.2] else b.2.1,
   b.2.2 + 1)

private theorem pxFold (cfg : FCfg) (ce : Bool) (L : List (List Nat)) (idx : List (Nat × List Nat))
    (er : List Nat) (rid : Nat) :
    L.foldl (pxStep cfg ce) (idx, er, rid) =
      ((L.zipIdx rid).foldl (fun d (p : List Nat × Nat) =>
          (pyTake p.1 (cfg.prefixLen p.1.length)).foldl (fun d t => appendAt d t p.2) d) idx,
       er ++ (if ce then ((L.map List.length).zipIdx rid).filterMap
                (fun (p : Nat × Nat) => if p.1 = 0 then some p.2 else none) else []),
       rid + L.length) := by
  induction L generalizing idx er rid with
  | nil => simp
  | cons a as ih =>
    rw [List.foldl_cons, pxStep, ih]
    simp only [List.foldl_cons, List.zipIdx_cons, List.length_cons, List.map_cons]
    refine Prod.ext rfl (Prod.ext ?_ (by simp; omega))
    cases ce <;> simp
    by_cases h0 : a = [] <;> simp [h0]

private theorem px_main (cfg : FCfg) (ce : Bool) (L : List (List Nat)) (F : PxState → List Nat → PxState)
    (hF : ∀ b a, F b a = pxStep cfg ce b a) :
    ({ index := (L.foldl F ([], [], 0)).1, emptyRecords := (L.foldl F ([], [], 0)).2.1 } : PrefIndex)
      = PrefIndex.build cfg L ce := by
  have : F = pxStep cfg ce := by funext b a; exact hF b a
  subst this
  rw [pxFold]
  unfold PrefIndex.build prefPostings emptyRecords
  simp only [List.nil_append]

theorem PrefixIndex_build_eq (cfg : FCfg) (ordToks : List (List Nat)) (ce : Bool) :
    PrefixIndex_build cfg ordToks ce = PrefIndex.build cfg ordToks ce := by
  unfold PrefixIndex_build
  gen2_loop_norm
  simp only [ensure_then_append]
  refine px_main cfg ce ordToks _ ?_
  intro b a
  unfold pxStep
  split_ifs <;> rfl

/-! ### `InvertedIndex.build` -/
abbrev IvState := List (String × List Nat) × List Nat × List Nat × Nat

private def ivStep (cs ce : Bool) (b : IvState) (a : List String) : IvState :=
  (a.foldl (fun d t => appendAt d t b.2.2.2) b.1,
   if cs then b.2.1 ++ [a.length] else b.2.1,
   if ce && a.length == 0 then b.2.2.1 ++ [b.2.2.2] else b.2.2.1,
   b.2.2.2 + 1)

private theorem ivFold (cs ce : Bool) (L : List (List String)) (idx : List (String × List Nat))
    (sc er : List Nat) (rid : Nat) :
    L.foldl (ivStep cs ce) (idx, sc, er, rid) =
      ((L.zipIdx rid).foldl (fun d (p : List String × Nat) => p.1.foldl (fun d t => appendAt d t p.2) d) idx,
       sc ++ (if cs then L.map List.length else []),
       er ++ (if ce then ((L.map List.length).zipIdx rid).filterMap
                (fun (p : Nat × Nat) => if p.1 = 0 then some p.2 else none) else []),
       rid + L.length) := by
  induction L generalizing idx sc er rid with
  | nil => simp
  | cons a as ih =>
    rw [List.foldl_cons, ivStep, ih]
    simp only [List.foldl_cons, List.zipIdx_cons, List.length_cons, List.map_cons]
    refine Prod.ext rfl (Prod.ext ?_ (Prod.ext ?_ (by simp; omega)))
    · cases cs <;> simp
    · cases ce <;> simp
      by_cases h0 : a = [] <;> simp [h0]

private theorem iv_main (cs ce : Bool) (L : List (List String)) (F : IvState → List String → IvState)
    (hF : ∀ b a, F b a = ivStep cs ce b a) :
    ({ index := (L.foldl F ([], [], [], 0)).1, sizeCache := (L.foldl F ([], [], [], 0)).2.1,
       emptyRecords := (L.foldl F ([], [], [], 0)).2.2.1 } : InvIndex)
      = InvIndex.build L cs ce := by
  have : F = ivStep cs ce := by funext b a; exact hF b a
  subst this
  rw [ivFold]
  unfold InvIndex.build emptyRecords
  simp only [List.nil_append]

theorem InvertedIndex_build_eq (toks : List (List String)) (cs ce : Bool) :
    InvertedIndex_build toks cs ce = InvIndex.build toks cs ce := by
  unfold InvertedIndex_build
  gen2_loop_norm
  simp only [ensure_then_append]
  refine iv_main cs ce toks _ ?_
  intro b a
  unfold ivStep
  split_ifs <;> rfl

/-! ### `gen_token_ordering_for_tables` -/
theorem rank_loop' (L : List (String × Nat)) (k : Nat) (acc : List (String × Nat))
    (hnd : ((acc ++ L).map (·.1)).Nodup) :
    (L.foldl (fun (b : List (String × Nat) × Nat) a => (Dict.set b.1 a.1 b.2, b.2 + 1)) (acc, k)).1
      = acc ++ (L.zipIdx k).map (fun p => (p.1.1, p.2)) := by
  induction L generalizing k acc with
  | nil => simp
  | cons x xs ih =>
    have hx : x.1 ∉ acc.map (·.1) := by
      intro hm
      simp only [List.map_append, List.map_cons] at hnd
      exact (List.nodup_append.mp hnd).2.2 _ hm _ (List.mem_cons_self) rfl
    rw [List.foldl_cons]
    simp only [dict_set_of_not_mem _ _ _ hx]
    rw [ih (k + 1) (acc ++ [(x.1, k)]) (by simpa using hnd)]
    simp

theorem gen_token_ordering_for_tables_eq (tables : List (List Row)) (attrs : List Nat) (tok : String → List Tok) :
    gen_token_ordering_for_tables tables attrs tok
      = genTokenOrdering (tables.zipIdx.flatMap (fun (p : List Row × Nat) =>
          p.1.map (fun row => tok (row.cell (attrs.getD p.2 0)).strVal))) := by
  unfold gen_token_ordering_for_tables genTokenOrdering
  gen2_loop_norm
  rw [foldl_counter_zipIdx (fun d (table : List Row) i => List.foldl (fun d row =>
        List.foldl (fun d t => Dict.set d t (Dict.getD d t 0 + 1)) d (tok (Row.cell row (attrs.getD i 0)).strVal)) d table)]
  have hfreq : List.foldl (fun s (p : List Row × Nat) =>
        List.foldl (fun d row => List.foldl (fun d t => Dict.set d t (Dict.getD d t 0 + 1)) d
          (tok (row.cell (attrs.getD p.2 0)).strVal)) s p.1) [] tables.zipIdx
      = tokenFreq (List.flatMap (fun (p : List Row × Nat) =>
          List.map (fun row => tok (row.cell (attrs.getD p.2 0)).strVal) p.1) tables.zipIdx) := by
    unfold tokenFreq
    rw [List.foldl_flatMap]
    simp only [List.foldl_map]
  simp only [hfreq]
  rw [rank_loop']
  · unfold rankTokens
    simp only [List.nil_append]
    rw [List.zipIdx_succ]
    simp [List.map_map, Function.comp_def]
  · simp only [List.nil_append]
    exact (((List.mergeSort_perm _ _).trans (List.mergeSort_perm _ _)).map _).nodup_iff.mpr
      (tokenFreq_keys_nodup _)

/-- the call made by the filters and joins: two tables, two attributes -/
theorem gen_token_ordering_for_tables_two (lt rt : List Row) (la ra : Nat) (tok : String → List Tok) :
    gen_token_ordering_for_tables [lt, rt] [la, ra] tok
      = genTokenOrdering (lt.map (fun row => tok (row.cell la).strVal) ++ rt.map (fun row => tok (row.cell ra).strVal)) := by
  rw [gen_token_ordering_for_tables_eq]
  simp

/-! ## Group D: per-chunk workers -/
theorem get_output_row_from_tables_eq' (l r : Row) (a b : Nat) (c d : List Nat) (h : Bool) :
    get_output_row_from_tables l r a b c d = getOutputRow ⟨a, b, c, d, h⟩ l r :=
  get_output_row_from_tables_eq ⟨a, b, c, d, h⟩ l r

/-- rows are collected in `output_rows`; the second component is the scratch variable `output_row` -/
theorem foldl_rows_map {ι : Type} (g : ι → Row) (l : List ι) (acc : List Row) (junk : Row) :
    (l.foldl (fun (b : List Row × Row) a => (b.1 ++ [g a], g a)) (acc, junk)).1 = acc ++ l.map g := by
  induction l generalizing acc junk with
  | nil => simp
  | cons x xs ih => rw [List.foldl_cons, ih]; simp

theorem foldl_rows_filter1 {ι : Type} (p : ι → Prop) [DecidablePred p] (g : ι → Row) (l : List ι)
    (acc : List Row) (junk : Row) :
    (l.foldl (fun (b : List Row × Row) a => if p a then (b.1 ++ [g a], g a) else (b.1, b.2)) (acc, junk)).1
      = acc ++ l.filterMap (fun a => if p a then some (g a) else none) := by
  induction l generalizing acc junk with
  | nil => simp
  | cons x xs ih =>
    rw [List.foldl_cons]
    by_cases h : p x
    · simp only [h, if_true]; rw [ih]; simp [h]
    · simp only [h, if_false]; rw [ih]; simp [h]

theorem foldl_rows_filter2 {ι : Type} (p q : ι → Prop) [DecidablePred p] [DecidablePred q] (g : ι → Row)
    (l : List ι) (acc : List Row) (junk : Row) :
    (l.foldl (fun (b : List Row × Row) a =>
        if p a then (if q a then (b.1 ++ [g a], g a) else (b.1, b.2)) else (b.1, b.2)) (acc, junk)).1
      = acc ++ l.filterMap (fun a => if p a then (if q a then some (g a) else none) else none) := by
  induction l generalizing acc junk with
  | nil => simp
  | cons x xs ih =>
    rw [List.foldl_cons]
    by_cases h : p x <;> by_cases h2 : q x <;> simp only [h, h2, if_true, if_false] <;> rw [ih] <;> simp [h, h2]

theorem foldl_ite_append {α β : Type} (c : α → Prop) [DecidablePred c] (X Y : α → List β) (l : List α)
    (acc : List β) :
    l.foldl (fun b a => if c a then b ++ X a else b ++ Y a) acc
      = acc ++ l.flatMap (fun a => if c a then X a else Y a) := by
  induction l generalizing acc with
  | nil => simp
  | cons x xs ih =>
    rw [List.foldl_cons, List.flatMap_cons]
    by_cases h : c x <;> simp only [h, if_true, if_false] <;> rw [ih] <;> simp

theorem flatMap_zip_map {α β γ : Type} (l : List α) (f : α → β) (h : α × β → List γ) :
    (l.zip (l.map f)).flatMap h = l.flatMap (fun a => h (a, f a)) := by
  induction l with
  | nil => rfl
  | cons x xs ih => simp [ih]

theorem positionFindCandidates_cfg (f g : FilterObj) (h : f.cfg = g.cfg) (toks : List Nat) (idx : PosIndex) :
    positionFindCandidates f toks idx = positionFindCandidates g toks idx := by
  unfold positionFindCandidates posStep
  rw [h]

theorem set_sim_join_eq (ltable rtable : List Row) (lcols rcols : List String) (lkey rkey ljoin rjoin : String)
    (tok : String → List Tok) (cfg : FCfg) (compOp : String) (allowEmpty : Bool)
    (lout rout : Option (List String)) (lpre rpre : String) (outSim : Bool) :
    set_sim_join ltable rtable lcols rcols lkey rkey ljoin rjoin tok cfg compOp allowEmpty lout rout lpre rpre outSim
      = (getOutputHeader lkey rkey lout rout lpre rpre ++ (if outSim then ["_sim_score"] else []),
         setSimJoin { f := { cfg := cfg, allowEmpty := allowEmpty }, compOp := compOp,
                      lAttr := lcols.idxOf ljoin, rAttr := rcols.idxOf rjoin,
                      out := { lKey := lcols.idxOf lkey, rKey := rcols.idxOf rkey,
                               lOut := findOutputAttributeIndices lcols lout,
                               rOut := findOutputAttributeIndices rcols rout,
                               hasOut := lout.isSome || rout.isSome },
                      outSimScore := outSim } tok ltable rtable) := by
  unfold set_sim_join setSimJoin
  simp only [find_output_attribute_indices_eq, gen_token_ordering_for_tables_two, PositionIndex_build_eq,
    order_using_token_ordering_eq, PositionFilter_find_candidates_eq, get_output_header_from_tables_eq,
    get_output_row_from_tables_eq' _ _ _ _ _ _ (lout.isSome || rout.isSome), List.map_map, Function.comp_def,
    flatMap_zip_map,
    positionFindCandidates_cfg { cfg := cfg, allowEmpty := allowEmpty } { cfg := cfg } rfl]
  gen2_loop_norm
  generalize genTokenOrdering (_ ++ _) = ordering
  generalize PosIndex.build cfg _ allowEmpty true = idx
  generalize (lout.isSome || rout.isSome) = hasOut
  generalize findOutputAttributeIndices lcols lout = lo
  generalize findOutputAttributeIndices rcols rout = ro
  generalize List.idxOf lkey lcols = lk
  generalize List.idxOf rkey rcols = rk
  generalize List.idxOf rjoin rcols = rj
  generalize getOutputHeader lkey rkey lout rout lpre rpre = hdr
  cases outSim <;> cases hasOut <;>
    simp only [if_true, if_false, Bool.false_eq_true, decide_eq_true_eq, foldl_rows_map, foldl_rows_filter2,
      foldl_ite_append, withScore, outputRow, List.append_nil, List.nil_append, beq_eq_decide]

theorem SizeFilter_filter_tables_split_eq (ltable rtable : List Row) (lcols rcols : List String)
    (lkey rkey lattr rattr : String) (f : FilterObj) (tok : String → List Tok)
    (lout rout : Option (List String)) (lpre rpre : String) :
    SizeFilter_filter_tables_split ltable rtable lcols rcols lkey rkey lattr rattr f tok lout rout lpre rpre
      = (getOutputHeader lkey rkey lout rout lpre rpre,
         sizeFilterTablesSplit f tok
           { lKey := lcols.idxOf lkey, rKey := rcols.idxOf rkey, lOut := findOutputAttributeIndices lcols lout,
             rOut := findOutputAttributeIndices rcols rout, hasOut := lout.isSome || rout.isSome }
           (lcols.idxOf lattr) (rcols.idxOf rattr) ltable rtable) := by
  unfold SizeFilter_filter_tables_split sizeFilterTablesSplit handleEmpty
  simp only [find_output_attribute_indices_eq, SizeIndex_build_eq, SizeFilter_find_candidates_eq,
    get_output_header_from_tables_eq,
    get_output_row_from_tables_eq' _ _ _ _ _ _ (lout.isSome || rout.isSome), List.map_map, Function.comp_def]
  gen2_loop_norm
  generalize SizeIndex.build _ _ = idx
  generalize (lout.isSome || rout.isSome) = hasOut
  generalize findOutputAttributeIndices lcols lout = lo
  generalize findOutputAttributeIndices rcols rout = ro
  cases hasOut <;>
    simp only [if_true, if_false, Bool.false_eq_true, decide_eq_true_eq, foldl_rows_map,
      foldl_ite_append, outputRow, List.append_nil, List.nil_append, beq_eq_decide]

theorem prefixFindCandidates_cfg (f g : FilterObj) (h : f.cfg = g.cfg) (toks : List Nat) (idx : PrefIndex) :
    prefixFindCandidates f toks idx = prefixFindCandidates g toks idx := by
  unfold prefixFindCandidates
  rw [h]

theorem PrefixFilter_filter_tables_split_eq (ltable rtable : List Row) (lcols rcols : List String)
    (lkey rkey lattr rattr : String) (f : FilterObj) (tok : String → List Tok)
    (lout rout : Option (List String)) (lpre rpre : String) :
    PrefixFilter_filter_tables_split ltable rtable lcols rcols lkey rkey lattr rattr f tok lout rout lpre rpre
      = (getOutputHeader lkey rkey lout rout lpre rpre,
         prefixFilterTablesSplit f tok
           { lKey := lcols.idxOf lkey, rKey := rcols.idxOf rkey, lOut := findOutputAttributeIndices lcols lout,
             rOut := findOutputAttributeIndices rcols rout, hasOut := lout.isSome || rout.isSome }
           (lcols.idxOf lattr) (rcols.idxOf rattr) ltable rtable) := by
  unfold PrefixFilter_filter_tables_split prefixFilterTablesSplit handleEmpty
  simp only [find_output_attribute_indices_eq, gen_token_ordering_for_tables_two, PrefixIndex_build_eq,
    order_using_token_ordering_eq, PrefixFilter_find_candidates_eq, get_output_header_from_tables_eq,
    get_output_row_from_tables_eq' _ _ _ _ _ _ (lout.isSome || rout.isSome), List.map_map, Function.comp_def,
    flatMap_zip_map]
  gen2_loop_norm
  generalize genTokenOrdering (_ ++ _) = ordering
  generalize PrefIndex.build _ _ _ = idx
  generalize (lout.isSome || rout.isSome) = hasOut
  generalize findOutputAttributeIndices lcols lout = lo
  generalize findOutputAttributeIndices rcols rout = ro
  cases hasOut <;>
    simp only [if_true, if_false, Bool.false_eq_true, decide_eq_true_eq, foldl_rows_map,
      foldl_ite_append, outputRow, List.append_nil, List.nil_append, beq_eq_decide]

theorem PositionFilter_filter_tables_split_eq (ltable rtable : List Row) (lcols rcols : List String)
    (lkey rkey lattr rattr : String) (f : FilterObj) (tok : String → List Tok)
    (lout rout : Option (List String)) (lpre rpre : String) :
    PositionFilter_filter_tables_split ltable rtable lcols rcols lkey rkey lattr rattr f tok lout rout lpre rpre
      = (getOutputHeader lkey rkey lout rout lpre rpre,
         positionFilterTablesSplit f tok
           { lKey := lcols.idxOf lkey, rKey := rcols.idxOf rkey, lOut := findOutputAttributeIndices lcols lout,
             rOut := findOutputAttributeIndices rcols rout, hasOut := lout.isSome || rout.isSome }
           (lcols.idxOf lattr) (rcols.idxOf rattr) ltable rtable) := by
  unfold PositionFilter_filter_tables_split positionFilterTablesSplit handleEmpty
  simp only [find_output_attribute_indices_eq, gen_token_ordering_for_tables_two, PositionIndex_build_eq,
    order_using_token_ordering_eq, PositionFilter_find_candidates_eq, get_output_header_from_tables_eq,
    get_output_row_from_tables_eq' _ _ _ _ _ _ (lout.isSome || rout.isSome), List.map_map, Function.comp_def,
    flatMap_zip_map]
  gen2_loop_norm
  generalize genTokenOrdering (_ ++ _) = ordering
  generalize PosIndex.build _ _ _ _ = idx
  generalize (lout.isSome || rout.isSome) = hasOut
  generalize findOutputAttributeIndices lcols lout = lo
  generalize findOutputAttributeIndices rcols rout = ro
  cases hasOut <;>
    simp only [if_true, if_false, Bool.false_eq_true, decide_eq_true_eq, foldl_rows_map, foldl_rows_filter1,
      foldl_ite_append, outputRow, List.append_nil, List.nil_append, beq_eq_decide]

theorem foldl_append_if {ι β : Type} (p : ι → Prop) [DecidablePred p] (g : ι → β) (l : List ι) (acc : List β) :
    l.foldl (fun b a => if p a then b ++ [g a] else b) acc
      = acc ++ l.filterMap (fun a => if p a then some (g a) else none) := by
  induction l generalizing acc with
  | nil => simp
  | cons x xs ih =>
    rw [List.foldl_cons]
    by_cases h : p x <;> simp only [h, if_true, if_false] <;> rw [ih] <;> simp [h]

theorem foldl_append_flatMap {α β : Type} (X : α → List β) (l : List α) (acc : List β) :
    l.foldl (fun b a => b ++ X a) acc = acc ++ l.flatMap X := by
  induction l generalizing acc with
  | nil => simp
  | cons x xs ih => rw [List.foldl_cons, ih]; simp

theorem OverlapFilter_filter_tables_split_eq (ltable rtable : List Row) (lcols rcols : List String)
    (lkey rkey lattr rattr : String) (f : OverlapFilterObj) (tok : String → List Tok)
    (lout rout : Option (List String)) (lpre rpre : String) (outSim : Bool) :
    OverlapFilter_filter_tables_split ltable rtable lcols rcols lkey rkey lattr rattr f tok lout rout lpre rpre outSim
      = (getOutputHeader lkey rkey lout rout lpre rpre ++ (if outSim then ["_sim_score"] else []),
         overlapFilterTablesSplit f tok
           { lKey := lcols.idxOf lkey, rKey := rcols.idxOf rkey, lOut := findOutputAttributeIndices lcols lout,
             rOut := findOutputAttributeIndices rcols rout, hasOut := lout.isSome || rout.isSome }
           (lcols.idxOf lattr) (rcols.idxOf rattr) outSim ltable rtable) := by
  unfold OverlapFilter_filter_tables_split overlapFilterTablesSplit
  simp only [find_output_attribute_indices_eq, InvertedIndex_build_eq,
    OverlapFilter_find_candidates_eq, get_output_header_from_tables_eq,
    get_output_row_from_tables_eq' _ _ _ _ _ _ (lout.isSome || rout.isSome), List.map_map, Function.comp_def]
  gen2_loop_norm
  generalize InvIndex.build _ _ _ = idx
  generalize (lout.isSome || rout.isSome) = hasOut
  generalize findOutputAttributeIndices lcols lout = lo
  generalize findOutputAttributeIndices rcols rout = ro
  cases outSim <;> cases hasOut <;>
    simp only [if_true, if_false, Bool.false_eq_true, decide_eq_true_eq, foldl_rows_map, foldl_rows_filter1,
      foldl_append_if, foldl_append_flatMap,
      foldl_ite_append, outputRow, List.append_nil, List.nil_append, beq_eq_decide]

theorem filter_suffix_guard {β : Type} (f : FilterObj) (lSuf or_ : List Nat) (lp rp : Int) (ln : Nat) (X Y Z : β) :
    (if (decide (lp ≤ 0) || decide (rp ≤ 0)) = true then X
      else if (!SuffixFilter_filter_suffix f lSuf (pyDrop or_ rp) lp rp ln or_.length) = true then Y else Z)
    = (if (decide (lp ≤ 0) || decide (rp ≤ 0)) = true then X
      else if (!suffixFilterSuffixN f lSuf (pyDrop or_ rp) lp rp ln or_.length) = true then Y else Z) := by
  split
  · rfl
  · rename_i h
    simp only [Bool.or_eq_true, decide_eq_true_eq, not_or, not_le] at h
    rw [SuffixFilter_filter_suffix_eq]
    by_cases hle : rp ≤ (or_.length : Int)
    · exact Or.inl hle
    · right
      apply pyDrop_eq_nil
      · omega
      · omega

theorem foldl_ite3 {ι β : Type} (c1 c2 c3 : ι → Prop) [DecidablePred c1] [DecidablePred c2] [DecidablePred c3]
    (g : ι → β) (l : List ι) (acc : List β) :
    l.foldl (fun b a => if c1 a then b ++ [g a] else if c2 a then b else if c3 a then b ++ [g a] else b) acc
      = acc ++ l.flatMap (fun a => if c1 a then [g a] else if c2 a then [] else if c3 a then [g a] else []) := by
  induction l generalizing acc with
  | nil => simp
  | cons x xs ih =>
    rw [List.foldl_cons, List.flatMap_cons, ih]
    by_cases h1 : c1 x <;> by_cases h2 : c2 x <;> by_cases h3 : c3 x <;> simp [h1, h2, h3]

theorem SuffixFilter_filter_tables_split_eq (ltable rtable : List Row) (lcols rcols : List String)
    (lkey rkey lattr rattr : String) (f : FilterObj) (tok : String → List Tok)
    (lout rout : Option (List String)) (lpre rpre : String) :
    SuffixFilter_filter_tables_split ltable rtable lcols rcols lkey rkey lattr rattr f tok lout rout lpre rpre
      = (getOutputHeader lkey rkey lout rout lpre rpre,
         suffixFilterTablesSplit f tok
           { lKey := lcols.idxOf lkey, rKey := rcols.idxOf rkey, lOut := findOutputAttributeIndices lcols lout,
             rOut := findOutputAttributeIndices rcols rout, hasOut := lout.isSome || rout.isSome }
           (lcols.idxOf lattr) (rcols.idxOf rattr) ltable rtable) := by
  unfold SuffixFilter_filter_tables_split suffixFilterTablesSplit handleEmpty
  simp only [find_output_attribute_indices_eq, gen_token_ordering_for_tables_two,
    order_using_token_ordering_eq, get_output_header_from_tables_eq,
    get_output_row_from_tables_eq' _ _ _ _ _ _ (lout.isSome || rout.isSome), List.map_map, Function.comp_def,
    flatMap_zip_map]
  gen2_loop_norm
  generalize genTokenOrdering (_ ++ _) = ordering
  generalize (lout.isSome || rout.isSome) = hasOut
  generalize findOutputAttributeIndices lcols lout = lo
  generalize findOutputAttributeIndices rcols rout = ro
  simp only [filter_suffix_guard]
  cases hasOut <;>
    simp only [if_true, if_false, Bool.false_eq_true, decide_eq_true_eq, foldl_ite3, foldl_append_flatMap,
      outputRow, List.append_nil, List.nil_append, beq_eq_decide]

theorem overlap_coefficient_join_split_eq (ltable rtable : List Row) (lcols rcols : List String)
    (lkey rkey ljoin rjoin : String) (tok : String → List Tok) (threshold : PyV) (compOp : String)
    (allowEmpty : Bool) (lout rout : Option (List String)) (lpre rpre : String) (outSim : Bool) :
    overlap_coefficient_join_split ltable rtable lcols rcols lkey rkey ljoin rjoin tok threshold compOp allowEmpty
        lout rout lpre rpre outSim
      = (getOutputHeader lkey rkey lout rout lpre rpre ++ (if outSim then ["_sim_score"] else []),
         overlapCoefficientJoinSplit threshold compOp allowEmpty (lcols.idxOf ljoin) (rcols.idxOf rjoin)
           { lKey := lcols.idxOf lkey, rKey := rcols.idxOf rkey, lOut := findOutputAttributeIndices lcols lout,
             rOut := findOutputAttributeIndices rcols rout, hasOut := lout.isSome || rout.isSome }
           outSim tok ltable rtable) := by
  unfold overlap_coefficient_join_split overlapCoefficientJoinSplit
  simp only [find_output_attribute_indices_eq, InvertedIndex_build_eq,
    OverlapFilter_find_candidates_eq, get_output_header_from_tables_eq,
    get_output_row_from_tables_eq' _ _ _ _ _ _ (lout.isSome || rout.isSome), List.map_map, Function.comp_def]
  gen2_loop_norm
  generalize InvIndex.build _ _ _ = idx
  generalize (lout.isSome || rout.isSome) = hasOut
  generalize findOutputAttributeIndices lcols lout = lo
  generalize findOutputAttributeIndices rcols rout = ro
  cases outSim <;> cases hasOut <;>
    simp only [if_true, if_false, Bool.false_eq_true, decide_eq_true_eq, foldl_rows_map, foldl_rows_filter1,
      foldl_append_if, foldl_append_flatMap, withScore, Int.ofNat_eq_natCast, Nat.cast_min,
      foldl_ite_append, outputRow, List.append_nil, List.nil_append, beq_eq_decide]

theorem foldl_append_if2 {ι β : Type} (p q : ι → Prop) [DecidablePred p] [DecidablePred q] (g : ι → β)
    (l : List ι) (acc : List β) :
    l.foldl (fun b a => if p a then (if q a then b ++ [g a] else b) else b) acc
      = acc ++ l.filterMap (fun a => if p a then (if q a then some (g a) else none) else none) := by
  induction l generalizing acc with
  | nil => simp
  | cons x xs ih =>
    rw [List.foldl_cons]
    by_cases h : p x <;> by_cases h2 : q x <;> simp only [h, h2, if_true, if_false] <;> rw [ih] <;> simp [h, h2]

theorem edit_distance_join_split_eq (ltable rtable : List Row) (lcols rcols : List String)
    (lkey rkey ljoin rjoin : String) (tok : String → List Tok) (qval threshold : Int) (compOp : String)
    (lout rout : Option (List String)) (lpre rpre : String) (outSim : Bool) :
    edit_distance_join_split ltable rtable lcols rcols lkey rkey ljoin rjoin tok qval threshold compOp
        lout rout lpre rpre outSim
      = (getOutputHeader lkey rkey lout rout lpre rpre ++ (if outSim then ["_sim_score"] else []),
         editDistanceJoinSplit threshold qval compOp (lcols.idxOf ljoin) (rcols.idxOf rjoin)
           { lKey := lcols.idxOf lkey, rKey := rcols.idxOf rkey, lOut := findOutputAttributeIndices lcols lout,
             rOut := findOutputAttributeIndices rcols rout, hasOut := lout.isSome || rout.isSome }
           outSim tok ltable rtable) := by
  unfold edit_distance_join_split editDistanceJoinSplit
  simp only [find_output_attribute_indices_eq, gen_token_ordering_for_tables_two, PrefixIndex_build_eq,
    order_using_token_ordering_eq, PrefixFilter_find_candidates_eq, get_output_header_from_tables_eq,
    get_output_row_from_tables_eq' _ _ _ _ _ _ (lout.isSome || rout.isSome), List.map_map, Function.comp_def,
    flatMap_zip_map]
  gen2_loop_norm
  generalize genTokenOrdering (_ ++ _) = ordering
  generalize PrefIndex.build _ _ _ = idx
  generalize (lout.isSome || rout.isSome) = hasOut
  generalize findOutputAttributeIndices lcols lout = lo
  generalize findOutputAttributeIndices rcols rout = ro
  cases outSim <;> cases hasOut <;>
    simp only [if_true, if_false, Bool.false_eq_true, decide_eq_true_eq, foldl_rows_map, foldl_rows_filter1,
      foldl_rows_filter2, foldl_append_map, Bool.and_eq_true, foldl_append_if2,
      foldl_append_if, foldl_append_flatMap, withScore, Int.ofNat_eq_natCast,
      foldl_ite_append, outputRow, List.append_nil, List.nil_append, beq_eq_decide]

/-! ## Group E -/
theorem build_dict_from_table_eq (rows : List Row) (k j : Nat) :
    build_dict_from_table rows k j false = buildDict rows k := by
  unfold build_dict_from_table buildDict
  gen2_loop_norm
  simp

/-- two-component fold state (rows, scratch row) of a nested loop that appends one row per inner element -/
theorem foldl_rows_map_nested {ι κ : Type} (g : ι → κ → Row) (inner : ι → List κ) (l : List ι)
    (acc : List Row) (junk : Row) :
    (l.foldl (fun (b : List Row × Row) a =>
        ((inner a).foldl (fun (b : List Row × Row) c => (b.1 ++ [g a c], g a c)) (b.1, b.2))) (acc, junk)).1
      = acc ++ l.flatMap (fun a => (inner a).map (g a)) := by
  induction l generalizing acc junk with
  | nil => simp
  | cons x xs ih =>
    rw [List.foldl_cons]
    have h := foldl_rows_map (g x) (inner x) acc junk
    generalize List.foldl (fun (b : List Row × Row) c => (b.1 ++ [g x c], g x c)) (acc, junk) (inner x) = p at h ⊢
    obtain ⟨p1, p2⟩ := p
    simp only at h
    subst h
    rw [ih]; simp

theorem get_pairs_with_missing_value_eq (l r : Frame) (lKey rKey lJoin rJoin : String)
    (lOut rOut : Option (List String)) (lPre rPre : String) (outSim : Bool) :
    getPairsWithMissingValue l r lKey rKey lJoin rJoin lOut rOut lPre rPre outSim =
      (let g := get_pairs_with_missing_value l.columns r.columns
          (l.rows.filter (fun row => (row.cell (l.colIdx lJoin)).isMissing))
          (l.rows.filter (fun row => !(row.cell (l.colIdx lJoin)).isMissing))
          (r.rows.filter (fun row => (row.cell (r.colIdx rJoin)).isMissing))
          r.rows lKey rKey lJoin rJoin lOut rOut lPre rPre outSim
       (mkRows g.2 g.1).map (fun rows => (g.1, rows))) := by
  unfold getPairsWithMissingValue get_pairs_with_missing_value getPairsWithMissingValue.missingScoreFirstLoop
  simp only [find_output_attribute_indices_eq, get_output_header_from_tables_eq,
    get_output_row_from_tables_eq' _ _ _ _ _ _ (lOut.isSome || rOut.isSome), Frame.colIdx]
  gen2_loop_norm
  generalize (lOut.isSome || rOut.isSome) = hasOut
  generalize findOutputAttributeIndices l.columns lOut = lo
  generalize findOutputAttributeIndices r.columns rOut = ro
  cases outSim <;> cases hasOut <;>
    simp only [if_true, if_false, Bool.false_eq_true, foldl_rows_map_nested, withScore, outputRow,
      List.append_nil, List.nil_append]


/-! ## Fuel: the values in the type table are sufficient (more fuel does not change the result) -/

/-- `_binary_search` halves a window of `right - left + 1` positions: with `right - left < fuel` the recursion
    ends before the fuel does, so the result does not depend on the fuel.  (`_partition` calls it with
    `fuel = right - left + 2`.) -/
theorem suffixBinarySearch_fuel (tokens : List Nat) (p : Nat) (fuel : Nat) (left right : Int)
    (h : left ≤ right) (hf : (right - left).toNat < fuel) :
    suffixBinarySearch tokens p (fuel + 1) left right = suffixBinarySearch tokens p fuel left right := by
  induction fuel generalizing left right with
  | zero => omega
  | succ n ih =>
    rw [suffixBinarySearch, suffixBinarySearch]
    simp only [floor_half]
    split
    · rfl
    · rename_i hne
      split
      · rfl
      · split
        · by_cases hlr : (left + right) / 2 + 1 ≤ right
          · exact ih _ _ hlr (by omega)
          · omega
        · exact ih _ _ (by omega) (by omega)

theorem SuffixFilter_binary_search_fuel (tokens : List Nat) (p : Nat) (fuel : Nat) (left right : Int)
    (h : left ≤ right) (hf : (right - left).toNat < fuel) :
    SuffixFilter_binary_search (fuel + 1) tokens p left right = SuffixFilter_binary_search fuel tokens p left right := by
  rw [SuffixFilter_binary_search_eq, SuffixFilter_binary_search_eq]
  exact suffixBinarySearch_fuel tokens p fuel left right h hf

/-- `_est_hamming_dist_lower_bound` recurses with `depth + 1` and returns at once when `depth > max_depth`:
    with `maxDepth + 2 ≤ fuel + depth` the result does not depend on the fuel.  (`_filter_suffix` calls it with
    depth 1, max_depth 2 and fuel 4.) -/
theorem suffixEstHamming_fuel (md : Nat) (fuel : Nat) (l r : List Nat) (ln rn hmax : Int) (depth : Nat)
    (h : md + 2 ≤ fuel + depth) :
    suffixEstHamming md (fuel + 1) l r ln rn hmax depth = suffixEstHamming md fuel l r ln rn hmax depth := by
  induction fuel generalizing l r ln rn hmax depth with
  | zero =>
    rw [suffixEstHamming, suffixEstHamming]
    have : depth > md := by omega
    simp [this]
  | succ n ih =>
    have ih' : ∀ (l r : List Nat) (ln rn hmax : Int),
        suffixEstHamming md (n + 1) l r ln rn hmax (depth + 1) = suffixEstHamming md n l r ln rn hmax (depth + 1) :=
      fun l r ln rn hmax => ih l r ln rn hmax (depth + 1) (by omega)
    rw [suffixEstHamming, suffixEstHamming]
    simp only [ih']

theorem SuffixFilter_est_hamming_fuel (fuel : Nat) (l r : List Nat) (ln rn hmax : Int) (depth : Nat)
    (hr : 0 ≤ rn ∨ r = []) (h : 4 ≤ fuel + depth) :
    SuffixFilter_est_hamming_dist_lower_bound (fuel + 1) l r ln rn hmax depth
      = SuffixFilter_est_hamming_dist_lower_bound fuel l r ln rn hmax depth := by
  rw [SuffixFilter_est_hamming_dist_lower_bound_eq _ _ _ _ _ _ _ hr,
    SuffixFilter_est_hamming_dist_lower_bound_eq _ _ _ _ _ _ _ hr]
  exact suffixEstHamming_fuel 2 fuel l r ln rn hmax depth h

end SSJ.Gen2

/-
  SSJ.Proofs.Matcher — apply_matcher (C05), filter_candset (C06), missing-value pairs (C08),
  and the generic "processing in chunks" facts used for n_jobs independence.
-/
import SSJ.Model.Matcher
import SSJ.Props.Common
import SSJ.Proofs.Rows
import SSJ.Proofs.KeyEq
import Mathlib.Data.List.Basic
import Mathlib.Data.List.Nodup
import Mathlib.Data.List.ProdSigma

namespace SSJ

/-! ## A. generic facts about `mapM` / `filterMapM` in `Except` and chunked processing -/

section Generic
variable {ε α β : Type}

theorem except_mapM_cons (f : α → Except ε β) (x : α) (l : List α) :
    (x :: l).mapM f = (match f x with
      | .error e => .error e
      | .ok y => match l.mapM f with
        | .error e => .error e
        | .ok ys => .ok (y :: ys)) := by
  rw [List.mapM_cons]
  cases f x <;> cases l.mapM f <;> rfl

theorem except_mapM_append (f : α → Except ε β) (l₁ l₂ : List α) :
    (l₁ ++ l₂).mapM f = (match l₁.mapM f with
      | .error e => .error e
      | .ok ys₁ => match l₂.mapM f with
        | .error e => .error e
        | .ok ys₂ => .ok (ys₁ ++ ys₂)) := by
  induction l₁ with
  | nil => simp only [List.nil_append, List.mapM_nil]; cases l₂.mapM f <;> rfl
  | cons x l ih =>
    rw [List.cons_append, except_mapM_cons, except_mapM_cons, ih]
    cases f x <;> cases l.mapM f <;> cases l₂.mapM f <;> rfl

/-- a `mapM` all of whose calls succeed is a `map` -/
theorem except_mapM_ok (f : α → Except ε β) (g : α → β) (l : List α)
    (h : ∀ x ∈ l, f x = .ok (g x)) : l.mapM f = .ok (l.map g) := by
  induction l with
  | nil => rfl
  | cons x l ih =>
    rw [except_mapM_cons, h x (List.mem_cons_self), ih (fun y hy => h y (List.mem_cons_of_mem _ hy))]
    rfl

/-- a `mapM` whose calls can only fail with `e`, and one of which fails, fails with `e` -/
theorem except_mapM_error (f : α → Except ε β) (e : ε) (l : List α)
    (hall : ∀ x ∈ l, ∀ e', f x = .error e' → e' = e)
    (hex : ∃ x ∈ l, ∃ e', f x = .error e') : l.mapM f = .error e := by
  induction l with
  | nil => obtain ⟨x, hx, _⟩ := hex; cases hx
  | cons x l ih =>
    rw [except_mapM_cons]
    cases hfx : f x with
    | error e' => rw [hall x List.mem_cons_self e' hfx]
    | ok y =>
      have hex' : ∃ x ∈ l, ∃ e', f x = .error e' := by
        obtain ⟨z, hz, e', he'⟩ := hex
        rcases List.mem_cons.1 hz with rfl | hz
        · rw [hfx] at he'; cases he'
        · exact ⟨z, hz, e', he'⟩
      rw [ih (fun y hy => hall y (List.mem_cons_of_mem _ hy)) hex']

theorem except_mapM_congr (f g : α → Except ε β) (l : List α) (h : ∀ x ∈ l, f x = g x) :
    l.mapM f = l.mapM g := by
  induction l with
  | nil => rfl
  | cons x l ih =>
    rw [except_mapM_cons, except_mapM_cons, h x List.mem_cons_self,
      ih (fun y hy => h y (List.mem_cons_of_mem _ hy))]

/-- processing every chunk with `mapM f` and `filterMap id`, then concatenating, equals
    processing the concatenation -/
theorem mapM_flatten_of_chunks {α β : Type} (f : α → Except PyErr (Option β)) (chunks : List (List α)) :
    (chunks.mapM (fun (ch : List α) => (ch.mapM f).map (·.filterMap id))).map List.flatten
      = (chunks.flatten.mapM f).map (·.filterMap id) := by
  induction chunks with
  | nil => rfl
  | cons ch rest ih =>
    rw [List.flatten_cons, except_mapM_append, except_mapM_cons]
    cases h1 : ch.mapM f with
    | error e => rfl
    | ok ys =>
      cases h2 : rest.flatten.mapM f with
      | error e =>
        rw [h2] at ih
        cases h3 : rest.mapM (fun (ch : List α) => (ch.mapM f).map (·.filterMap id)) with
        | error e' => rw [h3] at ih; simp only [Except.map] at ih ⊢; exact ih
        | ok zs => rw [h3] at ih; simp only [Except.map] at ih; cases ih
      | ok ys₂ =>
        rw [h2] at ih
        cases h3 : rest.mapM (fun (ch : List α) => (ch.mapM f).map (·.filterMap id)) with
        | error e' => rw [h3] at ih; simp only [Except.map] at ih; cases ih
        | ok zs =>
          rw [h3] at ih
          simp only [Except.map, Except.ok.injEq] at ih ⊢
          rw [List.flatten_cons, ih, List.filterMap_append]

/-- `filterMapM` in `Except` is `mapM` followed by `filterMap id` -/
theorem except_filterMapM_eq (f : α → Except ε (Option β)) (l : List α) :
    l.filterMapM f = (l.mapM f).map (·.filterMap id) := by
  induction l with
  | nil => rfl
  | cons x l ih =>
    rw [List.filterMapM_cons, except_mapM_cons, ih]
    cases f x with
    | error e => rfl
    | ok y => cases y <;> cases l.mapM f <;> rfl

/-- the `filterMapM` form of `mapM_flatten_of_chunks` (shape used by `filterCandset`) -/
theorem filterMapM_flatten_of_chunks {α β : Type} (f : α → Except PyErr (Option β)) (chunks : List (List α)) :
    (chunks.mapM (fun (ch : List α) => ch.filterMapM f)).map List.flatten = chunks.flatten.filterMapM f := by
  rw [except_filterMapM_eq, ← mapM_flatten_of_chunks]
  congr 2
  funext ch
  exact except_filterMapM_eq f ch

end Generic

/-! ## Python dicts as association lists -/

namespace Dict
variable {κ ν : Type} [DecidableEq κ]

theorem mat_get?_set (d : List (κ × ν)) (k k' : κ) (v : ν) :
    get? (set d k v) k' = if k = k' then some v else get? d k' := by
  induction d with
  | nil => simp only [set, get?]
  | cons p m ih =>
    obtain ⟨k₀, v₀⟩ := p
    simp only [set]
    by_cases h0 : k₀ = k
    · subst h0
      simp only [if_true, get?]
      split <;> rfl
    · simp only [h0, if_false, get?, ih]
      by_cases h1 : k₀ = k'
      · subst h1
        simp only [if_true, if_false, Ne.symm h0]
      · simp only [h1, if_false]

end Dict

section FoldSet
variable {α κ ν : Type} [DecidableEq κ]

/-- building a dict by successive assignment: keys not assigned keep their old value -/
theorem get?_foldl_set_of_not_mem (key : α → κ) (val : α → ν) (l : List α) (d : List (κ × ν)) (k : κ)
    (h : k ∉ l.map key) :
    Dict.get? (l.foldl (fun d a => Dict.set d (key a) (val a)) d) k = Dict.get? d k := by
  induction l generalizing d with
  | nil => rfl
  | cons a l ih =>
    simp only [List.map_cons, List.mem_cons, not_or] at h
    rw [List.foldl_cons, ih _ h.2, Dict.mat_get?_set, if_neg (Ne.symm h.1)]

/-- with pairwise distinct keys, every assigned key maps to its own value -/
theorem get?_foldl_set_of_mem (key : α → κ) (val : α → ν) (l : List α) (d : List (κ × ν))
    (hnd : (l.map key).Nodup) (a : α) (ha : a ∈ l) :
    Dict.get? (l.foldl (fun d a => Dict.set d (key a) (val a)) d) (key a) = some (val a) := by
  induction l generalizing d with
  | nil => cases ha
  | cons b l ih =>
    rw [List.map_cons, List.nodup_cons] at hnd
    rw [List.foldl_cons]
    by_cases hk : key a ∈ l.map key
    · rcases List.mem_cons.1 ha with rfl | ha'
      · exact absurd hk hnd.1
      · exact ih _ hnd.2 ha'
    · rcases List.mem_cons.1 ha with rfl | ha'
      · rw [get?_foldl_set_of_not_mem key val l _ _ hk, Dict.mat_get?_set, if_pos rfl]
      · exact absurd (List.mem_map_of_mem ha') hk

/-- whatever a lookup returns was assigned by some element, or was there before -/
theorem get?_foldl_set_some (key : α → κ) (val : α → ν) (l : List α) (d : List (κ × ν)) (k : κ) (v : ν)
    (h : Dict.get? (l.foldl (fun d a => Dict.set d (key a) (val a)) d) k = some v) :
    (∃ a ∈ l, key a = k ∧ val a = v) ∨ Dict.get? d k = some v := by
  induction l generalizing d with
  | nil => exact Or.inr h
  | cons b l ih =>
    rw [List.foldl_cons] at h
    rcases ih _ h with ⟨a, ha, hk, hv⟩ | h'
    · exact Or.inl ⟨a, List.mem_cons_of_mem _ ha, hk, hv⟩
    · rw [Dict.mat_get?_set] at h'
      by_cases hb : key b = k
      · rw [if_pos hb] at h'
        exact Or.inl ⟨b, List.mem_cons_self, hb, Option.some.inj h'⟩
      · rw [if_neg hb] at h'
        exact Or.inr h'

end FoldSet

/-! ## B. apply_matcher -/

/-- lookup in `buildDict` with (Python-)unique keys returns the row whose key is Python-equal to the probe -/
theorem buildDict_get (rows : List Row) (keyIdx : Nat) (h : PyDistinct (rows.map (·.cell keyIdx))) (row : Row)
    (hr : row ∈ rows) (k : Cell) (hk : (row.cell keyIdx).pyEq k = true) :
    Dict.getPy? (buildDict rows keyIdx) k = some row :=
  getPy?_foldl_setPy_of_mem (fun r : Row => r.cell keyIdx) (fun r => r) rows [] h row hr k hk

/-- … in particular the row carrying exactly that key -/
theorem buildDict_get_self (rows : List Row) (keyIdx : Nat) (h : PyDistinct (rows.map (·.cell keyIdx))) (row : Row)
    (hr : row ∈ rows) : Dict.getPy? (buildDict rows keyIdx) (row.cell keyIdx) = some row :=
  buildDict_get rows keyIdx h row hr _ (Cell.pyEq_refl _)

/-- whatever `buildDict` returns for a probe is a row of the table whose key is Python-equal to the probe -/
theorem buildDict_get_some (rows : List Row) (keyIdx : Nat) (k : Cell) (row : Row)
    (h : Dict.getPy? (buildDict rows keyIdx) k = some row) : row ∈ rows ∧ (row.cell keyIdx).pyEq k = true := by
  rcases getPy?_foldl_setPy_some (fun r : Row => r.cell keyIdx) (fun r => r) rows [] k row h with ⟨a, ha, hk, hv⟩ | h'
  · cases hv; exact ⟨ha, hk⟩
  · cases h'

/-- a probe Python-equal to no key of the table is absent from `buildDict` -/
theorem buildDict_get_none (rows : List Row) (keyIdx : Nat) (k : Cell) (h : ¬ PyMem k (rows.map (·.cell keyIdx))) :
    Dict.getPy? (buildDict rows keyIdx) k = none :=
  getPy?_foldl_setPy_of_not_mem (fun r : Row => r.cell keyIdx) (fun r => r) rows [] k (fun a ha => by
    cases hk : (a.cell keyIdx).pyEq k with
    | false => rfl
    | true => exact absurd ⟨a.cell keyIdx, List.mem_map_of_mem (f := fun r : Row => r.cell keyIdx) ha, hk⟩ h)

/-- the token cache holds, for a row with present join value, the tokens of that value — under every probe
    Python-equal to the row's key -/
theorem generateTokens_get (rows : List Row) (keyIdx attrIdx : Nat) (tok : String → List Tok)
    (h : PyDistinct (rows.map (·.cell keyIdx))) (row : Row) (hr : row ∈ rows)
    (hm : (row.cell attrIdx).isMissing = false) (k : Cell) (hk : (row.cell keyIdx).pyEq k = true) :
    Dict.getPy? (generateTokens rows keyIdx attrIdx tok) k = some (tok (row.cell attrIdx).strVal) := by
  have hnd : PyDistinct ((rows.filter (fun r => !(r.cell attrIdx).isMissing)).map (·.cell keyIdx)) :=
    h.sublist (List.filter_sublist.map _)
  have hmem : row ∈ rows.filter (fun r => !(r.cell attrIdx).isMissing) := by
    rw [List.mem_filter]; exact ⟨hr, by rw [hm]; rfl⟩
  exact getPy?_foldl_setPy_of_mem (fun r : Row => r.cell keyIdx) (fun r => tok (r.cell attrIdx).strVal) _ [] hnd row hmem
    k hk


/-- what apply_matcher must do with one candidate row `cr`, given the looked-up source rows -/
def matcherRowSpec (a : MatcherArgs) (o : OutCfg) (tok : Option (String → List Tok)) (sim : SimArg → SimArg → PyV)
    (lAttrIdx rAttrIdx : Nat) (cr lRow rRow : Row) (lId rId : Cell) : Option Row :=
  let lv := lRow.cell lAttrIdx
  let rv := rRow.cell rAttrIdx
  let mk (score : Cell) : Row :=
    withScore a.outSimScore (if o.hasOut then cr.cell 0 :: getOutputRow o lRow rRow else [cr.cell 0, lId, rId]) score
  if lv.isMissing || rv.isMissing then (if a.allowMissing then some (mk .missing) else none)
  else
    let (la, ra) : SimArg × SimArg := match tok with
      | some tk => (.toks (tk lv.strVal), .toks (tk rv.strVal))
      | none => (.raw lv, .raw rv)
    let s := sim la ra
    if compFn a.compOp s a.threshold then some (mk (scoreCell s)) else none

/-- the per-row body of `applyMatcherSplit` (verbatim) -/
def matcherRowM (a : MatcherArgs) (candLIdx candRIdx : Nat)
    (lRows rRows : List Row) (lKeyIdx lAttrIdx rKeyIdx rAttrIdx : Nat) (o : OutCfg)
    (tok : Option (String → List Tok)) (sim : SimArg → SimArg → PyV)
    (cache : Option (List (Cell × List Tok) × List (Cell × List Tok)))
    (cr : Row) : Except PyErr (Option Row) := do
  let lId := cr.cell candLIdx
  let rId := cr.cell candRIdx
  let lRow ← match Dict.getPy? (buildDict lRows lKeyIdx) lId with | some r => pure r | none => throw PyErr.other
  let rRow ← match Dict.getPy? (buildDict rRows rKeyIdx) rId with | some r => pure r | none => throw PyErr.other
  let lv := lRow.cell lAttrIdx
  let rv := rRow.cell rAttrIdx
  let mk (score : Cell) : Row :=
    withScore a.outSimScore
      (if o.hasOut then cr.cell 0 :: getOutputRow o lRow rRow else [cr.cell 0, lId, rId]) score
  if lv.isMissing || rv.isMissing then
    pure (if a.allowMissing then some (mk .missing) else none)
  else
    if tok.isSome && cache.isNone && !(lv.isStr && rv.isStr) then throw PyErr.typeErr else
    let (la, ra) : SimArg × SimArg :=
      match tok with
      | some tk =>
        match cache with
        | some (lc, rc) => (.toks (Dict.getPyD lc lId []), .toks (Dict.getPyD rc rId []))
        | none => (.toks (tk lv.strVal), .toks (tk rv.strVal))
      | none => (.raw lv, .raw rv)
    let s := sim la ra
    pure (if compFn a.compOp s a.threshold then some (mk (scoreCell s)) else none)

/-- all cells of column `j` are strings or missing (the `Prop` form of `joinCellsOk`) -/
def StrCells (rows : List Row) (j : Nat) : Prop := ∀ row ∈ rows, (row.cell j).strOrMissing = true

theorem joinCellsOk_iff (rows : List Row) (j : Nat) : joinCellsOk rows j = true ↔ StrCells rows j := by
  unfold joinCellsOk StrCells
  rw [List.all_eq_true]

theorem Cell.isStr_of_strOrMissing (c : Cell) (h : c.strOrMissing = true) (hm : c.isMissing = false) :
    c.isStr = true := by
  cases c <;> first | rfl | (exact Bool.noConfusion hm) | (exact Bool.noConfusion h)

theorem Cell.strOrMissing_of_isStr (c : Cell) (h : c.isStr = true) : c.strOrMissing = true := by
  cases c <;> first | rfl | cases h

theorem Cell.strOrMissing_of_isMissing (c : Cell) (h : c.isMissing = true) : c.strOrMissing = true := by
  cases c <;> first | rfl | cases h

/-- the outcome of one candidate row when no value is rejected by the tokenizer: KeyError if a key is
    absent, else the row specification -/
def matcherRowRes (a : MatcherArgs) (candLIdx candRIdx : Nat)
    (lRows rRows : List Row) (lKeyIdx lAttrIdx rKeyIdx rAttrIdx : Nat) (o : OutCfg)
    (tok : Option (String → List Tok)) (sim : SimArg → SimArg → PyV) (cr : Row) : Except PyErr (Option Row) :=
  match Dict.getPy? (buildDict lRows lKeyIdx) (cr.cell candLIdx), Dict.getPy? (buildDict rRows rKeyIdx) (cr.cell candRIdx) with
  | some lRow, some rRow =>
    .ok (matcherRowSpec a o tok sim lAttrIdx rAttrIdx cr lRow rRow (cr.cell candLIdx) (cr.cell candRIdx))
  | _, _ => .error PyErr.other

theorem applyMatcherSplit_eq_mapM (a : MatcherArgs) (candLIdx candRIdx : Nat) (lRows rRows : List Row)
    (lKeyIdx lAttrIdx rKeyIdx rAttrIdx : Nat) (o : OutCfg) (tok : Option (String → List Tok)) (sim : SimArg → SimArg → PyV)
    (cache : Option (List (Cell × List Tok) × List (Cell × List Tok))) (chunk : List Row) :
    applyMatcherSplit a candLIdx candRIdx lRows rRows lKeyIdx lAttrIdx rKeyIdx rAttrIdx o tok sim cache chunk
      = (chunk.mapM (matcherRowM a candLIdx candRIdx lRows rRows lKeyIdx lAttrIdx rKeyIdx rAttrIdx o tok sim cache)).map
          (·.filterMap id) := by
  unfold applyMatcherSplit
  show (do let rows ← chunk.mapM (matcherRowM a candLIdx candRIdx lRows rRows lKeyIdx lAttrIdx rKeyIdx rAttrIdx o tok sim cache)
           pure (rows.filterMap id)) = _
  cases chunk.mapM (matcherRowM a candLIdx candRIdx lRows rRows lKeyIdx lAttrIdx rKeyIdx rAttrIdx o tok sim cache) <;> rfl

/-- one row, no cache: KeyError if a key is absent; TypeError if a tokenizer is given and one of the two
    (present) values is not a string; else exactly the row specification -/
theorem matcherRowM_none (a : MatcherArgs) (candLIdx candRIdx : Nat) (lRows rRows : List Row)
    (lKeyIdx lAttrIdx rKeyIdx rAttrIdx : Nat) (o : OutCfg) (tok : Option (String → List Tok)) (sim : SimArg → SimArg → PyV)
    (cr : Row) :
    matcherRowM a candLIdx candRIdx lRows rRows lKeyIdx lAttrIdx rKeyIdx rAttrIdx o tok sim none cr
      = (match Dict.getPy? (buildDict lRows lKeyIdx) (cr.cell candLIdx), Dict.getPy? (buildDict rRows rKeyIdx) (cr.cell candRIdx) with
         | some lRow, some rRow =>
            if (tok.isSome && !((lRow.cell lAttrIdx).isMissing || (rRow.cell rAttrIdx).isMissing) &&
                !((lRow.cell lAttrIdx).isStr && (rRow.cell rAttrIdx).isStr)) = true then .error PyErr.typeErr
            else .ok (matcherRowSpec a o tok sim lAttrIdx rAttrIdx cr lRow rRow (cr.cell candLIdx) (cr.cell candRIdx))
         | _, _ => .error PyErr.other) := by
  unfold matcherRowM matcherRowSpec
  dsimp only
  cases Dict.getPy? (buildDict lRows lKeyIdx) (cr.cell candLIdx) with
  | none => rfl
  | some lRow =>
    cases Dict.getPy? (buildDict rRows rKeyIdx) (cr.cell candRIdx) with
    | none => rfl
    | some rRow =>
      simp only [pure_bind]
      cases tok <;> by_cases hm : ((lRow.cell lAttrIdx).isMissing || (rRow.cell rAttrIdx).isMissing) = true <;>
        by_cases hs : ((lRow.cell lAttrIdx).isStr && (rRow.cell rAttrIdx).isStr) = true <;>
        simp only [hm, hs, if_true, Option.isSome_none, Option.isSome_some, Option.isNone_none, Bool.false_and,
          Bool.true_and, Bool.not_true, Bool.not_false, Bool.and_false, Bool.and_true, Bool.false_eq_true, if_false] <;> rfl

/-- one row, no cache: a normal return is the row specification -/
theorem matcherRowM_none_ok (a : MatcherArgs) (candLIdx candRIdx : Nat) (lRows rRows : List Row)
    (lKeyIdx lAttrIdx rKeyIdx rAttrIdx : Nat) (o : OutCfg) (tok : Option (String → List Tok)) (sim : SimArg → SimArg → PyV)
    (cr : Row) (y : Option Row)
    (h : matcherRowM a candLIdx candRIdx lRows rRows lKeyIdx lAttrIdx rKeyIdx rAttrIdx o tok sim none cr = .ok y) :
    y = (match Dict.getPy? (buildDict lRows lKeyIdx) (cr.cell candLIdx), Dict.getPy? (buildDict rRows rKeyIdx) (cr.cell candRIdx) with
         | some lRow, some rRow => matcherRowSpec a o tok sim lAttrIdx rAttrIdx cr lRow rRow (cr.cell candLIdx) (cr.cell candRIdx)
         | _, _ => none) := by
  rw [matcherRowM_none] at h
  cases hl : Dict.getPy? (buildDict lRows lKeyIdx) (cr.cell candLIdx) with
  | none => rw [hl] at h; cases h
  | some lRow =>
    cases hr : Dict.getPy? (buildDict rRows rKeyIdx) (cr.cell candRIdx) with
    | none => rw [hl, hr] at h; cases h
    | some rRow =>
      rw [hl, hr] at h
      dsimp only at h ⊢
      split at h
      · cases h
      · exact (Except.ok.inj h).symm

/-- one row, no cache, both keys known: the only exception is the tokenizer's TypeError -/
theorem matcherRowM_none_error (a : MatcherArgs) (candLIdx candRIdx : Nat) (lRows rRows : List Row)
    (lKeyIdx lAttrIdx rKeyIdx rAttrIdx : Nat) (o : OutCfg) (tok : Option (String → List Tok)) (sim : SimArg → SimArg → PyV)
    (cr : Row) (e : PyErr)
    (hl : (Dict.getPy? (buildDict lRows lKeyIdx) (cr.cell candLIdx)).isSome)
    (hr : (Dict.getPy? (buildDict rRows rKeyIdx) (cr.cell candRIdx)).isSome)
    (h : matcherRowM a candLIdx candRIdx lRows rRows lKeyIdx lAttrIdx rKeyIdx rAttrIdx o tok sim none cr = .error e) :
    e = .typeErr := by
  rw [matcherRowM_none] at h
  cases hl' : Dict.getPy? (buildDict lRows lKeyIdx) (cr.cell candLIdx) with
  | none => rw [hl'] at hl; cases hl
  | some lRow =>
    cases hr' : Dict.getPy? (buildDict rRows rKeyIdx) (cr.cell candRIdx) with
    | none => rw [hr'] at hr; cases hr
    | some rRow =>
      rw [hl', hr'] at h
      dsimp only at h
      split at h
      · exact (Except.error.inj h).symm
      · cases h

/-- one row, no cache, string columns: the tokenizer rejects nothing -/
theorem matcherRowM_none_str (a : MatcherArgs) (candLIdx candRIdx : Nat) (lRows rRows : List Row)
    (lKeyIdx lAttrIdx rKeyIdx rAttrIdx : Nat) (o : OutCfg) (tok : Option (String → List Tok)) (sim : SimArg → SimArg → PyV)
    (hstr : tok.isSome → StrCells lRows lAttrIdx ∧ StrCells rRows rAttrIdx) (cr : Row) :
    matcherRowM a candLIdx candRIdx lRows rRows lKeyIdx lAttrIdx rKeyIdx rAttrIdx o tok sim none cr
      = matcherRowRes a candLIdx candRIdx lRows rRows lKeyIdx lAttrIdx rKeyIdx rAttrIdx o tok sim cr := by
  rw [matcherRowM_none, matcherRowRes]
  cases hl : Dict.getPy? (buildDict lRows lKeyIdx) (cr.cell candLIdx) with
  | none => rfl
  | some lRow =>
    cases hr : Dict.getPy? (buildDict rRows rKeyIdx) (cr.cell candRIdx) with
    | none => rfl
    | some rRow =>
      dsimp only
      rw [if_neg]
      intro hg
      simp only [Bool.and_eq_true, Bool.not_eq_true', Bool.or_eq_false_iff] at hg
      obtain ⟨⟨ht, hml, hmr⟩, hns⟩ := hg
      obtain ⟨hL, hR⟩ := hstr ht
      have h1 := Cell.isStr_of_strOrMissing _ (hL lRow (buildDict_get_some _ _ _ _ hl).1) hml
      have h2 := Cell.isStr_of_strOrMissing _ (hR rRow (buildDict_get_some _ _ _ _ hr).1) hmr
      rw [h1, h2] at hns
      cases hns

/-- one row with the token cache (built from the same tables with the same tokenizer): no value reaches
    the tokenizer here (`generate_tokens` did the tokenizing), the outcome is KeyError or the row specification -/
theorem matcherRowM_cache (a : MatcherArgs) (candLIdx candRIdx : Nat) (lRows rRows : List Row)
    (lKeyIdx lAttrIdx rKeyIdx rAttrIdx : Nat) (o : OutCfg) (tk : String → List Tok) (sim : SimArg → SimArg → PyV)
    (hlk : PyDistinct (lRows.map (·.cell lKeyIdx))) (hrk : PyDistinct (rRows.map (·.cell rKeyIdx))) (cr : Row) :
    matcherRowM a candLIdx candRIdx lRows rRows lKeyIdx lAttrIdx rKeyIdx rAttrIdx o (some tk) sim
        (some (generateTokens lRows lKeyIdx lAttrIdx tk, generateTokens rRows rKeyIdx rAttrIdx tk)) cr
      = matcherRowRes a candLIdx candRIdx lRows rRows lKeyIdx lAttrIdx rKeyIdx rAttrIdx o (some tk) sim cr := by
  unfold matcherRowM matcherRowRes matcherRowSpec
  dsimp only
  cases hl : Dict.getPy? (buildDict lRows lKeyIdx) (cr.cell candLIdx) with
  | none => rfl
  | some lRow =>
    cases hr : Dict.getPy? (buildDict rRows rKeyIdx) (cr.cell candRIdx) with
    | none => rfl
    | some rRow =>
      simp only [pure_bind]
      by_cases hm : ((lRow.cell lAttrIdx).isMissing || (rRow.cell rAttrIdx).isMissing) = true
      · simp only [hm, if_true]; rfl
      · simp only [hm, Option.isNone_some, Bool.and_false, Bool.false_and, Bool.false_eq_true, if_false]
        have hm' := hm
        simp only [Bool.or_eq_true, not_or, Bool.not_eq_true] at hm'
        obtain ⟨hl1, hl2⟩ := buildDict_get_some _ _ _ _ hl
        obtain ⟨hr1, hr2⟩ := buildDict_get_some _ _ _ _ hr
        have e1 : Dict.getPyD (generateTokens lRows lKeyIdx lAttrIdx tk) (cr.cell candLIdx) [] = tk (lRow.cell lAttrIdx).strVal := by
          rw [Dict.getPyD, generateTokens_get _ _ _ _ hlk lRow hl1 hm'.1 _ hl2]; rfl
        have e2 : Dict.getPyD (generateTokens rRows rKeyIdx rAttrIdx tk) (cr.cell candRIdx) [] = tk (rRow.cell rAttrIdx).strVal := by
          rw [Dict.getPyD, generateTokens_get _ _ _ _ hrk rRow hr1 hm'.2 _ hr2]; rfl
        rw [e1, e2]
        rfl

/-- one chunk, with or without the token cache, string columns: row-wise `matcherRowRes` -/
theorem applyMatcherSplit_eq_res (a : MatcherArgs) (candLIdx candRIdx : Nat) (lRows rRows : List Row)
    (lKeyIdx lAttrIdx rKeyIdx rAttrIdx : Nat) (o : OutCfg) (tok : Option (String → List Tok)) (sim : SimArg → SimArg → PyV)
    (useCache : Bool) (chunk : List Row)
    (hlk : PyDistinct (lRows.map (·.cell lKeyIdx))) (hrk : PyDistinct (rRows.map (·.cell rKeyIdx)))
    (hstr : tok.isSome → StrCells lRows lAttrIdx ∧ StrCells rRows rAttrIdx) :
    applyMatcherSplit a candLIdx candRIdx lRows rRows lKeyIdx lAttrIdx rKeyIdx rAttrIdx o tok sim
        (match (generalizing := false) tok, useCache with
         | some tk, true => some (generateTokens lRows lKeyIdx lAttrIdx tk, generateTokens rRows rKeyIdx rAttrIdx tk)
         | _, _ => none)
        chunk
      = (chunk.mapM (matcherRowRes a candLIdx candRIdx lRows rRows lKeyIdx lAttrIdx rKeyIdx rAttrIdx o tok sim)).map
          (·.filterMap id) := by
  rw [applyMatcherSplit_eq_mapM]
  refine congrArg _ (except_mapM_congr _ _ chunk (fun cr _ => ?_))
  cases tok with
  | none => exact matcherRowM_none_str _ _ _ _ _ _ _ _ _ _ _ _ hstr cr
  | some tk =>
    cases useCache with
    | false => exact matcherRowM_none_str _ _ _ _ _ _ _ _ _ _ _ _ hstr cr
    | true => exact matcherRowM_cache a candLIdx candRIdx lRows rRows lKeyIdx lAttrIdx rKeyIdx rAttrIdx o tk sim hlk hrk cr

/-- (B2) the result (rows or KeyError) does not depend on whether the token cache is used — when the two
    columns hold only strings and missing values (otherwise the no-cache path raises TypeError at the first
    referenced non-string, while with the cache `generate_tokens` has raised it before) -/
theorem applyMatcherSplit_cache_irrel (a : MatcherArgs) (candLIdx candRIdx : Nat) (lRows rRows : List Row)
    (lKeyIdx lAttrIdx rKeyIdx rAttrIdx : Nat) (o : OutCfg) (tok : Option (String → List Tok)) (sim : SimArg → SimArg → PyV)
    (useCache : Bool) (chunk : List Row)
    (hlk : PyDistinct (lRows.map (·.cell lKeyIdx))) (hrk : PyDistinct (rRows.map (·.cell rKeyIdx)))
    (hstr : tok.isSome → StrCells lRows lAttrIdx ∧ StrCells rRows rAttrIdx) :
    applyMatcherSplit a candLIdx candRIdx lRows rRows lKeyIdx lAttrIdx rKeyIdx rAttrIdx o tok sim
        (match (generalizing := false) tok, useCache with
         | some tk, true => some (generateTokens lRows lKeyIdx lAttrIdx tk, generateTokens rRows rKeyIdx rAttrIdx tk)
         | _, _ => none)
        chunk
      = applyMatcherSplit a candLIdx candRIdx lRows rRows lKeyIdx lAttrIdx rKeyIdx rAttrIdx o tok sim none chunk := by
  rw [applyMatcherSplit_eq_res _ _ _ _ _ _ _ _ _ _ _ _ useCache chunk hlk hrk hstr]
  have := applyMatcherSplit_eq_res a candLIdx candRIdx lRows rRows lKeyIdx lAttrIdx rKeyIdx rAttrIdx o tok sim false chunk
    hlk hrk hstr
  rw [← this]
  cases tok <;> rfl

/-- the candidate-row function of the specification -/
def matcherSpecFn (a : MatcherArgs) (candLIdx candRIdx : Nat) (lRows rRows : List Row)
    (lKeyIdx lAttrIdx rKeyIdx rAttrIdx : Nat) (o : OutCfg) (tok : Option (String → List Tok)) (sim : SimArg → SimArg → PyV)
    (cr : Row) : Option Row :=
  match Dict.getPy? (buildDict lRows lKeyIdx) (cr.cell candLIdx), Dict.getPy? (buildDict rRows rKeyIdx) (cr.cell candRIdx) with
  | some lRow, some rRow => matcherRowSpec a o tok sim lAttrIdx rAttrIdx cr lRow rRow (cr.cell candLIdx) (cr.cell candRIdx)
  | _, _ => none

/-- (C05) with or without the token cache, one chunk yields exactly the spec rows, in order -/
theorem applyMatcherSplit_spec (a : MatcherArgs) (candLIdx candRIdx : Nat) (lRows rRows : List Row)
    (lKeyIdx lAttrIdx rKeyIdx rAttrIdx : Nat) (o : OutCfg) (tok : Option (String → List Tok)) (sim : SimArg → SimArg → PyV)
    (useCache : Bool) (chunk : List Row)
    (hl : ∀ cr ∈ chunk, (Dict.getPy? (buildDict lRows lKeyIdx) (cr.cell candLIdx)).isSome)
    (hr : ∀ cr ∈ chunk, (Dict.getPy? (buildDict rRows rKeyIdx) (cr.cell candRIdx)).isSome)
    (hlk : PyDistinct (lRows.map (·.cell lKeyIdx))) (hrk : PyDistinct (rRows.map (·.cell rKeyIdx)))
    (hstr : tok.isSome → StrCells lRows lAttrIdx ∧ StrCells rRows rAttrIdx) :
    applyMatcherSplit a candLIdx candRIdx lRows rRows lKeyIdx lAttrIdx rKeyIdx rAttrIdx o tok sim
        (match (generalizing := false) tok, useCache with
         | some tk, true => some (generateTokens lRows lKeyIdx lAttrIdx tk, generateTokens rRows rKeyIdx rAttrIdx tk)
         | _, _ => none)
        chunk
      = .ok (chunk.filterMap (fun cr =>
          match Dict.getPy? (buildDict lRows lKeyIdx) (cr.cell candLIdx), Dict.getPy? (buildDict rRows rKeyIdx) (cr.cell candRIdx) with
          | some lRow, some rRow => matcherRowSpec a o tok sim lAttrIdx rAttrIdx cr lRow rRow (cr.cell candLIdx) (cr.cell candRIdx)
          | _, _ => none)) := by
  rw [applyMatcherSplit_eq_res _ _ _ _ _ _ _ _ _ _ _ _ _ _ hlk hrk hstr]
  rw [except_mapM_ok _ (matcherSpecFn a candLIdx candRIdx lRows rRows lKeyIdx lAttrIdx rKeyIdx rAttrIdx o tok sim) chunk]
  · simp only [Except.map]
    rw [List.filterMap_map]
    rfl
  · intro cr hcr
    rw [matcherRowRes, matcherSpecFn]
    have h1 := hl cr hcr
    have h2 := hr cr hcr
    cases h1' : Dict.getPy? (buildDict lRows lKeyIdx) (cr.cell candLIdx) with
    | none => rw [h1'] at h1; cases h1
    | some lRow =>
      cases h2' : Dict.getPy? (buildDict rRows rKeyIdx) (cr.cell candRIdx) with
      | none => rw [h2'] at h2; cases h2
      | some rRow => rfl

/-- one chunk fails (KeyError, `PyErr.other`) as soon as some candidate key is absent from a table (Python-equal
    to none of its keys);
    together with `applyMatcherSplit_spec`: it fails iff some candidate key is absent -/
theorem applyMatcherSplit_error (a : MatcherArgs) (candLIdx candRIdx : Nat) (lRows rRows : List Row)
    (lKeyIdx lAttrIdx rKeyIdx rAttrIdx : Nat) (o : OutCfg) (tok : Option (String → List Tok)) (sim : SimArg → SimArg → PyV)
    (useCache : Bool) (chunk : List Row)
    (hlk : PyDistinct (lRows.map (·.cell lKeyIdx))) (hrk : PyDistinct (rRows.map (·.cell rKeyIdx)))
    (hstr : tok.isSome → StrCells lRows lAttrIdx ∧ StrCells rRows rAttrIdx)
    (hex : ∃ cr ∈ chunk, Dict.getPy? (buildDict lRows lKeyIdx) (cr.cell candLIdx) = none ∨
                         Dict.getPy? (buildDict rRows rKeyIdx) (cr.cell candRIdx) = none) :
    applyMatcherSplit a candLIdx candRIdx lRows rRows lKeyIdx lAttrIdx rKeyIdx rAttrIdx o tok sim
        (match (generalizing := false) tok, useCache with
         | some tk, true => some (generateTokens lRows lKeyIdx lAttrIdx tk, generateTokens rRows rKeyIdx rAttrIdx tk)
         | _, _ => none)
        chunk
      = .error PyErr.other := by
  rw [applyMatcherSplit_eq_res _ _ _ _ _ _ _ _ _ _ _ _ _ _ hlk hrk hstr]
  rw [except_mapM_error _ PyErr.other chunk]
  · rfl
  · intro cr _ e' he'
    rw [matcherRowRes] at he'
    split at he'
    · cases he'
    · cases he'; rfl
  · obtain ⟨cr, hcr, h⟩ := hex
    refine ⟨cr, hcr, PyErr.other, ?_⟩
    rw [matcherRowRes]
    rcases h with h | h
    · rw [h]
    · rw [h]; split
      · next h' => cases h'
      · rfl

/-- (B1) a chunk can be cut anywhere: the result on `chunk₁ ++ chunk₂` is the concatenation of the
    results (the first KeyError, if any, is the overall result) — for any cache, no hypotheses -/
theorem applyMatcherSplit_append (a : MatcherArgs) (candLIdx candRIdx : Nat) (lRows rRows : List Row)
    (lKeyIdx lAttrIdx rKeyIdx rAttrIdx : Nat) (o : OutCfg) (tok : Option (String → List Tok)) (sim : SimArg → SimArg → PyV)
    (cache : Option (List (Cell × List Tok) × List (Cell × List Tok))) (chunk₁ chunk₂ : List Row) :
    applyMatcherSplit a candLIdx candRIdx lRows rRows lKeyIdx lAttrIdx rKeyIdx rAttrIdx o tok sim cache (chunk₁ ++ chunk₂)
      = (do let r₁ ← applyMatcherSplit a candLIdx candRIdx lRows rRows lKeyIdx lAttrIdx rKeyIdx rAttrIdx o tok sim cache chunk₁
            let r₂ ← applyMatcherSplit a candLIdx candRIdx lRows rRows lKeyIdx lAttrIdx rKeyIdx rAttrIdx o tok sim cache chunk₂
            pure (r₁ ++ r₂)) := by
  simp only [applyMatcherSplit_eq_mapM, except_mapM_append]
  cases chunk₁.mapM (matcherRowM a candLIdx candRIdx lRows rRows lKeyIdx lAttrIdx rKeyIdx rAttrIdx o tok sim cache) with
  | error e => rfl
  | ok ys₁ =>
    cases chunk₂.mapM (matcherRowM a candLIdx candRIdx lRows rRows lKeyIdx lAttrIdx rKeyIdx rAttrIdx o tok sim cache) with
    | error e => rfl
    | ok ys₂ =>
      show Except.ok (List.filterMap id (ys₁ ++ ys₂)) = Except.ok (List.filterMap id ys₁ ++ List.filterMap id ys₂)
      rw [List.filterMap_append]

/-- (B1, n_jobs form) any contiguous chunking gives the same rows in the same order (or the same
    error): running every chunk and concatenating equals running the concatenated chunk -/
theorem applyMatcherSplit_chunks (a : MatcherArgs) (candLIdx candRIdx : Nat) (lRows rRows : List Row)
    (lKeyIdx lAttrIdx rKeyIdx rAttrIdx : Nat) (o : OutCfg) (tok : Option (String → List Tok)) (sim : SimArg → SimArg → PyV)
    (cache : Option (List (Cell × List Tok) × List (Cell × List Tok))) (chunks : List (List Row)) :
    (chunks.mapM (applyMatcherSplit a candLIdx candRIdx lRows rRows lKeyIdx lAttrIdx rKeyIdx rAttrIdx o tok sim cache)).map
        List.flatten
      = applyMatcherSplit a candLIdx candRIdx lRows rRows lKeyIdx lAttrIdx rKeyIdx rAttrIdx o tok sim cache chunks.flatten := by
  rw [applyMatcherSplit_eq_mapM, ← mapM_flatten_of_chunks]
  exact congrArg (fun g => (chunks.mapM g).map List.flatten)
    (funext fun ch => applyMatcherSplit_eq_mapM _ _ _ _ _ _ _ _ _ _ _ _ _ ch)

/-- (B1 + C05) under the hypotheses of `applyMatcherSplit_spec` for the whole candset, every chunking
    whose chunks concatenate to the candset yields the spec rows of the whole candset -/
theorem applyMatcherSplit_chunks_spec (a : MatcherArgs) (candLIdx candRIdx : Nat) (lRows rRows : List Row)
    (lKeyIdx lAttrIdx rKeyIdx rAttrIdx : Nat) (o : OutCfg) (tok : Option (String → List Tok)) (sim : SimArg → SimArg → PyV)
    (useCache : Bool) (cand : List Row) (chunks : List (List Row)) (hchunks : chunks.flatten = cand)
    (hl : ∀ cr ∈ cand, (Dict.getPy? (buildDict lRows lKeyIdx) (cr.cell candLIdx)).isSome)
    (hr : ∀ cr ∈ cand, (Dict.getPy? (buildDict rRows rKeyIdx) (cr.cell candRIdx)).isSome)
    (hlk : PyDistinct (lRows.map (·.cell lKeyIdx))) (hrk : PyDistinct (rRows.map (·.cell rKeyIdx)))
    (hstr : tok.isSome → StrCells lRows lAttrIdx ∧ StrCells rRows rAttrIdx) :
    (chunks.mapM (applyMatcherSplit a candLIdx candRIdx lRows rRows lKeyIdx lAttrIdx rKeyIdx rAttrIdx o tok sim
        (match (generalizing := false) tok, useCache with
         | some tk, true => some (generateTokens lRows lKeyIdx lAttrIdx tk, generateTokens rRows rKeyIdx rAttrIdx tk)
         | _, _ => none))).map List.flatten
      = .ok (cand.filterMap (matcherSpecFn a candLIdx candRIdx lRows rRows lKeyIdx lAttrIdx rKeyIdx rAttrIdx o tok sim)) := by
  rw [applyMatcherSplit_chunks, hchunks,
    applyMatcherSplit_spec a candLIdx candRIdx lRows rRows lKeyIdx lAttrIdx rKeyIdx rAttrIdx o tok sim useCache cand hl hr hlk hrk hstr]
  rfl

theorem withScore_cons_cell_zero (b : Bool) (x : Cell) (r : Row) (s : Cell) : (withScore b (x :: r) s).cell 0 = x := by
  cases b <;> rfl

theorem matcherRowSpec_cell_zero (a : MatcherArgs) (o : OutCfg) (tok : Option (String → List Tok)) (sim : SimArg → SimArg → PyV)
    (lAttrIdx rAttrIdx : Nat) (cr lRow rRow : Row) (lId rId : Cell) (row : Row)
    (h : matcherRowSpec a o tok sim lAttrIdx rAttrIdx cr lRow rRow lId rId = some row) : row.cell 0 = cr.cell 0 := by
  have key : ∀ (c : Prop) [Decidable c] (s : Cell),
      (if c then some (withScore a.outSimScore
          (if o.hasOut then cr.cell 0 :: getOutputRow o lRow rRow else [cr.cell 0, lId, rId]) s) else none) = some row →
      row.cell 0 = cr.cell 0 := by
    intro c _ s h
    split at h
    · cases Option.some.inj h
      cases o.hasOut <;> exact withScore_cons_cell_zero _ _ _ _
    · cases h
  unfold matcherRowSpec at h
  dsimp only at h
  split at h
  · exact key _ _ h
  · cases tok <;> exact key _ _ h

/-- (B3) every output row starts with the `_id` cell of the candidate row it stems from, and output
    rows appear in candidate order: the `_id` column of the output is a sublist of the candset's -/
theorem applyMatcherSplit_ids_sublist (a : MatcherArgs) (candLIdx candRIdx : Nat) (lRows rRows : List Row)
    (lKeyIdx lAttrIdx rKeyIdx rAttrIdx : Nat) (o : OutCfg) (tok : Option (String → List Tok)) (sim : SimArg → SimArg → PyV)
    (useCache : Bool) (chunk : List Row)
    (hlk : PyDistinct (lRows.map (·.cell lKeyIdx))) (hrk : PyDistinct (rRows.map (·.cell rKeyIdx)))
    (hstr : tok.isSome → StrCells lRows lAttrIdx ∧ StrCells rRows rAttrIdx) (rows : List Row)
    (h : applyMatcherSplit a candLIdx candRIdx lRows rRows lKeyIdx lAttrIdx rKeyIdx rAttrIdx o tok sim
        (match (generalizing := false) tok, useCache with
         | some tk, true => some (generateTokens lRows lKeyIdx lAttrIdx tk, generateTokens rRows rKeyIdx rAttrIdx tk)
         | _, _ => none)
        chunk = .ok rows) :
    (rows.map (·.cell 0)).Sublist (chunk.map (·.cell 0)) := by
  -- all keys resolve, otherwise the call fails
  have hres : ∀ cr ∈ chunk, (Dict.getPy? (buildDict lRows lKeyIdx) (cr.cell candLIdx)).isSome ∧
      (Dict.getPy? (buildDict rRows rKeyIdx) (cr.cell candRIdx)).isSome := by
    intro cr hcr
    by_contra hcon
    have : Dict.getPy? (buildDict lRows lKeyIdx) (cr.cell candLIdx) = none ∨
        Dict.getPy? (buildDict rRows rKeyIdx) (cr.cell candRIdx) = none := by
      cases h1 : Dict.getPy? (buildDict lRows lKeyIdx) (cr.cell candLIdx) with
      | none => exact Or.inl rfl
      | some _ =>
        cases h2 : Dict.getPy? (buildDict rRows rKeyIdx) (cr.cell candRIdx) with
        | none => exact Or.inr rfl
        | some _ => rw [h1, h2] at hcon; exact absurd ⟨rfl, rfl⟩ hcon
    rw [applyMatcherSplit_error a candLIdx candRIdx lRows rRows lKeyIdx lAttrIdx rKeyIdx rAttrIdx o tok sim useCache chunk
      hlk hrk hstr ⟨cr, hcr, this⟩] at h
    cases h
  rw [applyMatcherSplit_spec a candLIdx candRIdx lRows rRows lKeyIdx lAttrIdx rKeyIdx rAttrIdx o tok sim useCache chunk
    (fun cr hcr => (hres cr hcr).1) (fun cr hcr => (hres cr hcr).2) hlk hrk hstr] at h
  cases Except.ok.inj h
  clear h hres
  induction chunk with
  | nil => exact List.Sublist.slnil
  | cons cr chunk ih =>
    rw [List.filterMap_cons]
    split
    · exact (ih).cons _
    · next row hrow =>
      rw [List.map_cons, List.map_cons]
      have : row.cell 0 = cr.cell 0 := by
        split at hrow
        · exact matcherRowSpec_cell_zero _ _ _ _ _ _ _ _ _ _ _ _ hrow
        · cases hrow
      rw [this]
      exact ih.cons_cons _

/-! ## D. missing-value pairs (C08) -/

theorem getOutputRow_length (o : OutCfg) (l r : Row) :
    (getOutputRow o l r).length = 2 + o.lOut.length + o.rOut.length := by
  simp only [getOutputRow, List.length_append, List.length_cons, List.length_nil, List.length_map]

theorem mat_outputRow_length (o : OutCfg) (l r : Row) :
    (outputRow o l r).length = 2 + (if o.hasOut then o.lOut.length + o.rOut.length else 0) := by
  unfold outputRow
  split
  · rw [getOutputRow_length]; omega
  · rfl

theorem mat_getOutputHeader_length (lKey rKey : String) (lOut rOut : Option (List String)) (lPre rPre : String) :
    (getOutputHeader lKey rKey lOut rOut lPre rPre).length = 2 + (lOut.getD []).length + (rOut.getD []).length := by
  simp only [getOutputHeader, List.length_append, List.length_cons, List.length_nil, List.length_map]

theorem withScore_length (b : Bool) (row : Row) (s : Cell) :
    (withScore b row s).length = row.length + (if b then 1 else 0) := by
  cases b
  · rfl
  · exact List.length_append

theorem foldl_max_length_eq (rows : List Row) (n m₀ : Nat) (h : ∀ r ∈ rows, r.length = n) (hm : m₀ ≤ n)
    (hne : rows ≠ []) : rows.foldl (fun m r => max m r.length) m₀ = n := by
  induction rows generalizing m₀ with
  | nil => exact absurd rfl hne
  | cons r rs ih =>
    rw [List.foldl_cons, h r List.mem_cons_self, Nat.max_eq_right hm]
    by_cases hrs : rs = []
    · subst hrs; rfl
    · exact ih n (fun r hr => h r (List.mem_cons_of_mem _ hr)) (Nat.le_refl n) hrs

/-- `DataFrame(rows, columns=header)` is the identity on rows that all have the header's width -/
theorem mkRows_of_length (rows : List Row) (header : List String) (h : ∀ r ∈ rows, r.length = header.length) :
    mkRows rows header = .ok rows := by
  unfold mkRows
  cases rows with
  | nil => rfl
  | cons r rs =>
    have hw := foldl_max_length_eq (r :: rs) header.length 0 h (Nat.zero_le _) (List.cons_ne_nil _ _)
    simp only [List.isEmpty_cons, Bool.false_eq_true, if_false, hw, ne_eq, not_true_eq_false]
    congr 1
    conv => rhs; rw [← List.map_id (r :: rs)]
    apply List.map_congr_left
    intro x hx
    rw [h x hx, Nat.sub_self, List.replicate_zero, List.append_nil]
    rfl

/-- the output configuration used by `get_pairs_with_missing_value` -/
def missingOutCfg (l r : Frame) (lKey rKey : String) (lOut rOut : Option (List String)) : OutCfg :=
  { lKey := l.colIdx lKey, rKey := r.colIdx rKey,
    lOut := findOutputAttributeIndices l.columns lOut,
    rOut := findOutputAttributeIndices r.columns rOut,
    hasOut := lOut.isSome || rOut.isSome }

/-- the header of `get_pairs_with_missing_value` -/
def missingHeader (lKey rKey : String) (lOut rOut : Option (List String)) (lPre rPre : String) (outSimScore : Bool) :
    List String :=
  getOutputHeader lKey rKey lOut rOut lPre rPre ++ (if outSimScore then ["_sim_score"] else [])

/-- the row emitted for the pair `(lRow, rRow)`: the output row, plus a missing score iff `outSimScore` -/
def missingRow (o : OutCfg) (outSimScore : Bool) (lRow rRow : Row) : Row :=
  withScore outSimScore (outputRow o lRow rRow) .missing

theorem missingRow_length (l r : Frame) (lKey rKey : String) (lOut rOut : Option (List String)) (lPre rPre : String)
    (outSimScore : Bool) (lRow rRow : Row) :
    (missingRow (missingOutCfg l r lKey rKey lOut rOut) outSimScore lRow rRow).length
      = (missingHeader lKey rKey lOut rOut lPre rPre outSimScore).length := by
  rw [missingRow, withScore_length, mat_outputRow_length, missingHeader, List.length_append, mat_getOutputHeader_length]
  have e : (if outSimScore then ["_sim_score"] else []).length = (if outSimScore then 1 else 0) := by
    cases outSimScore <;> rfl
  rw [e]
  simp only [missingOutCfg, findOutputAttributeIndices, List.length_map]
  cases lOut <;> cases rOut <;>
    simp only [Option.isSome_none, Option.isSome_some, Bool.or_self, Bool.or_true, Bool.or_false, Bool.false_eq_true,
      if_true, if_false, Option.getD_none, Option.getD_some, List.length_nil] <;> omega

/-- (C08) `get_pairs_with_missing_value` never fails, and returns, in this order: every left row with
    missing join value paired with every right row; then every right row with missing join value paired
    with every left row whose join value is present.  Each row is the output row of the pair, followed
    by a missing score iff `outSimScore`. -/
theorem missingPairs_eq (l r : Frame) (lKey rKey lJoin rJoin : String) (lOut rOut : Option (List String))
    (lPre rPre : String) (outSimScore : Bool) :
    getPairsWithMissingValue l r lKey rKey lJoin rJoin lOut rOut lPre rPre outSimScore
      = .ok (missingHeader lKey rKey lOut rOut lPre rPre outSimScore,
          (l.rows.filter (fun row => (row.cell (l.colIdx lJoin)).isMissing)).flatMap (fun lRow =>
              r.rows.map (fun rRow => missingRow (missingOutCfg l r lKey rKey lOut rOut) outSimScore lRow rRow))
          ++ (r.rows.filter (fun row => (row.cell (r.colIdx rJoin)).isMissing)).flatMap (fun rRow =>
              (l.rows.filter (fun row => !(row.cell (l.colIdx lJoin)).isMissing)).map (fun lRow =>
                missingRow (missingOutCfg l r lKey rKey lOut rOut) outSimScore lRow rRow))) := by
  unfold getPairsWithMissingValue
  dsimp only
  rw [mkRows_of_length]
  · rfl
  · intro row hrow
    have hlen := missingRow_length l r lKey rKey lOut rOut lPre rPre outSimScore
    simp only [List.mem_append, List.mem_flatMap, List.mem_map] at hrow
    rcases hrow with ⟨lRow, _, rRow, _, rfl⟩ | ⟨rRow, _, lRow, _, rfl⟩
    · exact hlen lRow rRow
    · exact hlen lRow rRow

theorem missingPairs_ok (l r : Frame) (lKey rKey lJoin rJoin : String) (lOut rOut : Option (List String))
    (lPre rPre : String) (outSimScore : Bool) :
    ∃ header rows, getPairsWithMissingValue l r lKey rKey lJoin rJoin lOut rOut lPre rPre outSimScore = .ok (header, rows) :=
  ⟨_, _, missingPairs_eq l r lKey rKey lJoin rJoin lOut rOut lPre rPre outSimScore⟩

/-! ### positions of the missing-value pairs -/

section Positions
variable {α β γ : Type}

theorem list_eq_map_range_getD (l : List α) (d : α) : l = (List.range l.length).map (fun i => l.getD i d) := by
  apply List.ext_getElem
  · simp only [List.length_map, List.length_range]
  · intro i h1 h2
    simp only [List.getElem_map, List.getElem_range, List.getD_eq_getElem?_getD, List.getElem?_eq_getElem h1,
      Option.getD_some]

theorem map_eq_map_range_getD (l : List α) (d : α) (g : α → β) :
    l.map g = (List.range l.length).map (fun i => g (l.getD i d)) := by
  conv => lhs; rw [list_eq_map_range_getD l d, List.map_map]
  rfl

theorem filter_eq_map_range_getD (l : List α) (d : α) (p : α → Bool) :
    l.filter p = ((List.range l.length).filter (fun i => p (l.getD i d))).map (fun i => l.getD i d) := by
  conv => lhs; rw [list_eq_map_range_getD l d, List.filter_map]
  rfl

/-- a filtered product, by positions -/
theorem filter_flatMap_map_eq_positions (ls : List α) (rs : List β) (dl : α) (dr : β) (p : α → Bool) (G : α → β → γ) :
    (ls.filter p).flatMap (fun a => rs.map (fun b => G a b))
      = (((List.range ls.length).filter (fun i => p (ls.getD i dl))).flatMap
            (fun i => (List.range rs.length).map (fun j => (i, j)))).map
          (fun ij => G (ls.getD ij.1 dl) (rs.getD ij.2 dr)) := by
  rw [filter_eq_map_range_getD ls dl p, List.flatMap_map, List.map_flatMap]
  congr 1
  funext i
  rw [map_eq_map_range_getD rs dr, List.map_map]
  rfl

end Positions

/-- positions `(i, j)` (left row index, right row index) of the missing-value pairs, in output order -/
def missingPairIdx (ls rs : List Row) (lj rj : Nat) : List (Nat × Nat) :=
  ((List.range ls.length).filter (fun i => ((ls.getD i []).cell lj).isMissing)).flatMap
      (fun i => (List.range rs.length).map (fun j => (i, j)))
  ++ ((List.range rs.length).filter (fun j => ((rs.getD j []).cell rj).isMissing)).flatMap
      (fun j => ((List.range ls.length).filter (fun i => !((ls.getD i []).cell lj).isMissing)).map (fun i => (i, j)))

/-- the rows of `get_pairs_with_missing_value` are the rows of the pairs at positions `missingPairIdx` -/
theorem missingPairs_eq_positions (l r : Frame) (lKey rKey lJoin rJoin : String) (lOut rOut : Option (List String))
    (lPre rPre : String) (outSimScore : Bool) :
    getPairsWithMissingValue l r lKey rKey lJoin rJoin lOut rOut lPre rPre outSimScore
      = .ok (missingHeader lKey rKey lOut rOut lPre rPre outSimScore,
          (missingPairIdx l.rows r.rows (l.colIdx lJoin) (r.colIdx rJoin)).map (fun ij =>
            missingRow (missingOutCfg l r lKey rKey lOut rOut) outSimScore (l.rows.getD ij.1 []) (r.rows.getD ij.2 []))) := by
  rw [missingPairs_eq, missingPairIdx, List.map_append]
  congr 3
  · exact filter_flatMap_map_eq_positions l.rows r.rows [] [] _
      (fun lRow rRow => missingRow (missingOutCfg l r lKey rKey lOut rOut) outSimScore lRow rRow)
  · rw [filter_eq_map_range_getD r.rows [] , List.flatMap_map, List.map_flatMap]
    congr 1
    funext j
    rw [filter_eq_map_range_getD l.rows [], List.map_map, List.map_map]
    rfl

/-- a position occurs iff it is a valid pair of row indices with the left or the right join value missing -/
theorem mem_missingPairIdx (ls rs : List Row) (lj rj : Nat) (i j : Nat) :
    (i, j) ∈ missingPairIdx ls rs lj rj ↔
      i < ls.length ∧ j < rs.length ∧
        (((ls.getD i []).cell lj).isMissing = true ∨ ((rs.getD j []).cell rj).isMissing = true) := by
  simp only [missingPairIdx, List.mem_append, List.mem_flatMap, List.mem_map, List.mem_filter, List.mem_range,
    Prod.mk.injEq, Bool.not_eq_true']
  constructor
  · rintro (⟨i', ⟨hi, hm⟩, j', hj, rfl, rfl⟩ | ⟨j', ⟨hj, hm⟩, i', ⟨hi, _⟩, rfl, rfl⟩)
    · exact ⟨hi, hj, Or.inl hm⟩
    · exact ⟨hi, hj, Or.inr hm⟩
  · rintro ⟨hi, hj, hm⟩
    by_cases hl : ((ls.getD i []).cell lj).isMissing = true
    · exact Or.inl ⟨i, ⟨hi, hl⟩, j, hj, rfl, rfl⟩
    · rcases hm with hm | hm
      · exact absurd hm hl
      · exact Or.inr ⟨j, ⟨hj, hm⟩, i, ⟨hi, Bool.eq_false_iff.mpr hl⟩, rfl, rfl⟩

/-- every position occurs at most once -/
theorem nodup_missingPairIdx (ls rs : List Row) (lj rj : Nat) : (missingPairIdx ls rs lj rj).Nodup := by
  unfold missingPairIdx
  rw [List.nodup_append]
  refine ⟨?_, ?_, ?_⟩
  · exact (List.nodup_range.filter _).product List.nodup_range
  · have h : (((List.range rs.length).filter (fun j => ((rs.getD j []).cell rj).isMissing)).product
        ((List.range ls.length).filter (fun i => !((ls.getD i []).cell lj).isMissing))).Nodup :=
      (List.nodup_range.filter _).product (List.nodup_range.filter _)
    have h' := h.map (f := Prod.swap) (fun ⟨_, _⟩ ⟨_, _⟩ h => by cases h; rfl)
    rw [List.product, List.map_flatMap] at h'
    simp only [List.map_map] at h'
    exact h'
  · intro x hx y hy hxy
    subst hxy
    obtain ⟨i, j⟩ := x
    simp only [List.mem_flatMap, List.mem_map, List.mem_filter, List.mem_range, Prod.mk.injEq] at hx hy
    obtain ⟨i', ⟨_, hm⟩, j', _, rfl, rfl⟩ := hx
    obtain ⟨j'', _, i'', ⟨_, hnm⟩, rfl, rfl⟩ := hy
    rw [hm] at hnm
    cases hnm

/-- every emitted row has the header's width and, iff `outSimScore`, ends with the (missing) score cell -/
theorem missingRow_last (o : OutCfg) (lRow rRow : Row) :
    missingRow o true lRow rRow = outputRow o lRow rRow ++ [Cell.missing] ∧
    missingRow o false lRow rRow = outputRow o lRow rRow := ⟨rfl, rfl⟩

/-! ## C. filter_candset (C06) -/

theorem dedup_foldl_length {α : Type} [DecidableEq α] (l acc : List α) :
    (l.foldl (fun acc a => if a ∈ acc then acc else acc ++ [a]) acc).length ≤ acc.length + l.length ∧
    ((l.foldl (fun acc a => if a ∈ acc then acc else acc ++ [a]) acc).length = acc.length + l.length →
      l.Nodup ∧ ∀ x ∈ l, x ∉ acc) := by
  induction l generalizing acc with
  | nil => exact ⟨Nat.le_refl _, fun _ => ⟨List.nodup_nil, fun x hx => by cases hx⟩⟩
  | cons a l ih =>
    rw [List.foldl_cons, List.length_cons]
    by_cases ha : a ∈ acc
    · rw [if_pos ha]
      have h := (ih acc).1
      exact ⟨by omega, fun h' => by omega⟩
    · rw [if_neg ha]
      have h := ih (acc ++ [a])
      rw [List.length_append, List.length_singleton] at h
      refine ⟨by omega, fun h' => ?_⟩
      obtain ⟨hnd, hnot⟩ := h.2 (by omega)
      refine ⟨List.nodup_cons.2 ⟨fun hmem => hnot a hmem (List.mem_append_right _ (List.mem_singleton_self a)), hnd⟩, ?_⟩
      intro x hx
      rcases List.mem_cons.1 hx with rfl | hx
      · exact ha
      · exact fun hacc => hnot x hx (List.mem_append_left _ hacc)

/-- `len(set(l)) == len(l)` means no duplicates -/
theorem nodup_of_dedup_length {α : Type} [DecidableEq α] (l : List α) (h : (dedup l).length = l.length) : l.Nodup :=
  ((dedup_foldl_length l []).2 (by rw [List.length_nil, Nat.zero_add]; exact h)).1

/-- a validated key column has no two cells that are equal as Python values (`validate_key_attr` counts
    `table[key].unique()`), in particular no two equal cells -/
theorem pyDistinct_of_validateKeyAttr (a : String) (f : Frame) (h : validateKeyAttr a f = .ok ()) :
    PyDistinct (f.col a) := ((validateKeyAttr_ok_iff a f).1 h).1

theorem nodup_of_validateKeyAttr (a : String) (f : Frame) (h : validateKeyAttr a f = .ok ()) : (f.col a).Nodup :=
  (pyDistinct_of_validateKeyAttr a f h).nodup

theorem filterMap_ite_eq_filter {α : Type} (p : α → Bool) (l : List α) :
    l.filterMap (fun x => if p x then some x else none) = l.filter p := by
  induction l with
  | nil => rfl
  | cons x l ih =>
    rw [List.filterMap_cons, List.filter_cons]
    cases p x
    · simp only [Bool.false_eq_true, if_false]; exact ih
    · simp only [if_true, ih]

/-- the candset rows paired with their index labels (missing labels padded) -/
def candLabelled (c : Frame) : List (Row × Cell) :=
  c.rows.zip (c.index ++ List.replicate (c.rows.length - c.index.length) Cell.missing)

theorem except_ok_bind {ε α β : Type} (x : α) (f : α → Except ε β) : (Except.ok x >>= f) = f x := rfl

/-- chunked `filterMapM` all of whose calls succeed -/
theorem chunks_filterMapM_ok {α β : Type} (f : α → Except PyErr (Option β)) (g : α → Option β) (chunks : List (List α))
    (h : ∀ x ∈ chunks.flatten, f x = .ok (g x)) :
    chunks.mapM (fun (ch : List α) => ch.filterMapM f) = .ok (chunks.map (·.filterMap g)) := by
  apply except_mapM_ok
  intro ch hch
  rw [except_filterMapM_eq, except_mapM_ok f g ch (fun x hx => h x (List.mem_flatten.2 ⟨ch, hch, hx⟩))]
  simp only [Except.map]
  rw [List.filterMap_map]
  rfl

/-- lookup of a candidate key in the projected `[key, attr]` table of `filter_candset`: the row whose key is
    Python-equal to the candidate key is found -/
theorem candset_lookup (f : Frame) (key attr : String) (k v : Cell) (hnd : PyDistinct (f.col key))
    (h : ∃ row ∈ f.rows, (row.cell (f.colIdx key)).pyEq k = true ∧ row.cell (f.colIdx attr) = v) :
    ∃ p, Dict.getPy? (buildDict (f.rows.map (fun row => [row.cell (f.colIdx key), row.cell (f.colIdx attr)]))
            ([key, attr].idxOf key)) k = some p ∧ p.cell ([key, attr].idxOf attr) = v := by
  obtain ⟨row, hrow, hk, hv⟩ := h
  refine ⟨[row.cell (f.colIdx key), row.cell (f.colIdx attr)], ?_, ?_⟩
  · rw [List.idxOf_cons_self]
    have hnd' : PyDistinct ((f.rows.map (fun row => [row.cell (f.colIdx key), row.cell (f.colIdx attr)])).map (fun r : Row => r.cell 0)) := by
      rw [List.map_map]; exact hnd
    exact buildDict_get _ 0 hnd' [row.cell (f.colIdx key), row.cell (f.colIdx attr)]
      (List.mem_map_of_mem (f := fun row : Row => [row.cell (f.colIdx key), row.cell (f.colIdx attr)]) hrow) k hk
  · by_cases hka : key = attr
    · subst hka
      rw [List.idxOf_cons_self]
      exact hv
    · rw [List.idxOf_cons, beq_false_of_ne hka, cond_false, List.idxOf_cons_self]
      exact hv

/-- (C06) `filter_candset` is row-wise `filter_pair`: when the validations succeed and every candidate key
    resolves (`lval cr` / `rval cr` name the join values of the left / right rows carrying `cr`'s keys),
    the result is the candset restricted — same columns and dtypes, same row order, index labels
    carried along — to the rows whose pair is not dropped by `fp`; for every `a.nJobs`, provided the
    chunking is a partition (`hchunks`). -/
theorem filterCandset_spec (a : CandsetArgs) (fp : Cell → Cell → Except PyErr Bool) (fpb : Cell → Cell → Bool)
    (cpu : Int) (c l r : Frame)
    (hc : a.candset = some c) (hlt : a.ltable = some l) (hrt : a.rtable = some r)
    (hv1 : validateAttr a.candLKey c = .ok ()) (hv2 : validateAttr a.candRKey c = .ok ())
    (hv3 : validateAttr a.lKey l = .ok ()) (hv4 : validateAttr a.rKey r = .ok ())
    (hv5 : validateAttr a.lAttr l = .ok ()) (hv6 : validateAttr a.rAttr r = .ok ())
    (hv7 : validateAttrType a.lAttr l = .ok ()) (hv8 : validateAttrType a.rAttr r = .ok ())
    (hv9 : validateKeyAttr a.lKey l = .ok ()) (hv10 : validateKeyAttr a.rKey r = .ok ())
    (lval rval : Row → Cell)
    (hl : ∀ cr ∈ c.rows, ∃ lrow ∈ l.rows, (lrow.cell (l.colIdx a.lKey)).pyEq (cr.cell (c.colIdx a.candLKey)) = true ∧
                                         lrow.cell (l.colIdx a.lAttr) = lval cr)
    (hr : ∀ cr ∈ c.rows, ∃ rrow ∈ r.rows, (rrow.cell (r.colIdx a.rKey)).pyEq (cr.cell (c.colIdx a.candRKey)) = true ∧
                                         rrow.cell (r.colIdx a.rAttr) = rval cr)
    (hfp : ∀ cr ∈ c.rows, fp (lval cr) (rval cr) = .ok (fpb (lval cr) (rval cr)))
    (hchunks : (chunksFor (candLabelled c) a.nJobs cpu).flatten = candLabelled c) :
    filterCandset a fp cpu
      = .ok (if c.rows.isEmpty then c else
          { c with index := ((candLabelled c).filter (fun p => !fpb (lval p.1) (rval p.1))).map (·.2),
                   rows := ((candLabelled c).filter (fun p => !fpb (lval p.1) (rval p.1))).map (·.1) }) := by
  unfold filterCandset
  simp only [hc, hlt, hrt, validateInputTable, hv1, hv2, hv3, hv4, hv5, hv6, hv7, hv8, hv9, hv10, except_ok_bind]
  by_cases hemp : c.rows.isEmpty = true
  · rw [if_pos hemp, if_pos hemp]; rfl
  · rw [if_neg hemp, if_neg hemp]
    rw [show c.rows.zip (c.index ++ List.replicate (c.rows.length - c.index.length) Cell.missing) = candLabelled c from rfl]
    rw [chunks_filterMapM_ok (g := fun x => if (!fpb (lval x.1) (rval x.1)) = true then some x else none)]
    · rw [except_ok_bind, ← List.filterMap_flatten, hchunks, filterMap_ite_eq_filter]
      rfl
    · intro x hx
      rw [hchunks] at hx
      have hmem : x.1 ∈ c.rows := (List.of_mem_zip (a := x.1) (b := x.2) hx).1
      obtain ⟨pl, hpl1, hpl2⟩ := candset_lookup l a.lKey a.lAttr _ _ (pyDistinct_of_validateKeyAttr _ _ hv9) (hl x.1 hmem)
      obtain ⟨pr, hpr1, hpr2⟩ := candset_lookup r a.rKey a.rAttr _ _ (pyDistinct_of_validateKeyAttr _ _ hv10) (hr x.1 hmem)
      simp only [hpl1, hpr1, hpl2, hpr2, pure_bind, hfp x.1 hmem]
      rfl

theorem candLabelled_map_fst (c : Frame) : (candLabelled c).map Prod.fst = c.rows := by
  apply List.map_fst_zip
  rw [List.length_append, List.length_replicate]
  omega

/-- (C06, rows only) in every case — empty candset included — the result keeps the columns and exactly
    the candset rows whose pair is not dropped by `fp`, in candset order, independently of `a.nJobs` -/
theorem filterCandset_rows (a : CandsetArgs) (fp : Cell → Cell → Except PyErr Bool) (fpb : Cell → Cell → Bool)
    (cpu : Int) (c l r : Frame)
    (hc : a.candset = some c) (hlt : a.ltable = some l) (hrt : a.rtable = some r)
    (hv1 : validateAttr a.candLKey c = .ok ()) (hv2 : validateAttr a.candRKey c = .ok ())
    (hv3 : validateAttr a.lKey l = .ok ()) (hv4 : validateAttr a.rKey r = .ok ())
    (hv5 : validateAttr a.lAttr l = .ok ()) (hv6 : validateAttr a.rAttr r = .ok ())
    (hv7 : validateAttrType a.lAttr l = .ok ()) (hv8 : validateAttrType a.rAttr r = .ok ())
    (hv9 : validateKeyAttr a.lKey l = .ok ()) (hv10 : validateKeyAttr a.rKey r = .ok ())
    (lval rval : Row → Cell)
    (hl : ∀ cr ∈ c.rows, ∃ lrow ∈ l.rows, (lrow.cell (l.colIdx a.lKey)).pyEq (cr.cell (c.colIdx a.candLKey)) = true ∧
                                         lrow.cell (l.colIdx a.lAttr) = lval cr)
    (hr : ∀ cr ∈ c.rows, ∃ rrow ∈ r.rows, (rrow.cell (r.colIdx a.rKey)).pyEq (cr.cell (c.colIdx a.candRKey)) = true ∧
                                         rrow.cell (r.colIdx a.rAttr) = rval cr)
    (hfp : ∀ cr ∈ c.rows, fp (lval cr) (rval cr) = .ok (fpb (lval cr) (rval cr)))
    (hchunks : (chunksFor (candLabelled c) a.nJobs cpu).flatten = candLabelled c) :
    ∃ f, filterCandset a fp cpu = .ok f ∧ f.columns = c.columns ∧ f.dtypes = c.dtypes ∧
      f.rows = c.rows.filter (fun cr => !fpb (lval cr) (rval cr)) := by
  refine ⟨_, filterCandset_spec a fp fpb cpu c l r hc hlt hrt hv1 hv2 hv3 hv4 hv5 hv6 hv7 hv8 hv9 hv10 lval rval hl hr hfp
    hchunks, ?_, ?_, ?_⟩
  · split <;> rfl
  · split <;> rfl
  · split
    · next hemp =>
      rw [List.isEmpty_iff] at hemp
      rw [hemp]; rfl
    · show ((candLabelled c).filter ((fun cr => !fpb (lval cr) (rval cr)) ∘ Prod.fst)).map Prod.fst = _
      rw [← List.filter_map, candLabelled_map_fst]

/-! ## apply_matcher at table level (C05 end to end) -/

theorem matcherRowSpec_length (a : MatcherArgs) (o : OutCfg) (tok : Option (String → List Tok)) (sim : SimArg → SimArg → PyV)
    (lAttrIdx rAttrIdx : Nat) (cr lRow rRow : Row) (lId rId : Cell) (row : Row)
    (h : matcherRowSpec a o tok sim lAttrIdx rAttrIdx cr lRow rRow lId rId = some row) :
    row.length = (if o.hasOut then 3 + o.lOut.length + o.rOut.length else 3) + (if a.outSimScore then 1 else 0) := by
  have key : ∀ (c : Prop) [Decidable c] (s : Cell),
      (if c then some (withScore a.outSimScore
          (if o.hasOut then cr.cell 0 :: getOutputRow o lRow rRow else [cr.cell 0, lId, rId]) s) else none) = some row →
      row.length = (if o.hasOut then 3 + o.lOut.length + o.rOut.length else 3) + (if a.outSimScore then 1 else 0) := by
    intro c _ s h
    split at h
    · cases Option.some.inj h
      rw [withScore_length]
      congr 1
      cases o.hasOut
      · rfl
      · simp only [if_true, List.length_cons, getOutputRow_length]; omega
    · cases h
  unfold matcherRowSpec at h
  dsimp only at h
  split at h
  · exact key _ _ h
  · cases tok <;> exact key _ _ h

/-- `applyMatcherSplit_spec` for a cache that is either absent or the one `apply_matcher` builds -/
theorem applyMatcherSplit_spec' (a : MatcherArgs) (candLIdx candRIdx : Nat) (lRows rRows : List Row)
    (lKeyIdx lAttrIdx rKeyIdx rAttrIdx : Nat) (o : OutCfg) (tok : Option (String → List Tok)) (sim : SimArg → SimArg → PyV)
    (cache : Option (List (Cell × List Tok) × List (Cell × List Tok))) (chunk : List Row)
    (hcache : cache = none ∨ ∃ tk, tok = some tk ∧
      cache = some (generateTokens lRows lKeyIdx lAttrIdx tk, generateTokens rRows rKeyIdx rAttrIdx tk))
    (hl : ∀ cr ∈ chunk, (Dict.getPy? (buildDict lRows lKeyIdx) (cr.cell candLIdx)).isSome)
    (hr : ∀ cr ∈ chunk, (Dict.getPy? (buildDict rRows rKeyIdx) (cr.cell candRIdx)).isSome)
    (hlk : PyDistinct (lRows.map (·.cell lKeyIdx))) (hrk : PyDistinct (rRows.map (·.cell rKeyIdx)))
    (hstr : tok.isSome → StrCells lRows lAttrIdx ∧ StrCells rRows rAttrIdx) :
    applyMatcherSplit a candLIdx candRIdx lRows rRows lKeyIdx lAttrIdx rKeyIdx rAttrIdx o tok sim cache chunk
      = .ok (chunk.filterMap (matcherSpecFn a candLIdx candRIdx lRows rRows lKeyIdx lAttrIdx rKeyIdx rAttrIdx o tok sim)) := by
  rcases hcache with rfl | ⟨tk, rfl, rfl⟩
  · have := applyMatcherSplit_spec a candLIdx candRIdx lRows rRows lKeyIdx lAttrIdx rKeyIdx rAttrIdx o tok sim false chunk
      hl hr hlk hrk hstr
    cases tok <;> exact this
  · exact applyMatcherSplit_spec a candLIdx candRIdx lRows rRows lKeyIdx lAttrIdx rKeyIdx rAttrIdx o (some tk) sim true chunk
      hl hr hlk hrk hstr

/-- the columns `apply_matcher` projects the left table to: key, join attribute, other output attributes -/
def matcherLProj (a : MatcherArgs) : List String :=
  getAttrsToProject (removeRedundantAttrs a.lOut a.lKey) a.lKey a.lAttr
def matcherRProj (a : MatcherArgs) : List String :=
  getAttrsToProject (removeRedundantAttrs a.rOut a.rKey) a.rKey a.rAttr
/-- the projected tables -/
def matcherLRows (a : MatcherArgs) (l : Frame) : List Row :=
  l.rows.map (fun row => ((matcherLProj a).map l.colIdx).map row.cell)
def matcherRRows (a : MatcherArgs) (r : Frame) : List Row :=
  r.rows.map (fun row => ((matcherRProj a).map r.colIdx).map row.cell)
def matcherOutCfg (a : MatcherArgs) : OutCfg :=
  { lKey := (matcherLProj a).idxOf a.lKey, rKey := (matcherRProj a).idxOf a.rKey,
    lOut := findOutputAttributeIndices (matcherLProj a) (removeRedundantAttrs a.lOut a.lKey),
    rOut := findOutputAttributeIndices (matcherRProj a) (removeRedundantAttrs a.rOut a.rKey),
    hasOut := (removeRedundantAttrs a.lOut a.lKey).isSome || (removeRedundantAttrs a.rOut a.rKey).isSome }
def matcherHeader (a : MatcherArgs) : List String :=
  "_id" :: (getOutputHeader a.lKey a.rKey (removeRedundantAttrs a.lOut a.lKey) (removeRedundantAttrs a.rOut a.rKey)
              a.lPre a.rPre ++ (if a.outSimScore then ["_sim_score"] else []))

/-- what `apply_matcher` does with candidate row `cr` (`none` = dropped) -/
def matcherTableSpec (a : MatcherArgs) (t : Option TokObj) (toks : TokFn) (sim : SimArg → SimArg → PyV) (c l r : Frame) :
    Row → Option Row :=
  matcherSpecFn a (c.colIdx a.candLKey) (c.colIdx a.candRKey) (matcherLRows a l) (matcherRRows a r)
    ((matcherLProj a).idxOf a.lKey) ((matcherLProj a).idxOf a.lAttr)
    ((matcherRProj a).idxOf a.rKey) ((matcherRProj a).idxOf a.rAttr)
    (matcherOutCfg a) (t.map (fun tk => toks tk.returnSet)) sim

theorem matcherLRows_keys (a : MatcherArgs) (l : Frame) :
    (matcherLRows a l).map (·.cell ((matcherLProj a).idxOf a.lKey)) = l.col a.lKey := by
  have h0 : (matcherLProj a).idxOf a.lKey = 0 := List.idxOf_cons_self
  rw [h0, matcherLRows, List.map_map]
  rfl

theorem matcherRRows_keys (a : MatcherArgs) (r : Frame) :
    (matcherRRows a r).map (·.cell ((matcherRProj a).idxOf a.rKey)) = r.col a.rKey := by
  have h0 : (matcherRProj a).idxOf a.rKey = 0 := List.idxOf_cons_self
  rw [h0, matcherRRows, List.map_map]
  rfl

theorem buildDict_isSome_of_mem (rows : List Row) (keyIdx : Nat) (h : PyDistinct (rows.map (·.cell keyIdx))) (k : Cell)
    (hk : PyMem k (rows.map (·.cell keyIdx))) : (Dict.getPy? (buildDict rows keyIdx) k).isSome := by
  obtain ⟨k', hk', he⟩ := hk
  obtain ⟨row, hrow, rfl⟩ := List.mem_map.1 hk'
  rw [buildDict_get rows keyIdx h row hrow k he]
  rfl

theorem matcherTableSpec_length (a : MatcherArgs) (t : Option TokObj) (toks : TokFn) (sim : SimArg → SimArg → PyV)
    (c l r : Frame) (cr row : Row) (h : matcherTableSpec a t toks sim c l r cr = some row) :
    row.length = (matcherHeader a).length := by
  unfold matcherTableSpec matcherSpecFn at h
  split at h
  · rw [matcherRowSpec_length _ _ _ _ _ _ _ _ _ _ _ _ h, matcherHeader, List.length_cons, List.length_append,
      mat_getOutputHeader_length]
    have e : (if a.outSimScore then ["_sim_score"] else []).length = (if a.outSimScore then 1 else 0) := by
      cases a.outSimScore <;> rfl
    rw [e]
    simp only [matcherOutCfg, findOutputAttributeIndices, List.length_map]
    cases removeRedundantAttrs a.lOut a.lKey <;> cases removeRedundantAttrs a.rOut a.rKey <;>
      simp only [Option.isSome_none, Option.isSome_some, Bool.or_self, Bool.or_true, Bool.or_false, Bool.false_eq_true,
        if_true, if_false, Option.getD_none, Option.getD_some, List.length_nil] <;> omega
  · cases h

/-- the per-chunk work of `apply_matcher` (verbatim): `_apply_matcher_split`, then `pd.DataFrame` -/
def matcherChunkM (a : MatcherArgs) (t : Option TokObj) (toks : TokFn) (sim : SimArg → SimArg → PyV) (c l r : Frame)
    (ch : List Row) : Except PyErr (List Row) := do
  let rows ← applyMatcherSplit a (c.colIdx a.candLKey) (c.colIdx a.candRKey) (matcherLRows a l) (matcherRRows a r)
      ((matcherLProj a).idxOf a.lKey) ((matcherLProj a).idxOf a.lAttr)
      ((matcherRProj a).idxOf a.rKey) ((matcherRProj a).idxOf a.rAttr)
      (matcherOutCfg a) (t.map (fun tk => toks tk.returnSet)) sim
      (match t.map (fun tk => toks tk.returnSet) with
        | some tk =>
          if (l.rows.length + r.rows.length : Nat) < c.rows.length * 2 then
            some (generateTokens (matcherLRows a l) ((matcherLProj a).idxOf a.lKey) ((matcherLProj a).idxOf a.lAttr) tk,
                  generateTokens (matcherRRows a r) ((matcherRProj a).idxOf a.rKey) ((matcherRProj a).idxOf a.rAttr) tk)
          else none
        | none => none) ch
  mkRows rows (matcherHeader a)

/-- string columns give string cells in the projected tables of `apply_matcher` -/
theorem matcherLRows_strCells (a : MatcherArgs) (l : Frame) (h : Props.StrColumn l a.lAttr) :
    StrCells (matcherLRows a l) ((matcherLProj a).idxOf a.lAttr) := by
  intro row hrow
  obtain ⟨s, hs, rfl⟩ := List.mem_map.1 hrow
  have := (projection_faithful l a.lKey a.lAttr a.lOut s).2.1
  rw [matcherLProj, this]
  exact h s hs

theorem matcherRRows_strCells (a : MatcherArgs) (r : Frame) (h : Props.StrColumn r a.rAttr) :
    StrCells (matcherRRows a r) ((matcherRProj a).idxOf a.rAttr) := by
  intro row hrow
  obtain ⟨s, hs, rfl⟩ := List.mem_map.1 hrow
  have := (projection_faithful r a.rKey a.rAttr a.rOut s).2.1
  rw [matcherRProj, this]
  exact h s hs

/-- and conversely -/
theorem strColumn_of_matcherLRows (a : MatcherArgs) (l : Frame)
    (h : StrCells (matcherLRows a l) ((matcherLProj a).idxOf a.lAttr)) : Props.StrColumn l a.lAttr := by
  intro s hs
  have := (projection_faithful l a.lKey a.lAttr a.lOut s).2.1
  have h' := h _ (List.mem_map_of_mem (f := fun row : Row => ((matcherLProj a).map l.colIdx).map row.cell) hs)
  rw [matcherLProj, this] at h'
  exact h'

theorem strColumn_of_matcherRRows (a : MatcherArgs) (r : Frame)
    (h : StrCells (matcherRRows a r) ((matcherRProj a).idxOf a.rAttr)) : Props.StrColumn r a.rAttr := by
  intro s hs
  have := (projection_faithful r a.rKey a.rAttr a.rOut s).2.1
  have h' := h _ (List.mem_map_of_mem (f := fun row : Row => ((matcherRProj a).map r.colIdx).map row.cell) hs)
  rw [matcherRProj, this] at h'
  exact h'

/-- the token cache `apply_matcher` decides on (verbatim): `generate_tokens` tokenizes every present value
    of the two columns and raises TypeError on a non-string -/
def matcherCacheM (a : MatcherArgs) (t : Option TokObj) (toks : TokFn) (c l r : Frame) :
    Except PyErr (Option (List (Cell × List Tok) × List (Cell × List Tok))) :=
  tokenCache (t.map (fun tk => toks tk.returnSet)) (decide ((l.rows.length + r.rows.length : Nat) < c.rows.length * 2))
    (matcherLRows a l) (matcherRRows a r) ((matcherLProj a).idxOf a.lKey) ((matcherLProj a).idxOf a.lAttr)
    ((matcherRProj a).idxOf a.rKey) ((matcherRProj a).idxOf a.rAttr)

/-- the cache when `generate_tokens` does not raise -/
def matcherCache (a : MatcherArgs) (t : Option TokObj) (toks : TokFn) (c l r : Frame) :
    Option (List (Cell × List Tok) × List (Cell × List Tok)) :=
  match t.map (fun tk => toks tk.returnSet) with
  | some tk =>
    if (l.rows.length + r.rows.length : Nat) < c.rows.length * 2 then
      some (generateTokens (matcherLRows a l) ((matcherLProj a).idxOf a.lKey) ((matcherLProj a).idxOf a.lAttr) tk,
            generateTokens (matcherRRows a r) ((matcherRProj a).idxOf a.rKey) ((matcherRProj a).idxOf a.rAttr) tk)
    else none
  | none => none

theorem matcherCacheM_eq (a : MatcherArgs) (t : Option TokObj) (toks : TokFn) (c l r : Frame)
    (hstr : t.isSome → Props.StrColumn l a.lAttr ∧ Props.StrColumn r a.rAttr) :
    matcherCacheM a t toks c l r = .ok (matcherCache a t toks c l r) := by
  unfold matcherCacheM matcherCache tokenCache
  cases t with
  | none => rfl
  | some tk =>
    obtain ⟨hL, hR⟩ := hstr rfl
    have h1 := (joinCellsOk_iff _ _).2 (matcherLRows_strCells a l hL)
    have h2 := (joinCellsOk_iff _ _).2 (matcherRRows_strCells a r hR)
    simp only [Option.map_some, h1, h2, Bool.and_self, if_true, decide_eq_true_eq]
    split <;> rfl

/-- (C05 end to end) when the validations succeed and every candidate key occurs in its table (up to Python
    equality, `PyMem`: the lookups are `Dict.getPy?`),
    `apply_matcher` returns — for every `a.nJobs`, provided the chunking is a partition (`hchunks`), and
    whether or not the token cache is used — the candset itself if it is empty, and otherwise the frame
    whose rows are exactly the spec rows of the candidate rows, in candset order (the index restarts
    at 0 in every chunk, as `pd.concat` of the per-chunk frames does). -/
theorem applyMatcher_spec (a : MatcherArgs) (t : Option TokObj) (toks : TokFn) (sim : SimArg → SimArg → PyV) (cpu : Int)
    (c l r : Frame)
    (hc : a.candset = some c) (hlt : a.ltable = some l) (hrt : a.rtable = some r)
    (hv1 : validateAttr a.candLKey c = .ok ()) (hv2 : validateAttr a.candRKey c = .ok ())
    (hv3 : validateAttr a.lKey l = .ok ()) (hv4 : validateAttr a.rKey r = .ok ())
    (hv5 : validateAttr a.lAttr l = .ok ()) (hv6 : validateAttr a.rAttr r = .ok ())
    (hv7 : validateOutputAttrs a.lOut l a.rOut r = .ok ())
    (hv8 : ∀ tk, t = some tk → validateTokenizer tk = .ok ())
    (hv9 : genCheck (Gen.validate_comp_op (.str a.compOp)) = .ok ())
    (hv10 : validateKeyAttr a.lKey l = .ok ()) (hv11 : validateKeyAttr a.rKey r = .ok ())
    (hl : ∀ cr ∈ c.rows, PyMem (cr.cell (c.colIdx a.candLKey)) (l.col a.lKey))
    (hr : ∀ cr ∈ c.rows, PyMem (cr.cell (c.colIdx a.candRKey)) (r.col a.rKey))
    (hchunks : (chunksFor c.rows a.nJobs cpu).flatten = c.rows)
    (hstr : t.isSome → Props.StrColumn l a.lAttr ∧ Props.StrColumn r a.rAttr) :
    applyMatcher a t toks sim cpu
      = .ok (if c.rows.isEmpty then c else
          { columns := matcherHeader a
            index := (chunksFor c.rows a.nJobs cpu).flatMap (fun ch =>
              (List.range (ch.filterMap (matcherTableSpec a t toks sim c l r)).length).map (fun (i : Nat) => Cell.int i))
            rows := c.rows.filterMap (matcherTableSpec a t toks sim c l r) }) := by
  have hlk : PyDistinct ((matcherLRows a l).map (·.cell ((matcherLProj a).idxOf a.lKey))) := by
    rw [matcherLRows_keys]; exact pyDistinct_of_validateKeyAttr _ _ hv10
  have hrk : PyDistinct ((matcherRRows a r).map (·.cell ((matcherRProj a).idxOf a.rKey))) := by
    rw [matcherRRows_keys]; exact pyDistinct_of_validateKeyAttr _ _ hv11
  have hmem : ∀ ch ∈ chunksFor c.rows a.nJobs cpu, ∀ cr ∈ ch, cr ∈ c.rows := by
    intro ch hch cr hcr
    rw [← hchunks]; exact List.mem_flatten.2 ⟨ch, hch, hcr⟩
  -- the per-chunk work is `filterMap` of the specification
  have hchunk : ∀ ch ∈ chunksFor c.rows a.nJobs cpu, matcherChunkM a t toks sim c l r ch
        = Except.ok (ch.filterMap (matcherTableSpec a t toks sim c l r)) := by
    intro ch hch
    unfold matcherChunkM
    rw [applyMatcherSplit_spec' (hlk := hlk) (hrk := hrk)
      (hstr := fun ht => by
        have ht' : t.isSome := by cases t <;> first | rfl | cases ht
        exact ⟨matcherLRows_strCells a l (hstr ht').1, matcherRRows_strCells a r (hstr ht').2⟩)]
    · rw [except_ok_bind, mkRows_of_length]
      · rfl
      · intro row hrow
        obtain ⟨cr, _, hcr⟩ := List.mem_filterMap.1 hrow
        exact matcherTableSpec_length a t toks sim c l r cr row hcr
    · cases t.map (fun tk => toks tk.returnSet) with
      | none => exact Or.inl rfl
      | some tk =>
        by_cases hlt : (l.rows.length + r.rows.length : Nat) < c.rows.length * 2
        · exact Or.inr ⟨tk, rfl, by simp only [hlt, if_true]⟩
        · exact Or.inl (by simp only [hlt, if_false])
    · intro cr hcr
      apply buildDict_isSome_of_mem _ _ hlk
      rw [matcherLRows_keys]; exact hl cr (hmem ch hch cr hcr)
    · intro cr hcr
      apply buildDict_isSome_of_mem _ _ hrk
      rw [matcherRRows_keys]; exact hr cr (hmem ch hch cr hcr)
  unfold applyMatcher
  by_cases hemp : c.rows.isEmpty = true
  · cases t with
    | none =>
      simp only [hc, hlt, hrt, validateInputTable, hv1, hv2, hv3, hv4, hv5, hv6, hv7, hv9, hv10, hv11, except_ok_bind, hemp,
        if_true]
      rfl
    | some tk =>
      simp only [hc, hlt, hrt, validateInputTable, hv1, hv2, hv3, hv4, hv5, hv6, hv7, hv8 tk rfl, hv9, hv10, hv11,
        except_ok_bind, hemp, if_true]
      rfl
  · have hfin := except_mapM_ok (matcherChunkM a t toks sim c l r)
      (fun (ch : List Row) => ch.filterMap (matcherTableSpec a t toks sim c l r)) _ hchunk
    have hcache := matcherCacheM_eq a t toks c l r hstr
    cases t with
    | none =>
      simp only [hc, hlt, hrt, validateInputTable, hv1, hv2, hv3, hv4, hv5, hv6, hv7, hv9, hv10, hv11, except_ok_bind, hemp,
        Bool.false_eq_true, if_false]
      refine Eq.trans (congrArg (fun x => x >>= _) hcache) ?_
      rw [except_ok_bind]
      refine Eq.trans (congrArg (fun x => x >>= _) hfin) ?_
      rw [except_ok_bind, ← List.filterMap_flatten, hchunks, List.flatMap_map]
      rfl
    | some tk =>
      simp only [hc, hlt, hrt, validateInputTable, hv1, hv2, hv3, hv4, hv5, hv6, hv7, hv8 tk rfl, hv9, hv10, hv11,
        except_ok_bind, hemp, Bool.false_eq_true, if_false]
      refine Eq.trans (congrArg (fun x => x >>= _) hcache) ?_
      rw [except_ok_bind]
      refine Eq.trans (congrArg (fun x => x >>= _) hfin) ?_
      rw [except_ok_bind, ← List.filterMap_flatten, hchunks, List.flatMap_map]
      rfl

/-- an empty candset is returned as it is — before any value is tokenized, so whatever the columns hold -/
theorem applyMatcher_empty (a : MatcherArgs) (t : Option TokObj) (toks : TokFn) (sim : SimArg → SimArg → PyV) (cpu : Int)
    (c l r : Frame)
    (hc : a.candset = some c) (hlt : a.ltable = some l) (hrt : a.rtable = some r)
    (hv1 : validateAttr a.candLKey c = .ok ()) (hv2 : validateAttr a.candRKey c = .ok ())
    (hv3 : validateAttr a.lKey l = .ok ()) (hv4 : validateAttr a.rKey r = .ok ())
    (hv5 : validateAttr a.lAttr l = .ok ()) (hv6 : validateAttr a.rAttr r = .ok ())
    (hv7 : validateOutputAttrs a.lOut l a.rOut r = .ok ())
    (hv8 : ∀ tk, t = some tk → validateTokenizer tk = .ok ())
    (hv9 : genCheck (Gen.validate_comp_op (.str a.compOp)) = .ok ())
    (hv10 : validateKeyAttr a.lKey l = .ok ()) (hv11 : validateKeyAttr a.rKey r = .ok ())
    (hemp : c.rows.isEmpty = true) :
    applyMatcher a t toks sim cpu = .ok c := by
  unfold applyMatcher
  cases t with
  | none =>
    simp only [hc, hlt, hrt, validateInputTable, hv1, hv2, hv3, hv4, hv5, hv6, hv7, hv9, hv10, hv11, except_ok_bind, hemp,
      if_true]
    rfl
  | some tk =>
    simp only [hc, hlt, hrt, validateInputTable, hv1, hv2, hv3, hv4, hv5, hv6, hv7, hv8 tk rfl, hv9, hv10, hv11,
      except_ok_bind, hemp, if_true]
    rfl

/-- (C05, rows only) the rows of `apply_matcher`'s result are the spec rows of the candidate rows in candset
    order, whatever `a.nJobs` is and whether or not the token cache is used -/
theorem applyMatcher_rows (a : MatcherArgs) (t : Option TokObj) (toks : TokFn) (sim : SimArg → SimArg → PyV) (cpu : Int)
    (c l r : Frame)
    (hc : a.candset = some c) (hlt : a.ltable = some l) (hrt : a.rtable = some r)
    (hv1 : validateAttr a.candLKey c = .ok ()) (hv2 : validateAttr a.candRKey c = .ok ())
    (hv3 : validateAttr a.lKey l = .ok ()) (hv4 : validateAttr a.rKey r = .ok ())
    (hv5 : validateAttr a.lAttr l = .ok ()) (hv6 : validateAttr a.rAttr r = .ok ())
    (hv7 : validateOutputAttrs a.lOut l a.rOut r = .ok ())
    (hv8 : ∀ tk, t = some tk → validateTokenizer tk = .ok ())
    (hv9 : genCheck (Gen.validate_comp_op (.str a.compOp)) = .ok ())
    (hv10 : validateKeyAttr a.lKey l = .ok ()) (hv11 : validateKeyAttr a.rKey r = .ok ())
    (hl : ∀ cr ∈ c.rows, PyMem (cr.cell (c.colIdx a.candLKey)) (l.col a.lKey))
    (hr : ∀ cr ∈ c.rows, PyMem (cr.cell (c.colIdx a.candRKey)) (r.col a.rKey))
    (hchunks : (chunksFor c.rows a.nJobs cpu).flatten = c.rows)
    (hstr : t.isSome → Props.StrColumn l a.lAttr ∧ Props.StrColumn r a.rAttr) :
    ∃ f, applyMatcher a t toks sim cpu = .ok f ∧
      f.columns = (if c.rows.isEmpty then c.columns else matcherHeader a) ∧
      f.rows = c.rows.filterMap (matcherTableSpec a t toks sim c l r) := by
  refine ⟨_, applyMatcher_spec a t toks sim cpu c l r hc hlt hrt hv1 hv2 hv3 hv4 hv5 hv6 hv7 hv8 hv9 hv10 hv11 hl hr hchunks
    hstr, ?_, ?_⟩
  · split <;> rfl
  · split
    · next hemp =>
      rw [List.isEmpty_iff] at hemp
      rw [hemp]; rfl
    · rfl

end SSJ

section AxiomCheck
open SSJ
#print axioms mapM_flatten_of_chunks
#print axioms filterMapM_flatten_of_chunks
#print axioms buildDict_get
#print axioms applyMatcherSplit_spec
#print axioms applyMatcherSplit_error
#print axioms applyMatcherSplit_append
#print axioms applyMatcherSplit_chunks
#print axioms applyMatcherSplit_chunks_spec
#print axioms applyMatcherSplit_cache_irrel
#print axioms applyMatcherSplit_ids_sublist
#print axioms applyMatcher_spec
#print axioms applyMatcher_rows
#print axioms filterCandset_spec
#print axioms filterCandset_rows
#print axioms missingPairs_ok
#print axioms missingPairs_eq
#print axioms missingPairs_eq_positions
#print axioms mem_missingPairIdx
#print axioms nodup_missingPairIdx
end AxiomCheck

/-
  SSJ.Proofs.Frames — generic lifting lemmas from the array level (`work` on projected rows,
  one chunk at a time) to the DataFrame level (`runTables`): totality and row decomposition,
  chunk membership, source rows behind projected rows, key uniqueness, the missing-value rows,
  `_id` and columns.
-/
import SSJ.Proofs.Rows
import SSJ.Proofs.Split
import SSJ.Proofs.Matcher

namespace SSJ

/-! ## vocabulary: the intermediate values of `runTables` -/

namespace RT

/-- the requested left output attributes after `remove_redundant_attrs` -/
def lOut (a : TableArgs) : Option (List String) := removeRedundantAttrs a.lOut a.lKey
def rOut (a : TableArgs) : Option (List String) := removeRedundantAttrs a.rOut a.rKey

/-- the projected column labels `[key, join] ++ others` -/
def lProj (a : TableArgs) : List String := getAttrsToProject (lOut a) a.lKey a.lAttr
def rProj (a : TableArgs) : List String := getAttrsToProject (rOut a) a.rKey a.rAttr

/-- the projection of one source row of the left / right frame -/
abbrev lRow (a : TableArgs) (l : Frame) (srow : Row) : Row := ((lProj a).map l.colIdx).map srow.cell
abbrev rRow (a : TableArgs) (r : Frame) (srow : Row) : Row := ((rProj a).map r.colIdx).map srow.cell

/-- the projected arrays (rows with missing join value dropped) -/
def lArr (a : TableArgs) (l : Frame) : List Row := convertToArray l (lProj a) a.lAttr
def rArr (a : TableArgs) (r : Frame) : List Row := convertToArray r (rProj a) a.rAttr

/-- the output configuration handed to `work` -/
def out (a : TableArgs) : OutCfg :=
  { lKey := (lProj a).idxOf a.lKey, rKey := (rProj a).idxOf a.rKey,
    lOut := findOutputAttributeIndices (lProj a) (lOut a),
    rOut := findOutputAttributeIndices (rProj a) (rOut a),
    hasOut := (lOut a).isSome || (rOut a).isSome }

/-- positions of the join attributes in the projected rows -/
def lAttrIdx (a : TableArgs) : Nat := (lProj a).idxOf a.lAttr
def rAttrIdx (a : TableArgs) : Nat := (rProj a).idxOf a.rAttr

/-- the header of the result (without `_id`) -/
def header (a : TableArgs) (oss : Bool) : List String :=
  getOutputHeader a.lKey a.rKey (lOut a) (rOut a) a.lPre a.rPre ++ (if oss then ["_sim_score"] else [])

/-- the output configuration of `get_pairs_with_missing_value` (positions in the ORIGINAL frames) -/
def missOut (a : TableArgs) (l r : Frame) : OutCfg := missingOutCfg l r a.lKey a.rKey (lOut a) (rOut a)

/-- the rows `get_pairs_with_missing_value` contributes: (missing-left × every right), then
    (missing-right × present-left); source rows are rows of the ORIGINAL frames -/
def missingRows (a : TableArgs) (l r : Frame) (oss : Bool) : List Row :=
  (l.rows.filter (fun row => (row.cell (l.colIdx a.lAttr)).isMissing)).flatMap (fun lRow =>
      r.rows.map (fun rRow => missingRow (missOut a l r) oss lRow rRow))
  ++ (r.rows.filter (fun row => (row.cell (r.colIdx a.rAttr)).isMissing)).flatMap (fun rRow =>
      (l.rows.filter (fun row => !(row.cell (l.colIdx a.lAttr)).isMissing)).map (fun lRow =>
        missingRow (missOut a l r) oss lRow rRow))

/-- what `work` is applied to for the chunk `ch` -/
abbrev workOn (a : TableArgs) (l : Frame) (work : OutCfg → Nat → Nat → List Row → List Row → List Row)
    (ch : List Row) : List Row :=
  work (out a) (lAttrIdx a) (rAttrIdx a) (lArr a l) ch

end RT

/-! ## 1. totality and row decomposition -/

theorem runTables_unfold (a : TableArgs) (l r : Frame) (allowMissing oss : Bool) (cpu : Int)
    (work : OutCfg → Nat → Nat → List Row → List Row → List Row) :
    runTables a l r allowMissing oss cpu work =
      (do raiseIf (!(joinCellsOk (RT.lArr a l) (RT.lAttrIdx a) && joinCellsOk (RT.rArr a r) (RT.rAttrIdx a))) .typeErr
          let chunks ← (chunksFor (RT.rArr a r) a.nJobs cpu).mapM (fun ch =>
              mkRows (work (RT.out a) (RT.lAttrIdx a) (RT.rAttrIdx a) (RT.lArr a l) ch) (RT.header a oss))
          let missing ← if allowMissing then
              (getPairsWithMissingValue l r a.lKey a.rKey a.lAttr a.rAttr (RT.lOut a) (RT.rOut a)
                a.lPre a.rPre oss).map (fun p => some p.2)
            else pure none
          finishPy (RT.header a oss) chunks missing) := rfl

/-- `missingPairs_eq` in the vocabulary of `runTables` -/
theorem RT.getPairsWithMissingValue_eq (a : TableArgs) (l r : Frame) (oss : Bool) :
    getPairsWithMissingValue l r a.lKey a.rKey a.lAttr a.rAttr (RT.lOut a) (RT.rOut a) a.lPre a.rPre oss
      = .ok (RT.header a oss, RT.missingRows a l r oss) :=
  missingPairs_eq l r a.lKey a.rKey a.lAttr a.rAttr (RT.lOut a) (RT.rOut a) a.lPre a.rPre oss

/-- rows of `finish` without the `_id` cell -/
theorem finish_rows_drop (header : List String) (chunks : List (List Row)) (missing : Option (List Row)) :
    (finish header chunks missing).rows.map (fun row => row.drop 1) = chunks.flatten ++ missing.getD [] := by
  unfold finish
  simp only [List.map_map]
  have : ((fun (row : Row) => row.drop 1) ∘ fun (x : Row × Nat) => Cell.int x.2 :: x.1) = Prod.fst := by
    funext x; rfl
  rw [this, List.zipIdx_map_fst]
  cases missing <;> simp

/-- rows of `finish`: every row gets its position as `_id` -/
theorem finish_rows (header : List String) (chunks : List (List Row)) (missing : Option (List Row)) :
    (finish header chunks missing).rows =
      (chunks.flatten ++ missing.getD []).zipIdx.map (fun (x : Row × Nat) => Cell.int x.2 :: x.1) := by
  unfold finish
  cases missing <;> simp

/-! ### the two new failure modes: a non-string join value (TypeError), an `_id` clash (ValueError) -/

/-- the tokenizer's check on the left array ⇔ the left join column holds only strings and missing values -/
theorem RT.joinCellsOk_lArr_iff (a : TableArgs) (l : Frame) :
    joinCellsOk (RT.lArr a l) (RT.lAttrIdx a) = true ↔ Props.StrColumn l a.lAttr := by
  rw [joinCellsOk_iff]
  constructor
  · intro h s hs
    by_cases hm : (s.cell (l.colIdx a.lAttr)).isMissing = true
    · exact Cell.strOrMissing_of_isMissing _ hm
    · have hx : ((RT.lProj a).map l.colIdx).map s.cell ∈ RT.lArr a l :=
        List.mem_map_of_mem (List.mem_filter.2 ⟨hs, by simpa using hm⟩)
      have e : Row.cell (((RT.lProj a).map l.colIdx).map s.cell) (RT.lAttrIdx a) = s.cell (l.colIdx a.lAttr) :=
        (projection_faithful l a.lKey a.lAttr a.lOut s).2.1
      have := h _ hx
      rw [e] at this
      exact this
  · intro h x hx
    obtain ⟨s, hs, rfl⟩ := List.mem_map.1 hx
    have e : Row.cell (((RT.lProj a).map l.colIdx).map s.cell) (RT.lAttrIdx a) = s.cell (l.colIdx a.lAttr) :=
      (projection_faithful l a.lKey a.lAttr a.lOut s).2.1
    rw [e]
    exact h s (List.mem_filter.1 hs).1

theorem RT.joinCellsOk_rArr_iff (a : TableArgs) (r : Frame) :
    joinCellsOk (RT.rArr a r) (RT.rAttrIdx a) = true ↔ Props.StrColumn r a.rAttr := by
  rw [joinCellsOk_iff]
  constructor
  · intro h s hs
    by_cases hm : (s.cell (r.colIdx a.rAttr)).isMissing = true
    · exact Cell.strOrMissing_of_isMissing _ hm
    · have hx : ((RT.rProj a).map r.colIdx).map s.cell ∈ RT.rArr a r :=
        List.mem_map_of_mem (List.mem_filter.2 ⟨hs, by simpa using hm⟩)
      have e : Row.cell (((RT.rProj a).map r.colIdx).map s.cell) (RT.rAttrIdx a) = s.cell (r.colIdx a.rAttr) :=
        (projection_faithful r a.rKey a.rAttr a.rOut s).2.1
      have := h _ hx
      rw [e] at this
      exact this
  · intro h x hx
    obtain ⟨s, hs, rfl⟩ := List.mem_map.1 hx
    have e : Row.cell (((RT.rProj a).map r.colIdx).map s.cell) (RT.rAttrIdx a) = s.cell (r.colIdx a.rAttr) :=
      (projection_faithful r a.rKey a.rAttr a.rOut s).2.1
    rw [e]
    exact h s (List.mem_filter.1 hs).1

/-- (b) a present join value that is not a string, in either table: TypeError, whatever else holds -/
theorem runTables_typeErr (a : TableArgs) (l r : Frame) (allowMissing oss : Bool) (cpu : Int)
    (work : OutCfg → Nat → Nat → List Row → List Row → List Row)
    (h : ¬ (Props.StrColumn l a.lAttr ∧ Props.StrColumn r a.rAttr)) :
    runTables a l r allowMissing oss cpu work = .error .typeErr := by
  rw [runTables_unfold]
  have : (!(joinCellsOk (RT.lArr a l) (RT.lAttrIdx a) && joinCellsOk (RT.rArr a r) (RT.rAttrIdx a))) = true := by
    rw [Bool.not_eq_true', Bool.and_eq_false_iff]
    by_cases h1 : Props.StrColumn l a.lAttr
    · right
      exact Bool.eq_false_iff.2 (fun h2 => h ⟨h1, (RT.joinCellsOk_rArr_iff a r).1 h2⟩)
    · left
      exact Bool.eq_false_iff.2 (fun h2 => h1 ((RT.joinCellsOk_lArr_iff a l).1 h2))
  rw [this]
  rfl

/-- INVERSION: a successful `runTables` met only strings and had no `_id` clash -/
theorem runTables_ok_inv (a : TableArgs) (l r : Frame) (allowMissing oss : Bool) (cpu : Int)
    (work : OutCfg → Nat → Nat → List Row → List Row → List Row) (fr : Frame)
    (h : runTables a l r allowMissing oss cpu work = .ok fr) :
    Props.StrColumn l a.lAttr ∧ Props.StrColumn r a.rAttr ∧ Props.NoIdClash (RT.header a oss) := by
  obtain ⟨h1, h2, -⟩ := runTables_inv a l r allowMissing oss cpu work fr h
  rw [Bool.and_eq_true] at h1
  exact ⟨(RT.joinCellsOk_lArr_iff a l).1 h1.1, (RT.joinCellsOk_rArr_iff a r).1 h1.2, h2⟩

theorem RT.header_eq_outHeader (a : TableArgs) (oss : Bool) : RT.header a oss = Props.outHeader a oss := rfl

/-- INVERSION, bundled -/
theorem runTables_bodyOK (a : TableArgs) (l r : Frame) (allowMissing oss : Bool) (cpu : Int)
    (work : OutCfg → Nat → Nat → List Row → List Row → List Row) (fr : Frame)
    (h : runTables a l r allowMissing oss cpu work = .ok fr) : Props.BodyOK a l r oss :=
  let ⟨h1, h2, h3⟩ := runTables_ok_inv a l r allowMissing oss cpu work fr h
  ⟨h1, h2, h3⟩

/-- exact result of `runTables` when `work` produces rows of the header's width on every chunk
    actually processed (weaker hypothesis than in `runTables_eq`), the join columns hold only strings
    and missing values, and the header has no `_id` column -/
theorem runTables_eq' (a : TableArgs) (l r : Frame) (allowMissing oss : Bool) (cpu : Int)
    (work : OutCfg → Nat → Nat → List Row → List Row → List Row)
    (hw : ∀ ch ∈ chunksFor (RT.rArr a r) a.nJobs cpu,
      ∀ row ∈ work (RT.out a) (RT.lAttrIdx a) (RT.rAttrIdx a) (RT.lArr a l) ch,
        row.length = (RT.header a oss).length)
    (hsl : Props.StrColumn l a.lAttr) (hsr : Props.StrColumn r a.rAttr) (hid : Props.NoIdClash (RT.header a oss)) :
    runTables a l r allowMissing oss cpu work =
      .ok (finish (RT.header a oss)
        ((chunksFor (RT.rArr a r) a.nJobs cpu).map (fun ch =>
          work (RT.out a) (RT.lAttrIdx a) (RT.rAttrIdx a) (RT.lArr a l) ch))
        (if allowMissing then some (RT.missingRows a l r oss) else none)) := by
  rw [runTables_unfold, (RT.joinCellsOk_lArr_iff a l).2 hsl, (RT.joinCellsOk_rArr_iff a r).2 hsr,
    except_mapM_ok _ (fun ch => work (RT.out a) (RT.lAttrIdx a) (RT.rAttrIdx a) (RT.lArr a l) ch) _
      (fun ch hch => mkRows_id _ _ (hw ch hch))]
  cases allowMissing
  · exact finishPy_of_not_mem _ _ _ hid
  · show (Except.map (fun p => some p.2) (getPairsWithMissingValue l r a.lKey a.rKey a.lAttr a.rAttr (RT.lOut a) (RT.rOut a)
        a.lPre a.rPre oss) >>= fun missing => finishPy (RT.header a oss) _ missing) = _
    rw [RT.getPairsWithMissingValue_eq]
    exact finishPy_of_not_mem _ _ _ hid

/-- exact result of `runTables` when `work` produces rows of the header's width -/
theorem runTables_eq (a : TableArgs) (l r : Frame) (allowMissing oss : Bool) (cpu : Int)
    (work : OutCfg → Nat → Nat → List Row → List Row → List Row)
    (hw : ∀ ch, ∀ row ∈ work (RT.out a) (RT.lAttrIdx a) (RT.rAttrIdx a) (RT.lArr a l) ch,
      row.length = (RT.header a oss).length)
    (hsl : Props.StrColumn l a.lAttr) (hsr : Props.StrColumn r a.rAttr) (hid : Props.NoIdClash (RT.header a oss)) :
    runTables a l r allowMissing oss cpu work =
      .ok (finish (RT.header a oss)
        ((chunksFor (RT.rArr a r) a.nJobs cpu).map (fun ch =>
          work (RT.out a) (RT.lAttrIdx a) (RT.rAttrIdx a) (RT.lArr a l) ch))
        (if allowMissing then some (RT.missingRows a l r oss) else none)) :=
  runTables_eq' a l r allowMissing oss cpu work (fun ch _ => hw ch) hsl hsr hid

/-- (a) string columns, rows of the header's width, but the header already has an `_id` column:
    `output_table.insert(0, '_id', …)` raises ValueError -/
theorem runTables_idClash (a : TableArgs) (l r : Frame) (allowMissing oss : Bool) (cpu : Int)
    (work : OutCfg → Nat → Nat → List Row → List Row → List Row)
    (hw : ∀ ch ∈ chunksFor (RT.rArr a r) a.nJobs cpu,
      ∀ row ∈ work (RT.out a) (RT.lAttrIdx a) (RT.rAttrIdx a) (RT.lArr a l) ch,
        row.length = (RT.header a oss).length)
    (hsl : Props.StrColumn l a.lAttr) (hsr : Props.StrColumn r a.rAttr) (hid : ¬ Props.NoIdClash (RT.header a oss)) :
    runTables a l r allowMissing oss cpu work = .error .other := by
  have hid' : "_id" ∈ RT.header a oss := Classical.not_not.1 hid
  rw [runTables_unfold, (RT.joinCellsOk_lArr_iff a l).2 hsl, (RT.joinCellsOk_rArr_iff a r).2 hsr,
    except_mapM_ok _ (fun ch => work (RT.out a) (RT.lAttrIdx a) (RT.rAttrIdx a) (RT.lArr a l) ch) _
      (fun ch hch => mkRows_id _ _ (hw ch hch))]
  cases allowMissing
  · exact finishPy_of_mem _ _ _ hid'
  · show (Except.map (fun p => some p.2) (getPairsWithMissingValue l r a.lKey a.rKey a.lAttr a.rAttr (RT.lOut a) (RT.rOut a)
        a.lPre a.rPre oss) >>= fun missing => finishPy (RT.header a oss) _ missing) = _
    rw [RT.getPairsWithMissingValue_eq]
    exact finishPy_of_mem _ _ _ hid'

/-- TOTALITY + ROW DECOMPOSITION: `runTables` succeeds (string join columns, no `_id` clash); its rows
    (without the leading `_id` cell) are the per-chunk results in chunk order followed by the missing-value rows -/
theorem runTables_ok (a : TableArgs) (l r : Frame) (allowMissing oss : Bool) (cpu : Int)
    (work : OutCfg → Nat → Nat → List Row → List Row → List Row)
    (hw : ∀ ch, ∀ row ∈ work (RT.out a) (RT.lAttrIdx a) (RT.rAttrIdx a) (RT.lArr a l) ch,
      row.length = (RT.header a oss).length)
    (hsl : Props.StrColumn l a.lAttr) (hsr : Props.StrColumn r a.rAttr) (hid : Props.NoIdClash (RT.header a oss)) :
    ∃ fr, runTables a l r allowMissing oss cpu work = .ok fr ∧
      fr.rows.map (fun row => row.drop 1) =
        ((chunksFor (RT.rArr a r) a.nJobs cpu).flatMap (fun ch =>
          work (RT.out a) (RT.lAttrIdx a) (RT.rAttrIdx a) (RT.lArr a l) ch))
        ++ (if allowMissing then RT.missingRows a l r oss else []) := by
  refine ⟨_, runTables_eq a l r allowMissing oss cpu work hw hsl hsr hid, ?_⟩
  rw [finish_rows_drop, List.flatMap_def]
  cases allowMissing <;> rfl

/-- the same for an arbitrary successful run: whenever `runTables` returns `fr` and the width
    hypothesis holds, `fr` decomposes as in `runTables_ok`; moreover each row is its `_id` followed by
    the payload -/
theorem runTables_rows (a : TableArgs) (l r : Frame) (allowMissing oss : Bool) (cpu : Int)
    (work : OutCfg → Nat → Nat → List Row → List Row → List Row)
    (hw : ∀ ch, ∀ row ∈ work (RT.out a) (RT.lAttrIdx a) (RT.rAttrIdx a) (RT.lArr a l) ch,
      row.length = (RT.header a oss).length)
    (fr : Frame) (h : runTables a l r allowMissing oss cpu work = .ok fr) :
    fr.columns = "_id" :: RT.header a oss ∧
    fr.rows =
      (((chunksFor (RT.rArr a r) a.nJobs cpu).flatMap (fun ch =>
          work (RT.out a) (RT.lAttrIdx a) (RT.rAttrIdx a) (RT.lArr a l) ch))
        ++ (if allowMissing then RT.missingRows a l r oss else [])).zipIdx.map
        (fun (x : Row × Nat) => Cell.int x.2 :: x.1) := by
  obtain ⟨hsl, hsr, hid⟩ := runTables_ok_inv a l r allowMissing oss cpu work fr h
  rw [runTables_eq a l r allowMissing oss cpu work hw hsl hsr hid] at h
  cases Except.ok.inj h
  refine ⟨rfl, ?_⟩
  rw [finish_rows, List.flatMap_def]
  cases allowMissing <;> rfl

/-! ### widths of the typical row shapes -/

theorem RT.outputRow_length (a : TableArgs) (la ra : Row) :
    (outputRow (RT.out a) la ra).length = (RT.header a false).length := by
  have h : (RT.header a false).length =
      (getOutputHeader a.lKey a.rKey (RT.lOut a) (RT.rOut a) a.lPre a.rPre).length := by
    simp [RT.header]
  rw [h]
  exact SSJ.outputRow_length a.lKey a.rKey a.lAttr a.rAttr (RT.lOut a) (RT.rOut a) a.lPre a.rPre la ra

theorem RT.header_length (a : TableArgs) (oss : Bool) :
    (RT.header a oss).length = (RT.header a false).length + (if oss then 1 else 0) := by
  cases oss <;> simp [RT.header]

/-- explicit width of the header: `2 + #left outputs + #right outputs (+ 1)` -/
theorem RT.header_length_eq (a : TableArgs) (oss : Bool) :
    (RT.header a oss).length =
      2 + ((RT.lOut a).getD []).length + ((RT.rOut a).getD []).length + (if oss then 1 else 0) := by
  rw [RT.header, List.length_append, getOutputHeader_length]
  cases oss <;> rfl

/-- `withScore oss (outputRow …) s` has the header's width, for ARBITRARY rows `la ra` -/
theorem RT.withScore_outputRow_length (a : TableArgs) (oss : Bool) (la ra : Row) (s : Cell) :
    (withScore oss (outputRow (RT.out a) la ra) s).length = (RT.header a oss).length := by
  rw [withScore_length, RT.outputRow_length, RT.header_length a oss]

/-- `outputRow … ++ (if oss then [c] else [])` has the header's width -/
theorem RT.outputRow_append_length (a : TableArgs) (oss : Bool) (la ra : Row) (c : Cell) :
    (outputRow (RT.out a) la ra ++ (if oss then [c] else [])).length = (RT.header a oss).length := by
  rw [List.length_append, RT.outputRow_length, RT.header_length a oss]
  cases oss <;> rfl

/-! ## 2. chunk membership -/

/-- restated from `Split`: the chunks concatenate to the right array -/
theorem RT.chunks_flatten (a : TableArgs) (r : Frame) (cpu : Int) (hlen : (RT.rArr a r).length < 2 ^ 40) :
    (chunksFor (RT.rArr a r) a.nJobs cpu).flatten = RT.rArr a r :=
  chunksFor_flatten _ _ _ hlen

theorem mem_chunksFor_iff {α : Type} (table : List α) (nJobs cpu : Int) (hlen : table.length < 2 ^ 40) (x : α) :
    x ∈ table ↔ ∃ ch ∈ chunksFor table nJobs cpu, x ∈ ch := by
  conv_lhs => rw [← chunksFor_flatten table nJobs cpu hlen]
  exact List.mem_flatten

/-- every element of the right array lies in some chunk -/
theorem RT.mem_chunk_of_mem_rArr (a : TableArgs) (r : Frame) (cpu : Int) (hlen : (RT.rArr a r).length < 2 ^ 40) :
    ∀ x ∈ RT.rArr a r, ∃ ch ∈ chunksFor (RT.rArr a r) a.nJobs cpu, x ∈ ch :=
  fun x hx => (mem_chunksFor_iff _ _ _ hlen x).1 hx

/-- every element of every chunk is an element of the right array -/
theorem RT.mem_rArr_of_mem_chunk (a : TableArgs) (r : Frame) (cpu : Int) (hlen : (RT.rArr a r).length < 2 ^ 40) :
    ∀ ch ∈ chunksFor (RT.rArr a r) a.nJobs cpu, ∀ x ∈ ch, x ∈ RT.rArr a r :=
  fun ch hch x hx => (mem_chunksFor_iff _ _ _ hlen x).2 ⟨ch, hch, hx⟩

/-- index form of membership in a chunk (the joins address probe rows by position) -/
theorem mem_iff_getD {α : Type} (ch : List α) (d₀ : α) (x : α) :
    x ∈ ch ↔ ∃ d, d < ch.length ∧ x = ch.getD d d₀ := by
  rw [List.mem_iff_getElem]
  constructor
  · rintro ⟨d, hd, rfl⟩
    exact ⟨d, hd, by rw [List.getD_eq_getElem?_getD, List.getElem?_eq_getElem hd]; rfl⟩
  · rintro ⟨d, hd, rfl⟩
    exact ⟨d, hd, by rw [List.getD_eq_getElem?_getD, List.getElem?_eq_getElem hd]; rfl⟩

theorem RT.mem_chunk_index (ch : List Row) (x : Row) : x ∈ ch ↔ ∃ d, d < ch.length ∧ x = ch.getD d [] :=
  mem_iff_getD ch [] x

/-- index form: every element of the right array is `ch.getD d []` for some chunk `ch`, `d < ch.length` -/
theorem RT.exists_chunk_index (a : TableArgs) (r : Frame) (cpu : Int) (hlen : (RT.rArr a r).length < 2 ^ 40) (x : Row) :
    x ∈ RT.rArr a r ↔ ∃ ch ∈ chunksFor (RT.rArr a r) a.nJobs cpu, ∃ d, d < ch.length ∧ x = ch.getD d [] := by
  rw [mem_chunksFor_iff _ a.nJobs cpu hlen]
  constructor
  · rintro ⟨ch, hch, hx⟩; exact ⟨ch, hch, (RT.mem_chunk_index ch x).1 hx⟩
  · rintro ⟨ch, hch, hx⟩; exact ⟨ch, hch, (RT.mem_chunk_index ch x).2 hx⟩

/-! ## 3. source rows -/

theorem RT.lArr_eq (a : TableArgs) (l : Frame) :
    RT.lArr a l = (l.rows.filter (fun s => !(s.cell (l.colIdx a.lAttr)).isMissing)).map (RT.lRow a l) := rfl

theorem RT.rArr_eq (a : TableArgs) (r : Frame) :
    RT.rArr a r = (r.rows.filter (fun s => !(s.cell (r.colIdx a.rAttr)).isMissing)).map (RT.rRow a r) := rfl

/-- the rows of the left array are the projections of the source rows with present join value -/
theorem RT.mem_lArr_iff (a : TableArgs) (l : Frame) (x : Row) :
    x ∈ RT.lArr a l ↔ ∃ srow ∈ l.rows, (srow.cell (l.colIdx a.lAttr)).isMissing = false ∧
      x = ((RT.lProj a).map l.colIdx).map srow.cell := by
  rw [RT.lArr_eq]
  simp only [List.mem_map, List.mem_filter, Bool.not_eq_true']
  constructor
  · rintro ⟨s, ⟨h1, h2⟩, rfl⟩; exact ⟨s, h1, h2, rfl⟩
  · rintro ⟨s, h1, h2, rfl⟩; exact ⟨s, ⟨h1, h2⟩, rfl⟩

theorem RT.mem_rArr_iff (a : TableArgs) (r : Frame) (x : Row) :
    x ∈ RT.rArr a r ↔ ∃ srow ∈ r.rows, (srow.cell (r.colIdx a.rAttr)).isMissing = false ∧
      x = ((RT.rProj a).map r.colIdx).map srow.cell := by
  rw [RT.rArr_eq]
  simp only [List.mem_map, List.mem_filter, Bool.not_eq_true']
  constructor
  · rintro ⟨s, ⟨h1, h2⟩, rfl⟩; exact ⟨s, h1, h2, rfl⟩
  · rintro ⟨s, h1, h2, rfl⟩; exact ⟨s, ⟨h1, h2⟩, rfl⟩

/-- join cell of a projected left row = join cell of its source row -/
theorem RT.lRow_attr (a : TableArgs) (l : Frame) (srow : Row) :
    Row.cell (((RT.lProj a).map l.colIdx).map srow.cell) (RT.lAttrIdx a) = srow.cell (l.colIdx a.lAttr) :=
  (projection_faithful l a.lKey a.lAttr a.lOut srow).2.1

/-- key cell of a projected left row = key cell of its source row -/
theorem RT.lRow_key (a : TableArgs) (l : Frame) (srow : Row) :
    Row.cell (((RT.lProj a).map l.colIdx).map srow.cell) (RT.out a).lKey = srow.cell (l.colIdx a.lKey) :=
  (projection_faithful l a.lKey a.lAttr a.lOut srow).1

theorem RT.rRow_attr (a : TableArgs) (r : Frame) (srow : Row) :
    Row.cell (((RT.rProj a).map r.colIdx).map srow.cell) (RT.rAttrIdx a) = srow.cell (r.colIdx a.rAttr) :=
  (projection_faithful r a.rKey a.rAttr a.rOut srow).2.1

theorem RT.rRow_key (a : TableArgs) (r : Frame) (srow : Row) :
    Row.cell (((RT.rProj a).map r.colIdx).map srow.cell) (RT.out a).rKey = srow.cell (r.colIdx a.rKey) :=
  (projection_faithful r a.rKey a.rAttr a.rOut srow).1

/-- every row of the left array has a present join value -/
theorem RT.lArr_attr_present (a : TableArgs) (l : Frame) (x : Row) (hx : x ∈ RT.lArr a l) :
    (x.cell (RT.lAttrIdx a)).isMissing = false := by
  obtain ⟨s, _, hm, rfl⟩ := (RT.mem_lArr_iff a l x).1 hx
  rw [RT.lRow_attr]; exact hm

theorem RT.rArr_attr_present (a : TableArgs) (r : Frame) (x : Row) (hx : x ∈ RT.rArr a r) :
    (x.cell (RT.rAttrIdx a)).isMissing = false := by
  obtain ⟨s, _, hm, rfl⟩ := (RT.mem_rArr_iff a r x).1 hx
  rw [RT.rRow_attr]; exact hm

/-- the faithful output row (restating `outputRow_faithful`): for source rows `ls rs`, the output
    row of their projections lists left key, right key, requested left cells, requested right cells -/
theorem RT.outputRow_faithful (a : TableArgs) (l r : Frame) (ls rs : Row) :
    outputRow (RT.out a) (((RT.lProj a).map l.colIdx).map ls.cell) (((RT.rProj a).map r.colIdx).map rs.cell) =
      [ls.cell (l.colIdx a.lKey), rs.cell (r.colIdx a.rKey)] ++
        ((RT.lOut a).getD []).map (fun c => ls.cell (l.colIdx c)) ++
        ((RT.rOut a).getD []).map (fun c => rs.cell (r.colIdx c)) :=
  SSJ.outputRow_faithful l r a.lKey a.rKey a.lAttr a.rAttr a.lOut a.rOut ls rs

/-- cells 0 and 1 of ANY output row are the key cells of its two argument rows -/
theorem outputRow_cell_zero (o : OutCfg) (la ra : Row) : (outputRow o la ra).cell 0 = la.cell o.lKey := by
  unfold outputRow; split <;> rfl

theorem outputRow_cell_one (o : OutCfg) (la ra : Row) : (outputRow o la ra).cell 1 = ra.cell o.rKey := by
  unfold outputRow; split <;> rfl

theorem two_le_outputRow_length (o : OutCfg) (la ra : Row) : 2 ≤ (outputRow o la ra).length := by
  rw [mat_outputRow_length]; omega

/-- appending the score does not disturb the cells of the row -/
theorem withScore_cell (b : Bool) (row : Row) (s : Cell) (i : Nat) (hi : i < row.length) :
    (withScore b row s).cell i = row.cell i := by
  cases b
  · rfl
  · simp only [withScore, if_true, Row.cell, List.getD_eq_getElem?_getD]
    rw [List.getElem?_append_left hi]

theorem append_ite_cell (b : Bool) (row : Row) (s : Cell) (i : Nat) (hi : i < row.length) :
    Row.cell (row ++ (if b then [s] else [])) i = row.cell i := by
  simp only [Row.cell, List.getD_eq_getElem?_getD]
  rw [List.getElem?_append_left hi]

theorem withScore_outputRow_cell_zero (b : Bool) (o : OutCfg) (la ra : Row) (s : Cell) :
    (withScore b (outputRow o la ra) s).cell 0 = la.cell o.lKey := by
  rw [withScore_cell _ _ _ _ (by have := two_le_outputRow_length o la ra; omega), outputRow_cell_zero]

theorem withScore_outputRow_cell_one (b : Bool) (o : OutCfg) (la ra : Row) (s : Cell) :
    (withScore b (outputRow o la ra) s).cell 1 = ra.cell o.rKey := by
  rw [withScore_cell _ _ _ _ (by have := two_le_outputRow_length o la ra; omega), outputRow_cell_one]

/-- in particular, cells 0 and 1 of the output row of two projected rows are the keys of the source rows -/
theorem RT.outputRow_keys (a : TableArgs) (l r : Frame) (ls rs : Row) (oss : Bool) (s : Cell) :
    let row := withScore oss (outputRow (RT.out a) (((RT.lProj a).map l.colIdx).map ls.cell)
                  (((RT.rProj a).map r.colIdx).map rs.cell)) s
    row.cell 0 = ls.cell (l.colIdx a.lKey) ∧ row.cell 1 = rs.cell (r.colIdx a.rKey) := by
  intro row
  exact ⟨by rw [withScore_outputRow_cell_zero, RT.lRow_key], by rw [withScore_outputRow_cell_one, RT.rRow_key]⟩

/-! ## 4. keys -/

/-- a validated key column has pairwise distinct cells -/
theorem keys_nodup_of_validateKeyAttr (key : String) (f : Frame) (h : validateKeyAttr key f = .ok ()) :
    (f.rows.map (fun s => s.cell (f.colIdx key))).Nodup :=
  nodup_of_validateKeyAttr key f h

/-- a validated key column has no missing cell -/
theorem keys_present_of_validateKeyAttr (key : String) (f : Frame) (h : validateKeyAttr key f = .ok ()) :
    ∀ srow ∈ f.rows, (srow.cell (f.colIdx key)).isMissing = false := by
  unfold validateKeyAttr raiseIf at h
  dsimp only at h
  split at h
  · cases h
  · next hc =>
    simp only [Bool.not_eq_true', Bool.not_eq_false, Bool.and_eq_true, beq_iff_eq] at hc
    intro srow hs
    have := hc.2
    simp only [Frame.col, List.any_map, List.any_eq_false, Function.comp_apply] at this
    exact Bool.eq_false_iff.mpr (this srow hs)

/-- two source rows with the same key cell are the same row -/
theorem row_eq_of_key_eq (key : String) (f : Frame) (h : validateKeyAttr key f = .ok ()) (s₁ s₂ : Row)
    (h₁ : s₁ ∈ f.rows) (h₂ : s₂ ∈ f.rows) (hk : s₁.cell (f.colIdx key) = s₂.cell (f.colIdx key)) : s₁ = s₂ :=
  List.inj_on_of_nodup_map (keys_nodup_of_validateKeyAttr key f h) h₁ h₂ hk

/-- consequently the rows of a validated frame are pairwise distinct -/
theorem rows_nodup_of_validateKeyAttr (key : String) (f : Frame) (h : validateKeyAttr key f = .ok ()) :
    f.rows.Nodup :=
  (keys_nodup_of_validateKeyAttr key f h).of_map _

/-- the key cells of the projected arrays are pairwise distinct, too -/
theorem RT.lArr_keys_nodup (a : TableArgs) (l : Frame) (h : validateKeyAttr a.lKey l = .ok ()) :
    ((RT.lArr a l).map (fun x => x.cell (RT.out a).lKey)).Nodup := by
  rw [RT.lArr_eq, List.map_map]
  have e : ((fun x : Row => x.cell (RT.out a).lKey) ∘ RT.lRow a l) = fun s => s.cell (l.colIdx a.lKey) := by
    funext s; exact RT.lRow_key a l s
  rw [e]
  exact (keys_nodup_of_validateKeyAttr a.lKey l h).sublist (List.filter_sublist.map _)

theorem RT.rArr_keys_nodup (a : TableArgs) (r : Frame) (h : validateKeyAttr a.rKey r = .ok ()) :
    ((RT.rArr a r).map (fun x => x.cell (RT.out a).rKey)).Nodup := by
  rw [RT.rArr_eq, List.map_map]
  have e : ((fun x : Row => x.cell (RT.out a).rKey) ∘ RT.rRow a r) = fun s => s.cell (r.colIdx a.rKey) := by
    funext s; exact RT.rRow_key a r s
  rw [e]
  exact (keys_nodup_of_validateKeyAttr a.rKey r h).sublist (List.filter_sublist.map _)

/-! ## 5. missing rows (C08) -/

/-- a missing-value row: exactly the faithful output row of the two ORIGINAL rows -/
theorem missing_outputRow_faithful (l r : Frame) (lKey rKey : String) (lOut rOut : Option (List String))
    (ls rs : Row) :
    outputRow (missingOutCfg l r lKey rKey lOut rOut) ls rs =
      [ls.cell (l.colIdx lKey), rs.cell (r.colIdx rKey)] ++
        (lOut.getD []).map (fun c => ls.cell (l.colIdx c)) ++
        (rOut.getD []).map (fun c => rs.cell (r.colIdx c)) := by
  unfold outputRow
  split
  · simp only [getOutputRow, missingOutCfg, findOutputAttributeIndices, List.map_map]
    rfl
  · rename_i hno
    simp only [missingOutCfg, Bool.or_eq_true, not_or, Bool.not_eq_true, Option.isSome_eq_false_iff,
      Option.isNone_iff_eq_none] at hno
    rw [hno.1, hno.2]
    simp [missingOutCfg]

theorem RT.missingRow_faithful (a : TableArgs) (l r : Frame) (oss : Bool) (ls rs : Row) :
    missingRow (RT.missOut a l r) oss ls rs =
      withScore oss ([ls.cell (l.colIdx a.lKey), rs.cell (r.colIdx a.rKey)] ++
        ((RT.lOut a).getD []).map (fun c => ls.cell (l.colIdx c)) ++
        ((RT.rOut a).getD []).map (fun c => rs.cell (r.colIdx c))) Cell.missing := by
  rw [missingRow, RT.missOut, missing_outputRow_faithful]

/-- the first two cells of a missing-value row are the two keys -/
theorem RT.missingRow_keys (a : TableArgs) (l r : Frame) (oss : Bool) (ls rs : Row) :
    (missingRow (RT.missOut a l r) oss ls rs).cell 0 = ls.cell (l.colIdx a.lKey) ∧
    (missingRow (RT.missOut a l r) oss ls rs).cell 1 = rs.cell (r.colIdx a.rKey) :=
  ⟨withScore_outputRow_cell_zero _ _ _ _ _, withScore_outputRow_cell_one _ _ _ _ _⟩

/-- with `outSimScore`, the last cell of a missing-value row is the missing score -/
theorem RT.missingRow_score (a : TableArgs) (l r : Frame) (ls rs : Row) :
    missingRow (RT.missOut a l r) true ls rs = outputRow (RT.missOut a l r) ls rs ++ [Cell.missing] ∧
    missingRow (RT.missOut a l r) false ls rs = outputRow (RT.missOut a l r) ls rs := ⟨rfl, rfl⟩

theorem RT.missingRow_length (a : TableArgs) (l r : Frame) (oss : Bool) (ls rs : Row) :
    (missingRow (RT.missOut a l r) oss ls rs).length = (RT.header a oss).length :=
  SSJ.missingRow_length l r a.lKey a.rKey (RT.lOut a) (RT.rOut a) a.lPre a.rPre oss ls rs

/-- (C08) a row is among the missing-value rows iff it is the row of a pair (left source row, right
    source row) at least one of whose join cells is missing -/
theorem RT.mem_missingRows_iff (a : TableArgs) (l r : Frame) (oss : Bool) (row : Row) :
    row ∈ RT.missingRows a l r oss ↔
      ∃ ls ∈ l.rows, ∃ rs ∈ r.rows,
        ((ls.cell (l.colIdx a.lAttr)).isMissing = true ∨ (rs.cell (r.colIdx a.rAttr)).isMissing = true) ∧
        row = missingRow (RT.missOut a l r) oss ls rs := by
  simp only [RT.missingRows, List.mem_append, List.mem_flatMap, List.mem_map, List.mem_filter,
    Bool.not_eq_true']
  constructor
  · rintro (⟨ls, ⟨hl, hm⟩, rs, hr, rfl⟩ | ⟨rs, ⟨hr, hm⟩, ls, ⟨hl, _⟩, rfl⟩)
    · exact ⟨ls, hl, rs, hr, Or.inl hm, rfl⟩
    · exact ⟨ls, hl, rs, hr, Or.inr hm, rfl⟩
  · rintro ⟨ls, hl, rs, hr, hm, rfl⟩
    by_cases hlm : (ls.cell (l.colIdx a.lAttr)).isMissing = true
    · exact Or.inl ⟨ls, ⟨hl, hlm⟩, rs, hr, rfl⟩
    · rcases hm with hm | hm
      · exact absurd hm hlm
      · exact Or.inr ⟨rs, ⟨hr, hm⟩, ls, ⟨hl, Bool.eq_false_iff.mpr hlm⟩, rfl⟩

/-- (C08) exactly one row per such pair: the missing-value rows are the rows of the pairs at the
    positions `missingPairIdx` (which is duplicate-free, `nodup_missingPairIdx`, and contains exactly
    the positions of pairs with a missing join cell, `mem_missingPairIdx`) -/
theorem RT.missingRows_eq_positions (a : TableArgs) (l r : Frame) (oss : Bool) :
    RT.missingRows a l r oss =
      (missingPairIdx l.rows r.rows (l.colIdx a.lAttr) (r.colIdx a.rAttr)).map (fun ij =>
        missingRow (RT.missOut a l r) oss (l.rows.getD ij.1 []) (r.rows.getD ij.2 [])) := by
  have h1 := RT.getPairsWithMissingValue_eq a l r oss
  have h2 := missingPairs_eq_positions l r a.lKey a.rKey a.lAttr a.rAttr (RT.lOut a) (RT.rOut a) a.lPre a.rPre oss
  rw [h1] at h2
  exact congrArg Prod.snd (Except.ok.inj h2)

/-- (C08) the tail of the result of `runTables` with `allowMissing = true`: after the chunk results
    come exactly the missing-value rows -/
theorem runTables_missing_tail (a : TableArgs) (l r : Frame) (oss : Bool) (cpu : Int)
    (work : OutCfg → Nat → Nat → List Row → List Row → List Row)
    (hw : ∀ ch, ∀ row ∈ work (RT.out a) (RT.lAttrIdx a) (RT.rAttrIdx a) (RT.lArr a l) ch,
      row.length = (RT.header a oss).length)
    (fr : Frame) (h : runTables a l r true oss cpu work = .ok fr) :
    fr.rows.map (fun row => row.drop 1) =
      ((chunksFor (RT.rArr a r) a.nJobs cpu).flatMap (fun ch =>
          work (RT.out a) (RT.lAttrIdx a) (RT.rAttrIdx a) (RT.lArr a l) ch))
      ++ ((l.rows.filter (fun row => (row.cell (l.colIdx a.lAttr)).isMissing)).flatMap (fun ls =>
            r.rows.map (fun rs => withScore oss (outputRow (RT.missOut a l r) ls rs) Cell.missing))
          ++ (r.rows.filter (fun row => (row.cell (r.colIdx a.rAttr)).isMissing)).flatMap (fun rs =>
            (l.rows.filter (fun row => !(row.cell (l.colIdx a.lAttr)).isMissing)).map (fun ls =>
              withScore oss (outputRow (RT.missOut a l r) ls rs) Cell.missing))) := by
  obtain ⟨hsl, hsr, hid⟩ := runTables_ok_inv a l r true oss cpu work fr h
  obtain ⟨fr', h', hrows⟩ := runTables_ok a l r true oss cpu work hw hsl hsr hid
  rw [h] at h'
  cases Except.ok.inj h'
  rw [hrows]
  rfl

/-! ## 6. `_id` and columns -/

theorem RT.columns (a : TableArgs) (l r : Frame) (allowMissing oss : Bool) (cpu : Int)
    (work : OutCfg → Nat → Nat → List Row → List Row → List Row) (fr : Frame)
    (h : runTables a l r allowMissing oss cpu work = .ok fr) :
    fr.columns = "_id" :: RT.header a oss :=
  runTables_columns a l r allowMissing oss cpu work fr h

theorem RT.ids (a : TableArgs) (l r : Frame) (allowMissing oss : Bool) (cpu : Int)
    (work : OutCfg → Nat → Nat → List Row → List Row → List Row) (fr : Frame)
    (h : runTables a l r allowMissing oss cpu work = .ok fr) :
    fr.rows.map (fun row => row.cell 0) = (List.range fr.rows.length).map (fun (i : Nat) => Cell.int i) :=
  runTables_ids a l r allowMissing oss cpu work fr h

/-- the `_id` cell of the `i`-th row is `i` -/
theorem RT.id_cell (a : TableArgs) (l r : Frame) (allowMissing oss : Bool) (cpu : Int)
    (work : OutCfg → Nat → Nat → List Row → List Row → List Row) (fr : Frame)
    (h : runTables a l r allowMissing oss cpu work = .ok fr) (i : Nat) (hi : i < fr.rows.length) :
    (fr.rows[i]).cell 0 = Cell.int i := by
  have h1 := RT.ids a l r allowMissing oss cpu work fr h
  have h2 := congrArg (fun (x : List Cell) => x[i]?) h1
  simp only [List.getElem?_map, List.getElem?_eq_getElem hi, Option.map_some,
    List.getElem?_range hi] at h2
  exact Option.some.inj h2

section AxiomCheck
#print axioms runTables_eq'
#print axioms runTables_eq
#print axioms runTables_ok
#print axioms runTables_rows
#print axioms runTables_typeErr
#print axioms runTables_idClash
#print axioms runTables_ok_inv
#print axioms RT.withScore_outputRow_length
#print axioms RT.outputRow_append_length
#print axioms RT.chunks_flatten
#print axioms RT.mem_chunk_of_mem_rArr
#print axioms RT.mem_rArr_of_mem_chunk
#print axioms RT.exists_chunk_index
#print axioms RT.mem_lArr_iff
#print axioms RT.mem_rArr_iff
#print axioms RT.lRow_attr
#print axioms RT.lRow_key
#print axioms RT.rRow_attr
#print axioms RT.rRow_key
#print axioms RT.outputRow_faithful
#print axioms RT.outputRow_keys
#print axioms keys_nodup_of_validateKeyAttr
#print axioms keys_present_of_validateKeyAttr
#print axioms row_eq_of_key_eq
#print axioms RT.lArr_keys_nodup
#print axioms RT.rArr_keys_nodup
#print axioms missing_outputRow_faithful
#print axioms RT.missingRow_keys
#print axioms RT.mem_missingRows_iff
#print axioms RT.missingRows_eq_positions
#print axioms runTables_missing_tail
#print axioms RT.columns
#print axioms RT.id_cell
end AxiomCheck

end SSJ

/-
  SSJ.Proofs.EntryLaws — helper lemmas for property C13 (transposition, threshold refinement, operator partition).

  1. laws of the generated comparison map `compFn` (= COMP_OP_MAP) against a numeric threshold:
     `>=` is the disjoint union of `>` and `=`, `<=` of `<` and `=`; `>=`/`>` are antitone and `<=`/`<` monotone
     in the threshold;
  2. the specification predicates are symmetric in the two token sets / strings (`simSet`, `score4`, `qualStrict`,
     `qualRounded`, `bothEmpty`, `ovcScore`, `qualED`, `shareToken`);
  3. the transformed calls: `JoinArgs.swap` (tables exchanged), `JoinArgs.withThreshold`, `JoinArgs.withOp`, and the
     fact that validity of a call carries over to them;
  4. facts about the fixture `EntrySetSim.Ex` used by the non-vacuity examples of `Props/C13`.
-/
import SSJ.Proofs.EntrySetSim
import SSJ.Proofs.EntryExact
import SSJ.Proofs.EntryED

namespace SSJ

/-! ## 3a. the transformed calls (definitions; in namespace `SSJ.JoinArgs` for dot notation) -/

/-- the call with the two tables — and everything attached to a side: key, join attribute, output attributes,
    prefix — exchanged; threshold, operator, flags and `n_jobs` unchanged -/
def JoinArgs.swap (a : JoinArgs) : JoinArgs :=
  { a with ltable := a.rtable, rtable := a.ltable, lKey := a.rKey, rKey := a.lKey, lAttr := a.rAttr, rAttr := a.lAttr,
           lOut := a.rOut, rOut := a.lOut, lPre := a.rPre, rPre := a.lPre }

/-- the same call with another threshold -/
def JoinArgs.withThreshold (a : JoinArgs) (v : PyV) : JoinArgs := { a with threshold := v }

/-- the same call with another comparison operator -/
def JoinArgs.withOp (a : JoinArgs) (op : String) : JoinArgs := { a with compOp := op }

namespace EntryLaws
open SSJ.Props

/-! ## 1. the comparison map against a numeric threshold -/

theorem compFn_ge : compFn ">=" = PyV.geb := by
  funext x y; simp [compFn, Gen.comp_op_map]

theorem compFn_gt : compFn ">" = PyV.gtb := by
  funext x y; simp [compFn, Gen.comp_op_map]

/-- a threshold that is a Python int or a (finite) float -/
def NumThr (v : PyV) : Prop := (∃ q : Rat, v = .float q) ∨ (∃ k : Int, v = .int k)

theorem numThr_float (q : Rat) : NumThr (.float q) := Or.inl ⟨q, rfl⟩
theorem numThr_int (k : Int) : NumThr (.int k) := Or.inr ⟨k, rfl⟩

/-- `x >= v` iff `x > v` or `x == v` (any value `x`, also an error value: then all three are false) -/
theorem ge_split (x v : PyV) (hv : NumThr v) :
    compFn ">=" x v = (compFn ">" x v || compFn "=" x v) := by
  rw [compFn_ge, compFn_gt, EntryED.compFn_eq, Bool.eq_iff_iff]
  rcases hv with ⟨q, rfl⟩ | ⟨k, rfl⟩ <;> cases x <;>
    simp [PyV.geb, PyV.gtb, PyV.leb, PyV.ltb, PyV.eqb, PyV.numVal?, le_iff_lt_or_eq] <;>
    exact or_congr_right eq_comm

/-- `x > v` and `x == v` exclude each other -/
theorem gt_eq_disjoint (x v : PyV) (hv : NumThr v) :
    ¬ (compFn ">" x v = true ∧ compFn "=" x v = true) := by
  rw [compFn_gt, EntryED.compFn_eq]
  rcases hv with ⟨q, rfl⟩ | ⟨k, rfl⟩ <;> cases x <;>
    simp [PyV.gtb, PyV.ltb, PyV.eqb, PyV.numVal?] <;> intro h e <;> simp [e] at h

/-- `x <= v` iff `x < v` or `x == v` -/
theorem le_split (x v : PyV) (hv : NumThr v) :
    compFn "<=" x v = (compFn "<" x v || compFn "=" x v) := by
  rw [EntryED.compFn_le, EntryED.compFn_lt, EntryED.compFn_eq, Bool.eq_iff_iff]
  rcases hv with ⟨q, rfl⟩ | ⟨k, rfl⟩ <;> cases x <;>
    simp [PyV.leb, PyV.ltb, PyV.eqb, PyV.numVal?, le_iff_lt_or_eq]

/-- `x < v` and `x == v` exclude each other -/
theorem lt_eq_disjoint (x v : PyV) (hv : NumThr v) :
    ¬ (compFn "<" x v = true ∧ compFn "=" x v = true) := by
  rw [EntryED.compFn_lt, EntryED.compFn_eq]
  rcases hv with ⟨q, rfl⟩ | ⟨k, rfl⟩ <;> cases x <;>
    simp [PyV.ltb, PyV.eqb, PyV.numVal?] <;> intro h e <;> simp [e] at h

/-- `>=` and `>` against a float threshold are antitone in the threshold -/
theorem ge_mono_float (op : String) (hop : op = ">=" ∨ op = ">") (x : PyV) (t₁ t₂ : Rat) (h12 : t₁ ≤ t₂)
    (h : compFn op x (.float t₂) = true) : compFn op x (.float t₁) = true := by
  rcases hop with rfl | rfl
  · rw [compFn_ge] at h ⊢
    cases x <;> simp [PyV.geb, PyV.leb, PyV.numVal?] at h ⊢ <;> linarith
  · rw [compFn_gt] at h ⊢
    cases x <;> simp [PyV.gtb, PyV.ltb, PyV.numVal?] at h ⊢ <;> linarith

/-- `>=` and `>` against an int threshold are antitone in the threshold -/
theorem ge_mono_int (op : String) (hop : op = ">=" ∨ op = ">") (x : PyV) (t₁ t₂ : Int) (h12 : t₁ ≤ t₂)
    (h : compFn op x (.int t₂) = true) : compFn op x (.int t₁) = true := by
  have h12' : (t₁ : Rat) ≤ t₂ := by exact_mod_cast h12
  rcases hop with rfl | rfl
  · rw [compFn_ge] at h ⊢
    cases x <;> simp [PyV.geb, PyV.leb, PyV.numVal?] at h ⊢ <;> first | omega | linarith
  · rw [compFn_gt] at h ⊢
    cases x <;> simp [PyV.gtb, PyV.ltb, PyV.numVal?] at h ⊢ <;> first | omega | linarith

/-- `<=` and `<` against an int threshold are monotone in the threshold -/
theorem le_mono_int (op : String) (hop : op = "<=" ∨ op = "<") (x : PyV) (t₁ t₂ : Int) (h12 : t₂ ≤ t₁)
    (h : compFn op x (.int t₂) = true) : compFn op x (.int t₁) = true := by
  have h12' : (t₂ : Rat) ≤ t₁ := by exact_mod_cast h12
  rcases hop with rfl | rfl
  · rw [EntryED.compFn_le] at h ⊢
    cases x <;> simp [PyV.leb, PyV.numVal?] at h ⊢ <;> first | omega | linarith
  · rw [EntryED.compFn_lt] at h ⊢
    cases x <;> simp [PyV.ltb, PyV.numVal?] at h ⊢ <;> first | omega | linarith

/-! ## 2. the specification is symmetric in the two sides -/

theorem sameSet_comm (a b : List Tok) : Spec.sameSet a b = Spec.sameSet b a := by
  unfold Spec.sameSet; rw [Bool.and_comm]

theorem simSet_comm (m : Measure) (hm : SetMeasure m) (a b : List Tok) : Spec.simSet m a b = Spec.simSet m b a := by
  unfold Spec.simSet
  rw [sameSet_comm a b, interCount_comm a b, simFormula_symm m hm a.length b.length, Bool.or_comm]

theorem score4_comm (m : Measure) (hm : SetMeasure m) (a b : List Tok) : Spec.score4 m a b = Spec.score4 m b a := by
  unfold Spec.score4; rw [simSet_comm m hm]

theorem qualStrict_comm (m : Measure) (hm : SetMeasure m) (op : String) (v : PyV) (a b : List Tok) :
    Spec.qualStrict m op v a b = Spec.qualStrict m op v b a := by
  unfold Spec.qualStrict; rw [simSet_comm m hm, score4_comm m hm]

theorem qualRounded_comm (m : Measure) (hm : SetMeasure m) (op : String) (v : PyV) (a b : List Tok) :
    Spec.qualRounded m op v a b = Spec.qualRounded m op v b a := by
  unfold Spec.qualRounded; rw [score4_comm m hm]

theorem bothEmpty_comm (a b : List Tok) : Spec.bothEmpty a b = Spec.bothEmpty b a := by
  unfold Spec.bothEmpty; rw [Bool.and_comm]

theorem ovcScore_comm (a b : List Tok) : Spec.ovcScore a b = Spec.ovcScore b a := by
  unfold Spec.ovcScore; rw [interCount_comm a b, Nat.min_comm]

theorem shareToken_comm (tok : String → List Tok) (s t : String) :
    Spec.shareToken tok s t = Spec.shareToken tok t s := by
  unfold Spec.shareToken
  rw [Bool.eq_iff_iff]
  simp only [List.any_eq_true, decide_eq_true_eq]
  constructor <;> rintro ⟨g, h1, h2⟩ <;> exact ⟨g, h2, h1⟩

theorem qualED_comm (op : String) (tau : Int) (s t : String) : Spec.qualED op tau s t = Spec.qualED op tau t s := by
  unfold Spec.qualED; rw [lev_comm]

/-! ## 3b. validity carries over to the transformed calls -/

theorem swap_swap (a : JoinArgs) : a.swap.swap = a := rfl

theorem tablesValid_swap (a : JoinArgs) (l r : Frame) (h : TablesValid a.toTableArgs l r) :
    TablesValid a.swap.toTableArgs r l :=
  ⟨h.rtable, h.ltable, h.rKey, h.lKey, h.rAttr, h.lAttr, h.rType, h.lType⟩

/-- a valid call stays valid when the tables are exchanged (and returns the two tables in the other order) -/
theorem validateJoin_swap (n : String) (a : JoinArgs) (t : TokObj) (l r : Frame)
    (hv : validateJoin n a t = .ok (l, r)) : validateJoin n a.swap t = .ok (r, l) := by
  rw [validateJoin_ok_iff] at hv ⊢
  obtain ⟨h1, h2, h3, h4, ⟨h5, h6⟩, h7, h8⟩ := hv
  exact ⟨tablesValid_swap a l r h1, h2, h3, h4, ⟨h6, h5⟩, h8, h7⟩

/-- a valid call stays valid under another operator admitted for the measure -/
theorem validateJoin_withOp (n : String) (a : JoinArgs) (t : TokObj) (l r : Frame) (op : String)
    (hv : validateJoin n a t = .ok (l, r))
    (hop : Gen.validate_comp_op_for_sim_measure (.str op) (.str n) ≠ .err .assertion) :
    validateJoin n (a.withOp op) t = .ok (l, r) := by
  rw [validateJoin_ok_iff] at hv ⊢
  obtain ⟨h1, h2, h3, h4, h5, h7, h8⟩ := hv
  exact ⟨h1, h2, h3, hop, h5, h7, h8⟩

/-- a valid call stays valid under another threshold admitted for the measure -/
theorem validateJoin_withThreshold (n : String) (a : JoinArgs) (t : TokObj) (l r : Frame) (v : PyV)
    (hv : validateJoin n a t = .ok (l, r))
    (hthr : Gen.validate_threshold v (.str n) ≠ .err .assertion) :
    validateJoin n (a.withThreshold v) t = .ok (l, r) := by
  rw [validateJoin_ok_iff] at hv ⊢
  obtain ⟨h1, h2, h3, h4, h5, h7, h8⟩ := hv
  exact ⟨h1, h2, hthr, h4, h5, h7, h8⟩

/-- the operators `>=`, `>`, `=` are admitted for every measure but edit distance -/
theorem simOp_valid (n : String) (hn : n ≠ "EDIT_DISTANCE") (op : String) (hop : op ∈ [">=", ">", "="]) :
    Gen.validate_comp_op_for_sim_measure (.str op) (.str n) ≠ .err .assertion := by
  intro h
  exact (Gen.validate_comp_op_for_sim_measure_sim op n hn).1 h hop

/-- the operators `<=`, `<`, `=` are admitted for edit distance -/
theorem edOp_valid (op : String) (hop : op ∈ ["<=", "<", "="]) :
    Gen.validate_comp_op_for_sim_measure (.str op) (.str "EDIT_DISTANCE") ≠ .err .assertion := by
  intro h
  exact (Gen.validate_comp_op_for_sim_measure_ed op).1 h hop

theorem setMeasure_unit {m : Measure} (hm : SetMeasure m) : Gen.unitMeasure m.name := by
  rcases hm with rfl | rfl | rfl
  · exact Or.inl rfl
  · exact Or.inr (Or.inl rfl)
  · exact Or.inr (Or.inr (Or.inl rfl))

/-- a float threshold in (0, 1] is admitted by jaccard / cosine / dice / overlap coefficient -/
theorem unitThr_valid (n : String) (hn : Gen.unitMeasure n) (q : Rat) (h0 : 0 < q) (h1 : q ≤ 1) :
    Gen.validate_threshold (.float q) (.str n) ≠ .err .assertion := by
  intro h
  rcases (Gen.validate_threshold_unit n q hn).1 h with h | h <;> linarith

/-- a validated float threshold of jaccard / cosine / dice / overlap coefficient is positive -/
theorem unitThr_pos (n : String) (hn : Gen.unitMeasure n) (q : Rat)
    (h : Gen.validate_threshold (.float q) (.str n) ≠ .err .assertion) : 0 < q := by
  by_contra hq
  exact h ((Gen.validate_threshold_unit n q hn).2 (Or.inl (not_lt.1 hq)))

theorem validateTablesAttrs_swap (a : JoinArgs) (l r : Frame)
    (hv : validateTablesAttrs a.toTableArgs = .ok (l, r)) : validateTablesAttrs a.swap.toTableArgs = .ok (r, l) := by
  rw [validateTablesAttrs_ok_iff] at hv ⊢
  exact tablesValid_swap a l r hv

theorem validateOutAndKeys_ok_iff (a : TableArgs) (l r : Frame) :
    validateOutAndKeys a l r = .ok () ↔
      ((a.lOut.getD []).any (fun x => !l.hasCol x) = false ∧ (a.rOut.getD []).any (fun x => !r.hasCol x) = false ∧
        keyTest l a.lKey = true ∧ keyTest r a.rKey = true) := by
  have hb := validateOutAndKeys_bind a l r (fun _ => (Except.ok () : Except PyErr Unit))
  have hb' : validateOutAndKeys a l r =
      (validateOutAndKeys a l r >>= fun _ => (Except.ok () : Except PyErr Unit)) := by
    cases validateOutAndKeys a l r <;> rfl
  rw [hb', hb]
  generalize ((a.lOut.getD []).any fun x => !l.hasCol x) = b1
  generalize ((a.rOut.getD []).any fun x => !r.hasCol x) = b2
  generalize keyTest l a.lKey = b3
  generalize keyTest r a.rKey = b4
  cases b1 <;> cases b2 <;> cases b3 <;> cases b4 <;> simp

theorem validateOutAndKeys_swap (a : JoinArgs) (l r : Frame)
    (hk : validateOutAndKeys a.toTableArgs l r = .ok ()) : validateOutAndKeys a.swap.toTableArgs r l = .ok () := by
  rw [validateOutAndKeys_ok_iff] at hk ⊢
  obtain ⟨h1, h2, h3, h4⟩ := hk
  exact ⟨h2, h1, h4, h3⟩

/-- acceptance of the OverlapFilter constructor, characterised -/
theorem mkOverlapFilter_ok_iff (size : PyV) (op : String) (am : Bool) (t : TokObj) (f : OverlapFilterObj) :
    mkOverlapFilter size op am t = .ok f ↔
      (t.isTokenizer = true ∧ Gen.validate_threshold size (.str "OVERLAP") ≠ .err .assertion ∧
        Gen.validate_comp_op_for_sim_measure (.str op) (.str "OVERLAP") ≠ .err .assertion ∧
        f = { overlapSize := size, compOp := op, allowMissing := am }) := by
  unfold mkOverlapFilter validateTokenizer
  rw [raiseIf_bind,
    genCheck_bind_of_cases _ _ _ (Gen.validate_threshold_cases _ _) rfl,
    genCheck_bind_of_cases _ _ _ (Gen.validate_comp_op_for_sim_measure_cases _ _) rfl]
  split_ifs with h1 h2 h3
  · simp at h1; simp [h1]
  · simp [h2]
  · simp [h3]
  · simp at h1
    constructor
    · intro h; exact ⟨h1, h2, h3, (Except.ok.inj h).symm⟩
    · rintro ⟨-, -, -, rfl⟩; rfl

/-- a valid OverlapFilter stays valid under another of the operators `>=`, `>`, `=` -/
theorem mkOverlapFilter_withOp (size : PyV) (op op' : String) (am : Bool) (t : TokObj) (f : OverlapFilterObj)
    (h : mkOverlapFilter size op am t = .ok f) (hop : op' ∈ [">=", ">", "="]) :
    mkOverlapFilter size op' am t = .ok { overlapSize := size, compOp := op', allowMissing := am } := by
  obtain ⟨h1, h2, -, -⟩ := (mkOverlapFilter_ok_iff _ _ _ _ _).1 h
  exact (mkOverlapFilter_ok_iff _ _ _ _ _).2 ⟨h1, h2, simOp_valid _ (by decide) _ hop, rfl⟩

/-- a valid OverlapFilter with int overlap size `k₁` stays valid under a larger int overlap size -/
theorem mkOverlapFilter_withInt (k₁ k₂ : Int) (h12 : k₁ ≤ k₂) (op : String) (am : Bool) (t : TokObj)
    (f : OverlapFilterObj) (h : mkOverlapFilter (.int k₁) op am t = .ok f) :
    mkOverlapFilter (.int k₂) op am t = .ok { overlapSize := .int k₂, compOp := op, allowMissing := am } := by
  obtain ⟨h1, h2, h3, -⟩ := (mkOverlapFilter_ok_iff _ _ _ _ _).1 h
  refine (mkOverlapFilter_ok_iff _ _ _ _ _).2 ⟨h1, ?_, h3, rfl⟩
  intro h'
  apply h2
  rw [Gen.validate_threshold_overlap] at h' ⊢
  omega

/-! ## 4. the fixture `EntrySetSim.Ex`: the pair ("ab", "abc") has Jaccard `rn (2/3)`, clearly above 0.6 both raw
       and rounded, so it is non-straddling for every threshold up to 0.6 and every operator -/
namespace Ex
open EntrySetSim EntrySetSim.Ex F64

theorem exRaw_gt : (3 / 5 : Rat) < rn (2 / 3) := by
  have hv1 := rn_lb (q := 2 / 3) (by norm_num)
  linarith

theorem exRounded_gt : (3 / 5 : Rat) < round4 (rn (2 / 3)) := by
  have hv1 := rn_lb (q := 2 / 3) (by norm_num)
  have hr : (6667 : Int) ≤ rhe (rn (2 / 3) * 10000) := by
    apply le_rhe_of_lt; push_cast; linarith
  have hr' : (6667 : Rat) ≤ ((rhe (rn (2 / 3) * 10000) : Int) : Rat) := by exact_mod_cast hr
  have hw : (6667 : Rat) / 10000 ≤ ((rhe (rn (2 / 3) * 10000) : Int) : Rat) / 10000 := by
    rw [div_le_div_iff_of_pos_right (by norm_num)]; exact hr'
  rw [round4_eq]
  have := rn_lb_of_le (x := ((rhe (rn (2 / 3) * 10000) : Int) : Rat) / 10000) (y := 6667 / 10000) (by norm_num) hw
  linarith

theorem exScore4 : Spec.score4 .jaccard ["a", "b"] ["a", "b", "c"] = .float (round4 (rn (2 / 3))) := by
  unfold Spec.score4
  rw [exSim, round4_f]

/-- raw and rounded Jaccard of the pair agree on every comparison `>=`, `>`, `=` against a threshold ≤ 0.6 -/
theorem exNonStraddling (op : String) (hop : op ∈ [">=", ">", "="]) (thr : Rat) (hthr : thr ≤ 3 / 5) :
    Spec.qualStrict .jaccard op (.float thr) ["a", "b"] ["a", "b", "c"] =
      Spec.qualRounded .jaccard op (.float thr) ["a", "b"] ["a", "b", "c"] := by
  have h1 := exRaw_gt
  have h2 := exRounded_gt
  have h1' : thr < rn (2 / 3) := by linarith
  have h2' : thr < round4 (rn (2 / 3)) := by linarith
  unfold Spec.qualStrict Spec.qualRounded
  rw [exScore4, exSim]
  simp only [List.mem_cons, List.not_mem_nil, or_false] at hop
  rcases hop with rfl | rfl | rfl
  · simp [compFn_ge, PyV.geb, PyV.leb, PyV.numVal?, h1'.le, h2'.le]
  · simp [compFn_gt, PyV.gtb, PyV.ltb, PyV.numVal?, h1', h2']
  · simp [EntryED.compFn_eq, PyV.eqb, PyV.numVal?, h1'.ne', h2'.ne']

/-- … and the pair qualifies for `>=` and `>` against every such threshold -/
theorem exQualRounded (thr : Rat) (hthr : thr ≤ 3 / 5) :
    Spec.qualRounded .jaccard ">=" (.float thr) ["a", "b"] ["a", "b", "c"] = true := by
  have h2 := exRounded_gt
  have h2' : thr ≤ round4 (rn (2 / 3)) := by linarith
  unfold Spec.qualRounded
  rw [exScore4]
  simp [compFn_ge, PyV.geb, PyV.leb, PyV.numVal?, h2']

theorem exScopeL : InScope (exToks true) exL := ⟨exScope.nodup, exScope.small, by decide⟩

end Ex

section AxiomCheck
#print axioms ge_split
#print axioms gt_eq_disjoint
#print axioms le_split
#print axioms lt_eq_disjoint
#print axioms ge_mono_float
#print axioms ge_mono_int
#print axioms le_mono_int
#print axioms simSet_comm
#print axioms shareToken_comm
#print axioms validateJoin_swap
#print axioms validateJoin_withOp
#print axioms validateJoin_withThreshold
#print axioms validateOutAndKeys_swap
#print axioms mkOverlapFilter_ok_iff
#print axioms Ex.exNonStraddling
end AxiomCheck

end EntryLaws
end SSJ

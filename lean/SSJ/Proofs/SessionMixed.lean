/-
  SSJ.Proofs.SessionMixed — glue for property C12: the result of a join does not depend on the mode the
  tokenizer is in when the call is made; call histories mixing joins with "read-only" calls (filter_tables,
  filter_candset, apply_matcher, profilers: calls that can read the tokenizer's flag but cannot write it).
-/
import SSJ.Proofs.Session
import SSJ.Proofs.EntryAccept

namespace SSJ

/-! ### the joins force the mode they need: the incoming flag is irrelevant for the result -/

theorem validateJoin_flag_irrel (mname : String) (a : JoinArgs) (t : TokObj) (b : Bool) :
    validateJoin mname a { t with returnSet := b } = validateJoin mname a t := rfl

theorem setSimJoinPy_result_flag_irrel (m : Measure) (a : JoinArgs) (t : TokObj) (toks : TokFn) (cpu : Int) (b : Bool) :
    (setSimJoinPy m a { t with returnSet := b } toks cpu).result = (setSimJoinPy m a t toks cpu).result := by
  unfold setSimJoinPy
  rw [validateJoin_flag_irrel]
  cases validateJoin m.name a t with
  | error e => rfl
  | ok p => simp only [withFlag_result]

theorem overlapCoefficientJoinPy_result_flag_irrel (a : JoinArgs) (t : TokObj) (toks : TokFn) (cpu : Int) (b : Bool) :
    (overlapCoefficientJoinPy a { t with returnSet := b } toks cpu).result =
      (overlapCoefficientJoinPy a t toks cpu).result := by
  unfold overlapCoefficientJoinPy
  rw [validateJoin_flag_irrel]
  cases validateJoin "OVERLAP_COEFFICIENT" a t with
  | error e => rfl
  | ok p => simp only [withFlag_result]

theorem editDistanceJoinPy_result_flag_irrel (a : JoinArgs) (t : TokObj) (toks : TokFn) (cpu : Int) (b : Bool) :
    (editDistanceJoinPy a { t with returnSet := b } toks cpu).result = (editDistanceJoinPy a t toks cpu).result := by
  unfold editDistanceJoinPy
  rw [validateJoin_flag_irrel]
  cases validateJoin "EDIT_DISTANCE" a t with
  | error e => rfl
  | ok p =>
    simp only
    split <;> simp only [withFlag_result]

theorem overlapJoinPy_result_flag_irrel (a : JoinArgs) (t : TokObj) (toks : TokFn) (cpu : Int) (b : Bool) :
    (overlapJoinPy a { t with returnSet := b } toks cpu).result = (overlapJoinPy a t toks cpu).result := rfl

namespace Session

/-- the result of a join call is the same whatever mode the tokenizer is in when the call is made -/
theorem runCall_result_flag_irrel (cpu : Int) (c : Call) (flag flag' : Bool) :
    (runCall cpu c flag).result = (runCall cpu c flag').result := by
  unfold runCall
  simp only
  split_ifs
  · exact (setSimJoinPy_result_flag_irrel _ _ c.tok _ _ flag).trans (setSimJoinPy_result_flag_irrel _ _ c.tok _ _ flag').symm
  · exact (setSimJoinPy_result_flag_irrel _ _ c.tok _ _ flag).trans (setSimJoinPy_result_flag_irrel _ _ c.tok _ _ flag').symm
  · exact (setSimJoinPy_result_flag_irrel _ _ c.tok _ _ flag).trans (setSimJoinPy_result_flag_irrel _ _ c.tok _ _ flag').symm
  · exact (overlapCoefficientJoinPy_result_flag_irrel _ c.tok _ _ flag).trans
      (overlapCoefficientJoinPy_result_flag_irrel _ c.tok _ _ flag').symm
  · rfl
  · exact (editDistanceJoinPy_result_flag_irrel _ c.tok _ _ flag).trans
      (editDistanceJoinPy_result_flag_irrel _ c.tok _ _ flag').symm

/-! ### histories mixing joins with read-only calls -/

/-- a call of a history: a join, or a read-only call on tokenizer `tokId` — any entry point that gets the
    tokenizer's current flag (to tokenize in the caller's mode) but has no way to change it -/
inductive MCall where
  | join (c : Call)
  | readOnly (tokId : Nat) (f : Bool → Except PyErr Frame)

def MCall.tokId : MCall → Nat
  | .join c => c.tokId
  | .readOnly i _ => i

def runMCall (cpu : Int) : MCall → Bool → Outcome
  | .join c, flag => runCall cpu c flag
  | .readOnly _ f, flag => { result := f flag, flagAfter := flag }

def stepM (cpu : Int) (flags : List Bool) (c : MCall) : List Bool × Outcome :=
  let o := runMCall cpu c (flags.getD c.tokId false)
  (flags.set c.tokId o.flagAfter, o)

def runM (cpu : Int) (flags : List Bool) : List MCall → List Bool × List Outcome
  | [] => (flags, [])
  | c :: cs =>
    let (f1, o) := stepM cpu flags c
    let (f2, os) := runM cpu f1 cs
    (f2, o :: os)

/-- every call of a mixed history leaves the flag it was given as it found it -/
theorem runMCall_flag (cpu : Int) (c : MCall) (flag : Bool) : (runMCall cpu c flag).flagAfter = flag := by
  cases c with
  | join c => exact runCall_flag cpu c flag
  | readOnly i f => rfl

/-- HISTORY INDEPENDENCE for mixed histories, unconditionally: every call's outcome equals its outcome in
    isolation, and the flags end as they began -/
theorem runM_independent (cpu : Int) (flags : List Bool) (calls : List MCall) :
    runM cpu flags calls = (flags, calls.map (fun c => runMCall cpu c (flags.getD c.tokId false))) := by
  induction calls with
  | nil => rfl
  | cons c cs ih => simp only [runM, stepM, runMCall_flag, set_getD_self, ih, List.map_cons]

end Session

/-! ### the read-only entry points see the tokenizer only through what they read -/

theorem filterTables_reads_flag_only (k : FilterKind) (f : FilterObj) (a : TableArgs) (t t' : TokObj) (toks : TokFn)
    (cpu : Int) (h : t.returnSet = t'.returnSet) :
    filterTables k f a t toks cpu = filterTables k f a t' toks cpu := by
  unfold filterTables
  rw [h]

theorem applyMatcher_reads_only (a : MatcherArgs) (t t' : TokObj) (toks : TokFn) (sim : SimArg → SimArg → PyV)
    (cpu : Int) (h1 : t.returnSet = t'.returnSet) (h2 : t.isTokenizer = t'.isTokenizer) :
    applyMatcher a (some t) toks sim cpu = applyMatcher a (some t') toks sim cpu := by
  unfold applyMatcher validateTokenizer
  simp only [Option.map_some, h1, h2]

end SSJ

/-
  SSJ.Proofs.OverlapFloat — OVERLAP with a FLOAT threshold `t`: the float analogue of
  `EntryFilters.overlap_prefix_facts` (helper of SSJ/Props/C14_overlap_float.lean).

  The generated bounds are
      prefix length  `int(max(num_tokens − t + 1, 0))`  =  `⌊rn(rn(n − t) + 1)⌋`  (0 if that is negative, 0 for `n = 0`),
      size lower     `int(ceil(t))`                      =  `⌈t⌉`,
  with `n − t` and `… + 1` evaluated in double precision (`F64.rn`).

  RESULT (`overlap_prefix_facts_float`): if `t` is a DOUBLE (`rn t = t`) and `t ≤ 2⁵³`, then for EVERY count `n`
    (a) `0 ≤ prefixLen n`                       (holds for every threshold value: `prefixLen_overlap_f_nonneg`),
    (b) `1 ≤ prefixLen n → lower n = ⌈t⌉ ≤ n`   (a probe with a non-empty prefix does not trigger SizeFilter's early exit).
  No lower bound on `t` is needed (`t ≤ 0` is harmless here), no bound on `n`.

  WHY (b): only `n < t` matters (else `⌈t⌉ ≤ n` outright), and then `1 ≤ n < t ≤ 2⁵³`.  A double `t ≥ 1` is a multiple of
  `2⁻⁵²` (`double_ge_one_grid`), so `n − t ≤ −2⁻⁵²`.  Rounding is monotone and `−2⁻⁵²`, `1 − 2⁻⁵²` are doubles, so
  `rn(n − t) ≤ −2⁻⁵²` and `rn(rn(n − t) + 1) ≤ 1 − 2⁻⁵² < 1`: the prefix is empty.

  BOTH HYPOTHESES ARE NEEDED IN THE MODEL (whose `.float t` allows any rational `t` and any count):
    * `not_double_counterexample`: `t = 3 + 2⁻⁶⁰` (not a double; no Python float has this value) and `n = 3`:
      `rn(3 − t) = −2⁻⁶⁰`, `rn(1 − 2⁻⁶⁰) = 1`, prefix length 1, but `⌈t⌉ = 4 > 3`.
    * `huge_counterexample`: the double `t = 2⁵³ + 4` and `n = 2⁵³ + 3` tokens: `float(n)` rounds to `t`, `n − t` is
      computed as `0.0`, prefix length 1, but `⌈t⌉ = n + 1`.  (Not reachable: no record has 2⁵³ tokens.)
-/
import SSJ.Proofs.FloatThr
import SSJ.Proofs.RoundSlack

namespace SSJ
namespace OverlapFloat
open SSJ.Props SSJ.Spec F64 EntryFilters FloatThr RoundSlack

/-! ## 1. the prefix length is never negative (any threshold value, any count) -/

/-- `int(max(v, 0))` is never negative, whatever `v` is (an error or `inf` count as `0` through `toIntD`) -/
theorem toInt_max_zero_nonneg (v : PyV) : 0 ≤ (PyV.toInt (PyV.max v (.int 0))).toIntD := by
  cases v with
  | float q =>
    simp only [PyV.max, PyV.gtb, PyV.ltb, PyV.numVal?]
    by_cases h : q < ((0 : Int) : Rat)
    · simp only [h, decide_true, if_true, PyV.toInt, PyV.toIntD, le_refl]
    · have h' : (0 : Rat) ≤ q := by
        have := not_lt.1 h
        exact_mod_cast this
      simp only [h, decide_false, Bool.false_eq_true, if_false, PyV.toInt, PyV.toIntD, ge_iff_le, h', if_true]
      exact Rat.le_floor_iff.2 (by exact_mod_cast h')
  | int i =>
    simp only [PyV.max, PyV.gtb, PyV.ltb, PyV.numVal?]
    by_cases h : ((i : Int) : Rat) < ((0 : Int) : Rat)
    · simp only [h, decide_true, if_true, PyV.toInt, PyV.toIntD, le_refl]
    · have h' : (0 : Int) ≤ i := by
        have := not_lt.1 h
        exact_mod_cast this
      simp only [h, decide_false, Bool.false_eq_true, if_false, PyV.toInt, PyV.toIntD]
      exact h'
  | bool b => cases b <;> decide
  | inf => decide
  | str s => simp [PyV.max, PyV.gtb, PyV.ltb, PyV.numVal?, PyV.toInt, PyV.toIntD]
  | none => decide
  | err e => simp [PyV.max, PyV.toInt, PyV.toIntD]

section Shapes
variable (c : FCfg) (t : Rat) (hm : c.measure = .overlap) (ht : c.threshold = .float t)
include hm ht

/-- the shape of the generated prefix length under OVERLAP, before any evaluation of the float arithmetic -/
theorem prefixV_overlap_f (n : Nat) :
    c.prefixV n = if n = 0 then .int 0 else
      PyV.toInt (PyV.max (PyV.add (PyV.sub (.int (n : Int)) (.float t)) (.int 1)) (.int 0)) := by
  have e0 : PyV.eqb (.int (n : Int)) (.int 0) = decide (n = 0) := eqb_int0 n
  unfold FCfg.prefixV Gen.get_prefix_length
  simp only [hm, ht, Measure.name, e0, ov_e1, ov_e2, ov_e3, ov_e4, ov_e5]
  by_cases hn0 : n = 0
  · simp [hn0]
  · simp only [hn0, decide_false, Bool.false_eq_true, if_false, if_true]

/-- (a) the prefix length is never negative — for every threshold value `t` and every count -/
theorem prefixLen_overlap_f_nonneg (n : Nat) : 0 ≤ c.prefixLen n := by
  unfold FCfg.prefixLen
  rw [prefixV_overlap_f c t hm ht n]
  split_ifs
  · exact le_refl _
  · exact toInt_max_zero_nonneg _

end Shapes

/-! ## 2. doubles `≥ 1` are multiples of `2⁻⁵²` -/

/-- a double `t ≥ 1` is an integer multiple of `2⁻⁵²` -/
theorem double_ge_one_grid {t : Rat} (hd : rn t = t) (h1 : 1 ≤ t) : ∃ M : Int, t * 2 ^ 52 = (M : Rat) := by
  have hpos : 0 < t := by linarith
  have hl : (0 : Int) ≤ ilog2 t := (le_ilog2 hpos).2 (by rw [pow2_eq_zpow]; simpa using h1)
  have he : (0 : Int) ≤ ulpExp t + 52 := by unfold ulpExp; omega
  obtain ⟨P, hP⟩ := pow2_int_of_nonneg he
  rw [rn_of_pos hpos] at hd
  refine ⟨rhe (t / pow2 (ulpExp t)) * P, ?_⟩
  have h52 : (2 : Rat) ^ 52 = pow2 52 := by rw [← pow2_ofNat]; rfl
  have : pow2 (ulpExp t) * 2 ^ 52 = (P : Rat) := by rw [h52, ← pow2_add, hP]
  conv_lhs => rw [← hd]
  unfold rnPos
  rw [mul_assoc, this]
  push_cast
  rfl

/-- an integer strictly below a double `t ≥ 1` is below it by at least `2⁻⁵²` -/
theorem double_sub_nat_gap {t : Rat} (hd : rn t = t) (n : Nat) (hn1 : 1 ≤ n) (hlt : (n : Rat) < t) :
    (n : Rat) - t ≤ -(1 / 2 ^ 52) := by
  have hn1' : (1 : Rat) ≤ n := by exact_mod_cast hn1
  obtain ⟨M, hM⟩ := double_ge_one_grid hd (by linarith)
  have h2 : (0 : Rat) < 2 ^ 52 := by positivity
  have hlt' : (((n : Int) * 2 ^ 52 : Int) : Rat) < (M : Rat) := by
    rw [← hM]; push_cast
    exact mul_lt_mul_of_pos_right hlt h2
  have hlt'' : (n : Int) * 2 ^ 52 + 1 ≤ M := by
    have : (n : Int) * 2 ^ 52 < M := by exact_mod_cast hlt'
    omega
  have hle : (((n : Int) * 2 ^ 52 + 1 : Int) : Rat) ≤ (M : Rat) := by exact_mod_cast hlt''
  rw [← hM] at hle
  push_cast at hle
  have : (n : Rat) - t = ((n : Rat) * 2 ^ 52 - t * 2 ^ 52) / 2 ^ 52 := by field_simp
  rw [this, div_le_iff₀ h2]
  have : -(1 / (2 : Rat) ^ 52) * 2 ^ 52 = -1 := by field_simp
  rw [this]
  linarith

/-! ## 3. the two roundings of the prefix length for a count below the threshold -/

theorem rn_neg_ulp : rn (-(1 / 2 ^ 52)) = -(1 / 2 ^ 52) := by decide +kernel
theorem rn_one_sub_ulp : rn (1 - 1 / 2 ^ 52) = 1 - 1 / 2 ^ 52 := by decide +kernel

/-- for a double `t` and a count `1 ≤ n < t`, the computed `n − t + 1` stays strictly below 1 -/
theorem ovPrefF_lt_one {t : Rat} (hd : rn t = t) (n : Nat) (hn1 : 1 ≤ n) (hlt : (n : Rat) < t) :
    ovPrefF n t ≤ 1 - 1 / 2 ^ 52 := by
  have h1 : rn ((n : Rat) - t) ≤ -(1 / 2 ^ 52) := by
    have := rn_mono (double_sub_nat_gap hd n hn1 hlt)
    rwa [rn_neg_ulp] at this
  unfold ovPrefF
  have := rn_mono (show rn ((n : Rat) - t) + 1 ≤ 1 - 1 / 2 ^ 52 by linarith)
  rwa [rn_one_sub_ulp] at this

/-! ## 4. the float analogue of `EntryFilters.overlap_prefix_facts` -/

section Facts
variable (c : FCfg) (t : Rat) (hm : c.measure = .overlap) (ht : c.threshold = .float t)
include hm ht

/-- the prefix length for a count `0 < n < t ≤ 2⁵³` (any rational `t`): both float operations yield finite doubles -/
theorem prefixLen_overlap_f_below (ht1 : t ≤ 2 ^ 53) (n : Nat) (hn0 : n ≠ 0) (hlt : (n : Rat) < t) :
    c.prefixLen n = if ovPrefF n t < 0 then 0 else (ovPrefF n t).floor := by
  have hn53 : (n : Rat) ≤ 2 ^ 53 := by linarith
  have hnn : (0 : Rat) ≤ n := by positivity
  have d1 : -(2 ^ 53) ≤ rn ((n : Rat) - t) := by
    have := rn_ge_int_s (q := (n : Rat) - t) (k := -(2 ^ 53)) (by linarith [show (0:Rat) ≤ 2 ^ 53 by norm_num])
      (by push_cast; norm_num) (by push_cast; linarith)
    push_cast at this; exact this
  have d2 : rn ((n : Rat) - t) ≤ 0 := rn_nonpos (by linarith)
  unfold FCfg.prefixLen
  rw [prefixV_overlap_f c t hm ht n, if_neg hn0, sub_nf n t hn53,
    ofExact_float_s (by linarith [show -(2:Rat)^100 ≤ -(2^53) by norm_num]) (by linarith [show (0:Rat) ≤ 2^100 by norm_num]),
    add_f1,
    ofExact_float_s (by linarith [show -(2:Rat)^100 ≤ -(2^53) + 1 by norm_num])
      (by linarith [show (1:Rat) ≤ 2^100 by norm_num])]
  simp only [PyV.max, PyV.gtb, PyV.ltb, PyV.numVal?]
  unfold ovPrefF
  by_cases h : rn (rn ((n : Rat) - t) + 1) < ((0 : Int) : Rat)
  · have h' : rn (rn ((n : Rat) - t) + 1) < 0 := by exact_mod_cast h
    simp only [h, decide_true, if_true, PyV.toInt, PyV.toIntD, h']
  · have h' : ¬ rn (rn ((n : Rat) - t) + 1) < 0 := by exact_mod_cast h
    have h'' : 0 ≤ rn (rn ((n : Rat) - t) + 1) := not_lt.1 h'
    simp only [h, decide_false, Bool.false_eq_true, if_false, PyV.toInt, PyV.toIntD, h', ge_iff_le, h'', if_true]

/-- (b) a probe with a non-empty prefix has at least `⌈t⌉` tokens — for a threshold that is a double `≤ 2⁵³` -/
theorem ceil_le_of_prefix (hd : rn t = t) (ht1 : t ≤ 2 ^ 53) (n : Nat) (h : 1 ≤ c.prefixLen n) :
    t.ceil ≤ (n : Int) := by
  rcases le_or_gt t (n : Rat) with hle | hlt
  · exact Rat.ceil_le_iff.2 (by exact_mod_cast hle)
  · exfalso
    by_cases hn0 : n = 0
    · subst hn0
      unfold FCfg.prefixLen at h
      rw [prefixV_overlap_f c t hm ht 0, if_pos rfl] at h
      simp only [PyV.toIntD] at h
      omega
    · have hb := ovPrefF_lt_one hd n (Nat.one_le_iff_ne_zero.2 hn0) hlt
      rw [prefixLen_overlap_f_below c t hm ht ht1 n hn0 hlt] at h
      split_ifs at h with h0
      · omega
      · have : (ovPrefF n t).floor < 1 := Rat.floor_lt_iff.2 (by
          push_cast
          linarith [show (0:Rat) < 1 / 2 ^ 52 by positivity])
        omega

/-- OVERLAP, FLOAT threshold `t` that is a double (`rn t = t`) with `t ≤ 2⁵³`: the prefix length is never negative, and
    a probe with a non-empty prefix has at least `⌈t⌉` tokens, so the size filter's early exit does not fire for it -/
theorem overlap_prefix_facts_float (hd : rn t = t) (ht1 : t ≤ 2 ^ 53) :
    (∀ n, 0 ≤ c.prefixLen n) ∧ (∀ n : Nat, 1 ≤ c.prefixLen n → c.lower n ≤ (n : Int)) := by
  refine ⟨prefixLen_overlap_f_nonneg c t hm ht, fun n h => ?_⟩
  rw [lower_overlap_f c t hm ht n]
  exact ceil_le_of_prefix c t hm ht hd ht1 n h

end Facts

/-! ## 5. neither hypothesis can be dropped in the model -/

/-- `t = 3 + 2⁻⁶⁰` is NOT a double; with it a record of 3 tokens has a prefix of length 1 although the size lower
    bound is `⌈t⌉ = 4 > 3` (`rn(3 − t) = −2⁻⁶⁰`, and `1 − 2⁻⁶⁰` rounds to `1`) -/
theorem not_double_counterexample :
    let c : FCfg := { measure := .overlap, threshold := .float (3 + 1 / 2 ^ 60) }
    rn (3 + 1 / 2 ^ 60) ≠ 3 + 1 / 2 ^ 60 ∧ c.prefixLen 3 = 1 ∧ c.lower 3 = 4 := by
  decide +kernel

/-- the double `t = 2⁵³ + 4` and a record of `2⁵³ + 3` tokens: `float(n)` is `t`, prefix length 1, size lower bound
    `n + 1` -/
theorem huge_counterexample :
    let c : FCfg := { measure := .overlap, threshold := .float (2 ^ 53 + 4) }
    rn (2 ^ 53 + 4) = 2 ^ 53 + 4 ∧ c.prefixLen (2 ^ 53 + 3) = 1 ∧ c.lower (2 ^ 53 + 3) = 2 ^ 53 + 4 := by
  decide +kernel

/-- the nearest doubles above an integer are harmless: `t = 3 + 2⁻⁵¹` (the successor of `3.0`), 3 tokens: no prefix -/
theorem successor_example :
    let c : FCfg := { measure := .overlap, threshold := .float (3 + 1 / 2 ^ 51) }
    rn (3 + 1 / 2 ^ 51) = 3 + 1 / 2 ^ 51 ∧ c.prefixLen 3 = 0 ∧ c.lower 3 = 4 := by
  decide +kernel

end OverlapFloat
end SSJ

section AxiomCheck
open SSJ.OverlapFloat
/-- info: 'SSJ.OverlapFloat.overlap_prefix_facts_float' depends on axioms: [propext, Classical.choice, Quot.sound] -/
#guard_msgs in #print axioms overlap_prefix_facts_float
/-- info: 'SSJ.OverlapFloat.prefixLen_overlap_f_nonneg' depends on axioms: [propext, Classical.choice, Quot.sound] -/
#guard_msgs in #print axioms prefixLen_overlap_f_nonneg
/-- info: 'SSJ.OverlapFloat.not_double_counterexample' depends on axioms: [propext, Classical.choice, Quot.sound] -/
#guard_msgs in #print axioms not_double_counterexample
/-- info: 'SSJ.OverlapFloat.huge_counterexample' depends on axioms: [propext, Classical.choice, Quot.sound] -/
#guard_msgs in #print axioms huge_counterexample
end AxiomCheck

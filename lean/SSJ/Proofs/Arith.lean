/-
  SSJ.Proofs.Arith — the numeric kernel `filter_utils.py` (generated: `SSJ.Gen.FilterUtils`, wrapped by
  `FCfg.lower/upper/prefixLen/ovThr`) against py_stringmatching's double-precision similarity formulas
  (`simFormula`), for JACCARD, COSINE and DICE, thresholds `2⁻²⁰ ≤ t ≤ 1`, set sizes `< 2³²`.

  Layout
  * requested additions to F64Laws (`round4_floor_ge'`, `fsqrt_nonneg`, `fsqrt_le_of_le`);
  * consequences of the laws (`rn_ub`, `rn_lb`, …), `PyV` evaluation steps;
  * SHAPE LEMMAS — the only statements depending on the generated terms: `lowerV_eq`, `upperV_eq`,
    `ovThrV_eq`, `prefixV_eq`, `simFormula_eq`; they reduce the generated functions to the rational
    expressions `lowF`, `upF`, `ovF`, `simF` (each `rn` is one binary64 rounding, in Python's evaluation order);
  * real-number reasoning per measure (`jac_*`, `dice_*`, `cos_*`), from the laws only;
  * the theorems: `simFormula_float`, `simFormula_symm`, `gen_noErr`, `bounds_of_qual_core`, `bounds_of_qual`,
    `prefixLen_eq`, `lower_pos`, `prefixLen_le`, `size_tight_jaccard/dice/cosine`.

  Deviation from the requested statement: `prefixLen n ≤ n` is false for tiny thresholds
  (Jaccard, `t = 2⁻²⁰`, `n = k = o = 1`: `round(t·1, 4) = 0.0`, lower bound 0, prefix length 2), so
  `bounds_of_qual` carries the extra hypothesis `prefThr m ≤ t`; `bounds_of_qual_core` has the other
  conjuncts (and `lower n ≤ o`) for every covered threshold.
-/
import SSJ.Model.Joins
import SSJ.Proofs.F64Laws
import Mathlib.Tactic.Linarith
import Mathlib.Tactic.Ring
import Mathlib.Tactic.Positivity
import Mathlib.Tactic.FieldSimp
import Mathlib.Tactic.NormNum
import Mathlib.Algebra.Order.Floor.Ring
import Mathlib.Data.Rat.Floor

namespace SSJ
open F64

/-! ## requested additions to F64Laws -/
namespace F64

/-- `round4_floor_ge` without the bound `v ≤ 2^39` (needed: `n / t` reaches `2^52`, and the cosine
    bound `n / (t*t)` reaches `2^72`). -/
theorem round4_floor_ge' {v : Rat} {k : Int} (hk0 : 0 ≤ k) (hk : (k : Rat) ≤ 2 ^ 52)
    (h : (k : Rat) - 4 / 100000 ≤ v) : k ≤ (round4 v).floor := by
  rw [Rat.le_floor_iff, round4_eq]
  have hk0' : (0 : Rat) ≤ (k : Rat) := by exact_mod_cast hk0
  have h1 : k * 10000 ≤ rhe (v * 10000) := by
    apply le_rhe_of_lt; push_cast; linarith
  have h1' : (k : Rat) * 10000 ≤ ((rhe (v * 10000) : Int) : Rat) := by exact_mod_cast h1
  have hw : (k : Rat) ≤ ((rhe (v * 10000) : Int) : Rat) / 10000 := by
    rw [le_div_iff₀ (by norm_num)]; exact h1'
  generalize ((rhe (v * 10000) : Int) : Rat) / 10000 = w at hw
  by_cases hw2 : w ≤ 2 ^ 53
  · exact rn_ge_int hk0 hw2 hw
  · have hw2 : (2 : Rat) ^ 53 < w := not_le.mp hw2
    have hw0 : 0 < w := by linarith [show (0 : Rat) < 2 ^ 53 by norm_num]
    have hq : pow2 (-1022) ≤ |w| := by
      rw [abs_of_pos hw0]; exact le_trans pow2_m1022_le (by linarith [show (1 : Rat) ≤ 2 ^ 53 by norm_num])
    have := abs_le.mp (rn_rel_err hq)
    rw [abs_of_pos hw0] at this
    have h3 : w / 2 ^ 53 ≤ w / 2 := by
      rw [div_le_div_iff₀ (by positivity) (by norm_num)]
      nlinarith [show (2 : Rat) ≤ 2 ^ 53 by norm_num]
    have : w / 2 ≤ rn w := by linarith [this.1]
    linarith [show (2 : Rat) ^ 53 / 2 = 2 ^ 52 by norm_num]

/-- `fsqrt` never returns a negative number -/
theorem fsqrt_nonneg (q : Rat) : 0 ≤ fsqrt q := by
  unfold fsqrt
  split_ifs <;> first | exact le_refl _ | exact mul_nonneg (by positivity) (pow2_pos _).le

/-- upper bound of `fsqrt` through the square (includes `q = 0`) -/
theorem fsqrt_le_of_le {q b : Rat} (h0 : 0 ≤ q) (hb : 0 ≤ b) (h : q * (1 + 1 / 2 ^ 51) ≤ b * b) : fsqrt q ≤ b := by
  rcases eq_or_lt_of_le h0 with h0 | h0
  · rw [← h0]; simpa [fsqrt] using hb
  · have := (fsqrt_sq' h0).2
    have h1 := fsqrt_nonneg q
    by_contra hc
    have hc : b < fsqrt q := not_le.mp hc
    nlinarith

end F64

theorem pow2_m1022_le' : pow2 (-1022) ≤ 1 / 2 ^ 100 := by
  rw [show (-1022 : Int) = -((1022 : Nat) : Int) by rfl, pow2_neg]
  rw [div_le_div_iff₀ (by positivity) (by positivity), one_mul, one_mul]
  exact pow_le_pow_right₀ (by norm_num) (by norm_num)

theorem rn_ub {q : Rat} (h : 1 / 2 ^ 100 ≤ q) : rn q ≤ q * (1 + 1 / 2 ^ 53) := by
  have hq0 : 0 < q := lt_of_lt_of_le (by positivity) h
  have hq : pow2 (-1022) ≤ |q| := by rw [abs_of_pos hq0]; exact le_trans pow2_m1022_le' h
  have := abs_le.mp (rn_rel_err hq)
  rw [abs_of_pos hq0] at this
  have e : q * (1 + 1 / 2 ^ 53) = q + q / 2 ^ 53 := by ring
  linarith [this.2]

theorem rn_lb {q : Rat} (h : 1 / 2 ^ 100 ≤ q) : q * (1 - 1 / 2 ^ 53) ≤ rn q := by
  have hq0 : 0 < q := lt_of_lt_of_le (by positivity) h
  have hq : pow2 (-1022) ≤ |q| := by rw [abs_of_pos hq0]; exact le_trans pow2_m1022_le' h
  have := abs_le.mp (rn_rel_err hq)
  rw [abs_of_pos hq0] at this
  have e : q * (1 - 1 / 2 ^ 53) = q - q / 2 ^ 53 := by ring
  linarith [this.1]

theorem rn_le_big {q : Rat} (h0 : 0 ≤ q) (h : q ≤ 2 ^ 100) : rn q ≤ 2 ^ 101 := by
  by_cases h1 : q ≤ 2 ^ 53
  · have := rn_le_int (q := q) (k := 2 ^ 53) h0 (by norm_num) (by push_cast; exact h1)
    push_cast at this
    linarith [show (2 : Rat) ^ 53 ≤ 2 ^ 101 by norm_num]
  · have h1 : (2 : Rat) ^ 53 < q := not_le.mp h1
    have := rn_ub (q := q) (by linarith [show (1 : Rat) / 2 ^ 100 ≤ 2 ^ 53 by norm_num])
    have h2 : q * (1 + 1 / 2 ^ 53) ≤ q * 2 := by
      apply mul_le_mul_of_nonneg_left _ h0; norm_num
    linarith [show (2 : Rat) ^ 100 * 2 = 2 ^ 101 by norm_num]

theorem ofExact_float {q : Rat} (h0 : 0 ≤ q) (h : q ≤ 2 ^ 100) : PyV.ofExact q = .float (rn q) := by
  have h1 := rn_le_big h0 h
  have h2 := rn_nonneg h0
  have hh : (2 : Rat) ^ 101 < huge := by
    simp only [huge, Nat.cast_pow, Nat.cast_ofNat]; exact pow_lt_pow_right₀ (by norm_num) (by norm_num)
  have hh0 : (0 : Rat) < huge := by unfold huge; positivity
  unfold PyV.ofExact
  simp only [ge_iff_le]
  rw [if_neg (by linarith), if_neg (by linarith)]

theorem intToFloat_nat {n : Nat} (h : (n : Rat) ≤ 2 ^ 53) : PyV.intToFloat (n : Int) = .float (n : Rat) := by
  unfold PyV.intToFloat
  rw [ofExact_float (by positivity) (by push_cast; linarith [show (2 : Rat) ^ 53 ≤ 2 ^ 100 by norm_num])]
  rw [rn_int _ (by push_cast; rw [abs_of_nonneg (by positivity)]; exact h)]
  push_cast; rfl

/-! ## `PyV` evaluation steps -/

theorem eqb_str (s t : String) : PyV.eqb (.str s) (.str t) = (s == t) := rfl

theorem eqb_int0 (n : Nat) : PyV.eqb (.int (n : Int)) (.int 0) = decide (n = 0) := by
  by_cases h : n = 0
  · subst h; rfl
  · simp [PyV.eqb, PyV.numVal?, h]

theorem mul_ff (x y : Rat) : PyV.mul (.float x) (.float y) = PyV.ofExact (x * y) := rfl
theorem div_ff (x y : Rat) (hy : y ≠ 0) : PyV.div (.float x) (.float y) = PyV.ofExact (x / y) := by
  simp [PyV.div, PyV.floatOp, hy]
theorem mul_fn (x : Rat) (n : Nat) (hn : (n : Rat) ≤ 2 ^ 53) :
    PyV.mul (.float x) (.int (n : Int)) = PyV.ofExact (x * n) := by
  simp [PyV.mul, PyV.floatOp, intToFloat_nat hn]
theorem div_nf (n : Nat) (y : Rat) (hn : (n : Rat) ≤ 2 ^ 53) (hy : y ≠ 0) :
    PyV.div (.int (n : Int)) (.float y) = PyV.ofExact (n / y) := by
  simp [PyV.div, PyV.floatOp, intToFloat_nat hn, hy]
theorem div_fn (x : Rat) (n : Nat) (hn : (n : Rat) ≤ 2 ^ 53) (hn0 : n ≠ 0) :
    PyV.div (.float x) (.int (n : Int)) = PyV.ofExact (x / n) := by
  simp [PyV.div, PyV.floatOp, intToFloat_nat hn, hn0]
theorem add_nf (n : Nat) (y : Rat) (hn : (n : Rat) ≤ 2 ^ 53) :
    PyV.add (.int (n : Int)) (.float y) = PyV.ofExact (n + y) := by
  simp [PyV.add, PyV.floatOp, intToFloat_nat hn]
theorem sub_nf (n : Nat) (y : Rat) (hn : (n : Rat) ≤ 2 ^ 53) :
    PyV.sub (.int (n : Int)) (.float y) = PyV.ofExact (n - y) := by
  simp [PyV.sub, PyV.floatOp, intToFloat_nat hn]
theorem round4_f (x : Rat) : PyV.round (.float x) (.int 4) = .float (round4 x) := by
  simp [PyV.round, round4]
theorem toFloat_n (n : Nat) (hn : (n : Rat) ≤ 2 ^ 53) : PyV.toFloat (.int (n : Int)) = .float n := by
  simp [PyV.toFloat, intToFloat_nat hn]

/-! ## statements' vocabulary -/

/-- thresholds covered by the theorems -/
structure ThrOK (t : Rat) : Prop where
  lo : (1 : Rat) / 2 ^ 20 ≤ t
  hi : t ≤ 1

def cfgOf (m : Measure) (t : Rat) : FCfg := { measure := m, threshold := .float t, qval := .none }

def SetMeasure (m : Measure) : Prop := m = .jaccard ∨ m = .cosine ∨ m = .dice

theorem natCast_le_of_lt {n : Nat} (hn : n < 2 ^ 32) : (n : Rat) ≤ 2 ^ 32 := by
  exact_mod_cast hn.le

/-! ## small range facts -/

theorem rn_le_one {x : Rat} (h0 : 0 ≤ x) (h : x ≤ 1) : rn x ≤ 1 := by
  have := rn_le_int (q := x) (k := 1) h0 (by norm_num) (by push_cast; exact h)
  simpa using this
theorem rn_le_two {x : Rat} (h0 : 0 ≤ x) (h : x ≤ 2) : rn x ≤ 2 := by
  have := rn_le_int (q := x) (k := 2) h0 (by norm_num) (by push_cast; exact h)
  simpa using this
theorem rn_ge_one {x : Rat} (h : 1 ≤ x) (h2 : x ≤ 2 ^ 53) : 1 ≤ rn x := by
  have := rn_ge_int (q := x) (k := 1) (by norm_num) h2 (by push_cast; exact h)
  simpa using this
theorem rn_ge_half {x : Rat} (h : 1 / 2 ^ 100 ≤ x) : x / 2 ≤ rn x := by
  have h0 : 0 < x := lt_of_lt_of_le (by positivity) h
  have := rn_lb h
  nlinarith
theorem rn_le_twice {x : Rat} (h : 1 / 2 ^ 100 ≤ x) : rn x ≤ 2 * x := by
  have h0 : 0 < x := lt_of_lt_of_le (by positivity) h
  have := rn_ub h
  nlinarith

/-! ## the float expressions evaluated by the generated functions -/

/-- argument of `ceil(round(·, 4))` in `get_size_lower_bound` / `get_prefix_length` -/
def lowF (m : Measure) (t n : Rat) : Rat :=
  match m with
  | .jaccard => rn (t * n)
  | .dice => rn (rn (t / rn (2 - t)) * n)
  | .cosine => rn (rn (t * t) * n)
  | _ => 0

/-- argument of `floor(round(·, 4))` in `get_size_upper_bound` -/
def upF (m : Measure) (t n : Rat) : Rat :=
  match m with
  | .jaccard => rn (n / t)
  | .dice => rn (rn (rn (2 - t) / t) * n)
  | .cosine => rn (n / rn (t * t))
  | _ => 0

/-- argument of `ceil(round(·, 4))` in `get_overlap_threshold` -/
def ovF (m : Measure) (t l r : Rat) : Rat :=
  match m with
  | .jaccard => rn (rn (t / rn (1 + t)) * (l + r))
  | .dice => rn (rn (t / 2) * (l + r))
  | .cosine => rn (t * fsqrt (rn (l * r)))
  | _ => 0

/-- value of `simFormula` -/
def simF (m : Measure) (o n k : Rat) : Rat :=
  match m with
  | .jaccard => rn (o / (n + k - o))
  | .dice => rn (2 * o / (n + k))
  | .cosine => rn (o / rn (fsqrt n * fsqrt k))
  | _ => 0

theorem sub_2f (y : Rat) : PyV.sub (.int 2) (.float y) = PyV.ofExact (2 - y) := by
  have := sub_nf 2 y (by norm_num); simpa using this
theorem add_1f (y : Rat) : PyV.add (.int 1) (.float y) = PyV.ofExact (1 + y) := by
  have := add_nf 1 y (by norm_num); simpa using this
theorem div_f2 (x : Rat) : PyV.div (.float x) (.int 2) = PyV.ofExact (x / 2) := by
  have := div_fn x 2 (by norm_num) (by norm_num); simpa using this

theorem rn_le_pow {x : Rat} (j : Nat) (hj : j ≤ 53) (h0 : 0 ≤ x) (h : x ≤ 2 ^ j) : rn x ≤ 2 ^ j := by
  have := rn_le_int (q := x) (k := 2 ^ j) h0
    (by push_cast; exact pow_le_pow_right₀ (by norm_num) hj) (by push_cast; exact h)
  push_cast at this; exact this

section shape
variable (t : Rat) (ht : ThrOK t)
include ht

theorem ThrOK.pos : 0 < t := lt_of_lt_of_le (by positivity) ht.lo

/-- range of `rn (2 - t)` -/
theorem two_sub_range : 1 ≤ rn (2 - t) ∧ rn (2 - t) ≤ 2 := by
  have := ht.pos; have := ht.hi
  exact ⟨rn_ge_one (by linarith) (by linarith [show (2:Rat) ≤ 2 ^ 53 by norm_num]), rn_le_two (by linarith) (by linarith)⟩

theorem one_add_range : 1 ≤ rn (1 + t) ∧ rn (1 + t) ≤ 2 := by
  have := ht.pos; have := ht.hi
  exact ⟨rn_ge_one (by linarith) (by linarith [show (2:Rat) ≤ 2 ^ 53 by norm_num]), rn_le_two (by linarith) (by linarith)⟩

/-- range of `rn (t * t)` -/
theorem tt_range : 1 / 2 ^ 41 ≤ rn (t * t) ∧ rn (t * t) ≤ 1 := by
  have h0 := ht.pos; have h1 := ht.hi; have h2 := ht.lo
  have h3 : 1 / 2 ^ 40 ≤ t * t := by
    calc (1 : Rat) / 2 ^ 40 = (1 / 2 ^ 20) * (1 / 2 ^ 20) := by norm_num
      _ ≤ t * t := mul_le_mul h2 h2 (by positivity) h0.le
  constructor
  · have := rn_ge_half (x := t * t) (by linarith [show (1:Rat) / 2 ^ 100 ≤ 1 / 2 ^ 40 by norm_num])
    linarith
  · exact rn_le_one (by positivity) (by nlinarith)

/-- range of `rn (t / a)` for `1 ≤ a ≤ 2` -/
theorem t_div_range {a : Rat} (ha1 : 1 ≤ a) (ha2 : a ≤ 2) : 1 / 2 ^ 22 ≤ rn (t / a) ∧ rn (t / a) ≤ 1 := by
  have h0 := ht.pos; have h1 := ht.hi; have h2 := ht.lo
  have ha0 : 0 < a := by linarith
  have h3 : t / a ≤ 1 := by rw [div_le_one ha0]; linarith
  have h4 : 1 / 2 ^ 21 ≤ t / a := by
    rw [le_div_iff₀ ha0]; nlinarith
  constructor
  · have := rn_ge_half (x := t / a) (by linarith [show (1:Rat) / 2 ^ 100 ≤ 1 / 2 ^ 21 by norm_num])
    linarith
  · exact rn_le_one (by positivity) h3


theorem lowerV_eq (m : Measure) (hm : SetMeasure m) (n : Nat) (hn : n < 2 ^ 32) :
    (cfgOf m t).lowerV n = .int (round4 (lowF m t n)).ceil := by
  have hn' := natCast_le_of_lt hn
  have hn53 : (n : Rat) ≤ 2 ^ 53 := by linarith
  have h0 : (0:Rat) ≤ n := by positivity
  have ht0 := ht.pos; have ht1 := ht.hi
  rcases hm with rfl | rfl | rfl
  · simp only [FCfg.lowerV, cfgOf, Measure.name, Gen.get_size_lower_bound, eqb_str, lowF]
    simp only [String.reduceBEq, Bool.false_eq_true, ↓reduceIte]
    rw [mul_fn _ _ hn53, ofExact_float (by positivity) (by nlinarith), round4_f]
    rfl
  · obtain ⟨c1, c2⟩ := tt_range t ht
    simp only [FCfg.lowerV, cfgOf, Measure.name, Gen.get_size_lower_bound, eqb_str, lowF]
    simp only [String.reduceBEq, ↓reduceIte]
    rw [mul_ff, ofExact_float (by positivity) (by nlinarith), mul_fn _ _ hn53,
      ofExact_float (by positivity) (by nlinarith), round4_f]
    rfl
  · obtain ⟨a1, a2⟩ := two_sub_range t ht
    obtain ⟨b1, b2⟩ := t_div_range t ht a1 a2
    simp only [FCfg.lowerV, cfgOf, Measure.name, Gen.get_size_lower_bound, eqb_str, lowF]
    simp only [String.reduceBEq, Bool.false_eq_true, ↓reduceIte]
    rw [sub_2f, ofExact_float (by linarith) (by linarith), div_ff _ _ (by linarith),
      ofExact_float (by positivity)
        (by linarith [(div_le_one (by linarith)).2 (by linarith : t ≤ rn (2 - t))]),
      mul_fn _ _ hn53, ofExact_float (by positivity) (by nlinarith), round4_f]
    rfl



theorem upperV_eq (m : Measure) (hm : SetMeasure m) (n : Nat) (hn : n < 2 ^ 32) :
    (cfgOf m t).upperV n = .int (round4 (upF m t n)).floor := by
  have hn' := natCast_le_of_lt hn
  have hn53 : (n : Rat) ≤ 2 ^ 53 := by linarith
  have h0 : (0:Rat) ≤ n := by positivity
  have ht0 := ht.pos; have ht1 := ht.hi; have ht2 := ht.lo
  rcases hm with rfl | rfl | rfl
  · simp only [FCfg.upperV, cfgOf, Measure.name, Gen.get_size_upper_bound, eqb_str, upF]
    simp only [String.reduceBEq, Bool.false_eq_true, ↓reduceIte]
    have : (n : Rat) / t ≤ 2 ^ 100 := by
      rw [div_le_iff₀ ht0]; nlinarith
    rw [div_nf _ _ hn53 ht0.ne', ofExact_float (by positivity) this, round4_f]
    rfl
  · obtain ⟨c1, c2⟩ := tt_range t ht
    have c0 : 0 < rn (t * t) := lt_of_lt_of_le (by positivity) c1
    simp only [FCfg.upperV, cfgOf, Measure.name, Gen.get_size_upper_bound, eqb_str, upF]
    simp only [String.reduceBEq, ↓reduceIte]
    have : (n : Rat) / rn (t * t) ≤ 2 ^ 100 := by
      rw [div_le_iff₀ c0]; nlinarith
    rw [mul_ff, ofExact_float (by positivity) (by nlinarith), div_nf _ _ hn53 c0.ne',
      ofExact_float (by positivity) this, round4_f]
    rfl
  · obtain ⟨a1, a2⟩ := two_sub_range t ht
    have hq : rn (2 - t) / t ≤ 2 ^ 21 := by
      rw [div_le_iff₀ ht0]; nlinarith
    have hq0 : 0 ≤ rn (2 - t) / t := div_nonneg (by linarith) ht0.le
    have hb : rn (rn (2 - t) / t) ≤ 2 ^ 21 := rn_le_pow 21 (by norm_num) hq0 hq
    have hb0 := rn_nonneg hq0
    simp only [FCfg.upperV, cfgOf, Measure.name, Gen.get_size_upper_bound, eqb_str, upF]
    simp only [String.reduceBEq, Bool.false_eq_true, ↓reduceIte]
    rw [sub_2f, ofExact_float (by linarith) (by linarith),
      div_ff _ _ ht0.ne', ofExact_float hq0 (by linarith), mul_fn _ _ hn53,
      ofExact_float (by positivity) (by nlinarith), round4_f]
    rfl


theorem ovThrV_eq (m : Measure) (hm : SetMeasure m) (l r : Nat) (hl : l < 2 ^ 32) (hr : r < 2 ^ 32) :
    (cfgOf m t).ovThrV l r = .int (round4 (ovF m t l r)).ceil := by
  have hl' := natCast_le_of_lt hl
  have hr' := natCast_le_of_lt hr
  have hl0 : (0:Rat) ≤ l := by positivity
  have hr0 : (0:Rat) ≤ r := by positivity
  have ht0 := ht.pos; have ht1 := ht.hi; have ht2 := ht.lo
  have hlr : ((l : Int) + (r : Int)) = ((l + r : Nat) : Int) := by push_cast; rfl
  have hlr53 : ((l + r : Nat) : Rat) ≤ 2 ^ 53 := by push_cast; linarith
  rcases hm with rfl | rfl | rfl
  · obtain ⟨a1, a2⟩ := one_add_range t ht
    obtain ⟨b1, b2⟩ := t_div_range t ht a1 a2
    simp only [FCfg.ovThrV, cfgOf, Measure.name, Gen.get_overlap_threshold, eqb_str, ovF]
    simp only [String.reduceBEq, Bool.false_eq_true, ↓reduceIte]
    rw [add_1f, ofExact_float (by linarith) (by linarith), div_ff _ _ (by linarith),
      ofExact_float (div_nonneg ht0.le (by linarith)) (by linarith [(div_le_one (by linarith)).2 (by linarith : t ≤ rn (1 + t))]),
      show PyV.add (.int (l : Int)) (.int (r : Int)) = .int ((l + r : Nat) : Int) by rw [← hlr]; rfl,
      mul_fn _ _ hlr53, ofExact_float (by positivity) (by push_cast; nlinarith), round4_f]
    push_cast
    rfl
  · have hlr64 : (l : Rat) * r ≤ 2 ^ 64 := by nlinarith
    have hP0 : (0 : Rat) ≤ l * r := by positivity
    have hP : rn ((l : Rat) * r) ≤ 2 ^ 66 := by
      by_cases hz : (l : Rat) * r ≤ 1
      · linarith [rn_le_one hP0 hz]
      · have := rn_le_twice (x := (l : Rat) * r) (by linarith [show (1:Rat) / 2 ^ 100 ≤ 1 by norm_num])
        linarith
    have hPn := rn_nonneg hP0
    have hF : fsqrt (rn ((l : Rat) * r)) ≤ 2 ^ 34 := by
      apply fsqrt_le_of_le hPn (by positivity)
      nlinarith
    have hF0 := fsqrt_nonneg (rn ((l : Rat) * r))
    simp only [FCfg.ovThrV, cfgOf, Measure.name, Gen.get_overlap_threshold, eqb_str, ovF]
    simp only [String.reduceBEq, ↓reduceIte]
    have e1 : PyV.mul (.int (l : Int)) (.int (r : Int)) = .int ((l * r : Nat) : Int) := by
      push_cast; rfl
    have e2 : PyV.sqrt (.int ((l * r : Nat) : Int)) = .float (fsqrt (rn ((l : Rat) * r))) := by
      have : ¬ (((l * r : Nat) : Int) < 0) := not_lt.mpr (Int.natCast_nonneg _)
      simp only [PyV.sqrt, this, if_false, PyV.intToFloat]
      rw [ofExact_float (by positivity) (by push_cast; linarith)]
      push_cast; rfl
    rw [e1, e2, mul_ff, ofExact_float (by positivity) (by nlinarith), round4_f]
    rfl
  · have b0 : 0 ≤ t / 2 := by positivity
    have b1 : rn (t / 2) ≤ 1 := rn_le_one b0 (by linarith)
    have b2 := rn_nonneg b0
    simp only [FCfg.ovThrV, cfgOf, Measure.name, Gen.get_overlap_threshold, eqb_str, ovF]
    simp only [String.reduceBEq, Bool.false_eq_true, ↓reduceIte]
    rw [div_f2, ofExact_float b0 (by linarith),
      show PyV.add (.int (l : Int)) (.int (r : Int)) = .int ((l + r : Nat) : Int) by rw [← hlr]; rfl,
      mul_fn _ _ hlr53, ofExact_float (by positivity) (by push_cast; nlinarith), round4_f]
    push_cast
    rfl

theorem prefixV_eq (m : Measure) (hm : SetMeasure m) (n : Nat) (hn : n < 2 ^ 32) :
    (cfgOf m t).prefixV n =
      if n = 0 then .int 0 else .int ((n : Int) - (round4 (lowF m t n)).ceil + 1) := by
  have hn' := natCast_le_of_lt hn
  have hn53 : (n : Rat) ≤ 2 ^ 53 := by linarith
  have h0 : (0:Rat) ≤ n := by positivity
  have ht0 := ht.pos; have ht1 := ht.hi
  by_cases hz : n = 0
  · subst hz
    rcases hm with rfl | rfl | rfl <;>
      simp [FCfg.prefixV, Gen.get_prefix_length, PyV.eqb, PyV.numVal?]
  rw [if_neg hz]
  rcases hm with rfl | rfl | rfl
  · simp only [FCfg.prefixV, cfgOf, Measure.name, Gen.get_prefix_length, eqb_str, lowF, eqb_int0]
    simp only [hz, decide_false, String.reduceBEq, Bool.false_eq_true, ↓reduceIte]
    rw [mul_fn _ _ hn53, ofExact_float (by positivity) (by nlinarith), round4_f]
    rfl
  · obtain ⟨c1, c2⟩ := tt_range t ht
    simp only [FCfg.prefixV, cfgOf, Measure.name, Gen.get_prefix_length, eqb_str, lowF, eqb_int0]
    simp only [hz, decide_false, String.reduceBEq, Bool.false_eq_true, ↓reduceIte]
    rw [mul_ff, ofExact_float (by positivity) (by nlinarith), mul_fn _ _ hn53,
      ofExact_float (by positivity) (by nlinarith), round4_f]
    rfl
  · obtain ⟨a1, a2⟩ := two_sub_range t ht
    obtain ⟨b1, b2⟩ := t_div_range t ht a1 a2
    simp only [FCfg.prefixV, cfgOf, Measure.name, Gen.get_prefix_length, eqb_str, lowF, eqb_int0]
    simp only [hz, decide_false, String.reduceBEq, Bool.false_eq_true, ↓reduceIte]
    rw [sub_2f, ofExact_float (by linarith) (by linarith), div_ff _ _ (by linarith),
      ofExact_float (by positivity)
        (by linarith [(div_le_one (by linarith)).2 (by linarith : t ≤ rn (2 - t))]),
      mul_fn _ _ hn53, ofExact_float (by positivity) (by nlinarith), round4_f]
    rfl

end shape

/-! ### shape of `simFormula` -/

theorem fsqrt_range {n : Nat} (hn1 : 1 ≤ n) (hn : n < 2 ^ 32) : 1 ≤ fsqrt n ∧ fsqrt n ≤ 2 ^ 17 := by
  have hn' := natCast_le_of_lt hn
  have h1 : (1 : Rat) ≤ n := by exact_mod_cast hn1
  refine ⟨fsqrt_pos h1, fsqrt_le_of_le (by positivity) (by positivity) ?_⟩
  nlinarith

theorem sqrt_prod_range {n k : Nat} (hn1 : 1 ≤ n) (hn : n < 2 ^ 32) (hk1 : 1 ≤ k) (hk : k < 2 ^ 32) :
    1 ≤ rn (fsqrt n * fsqrt k) ∧ rn (fsqrt n * fsqrt k) ≤ 2 ^ 34 := by
  obtain ⟨a1, a2⟩ := fsqrt_range hn1 hn
  obtain ⟨b1, b2⟩ := fsqrt_range hk1 hk
  have h1 : 1 ≤ fsqrt n * fsqrt k := by nlinarith
  have h2 : fsqrt n * fsqrt k ≤ 2 ^ 34 := by nlinarith
  exact ⟨rn_ge_one h1 (by linarith [show (2:Rat) ^ 34 ≤ 2 ^ 53 by norm_num]),
    rn_le_pow 34 (by norm_num) (by positivity) h2⟩

theorem simFormula_eq (m : Measure) (hm : SetMeasure m) (n k o : Nat) (ho1 : 1 ≤ o) (hon : o ≤ n) (hok : o ≤ k)
    (hn : n < 2 ^ 32) (hk : k < 2 ^ 32) : simFormula m o n k = .float (simF m o n k) := by
  have hn' := natCast_le_of_lt hn
  have hk' := natCast_le_of_lt hk
  have ho' : (o : Rat) ≤ 2 ^ 32 := le_trans (by exact_mod_cast hon) hn'
  have ho1' : (1 : Rat) ≤ o := by exact_mod_cast ho1
  have hon' : (o : Rat) ≤ n := by exact_mod_cast hon
  have hok' : (o : Rat) ≤ k := by exact_mod_cast hok
  have ho53 : (o : Rat) ≤ 2 ^ 53 := by linarith
  rcases hm with rfl | rfl | rfl
  · have e : ((n : Int) + k - o) = ((n + k - o : Nat) : Int) := by omega
    have eu : ((n + k - o : Nat) : Rat) = (n : Rat) + k - o := by
      rw [Nat.cast_sub (by omega)]; push_cast; rfl
    have hu1 : (1 : Rat) ≤ (n : Rat) + k - o := by linarith
    simp only [simFormula, simF]
    rw [e, toFloat_n _ ho53, toFloat_n _ (by rw [eu]; linarith), eu, div_ff _ _ (by linarith),
      ofExact_float (by positivity) (by rw [div_le_iff₀ (by linarith)]; nlinarith)]
  · obtain ⟨p1, p2⟩ := sqrt_prod_range (le_trans ho1 hon) hn (le_trans ho1 hok) hk
    have a0 := fsqrt_nonneg (n : Rat)
    have b0 := fsqrt_nonneg (k : Rat)
    have hs : ∀ x : Nat, PyV.sqrt (.float (x : Rat)) = .float (fsqrt x) := by
      intro x
      have : ¬ ((x : Rat) < 0) := not_lt.mpr (by positivity)
      simp only [PyV.sqrt, this, if_false]
    simp only [simFormula, simF]
    rw [toFloat_n _ ho53, toFloat_n _ (by linarith), toFloat_n _ (by linarith), hs, hs, mul_ff,
      ofExact_float (by positivity) (by nlinarith [fsqrt_range (le_trans ho1 hon) hn, fsqrt_range (le_trans ho1 hok) hk]),
      div_ff _ _ (by linarith),
      ofExact_float (by positivity) (by rw [div_le_iff₀ (by linarith)]; nlinarith)]
  · have e : ((n : Int) + k) = ((n + k : Nat) : Int) := by push_cast; rfl
    have h2o : rn (2 * (o : Rat)) = 2 * o := by
      have := rn_int (2 * (o : Int)) (by push_cast; rw [abs_of_nonneg (by positivity)]; linarith)
      push_cast at this; exact this
    simp only [simFormula, simF]
    rw [e, toFloat_n _ ho53, toFloat_n _ (by push_cast; linarith), mul_ff,
      ofExact_float (by positivity) (by linarith), h2o, div_ff _ _ (by push_cast; linarith),
      ofExact_float (by positivity) (by rw [div_le_iff₀ (by push_cast; linarith)]; push_cast; nlinarith)]
    push_cast; rfl

/-! ## real-number reasoning -/

theorem absorb_up {o c : Rat} (ho0 : 0 ≤ o) (ho : o ≤ 2 ^ 32) (hc : c ≤ 1 + 64 / 2 ^ 53) :
    o * c ≤ o + 4 / 100000 := by
  have : o * c ≤ o * (1 + 64 / 2 ^ 53) := mul_le_mul_of_nonneg_left hc ho0
  nlinarith

theorem absorb_lo {k c : Rat} (hk0 : 0 ≤ k) (hk : k ≤ 2 ^ 32) (hc : 1 - 64 / 2 ^ 53 ≤ c) :
    k - 4 / 100000 ≤ k * c := by
  have : k * (1 - 64 / 2 ^ 53) ≤ k * c := mul_le_mul_of_nonneg_left hc hk0
  nlinarith

/-- monotone form of the upper rounding bound -/
theorem rn_ub_of_le {x y : Rat} (h : 1 / 2 ^ 100 ≤ x) (hxy : x ≤ y) : rn x ≤ y * (1 + 1 / 2 ^ 53) := by
  have := rn_ub h
  have : x * (1 + 1 / 2 ^ 53) ≤ y * (1 + 1 / 2 ^ 53) := mul_le_mul_of_nonneg_right hxy (by norm_num)
  linarith

/-- monotone form of the lower rounding bound -/
theorem rn_lb_of_le {x y : Rat} (h : 1 / 2 ^ 100 ≤ y) (hxy : y ≤ x) : y * (1 - 1 / 2 ^ 53) ≤ rn x := by
  have := rn_lb (le_trans h hxy)
  have : y * (1 - 1 / 2 ^ 53) ≤ x * (1 - 1 / 2 ^ 53) := mul_le_mul_of_nonneg_right hxy (by norm_num)
  linarith

/-- hypotheses on the three counts, as rationals -/
structure Counts (o n k : Rat) : Prop where
  o1 : 1 ≤ o
  on : o ≤ n
  ok : o ≤ k
  n32 : n ≤ 2 ^ 32
  k32 : k ≤ 2 ^ 32

/-! ### Jaccard -/

theorem jac_sim {t o n k : Rat} (hc : Counts o n k) (hq : t ≤ simF .jaccard o n k) : t * (n + k - o) ≤ o * (1 + 1 / 2 ^ 53) := by
  obtain ⟨o1, on, ok, n32, k32⟩ := hc
  have hu : 1 ≤ n + k - o := by linarith
  have hu0 : 0 < n + k - o := by linarith
  have h1 : 1 / 2 ^ 100 ≤ o / (n + k - o) := by
    rw [le_div_iff₀ hu0]; nlinarith
  have h2 := rn_ub h1
  simp only [simF] at hq
  calc t * (n + k - o) ≤ o / (n + k - o) * (1 + 1 / 2 ^ 53) * (n + k - o) :=
        mul_le_mul_of_nonneg_right (le_trans hq h2) hu0.le
    _ = o * (1 + 1 / 2 ^ 53) := by field_simp

theorem jac_low {t o n k : Rat} (ht : ThrOK t) (hc : Counts o n k) (hq : t ≤ simF .jaccard o n k) : lowF .jaccard t n ≤ o + 4 / 100000 := by
  have hs := jac_sim hc hq
  obtain ⟨o1, on, ok, n32, k32⟩ := hc
  have ht0 := ht.pos
  simp only [lowF]
  have h1 : 1 / 2 ^ 100 ≤ t * n := by nlinarith [ht.lo]
  have h2 : t * n ≤ o * (1 + 1 / 2 ^ 53) := by nlinarith
  have := rn_ub_of_le h1 h2
  refine le_trans this ?_
  rw [mul_assoc]
  exact absorb_up (by linarith) (by linarith) (by norm_num)


theorem jac_up {t o n k : Rat} (ht : ThrOK t) (hc : Counts o n k) (hq : t ≤ simF .jaccard o n k) : k - 4 / 100000 ≤ upF .jaccard t n := by
  have hs := jac_sim hc hq
  obtain ⟨o1, on, ok, n32, k32⟩ := hc
  have ht0 := ht.pos
  simp only [upF]
  have h2 : k / (1 + 1 / 2 ^ 53) ≤ n / t := by
    rw [div_le_div_iff₀ (by norm_num) ht0]; nlinarith
  have h1 : 1 / 2 ^ 100 ≤ k / (1 + 1 / 2 ^ 53) := by
    rw [le_div_iff₀ (by norm_num)]; nlinarith
  have := rn_lb_of_le h1 h2
  refine le_trans ?_ this
  rw [div_mul_eq_mul_div, mul_div_assoc]
  exact absorb_lo (by linarith) k32 (by norm_num)

theorem jac_ov {t o n k : Rat} (ht : ThrOK t) (hc : Counts o n k) (hq : t ≤ simF .jaccard o n k) : ovF .jaccard t n k ≤ o + 4 / 100000 := by
  have hs := jac_sim hc hq
  obtain ⟨a1, a2⟩ := one_add_range t ht
  obtain ⟨b1, b2⟩ := t_div_range t ht a1 a2
  obtain ⟨o1, on, ok, n32, k32⟩ := hc
  have ht0 := ht.pos; have ht1 := ht.hi; have ht2 := ht.lo
  simp only [ovF]
  have ha : (1 + t) * (1 - 1 / 2 ^ 53) ≤ rn (1 + t) :=
    rn_lb (by linarith [show (1:Rat) / 2 ^ 100 ≤ 1 by norm_num])
  have hta : t / rn (1 + t) ≤ t / ((1 + t) * (1 - 1 / 2 ^ 53)) :=
    div_le_div_of_nonneg_left ht0.le (by apply mul_pos <;> [linarith; norm_num]) ha
  have hta0 : 1 / 2 ^ 100 ≤ t / rn (1 + t) := by
    rw [le_div_iff₀ (by linarith)]; nlinarith
  have hb := rn_ub_of_le hta0 hta
  have hnk : 0 ≤ n + k := by linarith
  have h3 : rn (t / rn (1 + t)) * (n + k) ≤
      t / ((1 + t) * (1 - 1 / 2 ^ 53)) * (1 + 1 / 2 ^ 53) * (n + k) :=
    mul_le_mul_of_nonneg_right hb hnk
  have h4 : t / ((1 + t) * (1 - 1 / 2 ^ 53)) * (1 + 1 / 2 ^ 53) * (n + k) ≤
      o * ((1 + 1 / 2 ^ 53) * (1 + 1 / 2 ^ 53) / (1 - 1 / 2 ^ 53)) := by
    have e : t / ((1 + t) * (1 - 1 / 2 ^ 53)) * (1 + 1 / 2 ^ 53) * (n + k) =
        (t * (n + k)) / (1 + t) * ((1 + 1 / 2 ^ 53) / (1 - 1 / 2 ^ 53)) := by
      field_simp
    have h5 : (t * (n + k)) / (1 + t) ≤ o * (1 + 1 / 2 ^ 53) := by
      rw [div_le_iff₀ (by linarith)]; nlinarith
    rw [e]
    calc (t * (n + k)) / (1 + t) * ((1 + 1 / 2 ^ 53) / (1 - 1 / 2 ^ 53))
        ≤ o * (1 + 1 / 2 ^ 53) * ((1 + 1 / 2 ^ 53) / (1 - 1 / 2 ^ 53)) :=
          mul_le_mul_of_nonneg_right h5 (by norm_num)
      _ = _ := by ring
  have h6 : 1 / 2 ^ 100 ≤ rn (t / rn (1 + t)) * (n + k) := by nlinarith
  have := rn_ub_of_le h6 (le_trans h3 h4)
  refine le_trans this ?_
  rw [mul_assoc]
  exact absorb_up (by linarith) (by linarith) (by norm_num)



theorem jac_tight_up {t n k : Rat} (ht : ThrOK t) (hn1 : 1 ≤ n) (hk1 : 1 ≤ k) (h : n / k < t - 1 / 10000) : upF .jaccard t n ≤ k - 6 / 100000 := by
  have ht0 := ht.pos; have ht1 := ht.hi
  rw [div_lt_iff₀ (by linarith)] at h
  simp only [upF]
  have h1 : n / t ≤ k * (1 - 1 / 10000) := by
    rw [div_le_iff₀ ht0]; nlinarith
  have h0 : 1 / 2 ^ 100 ≤ n / t := by
    rw [le_div_iff₀ ht0]; nlinarith
  have := rn_ub_of_le h0 h1
  nlinarith

theorem jac_tight_low {t n k : Rat} (ht : ThrOK t) (hn1 : 1 ≤ n) (hk1 : 1 ≤ k) (hk : k ≤ 2 ^ 32) (h : k / n < t - 1 / 10000) : k + 6 / 100000 ≤ lowF .jaccard t n := by
  have ht0 := ht.pos; have ht1 := ht.hi
  rw [div_lt_iff₀ (by linarith)] at h
  simp only [lowF]
  have hkn : k ≤ n := by nlinarith
  have h1 : k + 1 / 10000 * n ≤ t * n := by nlinarith
  have := rn_lb_of_le (by nlinarith) h1
  nlinarith

/-! ### Dice -/

local notation "ε" => ((1 : Rat) / 2 ^ 53)

theorem dice_sim {t o n k : Rat} (hc : Counts o n k) (hq : t ≤ simF .dice o n k) :
    t * (n + k) ≤ 2 * o * (1 + ε) := by
  obtain ⟨o1, on, ok, n32, k32⟩ := hc
  have hu0 : 0 < n + k := by linarith
  have h1 : 1 / 2 ^ 100 ≤ 2 * o / (n + k) := by
    rw [le_div_iff₀ hu0]; nlinarith
  have h2 := rn_ub h1
  simp only [simF] at hq
  calc t * (n + k) ≤ 2 * o / (n + k) * (1 + ε) * (n + k) :=
        mul_le_mul_of_nonneg_right (le_trans hq h2) hu0.le
    _ = 2 * o * (1 + ε) := by field_simp

theorem dice_low {t o n k : Rat} (ht : ThrOK t) (hc : Counts o n k) (hq : t ≤ simF .dice o n k) :
    lowF .dice t n ≤ o + 4 / 100000 := by
  have hs := dice_sim hc hq
  obtain ⟨a1, a2⟩ := two_sub_range t ht
  obtain ⟨b1, b2⟩ := t_div_range t ht a1 a2
  obtain ⟨o1, on, ok, n32, k32⟩ := hc
  have ht0 := ht.pos; have ht1 := ht.hi; have ht2 := ht.lo
  simp only [lowF]
  have ha : (2 - t) * (1 - ε) ≤ rn (2 - t) :=
    rn_lb (by linarith [show (1:Rat) / 2 ^ 100 ≤ 1 by norm_num])
  have hta : t / rn (2 - t) ≤ t / ((2 - t) * (1 - ε)) :=
    div_le_div_of_nonneg_left ht0.le (by apply mul_pos <;> [linarith; norm_num]) ha
  have hta0 : 1 / 2 ^ 100 ≤ t / rn (2 - t) := by
    rw [le_div_iff₀ (by linarith)]; nlinarith
  have hb := rn_ub_of_le hta0 hta
  have hn0 : 0 ≤ n := by linarith
  have h3 : rn (t / rn (2 - t)) * n ≤ t / ((2 - t) * (1 - ε)) * (1 + ε) * n :=
    mul_le_mul_of_nonneg_right hb hn0
  have h4 : t / ((2 - t) * (1 - ε)) * (1 + ε) * n ≤ o * ((1 + 2 * ε) * (1 + ε) / (1 - ε)) := by
    have e : t / ((2 - t) * (1 - ε)) * (1 + ε) * n = (t * n) / (2 - t) * ((1 + ε) / (1 - ε)) := by
      field_simp
    have h5 : (t * n) / (2 - t) ≤ o * (1 + 2 * ε) := by
      rw [div_le_iff₀ (by linarith)]
      have : t * o ≤ t * k := mul_le_mul_of_nonneg_left ok ht0.le
      have : o * ε ≤ o * ε * (2 - t) := by
        have : 0 ≤ o * ε := by positivity
        nlinarith
      nlinarith
    rw [e]
    calc (t * n) / (2 - t) * ((1 + ε) / (1 - ε))
        ≤ o * (1 + 2 * ε) * ((1 + ε) / (1 - ε)) :=
          mul_le_mul_of_nonneg_right h5 (by norm_num)
      _ = _ := by ring
  have h6 : 1 / 2 ^ 100 ≤ rn (t / rn (2 - t)) * n := by nlinarith
  have := rn_ub_of_le h6 (le_trans h3 h4)
  refine le_trans this ?_
  rw [mul_assoc]
  exact absorb_up (by linarith) (by linarith) (by norm_num)

theorem dice_up {t o n k : Rat} (ht : ThrOK t) (hc : Counts o n k) (hq : t ≤ simF .dice o n k) :
    k - 4 / 100000 ≤ upF .dice t n := by
  have hs := dice_sim hc hq
  obtain ⟨a1, a2⟩ := two_sub_range t ht
  obtain ⟨o1, on, ok, n32, k32⟩ := hc
  have ht0 := ht.pos; have ht1 := ht.hi; have ht2 := ht.lo
  simp only [upF]
  have ha : (2 - t) * (1 - ε) ≤ rn (2 - t) :=
    rn_lb (by linarith [show (1:Rat) / 2 ^ 100 ≤ 1 by norm_num])
  have hat : (2 - t) * (1 - ε) / t ≤ rn (2 - t) / t :=
    div_le_div_of_nonneg_right ha ht0.le
  have hat0 : 1 / 2 ^ 100 ≤ (2 - t) * (1 - ε) / t := by
    rw [le_div_iff₀ ht0]; nlinarith
  have hb := rn_lb_of_le hat0 hat
  have hn0 : 0 ≤ n := by linarith
  have h3 : (2 - t) * (1 - ε) / t * (1 - ε) * n ≤ rn (rn (2 - t) / t) * n :=
    mul_le_mul_of_nonneg_right hb hn0
  have h4 : k * ((1 - ε) * (1 - ε) / (1 + 2 * ε)) ≤ (2 - t) * (1 - ε) / t * (1 - ε) * n := by
    have e : (2 - t) * (1 - ε) / t * (1 - ε) * n = ((2 - t) * n) / t * ((1 - ε) * (1 - ε)) := by
      field_simp
    have h5 : k / (1 + 2 * ε) ≤ ((2 - t) * n) / t := by
      rw [div_le_div_iff₀ (by norm_num) ht0]
      have : n * ε ≤ n * ε * (2 - t) := by
        have : 0 ≤ n * ε := by positivity
        nlinarith
      have : t * 0 ≤ t * n := mul_le_mul_of_nonneg_left hn0 ht0.le
      nlinarith
    rw [e]
    calc k * ((1 - ε) * (1 - ε) / (1 + 2 * ε)) = k / (1 + 2 * ε) * ((1 - ε) * (1 - ε)) := by ring
      _ ≤ _ := mul_le_mul_of_nonneg_right h5 (by norm_num)
  have h6 : 1 / 2 ^ 100 ≤ k * ((1 - ε) * (1 - ε) / (1 + 2 * ε)) := by
    have : (1:Rat) / 2 ≤ (1 - ε) * (1 - ε) / (1 + 2 * ε) := by norm_num
    nlinarith
  have := rn_lb_of_le h6 (le_trans h4 h3)
  refine le_trans ?_ this
  rw [mul_assoc]
  exact absorb_lo (by linarith) k32 (by norm_num)

theorem dice_ov {t o n k : Rat} (ht : ThrOK t) (hc : Counts o n k) (hq : t ≤ simF .dice o n k) :
    ovF .dice t n k ≤ o + 4 / 100000 := by
  have hs := dice_sim hc hq
  obtain ⟨o1, on, ok, n32, k32⟩ := hc
  have ht0 := ht.pos; have ht1 := ht.hi; have ht2 := ht.lo
  simp only [ovF]
  have hb := rn_ub (q := t / 2) (by linarith [show (1:Rat) / 2 ^ 100 ≤ 1 / 2 ^ 20 / 2 by norm_num])
  have hb0 := rn_ge_half (x := t / 2) (by linarith [show (1:Rat) / 2 ^ 100 ≤ 1 / 2 ^ 20 / 2 by norm_num])
  have hnk : 0 ≤ n + k := by linarith
  have h3 : rn (t / 2) * (n + k) ≤ t / 2 * (1 + ε) * (n + k) :=
    mul_le_mul_of_nonneg_right hb hnk
  have h4 : t / 2 * (1 + ε) * (n + k) ≤ o * ((1 + ε) * (1 + ε)) := by nlinarith
  have h6 : 1 / 2 ^ 100 ≤ rn (t / 2) * (n + k) := by nlinarith
  have := rn_ub_of_le h6 (le_trans h3 h4)
  refine le_trans this ?_
  rw [mul_assoc]
  exact absorb_up (by linarith) (by linarith) (by norm_num)

theorem dice_tight_up {t n k : Rat} (ht : ThrOK t) (hn1 : 1 ≤ n) (hk1 : 1 ≤ k)
    (h : 2 * n / (n + k) < t - 1 / 10000) : upF .dice t n ≤ k - 6 / 100000 := by
  obtain ⟨a1, a2⟩ := two_sub_range t ht
  have ht0 := ht.pos; have ht1 := ht.hi; have ht2 := ht.lo
  rw [div_lt_iff₀ (by linarith)] at h
  simp only [upF]
  have ha : rn (2 - t) ≤ (2 - t) * (1 + ε) :=
    rn_ub (by linarith [show (1:Rat) / 2 ^ 100 ≤ 1 by norm_num])
  have hat : rn (2 - t) / t ≤ (2 - t) * (1 + ε) / t :=
    div_le_div_of_nonneg_right ha ht0.le
  have hat0 : 1 / 2 ^ 100 ≤ rn (2 - t) / t := by
    rw [le_div_iff₀ ht0]; nlinarith
  have hb := rn_ub_of_le hat0 hat
  have hn0 : 0 ≤ n := by linarith
  have h3 : rn (rn (2 - t) / t) * n ≤ (2 - t) * (1 + ε) / t * (1 + ε) * n :=
    mul_le_mul_of_nonneg_right hb hn0
  have h4 : (2 - t) * (1 + ε) / t * (1 + ε) * n ≤ (k - 1 / 10000 * (n + k)) * ((1 + ε) * (1 + ε)) := by
    have e : (2 - t) * (1 + ε) / t * (1 + ε) * n = ((2 - t) * n) / t * ((1 + ε) * (1 + ε)) := by
      field_simp
    have h5 : ((2 - t) * n) / t ≤ k - 1 / 10000 * (n + k) := by
      rw [div_le_iff₀ ht0]
      nlinarith
    rw [e]
    exact mul_le_mul_of_nonneg_right h5 (by norm_num)
  have h6 : 1 / 2 ^ 100 ≤ rn (rn (2 - t) / t) * n := by
    have := rn_ge_half hat0
    have : 1 / 2 ≤ rn (rn (2 - t) / t) := by
      have : 1 ≤ rn (2 - t) / t := by rw [le_div_iff₀ ht0]; linarith
      linarith
    nlinarith
  have := rn_ub_of_le h6 (le_trans h3 h4)
  refine le_trans this ?_
  nlinarith

theorem dice_tight_low {t n k : Rat} (ht : ThrOK t) (hn1 : 1 ≤ n) (hk1 : 1 ≤ k)
    (h : 2 * k / (n + k) < t - 1 / 10000) : k + 6 / 100000 ≤ lowF .dice t n := by
  obtain ⟨a1, a2⟩ := two_sub_range t ht
  have ht0 := ht.pos; have ht1 := ht.hi; have ht2 := ht.lo
  rw [div_lt_iff₀ (by linarith)] at h
  simp only [lowF]
  have ha : rn (2 - t) ≤ (2 - t) * (1 + ε) :=
    rn_ub (by linarith [show (1:Rat) / 2 ^ 100 ≤ 1 by norm_num])
  have hta : t / ((2 - t) * (1 + ε)) ≤ t / rn (2 - t) :=
    div_le_div_of_nonneg_left ht0.le (by linarith) ha
  have hta0 : 1 / 2 ^ 100 ≤ t / ((2 - t) * (1 + ε)) := by
    rw [le_div_iff₀ (by apply mul_pos <;> [linarith; norm_num])]; nlinarith
  have hb := rn_lb_of_le hta0 hta
  have hn0 : 0 ≤ n := by linarith
  have h3 : t / ((2 - t) * (1 + ε)) * (1 - ε) * n ≤ rn (t / rn (2 - t)) * n :=
    mul_le_mul_of_nonneg_right hb hn0
  have h4 : (k + 1 / 20000 * (n + k)) * ((1 - ε) / (1 + ε)) ≤ t / ((2 - t) * (1 + ε)) * (1 - ε) * n := by
    have e : t / ((2 - t) * (1 + ε)) * (1 - ε) * n = (t * n) / (2 - t) * ((1 - ε) / (1 + ε)) := by
      field_simp
    have h5 : k + 1 / 20000 * (n + k) ≤ (t * n) / (2 - t) := by
      rw [le_div_iff₀ (by linarith)]
      nlinarith
    rw [e]
    exact mul_le_mul_of_nonneg_right h5 (by norm_num)
  have h6 : 1 / 2 ^ 100 ≤ (k + 1 / 20000 * (n + k)) * ((1 - ε) / (1 + ε)) := by
    have : (1:Rat) / 2 ≤ (1 - ε) / (1 + ε) := by norm_num
    nlinarith
  have := rn_lb_of_le h6 (le_trans h4 h3)
  refine le_trans ?_ this
  have : (1:Rat) - 3 * ε ≤ (1 - ε) / (1 + ε) * (1 - ε) := by norm_num
  nlinarith

/-! ### Cosine -/

local notation "η" => ((1 : Rat) / 2 ^ 51)
/-- accumulated relative error of the squared cosine formula -/
local notation "K" => ((1 + ε) * (1 + ε) / ((1 - η) * (1 - η) * ((1 - ε) * (1 - ε))))

theorem cos_sim {t o n k : Rat} (ht : ThrOK t) (hc : Counts o n k) (hfn : 1 ≤ fsqrt n) (hfk : 1 ≤ fsqrt k)
    (hq : t ≤ simF .cosine o n k) :
    t * t * (n * k) ≤ o * o * K := by
  obtain ⟨o1, on, ok, n32, k32⟩ := hc
  have ht0 := ht.pos
  have hn0 : 0 < n := by linarith
  have hk0 : 0 < k := by linarith
  obtain ⟨an, -⟩ := fsqrt_sq' hn0
  obtain ⟨ak, -⟩ := fsqrt_sq' hk0
  have hAB : 1 ≤ fsqrt n * fsqrt k := by nlinarith
  have hp := rn_lb (q := fsqrt n * fsqrt k) (by linarith [show (1:Rat) / 2 ^ 100 ≤ 1 by norm_num])
  have hp1 : 1 / 2 ≤ rn (fsqrt n * fsqrt k) := by nlinarith
  have hp0 : 0 < rn (fsqrt n * fsqrt k) := by linarith
  have hpu : rn (fsqrt n * fsqrt k) ≤ 2 ^ 40 := by
    have : fsqrt n ≤ 2 ^ 17 := fsqrt_le_of_le hn0.le (by positivity) (by nlinarith)
    have : fsqrt k ≤ 2 ^ 17 := fsqrt_le_of_le hk0.le (by positivity) (by nlinarith)
    have := rn_le_twice (x := fsqrt n * fsqrt k) (by linarith [show (1:Rat) / 2 ^ 100 ≤ 1 by norm_num])
    nlinarith
  simp only [simF] at hq
  have h1 : 1 / 2 ^ 100 ≤ o / rn (fsqrt n * fsqrt k) := by
    rw [le_div_iff₀ hp0]; nlinarith
  have h2 := rn_ub h1
  have h3 : t * rn (fsqrt n * fsqrt k) ≤ o * (1 + ε) := by
    calc t * rn (fsqrt n * fsqrt k)
        ≤ o / rn (fsqrt n * fsqrt k) * (1 + ε) * rn (fsqrt n * fsqrt k) :=
          mul_le_mul_of_nonneg_right (le_trans hq h2) hp0.le
      _ = o * (1 + ε) := by field_simp
  have h4 : t * (fsqrt n * fsqrt k * (1 - ε)) ≤ o * (1 + ε) :=
    le_trans (mul_le_mul_of_nonneg_left hp ht0.le) h3
  have h40 : 0 ≤ t * (fsqrt n * fsqrt k * (1 - ε)) := by
    have : (0:Rat) ≤ 1 - ε := by norm_num
    positivity
  have h5 := mul_self_le_mul_self h40 h4
  have h6 : t * t * (n * k) * ((1 - η) * (1 - η) * ((1 - ε) * (1 - ε))) ≤
      t * (fsqrt n * fsqrt k * (1 - ε)) * (t * (fsqrt n * fsqrt k * (1 - ε))) := by
    have e : t * (fsqrt n * fsqrt k * (1 - ε)) * (t * (fsqrt n * fsqrt k * (1 - ε))) =
        (t * t * ((1 - ε) * (1 - ε))) * ((fsqrt n * fsqrt n) * (fsqrt k * fsqrt k)) := by ring
    have e2 : t * t * (n * k) * ((1 - η) * (1 - η) * ((1 - ε) * (1 - ε))) =
        (t * t * ((1 - ε) * (1 - ε))) * ((n * (1 - η)) * (k * (1 - η))) := by ring
    rw [e, e2]
    apply mul_le_mul_of_nonneg_left _ (by positivity)
    apply mul_le_mul an ak _ (by positivity)
    have : (0:Rat) ≤ 1 - η := by norm_num
    positivity
  rw [mul_div_assoc', le_div_iff₀ (by norm_num)]
  calc _ ≤ _ := h6
    _ ≤ _ := h5
    _ = _ := by ring

theorem cos_low {t o n k : Rat} (ht : ThrOK t) (hc : Counts o n k) (hs : t * t * (n * k) ≤ o * o * K) :
    lowF .cosine t n ≤ o + 4 / 100000 := by
  obtain ⟨c1, c2⟩ := tt_range t ht
  obtain ⟨o1, on, ok, n32, k32⟩ := hc
  have ht0 := ht.pos; have ht1 := ht.hi; have ht2 := ht.lo
  have hk0 : 0 < k := by linarith
  have hn0 : 0 ≤ n := by linarith
  simp only [lowF]
  have htt : 1 / 2 ^ 100 ≤ t * t := by nlinarith
  have hc' := rn_ub htt
  have h1 : t * t * n ≤ o * K := by
    have : t * t * n * k ≤ o * K * k := by
      have : o * o * K ≤ o * k * K :=
        mul_le_mul_of_nonneg_right (mul_le_mul_of_nonneg_left ok (by linarith)) (by norm_num)
      nlinarith
    exact le_of_mul_le_mul_right this hk0
  have h3 : rn (t * t) * n ≤ o * (K * (1 + ε)) := by
    calc rn (t * t) * n ≤ t * t * (1 + ε) * n := mul_le_mul_of_nonneg_right hc' hn0
      _ = t * t * n * (1 + ε) := by ring
      _ ≤ o * K * (1 + ε) := mul_le_mul_of_nonneg_right h1 (by norm_num)
      _ = _ := by ring
  have h6 : 1 / 2 ^ 100 ≤ rn (t * t) * n := by nlinarith
  have := rn_ub_of_le h6 h3
  refine le_trans this ?_
  rw [mul_assoc]
  exact absorb_up (by linarith) (by linarith) (by norm_num)

theorem cos_up {t o n k : Rat} (ht : ThrOK t) (hc : Counts o n k) (hs : t * t * (n * k) ≤ o * o * K) :
    k - 4 / 100000 ≤ upF .cosine t n := by
  obtain ⟨c1, c2⟩ := tt_range t ht
  obtain ⟨o1, on, ok, n32, k32⟩ := hc
  have ht0 := ht.pos; have ht1 := ht.hi; have ht2 := ht.lo
  have hk0 : 0 < k := by linarith
  have hn0 : 0 < n := by linarith
  have htt0 : 0 < t * t := by positivity
  simp only [upF]
  have htt : 1 / 2 ^ 100 ≤ t * t := by nlinarith
  have hc' := rn_ub htt
  have h1 : t * t * k ≤ n * K := by
    have : t * t * k * n ≤ n * K * n := by
      have : o * o * K ≤ n * n * K :=
        mul_le_mul_of_nonneg_right (mul_le_mul on on (by linarith) (by linarith)) (by norm_num)
      nlinarith
    exact le_of_mul_le_mul_right this hn0
  have h2 : k / (K * (1 + ε)) ≤ n / rn (t * t) := by
    calc k / (K * (1 + ε)) ≤ n / (t * t * (1 + ε)) := by
          rw [div_le_div_iff₀ (by norm_num) (by positivity)]
          nlinarith
      _ ≤ n / rn (t * t) := div_le_div_of_nonneg_left hn0.le (by linarith) hc'
  have h6 : 1 / 2 ^ 100 ≤ k / (K * (1 + ε)) := by
    rw [le_div_iff₀ (by norm_num)]
    have : K * (1 + ε) ≤ 2 := by norm_num
    nlinarith
  have := rn_lb_of_le h6 h2
  refine le_trans ?_ this
  rw [div_mul_eq_mul_div, mul_div_assoc]
  exact absorb_lo (by linarith) k32 (by norm_num)

theorem cos_ov {t o n k : Rat} (ht : ThrOK t) (hc : Counts o n k) (hs : t * t * (n * k) ≤ o * o * K) :
    ovF .cosine t n k ≤ o + 4 / 100000 := by
  obtain ⟨o1, on, ok, n32, k32⟩ := hc
  have ht0 := ht.pos; have ht1 := ht.hi; have ht2 := ht.lo
  have hnk1 : 1 ≤ n * k := by nlinarith
  have hnk : 1 / 2 ^ 100 ≤ n * k := by linarith [show (1:Rat) / 2 ^ 100 ≤ 1 by norm_num]
  have hP := rn_ub hnk
  have hP2 := rn_ge_half hnk
  have hP0 : 0 < rn (n * k) := by linarith
  simp only [ovF]
  -- `fsqrt (rn (n*k)) ≤ o (1 + 2⁻⁴⁹) / t`
  have hF : fsqrt (rn (n * k)) ≤ o * (1 + 1 / 2 ^ 49) / t := by
    apply fsqrt_le_of_le hP0.le (by positivity)
    rw [div_mul_div_comm, le_div_iff₀ (by positivity)]
    have h1 : rn (n * k) * (1 + η) * (t * t) ≤ t * t * (n * k) * ((1 + ε) * (1 + η)) := by
      have : rn (n * k) * (t * t) ≤ n * k * (1 + ε) * (t * t) :=
        mul_le_mul_of_nonneg_right hP (by positivity)
      nlinarith
    have h2 : t * t * (n * k) * ((1 + ε) * (1 + η)) ≤ o * o * K * ((1 + ε) * (1 + η)) :=
      mul_le_mul_of_nonneg_right hs (by norm_num)
    have h3 : o * o * K * ((1 + ε) * (1 + η)) ≤ o * (1 + 1 / 2 ^ 49) * (o * (1 + 1 / 2 ^ 49)) := by
      have : K * ((1 + ε) * (1 + η)) ≤ (1 + 1 / 2 ^ 49) * (1 + 1 / 2 ^ 49) := by norm_num
      have : o * o * (K * ((1 + ε) * (1 + η))) ≤ o * o * ((1 + 1 / 2 ^ 49) * (1 + 1 / 2 ^ 49)) :=
        mul_le_mul_of_nonneg_left this (by positivity)
      linarith
    linarith
  have hF0 : 1 / 4 ≤ fsqrt (rn (n * k)) := by
    have := (fsqrt_sq' hP0).1
    have h0 := fsqrt_nonneg (rn (n * k))
    by_contra hcon
    have hcon : fsqrt (rn (n * k)) < 1 / 4 := not_le.mp hcon
    have : fsqrt (rn (n * k)) * fsqrt (rn (n * k)) < 1 / 4 * (1 / 4) := by nlinarith
    have : (1:Rat) / 2 * (1 - η) ≤ rn (n * k) * (1 - η) :=
      mul_le_mul_of_nonneg_right (by linarith) (by norm_num)
    norm_num at *
    linarith
  have h3 : t * fsqrt (rn (n * k)) ≤ o * (1 + 1 / 2 ^ 49) := by
    calc t * fsqrt (rn (n * k)) ≤ t * (o * (1 + 1 / 2 ^ 49) / t) := mul_le_mul_of_nonneg_left hF ht0.le
      _ = _ := by field_simp
  have h6 : 1 / 2 ^ 100 ≤ t * fsqrt (rn (n * k)) := by nlinarith
  have := rn_ub_of_le h6 h3
  refine le_trans this ?_
  rw [mul_assoc]
  exact absorb_up (by linarith) (by linarith) (by norm_num)

theorem cos_tight_up {t n k : Rat} (ht : ThrOK t) (h4 : 1 / 10000 < t) (hn1 : 1 ≤ n) (hk1 : 1 ≤ k)
    (h : n / k < (t - 1 / 10000) ^ 2) : upF .cosine t n ≤ k - 6 / 100000 := by
  obtain ⟨c1, c2⟩ := tt_range t ht
  have ht0 := ht.pos; have ht1 := ht.hi; have ht2 := ht.lo
  have hk0 : 0 < k := by linarith
  have hn0 : 0 < n := by linarith
  rw [div_lt_iff₀ hk0] at h
  simp only [upF]
  have htt : 1 / 2 ^ 100 ≤ t * t := by nlinarith
  have hc' := rn_lb htt
  have hd : t - 1 / 10000 ≤ t * (1 - 1 / 10000) := by nlinarith
  have hd2 : (t - 1 / 10000) ^ 2 ≤ (t * (1 - 1 / 10000)) ^ 2 :=
    pow_le_pow_left₀ (by linarith) hd 2
  have h1 : n ≤ k * (t * (1 - 1 / 10000)) ^ 2 :=
    le_trans h.le (by rw [mul_comm]; exact mul_le_mul_of_nonneg_left hd2 hk0.le)
  have h2 : n / rn (t * t) ≤ k * ((1 - 1 / 10000) ^ 2 / (1 - ε)) := by
    calc n / rn (t * t) ≤ n / (t * t * (1 - ε)) :=
          div_le_div_of_nonneg_left hn0.le (by apply mul_pos <;> [positivity; norm_num]) hc'
      _ ≤ k * ((1 - 1 / 10000) ^ 2 / (1 - ε)) := by
          rw [div_le_iff₀ (by apply mul_pos <;> [positivity; norm_num])]
          have e : k * ((1 - 1 / 10000) ^ 2 / (1 - ε)) * (t * t * (1 - ε)) = k * (t * (1 - 1 / 10000)) ^ 2 := by
            field_simp
          rw [e]; exact h1
  have h6 : 1 / 2 ^ 100 ≤ n / rn (t * t) := by
    rw [le_div_iff₀ (by linarith)]; nlinarith
  have := rn_ub_of_le h6 h2
  refine le_trans this ?_
  have : (1 - 1 / 10000) ^ 2 / (1 - ε) * (1 + ε) ≤ 1 - 1 / 10000 := by norm_num
  nlinarith

theorem cos_tight_low {t n k : Rat} (ht : ThrOK t) (h4 : 1 / 10000 < t) (hn1 : 1 ≤ n) (hk1 : 1 ≤ k)
    (hn : n ≤ 2 ^ 32) (h : k / n < (t - 1 / 10000) ^ 2) : k + 6 / 100000 ≤ lowF .cosine t n := by
  obtain ⟨c1, c2⟩ := tt_range t ht
  have ht0 := ht.pos; have ht1 := ht.hi; have ht2 := ht.lo
  have hn0 : 0 < n := by linarith
  rw [div_lt_iff₀ hn0] at h
  simp only [lowF]
  have htt : 1 / 2 ^ 100 ≤ t * t := by nlinarith
  have hc' := rn_lb htt
  -- `t² n ≥ k + 2·10⁻⁴`
  have h1 : k + 2 / 10000 ≤ t * t * n := by
    obtain ⟨d, hd⟩ : ∃ d, d = t - 1 / 10000 := ⟨_, rfl⟩
    have hd0 : 0 < d := by linarith
    have hd1 : d ≤ 1 := by linarith
    rw [← hd] at h
    have e : t = d + 1 / 10000 := by linarith
    have h5 : 0 ≤ n * d * (1 - d) := by
      have : 0 ≤ 1 - d := by linarith
      positivity
    have h7 : 1 < n * d := by nlinarith
    rw [e]; nlinarith
  have h3 : (k + 2 / 10000) * (1 - ε) ≤ rn (t * t) * n := by
    calc (k + 2 / 10000) * (1 - ε) ≤ t * t * n * (1 - ε) := mul_le_mul_of_nonneg_right h1 (by norm_num)
      _ = t * t * (1 - ε) * n := by ring
      _ ≤ _ := mul_le_mul_of_nonneg_right hc' hn0.le
  have h6 : 1 / 2 ^ 100 ≤ (k + 2 / 10000) * (1 - ε) := by
    have : (1:Rat) / 2 ≤ 1 - ε := by norm_num
    nlinarith
  have := rn_lb_of_le h6 h3
  refine le_trans ?_ this
  have hk32 : k ≤ 2 ^ 32 := by nlinarith
  nlinarith

/-! ## assembling the measure-generic facts -/

theorem Counts.symm {o n k : Rat} (hc : Counts o n k) : Counts o k n :=
  ⟨hc.o1, hc.ok, hc.on, hc.k32, hc.n32⟩

theorem Counts.ofNat {o n k : Nat} (ho1 : 1 ≤ o) (hon : o ≤ n) (hok : o ≤ k) (hn : n < 2 ^ 32) (hk : k < 2 ^ 32) :
    Counts (o : Rat) n k :=
  ⟨by exact_mod_cast ho1, by exact_mod_cast hon, by exact_mod_cast hok, natCast_le_of_lt hn, natCast_le_of_lt hk⟩

theorem simF_symm (m : Measure) (o n k : Rat) : simF m o n k = simF m o k n := by
  cases m <;> simp only [simF]
  · rw [mul_comm (fsqrt n)]
  · rw [add_comm n k]
  · rw [add_comm n k]

theorem ovF_symm (m : Measure) (t l r : Rat) : ovF m t l r = ovF m t r l := by
  cases m <;> simp only [ovF]
  · rw [mul_comm l r]
  · rw [add_comm l r]
  · rw [add_comm l r]

theorem simF_pos (m : Measure) (hm : SetMeasure m) {o n k : Rat} (hc : Counts o n k) : 0 < simF m o n k := by
  obtain ⟨o1, on, ok, n32, k32⟩ := hc
  rcases hm with rfl | rfl | rfl <;> simp only [simF]
  · have hu0 : 0 < n + k - o := by linarith
    have h1 : 1 / 2 ^ 100 ≤ o / (n + k - o) := by
      rw [le_div_iff₀ hu0]; nlinarith
    have := rn_ge_half h1
    have : 0 < o / (n + k - o) := lt_of_lt_of_le (by positivity) h1
    linarith
  · have hn0 : 0 < n := by linarith
    have hk0 : 0 < k := by linarith
    have a1 := fsqrt_pos (le_trans o1 on)
    have b1 := fsqrt_pos (le_trans o1 ok)
    have a2 : fsqrt n ≤ 2 ^ 17 := fsqrt_le_of_le hn0.le (by positivity) (by nlinarith)
    have b2 : fsqrt k ≤ 2 ^ 17 := fsqrt_le_of_le hk0.le (by positivity) (by nlinarith)
    have hAB : 1 ≤ fsqrt n * fsqrt k := by nlinarith
    have hp := rn_ge_half (x := fsqrt n * fsqrt k) (by linarith [show (1:Rat) / 2 ^ 100 ≤ 1 by norm_num])
    have hp2 := rn_le_twice (x := fsqrt n * fsqrt k) (by linarith [show (1:Rat) / 2 ^ 100 ≤ 1 by norm_num])
    have hp0 : 0 < rn (fsqrt n * fsqrt k) := by linarith
    have h1 : 1 / 2 ^ 100 ≤ o / rn (fsqrt n * fsqrt k) := by
      rw [le_div_iff₀ hp0]; nlinarith
    have := rn_ge_half h1
    have : 0 < o / rn (fsqrt n * fsqrt k) := lt_of_lt_of_le (by positivity) h1
    linarith
  · have hu0 : 0 < n + k := by linarith
    have h1 : 1 / 2 ^ 100 ≤ 2 * o / (n + k) := by
      rw [le_div_iff₀ hu0]; nlinarith
    have := rn_ge_half h1
    have : 0 < 2 * o / (n + k) := lt_of_lt_of_le (by positivity) h1
    linarith

/-- the three real-number bounds, for every set measure -/
theorem F_bounds (m : Measure) (hm : SetMeasure m) {t o n k : Rat} (ht : ThrOK t) (hc : Counts o n k)
    (hq : t ≤ simF m o n k) :
    lowF m t n ≤ o + 4 / 100000 ∧ k - 4 / 100000 ≤ upF m t n ∧ ovF m t n k ≤ o + 4 / 100000 := by
  rcases hm with rfl | rfl | rfl
  · exact ⟨jac_low ht hc hq, jac_up ht hc hq, jac_ov ht hc hq⟩
  · have hs := cos_sim ht hc (fsqrt_pos (le_trans hc.o1 hc.on)) (fsqrt_pos (le_trans hc.o1 hc.ok)) hq
    exact ⟨cos_low ht hc hs, cos_up ht hc hs, cos_ov ht hc hs⟩
  · exact ⟨dice_low ht hc hq, dice_up ht hc hq, dice_ov ht hc hq⟩

theorem lowF_range (m : Measure) {t n : Rat} (ht : ThrOK t) (hn0 : 0 ≤ n) (hn : n ≤ 2 ^ 32) :
    0 ≤ lowF m t n ∧ lowF m t n ≤ 2 ^ 32 := by
  have ht0 := ht.pos; have ht1 := ht.hi
  cases m with
  | cosine =>
    obtain ⟨c1, c2⟩ := tt_range t ht
    have c0 : 0 ≤ rn (t * t) := le_trans (by positivity) c1
    exact ⟨rn_nonneg (by positivity), rn_le_pow 32 (by norm_num) (by positivity) (by nlinarith)⟩
  | dice =>
    obtain ⟨a1, a2⟩ := two_sub_range t ht
    obtain ⟨b1, b2⟩ := t_div_range t ht a1 a2
    have b0 : 0 ≤ rn (t / rn (2 - t)) := le_trans (by positivity) b1
    exact ⟨rn_nonneg (by positivity), rn_le_pow 32 (by norm_num) (by positivity) (by nlinarith)⟩
  | jaccard =>
    exact ⟨rn_nonneg (by positivity), rn_le_pow 32 (by norm_num) (by positivity) (by nlinarith)⟩
  | editDistance => simp [lowF]
  | overlap => simp [lowF]

theorem upF_nonneg (m : Measure) {t n : Rat} (ht : ThrOK t) (hn0 : 0 ≤ n) : 0 ≤ upF m t n := by
  have ht0 := ht.pos
  cases m with
  | cosine => exact rn_nonneg (div_nonneg hn0 (rn_nonneg (by positivity)))
  | dice =>
    obtain ⟨a1, a2⟩ := two_sub_range t ht
    exact rn_nonneg (mul_nonneg (rn_nonneg (div_nonneg (by linarith) ht0.le)) hn0)
  | jaccard => exact rn_nonneg (by positivity)
  | editDistance => exact le_refl _
  | overlap => exact le_refl _

theorem ovF_nonneg (m : Measure) {t l r : Rat} (ht : ThrOK t) (hl0 : 0 ≤ l) (hr0 : 0 ≤ r) : 0 ≤ ovF m t l r := by
  have ht0 := ht.pos
  cases m with
  | cosine => exact rn_nonneg (mul_nonneg ht0.le (fsqrt_nonneg _))
  | dice => exact rn_nonneg (mul_nonneg (rn_nonneg (by positivity)) (by positivity))
  | jaccard =>
    obtain ⟨a1, a2⟩ := one_add_range t ht
    exact rn_nonneg (mul_nonneg (rn_nonneg (div_nonneg ht0.le (by linarith))) (by positivity))
  | editDistance => exact le_refl _
  | overlap => exact le_refl _

/-! ## integer views -/

theorem lower_eq (m : Measure) (hm : SetMeasure m) {t : Rat} (ht : ThrOK t) (n : Nat) (hn : n < 2 ^ 32) :
    (cfgOf m t).lower n = (round4 (lowF m t n)).ceil := by
  simp only [FCfg.lower, lowerV_eq t ht m hm n hn, PyV.toIntD]

theorem upper_eq (m : Measure) (hm : SetMeasure m) {t : Rat} (ht : ThrOK t) (n : Nat) (hn : n < 2 ^ 32) :
    (cfgOf m t).upper n = (round4 (upF m t n)).floor := by
  simp only [FCfg.upper, upperV_eq t ht m hm n hn, PyV.toIntD]

theorem ovThr_eq (m : Measure) (hm : SetMeasure m) {t : Rat} (ht : ThrOK t) (l r : Nat)
    (hl : l < 2 ^ 32) (hr : r < 2 ^ 32) :
    (cfgOf m t).ovThr l r = (round4 (ovF m t l r)).ceil := by
  simp only [FCfg.ovThr, ovThrV_eq t ht m hm l r hl hr, PyV.toIntD]

/-- prefix length = size − lower bound + 1 (the repaired formula shares the rounded product with the lower bound) -/
theorem prefixLen_eq (m : Measure) (hm : SetMeasure m) (t : Rat) (ht : ThrOK t) (n : Nat) (hn1 : 1 ≤ n) (hn : n < 2 ^ 32) :
    (cfgOf m t).prefixLen n = (n : Int) - (cfgOf m t).lower n + 1 := by
  have hz : n ≠ 0 := by omega
  rw [lower_eq m hm ht n hn]
  simp only [FCfg.prefixLen, prefixV_eq t ht m hm n hn, if_neg hz, PyV.toIntD]

/-- the similarity formula returns a positive finite double -/
theorem simFormula_float (m : Measure) (hm : SetMeasure m) (n k o : Nat) (ho1 : 1 ≤ o) (hon : o ≤ n) (hok : o ≤ k)
    (hn : n < 2 ^ 32) (hk : k < 2 ^ 32) : ∃ s : Rat, simFormula m o n k = .float s ∧ 0 < s :=
  ⟨_, simFormula_eq m hm n k o ho1 hon hok hn hk, simF_pos m hm (Counts.ofNat ho1 hon hok hn hk)⟩

/-- no Python error and integer results inside the covered region -/
theorem gen_noErr (m : Measure) (hm : SetMeasure m) (t : Rat) (ht : ThrOK t) (n k : Nat) (hn : n < 2 ^ 32) (hk : k < 2 ^ 32) :
    (cfgOf m t).errAt n k = false := by
  simp only [FCfg.errAt, lowerV_eq t ht m hm n hn, upperV_eq t ht m hm n hn, prefixV_eq t ht m hm n hn,
    ovThrV_eq t ht m hm n k hn hk]
  split_ifs <;> rfl

theorem lower_le_of (m : Measure) (hm : SetMeasure m) {t : Rat} (ht : ThrOK t) (n o : Nat) (hn : n < 2 ^ 32)
    (ho : o < 2 ^ 32) (h : lowF m t n ≤ o + 4 / 100000) : (cfgOf m t).lower n ≤ (o : Int) := by
  rw [lower_eq m hm ht n hn]
  have ho' := natCast_le_of_lt ho
  exact round4_ceil_le (lowF_range m ht (by positivity) (natCast_le_of_lt hn)).1
    (by push_cast; linarith [show (2:Rat) ^ 32 ≤ 2 ^ 39 by norm_num]) (by push_cast; exact h)

theorem ovThr_le_of (m : Measure) (hm : SetMeasure m) {t : Rat} (ht : ThrOK t) (l r o : Nat) (hl : l < 2 ^ 32)
    (hr : r < 2 ^ 32) (ho : o < 2 ^ 32) (h : ovF m t l r ≤ o + 4 / 100000) : (cfgOf m t).ovThr l r ≤ (o : Int) := by
  rw [ovThr_eq m hm ht l r hl hr]
  have ho' := natCast_le_of_lt ho
  exact round4_ceil_le (ovF_nonneg m ht (by positivity) (by positivity))
    (by push_cast; linarith [show (2:Rat) ^ 32 ≤ 2 ^ 39 by norm_num]) (by push_cast; exact h)

theorem le_upper_of (m : Measure) (hm : SetMeasure m) {t : Rat} (ht : ThrOK t) (n k : Nat) (hn : n < 2 ^ 32)
    (hk : k < 2 ^ 32) (h : (k : Rat) - 4 / 100000 ≤ upF m t n) : (k : Int) ≤ (cfgOf m t).upper n := by
  rw [upper_eq m hm ht n hn]
  have hk' := natCast_le_of_lt hk
  exact round4_floor_ge' (by positivity)
    (by push_cast; linarith [show (2:Rat) ^ 32 ≤ 2 ^ 52 by norm_num]) (by push_cast; exact h)

/-- MAIN (part that holds for every covered threshold): if the similarity computed in double precision reaches
    the threshold, the size window, the overlap thresholds and the prefix lengths admit the pair -/
theorem bounds_of_qual_core (m : Measure) (hm : SetMeasure m) (t : Rat) (ht : ThrOK t)
    (n k o : Nat) (ho1 : 1 ≤ o) (hon : o ≤ n) (hok : o ≤ k) (hn : n < 2 ^ 32) (hk : k < 2 ^ 32)
    (s : Rat) (hs : simFormula m o n k = .float s) (hq : t ≤ s) :
    (cfgOf m t).lower n ≤ (k : Int) ∧ (k : Int) ≤ (cfgOf m t).upper n ∧
    (cfgOf m t).ovThr n k ≤ (o : Int) ∧ (cfgOf m t).ovThr k n ≤ (o : Int) ∧
    (n : Int) - o + 1 ≤ (cfgOf m t).prefixLen n ∧ (k : Int) - o + 1 ≤ (cfgOf m t).prefixLen k ∧
    (cfgOf m t).lower n ≤ (o : Int) ∧ (cfgOf m t).lower k ≤ (o : Int) := by
  have hc := Counts.ofNat ho1 hon hok hn hk
  rw [simFormula_eq m hm n k o ho1 hon hok hn hk] at hs
  have hs' : simF m o n k = s := by injection hs
  rw [← hs'] at hq
  have ho : o < 2 ^ 32 := lt_of_le_of_lt hon hn
  obtain ⟨f1, f2, f3⟩ := F_bounds m hm ht hc hq
  obtain ⟨g1, -, -⟩ := F_bounds m hm ht hc.symm (by rw [simF_symm]; exact hq)
  have L1 := lower_le_of m hm ht n o hn ho f1
  have L2 := lower_le_of m hm ht k o hk ho g1
  have hok' : (o : Int) ≤ k := by exact_mod_cast hok
  refine ⟨le_trans L1 hok', le_upper_of m hm ht n k hn hk f2, ovThr_le_of m hm ht n k o hn hk ho f3,
    ovThr_le_of m hm ht k n o hk hn ho (by rw [ovF_symm]; exact f3), ?_, ?_, L1, L2⟩
  · rw [prefixLen_eq m hm t ht n (le_trans ho1 hon) hn]; omega
  · rw [prefixLen_eq m hm t ht k (le_trans ho1 hok) hk]; omega

/-! ## symmetry of `simFormula` (no size restriction) -/

theorem sqrt_toFloat_nat (n : Nat) :
    PyV.sqrt (PyV.toFloat (.int (n : Int))) = .err .overflow ∨
      ∃ x : Rat, PyV.sqrt (PyV.toFloat (.int (n : Int))) = .float x := by
  have h0 : (0 : Rat) ≤ rn ((n : Int) : Rat) := rn_nonneg (by positivity)
  have hh0 : (0 : Rat) < huge := by unfold huge; positivity
  simp only [PyV.toFloat, PyV.intToFloat, PyV.ofExact]
  by_cases h1 : rn ((n : Int) : Rat) ≥ huge
  · left; simp only [h1, if_true, PyV.sqrt]
  · right
    have h2 : ¬ rn ((n : Int) : Rat) ≤ -huge := by
      intro h; linarith
    have h3 : ¬ rn ((n : Int) : Rat) < 0 := not_lt.mpr h0
    exact ⟨fsqrt (rn ((n : Int) : Rat)), by simp only [h1, h2, if_false, PyV.sqrt, h3]⟩

theorem mul_comm_of {a b : PyV} (ha : a = .err .overflow ∨ ∃ x : Rat, a = .float x)
    (hb : b = .err .overflow ∨ ∃ x : Rat, b = .float x) : PyV.mul a b = PyV.mul b a := by
  rcases ha with rfl | ⟨x, rfl⟩ <;> rcases hb with rfl | ⟨y, rfl⟩
  · rfl
  · rfl
  · rfl
  · rw [mul_ff, mul_ff, mul_comm]

theorem simFormula_symm (m : Measure) (hm : SetMeasure m) (n k o : Nat) : simFormula m o n k = simFormula m o k n := by
  rcases hm with rfl | rfl | rfl
  · have : (n : Int) + k - o = (k : Int) + n - o := by omega
    simp only [simFormula, this]
  · simp only [simFormula]
    rw [mul_comm_of (sqrt_toFloat_nat n) (sqrt_toFloat_nat k)]
  · have : (n : Int) + k = (k : Int) + n := by omega
    simp only [simFormula, this]

/-! ## positivity of the lower bound (needed for `prefixLen n ≤ n`) -/

/-- smallest threshold for which `get_size_lower_bound` is at least 1 on non-empty records.
    Below it `round(·, 4)` can return `0.0` (e.g. Jaccard, `t = 2⁻²⁰`, one token) and then
    `get_prefix_length` returns `n + 1`. -/
def prefThr (m : Measure) : Rat :=
  match m with
  | .cosine => 1 / 100
  | .dice => 1 / 5000
  | _ => 1 / 10000


theorem lowF_ge (m : Measure) (hm : SetMeasure m) {t n : Rat} (ht : ThrOK t) (h4 : prefThr m ≤ t) (hn1 : 1 ≤ n) :
    6 / 100000 ≤ lowF m t n := by
  have ht0 := ht.pos; have ht1 := ht.hi
  have hn0 : 0 ≤ n := by linarith
  have hsmall : (1:Rat) / 2 ^ 100 ≤ 1 / 10000 * (1 - ε) := by norm_num
  rcases hm with rfl | rfl | rfl <;> simp only [prefThr] at h4 <;> simp only [lowF]
  · have := rn_lb_of_le (x := t * n) (y := 1 / 10000) (by norm_num) (by nlinarith)
    refine le_trans ?_ this; norm_num
  · have h1 : 1 / 10000 ≤ t * t := by nlinarith
    have hc := rn_lb_of_le (x := t * t) (y := 1 / 10000) (by norm_num) h1
    have h2 : 1 / 10000 * (1 - ε) ≤ rn (t * t) * n := by
      have : 0 ≤ rn (t * t) := le_trans (by norm_num) hc
      nlinarith
    have := rn_lb_of_le hsmall h2
    refine le_trans ?_ this; norm_num
  · obtain ⟨a1, a2⟩ := two_sub_range t ht
    have h1 : 1 / 10000 ≤ t / rn (2 - t) := by
      rw [le_div_iff₀ (by linarith)]; nlinarith
    have hc := rn_lb_of_le (x := t / rn (2 - t)) (y := 1 / 10000) (by norm_num) h1
    have h2 : 1 / 10000 * (1 - ε) ≤ rn (t / rn (2 - t)) * n := by
      have : 0 ≤ rn (t / rn (2 - t)) := le_trans (by norm_num) hc
      nlinarith
    have := rn_lb_of_le hsmall h2
    refine le_trans ?_ this; norm_num

theorem lt_lower_of (m : Measure) (hm : SetMeasure m) {t : Rat} (ht : ThrOK t) (n k : Nat) (hn : n < 2 ^ 32)
    (h : (k : Rat) + 6 / 100000 ≤ lowF m t n) : (k : Int) < (cfgOf m t).lower n := by
  rw [lower_eq m hm ht n hn]
  exact round4_ceil_gt (by positivity)
    (by linarith [(lowF_range m ht (n := n) (by positivity) (natCast_le_of_lt hn)).2, show (2:Rat) ^ 32 ≤ 2 ^ 39 by norm_num])
    (by push_cast; exact h)

theorem upper_lt_of (m : Measure) (hm : SetMeasure m) {t : Rat} (ht : ThrOK t) (n k : Nat) (hn : n < 2 ^ 32)
    (hk : k < 2 ^ 32) (h : upF m t n ≤ (k : Rat) - 6 / 100000) : (cfgOf m t).upper n < (k : Int) := by
  rw [upper_eq m hm ht n hn]
  have hk' := natCast_le_of_lt hk
  exact round4_floor_lt (upF_nonneg m ht (by positivity))
    (by push_cast; linarith [show (2:Rat) ^ 32 ≤ 2 ^ 39 by norm_num]) (by push_cast; exact h)

/-- for thresholds that are not tiny the lower bound of a non-empty record is positive … -/
theorem lower_pos (m : Measure) (hm : SetMeasure m) (t : Rat) (ht : ThrOK t) (h4 : prefThr m ≤ t)
    (n : Nat) (hn1 : 1 ≤ n) (hn : n < 2 ^ 32) : 1 ≤ (cfgOf m t).lower n := by
  have := lt_lower_of m hm ht n 0 hn
    (by push_cast; linarith [lowF_ge m hm ht h4 (show (1 : Rat) ≤ n by exact_mod_cast hn1)])
  omega

/-- … hence the prefix is no longer than the record -/
theorem prefixLen_le (m : Measure) (hm : SetMeasure m) (t : Rat) (ht : ThrOK t) (h4 : prefThr m ≤ t)
    (n : Nat) (hn : n < 2 ^ 32) : (cfgOf m t).prefixLen n ≤ (n : Int) := by
  rcases Nat.eq_zero_or_pos n with rfl | hn1
  · simp only [FCfg.prefixLen, prefixV_eq t ht m hm 0 hn, if_true, PyV.toIntD]; rfl
  · rw [prefixLen_eq m hm t ht n hn1 hn]
    have := lower_pos m hm t ht h4 n hn1 hn
    omega

/-- MAIN: if the similarity computed in double precision reaches the threshold, every pruning bound admits the pair.
    The hypothesis `h4` is needed only for the last two conjuncts (see `bounds_of_qual_core`). -/
theorem bounds_of_qual (m : Measure) (hm : SetMeasure m) (t : Rat) (ht : ThrOK t) (h4 : prefThr m ≤ t)
    (n k o : Nat) (ho1 : 1 ≤ o) (hon : o ≤ n) (hok : o ≤ k) (hn : n < 2 ^ 32) (hk : k < 2 ^ 32)
    (s : Rat) (hs : simFormula m o n k = .float s) (hq : t ≤ s) :
    (cfgOf m t).lower n ≤ (k : Int) ∧ (k : Int) ≤ (cfgOf m t).upper n ∧
    (cfgOf m t).ovThr n k ≤ (o : Int) ∧ (cfgOf m t).ovThr k n ≤ (o : Int) ∧
    (n : Int) - o + 1 ≤ (cfgOf m t).prefixLen n ∧ (k : Int) - o + 1 ≤ (cfgOf m t).prefixLen k ∧
    (cfgOf m t).prefixLen n ≤ (n : Int) ∧ (cfgOf m t).prefixLen k ≤ (k : Int) := by
  obtain ⟨h1, h2, h3, h4', h5, h6, -, -⟩ := bounds_of_qual_core m hm t ht n k o ho1 hon hok hn hk s hs hq
  exact ⟨h1, h2, h3, h4', h5, h6, prefixLen_le m hm t ht h4 n hn, prefixLen_le m hm t ht h4 k hk⟩

/-! ## tightness of the size window (C14) -/

theorem size_tight_jaccard (t : Rat) (ht : ThrOK t) (n k : Nat) (hn1 : 1 ≤ n) (hk1 : 1 ≤ k) (hn : n < 2 ^ 32) (hk : k < 2 ^ 32)
    (h : ((min n k : Nat) : Rat) / ((max n k : Nat) : Rat) < t - 1 / 10000) :
    ¬ ((cfgOf .jaccard t).lower n ≤ (k : Int) ∧ (k : Int) ≤ (cfgOf .jaccard t).upper n) := by
  have hm : SetMeasure .jaccard := Or.inl rfl
  have hn1' : (1 : Rat) ≤ n := by exact_mod_cast hn1
  have hk1' : (1 : Rat) ≤ k := by exact_mod_cast hk1
  rintro ⟨hl, hu⟩
  rcases le_total n k with hnk | hkn
  · rw [min_eq_left hnk, max_eq_right hnk] at h
    have := upper_lt_of .jaccard hm ht n k hn hk (jac_tight_up ht hn1' hk1' h)
    omega
  · rw [min_eq_right hkn, max_eq_left hkn] at h
    have := lt_lower_of .jaccard hm ht n k hn (jac_tight_low ht hn1' hk1' (natCast_le_of_lt hk) h)
    omega

theorem size_tight_dice (t : Rat) (ht : ThrOK t) (n k : Nat) (hn1 : 1 ≤ n) (hk1 : 1 ≤ k) (hn : n < 2 ^ 32) (hk : k < 2 ^ 32)
    (h : (2 * (min n k : Nat) : Rat) / ((n : Rat) + k) < t - 1 / 10000) :
    ¬ ((cfgOf .dice t).lower n ≤ (k : Int) ∧ (k : Int) ≤ (cfgOf .dice t).upper n) := by
  have hm : SetMeasure .dice := Or.inr (Or.inr rfl)
  have hn1' : (1 : Rat) ≤ n := by exact_mod_cast hn1
  have hk1' : (1 : Rat) ≤ k := by exact_mod_cast hk1
  rintro ⟨hl, hu⟩
  rcases le_total n k with hnk | hkn
  · rw [min_eq_left hnk] at h
    have := upper_lt_of .dice hm ht n k hn hk (dice_tight_up ht hn1' hk1' h)
    omega
  · rw [min_eq_right hkn] at h
    have := lt_lower_of .dice hm ht n k hn (dice_tight_low ht hn1' hk1' h)
    omega

theorem size_tight_cosine (t : Rat) (ht : ThrOK t) (h4 : 1 / 10000 < t) (n k : Nat) (hn1 : 1 ≤ n) (hk1 : 1 ≤ k) (hn : n < 2 ^ 32) (hk : k < 2 ^ 32)
    (h : ((min n k : Nat) : Rat) / ((max n k : Nat) : Rat) < (t - 1 / 10000) ^ 2) :
    ¬ ((cfgOf .cosine t).lower n ≤ (k : Int) ∧ (k : Int) ≤ (cfgOf .cosine t).upper n) := by
  have hm : SetMeasure .cosine := Or.inr (Or.inl rfl)
  have hn1' : (1 : Rat) ≤ n := by exact_mod_cast hn1
  have hk1' : (1 : Rat) ≤ k := by exact_mod_cast hk1
  rintro ⟨hl, hu⟩
  rcases le_total n k with hnk | hkn
  · rw [min_eq_left hnk, max_eq_right hnk] at h
    have := upper_lt_of .cosine hm ht n k hn hk (cos_tight_up ht h4 hn1' hk1' h)
    omega
  · rw [min_eq_right hkn, max_eq_left hkn] at h
    have := lt_lower_of .cosine hm ht n k hn (cos_tight_low ht h4 hn1' hk1' (natCast_le_of_lt hn) h)
    omega

end SSJ

/-
  SSJ.Proofs.JoinED — the edit-distance join (`_edit_distance_join_split`): the output as a list of
  (left id, right id, distance) triples, soundness / exact score / uniqueness (C03 first half), the
  shape of the generated EDIT_DISTANCE prefix length, the bag version of the prefix-filter principle
  and completeness relative to the two classical q-gram / edit-distance facts (C03 second half).
-/
import SSJ.Model.Joins
import SSJ.Spec.Spec
import SSJ.Proofs.Candidates
import SSJ.Proofs.TokenOrdering
import Mathlib.Data.List.Basic
import Mathlib.Data.List.Nodup
import Mathlib.Data.List.Perm.Basic
import Mathlib.Data.Nat.Find
import Mathlib.Tactic.Linarith
import Mathlib.Data.Rat.Defs
import Mathlib.Data.Rat.Cast.Order

namespace SSJ

/-! ### generic list facts -/
section Lists

theorem jed_zipIdx_getD {α : Type} (l : List α) (dflt : α) (p : α × Nat) (hp : p ∈ l.zipIdx) :
    l.getD p.2 dflt = p.1 ∧ p.2 < l.length := by
  obtain ⟨a, i⟩ := p
  have h := List.mem_zipIdx_iff_getElem?.1 hp
  simp only at h ⊢
  have hi : i < l.length := by
    by_contra hcon
    rw [List.getElem?_eq_none (by omega)] at h
    cases h
  refine ⟨?_, hi⟩
  rw [List.getD_eq_getElem?_getD, h]; rfl

theorem jed_flatMap_zipIdx {α β : Type} (l : List α) (F : α → List β) :
    l.zipIdx.flatMap (fun p => F p.1) = l.flatMap F := by
  have : l.flatMap F = (l.zipIdx.map Prod.fst).flatMap F := by rw [List.zipIdx_map_fst]
  rw [this, List.flatMap_map]

theorem jed_zip_map {α β : Type} (l : List α) (g : α → β) : l.zip (l.map g) = l.map (fun a => (a, g a)) := by
  induction l with
  | nil => rfl
  | cons a l ih => simp [ih]

/-- pairs `(c, index)` built row by row are duplicate-free when every row is -/
theorem jed_nodup_flatMap_zipIdx {α β : Type} (l : List α) (F : α → List β) (hF : ∀ r ∈ l, (F r).Nodup) (n : Nat) :
    ((l.zipIdx n).flatMap (fun p => (F p.1).map (fun c => (c, p.2)))).Nodup ∧
    ∀ q ∈ (l.zipIdx n).flatMap (fun p => (F p.1).map (fun c => (c, p.2))), n ≤ q.2 := by
  induction l generalizing n with
  | nil => simp
  | cons a l ih =>
    obtain ⟨ih1, ih2⟩ := ih (fun r hr => hF r (List.mem_cons_of_mem _ hr)) (n + 1)
    rw [List.zipIdx_cons, List.flatMap_cons]
    constructor
    · rw [List.nodup_append]
      refine ⟨?_, ih1, ?_⟩
      · exact (hF a List.mem_cons_self).map (fun c1 c2 h => by simpa using h)
      · intro x hx y hy hxy
        subst hxy
        have := ih2 x hy
        obtain ⟨c, _, rfl⟩ := List.mem_map.1 hx
        simp at this
    · intro q hq
      rcases List.mem_append.1 hq with h | h
      · obtain ⟨c, _, rfl⟩ := List.mem_map.1 h
        simp
      · have := ih2 q h; omega

end Lists

/-! ### the join as a list of (left id, right id, distance) triples -/

/-- the filter object the edit-distance join builds -/
def edFilter (threshold qval : Int) : FilterObj :=
  { cfg := { measure := .editDistance, threshold := .int threshold, qval := .int qval } }

/-- the global token ordering of one chunk -/
def edOrdering (tok : String → List Tok) (lAttr rAttr : Nat) (ltable rtable : List Row) : List (Tok × Nat) :=
  genTokenOrdering (ltable.map (fun row => tok (row.cell lAttr).strVal) ++ rtable.map (fun row => tok (row.cell rAttr).strVal))

/-- the ordered token lists of the left rows (what the prefix index is built from) -/
def edOrdToks (tok : String → List Tok) (lAttr rAttr : Nat) (ltable rtable : List Row) : List (List Nat) :=
  (ltable.map (fun row => tok (row.cell lAttr).strVal)).map
    (fun t => orderUsing t (edOrdering tok lAttr rAttr ltable rtable))

/-- the prefix-filter candidates of one right row -/
def edCands (threshold qval : Int) (tok : String → List Tok) (lAttr rAttr : Nat) (ltable rtable : List Row)
    (rRow : Row) : List Nat :=
  prefixFindCandidates (edFilter threshold qval)
    (orderUsing (tok (rRow.cell rAttr).strVal) (edOrdering tok lAttr rAttr ltable rtable))
    (PrefIndex.build (edFilter threshold qval).cfg (edOrdToks tok lAttr rAttr ltable rtable) false)

/-- the (candidate, distance) pairs one right row contributes, in output order -/
def edRow (threshold qval : Int) (compOp : String) (tok : String → List Tok) (lAttr rAttr : Nat)
    (ltable rtable : List Row) (rRow : Row) : List (Nat × Nat) :=
  (edCands threshold qval tok lAttr rAttr ltable rtable rRow).filterMap (fun cand =>
    let rStr := (rRow.cell rAttr).strVal
    let rLen : Int := rStr.length
    let ll : Int := ((ltable.map (fun row => (row.cell lAttr).strVal.length)).getD cand 0 : Nat)
    if rLen - threshold ≤ ll && ll ≤ rLen + threshold then
      let d := lev ((ltable.getD cand []).cell lAttr).strVal rStr
      if compFn compOp (.int d) (.int threshold) then some (cand, d) else none
    else none)

/-- (left id, right id, distance) in output order -/
def edPairs (threshold qval : Int) (compOp : String) (tok : String → List Tok) (lAttr rAttr : Nat)
    (ltable rtable : List Row) : List (Nat × Nat × Nat) :=
  rtable.zipIdx.flatMap (fun p =>
    (edRow threshold qval compOp tok lAttr rAttr ltable rtable p.1).map (fun ck => (ck.1, p.2, ck.2)))

theorem jed_row_eq (threshold qval : Int) (compOp : String) (lAttr rAttr : Nat) (o : OutCfg)
    (outSimScore : Bool) (tok : String → List Tok) (ltable rtable : List Row) (rRow : Row) :
    (edCands threshold qval tok lAttr rAttr ltable rtable rRow).filterMap (fun cand =>
      let rStr := (rRow.cell rAttr).strVal
      let rLen : Int := rStr.length
      let ll : Int := ((ltable.map (fun row => (row.cell lAttr).strVal.length)).getD cand 0 : Nat)
      if rLen - threshold ≤ ll && ll ≤ rLen + threshold then
        let lRow := ltable.getD cand []
        let d := lev (lRow.cell lAttr).strVal rStr
        if compFn compOp (.int d) (.int threshold) then
          some (withScore outSimScore (outputRow o lRow rRow) (.int d))
        else none
      else none) =
    (edRow threshold qval compOp tok lAttr rAttr ltable rtable rRow).map (fun ck =>
      withScore outSimScore (outputRow o (ltable.getD ck.1 []) rRow) (.int ck.2)) := by
  unfold edRow
  rw [List.map_filterMap]
  apply List.filterMap_congr
  intro cand _
  dsimp only
  split
  · split <;> rfl
  · rfl

theorem editDistanceJoinSplit_eq_pairs (threshold qval : Int) (compOp : String) (lAttr rAttr : Nat) (o : OutCfg)
    (outSimScore : Bool) (tok : String → List Tok) (ltable rtable : List Row) :
    editDistanceJoinSplit threshold qval compOp lAttr rAttr o outSimScore tok ltable rtable =
      (edPairs threshold qval compOp tok lAttr rAttr ltable rtable).map (fun p =>
        withScore outSimScore (outputRow o (ltable.getD p.1 []) (rtable.getD p.2.1 [])) (.int p.2.2)) := by
  unfold editDistanceJoinSplit edPairs
  rw [List.map_flatMap]
  simp only [jed_zip_map, List.flatMap_map]
  rw [← jed_flatMap_zipIdx rtable]
  apply List.flatMap_congr
  intro p hp
  obtain ⟨hget, -⟩ := jed_zipIdx_getD rtable [] p hp
  refine (jed_row_eq threshold qval compOp lAttr rAttr o outSimScore tok ltable rtable p.1).trans ?_
  rw [List.map_map]
  apply List.map_congr_left
  intro ck _
  simp only [Function.comp, hget]

/-! ### membership -/

theorem mem_edRow (threshold qval : Int) (compOp : String) (tok : String → List Tok) (lAttr rAttr : Nat)
    (ltable rtable : List Row) (rRow : Row) (c k : Nat) :
    (c, k) ∈ edRow threshold qval compOp tok lAttr rAttr ltable rtable rRow ↔
      c ∈ edCands threshold qval tok lAttr rAttr ltable rtable rRow ∧
      (((rRow.cell rAttr).strVal.length : Int) - threshold ≤
          (((ltable.map (fun row => (row.cell lAttr).strVal.length)).getD c 0 : Nat) : Int) ∧
        (((ltable.map (fun row => (row.cell lAttr).strVal.length)).getD c 0 : Nat) : Int) ≤
          ((rRow.cell rAttr).strVal.length : Int) + threshold) ∧
      k = lev ((ltable.getD c []).cell lAttr).strVal (rRow.cell rAttr).strVal ∧
      compFn compOp (.int (lev ((ltable.getD c []).cell lAttr).strVal (rRow.cell rAttr).strVal)) (.int threshold) = true := by
  unfold edRow
  rw [List.mem_filterMap]
  constructor
  · rintro ⟨a, ha, h⟩
    dsimp only at h
    split at h
    · rename_i h1
      split at h
      · rename_i h2
        simp only [Option.some.injEq, Prod.mk.injEq] at h
        obtain ⟨rfl, rfl⟩ := h
        simp only [Bool.and_eq_true, decide_eq_true_eq] at h1
        exact ⟨ha, h1, rfl, h2⟩
      · cases h
    · cases h
  · rintro ⟨h1, h2, rfl, h4⟩
    refine ⟨c, h1, ?_⟩
    dsimp only
    rw [if_pos (by simpa only [Bool.and_eq_true, decide_eq_true_eq] using h2), if_pos h4]

theorem mem_edPairs (threshold qval : Int) (compOp : String) (tok : String → List Tok) (lAttr rAttr : Nat)
    (ltable rtable : List Row) (c d k : Nat) :
    (c, d, k) ∈ edPairs threshold qval compOp tok lAttr rAttr ltable rtable ↔
      ∃ rRow, rtable[d]? = some rRow ∧ (c, k) ∈ edRow threshold qval compOp tok lAttr rAttr ltable rtable rRow := by
  unfold edPairs
  rw [List.mem_flatMap]
  constructor
  · rintro ⟨⟨rRow, i⟩, hp, hm⟩
    obtain ⟨⟨c', k'⟩, hck, he⟩ := List.mem_map.1 hm
    simp only [Prod.mk.injEq] at he
    obtain ⟨rfl, rfl, rfl⟩ := he
    exact ⟨rRow, List.mem_zipIdx_iff_getElem?.1 hp, hck⟩
  · rintro ⟨rRow, hr, hm⟩
    exact ⟨(rRow, d), List.mem_zipIdx_iff_getElem?.2 hr, List.mem_map.2 ⟨(c, k), hm, rfl⟩⟩

theorem jed_mem_pyTake {α : Type} (l : List α) (k : Int) (t : α) (h : t ∈ pyTake l k) : t ∈ l := by
  unfold pyTake at h
  split at h <;> exact List.mem_of_mem_take h

theorem jed_getD_of_getElem? {α : Type} (l : List α) (i : Nat) (a dflt : α) (h : l[i]? = some a) :
    l.getD i dflt = a ∧ i < l.length := by
  have := jed_zipIdx_getD l dflt (a, i) (List.mem_zipIdx_iff_getElem?.2 h)
  exact this

theorem edOrdToks_getElem? (tok : String → List Tok) (lAttr rAttr : Nat) (ltable rtable : List Row) (c : Nat)
    (y : List Nat) :
    (edOrdToks tok lAttr rAttr ltable rtable)[c]? = some y ↔
      c < ltable.length ∧
        y = orderUsing (tok ((ltable.getD c []).cell lAttr).strVal) (edOrdering tok lAttr rAttr ltable rtable) := by
  unfold edOrdToks
  rw [List.map_map, List.getElem?_map]
  constructor
  · intro h
    cases hl : ltable[c]? with
    | none => rw [hl] at h; cases h
    | some row =>
      rw [hl] at h
      obtain ⟨h1, h2⟩ := jed_getD_of_getElem? ltable c row [] hl
      simp only [Option.map_some, Option.some.injEq, Function.comp] at h
      exact ⟨h2, by rw [h1]; exact h.symm⟩
  · rintro ⟨h1, rfl⟩
    rw [List.getElem?_eq_getElem h1, List.getD_eq_getElem?_getD, List.getElem?_eq_getElem h1]
    rfl

theorem mem_edCands (threshold qval : Int) (tok : String → List Tok) (lAttr rAttr : Nat)
    (ltable rtable : List Row) (rRow : Row) (c : Nat) :
    c ∈ edCands threshold qval tok lAttr rAttr ltable rtable rRow ↔
      c < ltable.length ∧ ∃ t,
        t ∈ pyTake (orderUsing (tok (rRow.cell rAttr).strVal) (edOrdering tok lAttr rAttr ltable rtable))
            ((edFilter threshold qval).cfg.prefixLen
              (orderUsing (tok (rRow.cell rAttr).strVal) (edOrdering tok lAttr rAttr ltable rtable)).length) ∧
        t ∈ pyTake (orderUsing (tok ((ltable.getD c []).cell lAttr).strVal) (edOrdering tok lAttr rAttr ltable rtable))
            ((edFilter threshold qval).cfg.prefixLen
              (orderUsing (tok ((ltable.getD c []).cell lAttr).strVal) (edOrdering tok lAttr rAttr ltable rtable)).length) := by
  unfold edCands
  rw [prefixFindCandidates_mem]
  constructor
  · rintro ⟨y, hy, t, h1, h2⟩
    obtain ⟨hc, rfl⟩ := (edOrdToks_getElem? _ _ _ _ _ _ _).1 hy
    exact ⟨hc, t, h1, h2⟩
  · rintro ⟨hc, t, h1, h2⟩
    exact ⟨_, (edOrdToks_getElem? _ _ _ _ _ _ _).2 ⟨hc, rfl⟩, t, h1, h2⟩

/-- ranks are injective on the tokens of one chunk: a common rank is a common token -/
theorem edOrdering_common (tok : String → List Tok) (lAttr rAttr : Nat) (ltable rtable : List Row)
    (a b : List Tok) (t : Nat)
    (ha : t ∈ orderUsing a (edOrdering tok lAttr rAttr ltable rtable))
    (hb : t ∈ orderUsing b (edOrdering tok lAttr rAttr ltable rtable)) : ∃ g, g ∈ a ∧ g ∈ b := by
  obtain ⟨g1, hg1, hr1⟩ := (mem_orderUsing _ _ _).1 ha
  obtain ⟨g2, hg2, hr2⟩ := (mem_orderUsing _ _ _).1 hb
  have := genTokenOrdering_inj _ g1 g2 t hr1 hr2
  subst this
  exact ⟨g1, hg1, hg2⟩

/-- SOUND + exact score (C03 first half) -/
theorem edPairs_sound (threshold qval : Int) (compOp : String) (tok : String → List Tok) (lAttr rAttr : Nat)
    (ltable rtable : List Row) :
    ∀ c d k, (c, d, k) ∈ edPairs threshold qval compOp tok lAttr rAttr ltable rtable →
      c < ltable.length ∧ d < rtable.length ∧
      k = lev ((ltable.getD c []).cell lAttr).strVal ((rtable.getD d []).cell rAttr).strVal ∧
      Spec.qualED compOp threshold ((ltable.getD c []).cell lAttr).strVal ((rtable.getD d []).cell rAttr).strVal = true ∧
      Spec.shareToken tok ((ltable.getD c []).cell lAttr).strVal ((rtable.getD d []).cell rAttr).strVal = true := by
  intro c d k h
  obtain ⟨rRow, hr, hm⟩ := (mem_edPairs _ _ _ _ _ _ _ _ _ _ _).1 h
  obtain ⟨hget, hd⟩ := jed_getD_of_getElem? rtable d rRow [] hr
  obtain ⟨hcand, -, hk, hcomp⟩ := (mem_edRow _ _ _ _ _ _ _ _ _ _ _).1 hm
  obtain ⟨hc, t, ht1, ht2⟩ := (mem_edCands _ _ _ _ _ _ _ _ _).1 hcand
  rw [hget]
  refine ⟨hc, hd, hk, hcomp, ?_⟩
  obtain ⟨g, hg1, hg2⟩ := edOrdering_common tok lAttr rAttr ltable rtable _ _ t
    (jed_mem_pyTake _ _ _ ht2) (jed_mem_pyTake _ _ _ ht1)
  unfold Spec.shareToken
  rw [List.any_eq_true]
  exact ⟨g, hg1, by simpa using hg2⟩

/-- ONCE: no (left id, right id) pair is reported twice -/
theorem edPairs_nodup (threshold qval : Int) (compOp : String) (tok : String → List Tok) (lAttr rAttr : Nat)
    (ltable rtable : List Row) :
    ((edPairs threshold qval compOp tok lAttr rAttr ltable rtable).map (fun p => (p.1, p.2.1))).Nodup := by
  have hrow : ∀ rRow, ((edRow threshold qval compOp tok lAttr rAttr ltable rtable rRow).map (·.1)).Nodup := by
    intro rRow
    have hsub : ((edRow threshold qval compOp tok lAttr rAttr ltable rtable rRow).map (·.1)).Sublist
        (edCands threshold qval tok lAttr rAttr ltable rtable rRow) := by
      unfold edRow
      rw [List.map_filterMap]
      have : ∀ (l : List Nat) (F : Nat → Option (Nat × Nat)) (hF : ∀ a p, F a = some p → p.1 = a),
          (l.filterMap (fun a => (F a).map (·.1))).Sublist l := by
        intro l F hF
        induction l with
        | nil => simp
        | cons a l ih =>
          rw [List.filterMap_cons]
          cases hFa : F a with
          | none => simpa using ih.cons a
          | some p =>
            have := hF a p hFa
            simp only [Option.map_some]
            rw [this]
            exact ih.cons_cons a
      apply this
      intro a p hp
      dsimp only at hp
      split at hp
      · split at hp
        · simp only [Option.some.injEq] at hp; rw [← hp]
        · cases hp
      · cases hp
    exact hsub.nodup (prefixFindCandidates_nodup _ _ _ _)
  unfold edPairs
  rw [List.map_flatMap]
  have := (jed_nodup_flatMap_zipIdx rtable
    (fun rRow => (edRow threshold qval compOp tok lAttr rAttr ltable rtable rRow).map (·.1))
    (fun r _ => hrow r) 0).1
  simpa only [List.map_map, Function.comp_def] using this

/-! ### the generated prefix length for EDIT_DISTANCE -/

/-- shape of the generated prefix length for EDIT_DISTANCE -/
theorem prefixLen_ed (tau q : Int) (n : Nat) :
    ({ measure := .editDistance, threshold := .int tau, qval := .int q } : FCfg).prefixLen n =
      if n = 0 then 0 else min (q * tau + 1) (n : Int) := by
  have e1 : PyV.eqb (.str "EDIT_DISTANCE") (.str "COSINE") = false := by decide
  have e2 : PyV.eqb (.str "EDIT_DISTANCE") (.str "DICE") = false := by decide
  have e3 : PyV.eqb (.str "EDIT_DISTANCE") (.str "EDIT_DISTANCE") = true := by decide
  have e0 : PyV.eqb (.int (n : Int)) (.int 0) = decide (n = 0) := by
    by_cases hn : n = 0
    · subst hn; decide
    · simp [PyV.eqb, PyV.numVal?, hn]
  unfold FCfg.prefixLen FCfg.prefixV Gen.get_prefix_length
  simp only [Measure.name, e0, e1, e2, e3]
  by_cases hn : n = 0
  · simp [hn, PyV.toIntD]
  · simp only [hn, decide_false, Bool.false_eq_true, if_false, if_true, PyV.mul, PyV.add, PyV.min, PyV.ltb,
      PyV.numVal?]
    by_cases h : (n : Int) < q * tau + 1
    · have h' : ((n : Int) : Rat) < ((q * tau + 1 : Int) : Rat) := by exact_mod_cast h
      simp only [h', decide_true, if_true, PyV.toInt, PyV.toIntD]
      omega
    · have h' : ¬ ((n : Int) : Rat) < ((q * tau + 1 : Int) : Rat) := by exact_mod_cast h
      simp only [h', decide_false, Bool.false_eq_true, if_false, PyV.toInt, PyV.toIntD]
      omega

/-- with `q·τ ≥ 0` the EDIT_DISTANCE prefix of a list is its first `q·τ + 1` elements -/
theorem pyTake_prefixLen_ed (tau q : Int) (hqt : 0 ≤ q * tau) (A : List Nat) :
    pyTake A ((edFilter tau q).cfg.prefixLen A.length) = A.take ((q * tau).toNat + 1) := by
  unfold edFilter
  rw [prefixLen_ed]
  by_cases hn : A.length = 0
  · have : A = [] := List.length_eq_zero_iff.1 hn
    subst this
    simp [pyTake]
  · rw [if_neg hn]
    unfold pyTake
    rw [if_pos (by omega)]
    rw [List.take_eq_take_iff]
    omega

/-! ### the bag version of the prefix-filter principle -/

theorem jed_diff_append_of_not_mem {α : Type} [DecidableEq α] (l1 r y : List α) (h : ∀ a ∈ l1, a ∉ y) :
    (l1 ++ r).diff y = l1 ++ r.diff y := by
  induction y generalizing r with
  | nil => rfl
  | cons b y ih =>
    have hb : b ∉ l1 := fun hb => h b hb List.mem_cons_self
    rw [List.diff_cons, List.diff_cons, List.erase_append_right _ hb]
    exact ih _ (fun a ha hay => h a ha (List.mem_cons_of_mem _ hay))

/-- the smallest common value `w` of an ascending list `x` with `y` sits among the first `k+1` elements of `x`
    when at most `k` elements of `x` are unmatched in `y` -/
theorem jed_min_common_in_take (x y : List Nat) (hx : x.Pairwise (· ≤ ·)) (w : Nat) (hwx : w ∈ x)
    (hmin : ∀ v, v ∈ x → v ∈ y → w ≤ v) (k : Nat) (hxy : (x.diff y).length ≤ k) :
    w ∈ x.take (k + 1) := by
  obtain ⟨l1, l2, rfl, hw1⟩ := List.eq_append_cons_of_mem hwx
  have hl1 : ∀ a ∈ l1, a ∉ y := by
    intro a ha hay
    have h1 : a ≤ w := (List.pairwise_append.1 hx).2.2 a ha w List.mem_cons_self
    have h2 : w ≤ a := hmin a (List.mem_append_left _ ha) hay
    have : a = w := by omega
    exact hw1 (this ▸ ha)
  rw [jed_diff_append_of_not_mem l1 _ y hl1, List.length_append] at hxy
  have hl : l1.length ≤ k := by omega
  rw [List.take_append, List.mem_append]
  right
  have : k + 1 - l1.length = (k - l1.length) + 1 := by omega
  rw [this, List.take_succ_cons]
  exact List.mem_cons_self

/-- BAG PREFIX LEMMA: two ascending lists (duplicates allowed) with at most `k` unmatched elements each way and a
    common value share a value inside their first `k+1` elements -/
theorem bag_prefix (x y : List Nat) (hx : x.Pairwise (· ≤ ·)) (hy : y.Pairwise (· ≤ ·)) (k : Nat)
    (hxy : (x.diff y).length ≤ k) (hyx : (y.diff x).length ≤ k) (hc : ∃ v, v ∈ x ∧ v ∈ y) :
    ∃ v, v ∈ x.take (k + 1) ∧ v ∈ y.take (k + 1) := by
  classical
  have hmin := fun v (h : v ∈ x ∧ v ∈ y) => Nat.find_min' hc h
  obtain ⟨hwx, hwy⟩ := Nat.find_spec hc
  exact ⟨Nat.find hc, jed_min_common_in_take x y hx _ hwx (fun v h1 h2 => hmin v ⟨h1, h2⟩) k hxy,
    jed_min_common_in_take y x hy _ hwy (fun v h1 h2 => hmin v ⟨h2, h1⟩) k hyx⟩

/-! ### `List.diff` under a map that is injective on the lists, and under the token ordering -/

theorem jed_map_erase_injOn {α β : Type} [DecidableEq α] [DecidableEq β] (f : α → β) (l : List α) (a : α)
    (h : ∀ x ∈ l, f x = f a → x = a) : (l.erase a).map f = (l.map f).erase (f a) := by
  induction l with
  | nil => rfl
  | cons b l ih =>
    by_cases hb : b = a
    · subst hb; simp
    · have hfb : f b ≠ f a := fun e => hb (h b List.mem_cons_self e)
      rw [List.erase_cons_tail (by simpa using hb), List.map_cons, List.map_cons,
        List.erase_cons_tail (by simpa using hfb), ih (fun x hx => h x (List.mem_cons_of_mem _ hx))]

theorem jed_map_diff_injOn {α β : Type} [DecidableEq α] [DecidableEq β] (f : α → β) (l1 l2 : List α)
    (h : ∀ x ∈ l1, ∀ y ∈ l2, f x = f y → x = y) : (l1.diff l2).map f = (l1.map f).diff (l2.map f) := by
  induction l2 generalizing l1 with
  | nil => rfl
  | cons a l2 ih =>
    rw [List.diff_cons, List.map_cons, List.diff_cons,
      ← jed_map_erase_injOn f l1 a (fun x hx => h x hx a List.mem_cons_self)]
    exact ih _ (fun x hx y hy => h x (List.mem_of_mem_erase hx) y (List.mem_cons_of_mem _ hy))

theorem jed_filterMap_eq_map {α β : Type} (f : α → Option β) (dflt : β) (l : List α)
    (h : ∀ t ∈ l, (f t).isSome) : l.filterMap f = l.map (fun t => (f t).getD dflt) := by
  induction l with
  | nil => rfl
  | cons a l ih =>
    obtain ⟨r, hr⟩ := Option.isSome_iff_exists.1 (h a List.mem_cons_self)
    rw [List.filterMap_cons_some hr, List.map_cons, hr, ih (fun t ht => h t (List.mem_cons_of_mem _ ht))]
    rfl

/-- ordering two bags whose tokens all have (injectively assigned) ranks preserves the number of unmatched
    elements -/
theorem orderUsing_diff_length (o : List (Tok × Nat))
    (hinj : ∀ t1 t2 r, Dict.get? o t1 = some r → Dict.get? o t2 = some r → t1 = t2) (a b : List Tok)
    (ha : ∀ t ∈ a, (Dict.get? o t).isSome) (hb : ∀ t ∈ b, (Dict.get? o t).isSome) :
    ((orderUsing a o).diff (orderUsing b o)).length = (a.diff b).length := by
  have hp := List.Perm.diff (orderUsing_perm a o) (orderUsing_perm b o)
  rw [hp.length_eq, jed_filterMap_eq_map _ 0 a ha, jed_filterMap_eq_map _ 0 b hb,
    ← jed_map_diff_injOn, List.length_map]
  intro x hx y hy hxy
  obtain ⟨r, hr⟩ := Option.isSome_iff_exists.1 (ha x hx)
  obtain ⟨r', hr'⟩ := Option.isSome_iff_exists.1 (hb y hy)
  simp only [hr, hr', Option.getD_some] at hxy
  subst hxy
  exact hinj x y r hr hr'

/-! ### completeness -/

theorem jed_getD_mem {α : Type} (l : List α) (i : Nat) (dflt : α) (h : i < l.length) : l.getD i dflt ∈ l := by
  rw [List.getD_eq_getElem?_getD, List.getElem?_eq_getElem h, Option.getD_some]
  exact List.getElem_mem h

theorem jed_getD_map {α β : Type} (l : List α) (f : α → β) (i : Nat) (da : α) (db : β) (h : i < l.length) :
    (l.map f).getD i db = f (l.getD i da) := by
  rw [List.getD_eq_getElem?_getD, List.getD_eq_getElem?_getD, List.getElem?_map, List.getElem?_eq_getElem h]
  rfl

theorem edOrdering_isSome_left (tok : String → List Tok) (lAttr rAttr : Nat) (ltable rtable : List Row) (c : Nat)
    (hc : c < ltable.length) :
    ∀ t ∈ tok ((ltable.getD c []).cell lAttr).strVal,
      (Dict.get? (edOrdering tok lAttr rAttr ltable rtable) t).isSome := by
  intro t ht
  exact genTokenOrdering_isSome _ _
    (List.mem_append_left _ (List.mem_map.2 ⟨ltable.getD c [], jed_getD_mem ltable c [] hc, rfl⟩)) t ht

theorem edOrdering_isSome_right (tok : String → List Tok) (lAttr rAttr : Nat) (ltable rtable : List Row) (d : Nat)
    (hd : d < rtable.length) :
    ∀ t ∈ tok ((rtable.getD d []).cell rAttr).strVal,
      (Dict.get? (edOrdering tok lAttr rAttr ltable rtable) t).isSome := by
  intro t ht
  exact genTokenOrdering_isSome _ _
    (List.mem_append_right _ (List.mem_map.2 ⟨rtable.getD d [], jed_getD_mem rtable d [] hd, rfl⟩)) t ht

/-- COMPLETENESS, core form: the hypotheses about `lev` and the tokenizer are only needed for the pair at hand -/
theorem edPairs_complete_of (tau q : Int) (compOp : String) (tok : String → List Tok) (lAttr rAttr : Nat)
    (ltable rtable : List Row) (hq0 : 0 ≤ q) (htau : 0 ≤ tau) (c d : Nat)
    (hc : c < ltable.length) (hd : d < rtable.length)
    (hlen : ((ltable.getD c []).cell lAttr).strVal.length - ((rtable.getD d []).cell rAttr).strVal.length
          ≤ lev ((ltable.getD c []).cell lAttr).strVal ((rtable.getD d []).cell rAttr).strVal ∧
        ((rtable.getD d []).cell rAttr).strVal.length - ((ltable.getD c []).cell lAttr).strVal.length
          ≤ lev ((ltable.getD c []).cell lAttr).strVal ((rtable.getD d []).cell rAttr).strVal)
    (hqg1 : ((tok ((ltable.getD c []).cell lAttr).strVal).diff (tok ((rtable.getD d []).cell rAttr).strVal)).length
        ≤ q.toNat * lev ((ltable.getD c []).cell lAttr).strVal ((rtable.getD d []).cell rAttr).strVal)
    (hqg2 : ((tok ((rtable.getD d []).cell rAttr).strVal).diff (tok ((ltable.getD c []).cell lAttr).strVal)).length
        ≤ q.toNat * lev ((ltable.getD c []).cell lAttr).strVal ((rtable.getD d []).cell rAttr).strVal)
    (hdist : (lev ((ltable.getD c []).cell lAttr).strVal ((rtable.getD d []).cell rAttr).strVal : Int) ≤ tau)
    (hcomp : Spec.qualED compOp tau ((ltable.getD c []).cell lAttr).strVal ((rtable.getD d []).cell rAttr).strVal = true)
    (hshare : Spec.shareToken tok ((ltable.getD c []).cell lAttr).strVal ((rtable.getD d []).cell rAttr).strVal = true) :
    (c, d, lev ((ltable.getD c []).cell lAttr).strVal ((rtable.getD d []).cell rAttr).strVal) ∈
      edPairs tau q compOp tok lAttr rAttr ltable rtable := by
  have hrow : rtable[d]? = some (rtable.getD d []) := by
    rw [List.getD_eq_getElem?_getD, List.getElem?_eq_getElem hd, Option.getD_some]
  rw [mem_edPairs]
  refine ⟨rtable.getD d [], hrow, ?_⟩
  rw [mem_edRow]
  generalize hL : ((ltable.getD c []).cell lAttr).strVal = L at *
  generalize hR : ((rtable.getD d []).cell rAttr).strVal = R at *
  have hqt : 0 ≤ q * tau := Int.mul_nonneg hq0 htau
  -- the bound `q · lev ≤ q·τ`
  have hk : q.toNat * lev L R ≤ (q * tau).toNat := by
    obtain ⟨qn, rfl⟩ := Int.eq_ofNat_of_zero_le hq0
    obtain ⟨tn, rfl⟩ := Int.eq_ofNat_of_zero_le htau
    have h1 : lev L R ≤ tn := by exact_mod_cast hdist
    have h2 : ((qn : Int) * (tn : Int)).toNat = qn * tn := by
      rw [← Int.natCast_mul, Int.toNat_natCast]
    rw [h2, Int.toNat_natCast]
    exact Nat.mul_le_mul_left _ h1
  refine ⟨?_, ?_, rfl, hcomp⟩
  · -- candidate
    rw [mem_edCands]
    refine ⟨hc, ?_⟩
    rw [pyTake_prefixLen_ed tau q hqt, pyTake_prefixLen_ed tau q hqt, hL, hR]
    have hsl := edOrdering_isSome_left tok lAttr rAttr ltable rtable c hc
    have hsr := edOrdering_isSome_right tok lAttr rAttr ltable rtable d hd
    rw [hL] at hsl
    rw [hR] at hsr
    have hinj : ∀ t1 t2 r, Dict.get? (edOrdering tok lAttr rAttr ltable rtable) t1 = some r →
        Dict.get? (edOrdering tok lAttr rAttr ltable rtable) t2 = some r → t1 = t2 :=
      fun t1 t2 r h1 h2 => genTokenOrdering_inj _ t1 t2 r h1 h2
    apply bag_prefix _ _ (orderUsing_sorted _ _) (orderUsing_sorted _ _)
    · rw [orderUsing_diff_length _ hinj _ _ hsr hsl]; omega
    · rw [orderUsing_diff_length _ hinj _ _ hsl hsr]; omega
    · unfold Spec.shareToken at hshare
      rw [List.any_eq_true] at hshare
      obtain ⟨g, hg1, hg2⟩ := hshare
      have hg2' : g ∈ tok R := by simpa using hg2
      obtain ⟨r, hr⟩ := Option.isSome_iff_exists.1 (hsl g hg1)
      exact ⟨r, (mem_orderUsing _ _ _).2 ⟨g, hg2', hr⟩, (mem_orderUsing _ _ _).2 ⟨g, hg1, hr⟩⟩
  · -- length filter
    rw [jed_getD_map ltable _ c [] 0 hc, hL]
    omega

/-- COMPLETE up to the documented gap (C03 second half), relative to the classical facts about q-grams and edit
    distance, taken as hypotheses here (they are proved separately in `Proofs/QGram.lean`):
    `hlen` (length difference ≤ distance), `hqg` (q-gram count lemma for this tokenizer) and `hsym`
    (symmetry of the distance, needed to use `hqg` in both directions). -/
theorem edPairs_complete (tau q : Int) (compOp : String) (tok : String → List Tok) (lAttr rAttr : Nat)
    (ltable rtable : List Row) (hq1 : 1 ≤ q) (htau : 0 ≤ tau)
    (hlen : ∀ s t : String, s.length - t.length ≤ lev s t ∧ t.length - s.length ≤ lev s t)
    (hqg : ∀ s t : String, ((tok s).diff (tok t)).length ≤ q.toNat * lev s t)
    (hsym : ∀ s t : String, lev s t = lev t s)
    (c d : Nat) (hc : c < ltable.length) (hd : d < rtable.length)
    (hdist : (lev ((ltable.getD c []).cell lAttr).strVal ((rtable.getD d []).cell rAttr).strVal : Int) ≤ tau)
    (hcomp : Spec.qualED compOp tau ((ltable.getD c []).cell lAttr).strVal ((rtable.getD d []).cell rAttr).strVal = true)
    (hshare : Spec.shareToken tok ((ltable.getD c []).cell lAttr).strVal ((rtable.getD d []).cell rAttr).strVal = true) :
    (c, d, lev ((ltable.getD c []).cell lAttr).strVal ((rtable.getD d []).cell rAttr).strVal) ∈
      edPairs tau q compOp tok lAttr rAttr ltable rtable :=
  edPairs_complete_of tau q compOp tok lAttr rAttr ltable rtable (by omega) htau c d hc hd (hlen _ _) (hqg _ _)
    (by rw [hsym]; exact hqg _ _) hdist hcomp hshare

end SSJ

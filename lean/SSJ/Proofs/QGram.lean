/-
  SSJ.Proofs.QGram — Levenshtein distance: DP = textbook recursion; the q-gram count lemma.
-/
import SSJ.Model.Strings
import Mathlib.Data.List.Basic
import Mathlib.Data.Multiset.AddSub
import Mathlib.Algebra.Order.Sub.Defs
import Mathlib.Algebra.Order.Group.Multiset
import Mathlib.Tactic.Linarith

namespace SSJ

/-- textbook recursive specification of the Levenshtein distance -/
def levSpec : List Char → List Char → Nat
  | [], t => t.length
  | s, [] => s.length
  | a :: s, b :: t => min (min (levSpec s (b :: t) + 1) (levSpec (a :: s) t + 1)) (levSpec s t + (if a = b then 0 else 1))

/-! ### (L2) basic facts about `levSpec` -/

@[simp] theorem levSpec_nil_left (t : List Char) : levSpec [] t = t.length := by
  rw [levSpec]

@[simp] theorem levSpec_nil_right (s : List Char) : levSpec s [] = s.length := by
  cases s <;> simp [levSpec]

theorem levSpec_cons_cons (a : Char) (s : List Char) (b : Char) (t : List Char) :
    levSpec (a :: s) (b :: t) =
      min (min (levSpec s (b :: t) + 1) (levSpec (a :: s) t + 1))
        (levSpec s t + (if a = b then 0 else 1)) := by
  rw [levSpec]

theorem levSpec_comm (s t : List Char) : levSpec s t = levSpec t s := by
  induction s generalizing t with
  | nil => simp
  | cons a s ihs =>
    induction t with
    | nil => simp
    | cons b t iht =>
      rw [levSpec_cons_cons, levSpec_cons_cons, ihs (b :: t), iht, ihs t]
      by_cases h : a = b
      · subst h; simp [Nat.min_comm]
      · have h' : ¬ b = a := fun e => h e.symm
        simp [h, h', Nat.min_comm]

theorem levSpec_self (s : List Char) : levSpec s s = 0 := by
  induction s with
  | nil => simp
  | cons a s ih => rw [levSpec_cons_cons, ih]; simp

theorem levSpec_length_diff (s t : List Char) :
    s.length - t.length ≤ levSpec s t ∧ t.length - s.length ≤ levSpec s t := by
  induction s generalizing t with
  | nil => simp
  | cons a s ihs =>
    induction t with
    | nil => simp
    | cons b t iht =>
      rw [levSpec_cons_cons]
      have h1 := ihs (b :: t)
      have h2 := ihs t
      simp only [List.length_cons] at *
      omega

theorem levSpec_eq_zero (s t : List Char) : levSpec s t = 0 ↔ s = t := by
  constructor
  · induction s generalizing t with
    | nil => cases t <;> simp
    | cons a s ihs =>
      cases t with
      | nil => simp
      | cons b t =>
        rw [levSpec_cons_cons]
        intro h
        have h3 : levSpec s t + (if a = b then 0 else 1) = 0 := by omega
        by_cases hab : a = b
        · subst hab
          simp only [if_true, Nat.add_zero] at h3
          rw [ihs t h3]
        · simp [hab] at h3
  · rintro rfl; exact levSpec_self s

/-! ### general facts about `List.diff` -/

theorem beq_inst_eq {α : Type} [DecidableEq α] (inst : BEq α) [LawfulBEq α] :
    inst = instBEqOfDecidableEq := by
  have key : ∀ a b : α, @BEq.beq α inst a b = decide (a = b) := by
    intro a b
    by_cases h : a = b
    · subst h; simp
    · simp [h]
  cases inst with
  | mk beq =>
    congr
    funext a b
    exact key a b

section Diff
variable {α : Type} [BEq α] [LawfulBEq α]

/-- triangle inequality for bag difference -/
theorem diff_length_triangle (l₁ l₂ l₃ : List α) :
    (l₁.diff l₃).length ≤ (l₁.diff l₂).length + (l₂.diff l₃).length := by
  classical
  obtain rfl := beq_inst_eq (α := α) ‹BEq α›
  have h : ((l₁ : Multiset α) - l₃) ≤ ((l₁ : Multiset α) - l₂) + ((l₂ : Multiset α) - l₃) :=
    tsub_le_tsub_add_tsub
  have := Multiset.card_le_card h
  simpa [Multiset.coe_sub] using this

/-- common parts do not count -/
theorem diff_length_frame (A B B' C : List α) :
    ((A ++ B ++ C).diff (A ++ B' ++ C)).length ≤ B.length := by
  classical
  obtain rfl := beq_inst_eq (α := α) ‹BEq α›
  have h : (((A ++ B ++ C : List α) : Multiset α) - ((A ++ B' ++ C : List α) : Multiset α))
      ≤ (B : Multiset α) := by
    rw [tsub_le_iff_right]
    simp only [Multiset.coe_add]
    rw [Multiset.coe_le]
    have : (A ++ B ++ C).Perm (B ++ (A ++ C)) := by
      simpa using (List.perm_append_comm (l₁ := A) (l₂ := B)).append_right C
    refine this.subperm.trans ?_
    refine List.Sublist.subperm ?_
    simp
  have := Multiset.card_le_card h
  simpa [Multiset.coe_sub] using this

theorem diff_self_length (l : List α) : (l.diff l).length = 0 := by
  have := diff_length_frame l [] [] []
  simpa using this

end Diff

/-! ### `windows` -/

section Windows
variable {α : Type}

theorem windows_cons (q : Nat) (a : α) (l : List α) :
    windows q (a :: l) =
      if (a :: l).length < q then [] else (a :: l).take q :: windows q l := by
  rw [windows]

theorem windows_of_length_lt {q : Nat} {l : List α} (h : l.length < q) : windows q l = [] := by
  cases l with
  | nil => rfl
  | cons a l => rw [windows_cons, if_pos h]

theorem windows_length_le {q : Nat} (_hq : 1 ≤ q) (l : List α) :
    (windows q l).length ≤ l.length + 1 - q := by
  induction l with
  | nil => simp [windows]
  | cons a l ih =>
    rw [windows_cons]
    split
    · simp
    · simp only [List.length_cons] at *
      omega

/-- windows of `x ++ z` = those starting inside `x` (they see at most `q-1` chars of `z`) ++ windows of `z` -/
theorem windows_append_left {q : Nat} (hq : 1 ≤ q) (x z : List α) :
    windows q (x ++ z) = windows q (x ++ z.take (q - 1)) ++ windows q z := by
  induction x with
  | nil =>
    have : (z.take (q - 1)).length < q := by
      rw [List.length_take]; omega
    simp [windows_of_length_lt this]
  | cons a x ih =>
    rw [List.cons_append, List.cons_append, windows_cons, windows_cons]
    by_cases h : (a :: (x ++ z)).length < q
    · have h1 : (a :: (x ++ z.take (q - 1))).length < q := by
        simp only [List.length_cons, List.length_append, List.length_take] at *
        omega
      have h2 : z.length < q := by
        simp only [List.length_cons, List.length_append] at h
        omega
      rw [if_pos h, if_pos h1, windows_of_length_lt h2]; rfl
    · have h1 : ¬ (a :: (x ++ z.take (q - 1))).length < q := by
        simp only [List.length_cons, List.length_append, List.length_take] at *
        omega
      rw [if_neg h, if_neg h1, ih, List.cons_append]
      congr 1
      obtain ⟨k, rfl⟩ : ∃ k, q = k + 1 := ⟨q - 1, by omega⟩
      simp only [List.take_succ_cons, Nat.add_sub_cancel]
      congr 1
      rw [List.take_append, List.take_append, List.take_take]
      congr 2
      omega

/-- windows of `z ++ y` = windows of `z` ++ those that touch `y` (they see at most `q-1` chars of `z`) -/
theorem windows_append_right {q : Nat} (hq : 1 ≤ q) (z y : List α) :
    windows q (z ++ y) = windows q z ++ windows q (z.drop (z.length - (q - 1)) ++ y) := by
  induction z with
  | nil => simp [windows]
  | cons a z ih =>
    by_cases h : (a :: z).length < q
    · have : (a :: z).length - (q - 1) = 0 := by omega
      rw [this, windows_of_length_lt h]; rfl
    · have h0 : ¬ (a :: (z ++ y)).length < q := by
        simp only [List.length_cons, List.length_append] at *
        omega
      rw [List.cons_append, windows_cons, windows_cons, if_neg h, if_neg h0, ih, List.cons_append]
      have e1 : (a :: z).length - (q - 1) = (z.length - (q - 1)) + 1 := by
        simp only [List.length_cons] at *
        omega
      rw [e1, List.drop_succ_cons]
      congr 1
      have : q ≤ (a :: z).length := by omega
      rw [← List.cons_append, List.take_append_of_le_length this]

theorem windows_sandwich {q : Nat} (hq : 1 ≤ q) (x m y : List α) :
    windows q (x ++ m ++ y) =
      windows q x ++ windows q (x.drop (x.length - (q - 1)) ++ m ++ y.take (q - 1)) ++ windows q y := by
  rw [List.append_assoc x m y, windows_append_right hq x (m ++ y), ← List.append_assoc,
    windows_append_left hq _ y, List.append_assoc (windows q x)]

theorem windows_sandwich_length {q : Nat} (hq : 1 ≤ q) (x m y : List α) :
    (windows q (x.drop (x.length - (q - 1)) ++ m ++ y.take (q - 1))).length ≤ m.length + q - 1 := by
  refine (windows_length_le hq _).trans ?_
  simp only [List.length_append, List.length_drop, List.length_take]
  omega

/-- replacing an infix `m` by `m'` destroys at most `|m| + q - 1` windows -/
theorem windows_diff_replace [BEq α] [LawfulBEq α] {q : Nat} (hq : 1 ≤ q) (x m m' y : List α) :
    ((windows q (x ++ m ++ y)).diff (windows q (x ++ m' ++ y))).length ≤ m.length + q - 1 := by
  rw [windows_sandwich hq x m y, windows_sandwich hq x m' y]
  exact (diff_length_frame _ _ _ _).trans (windows_sandwich_length hq x m y)

/-- the single-step bound -/
theorem windows_diff_step [BEq α] [LawfulBEq α] {q : Nat} (hq : 1 ≤ q) (x m m' y : List α)
    (hm : m.length ≤ 1) :
    ((windows q (x ++ m ++ y)).diff (windows q (x ++ m' ++ y))).length ≤ q := by
  have := windows_diff_replace hq x m m' y
  omega

end Windows

/-! ### (L3) the q-gram count lemma -/

theorem le_mul_min3 {n q a b c : Nat} (h1 : n ≤ q * a) (h2 : n ≤ q * b) (h3 : n ≤ q * c) :
    n ≤ q * min (min a b) c := by
  simp only [Nat.min_def]
  split_ifs <;> assumption

/-- generalised count lemma: edits inside an arbitrary frame `x ++ · ++ y` -/
theorem windows_diff_levSpec {q : Nat} (hq : 1 ≤ q) (s t x y : List Char) :
    ((windows q (x ++ s ++ y)).diff (windows q (x ++ t ++ y))).length ≤ q * levSpec s t := by
  induction s generalizing t x with
  | nil =>
    cases t with
    | nil => simp [diff_self_length]
    | cons b t =>
      have h := windows_diff_replace hq x [] (b :: t) y
      simp only [List.length_nil, levSpec_nil_left, List.length_cons] at *
      calc _ ≤ 0 + q - 1 := h
        _ ≤ q * 1 := by omega
        _ ≤ q * (t.length + 1) := Nat.mul_le_mul_left q (by omega)
  | cons a s ihs =>
    induction t generalizing x with
    | nil =>
      have h := windows_diff_replace hq x (a :: s) [] y
      simp only [levSpec_nil_right, List.length_cons] at *
      calc _ ≤ s.length + 1 + q - 1 := h
        _ = q + s.length := by omega
        _ ≤ q + q * s.length := Nat.add_le_add_left (Nat.le_mul_of_pos_left _ hq) _
        _ = q * (s.length + 1) := by rw [Nat.mul_succ, Nat.add_comm]
    | cons b t iht =>
      rw [levSpec_cons_cons]
      -- the three possible last operations
      have del : ((windows q (x ++ a :: s ++ y)).diff (windows q (x ++ b :: t ++ y))).length
          ≤ q * (levSpec s (b :: t) + 1) := by
        have h1 := windows_diff_step hq x [a] [] (s ++ y) (by simp)
        have h2 := ihs (b :: t) x
        have h3 := diff_length_triangle (windows q (x ++ a :: s ++ y)) (windows q (x ++ s ++ y))
          (windows q (x ++ b :: t ++ y))
        simp only [List.append_assoc, List.cons_append, List.nil_append, Nat.mul_succ] at *
        omega
      have ins : ((windows q (x ++ a :: s ++ y)).diff (windows q (x ++ b :: t ++ y))).length
          ≤ q * (levSpec (a :: s) t + 1) := by
        have h1 := windows_diff_step hq x [] [b] (a :: s ++ y) (by simp)
        have h2 := iht (x ++ [b])
        have h3 := diff_length_triangle (windows q (x ++ a :: s ++ y))
          (windows q (x ++ b :: a :: s ++ y)) (windows q (x ++ b :: t ++ y))
        simp only [List.append_assoc, List.cons_append, List.nil_append, Nat.mul_succ] at *
        omega
      have sub : ((windows q (x ++ a :: s ++ y)).diff (windows q (x ++ b :: t ++ y))).length
          ≤ q * (levSpec s t + (if a = b then 0 else 1)) := by
        have h2 := ihs t (x ++ [b])
        by_cases hab : a = b
        · subst hab
          simp only [List.append_assoc, List.cons_append, List.nil_append, if_true,
            Nat.add_zero] at *
          exact h2
        · have h1 := windows_diff_step hq x [a] [b] (s ++ y) (by simp)
          have h3 := diff_length_triangle (windows q (x ++ a :: s ++ y))
            (windows q (x ++ b :: s ++ y)) (windows q (x ++ b :: t ++ y))
          simp only [List.append_assoc, List.cons_append, List.nil_append, Nat.mul_succ,
            if_neg hab] at *
          omega
      exact le_mul_min3 del ins sub

/-- (L3) Q-GRAM COUNT LEMMA -/
theorem qgram_count (q : Nat) (pad : Bool) (s t : List Char) :
    ((qgramsChars q pad s).diff (qgramsChars q pad t)).length ≤ q * levSpec s t := by
  unfold qgramsChars
  by_cases hq : q = 0
  · subst hq; simp
  · have hq1 : 1 ≤ q := by omega
    simp only [if_neg hq]
    cases pad with
    | true =>
      simp only [if_true]
      exact windows_diff_levSpec hq1 s t _ _
    | false =>
      have := windows_diff_levSpec hq1 s t [] []
      simpa using this

/-! ### alignments: `levSpec` is invariant under reversal -/

/-- `Align s t n`: there is an alignment (edit script, left to right) of `s` and `t` of cost `n` -/
inductive Align : List Char → List Char → Nat → Prop
  | nil : Align [] [] 0
  | del (a : Char) {s t : List Char} {n : Nat} : Align s t n → Align (a :: s) t (n + 1)
  | ins (b : Char) {s t : List Char} {n : Nat} : Align s t n → Align s (b :: t) (n + 1)
  | sub (a b : Char) {s t : List Char} {n : Nat} :
      Align s t n → Align (a :: s) (b :: t) (n + (if a = b then 0 else 1))

theorem Align.of_eq {s t : List Char} {n m : Nat} (h : Align s t n) (e : n = m) : Align s t m :=
  e ▸ h

theorem align_nil_left (t : List Char) : Align [] t t.length := by
  induction t with
  | nil => exact .nil
  | cons b t ih => exact .ins b ih

theorem align_nil_right (s : List Char) : Align s [] s.length := by
  induction s with
  | nil => exact .nil
  | cons a s ih => exact .del a ih

theorem align_levSpec (s t : List Char) : Align s t (levSpec s t) := by
  induction s generalizing t with
  | nil => simpa using align_nil_left t
  | cons a s ihs =>
    induction t with
    | nil => simpa using align_nil_right (a :: s)
    | cons b t iht =>
      rw [levSpec_cons_cons]
      have h1 := Align.del a (ihs (b :: t))
      have h2 := Align.ins b iht
      have h3 := Align.sub a b (ihs t)
      generalize (if a = b then 0 else 1) = c at *
      simp only [Nat.min_def]
      split_ifs <;> assumption

theorem levSpec_cons_left_le (a : Char) (s t : List Char) : levSpec (a :: s) t ≤ levSpec s t + 1 := by
  cases t with
  | nil => simp
  | cons b t => rw [levSpec_cons_cons]; omega

theorem levSpec_cons_right_le (b : Char) (s t : List Char) : levSpec s (b :: t) ≤ levSpec s t + 1 := by
  cases s with
  | nil => simp
  | cons a s => rw [levSpec_cons_cons]; omega

theorem levSpec_le_of_align {s t : List Char} {n : Nat} (h : Align s t n) : levSpec s t ≤ n := by
  induction h with
  | nil => simp
  | del a _ ih => exact (levSpec_cons_left_le a _ _).trans (by omega)
  | ins b _ ih => exact (levSpec_cons_right_le b _ _).trans (by omega)
  | sub a b _ ih => rw [levSpec_cons_cons]; omega

theorem Align.snoc_del (a : Char) {s t : List Char} {n : Nat} (h : Align s t n) :
    Align (s ++ [a]) t (n + 1) := by
  induction h with
  | nil => exact .del a .nil
  | del c _ ih => exact .del c ih
  | ins c _ ih => exact .ins c ih
  | sub c d _ ih => exact (Align.sub c d ih).of_eq (by omega)

theorem Align.snoc_ins (b : Char) {s t : List Char} {n : Nat} (h : Align s t n) :
    Align s (t ++ [b]) (n + 1) := by
  induction h with
  | nil => exact .ins b .nil
  | del c _ ih => exact .del c ih
  | ins c _ ih => exact .ins c ih
  | sub c d _ ih => exact (Align.sub c d ih).of_eq (by omega)

theorem Align.snoc_sub (a b : Char) {s t : List Char} {n : Nat} (h : Align s t n) :
    Align (s ++ [a]) (t ++ [b]) (n + (if a = b then 0 else 1)) := by
  induction h with
  | nil => exact (Align.sub a b .nil).of_eq (by omega)
  | del c _ ih => exact (Align.del c ih).of_eq (by omega)
  | ins c _ ih => exact (Align.ins c ih).of_eq (by omega)
  | sub c d _ ih => exact (Align.sub c d ih).of_eq (by omega)

theorem Align.reverse {s t : List Char} {n : Nat} (h : Align s t n) :
    Align s.reverse t.reverse n := by
  induction h with
  | nil => exact .nil
  | del a _ ih => rw [List.reverse_cons]; exact ih.snoc_del a
  | ins b _ ih => rw [List.reverse_cons]; exact ih.snoc_ins b
  | sub a b _ ih => rw [List.reverse_cons, List.reverse_cons]; exact ih.snoc_sub a b

theorem levSpec_reverse (s t : List Char) : levSpec s.reverse t.reverse = levSpec s t := by
  apply Nat.le_antisymm
  · exact levSpec_le_of_align (align_levSpec s t).reverse
  · have := levSpec_le_of_align (align_levSpec s.reverse t.reverse).reverse
    simpa using this

/-- the recursion on the LAST characters (the one the dynamic program uses) -/
theorem levSpec_snoc_snoc (s : List Char) (a : Char) (t : List Char) (b : Char) :
    levSpec (s ++ [a]) (t ++ [b]) =
      min (min (levSpec s (t ++ [b]) + 1) (levSpec (s ++ [a]) t + 1))
        (levSpec s t + (if a = b then 0 else 1)) := by
  have h := levSpec_cons_cons a s.reverse b t.reverse
  have e1 := levSpec_reverse (s ++ [a]) (t ++ [b])
  have e2 := levSpec_reverse s (t ++ [b])
  have e3 := levSpec_reverse (s ++ [a]) t
  have e4 := levSpec_reverse s t
  simp only [List.reverse_append, List.reverse_cons, List.reverse_nil, List.nil_append,
    List.singleton_append] at e1 e2 e3
  rw [← e1, ← e2, ← e3, ← e4]
  exact h

/-! ### (L1) the dynamic program computes `levSpec` -/

/-- the row `[f pre, f (pre ++ t.take 1), …, f (pre ++ t)]` -/
def rowFrom (f : List Char → Nat) : List Char → List Char → List Nat
  | pre, [] => [f pre]
  | pre, c :: t => f pre :: rowFrom f (pre ++ [c]) t

theorem rowFrom_eq_cons_tail (f : List Char → Nat) (pre t : List Char) :
    rowFrom f pre t = f pre :: (rowFrom f pre t).tail := by
  cases t <;> simp [rowFrom]

theorem rowFrom_getLastD (f : List Char → Nat) (pre t : List Char) (d : Nat) :
    (rowFrom f pre t).getLastD d = f (pre ++ t) := by
  induction t generalizing pre d with
  | nil => simp [rowFrom]
  | cons c t ih =>
    rw [rowFrom, List.getLastD_cons, ih]
    simp

theorem range'_eq_rowFrom (pre t : List Char) :
    List.range' pre.length (t.length + 1) = rowFrom List.length pre t := by
  induction t generalizing pre with
  | nil => simp [rowFrom]
  | cons c t ih =>
    rw [rowFrom, ← ih]
    simp [List.range'_succ]

theorem levRow_go_spec (a : Char) (s₁ : List Char) (t₂ pre : List Char) (acc : List Nat) :
    levRow.go a (levSpec (s₁ ++ [a]) pre) (levSpec s₁ pre)
        (rowFrom (levSpec s₁) pre t₂).tail t₂ acc
      = acc ++ (rowFrom (levSpec (s₁ ++ [a])) pre t₂).tail := by
  induction t₂ generalizing pre acc with
  | nil => simp [rowFrom, levRow.go]
  | cons c t ih =>
    simp only [rowFrom, List.tail_cons]
    rw [rowFrom_eq_cons_tail (levSpec s₁), rowFrom_eq_cons_tail (levSpec (s₁ ++ [a]))]
    rw [levRow.go]
    rw [← levSpec_snoc_snoc, ih]
    simp

theorem levRow_spec (a : Char) (s₁ t : List Char) :
    levRow a (rowFrom (levSpec s₁) [] t) t = rowFrom (levSpec (s₁ ++ [a])) [] t := by
  rw [rowFrom_eq_cons_tail (levSpec s₁), rowFrom_eq_cons_tail (levSpec (s₁ ++ [a]))]
  simp only [levRow]
  have := levRow_go_spec a s₁ t [] [levSpec s₁ [] + 1]
  simp only [levSpec_nil_right, List.length_append, List.length_singleton, List.singleton_append]
    at this ⊢
  exact this

theorem foldl_levRow_spec (s₂ s₁ t : List Char) :
    s₂.foldl (fun row a => levRow a row t) (rowFrom (levSpec s₁) [] t)
      = rowFrom (levSpec (s₁ ++ s₂)) [] t := by
  induction s₂ generalizing s₁ with
  | nil => simp
  | cons a s ih =>
    rw [List.foldl_cons, levRow_spec, ih]
    simp

/-- (L1) the dynamic program computes the specification -/
theorem levChars_eq_levSpec (s t : List Char) : levChars s t = levSpec s t := by
  unfold levChars
  have h0 : List.range (t.length + 1) = rowFrom (levSpec []) [] t := by
    rw [List.range_eq_range']
    have := range'_eq_rowFrom [] t
    simp only [List.length_nil] at this
    rw [this]
    congr 1
    funext p
    simp
  simp only [h0]
  rw [foldl_levRow_spec, rowFrom_getLastD]
  simp

/-! ### corollaries on the `String` level -/

theorem lev_eq_levSpec (s t : String) : lev s t = levSpec s.toList t.toList :=
  levChars_eq_levSpec _ _

theorem lev_comm (s t : String) : lev s t = lev t s := by
  rw [lev_eq_levSpec, lev_eq_levSpec, levSpec_comm]

theorem lev_self (s : String) : lev s s = 0 := by
  rw [lev_eq_levSpec, levSpec_self]

theorem lev_eq_zero (s t : String) : lev s t = 0 ↔ s = t := by
  rw [lev_eq_levSpec, levSpec_eq_zero, String.toList_inj]

theorem lev_length_diff (s t : String) :
    s.length - t.length ≤ lev s t ∧ t.length - s.length ≤ lev s t := by
  rw [lev_eq_levSpec, ← String.length_toList, ← String.length_toList]
  exact levSpec_length_diff _ _

theorem ofList_injective : Function.Injective String.ofList :=
  fun _ _ h => String.ofList_injective h

theorem qgrams_diff_le (q : Nat) (pad : Bool) (s t : String) :
    ((qgrams q pad s).diff (qgrams q pad t)).length ≤ q * lev s t := by
  unfold qgrams
  rw [← List.map_diff ofList_injective, List.length_map, lev_eq_levSpec]
  exact qgram_count q pad _ _

/-- symmetric form: both bag differences are bounded by the same `q * lev s t` -/
theorem qgrams_diff_le' (q : Nat) (pad : Bool) (s t : String) :
    ((qgrams q pad t).diff (qgrams q pad s)).length ≤ q * lev s t := by
  rw [lev_comm]; exact qgrams_diff_le q pad t s

end SSJ

section AxiomCheck
open SSJ
#print axioms levChars_eq_levSpec
#print axioms levSpec_comm
#print axioms levSpec_self
#print axioms levSpec_length_diff
#print axioms levSpec_eq_zero
#print axioms qgram_count
#print axioms lev_length_diff
#print axioms qgrams_diff_le
#print axioms qgrams_diff_le'
#print axioms lev_comm
#print axioms lev_eq_zero
end AxiomCheck

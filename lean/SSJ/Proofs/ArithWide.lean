/-
  SSJ.Proofs.ArithWide — the arithmetic core of C01 (`Proofs/Arith.lean`: `bounds_of_qual_core` for float
  thresholds `2⁻²⁰ ≤ t ≤ 1`) extended to the remaining threshold values of "every threshold in (0, 1]":

  G1  the threshold `1` given as a Python INT (`cfgInt1 m`, `threshold := .int 1`).  All four generated functions
      are computed explicitly (`lowerV_int1 = n`, `upperV_int1 = n`, `prefixV_int1 = 1`, `ovThrV_int1`), and they
      coincide with the float threshold `1.0` on sizes `< 2³²` (`int1_eq_float1`); hence `gen_noErr_int_one`,
      `bounds_of_qual_int_one`.

  G2  small float thresholds: `bounds_of_qual_core_small`, `gen_noErr_wide`, `prefixLen_eqW` for
      `thrLo m ≤ t ≤ 1` (`ThrWide m t`) where `thrLo = 2⁻⁹⁸⁹` (JACCARD, DICE) and `2⁻⁴⁹⁵` (COSINE), sizes `< 2³²`.
      What limits the range is binary64 OVERFLOW of the size upper bound, not the error analysis:
        * `n / t`, `((2 - t) / t) * n`, `n / (t * t)` must stay below `2¹⁰²⁴`; with `n` up to `2³² − 1` the
          generated code really fails (Python: `OverflowError` in `floor(inf)`; model: `err overflow`, `errAt = true`,
          integer view `upper = 0`) from `t = 2⁻⁹⁹³` (JACCARD), `2⁻⁹⁹²` (DICE), `2⁻⁴⁹⁷` (COSINE) on; the proved limits
          `2⁻⁹⁸⁹ / 2⁻⁴⁹⁵` leave the factor-2 slack of the crude range lemmas (`rn x ≤ 2x`).
          `cosine_overflow_at_500` proves the failure for COSINE, `t = 2⁻⁵⁰⁰`, `n = 2²⁴`
          (so the conclusion of `bounds_of_qual_core` is FALSE there: `k ≤ upper n = 0`).
        * every intermediate stays in the normal range (`≥ 2⁻¹⁰²²`, needed by `F64Laws.rn_rel_err`) for these `t`:
          the smallest are `t·t ≥ 2⁻⁹⁹⁰`, `t/2`, `t/rn(1+t)`, `t/rn(2−t) ≥ 2⁻⁹⁹⁰`.
        * the lemma `round4_floor_ge'` (floor of a rounded huge quotient is `≥ k`) has no upper limit on the
          quotient, so the upper-bound side needs nothing new.
      The real-number lemmas are copies of those of `Arith` with `ThrOK` replaced by `TW` / `TWc`; only the steps that
      used `2⁻²⁰ ≤ t` to stay above `2⁻¹⁰⁰` change (now: above `τ = 2⁻¹⁰²²`).  `jac_sim`, `dice_sim` are reused.

  G3  `bounds_of_qual_wide`, `gen_noErr_wide'`, `bounds_self_wide`, `boundsFacts_wide`: every covered threshold
      VALUE (`WideThr m th`: a float in `[thrLo m, 1]` or the int `1`), configuration `cfgWith m th`.

  Not covered: `0 < t < thrLo m` (the generated code overflows there for large sizes, see above; for sizes bounded
  by `N` the limit would scale to about `N / 2¹⁰²⁴`, and below `2⁻¹⁰²²` the products become subnormal, for which
  `F64Laws` has no error law); int thresholds other than `1` (`0` is rejected by validation).
  Helper lemmas live in `SSJ.Wide`.  Numerals up to `2¹⁰²⁴` are evaluated by `norm_num`
  (`exponentiation.threshold` raised for this file).
-/
import SSJ.Proofs.Arith
import SSJ.Proofs.Bounds

namespace SSJ
open F64

set_option exponentiation.threshold 1100

/-! # G1 — the int threshold `1` -/

def cfgInt1 (m : Measure) : FCfg := { measure := m, threshold := .int 1, qval := .none }

theorem thrOK_one : ThrOK 1 := ⟨by norm_num, le_refl _⟩

namespace Wide

theorem div_ii (i j : Int) (hj : j ≠ 0) {q : Rat} (h : PyV.ofExact ((i : Rat) / (j : Rat)) = .float q) :
    PyV.div (.int i) (.int j) = .float q := by
  unfold PyV.div
  split <;> simp_all
theorem rn_one_eq : rn 1 = 1 := by simpa using rn_int 1 (by norm_num)
theorem rn_two : rn 2 = 2 := by simpa using rn_int 2 (by norm_num)
theorem rn_nat {n : Nat} (h : (n:Rat) ≤ 2^53) : rn (n:Rat) = n := by
  have := rn_int (n:Int) (by push_cast; rw [abs_of_nonneg (by positivity)]; exact h)
  simpa using this
theorem round4_nat {n : Nat} (h : (n:Rat) ≤ 2^32) : round4 (n:Rat) = n := by
  rw [round4_eq]
  have e : ((n:Rat) * 10000) = (((n*10000 : Nat) : Int) : Rat) := by push_cast; ring
  rw [e, rhe_int]
  have e2 : ((((n*10000 : Nat) : Int) : Rat)) / 10000 = n := by push_cast; field_simp
  rw [e2, rn_nat (by linarith [show (2:Rat)^32 ≤ 2^53 by norm_num])]

theorem div_n1 (n : Nat) (hn : (n : Rat) ≤ 2 ^ 53) : PyV.div (.int (n : Int)) (.int 1) = .float n := by
  apply div_ii _ _ (by norm_num)
  rw [ofExact_float (by positivity) (by push_cast; linarith [show (2:Rat)^53 ≤ 2^100 by norm_num])]
  push_cast; rw [div_one, rn_nat hn]
theorem div_11 : PyV.div (.int 1) (.int 1) = .float 1 := by
  have := div_n1 1 (by norm_num); simpa using this
theorem div_12 : PyV.div (.int 1) (.int 2) = .float (rn (1 / 2)) := by
  apply div_ii _ _ (by norm_num)
  rw [ofExact_float (by norm_num) (by norm_num)]
  norm_num
/-- the float expression after the integer prefix: `1.0 * n`, rounded to 4 places -/
theorem one_mul_n_round (n : Nat) (hn : n < 2 ^ 32) :
    PyV.round (PyV.mul (.float 1) (.int (n : Int))) (.int 4) = .float n := by
  have hn' := natCast_le_of_lt hn
  have hn53 : (n : Rat) ≤ 2 ^ 53 := by linarith
  rw [mul_fn _ _ hn53, one_mul, ofExact_float (by positivity) (by linarith), rn_nat hn53, round4_f, round4_nat hn']

theorem ceil_fn (n : Nat) : PyV.ceil (.float (n : Rat)) = .int n := by
  have := Rat.ceil_intCast (n : Int)
  simp only [PyV.ceil]; congr 1
theorem floor_fn (n : Nat) : PyV.floor (.float (n : Rat)) = .int n := by
  have := Rat.floor_intCast (n : Int)
  simp only [PyV.floor]; congr 1


theorem lowF_one (m : Measure) (hm : SetMeasure m) (n : Nat) (hn : n < 2 ^ 32) : lowF m 1 n = n := by
  have hn53 : (n : Rat) ≤ 2 ^ 53 := by linarith [natCast_le_of_lt hn, show (2:Rat)^32 ≤ 2^53 by norm_num]
  rcases hm with rfl | rfl | rfl <;> simp only [lowF]
  · rw [one_mul, rn_nat hn53]
  · rw [one_mul, rn_one_eq, one_mul, rn_nat hn53]
  · rw [show (2:Rat) - 1 = 1 by norm_num, rn_one_eq, div_one, rn_one_eq, one_mul, rn_nat hn53]

theorem upF_one (m : Measure) (hm : SetMeasure m) (n : Nat) (hn : n < 2 ^ 32) : upF m 1 n = n := by
  have hn53 : (n : Rat) ≤ 2 ^ 53 := by linarith [natCast_le_of_lt hn, show (2:Rat)^32 ≤ 2^53 by norm_num]
  rcases hm with rfl | rfl | rfl <;> simp only [upF]
  · rw [div_one, rn_nat hn53]
  · rw [one_mul, rn_one_eq, div_one, rn_nat hn53]
  · rw [show (2:Rat) - 1 = 1 by norm_num, rn_one_eq, div_one, rn_one_eq, one_mul, rn_nat hn53]

theorem ceil_nat (n : Nat) : (n : Rat).ceil = n := Rat.ceil_intCast (n : Int)
theorem floor_nat (n : Nat) : (n : Rat).floor = n := Rat.floor_intCast (n : Int)


end Wide
open Wide

theorem lowerV_int1 (m : Measure) (hm : SetMeasure m) (n : Nat) (hn : n < 2 ^ 32) :
    (cfgInt1 m).lowerV n = .int n := by
  rcases hm with rfl | rfl | rfl
  · show PyV.int (1 * (n : Int)) = _
    rw [one_mul]
  · show PyV.int (1 * 1 * (n : Int)) = _
    rw [one_mul, one_mul]
  · simp only [FCfg.lowerV, cfgInt1, Measure.name, Gen.get_size_lower_bound, eqb_str]
    simp only [String.reduceBEq, Bool.false_eq_true, ↓reduceIte]
    rw [show PyV.sub (.int 2) (.int 1) = .int 1 from rfl, div_11, one_mul_n_round n hn, ceil_fn]
    rfl

theorem upperV_int1 (m : Measure) (hm : SetMeasure m) (n : Nat) (hn : n < 2 ^ 32) :
    (cfgInt1 m).upperV n = .int n := by
  have hn' := natCast_le_of_lt hn
  have hn53 : (n : Rat) ≤ 2 ^ 53 := by linarith
  rcases hm with rfl | rfl | rfl
  · simp only [FCfg.upperV, cfgInt1, Measure.name, Gen.get_size_upper_bound, eqb_str]
    simp only [String.reduceBEq, Bool.false_eq_true, ↓reduceIte]
    rw [div_n1 n hn53, round4_f, round4_nat hn', floor_fn]; rfl
  · simp only [FCfg.upperV, cfgInt1, Measure.name, Gen.get_size_upper_bound, eqb_str]
    simp only [String.reduceBEq, ↓reduceIte]
    rw [show PyV.mul (.int 1) (.int 1) = .int 1 from rfl, div_n1 n hn53, round4_f, round4_nat hn', floor_fn]; rfl
  · simp only [FCfg.upperV, cfgInt1, Measure.name, Gen.get_size_upper_bound, eqb_str]
    simp only [String.reduceBEq, Bool.false_eq_true, ↓reduceIte]
    rw [show PyV.sub (.int 2) (.int 1) = .int 1 from rfl, div_11, one_mul_n_round n hn, floor_fn]
    rfl

theorem prefixV_int1 (m : Measure) (hm : SetMeasure m) (n : Nat) (hn : n < 2 ^ 32) :
    (cfgInt1 m).prefixV n = if n = 0 then .int 0 else .int 1 := by
  by_cases hz : n = 0
  · subst hz
    rcases hm with rfl | rfl | rfl <;>
      simp [FCfg.prefixV, Gen.get_prefix_length, PyV.eqb, PyV.numVal?]
  rw [if_neg hz]
  rcases hm with rfl | rfl | rfl
  · simp only [FCfg.prefixV, cfgInt1, Measure.name, Gen.get_prefix_length, eqb_str, eqb_int0]
    simp only [hz, decide_false, String.reduceBEq, Bool.false_eq_true, ↓reduceIte]
    show PyV.int ((n : Int) - 1 * n + 1) = _
    congr 1; omega
  · simp only [FCfg.prefixV, cfgInt1, Measure.name, Gen.get_prefix_length, eqb_str, eqb_int0]
    simp only [hz, decide_false, String.reduceBEq, Bool.false_eq_true, ↓reduceIte]
    show PyV.int ((n : Int) - 1 * 1 * n + 1) = _
    congr 1; omega
  · simp only [FCfg.prefixV, cfgInt1, Measure.name, Gen.get_prefix_length, eqb_str, eqb_int0]
    simp only [hz, decide_false, String.reduceBEq, Bool.false_eq_true, ↓reduceIte]
    rw [show PyV.sub (.int 2) (.int 1) = .int 1 from rfl, div_11, one_mul_n_round n hn, ceil_fn]
    show PyV.int ((n : Int) - n + 1) = _
    congr 1; omega

theorem ovThrV_int1 (m : Measure) (hm : SetMeasure m) (l r : Nat) (hl : l < 2 ^ 32) (hr : r < 2 ^ 32) :
    (cfgInt1 m).ovThrV l r = .int (round4 (ovF m 1 l r)).ceil := by
  have hl' := natCast_le_of_lt hl
  have hr' := natCast_le_of_lt hr
  have hl0 : (0:Rat) ≤ l := by positivity
  have hr0 : (0:Rat) ≤ r := by positivity
  have hlr : ((l : Int) + (r : Int)) = ((l + r : Nat) : Int) := by push_cast; rfl
  have hlr53 : ((l + r : Nat) : Rat) ≤ 2 ^ 53 := by push_cast; linarith
  have hh0 : (0:Rat) ≤ rn (1 / 2) := rn_nonneg (by norm_num)
  have hh1 : rn (1 / 2 : Rat) ≤ 1 := rn_le_one (by norm_num) (by norm_num)
  rcases hm with rfl | rfl | rfl
  · simp only [FCfg.ovThrV, cfgInt1, Measure.name, Gen.get_overlap_threshold, eqb_str, ovF]
    simp only [String.reduceBEq, Bool.false_eq_true, ↓reduceIte]
    rw [show PyV.add (.int 1) (.int 1) = .int 2 from rfl, div_12,
      show PyV.add (.int (l : Int)) (.int (r : Int)) = .int ((l + r : Nat) : Int) by rw [← hlr]; rfl,
      mul_fn _ _ hlr53, ofExact_float (by positivity) (by push_cast; nlinarith), round4_f,
      show (1:Rat) + 1 = 2 by norm_num, rn_two]
    push_cast
    rfl
  · -- `1 * sqrt(l*r)`: the int `1` is converted to `1.0`, the product is rounded once (exactly as for `1.0`)
    have hlr64 : (l : Rat) * r ≤ 2 ^ 64 := by nlinarith
    have hP0 : (0 : Rat) ≤ l * r := by positivity
    have hP : rn ((l : Rat) * r) ≤ 2 ^ 66 := by
      by_cases hz : (l : Rat) * r ≤ 1
      · linarith [rn_le_one hP0 hz]
      · have := rn_le_twice (x := (l : Rat) * r) (by linarith [show (1:Rat) / 2 ^ 100 ≤ 1 by norm_num])
        linarith
    have hPn := rn_nonneg hP0
    have hF : fsqrt (rn ((l : Rat) * r)) ≤ 2 ^ 34 := by
      apply fsqrt_le_of_le hPn (by positivity)
      nlinarith
    have hF0 := fsqrt_nonneg (rn ((l : Rat) * r))
    simp only [FCfg.ovThrV, cfgInt1, Measure.name, Gen.get_overlap_threshold, eqb_str, ovF]
    simp only [String.reduceBEq, ↓reduceIte]
    have e1 : PyV.mul (.int (l : Int)) (.int (r : Int)) = .int ((l * r : Nat) : Int) := by
      push_cast; rfl
    have e2 : PyV.sqrt (.int ((l * r : Nat) : Int)) = .float (fsqrt (rn ((l : Rat) * r))) := by
      have : ¬ (((l * r : Nat) : Int) < 0) := not_lt.mpr (Int.natCast_nonneg _)
      simp only [PyV.sqrt, this, if_false, PyV.intToFloat]
      rw [ofExact_float (by positivity) (by push_cast; linarith)]
      push_cast; rfl
    have e3 : ∀ y : Rat, PyV.mul (.int 1) (.float y) = PyV.ofExact (1 * y) := by
      intro y
      have h1 : PyV.intToFloat 1 = .float 1 := by
        have := intToFloat_nat (n := 1) (by norm_num); simpa using this
      simp [PyV.mul, PyV.floatOp, h1]
    rw [e1, e2, e3, ofExact_float (by positivity) (by nlinarith), round4_f]
    rfl
  · simp only [FCfg.ovThrV, cfgInt1, Measure.name, Gen.get_overlap_threshold, eqb_str, ovF]
    simp only [String.reduceBEq, Bool.false_eq_true, ↓reduceIte]
    rw [div_12,
      show PyV.add (.int (l : Int)) (.int (r : Int)) = .int ((l + r : Nat) : Int) by rw [← hlr]; rfl,
      mul_fn _ _ hlr53, ofExact_float (by positivity) (by push_cast; nlinarith), round4_f]
    push_cast
    rfl

/-- the int threshold `1` and the float threshold `1.0` give the same four bounds -/
theorem int1_eq_float1 (m : Measure) (hm : SetMeasure m) (n k : Nat) (hn : n < 2 ^ 32) (hk : k < 2 ^ 32) :
    (cfgInt1 m).lowerV n = (cfgOf m 1).lowerV n ∧ (cfgInt1 m).upperV n = (cfgOf m 1).upperV n ∧
    (cfgInt1 m).prefixV n = (cfgOf m 1).prefixV n ∧ (cfgInt1 m).ovThrV n k = (cfgOf m 1).ovThrV n k := by
  have hn' := natCast_le_of_lt hn
  refine ⟨?_, ?_, ?_, ?_⟩
  · rw [lowerV_int1 m hm n hn, lowerV_eq 1 thrOK_one m hm n hn, lowF_one m hm n hn, round4_nat hn', ceil_nat]
  · rw [upperV_int1 m hm n hn, upperV_eq 1 thrOK_one m hm n hn, upF_one m hm n hn, round4_nat hn', floor_nat]
  · rw [prefixV_int1 m hm n hn, prefixV_eq 1 thrOK_one m hm n hn, lowF_one m hm n hn, round4_nat hn', ceil_nat]
    split_ifs
    · rfl
    · congr 1; omega
  · rw [ovThrV_int1 m hm n k hn hk, ovThrV_eq 1 thrOK_one m hm n k hn hk]

theorem gen_noErr_int_one (m : Measure) (hm : SetMeasure m) (n k : Nat) (hn : n < 2 ^ 32) (hk : k < 2 ^ 32) :
    (cfgInt1 m).errAt n k = false := by
  obtain ⟨h1, h2, h3, h4⟩ := int1_eq_float1 m hm n k hn hk
  have := gen_noErr m hm 1 thrOK_one n k hn hk
  simpa only [FCfg.errAt, h1, h2, h3, h4] using this

theorem bounds_of_qual_int_one (m : Measure) (hm : SetMeasure m)
    (n k o : Nat) (ho1 : 1 ≤ o) (hon : o ≤ n) (hok : o ≤ k) (hn : n < 2 ^ 32) (hk : k < 2 ^ 32)
    (s : Rat) (hs : simFormula m o n k = .float s) (hq : 1 ≤ s) :
    (cfgInt1 m).lower n ≤ (k : Int) ∧ (k : Int) ≤ (cfgInt1 m).upper n ∧
    (cfgInt1 m).ovThr n k ≤ (o : Int) ∧ (cfgInt1 m).ovThr k n ≤ (o : Int) ∧
    (n : Int) - o + 1 ≤ (cfgInt1 m).prefixLen n ∧ (k : Int) - o + 1 ≤ (cfgInt1 m).prefixLen k ∧
    (cfgInt1 m).lower n ≤ (o : Int) ∧ (cfgInt1 m).lower k ≤ (o : Int) := by
  obtain ⟨a1, a2, a3, a4⟩ := int1_eq_float1 m hm n k hn hk
  obtain ⟨b1, b2, b3, b4⟩ := int1_eq_float1 m hm k n hk hn
  have := bounds_of_qual_core m hm 1 thrOK_one n k o ho1 hon hok hn hk s hs hq
  simpa only [FCfg.lower, FCfg.upper, FCfg.ovThr, FCfg.prefixLen, a1, a2, a3, a4, b1, b2, b3, b4] using this

/-! # G2 — thresholds below `2⁻²⁰` -/

local notation "ε" => ((1 : Rat) / 2 ^ 53)
/-- smallest positive normal binary64 -/
local notation "τ" => ((1 : Rat) / 2 ^ 1022)

namespace Wide

theorem pow2_m1022_eq : pow2 (-1022) = τ := by
  rw [show (-1022 : Int) = -((1022 : Nat) : Int) by rfl, pow2_neg]

theorem rn_ubW {q : Rat} (h : τ ≤ q) : rn q ≤ q * (1 + ε) := by
  have hq0 : 0 < q := lt_of_lt_of_le (by positivity) h
  have hq : pow2 (-1022) ≤ |q| := by rw [abs_of_pos hq0, pow2_m1022_eq]; exact h
  have := abs_le.mp (rn_rel_err hq)
  rw [abs_of_pos hq0] at this
  have e : q * (1 + ε) = q + q / 2 ^ 53 := by ring
  linarith [this.2]

theorem rn_lbW {q : Rat} (h : τ ≤ q) : q * (1 - ε) ≤ rn q := by
  have hq0 : 0 < q := lt_of_lt_of_le (by positivity) h
  have hq : pow2 (-1022) ≤ |q| := by rw [abs_of_pos hq0, pow2_m1022_eq]; exact h
  have := abs_le.mp (rn_rel_err hq)
  rw [abs_of_pos hq0] at this
  have e : q * (1 - ε) = q - q / 2 ^ 53 := by ring
  linarith [this.1]

theorem rn_ge_halfW {x : Rat} (h : τ ≤ x) : x / 2 ≤ rn x := by
  have h0 : 0 < x := lt_of_lt_of_le (by positivity) h
  have := rn_lbW h
  nlinarith
theorem rn_le_twiceW {x : Rat} (h : τ ≤ x) : rn x ≤ 2 * x := by
  have h0 : 0 < x := lt_of_lt_of_le (by positivity) h
  have := rn_ubW h
  nlinarith
theorem rn_ub_of_leW {x y : Rat} (h : τ ≤ x) (hxy : x ≤ y) : rn x ≤ y * (1 + ε) := by
  have := rn_ubW h
  have : x * (1 + ε) ≤ y * (1 + ε) := mul_le_mul_of_nonneg_right hxy (by norm_num)
  linarith
theorem rn_lb_of_leW {x y : Rat} (h : τ ≤ y) (hxy : y ≤ x) : y * (1 - ε) ≤ rn x := by
  have := rn_lbW (le_trans h hxy)
  have : y * (1 - ε) ≤ x * (1 - ε) := mul_le_mul_of_nonneg_right hxy (by norm_num)
  linarith

/-- no overflow up to `2¹⁰²³` -/
theorem ofExact_floatW {q : Rat} (h0 : 0 ≤ q) (h : q ≤ 2 ^ 1023) : PyV.ofExact q = .float (rn q) := by
  have h2 := rn_nonneg h0
  have h1 : rn q < huge := by
    have hh : huge = (2 : Rat) ^ 1024 := by simp only [huge, Nat.cast_pow, Nat.cast_ofNat]
    rw [hh]
    by_cases hq : q ≤ 1
    · have := rn_le_one h0 hq
      exact lt_of_le_of_lt this (by norm_num)
    · have := rn_ub_of_leW (x := q) (by linarith [show τ ≤ 1 by norm_num]) h
      exact lt_of_le_of_lt this (by norm_num)
  have hh0 : (0 : Rat) < huge := by unfold huge; positivity
  unfold PyV.ofExact
  simp only [ge_iff_le]
  rw [if_neg (by linarith), if_neg (by linarith)]

end Wide

/-! ## covered thresholds -/

/-- smallest covered threshold of each measure (binary64 overflow of the size upper bound starts at
    `2⁻⁴⁹⁷` for COSINE, `2⁻⁹⁹³` for JACCARD, `2⁻⁹⁹²` for DICE when sizes reach `2³² − 1`) -/
def thrLo (m : Measure) : Rat :=
  match m with
  | .cosine => 1 / 2 ^ 495
  | _ => 1 / 2 ^ 989

/-- thresholds covered by the wide theorems -/
structure ThrWide (m : Measure) (t : Rat) : Prop where
  lo : thrLo m ≤ t
  hi : t ≤ 1

/-- `2⁻⁹⁸⁹ ≤ t ≤ 1` -/
structure TW (t : Rat) : Prop where
  lo : (1 : Rat) / 2 ^ 989 ≤ t
  hi : t ≤ 1

/-- `2⁻⁴⁹⁵ ≤ t ≤ 1` -/
structure TWc (t : Rat) : Prop where
  lo : (1 : Rat) / 2 ^ 495 ≤ t
  hi : t ≤ 1

theorem TWc.tw {t : Rat} (h : TWc t) : TW t := ⟨le_trans (by norm_num) h.lo, h.hi⟩
theorem ThrWide.tw {m : Measure} {t : Rat} (h : ThrWide m t) : TW t := by
  refine ⟨le_trans ?_ h.lo, h.hi⟩
  cases m <;> simp only [thrLo] <;> norm_num
theorem ThrWide.twc {t : Rat} (h : ThrWide .cosine t) : TWc t := ⟨h.lo, h.hi⟩
theorem ThrOK.wide {t : Rat} (h : ThrOK t) (m : Measure) : ThrWide m t := by
  refine ⟨le_trans ?_ h.lo, h.hi⟩
  cases m <;> simp only [thrLo] <;> norm_num

theorem TW.pos {t : Rat} (ht : TW t) : 0 < t := lt_of_lt_of_le (by positivity) ht.lo

namespace Wide

theorem tau_le {x : Rat} (h : 1 / 2 ^ 100 ≤ x) : τ ≤ x := le_trans (by norm_num) h

/-- quotient of a size by a number `≥ 2⁻⁹⁹¹` does not overflow -/
theorem div_le_big {n x : Rat} (hn : n ≤ 2 ^ 32) (hx : 1 / 2 ^ 991 ≤ x) : n / x ≤ 2 ^ 1023 := by
  have hx0 : 0 < x := lt_of_lt_of_le (by positivity) hx
  rw [div_le_iff₀ hx0]
  calc n ≤ 2 ^ 32 := hn
    _ = 2 ^ 1023 * (1 / 2 ^ 991) := by norm_num
    _ ≤ 2 ^ 1023 * x := mul_le_mul_of_nonneg_left hx (by positivity)

end Wide

section shapeW
variable (t : Rat)

theorem two_sub_rangeW (ht : TW t) : 1 ≤ rn (2 - t) ∧ rn (2 - t) ≤ 2 := by
  have := ht.pos; have := ht.hi
  exact ⟨rn_ge_one (by linarith) (by linarith [show (2:Rat) ≤ 2 ^ 53 by norm_num]), rn_le_two (by linarith) (by linarith)⟩

theorem one_add_rangeW (ht : TW t) : 1 ≤ rn (1 + t) ∧ rn (1 + t) ≤ 2 := by
  have := ht.pos; have := ht.hi
  exact ⟨rn_ge_one (by linarith) (by linarith [show (2:Rat) ≤ 2 ^ 53 by norm_num]), rn_le_two (by linarith) (by linarith)⟩

theorem tt_rangeW (ht : TWc t) : 1 / 2 ^ 991 ≤ rn (t * t) ∧ rn (t * t) ≤ 1 := by
  have h0 := ht.tw.pos; have h1 := ht.hi; have h2 := ht.lo
  have h3 : 1 / 2 ^ 990 ≤ t * t := by
    calc (1 : Rat) / 2 ^ 990 = (1 / 2 ^ 495) * (1 / 2 ^ 495) := by norm_num
      _ ≤ t * t := mul_le_mul h2 h2 (by positivity) h0.le
  constructor
  · have := rn_ge_halfW (x := t * t) (by linarith [show τ ≤ 1 / 2 ^ 990 by norm_num])
    linarith
  · exact rn_le_one (by positivity) (by nlinarith)

theorem t_div_rangeW (ht : TW t) {a : Rat} (ha1 : 1 ≤ a) (ha2 : a ≤ 2) :
    1 / 2 ^ 990 ≤ t / a ∧ 1 / 2 ^ 991 ≤ rn (t / a) ∧ rn (t / a) ≤ 1 := by
  have h0 := ht.pos; have h1 := ht.hi; have h2 := ht.lo
  have ha0 : 0 < a := by linarith
  have h3 : t / a ≤ 1 := by rw [div_le_one ha0]; linarith
  have h4 : 1 / 2 ^ 990 ≤ t / a := by
    rw [le_div_iff₀ ha0]
    calc (1 : Rat) / 2 ^ 990 * a ≤ 1 / 2 ^ 990 * 2 := mul_le_mul_of_nonneg_left ha2 (by positivity)
      _ = 1 / 2 ^ 989 := by norm_num
      _ ≤ t := h2
  refine ⟨h4, ?_, rn_le_one (by positivity) h3⟩
  have := rn_ge_halfW (x := t / a) (by linarith [show τ ≤ 1 / 2 ^ 990 by norm_num])
  linarith

theorem lowerV_eqW (m : Measure) (hm : SetMeasure m) (ht : ThrWide m t) (n : Nat) (hn : n < 2 ^ 32) :
    (cfgOf m t).lowerV n = .int (round4 (lowF m t n)).ceil := by
  have hn' := natCast_le_of_lt hn
  have hn53 : (n : Rat) ≤ 2 ^ 53 := by linarith
  have h0 : (0:Rat) ≤ n := by positivity
  have ht0 := ht.tw.pos; have ht1 := ht.hi
  rcases hm with rfl | rfl | rfl
  · simp only [FCfg.lowerV, cfgOf, Measure.name, Gen.get_size_lower_bound, eqb_str, lowF]
    simp only [String.reduceBEq, Bool.false_eq_true, ↓reduceIte]
    rw [mul_fn _ _ hn53, ofExact_float (by positivity) (by nlinarith), round4_f]
    rfl
  · obtain ⟨c1, c2⟩ := tt_rangeW t ht.twc
    simp only [FCfg.lowerV, cfgOf, Measure.name, Gen.get_size_lower_bound, eqb_str, lowF]
    simp only [String.reduceBEq, ↓reduceIte]
    rw [mul_ff, ofExact_float (by positivity) (by nlinarith), mul_fn _ _ hn53,
      ofExact_float (by positivity) (by nlinarith), round4_f]
    rfl
  · obtain ⟨a1, a2⟩ := two_sub_rangeW t ht.tw
    obtain ⟨-, b1, b2⟩ := t_div_rangeW t ht.tw a1 a2
    simp only [FCfg.lowerV, cfgOf, Measure.name, Gen.get_size_lower_bound, eqb_str, lowF]
    simp only [String.reduceBEq, Bool.false_eq_true, ↓reduceIte]
    rw [sub_2f, ofExact_float (by linarith) (by linarith), div_ff _ _ (by linarith),
      ofExact_float (by positivity)
        (by linarith [(div_le_one (by linarith)).2 (by linarith : t ≤ rn (2 - t))]),
      mul_fn _ _ hn53, ofExact_float (by positivity) (by nlinarith), round4_f]
    rfl

theorem upperV_eqW (m : Measure) (hm : SetMeasure m) (ht : ThrWide m t) (n : Nat) (hn : n < 2 ^ 32) :
    (cfgOf m t).upperV n = .int (round4 (upF m t n)).floor := by
  have hn' := natCast_le_of_lt hn
  have hn53 : (n : Rat) ≤ 2 ^ 53 := by linarith
  have h0 : (0:Rat) ≤ n := by positivity
  have ht0 := ht.tw.pos; have ht1 := ht.hi; have ht2 := ht.tw.lo
  rcases hm with rfl | rfl | rfl
  · simp only [FCfg.upperV, cfgOf, Measure.name, Gen.get_size_upper_bound, eqb_str, upF]
    simp only [String.reduceBEq, Bool.false_eq_true, ↓reduceIte]
    have : (n : Rat) / t ≤ 2 ^ 1023 := div_le_big hn' (le_trans (by norm_num) ht2)
    rw [div_nf _ _ hn53 ht0.ne', ofExact_floatW (by positivity) this, round4_f]
    rfl
  · obtain ⟨c1, c2⟩ := tt_rangeW t ht.twc
    have c0 : 0 < rn (t * t) := lt_of_lt_of_le (by positivity) c1
    simp only [FCfg.upperV, cfgOf, Measure.name, Gen.get_size_upper_bound, eqb_str, upF]
    simp only [String.reduceBEq, ↓reduceIte]
    have : (n : Rat) / rn (t * t) ≤ 2 ^ 1023 := div_le_big hn' c1
    rw [mul_ff, ofExact_float (by positivity) (by nlinarith), div_nf _ _ hn53 c0.ne',
      ofExact_floatW (by positivity) this, round4_f]
    rfl
  · obtain ⟨a1, a2⟩ := two_sub_rangeW t ht.tw
    have hq : rn (2 - t) / t ≤ 2 ^ 990 := by
      rw [div_le_iff₀ ht0]
      calc rn (2 - t) ≤ 2 := a2
        _ = 2 ^ 990 * (1 / 2 ^ 989) := by norm_num
        _ ≤ 2 ^ 990 * t := mul_le_mul_of_nonneg_left ht2 (by positivity)
    have hq1 : 1 ≤ rn (2 - t) / t := by rw [le_div_iff₀ ht0]; linarith
    have hq0 : 0 ≤ rn (2 - t) / t := by linarith
    have hb : rn (rn (2 - t) / t) ≤ 2 ^ 991 := by
      have := rn_le_twice (x := rn (2 - t) / t) (by linarith [show (1:Rat) / 2 ^ 100 ≤ 1 by norm_num])
      linarith [show (2:Rat) * 2 ^ 990 = 2 ^ 991 by norm_num]
    have hb0 := rn_nonneg hq0
    have hbn : rn (rn (2 - t) / t) * n ≤ 2 ^ 1023 := by
      calc rn (rn (2 - t) / t) * n ≤ 2 ^ 991 * 2 ^ 32 := mul_le_mul hb hn' h0 (by positivity)
        _ = 2 ^ 1023 := by norm_num
    simp only [FCfg.upperV, cfgOf, Measure.name, Gen.get_size_upper_bound, eqb_str, upF]
    simp only [String.reduceBEq, Bool.false_eq_true, ↓reduceIte]
    rw [sub_2f, ofExact_float (by linarith) (by linarith),
      div_ff _ _ ht0.ne', ofExact_floatW hq0 (by linarith [show (2:Rat) ^ 990 ≤ 2 ^ 1023 by norm_num]),
      mul_fn _ _ hn53, ofExact_floatW (by positivity) hbn, round4_f]
    rfl

theorem ovThrV_eqW (m : Measure) (hm : SetMeasure m) (ht : ThrWide m t) (l r : Nat) (hl : l < 2 ^ 32) (hr : r < 2 ^ 32) :
    (cfgOf m t).ovThrV l r = .int (round4 (ovF m t l r)).ceil := by
  have hl' := natCast_le_of_lt hl
  have hr' := natCast_le_of_lt hr
  have hl0 : (0:Rat) ≤ l := by positivity
  have hr0 : (0:Rat) ≤ r := by positivity
  have ht0 := ht.tw.pos; have ht1 := ht.hi
  have hlr : ((l : Int) + (r : Int)) = ((l + r : Nat) : Int) := by push_cast; rfl
  have hlr53 : ((l + r : Nat) : Rat) ≤ 2 ^ 53 := by push_cast; linarith
  rcases hm with rfl | rfl | rfl
  · obtain ⟨a1, a2⟩ := one_add_rangeW t ht.tw
    obtain ⟨-, b1, b2⟩ := t_div_rangeW t ht.tw a1 a2
    simp only [FCfg.ovThrV, cfgOf, Measure.name, Gen.get_overlap_threshold, eqb_str, ovF]
    simp only [String.reduceBEq, Bool.false_eq_true, ↓reduceIte]
    rw [add_1f, ofExact_float (by linarith) (by linarith), div_ff _ _ (by linarith),
      ofExact_float (div_nonneg ht0.le (by linarith)) (by linarith [(div_le_one (by linarith)).2 (by linarith : t ≤ rn (1 + t))]),
      show PyV.add (.int (l : Int)) (.int (r : Int)) = .int ((l + r : Nat) : Int) by rw [← hlr]; rfl,
      mul_fn _ _ hlr53, ofExact_float (by positivity) (by push_cast; nlinarith), round4_f]
    push_cast
    rfl
  · have hlr64 : (l : Rat) * r ≤ 2 ^ 64 := by nlinarith
    have hP0 : (0 : Rat) ≤ l * r := by positivity
    have hP : rn ((l : Rat) * r) ≤ 2 ^ 66 := by
      by_cases hz : (l : Rat) * r ≤ 1
      · linarith [rn_le_one hP0 hz]
      · have := rn_le_twice (x := (l : Rat) * r) (by linarith [show (1:Rat) / 2 ^ 100 ≤ 1 by norm_num])
        linarith
    have hPn := rn_nonneg hP0
    have hF : fsqrt (rn ((l : Rat) * r)) ≤ 2 ^ 34 := by
      apply fsqrt_le_of_le hPn (by positivity)
      nlinarith
    have hF0 := fsqrt_nonneg (rn ((l : Rat) * r))
    simp only [FCfg.ovThrV, cfgOf, Measure.name, Gen.get_overlap_threshold, eqb_str, ovF]
    simp only [String.reduceBEq, ↓reduceIte]
    have e1 : PyV.mul (.int (l : Int)) (.int (r : Int)) = .int ((l * r : Nat) : Int) := by
      push_cast; rfl
    have e2 : PyV.sqrt (.int ((l * r : Nat) : Int)) = .float (fsqrt (rn ((l : Rat) * r))) := by
      have : ¬ (((l * r : Nat) : Int) < 0) := not_lt.mpr (Int.natCast_nonneg _)
      simp only [PyV.sqrt, this, if_false, PyV.intToFloat]
      rw [ofExact_float (by positivity) (by push_cast; linarith)]
      push_cast; rfl
    rw [e1, e2, mul_ff, ofExact_float (by positivity) (by nlinarith), round4_f]
    rfl
  · have b0 : 0 ≤ t / 2 := by positivity
    have b1 : rn (t / 2) ≤ 1 := rn_le_one b0 (by linarith)
    have b2 := rn_nonneg b0
    simp only [FCfg.ovThrV, cfgOf, Measure.name, Gen.get_overlap_threshold, eqb_str, ovF]
    simp only [String.reduceBEq, Bool.false_eq_true, ↓reduceIte]
    rw [div_f2, ofExact_float b0 (by linarith),
      show PyV.add (.int (l : Int)) (.int (r : Int)) = .int ((l + r : Nat) : Int) by rw [← hlr]; rfl,
      mul_fn _ _ hlr53, ofExact_float (by positivity) (by push_cast; nlinarith), round4_f]
    push_cast
    rfl

theorem prefixV_eqW (m : Measure) (hm : SetMeasure m) (ht : ThrWide m t) (n : Nat) (hn : n < 2 ^ 32) :
    (cfgOf m t).prefixV n =
      if n = 0 then .int 0 else .int ((n : Int) - (round4 (lowF m t n)).ceil + 1) := by
  have hn' := natCast_le_of_lt hn
  have hn53 : (n : Rat) ≤ 2 ^ 53 := by linarith
  have h0 : (0:Rat) ≤ n := by positivity
  have ht0 := ht.tw.pos; have ht1 := ht.hi
  by_cases hz : n = 0
  · subst hz
    rcases hm with rfl | rfl | rfl <;>
      simp [FCfg.prefixV, Gen.get_prefix_length, PyV.eqb, PyV.numVal?]
  rw [if_neg hz]
  rcases hm with rfl | rfl | rfl
  · simp only [FCfg.prefixV, cfgOf, Measure.name, Gen.get_prefix_length, eqb_str, lowF, eqb_int0]
    simp only [hz, decide_false, String.reduceBEq, Bool.false_eq_true, ↓reduceIte]
    rw [mul_fn _ _ hn53, ofExact_float (by positivity) (by nlinarith), round4_f]
    rfl
  · obtain ⟨c1, c2⟩ := tt_rangeW t ht.twc
    simp only [FCfg.prefixV, cfgOf, Measure.name, Gen.get_prefix_length, eqb_str, lowF, eqb_int0]
    simp only [hz, decide_false, String.reduceBEq, Bool.false_eq_true, ↓reduceIte]
    rw [mul_ff, ofExact_float (by positivity) (by nlinarith), mul_fn _ _ hn53,
      ofExact_float (by positivity) (by nlinarith), round4_f]
    rfl
  · obtain ⟨a1, a2⟩ := two_sub_rangeW t ht.tw
    obtain ⟨-, b1, b2⟩ := t_div_rangeW t ht.tw a1 a2
    simp only [FCfg.prefixV, cfgOf, Measure.name, Gen.get_prefix_length, eqb_str, lowF, eqb_int0]
    simp only [hz, decide_false, String.reduceBEq, Bool.false_eq_true, ↓reduceIte]
    rw [sub_2f, ofExact_float (by linarith) (by linarith), div_ff _ _ (by linarith),
      ofExact_float (by positivity)
        (by linarith [(div_le_one (by linarith)).2 (by linarith : t ≤ rn (2 - t))]),
      mul_fn _ _ hn53, ofExact_float (by positivity) (by nlinarith), round4_f]
    rfl

end shapeW

/-! ## real-number reasoning for small thresholds

  Copies of `jac_*`, `dice_*`, `cos_*` of `Arith` with `ThrOK` replaced by `TW` / `TWc`; only the places that
  used `2⁻²⁰ ≤ t` to stay above `2⁻¹⁰⁰` change (now: above `τ = 2⁻¹⁰²²`, the binary64 normal range).
  `jac_sim` and `dice_sim` do not depend on the threshold range and are reused. -/

theorem jac_lowW {t o n k : Rat} (ht : TW t) (hc : Counts o n k) (hq : t ≤ simF .jaccard o n k) :
    lowF .jaccard t n ≤ o + 4 / 100000 := by
  have hs := jac_sim hc hq
  obtain ⟨o1, on, ok, n32, k32⟩ := hc
  have ht0 := ht.pos
  simp only [lowF]
  have h1 : τ ≤ t * n := by
    have : t * 1 ≤ t * n := mul_le_mul_of_nonneg_left (by linarith) ht0.le
    linarith [ht.lo, show τ ≤ 1 / 2 ^ 989 by norm_num]
  have h2 : t * n ≤ o * (1 + 1 / 2 ^ 53) := by nlinarith
  have := rn_ub_of_leW h1 h2
  refine le_trans this ?_
  rw [mul_assoc]
  exact absorb_up (by linarith) (by linarith) (by norm_num)

theorem jac_upW {t o n k : Rat} (ht : TW t) (hc : Counts o n k) (hq : t ≤ simF .jaccard o n k) :
    k - 4 / 100000 ≤ upF .jaccard t n := by
  have hs := jac_sim hc hq
  obtain ⟨o1, on, ok, n32, k32⟩ := hc
  have ht0 := ht.pos
  simp only [upF]
  have h2 : k / (1 + 1 / 2 ^ 53) ≤ n / t := by
    rw [div_le_div_iff₀ (by norm_num) ht0]; nlinarith
  have h1 : 1 / 2 ^ 100 ≤ k / (1 + 1 / 2 ^ 53) := by
    rw [le_div_iff₀ (by norm_num)]; nlinarith
  have := rn_lb_of_le h1 h2
  refine le_trans ?_ this
  rw [div_mul_eq_mul_div, mul_div_assoc]
  exact absorb_lo (by linarith) k32 (by norm_num)

theorem jac_ovW {t o n k : Rat} (ht : TW t) (hc : Counts o n k) (hq : t ≤ simF .jaccard o n k) :
    ovF .jaccard t n k ≤ o + 4 / 100000 := by
  have hs := jac_sim hc hq
  obtain ⟨a1, a2⟩ := one_add_rangeW t ht
  obtain ⟨b0, b1, b2⟩ := t_div_rangeW t ht a1 a2
  obtain ⟨o1, on, ok, n32, k32⟩ := hc
  have ht0 := ht.pos; have ht1 := ht.hi
  simp only [ovF]
  have ha : (1 + t) * (1 - 1 / 2 ^ 53) ≤ rn (1 + t) :=
    rn_lb (by linarith [show (1:Rat) / 2 ^ 100 ≤ 1 by norm_num])
  have hta : t / rn (1 + t) ≤ t / ((1 + t) * (1 - 1 / 2 ^ 53)) :=
    div_le_div_of_nonneg_left ht0.le (by apply mul_pos <;> [linarith; norm_num]) ha
  have hta0 : τ ≤ t / rn (1 + t) := le_trans (by norm_num) b0
  have hb := rn_ub_of_leW hta0 hta
  have hnk : 0 ≤ n + k := by linarith
  have h3 : rn (t / rn (1 + t)) * (n + k) ≤
      t / ((1 + t) * (1 - 1 / 2 ^ 53)) * (1 + 1 / 2 ^ 53) * (n + k) :=
    mul_le_mul_of_nonneg_right hb hnk
  have h4 : t / ((1 + t) * (1 - 1 / 2 ^ 53)) * (1 + 1 / 2 ^ 53) * (n + k) ≤
      o * ((1 + 1 / 2 ^ 53) * (1 + 1 / 2 ^ 53) / (1 - 1 / 2 ^ 53)) := by
    have e : t / ((1 + t) * (1 - 1 / 2 ^ 53)) * (1 + 1 / 2 ^ 53) * (n + k) =
        (t * (n + k)) / (1 + t) * ((1 + 1 / 2 ^ 53) / (1 - 1 / 2 ^ 53)) := by
      field_simp
    have h5 : (t * (n + k)) / (1 + t) ≤ o * (1 + 1 / 2 ^ 53) := by
      rw [div_le_iff₀ (by linarith)]; nlinarith
    rw [e]
    calc (t * (n + k)) / (1 + t) * ((1 + 1 / 2 ^ 53) / (1 - 1 / 2 ^ 53))
        ≤ o * (1 + 1 / 2 ^ 53) * ((1 + 1 / 2 ^ 53) / (1 - 1 / 2 ^ 53)) :=
          mul_le_mul_of_nonneg_right h5 (by norm_num)
      _ = _ := by ring
  have h6 : τ ≤ rn (t / rn (1 + t)) * (n + k) := by
    have : rn (t / rn (1 + t)) * 1 ≤ rn (t / rn (1 + t)) * (n + k) :=
      mul_le_mul_of_nonneg_left (by linarith) (le_trans (by positivity) b1)
    linarith [show τ ≤ 1 / 2 ^ 991 by norm_num]
  have := rn_ub_of_leW h6 (le_trans h3 h4)
  refine le_trans this ?_
  rw [mul_assoc]
  exact absorb_up (by linarith) (by linarith) (by norm_num)

/-! ### Dice -/

theorem dice_lowW {t o n k : Rat} (ht : TW t) (hc : Counts o n k) (hq : t ≤ simF .dice o n k) :
    lowF .dice t n ≤ o + 4 / 100000 := by
  have hs := dice_sim hc hq
  obtain ⟨a1, a2⟩ := two_sub_rangeW t ht
  obtain ⟨b0, b1, b2⟩ := t_div_rangeW t ht a1 a2
  obtain ⟨o1, on, ok, n32, k32⟩ := hc
  have ht0 := ht.pos; have ht1 := ht.hi
  simp only [lowF]
  have ha : (2 - t) * (1 - ε) ≤ rn (2 - t) :=
    rn_lb (by linarith [show (1:Rat) / 2 ^ 100 ≤ 1 by norm_num])
  have hta : t / rn (2 - t) ≤ t / ((2 - t) * (1 - ε)) :=
    div_le_div_of_nonneg_left ht0.le (by apply mul_pos <;> [linarith; norm_num]) ha
  have hta0 : τ ≤ t / rn (2 - t) := le_trans (by norm_num) b0
  have hb := rn_ub_of_leW hta0 hta
  have hn0 : 0 ≤ n := by linarith
  have h3 : rn (t / rn (2 - t)) * n ≤ t / ((2 - t) * (1 - ε)) * (1 + ε) * n :=
    mul_le_mul_of_nonneg_right hb hn0
  have h4 : t / ((2 - t) * (1 - ε)) * (1 + ε) * n ≤ o * ((1 + 2 * ε) * (1 + ε) / (1 - ε)) := by
    have e : t / ((2 - t) * (1 - ε)) * (1 + ε) * n = (t * n) / (2 - t) * ((1 + ε) / (1 - ε)) := by
      field_simp
    have h5 : (t * n) / (2 - t) ≤ o * (1 + 2 * ε) := by
      rw [div_le_iff₀ (by linarith)]
      have : t * o ≤ t * k := mul_le_mul_of_nonneg_left ok ht0.le
      have : o * ε ≤ o * ε * (2 - t) := by
        have : 0 ≤ o * ε := by positivity
        nlinarith
      nlinarith
    rw [e]
    calc (t * n) / (2 - t) * ((1 + ε) / (1 - ε))
        ≤ o * (1 + 2 * ε) * ((1 + ε) / (1 - ε)) :=
          mul_le_mul_of_nonneg_right h5 (by norm_num)
      _ = _ := by ring
  have h6 : τ ≤ rn (t / rn (2 - t)) * n := by
    have : rn (t / rn (2 - t)) * 1 ≤ rn (t / rn (2 - t)) * n :=
      mul_le_mul_of_nonneg_left (by linarith) (le_trans (by positivity) b1)
    linarith [show τ ≤ 1 / 2 ^ 991 by norm_num]
  have := rn_ub_of_leW h6 (le_trans h3 h4)
  refine le_trans this ?_
  rw [mul_assoc]
  exact absorb_up (by linarith) (by linarith) (by norm_num)

theorem dice_upW {t o n k : Rat} (ht : TW t) (hc : Counts o n k) (hq : t ≤ simF .dice o n k) :
    k - 4 / 100000 ≤ upF .dice t n := by
  have hs := dice_sim hc hq
  obtain ⟨a1, a2⟩ := two_sub_rangeW t ht
  obtain ⟨o1, on, ok, n32, k32⟩ := hc
  have ht0 := ht.pos; have ht1 := ht.hi
  simp only [upF]
  have ha : (2 - t) * (1 - ε) ≤ rn (2 - t) :=
    rn_lb (by linarith [show (1:Rat) / 2 ^ 100 ≤ 1 by norm_num])
  have hat : (2 - t) * (1 - ε) / t ≤ rn (2 - t) / t :=
    div_le_div_of_nonneg_right ha ht0.le
  have hat0 : 1 / 2 ^ 100 ≤ (2 - t) * (1 - ε) / t := by
    rw [le_div_iff₀ ht0]; nlinarith
  have hb := rn_lb_of_le hat0 hat
  have hn0 : 0 ≤ n := by linarith
  have h3 : (2 - t) * (1 - ε) / t * (1 - ε) * n ≤ rn (rn (2 - t) / t) * n :=
    mul_le_mul_of_nonneg_right hb hn0
  have h4 : k * ((1 - ε) * (1 - ε) / (1 + 2 * ε)) ≤ (2 - t) * (1 - ε) / t * (1 - ε) * n := by
    have e : (2 - t) * (1 - ε) / t * (1 - ε) * n = ((2 - t) * n) / t * ((1 - ε) * (1 - ε)) := by
      field_simp
    have h5 : k / (1 + 2 * ε) ≤ ((2 - t) * n) / t := by
      rw [div_le_div_iff₀ (by norm_num) ht0]
      have : n * ε ≤ n * ε * (2 - t) := by
        have : 0 ≤ n * ε := by positivity
        nlinarith
      have : t * 0 ≤ t * n := mul_le_mul_of_nonneg_left hn0 ht0.le
      nlinarith
    rw [e]
    calc k * ((1 - ε) * (1 - ε) / (1 + 2 * ε)) = k / (1 + 2 * ε) * ((1 - ε) * (1 - ε)) := by ring
      _ ≤ _ := mul_le_mul_of_nonneg_right h5 (by norm_num)
  have h6 : 1 / 2 ^ 100 ≤ k * ((1 - ε) * (1 - ε) / (1 + 2 * ε)) := by
    have : (1:Rat) / 2 ≤ (1 - ε) * (1 - ε) / (1 + 2 * ε) := by norm_num
    nlinarith
  have := rn_lb_of_le h6 (le_trans h4 h3)
  refine le_trans ?_ this
  rw [mul_assoc]
  exact absorb_lo (by linarith) k32 (by norm_num)

theorem dice_ovW {t o n k : Rat} (ht : TW t) (hc : Counts o n k) (hq : t ≤ simF .dice o n k) :
    ovF .dice t n k ≤ o + 4 / 100000 := by
  have hs := dice_sim hc hq
  obtain ⟨o1, on, ok, n32, k32⟩ := hc
  have ht0 := ht.pos; have ht1 := ht.hi; have ht2 := ht.lo
  simp only [ovF]
  have hτ : τ ≤ t / 2 := by linarith [show τ ≤ 1 / 2 ^ 989 / 2 by norm_num]
  have hb := rn_ubW hτ
  have hb0 := rn_ge_halfW hτ
  have hnk : 0 ≤ n + k := by linarith
  have h3 : rn (t / 2) * (n + k) ≤ t / 2 * (1 + ε) * (n + k) :=
    mul_le_mul_of_nonneg_right hb hnk
  have h4 : t / 2 * (1 + ε) * (n + k) ≤ o * ((1 + ε) * (1 + ε)) := by nlinarith
  have h6 : τ ≤ rn (t / 2) * (n + k) := by
    have hp : 0 ≤ rn (t / 2) := by linarith
    have : rn (t / 2) * 1 ≤ rn (t / 2) * (n + k) := mul_le_mul_of_nonneg_left (by linarith) hp
    linarith [show τ ≤ 1 / 2 ^ 989 / 2 / 2 by norm_num]
  have := rn_ub_of_leW h6 (le_trans h3 h4)
  refine le_trans this ?_
  rw [mul_assoc]
  exact absorb_up (by linarith) (by linarith) (by norm_num)

/-! ### Cosine -/

local notation "η" => ((1 : Rat) / 2 ^ 51)
local notation "K" => ((1 + ε) * (1 + ε) / ((1 - η) * (1 - η) * ((1 - ε) * (1 - ε))))

theorem cos_simW {t o n k : Rat} (ht0 : 0 < t) (hc : Counts o n k) (hfn : 1 ≤ fsqrt n) (hfk : 1 ≤ fsqrt k)
    (hq : t ≤ simF .cosine o n k) :
    t * t * (n * k) ≤ o * o * K := by
  obtain ⟨o1, on, ok, n32, k32⟩ := hc
  have hn0 : 0 < n := by linarith
  have hk0 : 0 < k := by linarith
  obtain ⟨an, -⟩ := fsqrt_sq' hn0
  obtain ⟨ak, -⟩ := fsqrt_sq' hk0
  have hAB : 1 ≤ fsqrt n * fsqrt k := by nlinarith
  have hp := rn_lb (q := fsqrt n * fsqrt k) (by linarith [show (1:Rat) / 2 ^ 100 ≤ 1 by norm_num])
  have hp1 : 1 / 2 ≤ rn (fsqrt n * fsqrt k) := by nlinarith
  have hp0 : 0 < rn (fsqrt n * fsqrt k) := by linarith
  have hpu : rn (fsqrt n * fsqrt k) ≤ 2 ^ 40 := by
    have : fsqrt n ≤ 2 ^ 17 := fsqrt_le_of_le hn0.le (by positivity) (by nlinarith)
    have : fsqrt k ≤ 2 ^ 17 := fsqrt_le_of_le hk0.le (by positivity) (by nlinarith)
    have := rn_le_twice (x := fsqrt n * fsqrt k) (by linarith [show (1:Rat) / 2 ^ 100 ≤ 1 by norm_num])
    nlinarith
  simp only [simF] at hq
  have h1 : 1 / 2 ^ 100 ≤ o / rn (fsqrt n * fsqrt k) := by
    rw [le_div_iff₀ hp0]; nlinarith
  have h2 := rn_ub h1
  have h3 : t * rn (fsqrt n * fsqrt k) ≤ o * (1 + ε) := by
    calc t * rn (fsqrt n * fsqrt k)
        ≤ o / rn (fsqrt n * fsqrt k) * (1 + ε) * rn (fsqrt n * fsqrt k) :=
          mul_le_mul_of_nonneg_right (le_trans hq h2) hp0.le
      _ = o * (1 + ε) := by field_simp
  have h4 : t * (fsqrt n * fsqrt k * (1 - ε)) ≤ o * (1 + ε) :=
    le_trans (mul_le_mul_of_nonneg_left hp ht0.le) h3
  have h40 : 0 ≤ t * (fsqrt n * fsqrt k * (1 - ε)) := by
    have : (0:Rat) ≤ 1 - ε := by norm_num
    positivity
  have h5 := mul_self_le_mul_self h40 h4
  have h6 : t * t * (n * k) * ((1 - η) * (1 - η) * ((1 - ε) * (1 - ε))) ≤
      t * (fsqrt n * fsqrt k * (1 - ε)) * (t * (fsqrt n * fsqrt k * (1 - ε))) := by
    have e : t * (fsqrt n * fsqrt k * (1 - ε)) * (t * (fsqrt n * fsqrt k * (1 - ε))) =
        (t * t * ((1 - ε) * (1 - ε))) * ((fsqrt n * fsqrt n) * (fsqrt k * fsqrt k)) := by ring
    have e2 : t * t * (n * k) * ((1 - η) * (1 - η) * ((1 - ε) * (1 - ε))) =
        (t * t * ((1 - ε) * (1 - ε))) * ((n * (1 - η)) * (k * (1 - η))) := by ring
    rw [e, e2]
    apply mul_le_mul_of_nonneg_left _ (by positivity)
    apply mul_le_mul an ak _ (by positivity)
    have : (0:Rat) ≤ 1 - η := by norm_num
    positivity
  rw [mul_div_assoc', le_div_iff₀ (by norm_num)]
  calc _ ≤ _ := h6
    _ ≤ _ := h5
    _ = _ := by ring

namespace Wide

/-- `τ ≤ t²` for cosine thresholds -/
theorem tt_ge {t : Rat} (ht : TWc t) : 1 / 2 ^ 990 ≤ t * t := by
  have h0 := ht.tw.pos
  calc (1 : Rat) / 2 ^ 990 = (1 / 2 ^ 495) * (1 / 2 ^ 495) := by norm_num
    _ ≤ t * t := mul_le_mul ht.lo ht.lo (by positivity) h0.le

end Wide

theorem cos_lowW {t o n k : Rat} (ht : TWc t) (hc : Counts o n k) (hs : t * t * (n * k) ≤ o * o * K) :
    lowF .cosine t n ≤ o + 4 / 100000 := by
  obtain ⟨c1, c2⟩ := tt_rangeW t ht
  obtain ⟨o1, on, ok, n32, k32⟩ := hc
  have ht0 := ht.tw.pos; have ht1 := ht.hi
  have hk0 : 0 < k := by linarith
  have hn0 : 0 ≤ n := by linarith
  simp only [lowF]
  have htt : τ ≤ t * t := le_trans (by norm_num) (tt_ge ht)
  have hc' := rn_ubW htt
  have h1 : t * t * n ≤ o * K := by
    have : t * t * n * k ≤ o * K * k := by
      have : o * o * K ≤ o * k * K :=
        mul_le_mul_of_nonneg_right (mul_le_mul_of_nonneg_left ok (by linarith)) (by norm_num)
      nlinarith
    exact le_of_mul_le_mul_right this hk0
  have h3 : rn (t * t) * n ≤ o * (K * (1 + ε)) := by
    calc rn (t * t) * n ≤ t * t * (1 + ε) * n := mul_le_mul_of_nonneg_right hc' hn0
      _ = t * t * n * (1 + ε) := by ring
      _ ≤ o * K * (1 + ε) := mul_le_mul_of_nonneg_right h1 (by norm_num)
      _ = _ := by ring
  have h6 : τ ≤ rn (t * t) * n := by
    have : rn (t * t) * 1 ≤ rn (t * t) * n :=
      mul_le_mul_of_nonneg_left (by linarith) (le_trans (by positivity) c1)
    linarith [show τ ≤ 1 / 2 ^ 991 by norm_num]
  have := rn_ub_of_leW h6 h3
  refine le_trans this ?_
  rw [mul_assoc]
  exact absorb_up (by linarith) (by linarith) (by norm_num)

theorem cos_upW {t o n k : Rat} (ht : TWc t) (hc : Counts o n k) (hs : t * t * (n * k) ≤ o * o * K) :
    k - 4 / 100000 ≤ upF .cosine t n := by
  obtain ⟨c1, c2⟩ := tt_rangeW t ht
  obtain ⟨o1, on, ok, n32, k32⟩ := hc
  have ht0 := ht.tw.pos; have ht1 := ht.hi
  have hk0 : 0 < k := by linarith
  have hn0 : 0 < n := by linarith
  have htt0 : 0 < t * t := by positivity
  simp only [upF]
  have htt : τ ≤ t * t := le_trans (by norm_num) (tt_ge ht)
  have hc' := rn_ubW htt
  have h1 : t * t * k ≤ n * K := by
    have : t * t * k * n ≤ n * K * n := by
      have : o * o * K ≤ n * n * K :=
        mul_le_mul_of_nonneg_right (mul_le_mul on on (by linarith) (by linarith)) (by norm_num)
      nlinarith
    exact le_of_mul_le_mul_right this hn0
  have h2 : k / (K * (1 + ε)) ≤ n / rn (t * t) := by
    calc k / (K * (1 + ε)) ≤ n / (t * t * (1 + ε)) := by
          rw [div_le_div_iff₀ (by norm_num) (by positivity)]
          nlinarith
      _ ≤ n / rn (t * t) := div_le_div_of_nonneg_left hn0.le (lt_of_lt_of_le (by positivity) c1) hc'
  have h6 : 1 / 2 ^ 100 ≤ k / (K * (1 + ε)) := by
    rw [le_div_iff₀ (by norm_num)]
    have : K * (1 + ε) ≤ 2 := by norm_num
    nlinarith
  have := rn_lb_of_le h6 h2
  refine le_trans ?_ this
  rw [div_mul_eq_mul_div, mul_div_assoc]
  exact absorb_lo (by linarith) k32 (by norm_num)

theorem cos_ovW {t o n k : Rat} (ht : TWc t) (hc : Counts o n k) (hs : t * t * (n * k) ≤ o * o * K) :
    ovF .cosine t n k ≤ o + 4 / 100000 := by
  obtain ⟨o1, on, ok, n32, k32⟩ := hc
  have ht0 := ht.tw.pos; have ht1 := ht.hi; have ht2 := ht.lo
  have hnk1 : 1 ≤ n * k := by nlinarith
  have hnk : 1 / 2 ^ 100 ≤ n * k := by linarith [show (1:Rat) / 2 ^ 100 ≤ 1 by norm_num]
  have hP := rn_ub hnk
  have hP2 := rn_ge_half hnk
  have hP0 : 0 < rn (n * k) := by linarith
  simp only [ovF]
  have hF : fsqrt (rn (n * k)) ≤ o * (1 + 1 / 2 ^ 49) / t := by
    apply fsqrt_le_of_le hP0.le (by positivity)
    rw [div_mul_div_comm, le_div_iff₀ (by positivity)]
    have h1 : rn (n * k) * (1 + η) * (t * t) ≤ t * t * (n * k) * ((1 + ε) * (1 + η)) := by
      have : rn (n * k) * (t * t) ≤ n * k * (1 + ε) * (t * t) :=
        mul_le_mul_of_nonneg_right hP (by positivity)
      nlinarith
    have h2 : t * t * (n * k) * ((1 + ε) * (1 + η)) ≤ o * o * K * ((1 + ε) * (1 + η)) :=
      mul_le_mul_of_nonneg_right hs (by norm_num)
    have h3 : o * o * K * ((1 + ε) * (1 + η)) ≤ o * (1 + 1 / 2 ^ 49) * (o * (1 + 1 / 2 ^ 49)) := by
      have : K * ((1 + ε) * (1 + η)) ≤ (1 + 1 / 2 ^ 49) * (1 + 1 / 2 ^ 49) := by norm_num
      have : o * o * (K * ((1 + ε) * (1 + η))) ≤ o * o * ((1 + 1 / 2 ^ 49) * (1 + 1 / 2 ^ 49)) :=
        mul_le_mul_of_nonneg_left this (by positivity)
      linarith
    linarith
  have hF0 : 1 / 4 ≤ fsqrt (rn (n * k)) := by
    have := (fsqrt_sq' hP0).1
    have h0 := fsqrt_nonneg (rn (n * k))
    by_contra hcon
    have hcon : fsqrt (rn (n * k)) < 1 / 4 := not_le.mp hcon
    have : fsqrt (rn (n * k)) * fsqrt (rn (n * k)) < 1 / 4 * (1 / 4) := by nlinarith
    have : (1:Rat) / 2 * (1 - η) ≤ rn (n * k) * (1 - η) :=
      mul_le_mul_of_nonneg_right (by linarith) (by norm_num)
    norm_num at *
    linarith
  have h3 : t * fsqrt (rn (n * k)) ≤ o * (1 + 1 / 2 ^ 49) := by
    calc t * fsqrt (rn (n * k)) ≤ t * (o * (1 + 1 / 2 ^ 49) / t) := mul_le_mul_of_nonneg_left hF ht0.le
      _ = _ := by field_simp
  have h6 : τ ≤ t * fsqrt (rn (n * k)) := by
    have : t * (1 / 4) ≤ t * fsqrt (rn (n * k)) := mul_le_mul_of_nonneg_left hF0 ht0.le
    linarith [show τ ≤ 1 / 2 ^ 495 * (1 / 4) by norm_num]
  have := rn_ub_of_leW h6 h3
  refine le_trans this ?_
  rw [mul_assoc]
  exact absorb_up (by linarith) (by linarith) (by norm_num)

/-! ## assembling -/

/-- the three real-number bounds, for every set measure and every wide threshold -/
theorem F_boundsW (m : Measure) (hm : SetMeasure m) {t o n k : Rat} (ht : ThrWide m t) (hc : Counts o n k)
    (hq : t ≤ simF m o n k) :
    lowF m t n ≤ o + 4 / 100000 ∧ k - 4 / 100000 ≤ upF m t n ∧ ovF m t n k ≤ o + 4 / 100000 := by
  rcases hm with rfl | rfl | rfl
  · exact ⟨jac_lowW ht.tw hc hq, jac_upW ht.tw hc hq, jac_ovW ht.tw hc hq⟩
  · have hs := cos_simW ht.tw.pos hc (fsqrt_pos (le_trans hc.o1 hc.on)) (fsqrt_pos (le_trans hc.o1 hc.ok)) hq
    exact ⟨cos_lowW ht.twc hc hs, cos_upW ht.twc hc hs, cos_ovW ht.twc hc hs⟩
  · exact ⟨dice_lowW ht.tw hc hq, dice_upW ht.tw hc hq, dice_ovW ht.tw hc hq⟩

theorem lowF_rangeW (m : Measure) {t n : Rat} (ht : TW t) (hn0 : 0 ≤ n) (hn : n ≤ 2 ^ 32) :
    0 ≤ lowF m t n ∧ lowF m t n ≤ 2 ^ 32 := by
  have ht0 := ht.pos; have ht1 := ht.hi
  cases m with
  | cosine =>
    have c0 : 0 ≤ rn (t * t) := rn_nonneg (by positivity)
    have c2 : rn (t * t) ≤ 1 := rn_le_one (by positivity) (by nlinarith)
    exact ⟨rn_nonneg (by positivity), rn_le_pow 32 (by norm_num) (by positivity) (by nlinarith)⟩
  | dice =>
    obtain ⟨a1, a2⟩ := two_sub_rangeW t ht
    obtain ⟨-, b1, b2⟩ := t_div_rangeW t ht a1 a2
    have b0 : 0 ≤ rn (t / rn (2 - t)) := le_trans (by positivity) b1
    exact ⟨rn_nonneg (by positivity), rn_le_pow 32 (by norm_num) (by positivity) (by nlinarith)⟩
  | jaccard =>
    exact ⟨rn_nonneg (by positivity), rn_le_pow 32 (by norm_num) (by positivity) (by nlinarith)⟩
  | editDistance => simp [lowF]
  | overlap => simp [lowF]

theorem ovF_nonnegW (m : Measure) {t l r : Rat} (ht : TW t) (hl0 : 0 ≤ l) (hr0 : 0 ≤ r) : 0 ≤ ovF m t l r := by
  have ht0 := ht.pos
  cases m with
  | cosine => exact rn_nonneg (mul_nonneg ht0.le (fsqrt_nonneg _))
  | dice => exact rn_nonneg (mul_nonneg (rn_nonneg (by positivity)) (by positivity))
  | jaccard =>
    obtain ⟨a1, a2⟩ := one_add_rangeW t ht
    exact rn_nonneg (mul_nonneg (rn_nonneg (div_nonneg ht0.le (by linarith))) (by positivity))
  | editDistance => exact le_refl _
  | overlap => exact le_refl _

/-! ## integer views -/

theorem lower_eqW (m : Measure) (hm : SetMeasure m) {t : Rat} (ht : ThrWide m t) (n : Nat) (hn : n < 2 ^ 32) :
    (cfgOf m t).lower n = (round4 (lowF m t n)).ceil := by
  simp only [FCfg.lower, lowerV_eqW t m hm ht n hn, PyV.toIntD]

theorem upper_eqW (m : Measure) (hm : SetMeasure m) {t : Rat} (ht : ThrWide m t) (n : Nat) (hn : n < 2 ^ 32) :
    (cfgOf m t).upper n = (round4 (upF m t n)).floor := by
  simp only [FCfg.upper, upperV_eqW t m hm ht n hn, PyV.toIntD]

theorem ovThr_eqW (m : Measure) (hm : SetMeasure m) {t : Rat} (ht : ThrWide m t) (l r : Nat)
    (hl : l < 2 ^ 32) (hr : r < 2 ^ 32) :
    (cfgOf m t).ovThr l r = (round4 (ovF m t l r)).ceil := by
  simp only [FCfg.ovThr, ovThrV_eqW t m hm ht l r hl hr, PyV.toIntD]

/-- prefix length = size − lower bound + 1, for every wide threshold -/
theorem prefixLen_eqW (m : Measure) (hm : SetMeasure m) (t : Rat) (ht : ThrWide m t) (n : Nat) (hn1 : 1 ≤ n) (hn : n < 2 ^ 32) :
    (cfgOf m t).prefixLen n = (n : Int) - (cfgOf m t).lower n + 1 := by
  have hz : n ≠ 0 := by omega
  rw [lower_eqW m hm ht n hn]
  simp only [FCfg.prefixLen, prefixV_eqW t m hm ht n hn, if_neg hz, PyV.toIntD]

/-- no Python error and integer results for every wide threshold -/
theorem gen_noErr_wide (m : Measure) (hm : SetMeasure m) (t : Rat) (ht : ThrWide m t) (n k : Nat) (hn : n < 2 ^ 32) (hk : k < 2 ^ 32) :
    (cfgOf m t).errAt n k = false := by
  simp only [FCfg.errAt, lowerV_eqW t m hm ht n hn, upperV_eqW t m hm ht n hn, prefixV_eqW t m hm ht n hn,
    ovThrV_eqW t m hm ht n k hn hk]
  split_ifs <;> rfl

theorem lower_le_ofW (m : Measure) (hm : SetMeasure m) {t : Rat} (ht : ThrWide m t) (n o : Nat) (hn : n < 2 ^ 32)
    (ho : o < 2 ^ 32) (h : lowF m t n ≤ o + 4 / 100000) : (cfgOf m t).lower n ≤ (o : Int) := by
  rw [lower_eqW m hm ht n hn]
  have ho' := natCast_le_of_lt ho
  exact round4_ceil_le (lowF_rangeW m ht.tw (by positivity) (natCast_le_of_lt hn)).1
    (by push_cast; linarith [show (2:Rat) ^ 32 ≤ 2 ^ 39 by norm_num]) (by push_cast; exact h)

theorem ovThr_le_ofW (m : Measure) (hm : SetMeasure m) {t : Rat} (ht : ThrWide m t) (l r o : Nat) (hl : l < 2 ^ 32)
    (hr : r < 2 ^ 32) (ho : o < 2 ^ 32) (h : ovF m t l r ≤ o + 4 / 100000) : (cfgOf m t).ovThr l r ≤ (o : Int) := by
  rw [ovThr_eqW m hm ht l r hl hr]
  have ho' := natCast_le_of_lt ho
  exact round4_ceil_le (ovF_nonnegW m ht.tw (by positivity) (by positivity))
    (by push_cast; linarith [show (2:Rat) ^ 32 ≤ 2 ^ 39 by norm_num]) (by push_cast; exact h)

/-- the upper bound: `round4_floor_ge'` has no limit on the size of the rounded quotient (it reaches `2¹⁰²³` here) -/
theorem le_upper_ofW (m : Measure) (hm : SetMeasure m) {t : Rat} (ht : ThrWide m t) (n k : Nat) (hn : n < 2 ^ 32)
    (hk : k < 2 ^ 32) (h : (k : Rat) - 4 / 100000 ≤ upF m t n) : (k : Int) ≤ (cfgOf m t).upper n := by
  rw [upper_eqW m hm ht n hn]
  have hk' := natCast_le_of_lt hk
  exact round4_floor_ge' (by positivity)
    (by push_cast; linarith [show (2:Rat) ^ 32 ≤ 2 ^ 52 by norm_num]) (by push_cast; exact h)

/-- G2: the conclusion of `bounds_of_qual_core` for every float threshold `thrLo m ≤ t ≤ 1`
    (`2⁻⁹⁸⁹` for JACCARD and DICE, `2⁻⁴⁹⁵` for COSINE), in particular for `t < 2⁻²⁰` -/
theorem bounds_of_qual_core_small (m : Measure) (hm : SetMeasure m) (t : Rat) (ht : ThrWide m t)
    (n k o : Nat) (ho1 : 1 ≤ o) (hon : o ≤ n) (hok : o ≤ k) (hn : n < 2 ^ 32) (hk : k < 2 ^ 32)
    (s : Rat) (hs : simFormula m o n k = .float s) (hq : t ≤ s) :
    (cfgOf m t).lower n ≤ (k : Int) ∧ (k : Int) ≤ (cfgOf m t).upper n ∧
    (cfgOf m t).ovThr n k ≤ (o : Int) ∧ (cfgOf m t).ovThr k n ≤ (o : Int) ∧
    (n : Int) - o + 1 ≤ (cfgOf m t).prefixLen n ∧ (k : Int) - o + 1 ≤ (cfgOf m t).prefixLen k ∧
    (cfgOf m t).lower n ≤ (o : Int) ∧ (cfgOf m t).lower k ≤ (o : Int) := by
  have hc := Counts.ofNat ho1 hon hok hn hk
  rw [simFormula_eq m hm n k o ho1 hon hok hn hk] at hs
  have hs' : simF m o n k = s := by injection hs
  rw [← hs'] at hq
  have ho : o < 2 ^ 32 := lt_of_le_of_lt hon hn
  obtain ⟨f1, f2, f3⟩ := F_boundsW m hm ht hc hq
  obtain ⟨g1, -, -⟩ := F_boundsW m hm ht hc.symm (by rw [simF_symm]; exact hq)
  have L1 := lower_le_ofW m hm ht n o hn ho f1
  have L2 := lower_le_ofW m hm ht k o hk ho g1
  have hok' : (o : Int) ≤ k := by exact_mod_cast hok
  refine ⟨le_trans L1 hok', le_upper_ofW m hm ht n k hn hk f2, ovThr_le_ofW m hm ht n k o hn hk ho f3,
    ovThr_le_ofW m hm ht k n o hk hn ho (by rw [ovF_symm]; exact f3), ?_, ?_, L1, L2⟩
  · rw [prefixLen_eqW m hm t ht n (le_trans ho1 hon) hn]; omega
  · rw [prefixLen_eqW m hm t ht k (le_trans ho1 hok) hk]; omega

/-! ## G3 — every covered threshold value -/

/-- threshold values covered: a float in `[thrLo m, 1]`, or the Python int `1` -/
inductive WideThr (m : Measure) : PyV → Prop
  | float (t : Rat) (h : ThrWide m t) : WideThr m (.float t)
  | intOne : WideThr m (.int 1)

/-- numeric value of a threshold -/
def thrVal : PyV → Rat
  | .float t => t
  | .int i => i
  | _ => 0

/-- configuration with an arbitrary threshold value (`cfgOf m t = cfgWith m (.float t)`, `cfgInt1 m = cfgWith m (.int 1)`) -/
def cfgWith (m : Measure) (th : PyV) : FCfg := { measure := m, threshold := th, qval := .none }

theorem cfgWith_float (m : Measure) (t : Rat) : cfgWith m (.float t) = cfgOf m t := rfl
theorem cfgWith_int1 (m : Measure) : cfgWith m (.int 1) = cfgInt1 m := rfl

/-- no Python error for every covered threshold value -/
theorem gen_noErr_wide' (m : Measure) (hm : SetMeasure m) (th : PyV) (hth : WideThr m th) (n k : Nat)
    (hn : n < 2 ^ 32) (hk : k < 2 ^ 32) : (cfgWith m th).errAt n k = false := by
  cases hth with
  | float t h => exact gen_noErr_wide m hm t h n k hn hk
  | intOne => exact gen_noErr_int_one m hm n k hn hk

/-- FINAL: for every covered threshold value — a float `t` with `thrLo m ≤ t ≤ 1` or the int `1` — a pair whose
    double-precision similarity reaches the threshold is admitted by all pruning bounds -/
theorem bounds_of_qual_wide (m : Measure) (hm : SetMeasure m) (th : PyV) (hth : WideThr m th)
    (n k o : Nat) (ho1 : 1 ≤ o) (hon : o ≤ n) (hok : o ≤ k) (hn : n < 2 ^ 32) (hk : k < 2 ^ 32)
    (s : Rat) (hs : simFormula m o n k = .float s) (hq : thrVal th ≤ s) :
    (cfgWith m th).lower n ≤ (k : Int) ∧ (k : Int) ≤ (cfgWith m th).upper n ∧
    (cfgWith m th).ovThr n k ≤ (o : Int) ∧ (cfgWith m th).ovThr k n ≤ (o : Int) ∧
    (n : Int) - o + 1 ≤ (cfgWith m th).prefixLen n ∧ (k : Int) - o + 1 ≤ (cfgWith m th).prefixLen k ∧
    (cfgWith m th).lower n ≤ (o : Int) ∧ (cfgWith m th).lower k ≤ (o : Int) := by
  cases hth with
  | float t h => exact bounds_of_qual_core_small m hm t h n k o ho1 hon hok hn hk s hs hq
  | intOne =>
    exact bounds_of_qual_int_one m hm n k o ho1 hon hok hn hk s hs (by simpa [thrVal] using hq)

/-! ## the range cannot be `2⁻⁵⁰⁰` for COSINE -/

namespace Wide

/-- powers of two in the normal range are doubles -/
theorem rn_pow2 (e : Int) (he : -1022 ≤ e) : rn (pow2 e) = pow2 e := by
  rw [rn_of_pos (pow2_pos e)]
  have hl : ilog2 (pow2 e) = e := ilog2_unique (le_refl _) (pow2_lt (by omega))
  have hu : ulpExp (pow2 e) = e - 52 := by
    unfold ulpExp; rw [hl]; omega
  apply rnPos_grid (n := 2 ^ 52)
  rw [hu, pow2_sub, show (52 : Int) = ((52 : Nat) : Int) by rfl, pow2_ofNat]
  push_cast
  field_simp
  norm_num

end Wide

/-- LIMIT (cosine): at `t = 2⁻⁵⁰⁰` the size upper bound of a record with `2²⁴` tokens overflows binary64
    (`2²⁴ / (t·t) = 2¹⁰²⁴`): Python raises `OverflowError`, the model returns `err overflow`, and the integer view
    `upper` is `0`, so `k ≤ upper n` fails for every `k ≥ 1`.  Hence `thrLo .cosine` cannot be `2⁻⁵⁰⁰` with sizes up to `2³²`. -/
theorem cosine_overflow_at_500 :
    (cfgOf .cosine (1 / 2 ^ 500)).upperV (2 ^ 24) = .err .overflow ∧ (cfgOf .cosine (1 / 2 ^ 500)).upper (2 ^ 24) = 0 ∧
    (cfgOf .cosine (1 / 2 ^ 500)).errAt (2 ^ 24) (2 ^ 24) = true := by
  have htt : (1 : Rat) / 2 ^ 500 * (1 / 2 ^ 500) = pow2 (-1000) := by
    rw [show (-1000 : Int) = -((1000 : Nat) : Int) by rfl, pow2_neg]; norm_num
  have hq : (((2 ^ 24 : Nat) : Rat)) / pow2 (-1000) = pow2 1024 := by
    rw [show (-1000 : Int) = -((1000 : Nat) : Int) by rfl, pow2_neg,
      show (1024 : Int) = ((1024 : Nat) : Int) by rfl, pow2_ofNat]; norm_num
  have hh : huge = pow2 1024 := by
    rw [show (1024 : Int) = ((1024 : Nat) : Int) by rfl, pow2_ofNat]
    simp only [huge, Nat.cast_pow, Nat.cast_ofNat]
  have h1 : (cfgOf .cosine (1 / 2 ^ 500)).upperV (2 ^ 24) = .err .overflow := by
    simp only [FCfg.upperV, cfgOf, Measure.name, Gen.get_size_upper_bound, eqb_str]
    simp only [String.reduceBEq, ↓reduceIte]
    rw [mul_ff, htt, ofExact_float (pow2_pos _).le (le_trans (pow2_mono (show (-1000 : Int) ≤ 0 by norm_num)) (by
      rw [show (0 : Int) = ((0 : Nat) : Int) by rfl, pow2_ofNat]; norm_num)), rn_pow2 _ (by norm_num)]
    have e : PyV.div (.int ((2 ^ 24 : Nat) : Int)) (.float (pow2 (-1000))) = .inf := by
      rw [div_nf _ _ (by norm_num) (pow2_pos _).ne', hq]
      unfold PyV.ofExact
      simp only [rn_pow2 1024 (by norm_num), hh, ge_iff_le, le_refl, if_true]
    rw [e]
    rfl
  refine ⟨h1, ?_, ?_⟩
  · simp only [FCfg.upper, h1, PyV.toIntD]
  · simp only [FCfg.errAt, h1, PyV.isInt]
    simp

/-! ## the interface `BoundsFacts` for every covered threshold value -/

/-- the bounds accept a set paired with itself, for every wide float threshold (the "equal sets ↦ 1.0" shortcut of
    py_stringmatching is not the double-precision formula, so this case is separate; cf. `bounds_self`) -/
theorem bounds_selfW (m : Measure) (hm : SetMeasure m) (t : Rat) (ht : ThrWide m t) (n : Nat) (hn1 : 1 ≤ n)
    (hn : n < 2 ^ 32) : BoundsFacts (cfgOf m t) n n n := by
  have hc : Counts (n : Rat) n n := Counts.ofNat hn1 le_rfl le_rfl hn hn
  have hn1' : (1 : Rat) ≤ n := by exact_mod_cast hn1
  have hn0 : (0 : Rat) < n := by linarith
  have hF : lowF m t n ≤ n + 4 / 100000 ∧ (n : Rat) - 4 / 100000 ≤ upF m t n ∧ ovF m t n n ≤ n + 4 / 100000 := by
    rcases hm with rfl | rfl | rfl
    · apply F_boundsW .jaccard (Or.inl rfl) ht hc
      have : (n : Rat) / (n + n - n) = 1 := by
        rw [show (n : Rat) + n - n = n by ring, div_self hn0.ne']
      simp only [simF, this, rn_one_eq]; exact ht.hi
    · have ht0 := ht.tw.pos
      have ht1 := ht.hi
      have hs : t * t * ((n : Rat) * n) ≤ (n : Rat) * n * K := by
        have hK : (1 : Rat) ≤ K := by norm_num
        have htt : t * t ≤ 1 := by nlinarith
        have hnn : (0 : Rat) ≤ (n : Rat) * n := by positivity
        calc t * t * ((n : Rat) * n) ≤ 1 * ((n : Rat) * n) := mul_le_mul_of_nonneg_right htt hnn
          _ = (n : Rat) * n * 1 := by ring
          _ ≤ _ := mul_le_mul_of_nonneg_left hK hnn
      exact ⟨cos_lowW ht.twc hc hs, cos_upW ht.twc hc hs, cos_ovW ht.twc hc hs⟩
    · apply F_boundsW .dice (Or.inr (Or.inr rfl)) ht hc
      have : 2 * (n : Rat) / (n + n) = 1 := by
        rw [show (n : Rat) + n = 2 * n by ring, div_self (by positivity)]
      simp only [simF, this, rn_one_eq]; exact ht.hi
  obtain ⟨f1, f2, f3⟩ := hF
  have L := lower_le_ofW m hm ht n n hn hn f1
  have hp := prefixLen_eqW m hm t ht n hn1 hn
  exact ⟨L, le_upper_ofW m hm ht n n hn hn f2, ovThr_le_ofW m hm ht n n n hn hn hn f3,
    by rw [hp]; omega, by rw [hp]; omega⟩

/-- the bounds accept a set paired with itself, for every covered threshold value -/
theorem bounds_self_wide (m : Measure) (hm : SetMeasure m) (th : PyV) (hth : WideThr m th) (n : Nat) (hn1 : 1 ≤ n)
    (hn : n < 2 ^ 32) : BoundsFacts (cfgWith m th) n n n := by
  cases hth with
  | float t h => exact bounds_selfW m hm t h n hn1 hn
  | intOne =>
    obtain ⟨a1, a2, a3, a4⟩ := int1_eq_float1 m hm n n hn hn
    obtain ⟨h1, h2, h3, h4, h5⟩ := bounds_selfW m hm 1 (thrOK_one.wide m) n hn1 hn
    constructor <;>
      simpa only [cfgWith_int1, FCfg.lower, FCfg.upper, FCfg.ovThr, FCfg.prefixLen, a1, a2, a3, a4] using ‹_›

/-- `bounds_of_qual_wide` packaged as `BoundsFacts` (probe size `n`, candidate size `k`, overlap `o`) -/
theorem boundsFacts_wide (m : Measure) (hm : SetMeasure m) (th : PyV) (hth : WideThr m th)
    (n k o : Nat) (ho1 : 1 ≤ o) (hon : o ≤ n) (hok : o ≤ k) (hn : n < 2 ^ 32) (hk : k < 2 ^ 32)
    (s : Rat) (hs : simFormula m o n k = .float s) (hq : thrVal th ≤ s) : BoundsFacts (cfgWith m th) n k o := by
  obtain ⟨h1, h2, -, h4, h5, h6, -, -⟩ := bounds_of_qual_wide m hm th hth n k o ho1 hon hok hn hk s hs hq
  exact ⟨h1, h2, h4, h5, h6⟩

/-- with the int threshold `1` a non-empty record has prefix length 1 -/
theorem prefixLen_int_one (m : Measure) (hm : SetMeasure m) (n : Nat) (hn : n < 2 ^ 32) :
    (cfgInt1 m).prefixLen n = if n = 0 then 0 else 1 := by
  simp only [FCfg.prefixLen, prefixV_int1 m hm n hn]
  split_ifs <;> rfl

theorem prefixLen_le_int_one (m : Measure) (hm : SetMeasure m) (n : Nat) (hn : n < 2 ^ 32) :
    (cfgInt1 m).prefixLen n ≤ (n : Int) := by
  rw [prefixLen_int_one m hm n hn]
  split_ifs <;> omega

/-! ## non-vacuity -/

example : ThrWide .jaccard (1 / 2 ^ 989) := ⟨le_refl _, by norm_num⟩
example : ThrWide .dice (1 / 2 ^ 600) := ⟨by simp only [thrLo]; norm_num, by norm_num⟩
example : ThrWide .cosine (1 / 2 ^ 495) := ⟨le_refl _, by norm_num⟩
example : WideThr .cosine (.float (1 / 2 ^ 30)) := .float _ ⟨by simp only [thrLo]; norm_num, by norm_num⟩
example : WideThr .dice (.int 1) := .intOne

end SSJ

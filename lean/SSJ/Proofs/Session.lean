/-
  SSJ.Proofs.Session — properties C12 (the caller's tokenizer is left untouched; no call affects a
  later one) and the rejection half of C15 (invalid arguments are rejected, before any state is
  touched, with the documented exception class).
-/
import SSJ.Model.Session
import SSJ.Proofs.TokenOrdering
import SSJ.Proofs.Profiler
import SSJ.Proofs.KeyEq

namespace SSJ

/-! ### `withFlag` -/

theorem withFlag_result (t : TokObj) (want : Bool) (body : Except PyErr Frame) :
    (withFlag t want body).result = body := rfl

/-- `try … finally`: whatever the body does, the flag is restored -/
theorem withFlag_flag (t : TokObj) (want : Bool) (body : Except PyErr Frame) :
    (withFlag t want body).flagAfter = t.returnSet := rfl

/-! ### C12: every call — normal return, rejection, or exception in the body — leaves the flag as it found it -/

/-- jaccard / cosine / dice join: the flag is restored on every path -/
theorem setSimJoinPy_flag (m : Measure) (a : JoinArgs) (t : TokObj) (toks : TokFn) (cpu : Int) :
    (setSimJoinPy m a t toks cpu).flagAfter = t.returnSet := by
  unfold setSimJoinPy
  split <;> rfl

theorem overlapCoefficientJoinPy_flag (a : JoinArgs) (t : TokObj) (toks : TokFn) (cpu : Int) :
    (overlapCoefficientJoinPy a t toks cpu).flagAfter = t.returnSet := by
  unfold overlapCoefficientJoinPy
  split <;> rfl

theorem editDistanceJoinPy_flag (a : JoinArgs) (t : TokObj) (toks : TokFn) (cpu : Int) :
    (editDistanceJoinPy a t toks cpu).flagAfter = t.returnSet := by
  unfold editDistanceJoinPy
  split
  · rfl
  · split <;> rfl

/-- `overlap_join_py` (repaired, F4) restores the flag on every path -/
theorem overlapJoinPy_flag (a : JoinArgs) (t : TokObj) (toks : TokFn) (cpu : Int) :
    (overlapJoinPy a t toks cpu).flagAfter = t.returnSet := rfl

/-! ### the generated validators (`SSJ/Gen/Validation.lean`) -/
namespace Gen

theorem validate_threshold_cases (thr m : PyV) :
    validate_threshold thr m = .err .assertion ∨ validate_threshold thr m = .bool true := by
  unfold validate_threshold
  split_ifs <;> simp

theorem validate_comp_op_for_sim_measure_cases (op m : PyV) :
    validate_comp_op_for_sim_measure op m = .err .assertion ∨
      validate_comp_op_for_sim_measure op m = .bool true := by
  unfold validate_comp_op_for_sim_measure
  split_ifs <;> simp

theorem validate_comp_op_cases (op : PyV) :
    validate_comp_op op = .err .assertion ∨ validate_comp_op op = .none := by
  unfold validate_comp_op
  split_ifs <;> simp

/-- the similarity measures whose threshold must lie in (0, 1] -/
def unitMeasure (mname : String) : Prop :=
  mname = "JACCARD" ∨ mname = "COSINE" ∨ mname = "DICE" ∨ mname = "OVERLAP_COEFFICIENT"

theorem unitMeasure_ne_ed {mname : String} (h : unitMeasure mname) : mname ≠ "EDIT_DISTANCE" := by
  rcases h with rfl | rfl | rfl | rfl <;> simp

theorem validate_threshold_unit (mname : String) (q : Rat) (hm : unitMeasure mname) :
    validate_threshold (.float q) (.str mname) = .err .assertion ↔ q ≤ 0 ∨ 1 < q := by
  rcases hm with rfl | rfl | rfl | rfl <;>
    simp [validate_threshold, PyV.eqb, PyV.leb, PyV.gtb, PyV.ltb, PyV.numVal?] <;>
    (rw [← Rat.not_le (a := q) (b := 0), ← Rat.not_le (a := q) (b := 1)]; tauto)

theorem validate_threshold_unit_int (mname : String) (i : Int) (hm : unitMeasure mname) :
    validate_threshold (.int i) (.str mname) = .err .assertion ↔ i ≤ 0 ∨ 1 < i := by
  rcases hm with rfl | rfl | rfl | rfl <;>
    simp [validate_threshold, PyV.eqb, PyV.leb, PyV.gtb, PyV.ltb, PyV.numVal?] <;>
    (rw [Rat.not_le]; norm_cast; omega)

theorem validate_threshold_ed (i : Int) :
    validate_threshold (.int i) (.str "EDIT_DISTANCE") = .err .assertion ↔ i < 0 := by
  simp [validate_threshold, PyV.eqb, PyV.geb, PyV.leb, PyV.numVal?]
  rw [Rat.not_le]; norm_cast

theorem validate_threshold_ed_float (q : Rat) :
    validate_threshold (.float q) (.str "EDIT_DISTANCE") = .err .assertion ↔ q < 0 := by
  simp [validate_threshold, PyV.eqb, PyV.geb, PyV.leb, PyV.numVal?]
  exact Rat.not_le

theorem validate_threshold_overlap (i : Int) :
    validate_threshold (.int i) (.str "OVERLAP") = .err .assertion ↔ i ≤ 0 := by
  simp [validate_threshold, PyV.eqb, PyV.gtb, PyV.ltb, PyV.numVal?]
  rw [Rat.not_lt]; norm_cast

theorem validate_threshold_overlap_float (q : Rat) :
    validate_threshold (.float q) (.str "OVERLAP") = .err .assertion ↔ q ≤ 0 := by
  simp [validate_threshold, PyV.eqb, PyV.gtb, PyV.ltb, PyV.numVal?]
  exact Rat.not_lt

/-! the acceptance sets for an ARBITRARY threshold value (the repaired `if not threshold >= 0` etc.: anything
    that does not compare as required — in particular every non-number — is rejected) -/

theorem validate_threshold_ed_iff (v : PyV) :
    validate_threshold v (.str "EDIT_DISTANCE") ≠ .err .assertion ↔ PyV.geb v (.int 0) = true := by
  cases h : PyV.geb v (.int 0) <;> simp [validate_threshold, PyV.eqb, h]

theorem validate_threshold_overlap_iff (v : PyV) :
    validate_threshold v (.str "OVERLAP") ≠ .err .assertion ↔ PyV.gtb v (.int 0) = true := by
  cases h : PyV.gtb v (.int 0) <;> simp [validate_threshold, PyV.eqb, h]

theorem validate_threshold_unit_iff (mname : String) (v : PyV) (hm : unitMeasure mname) :
    validate_threshold v (.str mname) ≠ .err .assertion ↔
      PyV.gtb v (.int 0) = true ∧ PyV.leb v (.int 1) = true := by
  rcases hm with rfl | rfl | rfl | rfl <;>
    cases h : PyV.gtb v (.int 0) <;> cases h' : PyV.leb v (.int 1) <;> simp [validate_threshold, PyV.eqb, h, h']

/-- a threshold that is not a number (a string, `None`, …) is rejected, whatever the measure -/
theorem validate_threshold_non_numeric (v : PyV) (mname : String) (hv : PyV.numVal? v = Option.none) :
    validate_threshold v (.str mname) = .err .assertion := by
  cases v <;> simp [PyV.numVal?] at hv <;>
    simp [validate_threshold, PyV.geb, PyV.gtb, PyV.leb, PyV.ltb, PyV.numVal?]

end Gen

/-- `x > 0` excludes `x <= 0` (also for `inf`; both are false for a non-number) -/
theorem PyV.leb_zero_of_gtb_zero {v : PyV} (h : PyV.gtb v (.int 0) = true) : PyV.leb v (.int 0) = false := by
  cases v <;> simp_all [PyV.gtb, PyV.ltb, PyV.leb, PyV.numVal?] <;> exact Rat.not_le.mpr h

namespace Gen

theorem validate_comp_op_for_sim_measure_sim (op mname : String) (hm : mname ≠ "EDIT_DISTANCE") :
    validate_comp_op_for_sim_measure (.str op) (.str mname) = .err .assertion ↔ op ∉ [">=", ">", "="] := by
  simp [validate_comp_op_for_sim_measure, PyV.eqb, hm]

theorem validate_comp_op_for_sim_measure_ed (op : String) :
    validate_comp_op_for_sim_measure (.str op) (.str "EDIT_DISTANCE") = .err .assertion ↔
      op ∉ ["<=", "<", "="] := by
  simp [validate_comp_op_for_sim_measure, PyV.eqb]

theorem validate_comp_op_iff (op : String) :
    validate_comp_op (.str op) = .err .assertion ↔ op ∉ [">=", ">", "<=", "<", "=", "!="] := by
  simp [validate_comp_op, PyV.eqb]

end Gen

/-! ### `validateJoin` in normal form -/

theorem raiseIf_bind {α : Type} (c : Bool) (e : PyErr) (f : Unit → Except PyErr α) :
    (raiseIf c e >>= f) = if c then .error e else f () := by
  cases c <;> rfl

theorem genCheck_bind_of_cases {α : Type} (v w : PyV) (f : Unit → Except PyErr α)
    (h : v = .err .assertion ∨ v = w) (hw : w.isErr = false) :
    (genCheck v >>= f) = if v = .err .assertion then .error .assertion else f () := by
  rcases h with h | h
  · subst h; rfl
  · subst h
    cases v <;> first | rfl | simp [PyV.isErr] at hw

/-- the table / attribute part of a request is valid -/
structure TablesValid (a : TableArgs) (l r : Frame) : Prop where
  ltable : a.ltable = some l
  rtable : a.rtable = some r
  lKey : l.hasCol a.lKey = true
  rKey : r.hasCol a.rKey = true
  lAttr : l.hasCol a.lAttr = true
  rAttr : r.hasCol a.rAttr = true
  lType : l.dtype a.lAttr = "object" ∨ l.dtype a.lAttr = "str"
  rType : r.dtype a.rAttr = "object" ∨ r.dtype a.rAttr = "str"

theorem validateTablesAttrs_some (a : TableArgs) (l r : Frame) (hl : a.ltable = some l) (hr : a.rtable = some r) :
    validateTablesAttrs a =
      if !l.hasCol a.lKey then .error .assertion
      else if !r.hasCol a.rKey then .error .assertion
      else if !l.hasCol a.lAttr then .error .assertion
      else if !r.hasCol a.rAttr then .error .assertion
      else if (l.dtype a.lAttr != "object" && l.dtype a.lAttr != "str") then .error .assertion
      else if (r.dtype a.rAttr != "object" && r.dtype a.rAttr != "str") then .error .assertion
      else .ok (l, r) := by
  unfold validateTablesAttrs validateInputTable validateAttr validateAttrType
  simp only [hl, hr, raiseIf_bind]
  rfl

theorem validateTablesAttrs_none (a : TableArgs) (h : a.ltable = none ∨ a.rtable = none) :
    validateTablesAttrs a = .error .typeErr := by
  unfold validateTablesAttrs validateInputTable
  cases hl : a.ltable with
  | none => rfl
  | some l =>
    rcases h with h | h
    · rw [hl] at h; cases h
    · rw [h]; rfl

theorem validateTablesAttrs_ok_iff (a : TableArgs) (l r : Frame) :
    validateTablesAttrs a = .ok (l, r) ↔ TablesValid a l r := by
  constructor
  · intro h
    cases hl : a.ltable with
    | none => rw [validateTablesAttrs_none a (Or.inl hl)] at h; cases h
    | some l' =>
      cases hr : a.rtable with
      | none => rw [validateTablesAttrs_none a (Or.inr hr)] at h; cases h
      | some r' =>
        rw [validateTablesAttrs_some a l' r' hl hr] at h
        split_ifs at h with h1 h2 h3 h4 h5 h6
        simp only [Except.ok.injEq, Prod.mk.injEq] at h
        obtain ⟨rfl, rfl⟩ := h
        refine ⟨hl, hr, ?_, ?_, ?_, ?_, ?_, ?_⟩
        · simpa using h1
        · simpa using h2
        · simpa using h3
        · simpa using h4
        · simp at h5; tauto
        · simp at h6; tauto
  · intro h
    rw [validateTablesAttrs_some a l r h.ltable h.rtable]
    have h5 := h.lType
    have h6 := h.rType
    simp only [h.lKey, h.rKey, h.lAttr, h.rAttr]
    rcases h5 with h5 | h5 <;> rcases h6 with h6 | h6 <;> simp [h5, h6]

theorem validateTablesAttrs_error_kind (a : TableArgs) (e : PyErr) (h : validateTablesAttrs a = .error e) :
    e = .typeErr ∨ e = .assertion := by
  cases hl : a.ltable with
  | none => rw [validateTablesAttrs_none a (Or.inl hl)] at h; cases h; exact Or.inl rfl
  | some l' =>
    cases hr : a.rtable with
    | none => rw [validateTablesAttrs_none a (Or.inr hr)] at h; cases h; exact Or.inl rfl
    | some r' =>
      rw [validateTablesAttrs_some a l' r' hl hr] at h
      split_ifs at h <;> cases h <;> exact Or.inr rfl

/-- the tokenizer check of a join -/
def tokCheck (mname : String) (t : TokObj) : Except PyErr Unit :=
  if mname == "EDIT_DISTANCE" then validateTokenizerForSimMeasure t .editDistance else validateTokenizer t

theorem tokCheck_bind {α : Type} (mname : String) (t : TokObj) (f : Unit → Except PyErr α) :
    (tokCheck mname t >>= f) =
      if !t.isTokenizer then .error .typeErr
      else if (mname == "EDIT_DISTANCE" && !t.isQgram) then .error .assertion
      else f () := by
  unfold tokCheck validateTokenizerForSimMeasure validateTokenizer
  generalize (mname == "EDIT_DISTANCE") = b
  cases b <;> cases t.isTokenizer <;> cases t.isQgram <;> rfl

theorem validateJoin_eq (mname : String) (a : JoinArgs) (t : TokObj) :
    validateJoin mname a t =
      validateTablesAttrs a.toTableArgs >>= fun p =>
      tokCheck mname t >>= fun _ =>
      genCheck (Gen.validate_threshold a.threshold (.str mname)) >>= fun _ =>
      genCheck (Gen.validate_comp_op_for_sim_measure (.str a.compOp) (.str mname)) >>= fun _ =>
      validateOutAndKeys a.toTableArgs p.1 p.2 >>= fun _ => pure p := by
  unfold validateJoin tokCheck
  cases validateTablesAttrs a.toTableArgs with
  | error e => rfl
  | ok p =>
    obtain ⟨l, r⟩ := p
    show _ = ite _ _ _ >>= _
    split_ifs <;> rfl

/-- the boolean key test of `validate_key_attr`: `len(table[key].unique()) == len(table)` (values identified under
    Python equality, `Cell.pyEq`) and no missing key -/
def keyTest (f : Frame) (k : String) : Bool :=
  (Profiler.dedupBy Cell.pyEq (f.col k)).length == (f.col k).length && !(f.col k).any Cell.isMissing

/-- a key column: no two values equal as Python values (`1`, `1.0` and `True` are the same value, `'1'` is another:
    `PyDistinct`), no missing values -/
def KeyValid (f : Frame) (k : String) : Prop :=
  PyDistinct (f.col k) ∧ ∀ c ∈ f.col k, c.isMissing = false

/-- the cells of a key column are pairwise different -/
theorem KeyValid.nodup {f : Frame} {k : String} (h : KeyValid f k) : (f.col k).Nodup := h.1.nodup

theorem keyTest_iff (f : Frame) (k : String) : keyTest f k = true ↔ KeyValid f k := by
  unfold keyTest KeyValid PyDistinct
  simp only [Bool.and_eq_true, beq_iff_eq, Profiler.dedupBy_length_eq_iff, Bool.not_eq_true',
    List.any_eq_false]
  simp

/-- `validate_key_attr` succeeds exactly on key columns -/
theorem validateKeyAttr_ok_iff_keyValid (k : String) (f : Frame) : validateKeyAttr k f = .ok () ↔ KeyValid f k :=
  validateKeyAttr_ok_iff k f

theorem validateOutAndKeys_bind {α : Type} (a : TableArgs) (l r : Frame) (f : Unit → Except PyErr α) :
    (validateOutAndKeys a l r >>= f) =
      if (a.lOut.getD []).any (fun x => !l.hasCol x) then .error .assertion
      else if (a.rOut.getD []).any (fun x => !r.hasCol x) then .error .assertion
      else if !keyTest l a.lKey then .error .assertion
      else if !keyTest r a.rKey then .error .assertion
      else f () := by
  unfold validateOutAndKeys validateOutputAttrs validateKeyAttr
  show ((raiseIf ((a.lOut.getD []).any fun x => !l.hasCol x) _ >>= fun _ =>
      raiseIf ((a.rOut.getD []).any fun x => !r.hasCol x) _) >>= fun _ =>
      raiseIf (!keyTest l a.lKey) _ >>= fun _ => raiseIf (!keyTest r a.rKey) _) >>= f = _
  generalize ((a.lOut.getD []).any fun x => !l.hasCol x) = b1
  generalize ((a.rOut.getD []).any fun x => !r.hasCol x) = b2
  generalize keyTest l a.lKey = b3
  generalize keyTest r a.rKey = b4
  cases b1 <;> cases b2 <;> cases b3 <;> cases b4 <;> rfl

/-- `validateJoin` once the tables/attributes part has passed: a cascade of tests in code order -/
theorem validateJoin_of_tables (mname : String) (a : JoinArgs) (t : TokObj) (l r : Frame)
    (hv : validateTablesAttrs a.toTableArgs = .ok (l, r)) :
    validateJoin mname a t =
      if !t.isTokenizer then .error .typeErr
      else if (mname == "EDIT_DISTANCE" && !t.isQgram) then .error .assertion
      else if Gen.validate_threshold a.threshold (.str mname) = .err .assertion then .error .assertion
      else if Gen.validate_comp_op_for_sim_measure (.str a.compOp) (.str mname) = .err .assertion then
        .error .assertion
      else if (a.lOut.getD []).any (fun x => !l.hasCol x) then .error .assertion
      else if (a.rOut.getD []).any (fun x => !r.hasCol x) then .error .assertion
      else if !keyTest l a.lKey then .error .assertion
      else if !keyTest r a.rKey then .error .assertion
      else .ok (l, r) := by
  rw [validateJoin_eq, hv]
  show (tokCheck mname t >>= _) = _
  rw [tokCheck_bind,
    genCheck_bind_of_cases _ _ _ (Gen.validate_threshold_cases _ _) rfl,
    genCheck_bind_of_cases _ _ _ (Gen.validate_comp_op_for_sim_measure_cases _ _) rfl,
    validateOutAndKeys_bind]
  rfl

theorem validateJoin_of_tables_error (mname : String) (a : JoinArgs) (t : TokObj) (e : PyErr)
    (hv : validateTablesAttrs a.toTableArgs = .error e) : validateJoin mname a t = .error e := by
  rw [validateJoin_eq, hv]
  rfl

/-! ### C15: exception classes -/

/-- a rejected call (validation error) is rejected with TypeError or AssertionError -/
theorem validateJoin_error_kind (mname : String) (a : JoinArgs) (t : TokObj) (e : PyErr)
    (h : validateJoin mname a t = .error e) : e = .typeErr ∨ e = .assertion := by
  cases hv : validateTablesAttrs a.toTableArgs with
  | error e' =>
    rw [validateJoin_of_tables_error mname a t e' hv] at h
    cases h
    exact validateTablesAttrs_error_kind _ _ hv
  | ok p =>
    obtain ⟨l, r⟩ := p
    rw [validateJoin_of_tables mname a t l r hv] at h
    split_ifs at h <;> cases h <;> simp

/-- the tokenizer is acceptable for the measure -/
def TokValid (mname : String) (t : TokObj) : Prop :=
  t.isTokenizer = true ∧ (mname = "EDIT_DISTANCE" → t.isQgram = true)

/-- every requested output attribute exists -/
def OutValid (a : TableArgs) (l r : Frame) : Prop :=
  (∀ x ∈ a.lOut.getD [], l.hasCol x = true) ∧ (∀ x ∈ a.rOut.getD [], r.hasCol x = true)

/-- COMPLETE CHARACTERISATION of acceptance: `validateJoin` accepts exactly the requests whose
    tables, attributes, tokenizer, threshold, operator, output attributes and keys are all valid
    (and then returns the two tables). -/
theorem validateJoin_ok_iff (mname : String) (a : JoinArgs) (t : TokObj) (l r : Frame) :
    validateJoin mname a t = .ok (l, r) ↔
      TablesValid a.toTableArgs l r ∧ TokValid mname t ∧
      Gen.validate_threshold a.threshold (.str mname) ≠ .err .assertion ∧
      Gen.validate_comp_op_for_sim_measure (.str a.compOp) (.str mname) ≠ .err .assertion ∧
      OutValid a.toTableArgs l r ∧ KeyValid l a.lKey ∧ KeyValid r a.rKey := by
  rw [← validateTablesAttrs_ok_iff, ← keyTest_iff, ← keyTest_iff]
  unfold TokValid OutValid
  constructor
  · intro h
    cases hv : validateTablesAttrs a.toTableArgs with
    | error e' => rw [validateJoin_of_tables_error mname a t e' hv] at h; cases h
    | ok p =>
      obtain ⟨l', r'⟩ := p
      rw [validateJoin_of_tables mname a t l' r' hv] at h
      split_ifs at h with h1 h2 h3 h4 h5 h6 h7 h8
      simp only [Except.ok.injEq, Prod.mk.injEq] at h
      obtain ⟨rfl, rfl⟩ := h
      refine ⟨rfl, ⟨by simpa using h1, ?_⟩, h3, h4, ⟨?_, ?_⟩, by simpa using h7, by simpa using h8⟩
      · intro hm
        subst hm
        simpa using h2
      · simpa using h5
      · simpa using h6
  · rintro ⟨hv, ⟨h1, h2⟩, h3, h4, ⟨h5, h6⟩, h7, h8⟩
    rw [validateJoin_of_tables mname a t l r hv]
    have h2' : (mname == "EDIT_DISTANCE" && !t.isQgram) = false := by
      by_cases hm : mname = "EDIT_DISTANCE"
      · simp [h2 hm]
      · simp [hm]
    have h5' : ((a.lOut.getD []).any fun x => !l.hasCol x) = false := by
      simpa using h5
    have h6' : ((a.rOut.getD []).any fun x => !r.hasCol x) = false := by
      simpa using h6
    simp [h1, h2', h3, h4, h5', h6', h7, h8]

/-! #### each kind of invalid argument, in an otherwise valid context (all earlier checks pass) -/

/-- a table that is not a DataFrame ⇒ TypeError -/
theorem validateJoin_not_frame (mname : String) (a : JoinArgs) (t : TokObj)
    (h : a.ltable = none ∨ a.rtable = none) :
    validateJoin mname a t = .error .typeErr :=
  validateJoin_of_tables_error _ _ _ _ (validateTablesAttrs_none _ h)

/-- a key or join attribute that is not a column of its table ⇒ AssertionError -/
theorem validateJoin_missing_attr (mname : String) (a : JoinArgs) (t : TokObj) (l r : Frame)
    (hl : a.ltable = some l) (hr : a.rtable = some r)
    (h : ¬ l.hasCol a.lKey ∨ ¬ r.hasCol a.rKey ∨ ¬ l.hasCol a.lAttr ∨ ¬ r.hasCol a.rAttr) :
    validateJoin mname a t = .error .assertion := by
  apply validateJoin_of_tables_error
  rw [validateTablesAttrs_some _ l r hl hr]
  split_ifs with h1 h2 h3 h4 <;> first | rfl | skip
  all_goals (exfalso; simp at h1 h2 h3 h4; simp [h1, h2, h3, h4] at h)

/-- a numeric join column (dtype neither "object" nor "str") ⇒ AssertionError -/
theorem validateJoin_numeric_attr (mname : String) (a : JoinArgs) (t : TokObj) (l r : Frame)
    (hl : a.ltable = some l) (hr : a.rtable = some r)
    (hlk : l.hasCol a.lKey = true) (hrk : r.hasCol a.rKey = true)
    (hla : l.hasCol a.lAttr = true) (hra : r.hasCol a.rAttr = true)
    (h : (l.dtype a.lAttr ≠ "object" ∧ l.dtype a.lAttr ≠ "str") ∨
         (r.dtype a.rAttr ≠ "object" ∧ r.dtype a.rAttr ≠ "str")) :
    validateJoin mname a t = .error .assertion := by
  apply validateJoin_of_tables_error
  rw [validateTablesAttrs_some _ l r hl hr]
  simp only [hlk, hrk, hla, hra]
  split_ifs with h1 h2 <;> first | rfl | skip
  all_goals (exfalso; simp at h1 h2; rcases h with ⟨h3, h4⟩ | ⟨h3, h4⟩ <;> simp_all)

/-- not a Tokenizer object ⇒ TypeError -/
theorem validateJoin_not_tokenizer (mname : String) (a : JoinArgs) (t : TokObj) (l r : Frame)
    (hv : TablesValid a.toTableArgs l r) (h : t.isTokenizer = false) :
    validateJoin mname a t = .error .typeErr := by
  rw [validateJoin_of_tables mname a t l r ((validateTablesAttrs_ok_iff _ _ _).mpr hv)]
  simp [h]

/-- edit distance with a tokenizer that is not a q-gram tokenizer ⇒ AssertionError -/
theorem validateJoin_not_qgram (a : JoinArgs) (t : TokObj) (l r : Frame)
    (hv : TablesValid a.toTableArgs l r) (ht : t.isTokenizer = true) (h : t.isQgram = false) :
    validateJoin "EDIT_DISTANCE" a t = .error .assertion := by
  rw [validateJoin_of_tables _ a t l r ((validateTablesAttrs_ok_iff _ _ _).mpr hv)]
  simp [ht, h]

theorem TokValid.cond {mname : String} {t : TokObj} (h : TokValid mname t) :
    (!t.isTokenizer) = false ∧ (mname == "EDIT_DISTANCE" && !t.isQgram) = false := by
  obtain ⟨h1, h2⟩ := h
  refine ⟨by simp [h1], ?_⟩
  by_cases hm : mname = "EDIT_DISTANCE"
  · simp [h2 hm]
  · simp [hm]

/-- threshold rejected by `validate_threshold` ⇒ AssertionError -/
theorem validateJoin_threshold (mname : String) (a : JoinArgs) (t : TokObj) (l r : Frame)
    (hv : TablesValid a.toTableArgs l r) (ht : TokValid mname t)
    (h : Gen.validate_threshold a.threshold (.str mname) = .err .assertion) :
    validateJoin mname a t = .error .assertion := by
  rw [validateJoin_of_tables _ a t l r ((validateTablesAttrs_ok_iff _ _ _).mpr hv)]
  simp [ht.cond.1, ht.cond.2, h]

/-- jaccard / cosine / dice / overlap coefficient: a float threshold outside (0, 1] ⇒ AssertionError -/
theorem validateJoin_threshold_unit (mname : String) (a : JoinArgs) (t : TokObj) (l r : Frame) (q : Rat)
    (hm : Gen.unitMeasure mname)
    (hv : TablesValid a.toTableArgs l r) (ht : t.isTokenizer = true)
    (hq : a.threshold = .float q) (h : q ≤ 0 ∨ 1 < q) :
    validateJoin mname a t = .error .assertion := by
  apply validateJoin_threshold mname a t l r hv ⟨ht, fun e => absurd e (Gen.unitMeasure_ne_ed hm)⟩
  rw [hq]
  exact (Gen.validate_threshold_unit mname q hm).mpr h

/-- same with an int threshold (only `1` is acceptable) -/
theorem validateJoin_threshold_unit_int (mname : String) (a : JoinArgs) (t : TokObj) (l r : Frame) (i : Int)
    (hm : Gen.unitMeasure mname)
    (hv : TablesValid a.toTableArgs l r) (ht : t.isTokenizer = true)
    (hq : a.threshold = .int i) (h : i ≤ 0 ∨ 1 < i) :
    validateJoin mname a t = .error .assertion := by
  apply validateJoin_threshold mname a t l r hv ⟨ht, fun e => absurd e (Gen.unitMeasure_ne_ed hm)⟩
  rw [hq]
  exact (Gen.validate_threshold_unit_int mname i hm).mpr h

/-- edit distance: a negative threshold ⇒ AssertionError -/
theorem validateJoin_threshold_ed (a : JoinArgs) (t : TokObj) (l r : Frame) (i : Int)
    (hv : TablesValid a.toTableArgs l r) (ht : t.isTokenizer = true) (hqg : t.isQgram = true)
    (hq : a.threshold = .int i) (h : i < 0) :
    validateJoin "EDIT_DISTANCE" a t = .error .assertion := by
  apply validateJoin_threshold _ a t l r hv ⟨ht, fun _ => hqg⟩
  rw [hq]
  exact (Gen.validate_threshold_ed i).mpr h

theorem validateJoin_threshold_ed_float (a : JoinArgs) (t : TokObj) (l r : Frame) (q : Rat)
    (hv : TablesValid a.toTableArgs l r) (ht : t.isTokenizer = true) (hqg : t.isQgram = true)
    (hq : a.threshold = .float q) (h : q < 0) :
    validateJoin "EDIT_DISTANCE" a t = .error .assertion := by
  apply validateJoin_threshold _ a t l r hv ⟨ht, fun _ => hqg⟩
  rw [hq]
  exact (Gen.validate_threshold_ed_float q).mpr h

/-- operator rejected by `validate_comp_op_for_sim_measure` ⇒ AssertionError -/
theorem validateJoin_comp_op (mname : String) (a : JoinArgs) (t : TokObj) (l r : Frame)
    (hv : TablesValid a.toTableArgs l r) (ht : TokValid mname t)
    (hthr : Gen.validate_threshold a.threshold (.str mname) ≠ .err .assertion)
    (h : Gen.validate_comp_op_for_sim_measure (.str a.compOp) (.str mname) = .err .assertion) :
    validateJoin mname a t = .error .assertion := by
  rw [validateJoin_of_tables _ a t l r ((validateTablesAttrs_ok_iff _ _ _).mpr hv)]
  simp [ht.cond.1, ht.cond.2, hthr, h]

/-- similarity joins support only `>=`, `>`, `=` -/
theorem validateJoin_comp_op_sim (mname : String) (a : JoinArgs) (t : TokObj) (l r : Frame)
    (hm : mname ≠ "EDIT_DISTANCE")
    (hv : TablesValid a.toTableArgs l r) (ht : t.isTokenizer = true)
    (hthr : Gen.validate_threshold a.threshold (.str mname) ≠ .err .assertion)
    (h : a.compOp ∉ [">=", ">", "="]) :
    validateJoin mname a t = .error .assertion :=
  validateJoin_comp_op mname a t l r hv ⟨ht, fun e => absurd e hm⟩ hthr
    ((Gen.validate_comp_op_for_sim_measure_sim _ _ hm).mpr h)

/-- the edit distance join supports only `<=`, `<`, `=` -/
theorem validateJoin_comp_op_ed (a : JoinArgs) (t : TokObj) (l r : Frame)
    (hv : TablesValid a.toTableArgs l r) (ht : t.isTokenizer = true) (hqg : t.isQgram = true)
    (hthr : Gen.validate_threshold a.threshold (.str "EDIT_DISTANCE") ≠ .err .assertion)
    (h : a.compOp ∉ ["<=", "<", "="]) :
    validateJoin "EDIT_DISTANCE" a t = .error .assertion :=
  validateJoin_comp_op _ a t l r hv ⟨ht, fun _ => hqg⟩ hthr
    ((Gen.validate_comp_op_for_sim_measure_ed _).mpr h)

/-- an output attribute that is not a column of its table ⇒ AssertionError -/
theorem validateJoin_output_attr (mname : String) (a : JoinArgs) (t : TokObj) (l r : Frame)
    (hv : TablesValid a.toTableArgs l r) (ht : TokValid mname t)
    (hthr : Gen.validate_threshold a.threshold (.str mname) ≠ .err .assertion)
    (hop : Gen.validate_comp_op_for_sim_measure (.str a.compOp) (.str mname) ≠ .err .assertion)
    (h : (∃ x ∈ a.lOut.getD [], ¬ l.hasCol x) ∨ (∃ x ∈ a.rOut.getD [], ¬ r.hasCol x)) :
    validateJoin mname a t = .error .assertion := by
  rw [validateJoin_of_tables _ a t l r ((validateTablesAttrs_ok_iff _ _ _).mpr hv)]
  simp only [ht.cond.1, ht.cond.2, hthr, hop, if_false, Bool.false_eq_true]
  split_ifs with h1 h2 <;> first | rfl | skip
  all_goals (exfalso; simp at h1 h2; rcases h with ⟨x, hx, hx'⟩ | ⟨x, hx, hx'⟩ <;> simp_all)

/-- a key attribute with duplicates or missing values ⇒ AssertionError -/
theorem validateJoin_key (mname : String) (a : JoinArgs) (t : TokObj) (l r : Frame)
    (hv : TablesValid a.toTableArgs l r) (ht : TokValid mname t)
    (hthr : Gen.validate_threshold a.threshold (.str mname) ≠ .err .assertion)
    (hop : Gen.validate_comp_op_for_sim_measure (.str a.compOp) (.str mname) ≠ .err .assertion)
    (hout : OutValid a.toTableArgs l r)
    (h : ¬ KeyValid l a.lKey ∨ ¬ KeyValid r a.rKey) :
    validateJoin mname a t = .error .assertion := by
  rw [validateJoin_of_tables _ a t l r ((validateTablesAttrs_ok_iff _ _ _).mpr hv)]
  have h5' : ((a.lOut.getD []).any fun x => !l.hasCol x) = false := by
    simpa using hout.1
  have h6' : ((a.rOut.getD []).any fun x => !r.hasCol x) = false := by
    simpa using hout.2
  simp only [ht.cond.1, ht.cond.2, hthr, hop, h5', h6', if_false, Bool.false_eq_true]
  rw [← keyTest_iff, ← keyTest_iff] at h
  split_ifs with h1 h2 <;> first | rfl | skip
  exfalso; simp at h1 h2; simp [h1, h2] at h

/-- spelled out: the key column has two values that are equal as Python values, or a missing one -/
theorem not_keyValid_iff (f : Frame) (k : String) :
    ¬ KeyValid f k ↔ ¬ PyDistinct (f.col k) ∨ ∃ c ∈ f.col k, c.isMissing = true := by
  unfold KeyValid
  rw [not_and_or]
  simp

/-- in particular: the key column has a repeated cell, or a missing one -/
theorem not_keyValid_of_dup_or_missing (f : Frame) (k : String)
    (h : ¬ (f.col k).Nodup ∨ ∃ c ∈ f.col k, c.isMissing = true) : ¬ KeyValid f k :=
  (not_keyValid_iff f k).2 (h.imp_left (fun hn hd => hn hd.nodup))

/-- two positions `i < j` of the key column hold cells that are equal as Python values -/
theorem not_keyValid_of_pyEq (f : Frame) (k : String) (i j : Nat) (hij : i < j) (hj : j < f.rows.length)
    (h : ((f.rows.getD i []).cell (f.colIdx k)).pyEq ((f.rows.getD j []).cell (f.colIdx k)) = true) :
    ¬ KeyValid f k := by
  intro hk
  have := validateKeyAttr_pyEq_rejected k f i j hij hj h
  rw [(validateKeyAttr_ok_iff_keyValid k f).2 hk] at this
  cases this

/-! ### C15 (rejection): a rejected call never touches the flag -/

theorem setSimJoinPy_reject (m : Measure) (a : JoinArgs) (t : TokObj) (toks : TokFn) (cpu : Int) (e : PyErr)
    (h : validateJoin m.name a t = .error e) :
    (setSimJoinPy m a t toks cpu).result = .error e ∧ (setSimJoinPy m a t toks cpu).flagAfter = t.returnSet := by
  unfold setSimJoinPy
  rw [h]
  exact ⟨rfl, rfl⟩

theorem overlapCoefficientJoinPy_reject (a : JoinArgs) (t : TokObj) (toks : TokFn) (cpu : Int) (e : PyErr)
    (h : validateJoin "OVERLAP_COEFFICIENT" a t = .error e) :
    (overlapCoefficientJoinPy a t toks cpu).result = .error e ∧
      (overlapCoefficientJoinPy a t toks cpu).flagAfter = t.returnSet := by
  unfold overlapCoefficientJoinPy
  rw [h]
  exact ⟨rfl, rfl⟩

theorem editDistanceJoinPy_reject (a : JoinArgs) (t : TokObj) (toks : TokFn) (cpu : Int) (e : PyErr)
    (h : validateJoin "EDIT_DISTANCE" a t = .error e) :
    (editDistanceJoinPy a t toks cpu).result = .error e ∧
      (editDistanceJoinPy a t toks cpu).flagAfter = t.returnSet := by
  unfold editDistanceJoinPy
  rw [h]
  exact ⟨rfl, rfl⟩

/-- `overlap_join_py`: the OverlapFilter constructor rejects with TypeError (not a tokenizer) or
    AssertionError (threshold not `> 0`, unsupported operator) -/
theorem mkOverlapFilter_error_kind (size : PyV) (op : String) (am : Bool) (t : TokObj) (e : PyErr)
    (h : mkOverlapFilter size op am t = .error e) : e = .typeErr ∨ e = .assertion := by
  unfold mkOverlapFilter validateTokenizer at h
  rw [raiseIf_bind,
    genCheck_bind_of_cases _ _ _ (Gen.validate_threshold_cases _ _) rfl,
    genCheck_bind_of_cases _ _ _ (Gen.validate_comp_op_for_sim_measure_cases _ _) rfl] at h
  split_ifs at h <;> cases h <;> simp

theorem overlapJoinPy_reject (a : JoinArgs) (t : TokObj) (toks : TokFn) (cpu : Int) (e : PyErr)
    (h : mkOverlapFilter a.threshold a.compOp a.allowMissing t = .error e) :
    (overlapJoinPy a t toks cpu).result = .error e ∧ (overlapJoinPy a t toks cpu).flagAfter = t.returnSet := by
  refine ⟨?_, rfl⟩
  show (mkOverlapFilter a.threshold a.compOp a.allowMissing t >>= _) = _
  rw [h]
  rfl

/-! ### history independence -/
namespace Session

/-- the measure name a call hands to `validateJoin` (not used by "overlap", which validates inside
    its `try … finally`) -/
def Call.mname (c : Call) : String :=
  if c.which == "jaccard" then "JACCARD"
  else if c.which == "cosine" then "COSINE"
  else if c.which == "dice" then "DICE"
  else if c.which == "overlap_coefficient" then "OVERLAP_COEFFICIENT"
  else "EDIT_DISTANCE"

/-- the call is rejected by the validation block at the top of its `*_join_py` -/
def Rejected (c : Call) (flag : Bool) (e : PyErr) : Prop :=
  c.which ≠ "overlap" ∧ validateJoin c.mname c.args { c.tok with returnSet := flag } = .error e

theorem Rejected.kind {c : Call} {flag : Bool} {e : PyErr} (h : Rejected c flag e) :
    e = .typeErr ∨ e = .assertion :=
  validateJoin_error_kind _ _ _ _ h.2

/-- every join call of a session leaves its tokenizer's flag as it found it — whether it returns normally,
    is rejected, or raises inside its body -/
theorem runCall_flag (cpu : Int) (c : Call) (flag : Bool) : (runCall cpu c flag).flagAfter = flag := by
  unfold runCall
  simp only
  split_ifs
  · exact setSimJoinPy_flag _ _ _ _ _
  · exact setSimJoinPy_flag _ _ _ _ _
  · exact setSimJoinPy_flag _ _ _ _ _
  · exact overlapCoefficientJoinPy_flag _ _ _ _
  · rfl
  · exact editDistanceJoinPy_flag _ _ _ _

theorem runCall_rejected (cpu : Int) (c : Call) (flag : Bool) (e : PyErr) (h : Rejected c flag e) :
    (runCall cpu c flag).result = .error e ∧ (runCall cpu c flag).flagAfter = flag := by
  refine ⟨?_, runCall_flag cpu c flag⟩
  obtain ⟨hne, hv⟩ := h
  unfold Call.mname at hv
  unfold runCall
  simp only
  split_ifs at hv ⊢
  · exact (setSimJoinPy_reject .jaccard _ _ _ _ _ hv).1
  · exact (setSimJoinPy_reject .cosine _ _ _ _ _ hv).1
  · exact (setSimJoinPy_reject .dice _ _ _ _ _ hv).1
  · exact (overlapCoefficientJoinPy_reject _ _ _ _ _ hv).1
  · rename_i h5
    exact absurd (by simpa using h5) hne
  · exact (editDistanceJoinPy_reject _ _ _ _ _ hv).1

/-- writing back the value just read is a no-op (also for an unknown tokenizer id) -/
theorem set_getD_self (flags : List Bool) (i : Nat) : flags.set i (flags.getD i false) = flags := by
  apply List.ext_getElem?
  intro j
  by_cases hi : i = j
  · subst hi
    by_cases hlt : i < flags.length
    · simp [List.getD_eq_getElem?_getD, hlt]
    · have hle : flags.length ≤ i := Nat.le_of_not_lt hlt
      simp [hle]
  · simp [List.getElem?_set_ne hi]

/-- one step of a session never changes the state -/
theorem step_eq (cpu : Int) (flags : List Bool) (c : Session.Call) :
    Session.step cpu flags c = (flags, Session.runCall cpu c (flags.getD c.tokId false)) := by
  simp only [Session.step, runCall_flag, set_getD_self]

/-- HISTORY INDEPENDENCE, unconditionally: in ANY history (calls may return, be rejected, or raise in their
    body; tokenizer ids may be unknown) each call's outcome equals its outcome in isolation (same tokenizer
    flags as at the start), and the flags end as they began. -/
theorem run_independent (cpu : Int) (flags : List Bool) (calls : List Session.Call) :
    Session.run cpu flags calls = (flags, calls.map (fun c => Session.runCall cpu c (flags.getD c.tokId false))) := by
  induction calls with
  | nil => rfl
  | cons c cs ih => simp only [Session.run, step_eq, ih, List.map_cons]

/-- the state is an invariant of `run` -/
theorem run_flags (cpu : Int) (flags : List Bool) (calls : List Session.Call) :
    (Session.run cpu flags calls).1 = flags := by
  rw [run_independent]

end Session

end SSJ

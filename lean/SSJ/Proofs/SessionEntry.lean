/-
  SSJ.Proofs.SessionEntry — the state machine of `SSJ.Proofs.SessionMixed` (`Session.MCall`, `Session.runM`) with a
  CONCRETE call alphabet: every entry point of the package (property C12, "no call affects a later one").

  `Session.MCall.readOnly tokId f` takes an arbitrary function `f : Bool → Except PyErr Frame`.  Here:
  * the non-join entry points that return a DataFrame are given as such read-only calls (`ECall.toMCall`): the function
    `f` is the model's entry point applied to the call's arguments and the tokenizer object whose `return_set` is the
    flag read from the state;
  * the profiler and the non-inplace converter modes do not return a DataFrame (and are not handed a tokenizer), so
    they do not fit `MCall.readOnly`'s result type; `ECall` / `runE` is the same machine with the result type widened
    to `EResult` (DataFrame-or-exception | profile | converter result).  `SessionMixed.lean` is not edited.
-/
import SSJ.Proofs.SessionMixed
import SSJ.Model.Profiler
import SSJ.Model.Converter

namespace SSJ.Session
open SSJ

/-- what an entry point hands back to its caller -/
inductive EResult where
  /-- joins, `filter_tables`, `filter_candset`, `apply_matcher`: a DataFrame or an exception -/
  | frame (r : Except PyErr Frame)
  /-- `profile_table_for_join`: the rows of the profile, or an exception -/
  | profile (r : Except PyErr (List (String × String × String × String)))
  /-- `series_to_str` -/
  | series (r : Converter.Result)
  /-- `dataframe_column_to_str` -/
  | column (r : Converter.FrameResult)

structure EOutcome where
  result : EResult
  flagAfter : Bool

/-- the entry points of the package as the calls of a session.  `tokId` names the tokenizer OBJECT the call is handed
    (directly, or inside the filter object it is a method of); `tok` is the static part of that object, its
    `return_set` flag comes from the session state; `toks` is its tokenization table (mode → string → tokens). -/
inductive ECall where
  /-- the six joins (`Session.Call.which`) -/
  | join (c : Call)
  /-- `SizeFilter / PrefixFilter / PositionFilter / SuffixFilter.filter_tables` -/
  | filterTables (k : FilterKind) (f : FilterObj) (a : TableArgs) (tok : TokObj) (tokId : Nat) (toks : TokFn)
  /-- `OverlapFilter.filter_tables` -/
  | overlapFilterTables (f : OverlapFilterObj) (a : TableArgs) (outSimScore : Bool) (tokId : Nat) (toks : TokFn)
  /-- `apply_matcher` with a tokenizer (`some tok`) or without (`none`; then `tokId`, `toks` are irrelevant) -/
  | applyMatcher (a : MatcherArgs) (tok : Option TokObj) (tokId : Nat) (toks : TokFn) (sim : SimArg → SimArg → PyV)
  /-- `SizeFilter / PrefixFilter / PositionFilter / SuffixFilter.filter_candset` -/
  | filterCandset (k : FilterKind) (f : FilterObj) (a : CandsetArgs) (tokId : Nat) (toks : TokFn)
  /-- `OverlapFilter.filter_candset` -/
  | overlapFilterCandset (f : OverlapFilterObj) (a : CandsetArgs) (tokId : Nat) (toks : TokFn)
  /-- `profile_table_for_join` (no tokenizer) -/
  | profileTable (t : Option Frame) (attrs : Option (List String))
  /-- `series_to_str(series, inplace=False)` (no tokenizer) -/
  | seriesToStr (reprF : Rat → String) (c : Converter.Column)
  /-- `dataframe_column_to_str(df, col, inplace=False, return_col)` (no tokenizer) -/
  | dataframeColumnToStr (reprF : Rat → String) (c : Converter.Column) (returnCol : Bool)

/-- the tokenizer object a call is handed (calls without a tokenizer: slot 0, which they neither read nor write) -/
def ECall.tokId : ECall → Nat
  | .join c => c.tokId
  | .filterTables _ _ _ _ i _ => i
  | .overlapFilterTables _ _ _ i _ => i
  | .applyMatcher _ _ i _ _ => i
  | .filterCandset _ _ _ i _ => i
  | .overlapFilterCandset _ _ i _ => i
  | .profileTable _ _ => 0
  | .seriesToStr _ _ => 0
  | .dataframeColumnToStr _ _ _ => 0

/-- what the non-join entry points return when the tokenizer's flag is `flag`: the model's entry point itself — a bare
    result, the model gives these functions no way to hand back a flag -/
def ECall.readResult (cpu : Int) : ECall → Bool → EResult
  | .join c, flag => .frame (runCall cpu c flag).result
  | .filterTables k f a tok _ toks, flag => .frame (SSJ.filterTables k f a { tok with returnSet := flag } toks cpu)
  | .overlapFilterTables f a oss _ toks, flag => .frame (SSJ.overlapFilterTables f a oss (toks flag) cpu)
  | .applyMatcher a tok _ toks sim, flag =>
      .frame (SSJ.applyMatcher a (tok.map (fun tk => { tk with returnSet := flag })) toks sim cpu)
  | .filterCandset k f a _ toks, flag => .frame (SSJ.filterCandset a (filterPairPy k f (toks flag)) cpu)
  | .overlapFilterCandset f a _ toks, flag => .frame (SSJ.filterCandset a (overlapFilterPairPy f (toks flag)) cpu)
  | .profileTable t attrs, _ => .profile (Profiler.profileTable t attrs)
  | .seriesToStr reprF c, _ => .series (Converter.seriesToStr reprF c false)
  | .dataframeColumnToStr reprF c rc, _ => .column (Converter.dataframeColumnToStr reprF c false rc)

/-- one call made when its tokenizer's flag is `flag`: a join reports the flag it leaves behind (`Outcome.flagAfter`);
    every other entry point returns a bare result and the flag stays what it was -/
def runECall (cpu : Int) : ECall → Bool → EOutcome
  | .join c, flag => { result := .frame (runCall cpu c flag).result, flagAfter := (runCall cpu c flag).flagAfter }
  | e, flag => { result := e.readResult cpu flag, flagAfter := flag }

def stepE (cpu : Int) (flags : List Bool) (c : ECall) : List Bool × EOutcome :=
  let o := runECall cpu c (flags.getD c.tokId false)
  (flags.set c.tokId o.flagAfter, o)

def runE (cpu : Int) (flags : List Bool) : List ECall → List Bool × List EOutcome
  | [] => (flags, [])
  | c :: cs =>
    let (f1, o) := stepE cpu flags c
    let (f2, os) := runE cpu f1 cs
    (f2, o :: os)

/-- every entry point leaves the flag it was given as it found it -/
theorem runECall_flag (cpu : Int) (c : ECall) (flag : Bool) : (runECall cpu c flag).flagAfter = flag := by
  cases c with
  | join c => exact runCall_flag cpu c flag
  | _ => rfl

/-- … and its result is `readResult` -/
theorem runECall_result (cpu : Int) (c : ECall) (flag : Bool) : (runECall cpu c flag).result = c.readResult cpu flag := by
  cases c <;> rfl

/-- HISTORY INDEPENDENCE for histories of arbitrary entry points -/
theorem runE_independent (cpu : Int) (flags : List Bool) (calls : List ECall) :
    runE cpu flags calls = (flags, calls.map (fun c => runECall cpu c (flags.getD c.tokId false))) := by
  induction calls with
  | nil => rfl
  | cons c cs ih => simp only [runE, stepE, runECall_flag, set_getD_self, ih, List.map_cons]

/-! ### the DataFrame-returning entry points are calls of the abstract mixed machine -/

/-- the entry points that return a DataFrame, as calls of `Session.MCall`: a join, or `MCall.readOnly` of the model's
    entry point as a function of the flag (`none` for profiler / converter, whose results are not DataFrames) -/
def ECall.toMCall (cpu : Int) : ECall → Option MCall
  | .join c => some (.join c)
  | .filterTables k f a tok i toks =>
      some (.readOnly i (fun flag => SSJ.filterTables k f a { tok with returnSet := flag } toks cpu))
  | .overlapFilterTables f a oss i toks =>
      some (.readOnly i (fun flag => SSJ.overlapFilterTables f a oss (toks flag) cpu))
  | .applyMatcher a tok i toks sim =>
      some (.readOnly i (fun flag => SSJ.applyMatcher a (tok.map (fun tk => { tk with returnSet := flag })) toks sim cpu))
  | .filterCandset k f a i toks =>
      some (.readOnly i (fun flag => SSJ.filterCandset a (filterPairPy k f (toks flag)) cpu))
  | .overlapFilterCandset f a i toks =>
      some (.readOnly i (fun flag => SSJ.filterCandset a (overlapFilterPairPy f (toks flag)) cpu))
  | .profileTable _ _ => none
  | .seriesToStr _ _ => none
  | .dataframeColumnToStr _ _ _ => none

/-- an outcome of the abstract machine as an outcome of the concrete one -/
def EOutcome.ofOutcome (o : Outcome) : EOutcome := { result := .frame o.result, flagAfter := o.flagAfter }

/-- the concrete machine runs a DataFrame-returning entry point exactly as the abstract machine runs its `MCall` -/
theorem runECall_toMCall (cpu : Int) (e : ECall) (m : MCall) (h : e.toMCall cpu = some m) (flag : Bool) :
    runECall cpu e flag = EOutcome.ofOutcome (runMCall cpu m flag) ∧ m.tokId = e.tokId := by
  cases e <;> simp only [ECall.toMCall, Option.some.injEq, reduceCtorEq] at h <;> subst h <;> exact ⟨rfl, rfl⟩

/-- a history of DataFrame-returning entry points run by the concrete machine is the history of their `MCall`s run by
    the abstract machine -/
theorem runE_eq_runM (cpu : Int) (flags : List Bool) (calls : List ECall) (ms : List MCall)
    (h : calls.mapM (ECall.toMCall cpu) = some ms) :
    runE cpu flags calls = ((runM cpu flags ms).1, (runM cpu flags ms).2.map EOutcome.ofOutcome) := by
  rw [runE_independent, runM_independent]
  simp only [List.map_map]
  congr 1
  induction calls generalizing ms with
  | nil =>
    simp only [List.mapM_nil, Option.pure_def, Option.some.injEq] at h
    subst h; rfl
  | cons e es ih =>
    rw [List.mapM_cons] at h
    cases hm : e.toMCall cpu with
    | none => rw [hm] at h; simp at h
    | some m =>
      rw [hm] at h
      cases hms : es.mapM (ECall.toMCall cpu) with
      | none => rw [hms] at h; simp at h
      | some ms' =>
        rw [hms] at h
        simp only [Option.pure_def, Option.bind_eq_bind, Option.bind_some, Option.some.injEq] at h
        subst h
        obtain ⟨h1, h2⟩ := runECall_toMCall cpu e m hm (flags.getD e.tokId false)
        simp only [List.map_cons, Function.comp_apply, h2, ← h1, ih ms' hms]

end SSJ.Session

section AxiomCheck
open SSJ.Session
#print axioms runECall_flag
#print axioms runE_independent
#print axioms runECall_toMCall
#print axioms runE_eq_runM
end AxiomCheck

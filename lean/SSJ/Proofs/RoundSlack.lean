/-
  SSJ.Proofs.RoundSlack — how far the UNROUNDED value `x` can be from a threshold `t` when the comparison was made
  with `round(x, 4)` (`F64.round4 x = rn (rhe (x·10⁴) / 10⁴)`: round-half-even to an integer number of ten-thousandths,
  then the nearest double).  Helpers of `SSJ/Props/C02_raw.lean`.

  Depends only on `Spec/Spec.lean`, `Proofs/F64Laws.lean`, `Proofs/Arith.lean`.

  Contents
  * `round4_dec`            `round4 x = rn (k/10⁴)` for an integer `k` with `|k/10⁴ − x| ≤ 1/20000`;
  * any threshold `0 < t ≤ 1` (no representability assumption): `round4_ge_slack`, `round4_eq_slack`
        `t ≤ round4 x → t − 1/20000 − 2⁻⁵³ ≤ x`,   `round4 x = t → |x − t| ≤ 1/20000 + 2⁻⁵³`
    (the `2⁻⁵³` is the rounding `rn` of the decimal `k/10⁴`; it cannot be dropped, see `slack_needed`);
  * thresholds that are the double of a decimal with at most four places, `t = rn (j/10⁴)`, `0 < j ≤ 10⁴`:
    `dec_le_round4_iff`, `dec_lt_round4_iff`, `dec_eq_round4_iff` (the comparison of the rounded score is a comparison
    of integers `j` vs `rhe (x·10⁴)`), hence `round4_ge_dec`, `round4_gt_dec`, `round4_eq_dec` with the exact half unit;
  * `rn_mono` (rounding to nearest is monotone) and, for a threshold that is a double (`rn t = t`),
    `round4_gt_double : t < round4 x → t − 1/20000 < x`, `round4_ge_double`;
  * `simSet_shape`: inside the scope `Spec.simSet` is a float or the int 0; evaluation of `compFn` / `score4`;
  * `valid_threshold`, `valid_op`: what the validation block of the joins (`validateJoin`) leaves of a numeric
    threshold (a float in (0, 1] or the int 1) and of the operator (`>=`, `>`, `=`).
-/
import SSJ.Spec.Spec
import SSJ.Model.Frame
import SSJ.Proofs.F64Laws
import SSJ.Proofs.Arith

namespace SSJ.RoundSlack
open SSJ SSJ.F64

/-! ## `round4` as a decimal -/

/-- `round(x, 4)` is the double nearest to a decimal `k/10⁴` that is within half a unit of the fourth place of `x` -/
theorem round4_dec (x : Rat) :
    round4 x = rn (((rhe (x * 10000) : Int) : Rat) / 10000) ∧
      |((rhe (x * 10000) : Int) : Rat) / 10000 - x| ≤ 1 / 20000 := by
  refine ⟨round4_eq x, ?_⟩
  have h := abs_le.mp (rhe_err (x * 10000))
  rw [abs_le]
  constructor
  · rw [le_sub_iff_add_le, le_div_iff₀ (by norm_num)]; linarith [h.1]
  · rw [sub_le_iff_le_add, div_le_iff₀ (by norm_num)]; linarith [h.2]

theorem rn_nonpos {q : Rat} (h : q ≤ 0) : rn q ≤ 0 := by
  have h1 := rn_nonneg (q := -q) (by linarith)
  rw [rn_neg] at h1
  linarith

/-- decimals `k/10⁴` with `k ≥ 1` are far inside the normal range -/
theorem dec_ge {k : Int} (hk : 1 ≤ k) : (1 : Rat) / 10000 ≤ (k : Rat) / 10000 := by
  have : (1 : Rat) ≤ (k : Rat) := by exact_mod_cast hk
  rw [div_le_div_iff_of_pos_right (by norm_num)]; exact this

theorem dec_ub {k : Int} (hk : 1 ≤ k) : rn ((k : Rat) / 10000) ≤ (k : Rat) / 10000 * (1 + 1 / 2 ^ 53) :=
  rn_ub (le_trans (by norm_num) (dec_ge hk))

theorem dec_lb {k : Int} (hk : 1 ≤ k) : (k : Rat) / 10000 * (1 - 1 / 2 ^ 53) ≤ rn ((k : Rat) / 10000) :=
  rn_lb (le_trans (by norm_num) (dec_ge hk))

theorem dec_pos {k : Int} (hk : 1 ≤ k) : 0 < rn ((k : Rat) / 10000) := by
  have h1 := dec_lb hk
  have h2 := dec_ge hk
  have : 0 < (k : Rat) / 10000 * (1 - 1 / 2 ^ 53) := mul_pos (by linarith) (by norm_num)
  linarith

/-! ## any threshold in (0, 1] -/

/-- if the rounded value reaches `t`, the unrounded one misses `t` by at most half a unit of the fourth decimal
    (plus the rounding error `2⁻⁵³` of the decimal) -/
theorem round4_ge_slack {x t : Rat} (ht0 : 0 < t) (ht1 : t ≤ 1) (h : t ≤ round4 x) :
    t - 1 / 20000 - 1 / 2 ^ 53 ≤ x := by
  obtain ⟨e, hx⟩ := round4_dec x
  rw [e] at h
  generalize rhe (x * 10000) = k at h hx
  have hx := abs_le.mp hx
  rcases le_or_gt k 0 with hk | hk
  · have : ((k : Rat)) / 10000 ≤ 0 := div_nonpos_of_nonpos_of_nonneg (by exact_mod_cast hk) (by norm_num)
    have := rn_nonpos this
    linarith
  · have hub := dec_ub (k := k) (by omega)
    have hq0 := dec_ge (k := k) (by omega)
    rcases le_or_gt t ((k : Rat) / 10000) with hc | hc
    · have : (0 : Rat) ≤ 1 / 2 ^ 53 := by positivity
      linarith [hx.2]
    · have : (k : Rat) / 10000 * (1 / 2 ^ 53) ≤ 1 * (1 / 2 ^ 53) :=
        mul_le_mul_of_nonneg_right (by linarith) (by positivity)
      linarith [hx.2]

/-- if the rounded value equals `t`, the unrounded one is within half a unit of the fourth decimal of `t`
    (plus the rounding error `2⁻⁵³` of the decimal) -/
theorem round4_eq_slack {x t : Rat} (ht0 : 0 < t) (ht1 : t ≤ 1) (h : round4 x = t) :
    |x - t| ≤ 1 / 20000 + 1 / 2 ^ 53 := by
  have hlo := round4_ge_slack ht0 ht1 h.ge
  obtain ⟨e, hx⟩ := round4_dec x
  rw [e] at h
  generalize rhe (x * 10000) = k at h hx
  have hx := abs_le.mp hx
  rw [abs_le]
  refine ⟨by linarith, ?_⟩
  rcases le_or_gt k 0 with hk | hk
  · have : ((k : Rat)) / 10000 ≤ 0 := div_nonpos_of_nonpos_of_nonneg (by exact_mod_cast hk) (by norm_num)
    have := rn_nonpos this
    linarith
  · have hlb := dec_lb (k := k) (by omega)
    have hq0 := dec_ge (k := k) (by omega)
    -- the decimal is at most 1: otherwise it is at least 1.0001 and its double exceeds 1
    have hq1 : (k : Rat) / 10000 ≤ 1 := by
      by_contra hc
      have hk1 : 10001 ≤ k := by
        have : (1 : Rat) < (k : Rat) / 10000 := not_le.mp hc
        rw [lt_div_iff₀ (by norm_num)] at this
        have : ((10000 : Int) : Rat) < (k : Rat) := by push_cast; linarith
        have := Int.cast_lt.mp this
        omega
      have h1 : (10001 : Rat) / 10000 ≤ (k : Rat) / 10000 := by
        rw [div_le_div_iff_of_pos_right (by norm_num)]; exact_mod_cast hk1
      have : (10001 : Rat) / 10000 * (1 - 1 / 2 ^ 53) ≤ (k : Rat) / 10000 * (1 - 1 / 2 ^ 53) :=
        mul_le_mul_of_nonneg_right h1 (by norm_num)
      have : (1 : Rat) < 10001 / 10000 * (1 - 1 / 2 ^ 53) := by norm_num
      linarith
    have : (k : Rat) / 10000 * (1 / 2 ^ 53) ≤ 1 * (1 / 2 ^ 53) :=
      mul_le_mul_of_nonneg_right hq1 (by positivity)
    linarith [hx.1]

/-! ## thresholds written with at most four decimals: `t = rn (j/10⁴)` -/

/-- two different decimals `a/10⁴ < b/10⁴` (`a ≤ 10⁴`) never round to the same double -/
theorem rn_dec_lt {a b : Int} (hb0 : 0 < b) (hab : a < b) (ha : a ≤ 10000) :
    rn ((a : Rat) / 10000) < rn ((b : Rat) / 10000) := by
  rcases le_or_gt a 0 with ha0 | ha0
  · have : ((a : Rat)) / 10000 ≤ 0 := div_nonpos_of_nonpos_of_nonneg (by exact_mod_cast ha0) (by norm_num)
    have := rn_nonpos this
    have := dec_pos (k := b) (by omega)
    linarith
  · have hub := dec_ub (k := a) (by omega)
    have hlb := dec_lb (k := b) (by omega)
    have hA0 : (1 : Rat) ≤ (a : Rat) := by exact_mod_cast ha0
    have hA : (a : Rat) ≤ 10000 := by exact_mod_cast ha
    have hB : (a : Rat) + 1 ≤ (b : Rat) := by exact_mod_cast hab
    have h1 : ((a : Rat) + 1) / 10000 * (1 - 1 / 2 ^ 53) ≤ (b : Rat) / 10000 * (1 - 1 / 2 ^ 53) :=
      mul_le_mul_of_nonneg_right (by rw [div_le_div_iff_of_pos_right (by norm_num)]; exact hB) (by norm_num)
    have h2 : (a : Rat) / 10000 * (1 + 1 / 2 ^ 53) < ((a : Rat) + 1) / 10000 * (1 - 1 / 2 ^ 53) := by
      have : (2 * (a : Rat) + 1) * (1 / 2 ^ 53) < 1 := by
        calc (2 * (a : Rat) + 1) * (1 / 2 ^ 53) ≤ 20001 * (1 / 2 ^ 53) :=
              mul_le_mul_of_nonneg_right (by linarith) (by positivity)
          _ < 1 := by norm_num
      linarith
    linarith

theorem rn_dec_le {a b : Int} (hab : a ≤ b) (hb0 : 0 < b) (ha : a ≤ 10000) :
    rn ((a : Rat) / 10000) ≤ rn ((b : Rat) / 10000) := by
  rcases eq_or_lt_of_le hab with rfl | h
  · exact le_refl _
  · exact (rn_dec_lt hb0 h ha).le

/-- against a four-decimal threshold, `>=` on the rounded score compares the integers of ten-thousandths -/
theorem dec_le_round4_iff {j : Int} (hj0 : 0 < j) (hj : j ≤ 10000) (x : Rat) :
    rn ((j : Rat) / 10000) ≤ round4 x ↔ j ≤ rhe (x * 10000) := by
  rw [round4_eq]
  constructor
  · intro h
    by_contra hc
    have := rn_dec_lt (a := rhe (x * 10000)) (b := j) hj0 (by omega) (by omega)
    linarith
  · intro h
    exact rn_dec_le h (by omega) hj

/-- … and `>` likewise -/
theorem dec_lt_round4_iff {j : Int} (hj0 : 0 < j) (hj : j ≤ 10000) (x : Rat) :
    rn ((j : Rat) / 10000) < round4 x ↔ j < rhe (x * 10000) := by
  rw [round4_eq]
  constructor
  · intro h
    by_contra hc
    have := rn_dec_le (a := rhe (x * 10000)) (b := j) (by omega) hj0 (by omega)
    linarith
  · intro h
    exact rn_dec_lt (by omega) h hj

/-- … and `=` likewise -/
theorem dec_eq_round4_iff {j : Int} (hj0 : 0 < j) (hj : j ≤ 10000) (x : Rat) :
    round4 x = rn ((j : Rat) / 10000) ↔ rhe (x * 10000) = j := by
  constructor
  · intro h
    have h1 := (dec_le_round4_iff hj0 hj x).mp h.ge
    have h2 : ¬ j < rhe (x * 10000) := fun hc => by
      have := (dec_lt_round4_iff hj0 hj x).mpr hc
      linarith
    omega
  · intro h
    rw [round4_eq, h]

/-- `>=` against the double of the decimal `j/10⁴`: the unrounded value is at least `j/10⁴ − 1/20000`, exactly -/
theorem round4_ge_dec {j : Int} (hj0 : 0 < j) (hj : j ≤ 10000) {x : Rat}
    (h : rn ((j : Rat) / 10000) ≤ round4 x) : (j : Rat) / 10000 - 1 / 20000 ≤ x := by
  have hk := (dec_le_round4_iff hj0 hj x).mp h
  have hx := abs_le.mp (round4_dec x).2
  have : (j : Rat) / 10000 ≤ ((rhe (x * 10000) : Int) : Rat) / 10000 := by
    rw [div_le_div_iff_of_pos_right (by norm_num)]; exact_mod_cast hk
  linarith [hx.2]

/-- `>` against the double of the decimal `j/10⁴`: the rounded score is at least one unit higher, so the unrounded
    value is at least `j/10⁴ + 1/20000` — here strictness is not lost, the raw value exceeds the decimal too -/
theorem round4_gt_dec {j : Int} (hj0 : 0 < j) (hj : j ≤ 10000) {x : Rat}
    (h : rn ((j : Rat) / 10000) < round4 x) : (j : Rat) / 10000 + 1 / 20000 ≤ x := by
  have hk := (dec_lt_round4_iff hj0 hj x).mp h
  have hx := abs_le.mp (round4_dec x).2
  have : ((j : Rat) + 1) / 10000 ≤ ((rhe (x * 10000) : Int) : Rat) / 10000 := by
    rw [div_le_div_iff_of_pos_right (by norm_num)]; exact_mod_cast hk
  linarith [hx.2]

/-- `=` against the double of the decimal `j/10⁴`: the unrounded value is within `1/20000` of the decimal -/
theorem round4_eq_dec {j : Int} (hj0 : 0 < j) (hj : j ≤ 10000) {x : Rat}
    (h : round4 x = rn ((j : Rat) / 10000)) : |x - (j : Rat) / 10000| ≤ 1 / 20000 := by
  have hk := (dec_eq_round4_iff hj0 hj x).mp h
  have hx := (round4_dec x).2
  rw [hk, abs_sub_comm] at hx
  exact hx

/-! ## rounding to nearest is monotone; thresholds that are doubles -/

theorem ilog2_mono {q r : Rat} (hq : 0 < q) (h : q ≤ r) : ilog2 q ≤ ilog2 r :=
  (le_ilog2 (lt_of_lt_of_le hq h)).mpr (le_trans (ilog2_spec hq).1 h)

theorem pow2_int_of_nonneg {d : Int} (hd : 0 ≤ d) : ∃ n : Int, pow2 d = (n : Rat) := by
  obtain ⟨m, rfl⟩ := Int.eq_ofNat_of_zero_le hd
  exact ⟨2 ^ m, by rw [pow2_ofNat]; push_cast; rfl⟩

theorem rnPos_mono {q r : Rat} (hq : 0 < q) (h : q ≤ r) : rnPos q ≤ rnPos r := by
  have hr : 0 < r := lt_of_lt_of_le hq h
  have hl := ilog2_mono hq h
  rcases eq_or_lt_of_le (show ulpExp q ≤ ulpExp r by unfold ulpExp; omega) with he | he
  · unfold rnPos
    rw [← he]
    have hp := pow2_pos (ulpExp q)
    have : q / pow2 (ulpExp q) ≤ r / pow2 (ulpExp q) := by
      rw [div_le_div_iff_of_pos_right hp]; exact h
    have h2 := rhe_mono this
    have : ((rhe (q / pow2 (ulpExp q)) : Int) : Rat) ≤ ((rhe (r / pow2 (ulpExp q)) : Int) : Rat) := by
      exact_mod_cast h2
    exact mul_le_mul_of_nonneg_right this hp.le
  · -- a power of two lies between `q` and `r`; it is on both grids
    have her : ulpExp r = ilog2 r - 52 := by unfold ulpExp at he ⊢; omega
    have hlt : ilog2 q + 1 ≤ ilog2 r := by unfold ulpExp at he; omega
    have hqb : q ≤ pow2 (ilog2 r) := le_trans (ilog2_spec hq).2.le (pow2_mono hlt)
    have hbr : pow2 (ilog2 r) ≤ r := (ilog2_spec hr).1
    obtain ⟨n, hn⟩ := pow2_int_of_nonneg (d := ilog2 r - ulpExp q) (by omega)
    have hb1 : pow2 (ilog2 r) = (n : Rat) * pow2 (ulpExp q) := by
      rw [← hn, ← pow2_add]; congr 1; omega
    obtain ⟨n', hn'⟩ := pow2_int_of_nonneg (d := 52) (by norm_num)
    have hb2 : pow2 (ilog2 r) = (n' : Rat) * pow2 (ulpExp r) := by
      rw [← hn', ← pow2_add, her]; congr 1; omega
    exact le_trans (rnPos_le_grid hb1 hqb) (rnPos_ge_grid hb2 hbr)

/-- `rn` (round to the nearest double) is monotone -/
theorem rn_mono {q r : Rat} (h : q ≤ r) : rn q ≤ rn r := by
  rcases lt_trichotomy q 0 with hq | hq | hq
  · rcases lt_trichotomy r 0 with hr | hr | hr
    · rw [rn_of_neg hq, rn_of_neg hr]
      have := rnPos_mono (q := -r) (r := -q) (by linarith) (by linarith)
      linarith
    · rw [hr, rn_zero]; exact rn_nonpos hq.le
    · exact le_trans (rn_nonpos hq.le) (rn_nonneg hr.le)
  · rw [hq, rn_zero]; exact rn_nonneg (hq ▸ h)
  · rw [rn_of_pos hq, rn_of_pos (lt_of_lt_of_le hq h)]
    exact rnPos_mono hq h

/-- a double `t` strictly below the rounding of `q` is strictly below `q` -/
theorem lt_of_lt_rn {t q : Rat} (ht : rn t = t) (h : t < rn q) : t < q := by
  by_contra hc
  have := rn_mono (not_lt.mp hc)
  rw [ht] at this
  linarith

/-- `>` against a threshold that is a double: the unrounded value exceeds `t − 1/20000`, exactly -/
theorem round4_gt_double {x t : Rat} (ht : rn t = t) (h : t < round4 x) : t - 1 / 20000 < x := by
  obtain ⟨e, hx⟩ := round4_dec x
  rw [e] at h
  have := lt_of_lt_rn ht h
  linarith [(abs_le.mp hx).2]

/-- `>=` against a threshold that is a double: the unrounded value exceeds `t − 1/20000`, exactly, unless the
    rounded score IS the threshold -/
theorem round4_ge_double {x t : Rat} (ht : rn t = t) (h : t ≤ round4 x) : round4 x = t ∨ t - 1 / 20000 < x := by
  rcases eq_or_lt_of_le h with h | h
  · exact Or.inl h.symm
  · exact Or.inr (round4_gt_double ht h)

/-! ## the `2⁻⁵³` cannot be dropped: `9/160` against the threshold `0.0563`

  `9/160 = 0.05625` is a tie of the fourth decimal; the double nearest to it lies slightly above, so it rounds to
  `0.0563`, whose double is the threshold: the rounded comparison `>=` holds.  But the double of `0.0563` lies further
  above `0.0563` than the double of `9/160` lies above `0.05625`: the unrounded value is below `t − 1/20000`. -/
theorem slack_needed :
    rn (rn (563 / 10000)) = rn (563 / 10000) ∧ rn (563 / 10000) ≤ round4 (rn (9 / 160)) ∧
      ¬ (rn (563 / 10000) - 1 / 20000 ≤ rn (9 / 160)) := by
  decide +kernel

/-! ## `Spec.simSet` inside the scope; evaluation of the comparison -/

theorem dedup_foldl_append {α : Type} [DecidableEq α] (l acc : List α) (h1 : l.Nodup) (h2 : ∀ x ∈ l, x ∉ acc) :
    l.foldl (fun acc a => if a ∈ acc then acc else acc ++ [a]) acc = acc ++ l := by
  induction l generalizing acc with
  | nil => simp
  | cons a l ih =>
    rw [List.nodup_cons] at h1
    rw [List.foldl_cons, if_neg (h2 a (List.mem_cons_self ..)), ih _ h1.2]
    · simp
    · intro x hx
      rw [List.mem_append, List.mem_singleton, not_or]
      exact ⟨h2 x (List.mem_cons_of_mem _ hx), fun hxa => h1.1 (hxa ▸ hx)⟩

theorem dedup_of_nodup {α : Type} [DecidableEq α] (l : List α) (h : l.Nodup) : dedup l = l := by
  unfold dedup
  rw [dedup_foldl_append l [] h (by simp)]
  simp

theorem interCount_le_left (a b : List Tok) (ha : a.Nodup) : interCount a b ≤ a.length := by
  unfold interCount
  rw [dedup_of_nodup a ha]
  exact List.length_filter_le _ _

theorem interCount_le_right (a b : List Tok) (ha : a.Nodup) : interCount a b ≤ b.length := by
  unfold interCount
  rw [dedup_of_nodup a ha]
  have hnd : (a.filter (fun t => decide (t ∈ b))).Nodup := ha.filter _
  have hsub : a.filter (fun t => decide (t ∈ b)) ⊆ b := by
    intro x hx
    simpa using (List.mem_filter.mp hx).2
  exact (List.subperm_of_subset hnd hsub).length_le

theorem ofExact_zero : PyV.ofExact 0 = .float 0 := by
  rw [ofExact_float (le_refl _) (by norm_num), rn_zero]

/-- the similarity formulas on disjoint non-empty sets give 0.0 -/
theorem simFormula_zero (m : Measure) (hm : SetMeasure m) (n k : Nat) (hn1 : 1 ≤ n) (hk1 : 1 ≤ k)
    (hn : n < 2 ^ 32) (hk : k < 2 ^ 32) : simFormula m 0 n k = .float 0 := by
  have hn' := natCast_le_of_lt hn
  have hk' := natCast_le_of_lt hk
  have hn1' : (1 : Rat) ≤ n := by exact_mod_cast hn1
  have hk1' : (1 : Rat) ≤ k := by exact_mod_cast hk1
  have e0 : PyV.toFloat (.int ((0 : Nat) : Int)) = .float 0 := by
    have := toFloat_n 0 (by norm_num)
    simpa using this
  rcases hm with rfl | rfl | rfl
  · have e : ((n : Int) + k - ((0 : Nat) : Int)) = ((n + k : Nat) : Int) := by push_cast; ring
    simp only [simFormula]
    rw [e, e0, toFloat_n _ (by push_cast; linarith), div_ff _ _ (by push_cast; linarith), zero_div, ofExact_zero]
  · obtain ⟨p1, p2⟩ := sqrt_prod_range hn1 hn hk1 hk
    have hs : ∀ x : Nat, PyV.sqrt (.float (x : Rat)) = .float (fsqrt x) := by
      intro x
      have : ¬ ((x : Rat) < 0) := not_lt.mpr (by positivity)
      simp only [PyV.sqrt, this, if_false]
    simp only [simFormula]
    rw [e0, toFloat_n _ (by linarith), toFloat_n _ (by linarith), hs, hs, mul_ff,
      ofExact_float (by have := fsqrt_nonneg (n : Rat); have := fsqrt_nonneg (k : Rat); positivity)
        (by nlinarith [fsqrt_range hn1 hn, fsqrt_range hk1 hk, fsqrt_nonneg (n : Rat), fsqrt_nonneg (k : Rat)]),
      div_ff _ _ (by linarith), zero_div, ofExact_zero]
  · have e : ((n : Int) + k) = ((n + k : Nat) : Int) := by push_cast; rfl
    simp only [simFormula]
    rw [e, e0, toFloat_n _ (by push_cast; linarith), mul_ff, mul_zero, ofExact_zero,
      div_ff _ _ (by push_cast; linarith), zero_div, ofExact_zero]

/-- inside the scope (JACCARD / COSINE / DICE, duplicate-free lists of fewer than 2³² tokens) the similarity of two
    token sets is the int 0 (the empty shortcut) or a finite double -/
theorem simSet_shape (m : Measure) (hm : SetMeasure m) (A B : List Tok) (hA : A.Nodup)
    (hAs : A.length < 2 ^ 32) (hBs : B.length < 2 ^ 32) :
    Spec.simSet m A B = .int 0 ∨ ∃ s : Rat, Spec.simSet m A B = .float s := by
  unfold Spec.simSet
  split
  · exact Or.inr ⟨1, rfl⟩
  · split
    · exact Or.inl rfl
    · next hemp =>
      simp only [Bool.or_eq_true, decide_eq_true_eq, not_or] at hemp
      right
      have h1 := interCount_le_left A B hA
      have h2 := interCount_le_right A B hA
      rcases Nat.eq_zero_or_pos (interCount A B) with h0 | hpos
      · exact ⟨0, by rw [h0, simFormula_zero m hm _ _ (by omega) (by omega) hAs hBs]⟩
      · exact ⟨_, simFormula_eq m hm _ _ _ hpos h1 h2 hAs hBs⟩

theorem compFn_ge : compFn ">=" = PyV.geb := by
  funext x y; simp [compFn, Gen.comp_op_map]
theorem compFn_gt : compFn ">" = PyV.gtb := by
  funext x y; simp [compFn, Gen.comp_op_map]
theorem compFn_eq : compFn "=" = PyV.eqb := by
  funext x y; simp [compFn, Gen.comp_op_map]

/-- the comparison sees the Python int `1` and the float `1.0` alike -/
theorem qualRounded_int_one (m : Measure) (op : String) (A B : List Tok) :
    Spec.qualRounded m op (.int 1) A B = Spec.qualRounded m op (.float 1) A B := by
  have h : ∀ v : PyV, PyV.numVal? v = none ∨ ∃ x, PyV.numVal? v = some x := by
    intro v; cases PyV.numVal? v <;> simp
  unfold Spec.qualRounded compFn Gen.comp_op_map
  generalize Spec.score4 m A B = v
  split_ifs <;>
    first
    | rfl
    | (cases v <;> simp [PyV.leb, PyV.ltb, PyV.eqb, PyV.neb, PyV.numVal?])

/-- rounded qualification when the similarity is the double `s` -/
theorem qual_float (m : Measure) (A B : List Tok) (s t : Rat) (hs : Spec.simSet m A B = .float s) :
    (Spec.qualRounded m ">=" (.float t) A B = true ↔ t ≤ round4 s) ∧
    (Spec.qualRounded m ">" (.float t) A B = true ↔ t < round4 s) ∧
    (Spec.qualRounded m "=" (.float t) A B = true ↔ round4 s = t) := by
  unfold Spec.qualRounded Spec.score4
  rw [hs, round4_f, compFn_ge, compFn_gt, compFn_eq]
  simp [PyV.geb, PyV.gtb, PyV.leb, PyV.ltb, PyV.eqb, PyV.numVal?]

/-- the empty shortcut (similarity the int 0) never qualifies against a positive threshold -/
theorem qual_int_zero (m : Measure) (A B : List Tok) (t : Rat) (ht : 0 < t) (hs : Spec.simSet m A B = .int 0) :
    Spec.qualRounded m ">=" (.float t) A B = false ∧ Spec.qualRounded m ">" (.float t) A B = false ∧
    Spec.qualRounded m "=" (.float t) A B = false := by
  unfold Spec.qualRounded Spec.score4
  rw [hs, compFn_ge, compFn_gt, compFn_eq]
  simp [PyV.round, PyV.geb, PyV.gtb, PyV.leb, PyV.ltb, PyV.eqb, PyV.numVal?]
  exact ⟨ht, ht.le, ht.ne⟩

/-! ## what the validation of the joins leaves of threshold and operator -/

theorem bind_ok {ε α β : Type} (x : Except ε α) (f : α → Except ε β) (b : β) (h : x >>= f = .ok b) :
    ∃ a, x = .ok a ∧ f a = .ok b := by
  cases x with
  | error e => cases h
  | ok a => exact ⟨a, rfl, h⟩

/-- a successful `validateJoin` ran `validate_threshold` and `validate_comp_op_for_sim_measure` without error -/
theorem valid_checks (mname : String) (a : JoinArgs) (t : TokObj) (l r : Frame)
    (hv : validateJoin mname a t = .ok (l, r)) :
    genCheck (Gen.validate_threshold a.threshold (.str mname)) = .ok () ∧
    genCheck (Gen.validate_comp_op_for_sim_measure (.str a.compOp) (.str mname)) = .ok () := by
  unfold validateJoin at hv
  obtain ⟨⟨l', r'⟩, -, hv⟩ := bind_ok _ _ _ hv
  simp only at hv
  split at hv <;>
  · obtain ⟨_, -, hv⟩ := bind_ok _ _ _ hv
    obtain ⟨_, h3, hv⟩ := bind_ok _ _ _ hv
    obtain ⟨_, h4, hv⟩ := bind_ok _ _ _ hv
    exact ⟨h3, h4⟩

theorem genCheck_ok {v : PyV} (h : genCheck v = .ok ()) : ∀ e, v ≠ .err e := by
  intro e he; rw [he] at h; cases h

/-- a numeric threshold accepted by the validation of jaccard / cosine / dice joins is a float in (0, 1] or the int 1 -/
theorem valid_threshold (m : Measure) (hm : SetMeasure m) (a : JoinArgs) (t : TokObj) (l r : Frame)
    (hv : validateJoin m.name a t = .ok (l, r)) :
    (∀ q : Rat, a.threshold = .float q → 0 < q ∧ q ≤ 1) ∧ (∀ i : Int, a.threshold = .int i → i = 1) := by
  have h := genCheck_ok (valid_checks m.name a t l r hv).1 .assertion
  constructor
  · intro q hq
    rw [hq] at h
    by_contra hc
    apply h
    have hc : q ≤ 0 ∨ 1 < q := by
      by_cases h0 : q ≤ 0
      · exact Or.inl h0
      · exact Or.inr (by by_contra h1; exact hc ⟨not_le.mp h0, not_lt.mp h1⟩)
    rcases hm with rfl | rfl | rfl <;>
      simp [Gen.validate_threshold, Measure.name, PyV.eqb, PyV.leb, PyV.gtb, PyV.ltb, PyV.numVal?, hc]
  · intro i hi
    rw [hi] at h
    by_contra hc
    apply h
    have hc : i ≤ 0 ∨ 1 < i := by omega
    rcases hm with rfl | rfl | rfl <;>
    · simp [Gen.validate_threshold, Measure.name, PyV.eqb, PyV.leb, PyV.gtb, PyV.ltb, PyV.numVal?]
      intro h0
      exact_mod_cast (by omega : 1 < i)

/-- the operator accepted by the validation of jaccard / cosine / dice joins is `>=`, `>` or `=` -/
theorem valid_op (m : Measure) (hm : SetMeasure m) (a : JoinArgs) (t : TokObj) (l r : Frame)
    (hv : validateJoin m.name a t = .ok (l, r)) : a.compOp = ">=" ∨ a.compOp = ">" ∨ a.compOp = "=" := by
  have h := genCheck_ok (valid_checks m.name a t l r hv).2 .assertion
  by_contra hc
  apply h
  rw [not_or, not_or] at hc
  rcases hm with rfl | rfl | rfl <;>
    simp [Gen.validate_comp_op_for_sim_measure, Measure.name, PyV.eqb, hc.1, hc.2.1, hc.2.2]

end SSJ.RoundSlack

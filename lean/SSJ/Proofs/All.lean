import SSJ.Proofs.F64Laws
import SSJ.Proofs.DictFold
import SSJ.Proofs.TokenOrdering
import SSJ.Proofs.Position
import SSJ.Proofs.Candidates
import SSJ.Proofs.Rows
import SSJ.Proofs.Split
import SSJ.Proofs.Matcher

/-
  SSJ.Proofs.EntryAccept — glue for property C15: the validation blocks of the table-level entry
  points as single functions, their error kinds, and TOTALITY of the entry points on validated
  arguments (the result is a DataFrame whatever the shape of the tables).
-/
import SSJ.Proofs.Frames
import SSJ.Proofs.Session
import SSJ.Proofs.JoinSetSim
import SSJ.Proofs.JoinExact
import SSJ.Proofs.JoinED
import SSJ.Proofs.FilterSafe

namespace SSJ

/-! ## 1. width of the rows emitted by the per-chunk workers -/

theorem setSimJoin_width (a : TableArgs) (j : JoinCfg) (hout : j.out = RT.out a) (tok : String → List Tok)
    (lt rt : List Row) : ∀ row ∈ setSimJoin j tok lt rt, row.length = (RT.header a j.outSimScore).length := by
  intro row h
  rw [setSimJoin_eq_pairs] at h
  obtain ⟨p, _, rfl⟩ := List.mem_map.1 h
  rw [hout]
  exact RT.withScore_outputRow_length a _ _ _ _

theorem overlapCoefficientJoinSplit_width (a : TableArgs) (thr : PyV) (op : String) (ae : Bool) (lAttr rAttr : Nat)
    (oss : Bool) (tok : String → List Tok) (lt rt : List Row) :
    ∀ row ∈ overlapCoefficientJoinSplit thr op ae lAttr rAttr (RT.out a) oss tok lt rt,
      row.length = (RT.header a oss).length := by
  intro row h
  rw [overlapCoefficientJoinSplit_eq_pairs] at h
  obtain ⟨p, _, rfl⟩ := List.mem_map.1 h
  exact RT.withScore_outputRow_length a _ _ _ _

theorem editDistanceJoinSplit_width (a : TableArgs) (tau qval : Int) (op : String) (lAttr rAttr : Nat)
    (oss : Bool) (tok : String → List Tok) (lt rt : List Row) :
    ∀ row ∈ editDistanceJoinSplit tau qval op lAttr rAttr (RT.out a) oss tok lt rt,
      row.length = (RT.header a oss).length := by
  intro row h
  rw [editDistanceJoinSplit_eq_pairs] at h
  obtain ⟨p, _, rfl⟩ := List.mem_map.1 h
  exact RT.withScore_outputRow_length a _ _ _ _

theorem overlapFilterTablesSplit_width (a : TableArgs) (f : OverlapFilterObj) (tok : String → List Tok)
    (lAttr rAttr : Nat) (oss : Bool) (lt rt : List Row) :
    ∀ row ∈ overlapFilterTablesSplit f tok (RT.out a) lAttr rAttr oss lt rt,
      row.length = (RT.header a oss).length := by
  intro row h
  rw [overlapFilterTablesSplit_eq_pairs] at h
  obtain ⟨p, _, rfl⟩ := List.mem_map.1 h
  exact RT.outputRow_append_length a _ _ _ _

theorem suffixFilterTablesSplit_rows (f : FilterObj) (tok : String → List Tok) (o : OutCfg) (lAttr rAttr : Nat)
    (lt rt : List Row) :
    ∀ row ∈ suffixFilterTablesSplit f tok o lAttr rAttr lt rt, ∃ la ra, row = outputRow o la ra := by
  intro row h
  unfold suffixFilterTablesSplit at h
  simp only [List.mem_flatMap] at h
  obtain ⟨⟨lRow, ltk⟩, _, ⟨rRow, rtk⟩, _, h⟩ := h
  simp only at h
  split at h
  · exact ⟨lRow, rRow, List.mem_singleton.1 h⟩
  · split at h
    · cases h
    · split at h
      · exact ⟨lRow, rRow, List.mem_singleton.1 h⟩
      · cases h

theorem filterTablesSplit_width (a : TableArgs) (k : FilterKind) (f : FilterObj) (tok : String → List Tok)
    (lAttr rAttr : Nat) (lt rt : List Row) :
    ∀ row ∈ filterTablesSplit k f tok (RT.out a) lAttr rAttr lt rt, row.length = (RT.header a false).length := by
  intro row h
  cases k with
  | size =>
    rw [filterTablesSplit, sizeFilterTablesSplit_eq] at h
    obtain ⟨p, _, rfl⟩ := List.mem_map.1 h
    exact RT.outputRow_length a _ _
  | «prefix» =>
    rw [filterTablesSplit, prefixFilterTablesSplit_eq] at h
    obtain ⟨p, _, rfl⟩ := List.mem_map.1 h
    exact RT.outputRow_length a _ _
  | position =>
    rw [filterTablesSplit, positionFilterTablesSplit_eq] at h
    obtain ⟨p, _, rfl⟩ := List.mem_map.1 h
    exact RT.outputRow_length a _ _
  | suffix =>
    obtain ⟨la, ra, rfl⟩ := suffixFilterTablesSplit_rows f tok _ lAttr rAttr lt rt row h
    exact RT.outputRow_length a _ _

/-! ## 2. the validation block of `filter_tables` (all five filters) as one function -/

/-- the validations at the top of `Filter.filter_tables` / `OverlapFilter.filter_tables`, in code order -/
def validateFilterTables (a : TableArgs) : Except PyErr (Frame × Frame) := do
  let (l, r) ← validateTablesAttrs a
  validateOutAndKeys a l r
  return (l, r)

theorem filterTables_eq (k : FilterKind) (f : FilterObj) (a : TableArgs) (t : TokObj) (toks : TokFn) (cpu : Int) :
    filterTables k f a t toks cpu =
      validateFilterTables a >>= fun p =>
        runTables a p.1 p.2 f.allowMissing false cpu
          (fun o lAttr rAttr lArr ch => filterTablesSplit k f (toks t.returnSet) o lAttr rAttr lArr ch) := by
  unfold filterTables validateFilterTables
  cases validateTablesAttrs a with
  | error e => rfl
  | ok p =>
    obtain ⟨l, r⟩ := p
    show (validateOutAndKeys a l r >>= _) = ((validateOutAndKeys a l r >>= _) >>= _)
    cases validateOutAndKeys a l r <;> rfl

theorem overlapFilterTables_eq (f : OverlapFilterObj) (a : TableArgs) (oss : Bool) (tok : String → List Tok) (cpu : Int) :
    overlapFilterTables f a oss tok cpu =
      validateFilterTables a >>= fun p =>
        runTables a p.1 p.2 f.allowMissing oss cpu
          (fun o lAttr rAttr lArr ch => overlapFilterTablesSplit f tok o lAttr rAttr oss lArr ch) := by
  unfold overlapFilterTables validateFilterTables
  cases validateTablesAttrs a with
  | error e => rfl
  | ok p =>
    obtain ⟨l, r⟩ := p
    show (validateOutAndKeys a l r >>= _) = ((validateOutAndKeys a l r >>= _) >>= _)
    cases validateOutAndKeys a l r <;> rfl

theorem validateFilterTables_of_tables (a : TableArgs) (l r : Frame) (hv : validateTablesAttrs a = .ok (l, r)) :
    validateFilterTables a =
      if (a.lOut.getD []).any (fun x => !l.hasCol x) then .error .assertion
      else if (a.rOut.getD []).any (fun x => !r.hasCol x) then .error .assertion
      else if !keyTest l a.lKey then .error .assertion
      else if !keyTest r a.rKey then .error .assertion
      else .ok (l, r) := by
  unfold validateFilterTables
  rw [hv]
  show (validateOutAndKeys a l r >>= fun _ => pure (l, r)) = _
  rw [validateOutAndKeys_bind]
  rfl

theorem validateFilterTables_of_tables_error (a : TableArgs) (e : PyErr) (hv : validateTablesAttrs a = .error e) :
    validateFilterTables a = .error e := by
  unfold validateFilterTables
  rw [hv]
  rfl

/-- COMPLETE CHARACTERISATION of acceptance by `filter_tables` -/
theorem validateFilterTables_ok_iff (a : TableArgs) (l r : Frame) :
    validateFilterTables a = .ok (l, r) ↔
      TablesValid a l r ∧ OutValid a l r ∧ KeyValid l a.lKey ∧ KeyValid r a.rKey := by
  rw [← validateTablesAttrs_ok_iff, ← keyTest_iff, ← keyTest_iff]
  unfold OutValid
  constructor
  · intro h
    cases hv : validateTablesAttrs a with
    | error e' => rw [validateFilterTables_of_tables_error a e' hv] at h; cases h
    | ok p =>
      obtain ⟨l', r'⟩ := p
      rw [validateFilterTables_of_tables a l' r' hv] at h
      split_ifs at h with h5 h6 h7 h8
      simp only [Except.ok.injEq, Prod.mk.injEq] at h
      obtain ⟨rfl, rfl⟩ := h
      exact ⟨rfl, ⟨by simpa using h5, by simpa using h6⟩, by simpa using h7, by simpa using h8⟩
  · rintro ⟨hv, ⟨h5, h6⟩, h7, h8⟩
    rw [validateFilterTables_of_tables a l r hv]
    have h5' : ((a.lOut.getD []).any fun x => !l.hasCol x) = false := by simpa using h5
    have h6' : ((a.rOut.getD []).any fun x => !r.hasCol x) = false := by simpa using h6
    simp [h5', h6', h7, h8]

theorem validateFilterTables_error_kind (a : TableArgs) (e : PyErr) (h : validateFilterTables a = .error e) :
    e = .typeErr ∨ e = .assertion := by
  cases hv : validateTablesAttrs a with
  | error e' =>
    rw [validateFilterTables_of_tables_error a e' hv] at h
    cases h
    exact validateTablesAttrs_error_kind _ _ hv
  | ok p =>
    obtain ⟨l, r⟩ := p
    rw [validateFilterTables_of_tables a l r hv] at h
    split_ifs at h <;> cases h <;> simp

theorem validateFilterTables_not_frame (a : TableArgs) (h : a.ltable = none ∨ a.rtable = none) :
    validateFilterTables a = .error .typeErr :=
  validateFilterTables_of_tables_error _ _ (validateTablesAttrs_none _ h)

theorem validateFilterTables_missing_attr (a : TableArgs) (l r : Frame)
    (hl : a.ltable = some l) (hr : a.rtable = some r)
    (h : ¬ l.hasCol a.lKey ∨ ¬ r.hasCol a.rKey ∨ ¬ l.hasCol a.lAttr ∨ ¬ r.hasCol a.rAttr) :
    validateFilterTables a = .error .assertion := by
  apply validateFilterTables_of_tables_error
  rw [validateTablesAttrs_some _ l r hl hr]
  split_ifs with h1 h2 h3 h4 <;> first | rfl | skip
  all_goals (exfalso; simp at h1 h2 h3 h4; simp [h1, h2, h3, h4] at h)

theorem validateFilterTables_numeric_attr (a : TableArgs) (l r : Frame)
    (hl : a.ltable = some l) (hr : a.rtable = some r)
    (hlk : l.hasCol a.lKey = true) (hrk : r.hasCol a.rKey = true)
    (hla : l.hasCol a.lAttr = true) (hra : r.hasCol a.rAttr = true)
    (h : (l.dtype a.lAttr ≠ "object" ∧ l.dtype a.lAttr ≠ "str") ∨
         (r.dtype a.rAttr ≠ "object" ∧ r.dtype a.rAttr ≠ "str")) :
    validateFilterTables a = .error .assertion := by
  apply validateFilterTables_of_tables_error
  rw [validateTablesAttrs_some _ l r hl hr]
  simp only [hlk, hrk, hla, hra]
  split_ifs with h1 h2 <;> first | rfl | skip
  all_goals (exfalso; simp at h1 h2; rcases h with ⟨h3, h4⟩ | ⟨h3, h4⟩ <;> simp_all)

theorem validateFilterTables_output_attr (a : TableArgs) (l r : Frame) (hv : TablesValid a l r)
    (h : (∃ x ∈ a.lOut.getD [], ¬ l.hasCol x) ∨ (∃ x ∈ a.rOut.getD [], ¬ r.hasCol x)) :
    validateFilterTables a = .error .assertion := by
  rw [validateFilterTables_of_tables a l r ((validateTablesAttrs_ok_iff _ _ _).mpr hv)]
  split_ifs with h1 h2 <;> first | rfl | skip
  all_goals (exfalso; simp at h1 h2; rcases h with ⟨x, hx, hx'⟩ | ⟨x, hx, hx'⟩ <;> simp_all)

theorem validateFilterTables_key (a : TableArgs) (l r : Frame) (hv : TablesValid a l r) (hout : OutValid a l r)
    (h : ¬ KeyValid l a.lKey ∨ ¬ KeyValid r a.rKey) :
    validateFilterTables a = .error .assertion := by
  rw [validateFilterTables_of_tables a l r ((validateTablesAttrs_ok_iff _ _ _).mpr hv)]
  have h5' : ((a.lOut.getD []).any fun x => !l.hasCol x) = false := by simpa using hout.1
  have h6' : ((a.rOut.getD []).any fun x => !r.hasCol x) = false := by simpa using hout.2
  simp only [h5', h6', if_false, Bool.false_eq_true]
  rw [← keyTest_iff, ← keyTest_iff] at h
  split_ifs with h1 h2 <;> first | rfl | skip
  exfalso; simp at h1 h2; simp [h1, h2] at h

/-- two rows with Python-equal key values (`Props.SameKeyTwice`): not a key column -/
theorem not_keyValid_of_sameKeyTwice (f : Frame) (key : String) (h : Props.SameKeyTwice f key) : ¬ KeyValid f key := by
  obtain ⟨i, j, hij, hj, he⟩ := h
  exact not_keyValid_of_pyEq f key i j hij hj he

theorem keyTest_of_sameKeyTwice (f : Frame) (key : String) (h : Props.SameKeyTwice f key) : keyTest f key = false := by
  cases hk : keyTest f key with
  | false => rfl
  | true => exact absurd ((keyTest_iff f key).1 hk) (not_keyValid_of_sameKeyTwice f key h)

/-! ## 3. totality on validated arguments -/

theorem setSimJoinPy_total (m : Measure) (a : JoinArgs) (t : TokObj) (toks : TokFn) (cpu : Int) (l r : Frame)
    (hv : validateJoin m.name a t = .ok (l, r))
    (hb : Props.BodyOK a.toTableArgs l r a.outSimScore) :
    ∃ fr, (setSimJoinPy m a t toks cpu).result = .ok fr := by
  unfold setSimJoinPy
  rw [hv]
  simp only [withFlag_result]
  obtain ⟨fr, h, _⟩ := runTables_ok a.toTableArgs l r a.allowMissing a.outSimScore cpu
    (fun o lAttr rAttr lArr ch =>
        setSimJoin { f := { cfg := { measure := m, threshold := a.threshold }, allowEmpty := a.allowEmpty },
                     compOp := a.compOp, lAttr := lAttr, rAttr := rAttr, out := o, outSimScore := a.outSimScore }
          (toks true) lArr ch)
    (fun ch => setSimJoin_width a.toTableArgs _ rfl _ _ _) hb.lstr hb.rstr hb.noClash
  exact ⟨fr, h⟩

theorem overlapCoefficientJoinPy_total (a : JoinArgs) (t : TokObj) (toks : TokFn) (cpu : Int) (l r : Frame)
    (hv : validateJoin "OVERLAP_COEFFICIENT" a t = .ok (l, r))
    (hb : Props.BodyOK a.toTableArgs l r a.outSimScore) :
    ∃ fr, (overlapCoefficientJoinPy a t toks cpu).result = .ok fr := by
  unfold overlapCoefficientJoinPy
  rw [hv]
  simp only [withFlag_result]
  obtain ⟨fr, h, _⟩ := runTables_ok a.toTableArgs l r a.allowMissing a.outSimScore cpu
    (fun o lAttr rAttr lArr ch =>
        overlapCoefficientJoinSplit a.threshold a.compOp a.allowEmpty lAttr rAttr o a.outSimScore (toks true) lArr ch)
    (fun ch => overlapCoefficientJoinSplit_width a.toTableArgs _ _ _ _ _ _ _ _ _) hb.lstr hb.rstr hb.noClash
  exact ⟨fr, h⟩

/-- `int(floor(threshold))` is an int for int and (finite) float thresholds -/
theorem floor_toInt_int (k : Int) : PyV.toInt (PyV.floor (.int k)) = .int k := rfl
theorem floor_toInt_float (q : Rat) : PyV.toInt (PyV.floor (.float q)) = .int q.floor := rfl

theorem floor_toInt_of_numeric (thr : PyV) (h : (∃ k, thr = .int k) ∨ (∃ q, thr = .float q)) :
    ∃ tau, PyV.toInt (PyV.floor thr) = .int tau := by
  rcases h with ⟨k, rfl⟩ | ⟨q, rfl⟩
  · exact ⟨k, rfl⟩
  · exact ⟨q.floor, rfl⟩

theorem editDistanceJoinPy_total (a : JoinArgs) (t : TokObj) (toks : TokFn) (cpu : Int) (l r : Frame) (tau : Int)
    (hv : validateJoin "EDIT_DISTANCE" a t = .ok (l, r))
    (htau : PyV.toInt (PyV.floor a.threshold) = .int tau)
    (hb : Props.BodyOK a.toTableArgs l r a.outSimScore) :
    ∃ fr, (editDistanceJoinPy a t toks cpu).result = .ok fr := by
  unfold editDistanceJoinPy
  rw [hv]
  simp only [htau, withFlag_result]
  obtain ⟨fr, h, _⟩ := runTables_ok a.toTableArgs l r a.allowMissing a.outSimScore cpu
    (fun o lAttr rAttr lArr ch =>
        editDistanceJoinSplit tau t.qval a.compOp lAttr rAttr o a.outSimScore (toks false) lArr ch)
    (fun ch => editDistanceJoinSplit_width a.toTableArgs _ _ _ _ _ _ _ _ _) hb.lstr hb.rstr hb.noClash
  exact ⟨fr, h⟩

theorem filterTables_total (k : FilterKind) (f : FilterObj) (a : TableArgs) (t : TokObj) (toks : TokFn) (cpu : Int)
    (l r : Frame) (hv : validateFilterTables a = .ok (l, r)) (hb : Props.BodyOK a l r false) :
    ∃ fr, filterTables k f a t toks cpu = .ok fr := by
  rw [filterTables_eq, hv]
  obtain ⟨fr, h, _⟩ := runTables_ok a l r f.allowMissing false cpu
    (fun o lAttr rAttr lArr ch => filterTablesSplit k f (toks t.returnSet) o lAttr rAttr lArr ch)
    (fun ch => filterTablesSplit_width a k f _ _ _ _ _) hb.lstr hb.rstr hb.noClash
  exact ⟨fr, h⟩

theorem overlapFilterTables_total (f : OverlapFilterObj) (a : TableArgs) (oss : Bool) (tok : String → List Tok)
    (cpu : Int) (l r : Frame) (hv : validateFilterTables a = .ok (l, r)) (hb : Props.BodyOK a l r oss) :
    ∃ fr, overlapFilterTables f a oss tok cpu = .ok fr := by
  rw [overlapFilterTables_eq, hv]
  obtain ⟨fr, h, _⟩ := runTables_ok a l r f.allowMissing oss cpu
    (fun o lAttr rAttr lArr ch => overlapFilterTablesSplit f tok o lAttr rAttr oss lArr ch)
    (fun ch => overlapFilterTablesSplit_width a f tok _ _ oss _ _) hb.lstr hb.rstr hb.noClash
  exact ⟨fr, h⟩

theorem overlapJoinPy_total (a : JoinArgs) (t : TokObj) (toks : TokFn) (cpu : Int) (f : OverlapFilterObj) (l r : Frame)
    (hf : mkOverlapFilter a.threshold a.compOp a.allowMissing t = .ok f)
    (hv : validateFilterTables a.toTableArgs = .ok (l, r)) (hb : Props.BodyOK a.toTableArgs l r a.outSimScore) :
    ∃ fr, (overlapJoinPy a t toks cpu).result = .ok fr := by
  obtain ⟨fr, h⟩ := overlapFilterTables_total f a.toTableArgs a.outSimScore (toks true) cpu l r hv hb
  refine ⟨fr, ?_⟩
  show (mkOverlapFilter a.threshold a.compOp a.allowMissing t >>= _) = _
  rw [hf]
  exact h

/-! ## 4. the filter constructor `mkFilter` (Size/Prefix/Position/SuffixFilter.__init__) -/

theorem Gen.validate_sim_measure_type_cases (m : PyV) :
    Gen.validate_sim_measure_type m = .err .typeErr ∨ Gen.validate_sim_measure_type m = .bool true := by
  unfold Gen.validate_sim_measure_type
  split_ifs <;> simp

theorem Measure.ofName?_some {s : String} {m : Measure} (h : Measure.ofName? s = some m) : s = m.name := by
  unfold Measure.ofName? at h
  split_ifs at h with h1 h2 h3 h4 h5 <;> cases h <;> simp_all [Measure.name]

theorem Gen.validate_sim_measure_type_of_name (name : String) (m : Measure)
    (h : Measure.ofName? name.toUpper = some m) :
    Gen.validate_sim_measure_type (.str name) = .bool true := by
  have hs := Measure.ofName?_some h
  unfold Gen.validate_sim_measure_type
  cases m <;> simp [PyV.upper, PyV.eqb, hs, Measure.name]

/-- unknown measure name ⇒ TypeError -/
theorem mkFilter_unknown_measure (name : String) (thr : PyV) (ae am : Bool) (t : TokObj)
    (h : Measure.ofName? name.toUpper = none) : mkFilter name thr ae am t = .error .typeErr := by
  unfold mkFilter
  simp only [h]
  rcases Gen.validate_sim_measure_type_cases (.str name) with h' | h' <;> rw [h'] <;> rfl

/-- `mkFilter` for a known measure: a cascade of tests in code order -/
theorem mkFilter_of_measure (name : String) (thr : PyV) (ae am : Bool) (t : TokObj) (m : Measure)
    (h : Measure.ofName? name.toUpper = some m) :
    mkFilter name thr ae am t =
      if !t.isTokenizer then .error .typeErr
      else if (m == .editDistance && !t.isQgram) then .error .assertion
      else if Gen.validate_threshold thr (.str m.name) = .err .assertion then .error .assertion
      else .ok { cfg := { measure := m, threshold := thr, qval := if t.isQgram then .int t.qval else .none },
                 allowEmpty := ae, allowMissing := am } := by
  unfold mkFilter validateTokenizerForSimMeasure
  simp only [h, Gen.validate_sim_measure_type_of_name name m h]
  show ((raiseIf (!t.isTokenizer) .typeErr >>= fun _ => raiseIf (m == .editDistance && !t.isQgram) .assertion) >>=
      fun _ => genCheck (Gen.validate_threshold thr (.str m.name)) >>= fun _ => pure _) = _
  rw [bind_assoc, raiseIf_bind, raiseIf_bind, genCheck_bind_of_cases _ _ _ (Gen.validate_threshold_cases _ _) rfl]
  rfl

/-- a rejected filter construction is rejected with TypeError or AssertionError -/
theorem mkFilter_error_kind (name : String) (thr : PyV) (ae am : Bool) (t : TokObj) (e : PyErr)
    (h : mkFilter name thr ae am t = .error e) : e = .typeErr ∨ e = .assertion := by
  cases hm : Measure.ofName? name.toUpper with
  | none => rw [mkFilter_unknown_measure name thr ae am t hm] at h; cases h; exact Or.inl rfl
  | some m =>
    rw [mkFilter_of_measure name thr ae am t m hm] at h
    split_ifs at h <;> cases h <;> simp

/-- not a Tokenizer object ⇒ TypeError -/
theorem mkFilter_not_tokenizer (name : String) (thr : PyV) (ae am : Bool) (t : TokObj) (m : Measure)
    (hm : Measure.ofName? name.toUpper = some m) (h : t.isTokenizer = false) :
    mkFilter name thr ae am t = .error .typeErr := by
  rw [mkFilter_of_measure name thr ae am t m hm, h]
  rfl

/-- edit distance with a non-q-gram tokenizer ⇒ AssertionError -/
theorem mkFilter_not_qgram (name : String) (thr : PyV) (ae am : Bool) (t : TokObj)
    (hm : Measure.ofName? name.toUpper = some .editDistance) (ht : t.isTokenizer = true) (h : t.isQgram = false) :
    mkFilter name thr ae am t = .error .assertion := by
  rw [mkFilter_of_measure name thr ae am t _ hm, ht, h]
  rfl

/-- threshold rejected by `validate_threshold` ⇒ AssertionError -/
theorem mkFilter_threshold (name : String) (thr : PyV) (ae am : Bool) (t : TokObj) (m : Measure)
    (hm : Measure.ofName? name.toUpper = some m) (ht : t.isTokenizer = true)
    (hq : m = .editDistance → t.isQgram = true)
    (h : Gen.validate_threshold thr (.str m.name) = .err .assertion) :
    mkFilter name thr ae am t = .error .assertion := by
  rw [mkFilter_of_measure name thr ae am t m hm, ht]
  have h2 : (m == .editDistance && !t.isQgram) = false := by
    by_cases hmm : m = .editDistance
    · simp [hq hmm]
    · simp [hmm]
  simp [h2, h]

/-- valid arguments ⇒ the filter object is constructed (with exactly the given parameters) -/
theorem mkFilter_ok (name : String) (thr : PyV) (ae am : Bool) (t : TokObj) (m : Measure)
    (hm : Measure.ofName? name.toUpper = some m) (ht : t.isTokenizer = true)
    (hq : m = .editDistance → t.isQgram = true)
    (h : Gen.validate_threshold thr (.str m.name) ≠ .err .assertion) :
    mkFilter name thr ae am t =
      .ok { cfg := { measure := m, threshold := thr, qval := if t.isQgram then .int t.qval else .none },
            allowEmpty := ae, allowMissing := am } := by
  rw [mkFilter_of_measure name thr ae am t m hm, ht]
  have h2 : (m == .editDistance && !t.isQgram) = false := by
    by_cases hmm : m = .editDistance
    · simp [hq hmm]
    · simp [hmm]
  simp [h2, h]

/-! ## 5. the OverlapFilter constructor in normal form -/

theorem mkOverlapFilter_eq (size : PyV) (op : String) (am : Bool) (t : TokObj) :
    mkOverlapFilter size op am t =
      if !t.isTokenizer then .error .typeErr
      else if Gen.validate_threshold size (.str "OVERLAP") = .err .assertion then .error .assertion
      else if Gen.validate_comp_op_for_sim_measure (.str op) (.str "OVERLAP") = .err .assertion then .error .assertion
      else .ok { overlapSize := size, compOp := op, allowMissing := am } := by
  unfold mkOverlapFilter validateTokenizer
  rw [raiseIf_bind,
    genCheck_bind_of_cases _ _ _ (Gen.validate_threshold_cases _ _) rfl,
    genCheck_bind_of_cases _ _ _ (Gen.validate_comp_op_for_sim_measure_cases _ _) rfl]
  rfl

end SSJ

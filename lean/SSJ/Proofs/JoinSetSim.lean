/-
  SSJ.Proofs.JoinSetSim — what `setSimJoin` (the per-chunk loop of the jaccard / cosine / dice
  joins) emits, exactly, and the property-level consequences: ONCE, SOUND, COMPLETE, EMPTY SETS.
-/
import SSJ.Model.Joins
import SSJ.Spec.Spec
import SSJ.Proofs.TokenOrdering
import SSJ.Proofs.DictFold
import SSJ.Proofs.Position
import SSJ.Proofs.Bounds
import Mathlib.Data.List.Basic
import Mathlib.Data.List.Nodup

namespace SSJ

/-! ### 0. The pairs emitted by `setSimJoin` -/

/-- token lists of the left / right rows -/
def ssjLToks (j : JoinCfg) (tok : String → List Tok) (ltable : List Row) : List (List Tok) :=
  ltable.map (fun row => tok (row.cell j.lAttr).strVal)

def ssjRToks (j : JoinCfg) (tok : String → List Tok) (rtable : List Row) : List (List Tok) :=
  rtable.map (fun row => tok (row.cell j.rAttr).strVal)

/-- the global token ordering of one chunk -/
def ssjOrd (j : JoinCfg) (tok : String → List Tok) (ltable rtable : List Row) : List (Tok × Nat) :=
  genTokenOrdering (ssjLToks j tok ltable ++ ssjRToks j tok rtable)

/-- ordered token lists of the left rows -/
def ssjOrdToks (j : JoinCfg) (tok : String → List Tok) (ltable rtable : List Row) : List (List Nat) :=
  (ssjLToks j tok ltable).map (fun t => orderUsing t (ssjOrd j tok ltable rtable))

/-- the position index over the left rows -/
def ssjIdx (j : JoinCfg) (tok : String → List Tok) (ltable rtable : List Row) : PosIndex :=
  PosIndex.build j.f.cfg (ssjOrdToks j tok ltable rtable) j.f.allowEmpty true

/-- what one right row (id `d`, tokens `rt`) contributes -/
def ssjBody (j : JoinCfg) (ordering : List (Tok × Nat)) (idx : PosIndex) (rt : List Tok) (d : Nat) :
    List (Nat × Nat × Cell) :=
  if j.f.allowEmpty && (orderUsing rt ordering).length = 0 then
    idx.emptyRecords.map (fun lid => (lid, d, Cell.flt 1))
  else
    (positionFindCandidates j.f (orderUsing rt ordering) idx).filterMap (fun p =>
      if p.2 > 0 then
        if compFn j.compOp (PyV.round (simRaw j.f.cfg.measure (idx.cachedTokens.getD p.1 [])
            (orderUsing rt ordering)) (.int 4)) j.f.cfg.threshold then
          some (p.1, d, scoreCell (PyV.round (simRaw j.f.cfg.measure (idx.cachedTokens.getD p.1 [])
            (orderUsing rt ordering)) (.int 4)))
        else none
      else none)

/-- (left row id, right row id, score cell) triples in output order -/
def setSimJoinPairs (j : JoinCfg) (tok : String → List Tok) (ltable rtable : List Row) :
    List (Nat × Nat × Cell) :=
  rtable.zipIdx.flatMap (fun p =>
    ssjBody j (ssjOrd j tok ltable rtable) (ssjIdx j tok ltable rtable)
      (tok (p.1.cell j.rAttr).strVal) p.2)

/-! ### 1. `setSimJoin` is the image of the pairs -/

theorem jss_zip_map_self {α β : Type} (l : List α) (g : α → β) :
    l.zip (l.map g) = l.map (fun r => (r, g r)) := by
  induction l with
  | nil => rfl
  | cons a l ih => simp [ih]

theorem jss_flatMap_eq_zipIdx_flatMap {α β : Type} (l : List α) (G : α → List β) :
    l.flatMap G = l.zipIdx.flatMap (fun p => G p.1) := by
  conv_lhs => rw [← List.zipIdx_map_fst 0 l]
  rw [List.flatMap_map]

theorem jss_getD_of_mem_zipIdx {α : Type} (l : List α) (p : α × Nat) (dflt : α) (h : p ∈ l.zipIdx) :
    l.getD p.2 dflt = p.1 := by
  rw [List.mem_zipIdx_iff_getElem?] at h
  rw [List.getD_eq_getElem?_getD, h]
  rfl

/-- the rows one right row contributes in `setSimJoin` -/
def ssjRowBody (j : JoinCfg) (ordering : List (Tok × Nat)) (idx : PosIndex) (ltable : List Row)
    (rRow : Row) (rt : List Tok) : List Row :=
  if j.f.allowEmpty && (orderUsing rt ordering).length = 0 then
    idx.emptyRecords.map (fun lid => withScore j.outSimScore (outputRow j.out (ltable.getD lid []) rRow) (.flt 1))
  else
    (positionFindCandidates j.f (orderUsing rt ordering) idx).filterMap (fun p =>
      if p.2 > 0 then
        if compFn j.compOp (PyV.round (simRaw j.f.cfg.measure (idx.cachedTokens.getD p.1 [])
            (orderUsing rt ordering)) (.int 4)) j.f.cfg.threshold then
          some (withScore j.outSimScore (outputRow j.out (ltable.getD p.1 []) rRow)
            (scoreCell (PyV.round (simRaw j.f.cfg.measure (idx.cachedTokens.getD p.1 [])
              (orderUsing rt ordering)) (.int 4))))
        else none
      else none)

theorem setSimJoin_unfold (j : JoinCfg) (tok : String → List Tok) (ltable rtable : List Row) :
    setSimJoin j tok ltable rtable =
      (rtable.zip (rtable.map (fun row => tok (row.cell j.rAttr).strVal))).flatMap (fun x =>
        ssjRowBody j (ssjOrd j tok ltable rtable) (ssjIdx j tok ltable rtable) ltable x.1 x.2) := rfl

theorem ssjRowBody_eq (j : JoinCfg) (ordering : List (Tok × Nat)) (idx : PosIndex) (ltable rtable : List Row)
    (rRow : Row) (rt : List Tok) (d : Nat) (hg : rtable.getD d [] = rRow) :
    ssjRowBody j ordering idx ltable rRow rt =
      (ssjBody j ordering idx rt d).map (fun p =>
        withScore j.outSimScore (outputRow j.out (ltable.getD p.1 []) (rtable.getD p.2.1 [])) p.2.2) := by
  unfold ssjRowBody ssjBody
  split
  · rw [List.map_map]
    apply List.map_congr_left
    intro lid _
    simp only [Function.comp, hg]
  · rw [List.map_filterMap]
    apply List.filterMap_congr
    rintro ⟨cand, ov⟩ _
    simp only
    split
    · split
      · simp only [Option.map_some, hg]
      · rfl
    · rfl

theorem setSimJoin_eq_pairs (j : JoinCfg) (tok : String → List Tok) (ltable rtable : List Row) :
    setSimJoin j tok ltable rtable =
      (setSimJoinPairs j tok ltable rtable).map (fun p =>
        withScore j.outSimScore (outputRow j.out (ltable.getD p.1 []) (rtable.getD p.2.1 [])) p.2.2) := by
  rw [setSimJoin_unfold]
  unfold setSimJoinPairs
  rw [jss_zip_map_self, List.flatMap_map, jss_flatMap_eq_zipIdx_flatMap, List.map_flatMap]
  apply List.flatMap_congr
  intro p hp
  exact ssjRowBody_eq j _ _ ltable rtable _ _ p.2 (jss_getD_of_mem_zipIdx rtable p [] hp)

/-! ### 2. The global ordering on the tokens of the rows involved -/

section Facts
variable (j : JoinCfg) (tok : String → List Tok) (ltable rtable : List Row)

theorem ssjLToks_getElem? (c : Nat) (hc : c < ltable.length) :
    (ssjLToks j tok ltable)[c]? = some (tok ((ltable.getD c []).cell j.lAttr).strVal) := by
  unfold ssjLToks
  rw [List.getElem?_map, List.getD_eq_getElem?_getD, List.getElem?_eq_getElem hc]
  rfl

theorem ssjRToks_getElem? (d : Nat) (hd : d < rtable.length) :
    (ssjRToks j tok rtable)[d]? = some (tok ((rtable.getD d []).cell j.rAttr).strVal) := by
  unfold ssjRToks
  rw [List.getElem?_map, List.getD_eq_getElem?_getD, List.getElem?_eq_getElem hd]
  rfl

theorem ssjOrd_isSome_left (c : Nat) (hc : c < ltable.length) :
    ∀ t ∈ tok ((ltable.getD c []).cell j.lAttr).strVal,
      (Dict.get? (ssjOrd j tok ltable rtable) t).isSome := by
  intro t ht
  exact genTokenOrdering_isSome _ _
    (List.mem_append_left _ (List.mem_of_getElem? (ssjLToks_getElem? j tok ltable c hc))) t ht

theorem ssjOrd_isSome_right (d : Nat) (hd : d < rtable.length) :
    ∀ t ∈ tok ((rtable.getD d []).cell j.rAttr).strVal,
      (Dict.get? (ssjOrd j tok ltable rtable) t).isSome := by
  intro t ht
  exact genTokenOrdering_isSome _ _
    (List.mem_append_right _ (List.mem_of_getElem? (ssjRToks_getElem? j tok rtable d hd))) t ht

theorem ssjOrd_inj (t1 t2 : Tok) (r : Nat)
    (h1 : Dict.get? (ssjOrd j tok ltable rtable) t1 = some r)
    (h2 : Dict.get? (ssjOrd j tok ltable rtable) t2 = some r) : t1 = t2 :=
  genTokenOrdering_inj _ t1 t2 r h1 h2

theorem ssjOrdToks_length : (ssjOrdToks j tok ltable rtable).length = ltable.length := by
  simp [ssjOrdToks, ssjLToks]

theorem ssjOrdToks_getElem? (c : Nat) (hc : c < ltable.length) :
    (ssjOrdToks j tok ltable rtable)[c]? =
      some (orderUsing (tok ((ltable.getD c []).cell j.lAttr).strVal) (ssjOrd j tok ltable rtable)) := by
  unfold ssjOrdToks
  rw [List.getElem?_map, ssjLToks_getElem? j tok ltable c hc]
  rfl

theorem ssjIdx_cached (c : Nat) (hc : c < ltable.length) :
    (ssjIdx j tok ltable rtable).cachedTokens.getD c [] =
      orderUsing (tok ((ltable.getD c []).cell j.lAttr).strVal) (ssjOrd j tok ltable rtable) := by
  show (ssjOrdToks j tok ltable rtable).getD c [] = _
  rw [List.getD_eq_getElem?_getD, ssjOrdToks_getElem? j tok ltable rtable c hc]
  rfl

theorem ssj_length_left (c : Nat) (hc : c < ltable.length) :
    (orderUsing (tok ((ltable.getD c []).cell j.lAttr).strVal) (ssjOrd j tok ltable rtable)).length =
      (tok ((ltable.getD c []).cell j.lAttr).strVal).length :=
  orderUsing_length _ _ (ssjOrd_isSome_left j tok ltable rtable c hc)

theorem ssj_length_right (d : Nat) (hd : d < rtable.length) :
    (orderUsing (tok ((rtable.getD d []).cell j.rAttr).strVal) (ssjOrd j tok ltable rtable)).length =
      (tok ((rtable.getD d []).cell j.rAttr).strVal).length :=
  orderUsing_length _ _ (ssjOrd_isSome_right j tok ltable rtable d hd)

end Facts

/-! ### 3. The similarity of ordered token lists is the similarity of the token sets -/

theorem jss_sameSet_iff (a b : List Tok) : Spec.sameSet a b = true ↔ ∀ t, t ∈ a ↔ t ∈ b := by
  unfold Spec.sameSet
  simp only [Bool.and_eq_true, List.all_eq_true, decide_eq_true_eq]
  constructor
  · rintro ⟨h1, h2⟩ t
    exact ⟨h1 t, h2 t⟩
  · intro h
    exact ⟨fun t ht => (h t).1 ht, fun t ht => (h t).2 ht⟩

theorem jss_bothEmpty_eq_true_iff (a b : List Tok) :
    Spec.bothEmpty a b = true ↔ a.length = 0 ∧ b.length = 0 := by
  unfold Spec.bothEmpty
  simp only [Bool.and_eq_true, decide_eq_true_eq]

theorem jss_bothEmpty_eq_false_of_left (a b : List Tok) (h : a.length ≠ 0) : Spec.bothEmpty a b = false := by
  rw [Bool.eq_false_iff, Ne, jss_bothEmpty_eq_true_iff]
  exact fun h' => h h'.1

/-- BRIDGE: under an ordering which knows all tokens and is injective, the py_stringmatching measure on
    the two rank lists is the measure on the two token sets -/
theorem simRaw_orderUsing (m : Measure) (a b : List Tok) (o : List (Tok × Nat))
    (ha : a.Nodup) (hb : b.Nodup)
    (hka : ∀ t ∈ a, (Dict.get? o t).isSome) (hkb : ∀ t ∈ b, (Dict.get? o t).isSome)
    (hinj : ∀ t1 t2 r, Dict.get? o t1 = some r → Dict.get? o t2 = some r → t1 = t2) :
    simRaw m (orderUsing a o) (orderUsing b o) = Spec.simSet m a b := by
  have hinj' : ∀ t1 ∈ a ++ b, ∀ t2 ∈ a ++ b, ∀ r,
      Dict.get? o t1 = some r → Dict.get? o t2 = some r → t1 = t2 := fun t1 _ t2 _ r => hinj t1 t2 r
  have hiff := orderUsing_eq_iff a b o ha hb hka hkb hinj'
  unfold simRaw Spec.simSet
  rw [orderUsing_length a o hka, orderUsing_length b o hkb,
    interCount_orderUsing a b o ha hb hka hkb hinj',
    setLen_orderUsing a o ha hka (fun t1 _ t2 _ r => hinj t1 t2 r),
    setLen_orderUsing b o hb hkb (fun t1 _ t2 _ r => hinj t1 t2 r)]
  by_cases h : orderUsing a o = orderUsing b o
  · rw [if_pos h, if_pos ((jss_sameSet_iff a b).2 (hiff.1 h))]
  · rw [if_neg h, if_neg (fun hs => h (hiff.2 ((jss_sameSet_iff a b).1 hs)))]

theorem jss_commonCount_eq_interCount (x y : List Nat) (hx : x.Nodup) : commonCount x y = interCount x y := by
  unfold commonCount interCount
  rw [dedup_eq_self_of_nodup x hx]

theorem jss_mem_of_mem_pyTake {α : Type} (l : List α) (k : Int) (t : α) (h : t ∈ pyTake l k) : t ∈ l := by
  unfold pyTake at h
  split at h <;> exact List.mem_of_mem_take h

/-! ### 4. The empty records -/

theorem jss_mem_emptyRecords (ce : Bool) (sizes : List Nat) (c : Nat) :
    c ∈ emptyRecords ce sizes ↔ ce = true ∧ sizes[c]? = some 0 := by
  unfold emptyRecords
  cases ce with
  | false => simp
  | true =>
    simp only [if_true, true_and, List.mem_filterMap]
    constructor
    · rintro ⟨⟨n, rid⟩, hp, hn⟩
      rw [List.mem_zipIdx_iff_getElem?] at hp
      simp only at hn hp
      split at hn
      · rename_i h0
        cases hn
        rw [hp, h0]
      · cases hn
    · intro h
      exact ⟨(0, c), List.mem_zipIdx_iff_getElem?.2 h, by simp⟩

theorem jss_pairwise_zipIdx_snd {α : Type} (l : List α) : l.zipIdx.Pairwise (fun a b => a.2 < b.2) := by
  have h : (l.zipIdx.map Prod.snd).Pairwise (· < ·) := by
    rw [List.zipIdx_map_snd]
    exact List.pairwise_lt_range'
  exact List.pairwise_map.1 h

theorem jss_emptyRecords_nodup (ce : Bool) (sizes : List Nat) : (emptyRecords ce sizes).Nodup := by
  unfold emptyRecords
  cases ce with
  | false => simp
  | true =>
    simp only [if_true]
    have : (sizes.zipIdx.filterMap (fun x : Nat × Nat => if x.1 = 0 then some x.2 else none)).Pairwise (· < ·) := by
      apply List.Pairwise.filterMap _ _ (jss_pairwise_zipIdx_snd sizes)
      intro a a' haa b hb b' hb'
      split at hb <;> split at hb' <;> simp_all
    exact this.nodup

/-! ### 5. Membership in the pairs -/

section Mem
variable (j : JoinCfg) (ordering : List (Tok × Nat)) (idx : PosIndex) (rt : List Tok)

theorem ssjBody_snd (d : Nat) (x : Nat × Nat × Cell) (h : x ∈ ssjBody j ordering idx rt d) : x.2.1 = d := by
  unfold ssjBody at h
  split at h
  · simp only [List.mem_map] at h
    obtain ⟨_, _, rfl⟩ := h
    rfl
  · simp only [List.mem_filterMap] at h
    obtain ⟨p, _, hp⟩ := h
    split at hp
    · split at hp
      · cases hp; rfl
      · cases hp
    · cases hp

theorem mem_ssjBody_empty (d : Nat) (h : (j.f.allowEmpty && decide ((orderUsing rt ordering).length = 0)) = true)
    (c d' : Nat) (s : Cell) :
    (c, d', s) ∈ ssjBody j ordering idx rt d ↔ c ∈ idx.emptyRecords ∧ d' = d ∧ s = Cell.flt 1 := by
  unfold ssjBody
  rw [if_pos h]
  simp only [List.mem_map, Prod.mk.injEq]
  constructor
  · rintro ⟨lid, hl, rfl, rfl, rfl⟩
    exact ⟨hl, rfl, rfl⟩
  · rintro ⟨hl, rfl, rfl⟩
    exact ⟨c, hl, rfl, rfl, rfl⟩

theorem mem_ssjBody_cand (d : Nat) (h : ¬ (j.f.allowEmpty && decide ((orderUsing rt ordering).length = 0)) = true)
    (c d' : Nat) (s : Cell) :
    (c, d', s) ∈ ssjBody j ordering idx rt d ↔
      ∃ ov : Int, (c, ov) ∈ positionFindCandidates j.f (orderUsing rt ordering) idx ∧ 0 < ov ∧
        compFn j.compOp (PyV.round (simRaw j.f.cfg.measure (idx.cachedTokens.getD c [])
          (orderUsing rt ordering)) (.int 4)) j.f.cfg.threshold = true ∧
        d' = d ∧
        s = scoreCell (PyV.round (simRaw j.f.cfg.measure (idx.cachedTokens.getD c [])
          (orderUsing rt ordering)) (.int 4)) := by
  unfold ssjBody
  rw [if_neg h]
  simp only [List.mem_filterMap]
  constructor
  · rintro ⟨⟨cand, ov⟩, hp, hs⟩
    simp only at hs
    split at hs
    · rename_i hov
      split at hs
      · rename_i hcmp
        simp only [Option.some.injEq, Prod.mk.injEq] at hs
        obtain ⟨rfl, rfl, rfl⟩ := hs
        exact ⟨ov, hp, hov, hcmp, rfl, rfl⟩
      · cases hs
    · cases hs
  · rintro ⟨ov, hp, hov, hcmp, rfl, rfl⟩
    refine ⟨(c, ov), hp, ?_⟩
    simp only
    rw [if_pos hov, if_pos hcmp]

end Mem

theorem mem_setSimJoinPairs (j : JoinCfg) (tok : String → List Tok) (ltable rtable : List Row)
    (c d : Nat) (s : Cell) :
    (c, d, s) ∈ setSimJoinPairs j tok ltable rtable ↔
      d < rtable.length ∧
      (c, d, s) ∈ ssjBody j (ssjOrd j tok ltable rtable) (ssjIdx j tok ltable rtable)
        (tok ((rtable.getD d []).cell j.rAttr).strVal) d := by
  unfold setSimJoinPairs
  rw [List.mem_flatMap]
  constructor
  · rintro ⟨p, hp, hm⟩
    have hd : p.2 = d := (ssjBody_snd j _ _ _ p.2 _ hm).symm
    have hg := jss_getD_of_mem_zipIdx rtable p [] hp
    rw [List.mem_zipIdx_iff_getElem?] at hp
    rw [hd] at hg hp
    rw [hg]
    rw [hd] at hm
    exact ⟨(List.getElem?_eq_some_iff.1 hp).1, hm⟩
  · rintro ⟨hd, hm⟩
    refine ⟨(rtable.getD d [], d), ?_, hm⟩
    rw [List.mem_zipIdx_iff_getElem?, List.getD_eq_getElem?_getD, List.getElem?_eq_getElem hd]
    rfl

/-! ### 6. The two branches, in terms of the token sets -/

section Main
variable (j : JoinCfg) (tok : String → List Tok) (ltable rtable : List Row)

/-- every emitted triple comes from valid row ids and is either an empty/empty pair emitted from the
    cached empty records or a pair of non-empty rows verified with the real measure -/
theorem setSimJoinPairs_cases (c d : Nat) (s : Cell)
    (h : (c, d, s) ∈ setSimJoinPairs j tok ltable rtable) :
    c < ltable.length ∧ d < rtable.length ∧
    (((tok ((ltable.getD c []).cell j.lAttr).strVal).length = 0 ∧
        (tok ((rtable.getD d []).cell j.rAttr).strVal).length = 0 ∧
        j.f.allowEmpty = true ∧ s = Cell.flt 1) ∨
     ((tok ((ltable.getD c []).cell j.lAttr).strVal).length ≠ 0 ∧
        (tok ((rtable.getD d []).cell j.rAttr).strVal).length ≠ 0 ∧
        compFn j.compOp (PyV.round (simRaw j.f.cfg.measure
          (orderUsing (tok ((ltable.getD c []).cell j.lAttr).strVal) (ssjOrd j tok ltable rtable))
          (orderUsing (tok ((rtable.getD d []).cell j.rAttr).strVal) (ssjOrd j tok ltable rtable)))
          (.int 4)) j.f.cfg.threshold = true ∧
        s = scoreCell (PyV.round (simRaw j.f.cfg.measure
          (orderUsing (tok ((ltable.getD c []).cell j.lAttr).strVal) (ssjOrd j tok ltable rtable))
          (orderUsing (tok ((rtable.getD d []).cell j.rAttr).strVal) (ssjOrd j tok ltable rtable)))
          (.int 4)))) := by
  obtain ⟨hd, hm⟩ := (mem_setSimJoinPairs j tok ltable rtable c d s).1 h
  by_cases hcond : (j.f.allowEmpty && decide ((orderUsing (tok ((rtable.getD d []).cell j.rAttr).strVal)
      (ssjOrd j tok ltable rtable)).length = 0)) = true
  · rw [mem_ssjBody_empty _ _ _ _ _ hcond] at hm
    obtain ⟨hc, -, rfl⟩ := hm
    have hc' : c ∈ emptyRecords j.f.allowEmpty ((ssjOrdToks j tok ltable rtable).map List.length) := hc
    rw [jss_mem_emptyRecords, List.getElem?_map] at hc'
    obtain ⟨hae, hsz⟩ := hc'
    have hcl : c < ltable.length := by
      rw [← ssjOrdToks_length j tok ltable rtable]
      by_contra hge
      rw [List.getElem?_eq_none (by omega)] at hsz
      cases hsz
    rw [ssjOrdToks_getElem? j tok ltable rtable c hcl] at hsz
    simp only [Option.map_some, Option.some.injEq] at hsz
    rw [ssj_length_left j tok ltable rtable c hcl] at hsz
    simp only [Bool.and_eq_true, decide_eq_true_eq] at hcond
    have hr := hcond.2
    rw [ssj_length_right j tok ltable rtable d hd] at hr
    exact ⟨hcl, hd, Or.inl ⟨hsz, hr, hae, rfl⟩⟩
  · rw [mem_ssjBody_cand _ _ _ _ _ hcond] at hm
    obtain ⟨ov, hp, -, hcmp, -, hs⟩ := hm
    have hp' : (c, ov) ∈ positionFindCandidates j.f
        (orderUsing (tok ((rtable.getD d []).cell j.rAttr).strVal) (ssjOrd j tok ltable rtable))
        (PosIndex.build j.f.cfg (ssjOrdToks j tok ltable rtable) j.f.allowEmpty true) := hp
    obtain ⟨y, hy, -, -, t, htx, hty⟩ := positionFindCandidates_mem j.f _ _ _ _ (c, ov) hp'
    simp only at hy
    have hcl : c < ltable.length := by
      rw [← ssjOrdToks_length j tok ltable rtable]
      exact (List.getElem?_eq_some_iff.1 hy).1
    rw [ssjOrdToks_getElem? j tok ltable rtable c hcl] at hy
    have hy' := Option.some.inj hy
    subst hy'
    rw [ssjIdx_cached j tok ltable rtable c hcl] at hcmp hs
    have hx0 := List.length_pos_of_mem (jss_mem_of_mem_pyTake _ _ _ htx)
    have hy0 := List.length_pos_of_mem (jss_mem_of_mem_pyTake _ _ _ hty)
    rw [ssj_length_right j tok ltable rtable d hd] at hx0
    rw [ssj_length_left j tok ltable rtable c hcl] at hy0
    exact ⟨hcl, hd, Or.inr ⟨by omega, by omega, hcmp, hs⟩⟩

/-- the measure on the ordered token lists of a left and a right row is the measure on their token sets -/
theorem ssj_simRaw (hnd : ∀ s, (tok s).Nodup) (m : Measure) (c d : Nat)
    (hc : c < ltable.length) (hd : d < rtable.length) :
    simRaw m
      (orderUsing (tok ((ltable.getD c []).cell j.lAttr).strVal) (ssjOrd j tok ltable rtable))
      (orderUsing (tok ((rtable.getD d []).cell j.rAttr).strVal) (ssjOrd j tok ltable rtable)) =
    Spec.simSet m (tok ((ltable.getD c []).cell j.lAttr).strVal) (tok ((rtable.getD d []).cell j.rAttr).strVal) :=
  simRaw_orderUsing m _ _ _ (hnd _) (hnd _) (ssjOrd_isSome_left j tok ltable rtable c hc)
    (ssjOrd_isSome_right j tok ltable rtable d hd) (ssjOrd_inj j tok ltable rtable)

/-! ### 7. ONCE (C02) -/

theorem jss_nodup_map_filterMap_key {α β γ : Type} (l : List α) (g : α → Option β) (k1 : α → γ) (k2 : β → γ)
    (h : ∀ a b, g a = some b → k2 b = k1 a) (hn : (l.map k1).Nodup) :
    ((l.filterMap g).map k2).Nodup := by
  induction l with
  | nil => simp
  | cons a l ih =>
    rw [List.map_cons, List.nodup_cons] at hn
    cases hg : g a with
    | none => rw [List.filterMap_cons_none hg]; exact ih hn.2
    | some b =>
      rw [List.filterMap_cons_some hg, List.map_cons, List.nodup_cons]
      refine ⟨?_, ih hn.2⟩
      intro hmem
      obtain ⟨b', hb', hk⟩ := List.mem_map.1 hmem
      obtain ⟨a', ha', hg'⟩ := List.mem_filterMap.1 hb'
      apply hn.1
      rw [← h a b hg, ← hk, h a' b' hg']
      exact List.mem_map.2 ⟨a', ha', rfl⟩

theorem ssjBody_nodup (ordering : List (Tok × Nat)) (rt : List Tok) (d : Nat) :
    ((ssjBody j ordering (ssjIdx j tok ltable rtable) rt d).map (fun p => (p.1, p.2.1))).Nodup := by
  unfold ssjBody
  split
  · rw [List.map_map]
    have : (ssjIdx j tok ltable rtable).emptyRecords.Nodup :=
      jss_emptyRecords_nodup j.f.allowEmpty ((ssjOrdToks j tok ltable rtable).map List.length)
    apply this.map
    intro a b hab
    simp only [Function.comp, Prod.mk.injEq] at hab
    exact hab.1
  · apply jss_nodup_map_filterMap_key _ _ (fun p : Nat × Int => (p.1, d))
    · intro a b hg
      split at hg
      · split at hg
        · cases hg; rfl
        · cases hg
      · cases hg
    · have hk := (positionFindCandidates_keys j.f (ssjOrdToks j tok ltable rtable) (orderUsing rt ordering)
        j.f.allowEmpty true).1
      have : (List.map (fun p : Nat × Int => (p.1, d))
          (positionFindCandidates j.f (orderUsing rt ordering) (ssjIdx j tok ltable rtable))) =
          ((positionFindCandidates j.f (orderUsing rt ordering)
            (PosIndex.build j.f.cfg (ssjOrdToks j tok ltable rtable) j.f.allowEmpty true)).map (·.1)).map
            (fun c => (c, d)) := by
        rw [List.map_map]; rfl
      rw [this]
      apply hk.map
      intro a b hab
      exact (Prod.mk.inj hab).1

/-- ONCE (C02): no (left id, right id) pair is emitted twice -/
theorem setSimJoinPairs_nodup :
    ((setSimJoinPairs j tok ltable rtable).map (fun p => (p.1, p.2.1))).Nodup := by
  unfold setSimJoinPairs
  rw [List.map_flatMap, List.nodup_flatMap]
  constructor
  · intro p _
    exact ssjBody_nodup j tok ltable rtable _ _ _
  · apply (jss_pairwise_zipIdx_snd rtable).imp
    intro a b hab
    show List.Disjoint _ _
    intro x hxa hxb
    obtain ⟨u, hu, rfl⟩ := List.mem_map.1 hxa
    obtain ⟨v, hv, huv⟩ := List.mem_map.1 hxb
    have h1 := ssjBody_snd j _ _ _ _ u hu
    have h2 := ssjBody_snd j _ _ _ _ v hv
    have := (Prod.mk.inj huv).2
    omega

/-- ids are valid -/
theorem setSimJoinPairs_valid :
    ∀ p ∈ setSimJoinPairs j tok ltable rtable, p.1 < ltable.length ∧ p.2.1 < rtable.length := by
  rintro ⟨c, d, s⟩ hp
  obtain ⟨hc, hd, -⟩ := setSimJoinPairs_cases j tok ltable rtable c d s hp
  exact ⟨hc, hd⟩

/-! ### 8. SOUND (C02) -/

/-- SOUND (C02): every emitted triple is either an admitted empty-empty pair with score 1.0, or a pair
    whose reported score is the rounded similarity of the two token sets and satisfies the comparison -/
theorem setSimJoinPairs_sound (hnd : ∀ s, (tok s).Nodup) :
    ∀ (c d : Nat) (s : Cell), (c, d, s) ∈ setSimJoinPairs j tok ltable rtable →
    (Spec.bothEmpty (tok ((ltable.getD c []).cell j.lAttr).strVal)
        (tok ((rtable.getD d []).cell j.rAttr).strVal) = true ∧
      j.f.allowEmpty = true ∧ s = .flt 1) ∨
    (Spec.bothEmpty (tok ((ltable.getD c []).cell j.lAttr).strVal)
        (tok ((rtable.getD d []).cell j.rAttr).strVal) = false ∧
      s = scoreCell (Spec.score4 j.f.cfg.measure (tok ((ltable.getD c []).cell j.lAttr).strVal)
        (tok ((rtable.getD d []).cell j.rAttr).strVal)) ∧
      Spec.qualRounded j.f.cfg.measure j.compOp j.f.cfg.threshold
        (tok ((ltable.getD c []).cell j.lAttr).strVal)
        (tok ((rtable.getD d []).cell j.rAttr).strVal) = true) := by
  intro c d s h
  obtain ⟨hc, hd, hcase⟩ := setSimJoinPairs_cases j tok ltable rtable c d s h
  rcases hcase with ⟨hl, hr, hae, hs⟩ | ⟨hl, hr, hcmp, hs⟩
  · left
    exact ⟨(jss_bothEmpty_eq_true_iff _ _).2 ⟨hl, hr⟩, hae, hs⟩
  · right
    rw [ssj_simRaw j tok ltable rtable hnd _ c d hc hd] at hcmp hs
    exact ⟨jss_bothEmpty_eq_false_of_left _ _ hl, hs, hcmp⟩

/-! ### 9. COMPLETE (C01) -/

/-- COMPLETE (C01): a pair of present rows with at least one common token (so neither side is empty), whose
    rounded similarity satisfies the comparison and for which the pruning bounds admit it, is emitted -/
theorem setSimJoinPairs_complete (hnd : ∀ s, (tok s).Nodup) (c d : Nat)
    (hc : c < ltable.length) (hd : d < rtable.length)
    (ho1 : 1 ≤ interCount (tok ((rtable.getD d []).cell j.rAttr).strVal)
      (tok ((ltable.getD c []).cell j.lAttr).strVal))
    (hb : BoundsFacts j.f.cfg (tok ((rtable.getD d []).cell j.rAttr).strVal).length
      (tok ((ltable.getD c []).cell j.lAttr).strVal).length
      (interCount (tok ((rtable.getD d []).cell j.rAttr).strVal)
        (tok ((ltable.getD c []).cell j.lAttr).strVal)))
    (hq : Spec.qualRounded j.f.cfg.measure j.compOp j.f.cfg.threshold
      (tok ((ltable.getD c []).cell j.lAttr).strVal)
      (tok ((rtable.getD d []).cell j.rAttr).strVal) = true) :
    (c, d, scoreCell (Spec.score4 j.f.cfg.measure (tok ((ltable.getD c []).cell j.lAttr).strVal)
      (tok ((rtable.getD d []).cell j.rAttr).strVal))) ∈ setSimJoinPairs j tok ltable rtable := by
  have hka := ssjOrd_isSome_left j tok ltable rtable c hc
  have hkb := ssjOrd_isSome_right j tok ltable rtable d hd
  have hinj := ssjOrd_inj j tok ltable rtable
  have hxl := ssj_length_right j tok ltable rtable d hd
  have hyl := ssj_length_left j tok ltable rtable c hc
  have hbridge := ssj_simRaw j tok ltable rtable hnd j.f.cfg.measure c d hc hd
  have hcached := ssjIdx_cached j tok ltable rtable c hc
  have hyget := ssjOrdToks_getElem? j tok ltable rtable c hc
  have ha := hnd ((ltable.getD c []).cell j.lAttr).strVal
  have hb' := hnd ((rtable.getD d []).cell j.rAttr).strVal
  rw [mem_setSimJoinPairs]
  refine ⟨hd, ?_⟩
  generalize tok ((ltable.getD c []).cell j.lAttr).strVal = a at *
  generalize tok ((rtable.getD d []).cell j.rAttr).strVal = b at *
  have hinj' : ∀ (l : List Tok), ∀ t1 ∈ l, ∀ t2 ∈ l, ∀ r,
      Dict.get? (ssjOrd j tok ltable rtable) t1 = some r →
      Dict.get? (ssjOrd j tok ltable rtable) t2 = some r → t1 = t2 :=
    fun _ t1 _ t2 _ r => hinj t1 t2 r
  have hx : (orderUsing b (ssjOrd j tok ltable rtable)).Pairwise (· < ·) :=
    orderUsing_strict b _ hb' (hinj' b)
  have hy : (orderUsing a (ssjOrd j tok ltable rtable)).Pairwise (· < ·) :=
    orderUsing_strict a _ ha (hinj' a)
  have hcc : commonCount (orderUsing b (ssjOrd j tok ltable rtable))
      (orderUsing a (ssjOrd j tok ltable rtable)) = interCount b a := by
    rw [jss_commonCount_eq_interCount _ _ hx.nodup,
      interCount_orderUsing b a _ hb' ha hkb hka (hinj' (b ++ a))]
  have hbpos : b.length ≠ 0 := by
    have := interCount_le_left b a
    unfold setLen at this
    rw [dedup_eq_self_of_nodup b hb'] at this
    omega
  obtain ⟨v, hv, hvpos⟩ := positionFindCandidates_complete j.f (ssjOrdToks j tok ltable rtable)
    (orderUsing b (ssjOrd j tok ltable rtable)) c (orderUsing a (ssjOrd j tok ltable rtable))
    hyget hx hy (interCount b a) hcc.symm ho1
    (by rw [hxl, hyl]; exact hb.lower) (by rw [hxl, hyl]; exact hb.upper)
    (by rw [hxl, hyl]; exact hb.ovThr) (by rw [hxl]; exact hb.prefN) (by rw [hyl]; exact hb.prefK)
    j.f.allowEmpty true
  have hmem : (c, v) ∈ positionFindCandidates j.f (orderUsing b (ssjOrd j tok ltable rtable))
      (ssjIdx j tok ltable rtable) := Dict.mem_of_get? _ _ _ hv
  have hcond : ¬ (j.f.allowEmpty && decide ((orderUsing b (ssjOrd j tok ltable rtable)).length = 0)) = true := by
    rw [hxl]
    simp only [Bool.and_eq_true, decide_eq_true_eq]
    exact fun h => hbpos h.2
  rw [mem_ssjBody_cand _ _ _ _ _ hcond]
  refine ⟨v, hmem, hvpos, ?_, rfl, ?_⟩
  · rw [hcached, hbridge]
    exact hq
  · rw [hcached, hbridge]
    rfl

/-! ### 10. EMPTY SETS (C09) -/

/-- EMPTY SETS (C09): a both-empty pair of present rows is emitted iff `allow_empty` -/
theorem setSimJoinPairs_bothEmpty (c d : Nat) (hc : c < ltable.length) (hd : d < rtable.length)
    (he : Spec.bothEmpty (tok ((ltable.getD c []).cell j.lAttr).strVal)
      (tok ((rtable.getD d []).cell j.rAttr).strVal) = true) :
    (∃ s, (c, d, s) ∈ setSimJoinPairs j tok ltable rtable) ↔ j.f.allowEmpty = true := by
  obtain ⟨hl, hr⟩ := (jss_bothEmpty_eq_true_iff _ _).1 he
  constructor
  · rintro ⟨s, hs⟩
    obtain ⟨-, -, hcase⟩ := setSimJoinPairs_cases j tok ltable rtable c d s hs
    rcases hcase with ⟨-, -, hae, -⟩ | ⟨hl', -⟩
    · exact hae
    · exact absurd hl hl'
  · intro hae
    refine ⟨Cell.flt 1, ?_⟩
    rw [mem_setSimJoinPairs]
    refine ⟨hd, ?_⟩
    have hcond : (j.f.allowEmpty && decide ((orderUsing (tok ((rtable.getD d []).cell j.rAttr).strVal)
        (ssjOrd j tok ltable rtable)).length = 0)) = true := by
      rw [ssj_length_right j tok ltable rtable d hd, hae, hr]
      rfl
    rw [mem_ssjBody_empty _ _ _ _ _ hcond]
    refine ⟨?_, rfl, rfl⟩
    show c ∈ emptyRecords j.f.allowEmpty ((ssjOrdToks j tok ltable rtable).map List.length)
    rw [jss_mem_emptyRecords, List.getElem?_map, ssjOrdToks_getElem? j tok ltable rtable c hc]
    refine ⟨hae, ?_⟩
    simp only [Option.map_some]
    rw [ssj_length_left j tok ltable rtable c hc, hl]

/-- EMPTY SETS (C09): a pair with exactly one empty side is never emitted -/
theorem setSimJoinPairs_oneEmpty (c d : Nat) (s : Cell)
    (h : (c, d, s) ∈ setSimJoinPairs j tok ltable rtable) :
    ((tok ((ltable.getD c []).cell j.lAttr).strVal).length = 0 ↔
      (tok ((rtable.getD d []).cell j.rAttr).strVal).length = 0) := by
  obtain ⟨-, -, hcase⟩ := setSimJoinPairs_cases j tok ltable rtable c d s h
  rcases hcase with ⟨hl, hr, -, -⟩ | ⟨hl, hr, -, -⟩
  · exact ⟨fun _ => hr, fun _ => hl⟩
  · exact ⟨fun h => absurd h hl, fun h => absurd h hr⟩

end Main

end SSJ

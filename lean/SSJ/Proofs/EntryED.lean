/-
  SSJ.Proofs.EntryED — lifting the edit-distance join facts (`Proofs/JoinED.lean`, `Proofs/QGram.lean`) to the
  entry point `editDistanceJoinPy` (DataFrame in, DataFrame out): the integral threshold, the three admitted
  operators, the result rows as (`_id` ::) payload, the payloads of the chunk part and of the missing-value part,
  uniqueness of key pairs over the whole result, and the padded q-gram corollary.
-/
import SSJ.Proofs.JoinED
import SSJ.Proofs.QGram
import SSJ.Proofs.Frames
import SSJ.Proofs.Session
import SSJ.Props.Common
import Mathlib.Data.Rat.Floor
import Mathlib.Data.List.Nodup
import Mathlib.Data.List.Pairwise

namespace SSJ
namespace EntryED
open SSJ.Props SSJ.Spec

/-! ## 1. the integral threshold `int(floor(threshold))` -/

theorem tau_of_int (k : Int) : PyV.toInt (PyV.floor (.int k)) = .int k := rfl

theorem tau_of_float (x : Rat) : PyV.toInt (PyV.floor (.float x)) = .int x.floor := rfl

/-- `int(floor(threshold))` is an int only for an int or a (finite) float threshold -/
theorem tau_cases (thr : PyV) (tau : Int) (h : PyV.toInt (PyV.floor thr) = .int tau) :
    thr = .int tau ∨ ∃ x : Rat, thr = .float x ∧ tau = x.floor := by
  cases thr with
  | int i => left; cases h; rfl
  | float q => right; cases h; exact ⟨q, rfl, rfl⟩
  | inf => cases h
  | str s => cases h
  | bool b => cases h
  | none => cases h
  | err e => cases h

/-- a threshold accepted by `validate_threshold(·, 'EDIT_DISTANCE')` has a nonnegative integral part -/
theorem tau_nonneg (thr : PyV) (tau : Int) (h : PyV.toInt (PyV.floor thr) = .int tau)
    (hval : Gen.validate_threshold thr (.str "EDIT_DISTANCE") ≠ .err .assertion) : 0 ≤ tau := by
  rcases tau_cases thr tau h with rfl | ⟨x, rfl, rfl⟩
  · by_contra hneg
    exact hval ((Gen.validate_threshold_ed tau).2 (by omega))
  · by_contra hneg
    apply hval
    rw [Gen.validate_threshold_ed_float]
    by_contra hx
    exact hneg (Rat.le_floor_iff.2 (by simpa using hx))

/-! ## 2. the three admitted operators -/

theorem compFn_le : compFn "<=" = PyV.leb := by
  funext x y; simp [compFn, Gen.comp_op_map]

theorem compFn_lt : compFn "<" = PyV.ltb := by
  funext x y; simp [compFn, Gen.comp_op_map]

theorem compFn_eq : compFn "=" = PyV.eqb := by
  funext x y; simp [compFn, Gen.comp_op_map]

theorem qualED_le_iff (tau : Int) (s t : String) : qualED "<=" tau s t = true ↔ (lev s t : Int) ≤ tau := by
  simp [qualED, compFn_le, PyV.leb, PyV.numVal?]
  norm_cast

theorem qualED_lt_iff (tau : Int) (s t : String) : qualED "<" tau s t = true ↔ (lev s t : Int) < tau := by
  simp [qualED, compFn_lt, PyV.ltb, PyV.numVal?]
  norm_cast

theorem qualED_eq_iff (tau : Int) (s t : String) : qualED "=" tau s t = true ↔ (lev s t : Int) = tau := by
  simp [qualED, compFn_eq, PyV.eqb, PyV.numVal?]
  norm_cast

/-- the operators `validate_comp_op_for_sim_measure(·, 'EDIT_DISTANCE')` admits -/
theorem op_cases (op : String)
    (h : Gen.validate_comp_op_for_sim_measure (.str op) (.str "EDIT_DISTANCE") ≠ .err .assertion) :
    op = "<=" ∨ op = "<" ∨ op = "=" := by
  by_contra hn
  apply h
  rw [Gen.validate_comp_op_for_sim_measure_ed]
  simpa using hn

/-- for `<=`, `<`, `=` the comparison implies `distance ≤ τ` -/
theorem qualED_dist_le (op : String) (hop : op = "<=" ∨ op = "<" ∨ op = "=") (tau : Int) (s t : String)
    (h : qualED op tau s t = true) : (lev s t : Int) ≤ tau := by
  rcases hop with rfl | rfl | rfl
  · exact (qualED_le_iff _ _ _).1 h
  · exact le_of_lt ((qualED_lt_iff _ _ _).1 h)
  · exact le_of_eq ((qualED_eq_iff _ _ _).1 h)

/-! ## 3. the entry point as a `runTables` run -/

/-- the per-chunk work of `edit_distance_join_py` -/
def work (a : JoinArgs) (t : TokObj) (toks : TokFn) (tau : Int) :
    OutCfg → Nat → Nat → List Row → List Row → List Row :=
  fun o lAttr rAttr lArr ch =>
    editDistanceJoinSplit tau t.qval a.compOp lAttr rAttr o a.outSimScore (toks false) lArr ch

/-- the chunk part of the result (without `_id`) -/
def chunkRows (a : JoinArgs) (t : TokObj) (toks : TokFn) (cpu : Int) (l r : Frame) (tau : Int) : List Row :=
  (chunksFor (RT.rArr a.toTableArgs r) a.nJobs cpu).flatMap (fun ch =>
    work a t toks tau (RT.out a.toTableArgs) (RT.lAttrIdx a.toTableArgs) (RT.rAttrIdx a.toTableArgs)
      (RT.lArr a.toTableArgs l) ch)

/-- the missing-value part of the result (without `_id`) -/
def missRows (a : JoinArgs) (l r : Frame) : List Row :=
  if a.allowMissing then RT.missingRows a.toTableArgs l r a.outSimScore else []

/-- all result rows without `_id`, in output order -/
def payloads (a : JoinArgs) (t : TokObj) (toks : TokFn) (cpu : Int) (l r : Frame) (tau : Int) : List Row :=
  chunkRows a t toks cpu l r tau ++ missRows a l r

theorem result_eq (a : JoinArgs) (t : TokObj) (toks : TokFn) (cpu : Int) (l r : Frame) (tau : Int)
    (hv : validateJoin "EDIT_DISTANCE" a t = .ok (l, r))
    (htau : PyV.toInt (PyV.floor a.threshold) = .int tau) :
    (editDistanceJoinPy a t toks cpu).result =
      runTables a.toTableArgs l r a.allowMissing a.outSimScore cpu (work a t toks tau) := by
  unfold editDistanceJoinPy
  rw [hv]
  simp only [htau]
  exact withFlag_result _ _ _

theorem work_width (a : JoinArgs) (t : TokObj) (toks : TokFn) (l : Frame) (tau : Int) :
    ∀ ch, ∀ row ∈ work a t toks tau (RT.out a.toTableArgs) (RT.lAttrIdx a.toTableArgs) (RT.rAttrIdx a.toTableArgs)
        (RT.lArr a.toTableArgs l) ch,
      row.length = (RT.header a.toTableArgs a.outSimScore).length := by
  intro ch row hrow
  unfold work at hrow
  rw [editDistanceJoinSplit_eq_pairs] at hrow
  obtain ⟨p, _, rfl⟩ := List.mem_map.1 hrow
  exact RT.withScore_outputRow_length _ _ _ _ _

/-- TOTAL: after successful validation the call returns a frame -/
theorem total (a : JoinArgs) (t : TokObj) (toks : TokFn) (cpu : Int) (l r : Frame) (tau : Int)
    (hv : validateJoin "EDIT_DISTANCE" a t = .ok (l, r))
    (htau : PyV.toInt (PyV.floor a.threshold) = .int tau)
    (hb : Props.BodyOK a.toTableArgs l r a.outSimScore) :
    ∃ fr, (editDistanceJoinPy a t toks cpu).result = .ok fr := by
  rw [result_eq a t toks cpu l r tau hv htau]
  obtain ⟨fr, h, _⟩ := runTables_ok a.toTableArgs l r a.allowMissing a.outSimScore cpu (work a t toks tau)
    (work_width a t toks l tau) hb.lstr hb.rstr hb.noClash
  exact ⟨fr, h⟩

/-- the rows of the result: every payload preceded by its position as `_id` -/
theorem rows_eq (a : JoinArgs) (t : TokObj) (toks : TokFn) (cpu : Int) (l r : Frame) (tau : Int) (fr : Frame)
    (hv : validateJoin "EDIT_DISTANCE" a t = .ok (l, r))
    (htau : PyV.toInt (PyV.floor a.threshold) = .int tau)
    (hres : (editDistanceJoinPy a t toks cpu).result = .ok fr) :
    fr.rows = (payloads a t toks cpu l r tau).zipIdx.map (fun (x : Row × Nat) => Cell.int x.2 :: x.1) := by
  rw [result_eq a t toks cpu l r tau hv htau] at hres
  exact (runTables_rows a.toTableArgs l r a.allowMissing a.outSimScore cpu (work a t toks tau)
    (work_width a t toks l tau) fr hres).2

theorem mem_rows_iff (a : JoinArgs) (t : TokObj) (toks : TokFn) (cpu : Int) (l r : Frame) (tau : Int) (fr : Frame)
    (hv : validateJoin "EDIT_DISTANCE" a t = .ok (l, r))
    (htau : PyV.toInt (PyV.floor a.threshold) = .int tau)
    (hres : (editDistanceJoinPy a t toks cpu).result = .ok fr) (row : Row) :
    row ∈ fr.rows ↔ ∃ (p : Row) (i : Nat), (payloads a t toks cpu l r tau)[i]? = some p ∧ row = Cell.int i :: p := by
  rw [rows_eq a t toks cpu l r tau fr hv htau hres, List.mem_map]
  constructor
  · rintro ⟨⟨p, i⟩, hpi, rfl⟩
    exact ⟨p, i, List.mem_zipIdx_iff_getElem?.1 hpi, rfl⟩
  · rintro ⟨p, i, hpi, rfl⟩
    exact ⟨(p, i), List.mem_zipIdx_iff_getElem?.2 hpi, rfl⟩

/-- the key cells / the score cell of a result row in terms of its payload -/
theorem rowKeys_cons (c : Cell) (p : Row) : rowKeys (c :: p) = (p.cell 0, p.cell 1) := rfl

theorem rowScore_cons_withScore (c : Cell) (p : Row) (s : Cell) : rowScore (c :: withScore true p s) = s := by
  show List.getLastD ((c :: p) ++ [s]) Cell.missing = s
  rw [List.getLastD_eq_getLast?, List.getLast?_append]
  rfl

theorem rArr_length_le (a : TableArgs) (r : Frame) : (RT.rArr a r).length ≤ r.rows.length := by
  rw [RT.rArr_eq, List.length_map]
  exact List.length_filter_le _ _

/-! ## 4. the chunk part: sound and complete -/

/-- SOUND (payload level): a payload of the chunk part is the output row of two source rows with present join
    values whose distance satisfies the comparison and is the score; their strings share a token -/
theorem chunk_sound (a : JoinArgs) (t : TokObj) (toks : TokFn) (cpu : Int) (l r : Frame) (tau : Int)
    (hrows : r.rows.length < 2 ^ 40) (p : Row) (hp : p ∈ chunkRows a t toks cpu l r tau) :
    ∃ ls ∈ l.rows, ∃ rs ∈ r.rows, Present l a.lAttr ls ∧ Present r a.rAttr rs ∧
      p = withScore a.outSimScore
            (outputRow (RT.out a.toTableArgs) (RT.lRow a.toTableArgs l ls) (RT.rRow a.toTableArgs r rs))
            (.int (lev (strOf l a.lAttr ls) (strOf r a.rAttr rs))) ∧
      qualED a.compOp tau (strOf l a.lAttr ls) (strOf r a.rAttr rs) = true ∧
      shareToken (toks false) (strOf l a.lAttr ls) (strOf r a.rAttr rs) = true := by
  have hlen : (RT.rArr a.toTableArgs r).length < 2 ^ 40 := lt_of_le_of_lt (rArr_length_le _ _) hrows
  obtain ⟨ch, hch, hp⟩ := List.mem_flatMap.1 hp
  unfold work at hp
  rw [editDistanceJoinSplit_eq_pairs] at hp
  obtain ⟨⟨c, d, k⟩, hcdk, rfl⟩ := List.mem_map.1 hp
  obtain ⟨hc, hd, hk, hq, hs⟩ := edPairs_sound _ _ _ _ _ _ _ _ c d k hcdk
  have hlm : (RT.lArr a.toTableArgs l).getD c [] ∈ RT.lArr a.toTableArgs l := jed_getD_mem _ _ _ hc
  have hrm : ch.getD d [] ∈ RT.rArr a.toTableArgs r :=
    RT.mem_rArr_of_mem_chunk a.toTableArgs r cpu hlen ch hch _ (jed_getD_mem _ _ _ hd)
  obtain ⟨ls, hls, hlp, hle⟩ := (RT.mem_lArr_iff a.toTableArgs l _).1 hlm
  obtain ⟨rs, hrs, hrp, hre⟩ := (RT.mem_rArr_iff a.toTableArgs r _).1 hrm
  dsimp only at hk hq hs ⊢
  rw [hle, hre] at hk hq hs ⊢
  rw [RT.lRow_attr, RT.rRow_attr] at hk hq hs
  subst hk
  exact ⟨ls, hls, rs, hrs, hlp, hrp, rfl, hq, hs⟩

/-- COMPLETE (payload level), core form: the two classical facts (length difference ≤ distance, q-gram count) are
    only needed for the pair at hand -/
theorem chunk_complete (a : JoinArgs) (t : TokObj) (toks : TokFn) (cpu : Int) (l r : Frame) (tau : Int)
    (hrows : r.rows.length < 2 ^ 40) (hq0 : 0 ≤ t.qval) (htau0 : 0 ≤ tau)
    (ls rs : Row) (hls : ls ∈ l.rows) (hrs : rs ∈ r.rows)
    (hlp : Present l a.lAttr ls) (hrp : Present r a.rAttr rs)
    (hqg1 : ((toks false (strOf l a.lAttr ls)).diff (toks false (strOf r a.rAttr rs))).length
        ≤ t.qval.toNat * lev (strOf l a.lAttr ls) (strOf r a.rAttr rs))
    (hqg2 : ((toks false (strOf r a.rAttr rs)).diff (toks false (strOf l a.lAttr ls))).length
        ≤ t.qval.toNat * lev (strOf l a.lAttr ls) (strOf r a.rAttr rs))
    (hdist : (lev (strOf l a.lAttr ls) (strOf r a.rAttr rs) : Int) ≤ tau)
    (hcomp : qualED a.compOp tau (strOf l a.lAttr ls) (strOf r a.rAttr rs) = true)
    (hshare : shareToken (toks false) (strOf l a.lAttr ls) (strOf r a.rAttr rs) = true) :
    withScore a.outSimScore
        (outputRow (RT.out a.toTableArgs) (RT.lRow a.toTableArgs l ls) (RT.rRow a.toTableArgs r rs))
        (.int (lev (strOf l a.lAttr ls) (strOf r a.rAttr rs))) ∈ chunkRows a t toks cpu l r tau := by
  have hlen : (RT.rArr a.toTableArgs r).length < 2 ^ 40 := lt_of_le_of_lt (rArr_length_le _ _) hrows
  have hlm : RT.lRow a.toTableArgs l ls ∈ RT.lArr a.toTableArgs l :=
    (RT.mem_lArr_iff a.toTableArgs l _).2 ⟨ls, hls, hlp, rfl⟩
  have hrm : RT.rRow a.toTableArgs r rs ∈ RT.rArr a.toTableArgs r :=
    (RT.mem_rArr_iff a.toTableArgs r _).2 ⟨rs, hrs, hrp, rfl⟩
  obtain ⟨c, hc, hce⟩ := (RT.mem_chunk_index _ _).1 hlm
  obtain ⟨ch, hch, d, hd, hde⟩ := (RT.exists_chunk_index a.toTableArgs r cpu hlen _).1 hrm
  have hL : (((RT.lArr a.toTableArgs l).getD c []).cell (RT.lAttrIdx a.toTableArgs)).strVal = strOf l a.lAttr ls := by
    rw [← hce, RT.lRow_attr]; rfl
  have hR : ((ch.getD d []).cell (RT.rAttrIdx a.toTableArgs)).strVal = strOf r a.rAttr rs := by
    rw [← hde, RT.rRow_attr]; rfl
  have hmem := edPairs_complete_of tau t.qval a.compOp (toks false) (RT.lAttrIdx a.toTableArgs)
    (RT.rAttrIdx a.toTableArgs) (RT.lArr a.toTableArgs l) ch hq0 htau0 c d hc hd
    (by rw [hL, hR]; exact lev_length_diff _ _) (by rw [hL, hR]; exact hqg1) (by rw [hL, hR]; exact hqg2)
    (by rw [hL, hR]; exact hdist) (by rw [hL, hR]; exact hcomp) (by rw [hL, hR]; exact hshare)
  rw [hL, hR] at hmem
  unfold chunkRows
  rw [List.mem_flatMap]
  refine ⟨ch, hch, ?_⟩
  unfold work
  rw [editDistanceJoinSplit_eq_pairs, List.mem_map]
  refine ⟨_, hmem, ?_⟩
  dsimp only
  rw [← hce, ← hde]

/-! ## 5. the missing-value part; key pairs; ONCE -/

/-- the two key cells of a payload (a result row without `_id`) -/
def pk (p : Row) : Cell × Cell := (p.cell 0, p.cell 1)

theorem pk_chunk (a : TableArgs) (l r : Frame) (ls rs : Row) (oss : Bool) (s : Cell) :
    pk (withScore oss (outputRow (RT.out a) (RT.lRow a l ls) (RT.rRow a r rs)) s) =
      (keyOf l a.lKey ls, keyOf r a.rKey rs) := by
  have h := RT.outputRow_keys a l r ls rs oss s
  exact Prod.ext h.1 h.2

theorem pk_miss (a : TableArgs) (l r : Frame) (ls rs : Row) (oss : Bool) :
    pk (missingRow (RT.missOut a l r) oss ls rs) = (keyOf l a.lKey ls, keyOf r a.rKey rs) := by
  have h := RT.missingRow_keys a l r oss ls rs
  exact Prod.ext h.1 h.2

/-- a payload of the missing-value part: only with `allow_missing`, and it is the row of a pair of source rows at
    least one of whose join values is missing -/
theorem miss_sound (a : JoinArgs) (l r : Frame) (p : Row) (hp : p ∈ missRows a l r) :
    a.allowMissing = true ∧ ∃ ls ∈ l.rows, ∃ rs ∈ r.rows,
      ((valOf l a.lAttr ls).isMissing = true ∨ (valOf r a.rAttr rs).isMissing = true) ∧
      p = missingRow (RT.missOut a.toTableArgs l r) a.outSimScore ls rs := by
  unfold missRows at hp
  split at hp
  · rename_i ham
    exact ⟨ham, (RT.mem_missingRows_iff a.toTableArgs l r a.outSimScore p).1 hp⟩
  · cases hp

theorem map_rowKeys_eq (a : JoinArgs) (t : TokObj) (toks : TokFn) (cpu : Int) (l r : Frame) (tau : Int) (fr : Frame)
    (hv : validateJoin "EDIT_DISTANCE" a t = .ok (l, r))
    (htau : PyV.toInt (PyV.floor a.threshold) = .int tau)
    (hres : (editDistanceJoinPy a t toks cpu).result = .ok fr) :
    fr.rows.map rowKeys = (payloads a t toks cpu l r tau).map pk := by
  rw [rows_eq a t toks cpu l r tau fr hv htau hres, List.map_map]
  have e : (rowKeys ∘ fun (x : Row × Nat) => Cell.int x.2 :: x.1) = pk ∘ Prod.fst := by
    funext x; rfl
  rw [e, ← List.map_map, List.zipIdx_map_fst]

theorem getD_inj_of_nodup_map {α β : Type} (f : α → β) (L : List α) (d : α) (h : (L.map f).Nodup) (i j : Nat)
    (hi : i < L.length) (hj : j < L.length) (e : f (L.getD i d) = f (L.getD j d)) : i = j := by
  have hi' : i < (L.map f).length := by simpa using hi
  have hj' : j < (L.map f).length := by simpa using hj
  apply (h.getElem_inj_iff (hi := hi') (hj := hj')).1
  simp only [List.getElem_map]
  rw [List.getD_eq_getElem?_getD, List.getD_eq_getElem?_getD, List.getElem?_eq_getElem hi,
    List.getElem?_eq_getElem hj] at e
  exact e

/-- the key pairs of one chunk's output, in terms of the (left id, right id, distance) triples -/
theorem work_keys (a : JoinArgs) (t : TokObj) (toks : TokFn) (tau : Int) (o : OutCfg) (lA rA : Nat)
    (lArr ch : List Row) :
    (work a t toks tau o lA rA lArr ch).map pk =
      ((edPairs tau t.qval a.compOp (toks false) lA rA lArr ch).map (fun p => (p.1, p.2.1))).map
        (fun cd => ((lArr.getD cd.1 []).cell o.lKey, (ch.getD cd.2 []).cell o.rKey)) := by
  unfold work
  rw [editDistanceJoinSplit_eq_pairs, List.map_map, List.map_map]
  apply List.map_congr_left
  intro p _
  exact Prod.ext (withScore_outputRow_cell_zero _ _ _ _ _) (withScore_outputRow_cell_one _ _ _ _ _)

theorem work_keys_snd_mem (a : JoinArgs) (t : TokObj) (toks : TokFn) (tau : Int) (o : OutCfg) (lA rA : Nat)
    (lArr ch : List Row) (x : Cell × Cell) (hx : x ∈ (work a t toks tau o lA rA lArr ch).map pk) :
    x.2 ∈ ch.map (fun y => y.cell o.rKey) := by
  rw [work_keys, List.map_map] at hx
  obtain ⟨⟨c, d, k⟩, hm, rfl⟩ := List.mem_map.1 hx
  obtain ⟨_, hd, _⟩ := edPairs_sound _ _ _ _ _ _ _ _ c d k hm
  exact List.mem_map.2 ⟨_, jed_getD_mem ch d [] hd, rfl⟩

theorem work_keys_nodup (a : JoinArgs) (t : TokObj) (toks : TokFn) (tau : Int) (o : OutCfg) (lA rA : Nat)
    (lArr ch : List Row) (hl : (lArr.map (fun y => y.cell o.lKey)).Nodup)
    (hr : (ch.map (fun y => y.cell o.rKey)).Nodup) :
    ((work a t toks tau o lA rA lArr ch).map pk).Nodup := by
  rw [work_keys]
  apply List.Nodup.map_on _ (edPairs_nodup _ _ _ _ _ _ _ _)
  intro x hx y hy hxy
  obtain ⟨⟨c, d, k⟩, hm, rfl⟩ := List.mem_map.1 hx
  obtain ⟨⟨c', d', k'⟩, hm', rfl⟩ := List.mem_map.1 hy
  obtain ⟨hc, hd, _⟩ := edPairs_sound _ _ _ _ _ _ _ _ c d k hm
  obtain ⟨hc', hd', _⟩ := edPairs_sound _ _ _ _ _ _ _ _ c' d' k' hm'
  simp only [Prod.mk.injEq] at hxy ⊢
  exact ⟨getD_inj_of_nodup_map (fun y : Row => y.cell o.lKey) lArr [] hl c c' hc hc' hxy.1,
    getD_inj_of_nodup_map (fun y : Row => y.cell o.rKey) ch [] hr d d' hd hd' hxy.2⟩

theorem chunkRows_keys_nodup (a : JoinArgs) (t : TokObj) (toks : TokFn) (cpu : Int) (l r : Frame) (tau : Int)
    (hvl : validateKeyAttr a.lKey l = .ok ()) (hvr : validateKeyAttr a.rKey r = .ok ())
    (hrows : r.rows.length < 2 ^ 40) :
    ((chunkRows a t toks cpu l r tau).map pk).Nodup := by
  have hlen : (RT.rArr a.toTableArgs r).length < 2 ^ 40 := lt_of_le_of_lt (rArr_length_le _ _) hrows
  have hL := RT.lArr_keys_nodup a.toTableArgs l hvl
  have hR := RT.rArr_keys_nodup a.toTableArgs r hvr
  rw [← RT.chunks_flatten a.toTableArgs r cpu hlen, List.map_flatten, List.nodup_flatten] at hR
  obtain ⟨hR1, hR2⟩ := hR
  rw [List.pairwise_map] at hR2
  unfold chunkRows
  rw [List.map_flatMap, List.nodup_flatMap]
  constructor
  · intro ch hch
    exact work_keys_nodup a t toks tau _ _ _ _ ch hL (hR1 _ (List.mem_map_of_mem hch))
  · refine hR2.imp ?_
    intro c1 c2 hdis
    show List.Disjoint _ _
    intro x hx1 hx2
    exact hdis (work_keys_snd_mem a t toks tau _ _ _ _ c1 x hx1) (work_keys_snd_mem a t toks tau _ _ _ _ c2 x hx2)

theorem missRows_keys_nodup (a : JoinArgs) (l r : Frame)
    (hvl : validateKeyAttr a.lKey l = .ok ()) (hvr : validateKeyAttr a.rKey r = .ok ()) :
    ((missRows a l r).map pk).Nodup := by
  unfold missRows
  split
  · rw [RT.missingRows_eq_positions, List.map_map]
    apply List.Nodup.map_on _ (nodup_missingPairIdx _ _ _ _)
    rintro ⟨i, j⟩ hx ⟨i', j'⟩ hy hxy
    obtain ⟨hi, hj, _⟩ := (mem_missingPairIdx _ _ _ _ _ _).1 hx
    obtain ⟨hi', hj', _⟩ := (mem_missingPairIdx _ _ _ _ _ _).1 hy
    simp only [Function.comp, pk_miss, Prod.mk.injEq] at hxy ⊢
    exact ⟨getD_inj_of_nodup_map (fun s : Row => s.cell (l.colIdx a.lKey)) l.rows []
        (keys_nodup_of_validateKeyAttr a.lKey l hvl) i i' hi hi' hxy.1,
      getD_inj_of_nodup_map (fun s : Row => s.cell (r.colIdx a.rKey)) r.rows []
        (keys_nodup_of_validateKeyAttr a.rKey r hvr) j j' hj hj' hxy.2⟩
  · exact List.nodup_nil

/-- ONCE (payload level): no key pair occurs twice among all payloads -/
theorem payloads_keys_nodup (a : JoinArgs) (t : TokObj) (toks : TokFn) (cpu : Int) (l r : Frame) (tau : Int)
    (hvl : validateKeyAttr a.lKey l = .ok ()) (hvr : validateKeyAttr a.rKey r = .ok ())
    (hrows : r.rows.length < 2 ^ 40) :
    ((payloads a t toks cpu l r tau).map pk).Nodup := by
  unfold payloads
  rw [List.map_append, List.nodup_append]
  refine ⟨chunkRows_keys_nodup a t toks cpu l r tau hvl hvr hrows, missRows_keys_nodup a l r hvl hvr, ?_⟩
  intro x hx y hy hxy
  subst hxy
  obtain ⟨p, hp, rfl⟩ := List.mem_map.1 hx
  obtain ⟨p', hp', hpp⟩ := List.mem_map.1 hy
  obtain ⟨ls, hls, rs, hrs, hlp, hrp, rfl, -, -⟩ := chunk_sound a t toks cpu l r tau hrows p hp
  obtain ⟨-, ls', hls', rs', hrs', hmiss, rfl⟩ := miss_sound a l r p' hp'
  rw [pk_chunk, pk_miss, Prod.mk.injEq] at hpp
  have e1 : ls' = ls := row_eq_of_key_eq a.lKey l hvl ls' ls hls' hls hpp.1
  have e2 : rs' = rs := row_eq_of_key_eq a.rKey r hvr rs' rs hrs' hrs hpp.2
  subst e1 e2
  unfold Present at hlp hrp
  rcases hmiss with h | h
  · rw [hlp] at h; cases h
  · rw [hrp] at h; cases h

/-- the two key validations contained in a successful `validateJoin` -/
theorem keys_valid (mname : String) (a : JoinArgs) (t : TokObj) (l r : Frame)
    (hv : validateJoin mname a t = .ok (l, r)) :
    validateKeyAttr a.lKey l = .ok () ∧ validateKeyAttr a.rKey r = .ok () := by
  obtain ⟨-, -, -, -, -, hl, hr⟩ := (validateJoin_ok_iff mname a t l r).1 hv
  have hl' := (keyTest_iff l a.lKey).2 hl
  have hr' := (keyTest_iff r a.rKey).2 hr
  unfold keyTest at hl' hr'
  unfold validateKeyAttr raiseIf
  simp only [hl', hr', Bool.not_true, Bool.false_eq_true, if_false, and_self]

/-! ## 6. padded q-grams: long strings within distance `τ` share a q-gram -/

theorem windows_length {α : Type} {q : Nat} (hq : 1 ≤ q) (l : List α) :
    (windows q l).length = l.length + 1 - q := by
  induction l with
  | nil => simp [windows]; omega
  | cons a l ih =>
    rw [windows_cons]
    split
    · simp only [List.length_cons, List.length_nil] at *; omega
    · simp only [List.length_cons] at *; omega

/-- the padded q-gram bag of `s` has `|s| + q − 1` elements -/
theorem qgrams_padded_length (q : Nat) (hq : 1 ≤ q) (s : String) :
    (qgrams q true s).length = s.length + q - 1 := by
  unfold qgrams qgramsChars
  simp only [List.length_map, if_true]
  rw [if_neg (by omega), windows_length hq]
  simp only [List.length_append, List.length_replicate, String.length_toList]
  omega

theorem exists_common_of_diff_lt {α : Type} [DecidableEq α] (x y : List α)
    (h : (x.diff y).length < x.length) : ∃ g, g ∈ x ∧ g ∈ y := by
  by_contra hn
  have hn' : ∀ a ∈ x, a ∉ y := fun a ha hay => hn ⟨a, ha, hay⟩
  have := jed_diff_append_of_not_mem x [] y hn'
  rw [List.append_nil, List.nil_diff, List.append_nil] at this
  rw [this] at h
  exact lt_irrefl _ h

/-- PADDING: with padded q-grams, two strings within distance `τ` the longer of which has at least `q·τ − q + 2`
    characters share a q-gram -/
theorem shareToken_of_long (q : Nat) (hq : 1 ≤ q) (tau : Int) (s t : String)
    (hdist : (lev s t : Int) ≤ tau)
    (hlong : (q : Int) * tau - q + 2 ≤ max (s.length : Int) (t.length : Int)) :
    shareToken (qgrams q true) s t = true := by
  have hmul : ((q * lev s t : Nat) : Int) ≤ (q : Int) * tau := by
    push_cast
    exact mul_le_mul_of_nonneg_left hdist (Int.natCast_nonneg q)
  unfold shareToken
  rw [List.any_eq_true]
  rcases le_total (t.length : Int) (s.length : Int) with hst | hst
  · rw [max_eq_left hst] at hlong
    have h1 := qgrams_diff_le q true s t
    have h2 := qgrams_padded_length q hq s
    obtain ⟨g, hg1, hg2⟩ := exists_common_of_diff_lt (qgrams q true s) (qgrams q true t) (by omega)
    exact ⟨g, hg1, by simpa using hg2⟩
  · rw [max_eq_right hst] at hlong
    have h1 := qgrams_diff_le' q true s t
    have h2 := qgrams_padded_length q hq t
    obtain ⟨g, hg1, hg2⟩ := exists_common_of_diff_lt (qgrams q true t) (qgrams q true s) (by omega)
    exact ⟨g, hg2, by simpa using hg1⟩

end EntryED
end SSJ

section AxiomCheck
open SSJ SSJ.EntryED
#print axioms tau_nonneg
#print axioms op_cases
#print axioms qualED_dist_le
#print axioms result_eq
#print axioms total
#print axioms mem_rows_iff
#print axioms chunk_sound
#print axioms chunk_complete
#print axioms miss_sound
#print axioms payloads_keys_nodup
#print axioms keys_valid
#print axioms qgrams_padded_length
#print axioms shareToken_of_long
end AxiomCheck

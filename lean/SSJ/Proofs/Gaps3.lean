/-
  SSJ.Proofs.Gaps3 — helper lemmas for three companion property files:
    * `Props/C15_profiler.lean`  — the argument validation of `profile_table_for_join` (`Profiler.profileTable`);
    * `Props/C11_candset.lean`   — columns and row provenance of `apply_matcher` / `filter_candset`;
    * `Props/C13_overlap.lean`   — threshold refinement of `overlap_join` for ANY pair of accepted thresholds
                                    (ints, floats, mixed): monotonicity of `>=` / `>` in the threshold.
-/
import SSJ.Proofs.Profiler
import SSJ.Proofs.EntryMatcher
import SSJ.Proofs.EntryGeneric
import SSJ.Proofs.EntryLaws

/-! ## 1. `profile_table_for_join` -/
namespace SSJ.Profiler
open SSJ

/-- `for attr in profile_attrs: validate_attr(attr, …)`: succeeds iff every requested attribute is a column,
    raises AssertionError otherwise -/
theorem forM_validateAttr (f : Frame) (l : List String) :
    (l.forM (fun a => validateAttr a f) : Except PyErr PUnit) =
      if l.all f.hasCol then .ok ⟨⟩ else .error .assertion := by
  induction l with
  | nil => rfl
  | cons a l ih =>
    have : ((a :: l).forM (fun a => validateAttr a f) : Except PyErr PUnit) =
        (validateAttr a f >>= fun _ => l.forM (fun a => validateAttr a f)) := rfl
    rw [this, ih]
    cases h : f.hasCol a <;> simp [validateAttr, raiseIf, h, bind, Except.bind]

/-- a non-DataFrame table ⇒ TypeError, whatever the attribute list -/
theorem profileTable_none (attrs : Option (List String)) : profileTable none attrs = .error .typeErr := by
  simp [profileTable, validateInputTable, bind, Except.bind]

/-- some requested attribute is not a column ⇒ AssertionError, whatever else -/
theorem profileTable_unknown (f : Frame) (l : List String) (h : ∃ a ∈ l, f.hasCol a = false) :
    profileTable (some f) (some l) = .error .assertion := by
  have : l.all f.hasCol = false := by
    rw [List.all_eq_false]; obtain ⟨a, ha, hf⟩ := h; exact ⟨a, ha, by simp [hf]⟩
  simp [profileTable, validateInputTable, bind, Except.bind, forM_validateAttr, this]

/-- the rows of the profile output for the attribute list `use` -/
def rowsOf (f : Frame) (use : List String) : List (String × String × String × String) :=
  use.map (fun a => (a, (profileColumn (f.col a)).1, (profileColumn (f.col a)).2.1, (profileColumn (f.col a)).2.2))

/-- the profiler on a DataFrame whose requested attributes (if any are named) are all columns returns one row per
    attribute — also on a table without rows (no ZeroDivisionError since /repo 39fa1bc) -/
theorem profileTable_some_eq (f : Frame) (attrs : Option (List String))
    (hattrs : ∀ l, attrs = some l → ∀ a ∈ l, f.hasCol a = true) :
    profileTable (some f) attrs = .ok (rowsOf f (attrs.getD f.columns)) := by
  cases attrs with
  | none =>
    simp only [profileTable, validateInputTable, bind, Except.bind, pure, Except.pure, Option.getD, rowsOf]
  | some l =>
    have : l.all f.hasCol = true := by
      rw [List.all_eq_true]; exact hattrs l rfl
    simp only [profileTable, validateInputTable, bind, Except.bind, pure, Except.pure, Option.getD, rowsOf,
      forM_validateAttr, this, if_true]

end SSJ.Profiler

/-! ## 2. `apply_matcher`: every result row stems from a candidate row -/
namespace SSJ
open SSJ

/-- the elements a `filterMap` keeps form a sublist, paired in order with their images -/
theorem filterMap_kept {α β : Type} (f : α → Option β) (l : List α) :
    ∃ kept, kept.Sublist l ∧ List.Forall₂ (fun x y => f x = some y) kept (l.filterMap f) := by
  induction l with
  | nil => exact ⟨[], List.Sublist.slnil, List.Forall₂.nil⟩
  | cons x l ih =>
    obtain ⟨kept, hs, hf⟩ := ih
    rw [List.filterMap_cons]
    cases hx : f x with
    | none => exact ⟨kept, hs.cons _, hf⟩
    | some y => exact ⟨x :: kept, hs.cons_cons _, List.Forall₂.cons hx hf⟩

/-- … and every kept element is an element of the list -/
theorem filterMap_kept' {α β : Type} (f : α → Option β) (l : List α) :
    ∃ kept, kept.Sublist l ∧ List.Forall₂ (fun x y => x ∈ l ∧ f x = some y) kept (l.filterMap f) := by
  induction l with
  | nil => exact ⟨[], List.Sublist.slnil, List.Forall₂.nil⟩
  | cons x l ih =>
    obtain ⟨kept, hs, hf⟩ := ih
    have hf' : List.Forall₂ (fun x' y => x' ∈ x :: l ∧ f x' = some y) kept (l.filterMap f) :=
      hf.imp (fun a b h => ⟨List.mem_cons_of_mem _ h.1, h.2⟩)
    rw [List.filterMap_cons]
    cases hx : f x with
    | none => exact ⟨kept, hs.cons _, hf'⟩
    | some y => exact ⟨x :: kept, hs.cons_cons _, List.Forall₂.cons ⟨List.mem_cons_self, hx⟩ hf'⟩

/-- every element of the right list of a `Forall₂` has a partner in the left list -/
theorem forall₂_mem_right {α β : Type} {R : α → β → Prop} {l₁ : List α} {l₂ : List β} (h : List.Forall₂ R l₁ l₂) :
    ∀ y ∈ l₂, ∃ x ∈ l₁, R x y := by
  induction h with
  | nil => intro y hy; cases hy
  | cons hd _ ih =>
    intro y hy
    rcases List.mem_cons.1 hy with rfl | hy
    · exact ⟨_, List.mem_cons_self, hd⟩
    · obtain ⟨x, hx, hr⟩ := ih y hy
      exact ⟨x, List.mem_cons_of_mem _ hx, hr⟩

/-- the row `apply_matcher` emits for candidate `_id` `id` and source rows `ls`, `rs`, up to the score cell -/
def matcherOutRow (a : MatcherArgs) (l r : Frame) (id : Cell) (ls rs : Row) (s : Cell) : Row :=
  id :: ([ls.cell (l.colIdx a.lKey), rs.cell (r.colIdx a.rKey)] ++
      ((removeRedundantAttrs a.lOut a.lKey).getD []).map (fun x => ls.cell (l.colIdx x)) ++
      ((removeRedundantAttrs a.rOut a.rKey).getD []).map (fun x => rs.cell (r.colIdx x)) ++
      (if a.outSimScore then [s] else []))

/-- a kept pair's row is `matcherOutRow` for some score cell -/
theorem matcherPairRaw_some (a : MatcherArgs) (tok : Option (String → List Tok)) (sim : SimArg → SimArg → PyV)
    (l r : Frame) (id : Cell) (ls rs row : Row) (h : matcherPairRaw a tok sim l r id ls rs = some row) :
    ∃ s, row = matcherOutRow a l r id ls rs s := by
  have key : ∀ s : Cell, withScore a.outSimScore
      (id :: ([ls.cell (l.colIdx a.lKey), rs.cell (r.colIdx a.rKey)] ++
        ((removeRedundantAttrs a.lOut a.lKey).getD []).map (fun x => ls.cell (l.colIdx x)) ++
        ((removeRedundantAttrs a.rOut a.rKey).getD []).map (fun x => rs.cell (r.colIdx x)))) s
      = matcherOutRow a l r id ls rs s := by
    intro s
    rw [eg_withScore_eq_append]
    simp [matcherOutRow]
  unfold matcherPairRaw at h
  simp only [key] at h
  split_ifs at h <;> exact ⟨_, (Option.some.inj h).symm⟩

/-- a kept candidate row whose key cells ARE cells of the tables' key columns (identical values, not merely
    Python-equal ones): its two source rows exist, carry the candidate's keys, and the output row is `matcherOutRow`
    of the candidate's `_id` and these two rows.  (For key cells that are only Python-equal to the tables' — `1.0`
    against `1` — the output row carries, without output attributes, the candidate's own key cells:
    `matcherTableSpec_eq`, `matcherPairRawK`.) -/
theorem matcherTableSpec_some (a : MatcherArgs) (t : Option TokObj) (toks : TokFn) (sim : SimArg → SimArg → PyV)
    (c l r : Frame) (hlk : PyDistinct (l.col a.lKey)) (hrk : PyDistinct (r.col a.rKey)) (cr row : Row)
    (hml : cr.cell (c.colIdx a.candLKey) ∈ l.col a.lKey) (hmr : cr.cell (c.colIdx a.candRKey) ∈ r.col a.rKey)
    (h : matcherTableSpec a t toks sim c l r cr = some row) :
    ∃ ls ∈ l.rows, ∃ rs ∈ r.rows, ∃ s : Cell,
      ls.cell (l.colIdx a.lKey) = cr.cell (c.colIdx a.candLKey) ∧
      rs.cell (r.colIdx a.rKey) = cr.cell (c.colIdx a.candRKey) ∧
      row = matcherOutRow a l r (cr.cell 0) ls rs s := by
  rw [matcherTableSpec_eq a t toks sim c l r hlk hrk cr] at h
  cases hfl : l.rows.find? (fun s => (s.cell (l.colIdx a.lKey)).pyEq (cr.cell (c.colIdx a.candLKey))) with
  | none => rw [hfl] at h; cases h
  | some ls =>
    cases hfr : r.rows.find? (fun s => (s.cell (r.colIdx a.rKey)).pyEq (cr.cell (c.colIdx a.candRKey))) with
    | none => rw [hfl, hfr] at h; cases h
    | some rs =>
      rw [hfl, hfr] at h
      have hls := List.mem_of_find?_eq_some hfl
      have hrs := List.mem_of_find?_eq_some hfr
      have e1 : ls.cell (l.colIdx a.lKey) = cr.cell (c.colIdx a.candLKey) :=
        hlk.unique (List.mem_map_of_mem (f := fun row : Row => row.cell (l.colIdx a.lKey)) hls) hml
          (List.find?_some (p := fun s : Row => (s.cell (l.colIdx a.lKey)).pyEq (cr.cell (c.colIdx a.candLKey))) hfl)
          (Cell.pyEq_refl _)
      have e2 : rs.cell (r.colIdx a.rKey) = cr.cell (c.colIdx a.candRKey) :=
        hrk.unique (List.mem_map_of_mem (f := fun row : Row => row.cell (r.colIdx a.rKey)) hrs) hmr
          (List.find?_some (p := fun s : Row => (s.cell (r.colIdx a.rKey)).pyEq (cr.cell (c.colIdx a.candRKey))) hfr)
          (Cell.pyEq_refl _)
      dsimp only at h
      rw [← e1, ← e2, matcherPairRawK_self] at h
      obtain ⟨s, hs⟩ := matcherPairRaw_some a _ sim l r _ ls rs row h
      exact ⟨ls, hls, rs, hrs, s, e1, e2, hs⟩

/-- `apply_matcher` at table level, provenance form: the result's rows are, in candset order, the output rows of a
    sublist `kept` of the candidate rows -/
theorem applyMatcher_kept (a : MatcherArgs) (t : Option TokObj) (toks : TokFn) (sim : SimArg → SimArg → PyV) (cpu : Int)
    (c l r : Frame) (hv : validateMatcher a t = .ok (c, l, r))
    (hl : ∀ cr ∈ c.rows, cr.cell (c.colIdx a.candLKey) ∈ l.col a.lKey)
    (hr : ∀ cr ∈ c.rows, cr.cell (c.colIdx a.candRKey) ∈ r.col a.rKey)
    (hlen : c.rows.length < 2 ^ 40)
    (hstr : t.isSome → Props.StrColumn l a.lAttr ∧ Props.StrColumn r a.rAttr) :
    ∃ fr kept, applyMatcher a t toks sim cpu = .ok fr ∧
      fr.columns = (if c.rows.isEmpty then c.columns else matcherHeader a) ∧
      kept.Sublist c.rows ∧
      List.Forall₂ (fun cr row => ∃ ls ∈ l.rows, ∃ rs ∈ r.rows, ∃ s : Cell,
          ls.cell (l.colIdx a.lKey) = cr.cell (c.colIdx a.candLKey) ∧
          rs.cell (r.colIdx a.rKey) = cr.cell (c.colIdx a.candRKey) ∧
          row = matcherOutRow a l r (cr.cell 0) ls rs s) kept fr.rows := by
  obtain ⟨fr, hfr, hcols, hrows⟩ := applyMatcher_rows' a t toks sim cpu c l r hv
    (fun cr hcr => PyMem.of_mem (hl cr hcr)) (fun cr hcr => PyMem.of_mem (hr cr hcr)) hlen hstr
  have hV := (validateMatcher_ok_iff a t c l r).1 hv
  obtain ⟨kept, hs, hf⟩ := filterMap_kept' (matcherTableSpec a t toks sim c l r) c.rows
  refine ⟨fr, kept, hfr, hcols, hs, ?_⟩
  rw [hrows]
  exact hf.imp (fun cr row h => matcherTableSpec_some a t toks sim c l r hV.lKeyValid.1 hV.rKeyValid.1 cr row
    (hl cr h.1) (hr cr h.1) h.2)

end SSJ

/-! ## 3. overlap thresholds of any numeric type -/
namespace SSJ.EntryLaws
open SSJ

/-- acceptance of an overlap threshold is exactly Python's `threshold > 0` (the repaired test `if not threshold > 0`:
    a value for which the comparison is not true — in particular a non-number — is rejected) -/
theorem overlapThr_valid_iff (v : PyV) :
    Gen.validate_threshold v (.str "OVERLAP") ≠ .err .assertion ↔ PyV.gtb v (.int 0) = true :=
  Gen.validate_threshold_overlap_iff v

/-- `v > 0` holds iff `v` is a positive finite number (int, float, `True`) or `inf` -/
theorem gtb_zero_iff (v : PyV) :
    PyV.gtb v (.int 0) = true ↔ (∃ x : Rat, PyV.numVal? v = some (some x) ∧ 0 < x) ∨ v = .inf := by
  cases v <;> simp [PyV.gtb, PyV.ltb, PyV.numVal?]

/-- `n >= v` for an int `n` holds iff `v` is a finite number not above `n` -/
theorem geb_int_iff (n : Int) (v : PyV) :
    PyV.geb (.int n) v = true ↔ ∃ x : Rat, PyV.numVal? v = some (some x) ∧ x ≤ n := by
  cases v <;> simp [PyV.geb, PyV.leb, PyV.numVal?]

/-- `n > v` for an int `n` holds iff `v` is a finite number below `n` -/
theorem gtb_int_iff (n : Int) (v : PyV) :
    PyV.gtb (.int n) v = true ↔ ∃ x : Rat, PyV.numVal? v = some (some x) ∧ x < n := by
  cases v <;> simp [PyV.gtb, PyV.ltb, PyV.numVal?]

/-- `v₁ <= v₂` with `v₂` a finite number: `v₁` is a finite number not above it -/
theorem leb_finite_right (v₁ v₂ : PyV) (x₂ : Rat) (h2 : PyV.numVal? v₂ = some (some x₂))
    (h : PyV.leb v₁ v₂ = true) : ∃ x₁ : Rat, PyV.numVal? v₁ = some (some x₁) ∧ x₁ ≤ x₂ := by
  cases v₁ <;> cases v₂ <;> simp_all [PyV.leb, PyV.numVal?]

/-- `<=` between finite numbers (int, float, bool in any combination) is the order of their exact values -/
theorem leb_num (v₁ v₂ : PyV) (x₁ x₂ : Rat) (h1 : PyV.numVal? v₁ = some (some x₁))
    (h2 : PyV.numVal? v₂ = some (some x₂)) : PyV.leb v₁ v₂ = true ↔ x₁ ≤ x₂ := by
  cases v₁ <;> cases v₂ <;> simp_all [PyV.leb, PyV.numVal?]

/-- `>=` and `>` of an int against ANY threshold are antitone in the threshold (`v₁ <= v₂` in Python's sense):
    ints, floats, mixed; `inf` and non-numbers on the right make the comparison false -/
theorem ge_mono_any (op : String) (hop : op = ">=" ∨ op = ">") (n : Int) (v₁ v₂ : PyV)
    (h12 : PyV.leb v₁ v₂ = true) (h : compFn op (.int n) v₂ = true) : compFn op (.int n) v₁ = true := by
  rcases hop with rfl | rfl
  · rw [compFn_ge, geb_int_iff] at h ⊢
    obtain ⟨x₂, e₂, hx⟩ := h
    obtain ⟨x₁, e₁, hx₁⟩ := leb_finite_right v₁ v₂ x₂ e₂ h12
    exact ⟨x₁, e₁, hx₁.trans hx⟩
  · rw [compFn_gt, gtb_int_iff] at h ⊢
    obtain ⟨x₂, e₂, hx⟩ := h
    obtain ⟨x₁, e₁, hx₁⟩ := leb_finite_right v₁ v₂ x₂ e₂ h12
    exact ⟨x₁, e₁, lt_of_le_of_lt hx₁ hx⟩

/-- an accepted overlap threshold stays accepted when raised -/
theorem overlapThr_valid_mono (v₁ v₂ : PyV) (h12 : PyV.leb v₁ v₂ = true)
    (h : Gen.validate_threshold v₁ (.str "OVERLAP") ≠ .err .assertion) :
    Gen.validate_threshold v₂ (.str "OVERLAP") ≠ .err .assertion := by
  rw [overlapThr_valid_iff, gtb_zero_iff] at h ⊢
  rcases h with ⟨x₁, e₁, hx₁⟩ | rfl
  · cases hv₂ : PyV.numVal? v₂ with
    | none => cases v₁ <;> cases v₂ <;> simp_all [PyV.leb, PyV.numVal?]
    | some o =>
      cases o with
      | none => right; cases v₂ <;> simp_all [PyV.numVal?]
      | some x₂ =>
        left
        exact ⟨x₂, rfl, lt_of_lt_of_le hx₁ ((leb_num v₁ v₂ x₁ x₂ e₁ hv₂).1 h12)⟩
  · right
    cases v₂ <;> simp_all [PyV.leb, PyV.numVal?]

/-- a valid OverlapFilter stays valid under a larger overlap size of any numeric type -/
theorem mkOverlapFilter_withThr (v₁ v₂ : PyV) (h12 : PyV.leb v₁ v₂ = true) (op : String) (am : Bool) (t : TokObj)
    (f : OverlapFilterObj) (h : mkOverlapFilter v₁ op am t = .ok f) :
    mkOverlapFilter v₂ op am t = .ok { overlapSize := v₂, compOp := op, allowMissing := am } := by
  obtain ⟨h1, h2, h3, -⟩ := (mkOverlapFilter_ok_iff _ _ _ _ _).1 h
  exact (mkOverlapFilter_ok_iff _ _ _ _ _).2 ⟨h1, overlapThr_valid_mono v₁ v₂ h12 h2, h3, rfl⟩

/-- acceptance by the OverlapFilter constructor in terms of the threshold's value: ints and floats must be
    positive; `inf` (and `True`) pass -/
theorem overlapThr_valid_int (k : Int) :
    Gen.validate_threshold (.int k) (.str "OVERLAP") ≠ .err .assertion ↔ 0 < k := by
  rw [Ne, Gen.validate_threshold_overlap]; omega

theorem overlapThr_valid_float (q : Rat) :
    Gen.validate_threshold (.float q) (.str "OVERLAP") ≠ .err .assertion ↔ 0 < q := by
  rw [Ne, Gen.validate_threshold_overlap_float, not_le]

theorem overlapThr_valid_inf : Gen.validate_threshold .inf (.str "OVERLAP") ≠ .err .assertion := by
  rw [overlapThr_valid_iff]; rfl

end SSJ.EntryLaws

section AxiomCheck
open SSJ SSJ.Profiler SSJ.EntryLaws
#print axioms forM_validateAttr
#print axioms profileTable_none
#print axioms profileTable_unknown
#print axioms profileTable_some_eq
#print axioms filterMap_kept
#print axioms applyMatcher_kept
#print axioms ge_mono_any
#print axioms overlapThr_valid_mono
#print axioms mkOverlapFilter_withThr
#print axioms leb_num
#print axioms overlapThr_valid_int
#print axioms overlapThr_valid_float
#print axioms overlapThr_valid_inf
end AxiomCheck

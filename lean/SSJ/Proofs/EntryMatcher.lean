/-
  SSJ.Proofs.EntryMatcher — glue for properties C05 / C15: the validation blocks of `apply_matcher`
  and `filter_candset` as single functions (`validateMatcher`, `validateCandset`), their complete
  characterisation and error kinds, the comparison operators by name, and a readable per-row
  specification of `apply_matcher` at table level.
-/
import SSJ.Proofs.Frames
import SSJ.Proofs.Session

namespace SSJ

/-! ## 1. the six comparison operators (generated COMP_OP_MAP) -/

theorem compFn_ge : compFn ">=" = PyV.geb := rfl
theorem compFn_gt : compFn ">" = PyV.gtb := rfl
theorem compFn_le : compFn "<=" = PyV.leb := rfl
theorem compFn_lt : compFn "<" = PyV.ltb := rfl
theorem compFn_eq : compFn "=" = PyV.eqb := rfl
theorem compFn_ne : compFn "!=" = PyV.neb := rfl

/-- the operators `validate_comp_op` accepts are exactly the keys of COMP_OP_MAP -/
theorem comp_op_map_isSome_iff (op : String) :
    (Gen.comp_op_map op).isSome = true ↔ op ∈ [">=", ">", "<=", "<", "=", "!="] := by
  unfold Gen.comp_op_map
  simp only [beq_iff_eq, List.mem_cons, List.not_mem_nil, or_false]
  split_ifs <;> simp_all

/-! ## 2. `apply_matcher`: the validation block as one function -/

/-- `if tokenizer is not None: validate_tokenizer(tokenizer)` -/
def validateTokenizerOpt (t : Option TokObj) : Except PyErr Unit :=
  match t with
  | some tk => validateTokenizer tk
  | none => pure ()

/-- the validations at the top of `apply_matcher`, in code order; returns (candset, ltable, rtable) -/
def validateMatcher (a : MatcherArgs) (t : Option TokObj) : Except PyErr (Frame × Frame × Frame) := do
  let c ← validateInputTable a.candset
  validateAttr a.candLKey c
  validateAttr a.candRKey c
  let l ← validateInputTable a.ltable
  let r ← validateInputTable a.rtable
  validateAttr a.lKey l
  validateAttr a.rKey r
  validateAttr a.lAttr l
  validateAttr a.rAttr r
  validateOutputAttrs a.lOut l a.rOut r
  validateTokenizerOpt t
  genCheck (Gen.validate_comp_op (.str a.compOp))
  validateKeyAttr a.lKey l
  validateKeyAttr a.rKey r
  return (c, l, r)

/-- what `apply_matcher` does after its validations (verbatim) -/
def matcherBody (a : MatcherArgs) (t : Option TokObj) (toks : TokFn) (sim : SimArg → SimArg → PyV) (cpu : Int)
    (c l r : Frame) : Except PyErr Frame := do
  if c.rows.isEmpty then return c else
  let lOut := removeRedundantAttrs a.lOut a.lKey
  let rOut := removeRedundantAttrs a.rOut a.rKey
  let lProj := getAttrsToProject lOut a.lKey a.lAttr
  let rProj := getAttrsToProject rOut a.rKey a.rAttr
  let lRows := l.rows.map (fun row => (lProj.map l.colIdx).map row.cell)
  let rRows := r.rows.map (fun row => (rProj.map r.colIdx).map row.cell)
  let lKeyIdx := lProj.idxOf a.lKey
  let lAttrIdx := lProj.idxOf a.lAttr
  let rKeyIdx := rProj.idxOf a.rKey
  let rAttrIdx := rProj.idxOf a.rAttr
  let o : OutCfg := { lKey := lKeyIdx, rKey := rKeyIdx,
                      lOut := findOutputAttributeIndices lProj lOut,
                      rOut := findOutputAttributeIndices rProj rOut,
                      hasOut := lOut.isSome || rOut.isSome }
  let tokFn : Option (String → List Tok) := t.map (fun tk => toks tk.returnSet)
  let cache ← tokenCache tokFn (decide ((l.rows.length + r.rows.length : Nat) < c.rows.length * 2))
                lRows rRows lKeyIdx lAttrIdx rKeyIdx rAttrIdx
  let header := "_id" :: (getOutputHeader a.lKey a.rKey lOut rOut a.lPre a.rPre ++
                  (if a.outSimScore then ["_sim_score"] else []))
  let chunks ← (chunksFor c.rows a.nJobs cpu).mapM (fun ch => do
      let rows ← applyMatcherSplit a (c.colIdx a.candLKey) (c.colIdx a.candRKey) lRows rRows
                  lKeyIdx lAttrIdx rKeyIdx rAttrIdx o tokFn sim cache ch
      mkRows rows header)
  return { columns := header
           index := chunks.flatMap (fun p => (List.range p.length).map (fun (i : Nat) => Cell.int i))
           rows := chunks.flatten }

/-- `apply_matcher` = its validation block, then the rest -/
theorem applyMatcher_eq (a : MatcherArgs) (t : Option TokObj) (toks : TokFn) (sim : SimArg → SimArg → PyV) (cpu : Int) :
    applyMatcher a t toks sim cpu =
      validateMatcher a t >>= fun p => matcherBody a t toks sim cpu p.1 p.2.1 p.2.2 := by
  unfold applyMatcher validateMatcher
  simp only [bind_assoc, pure_bind]
  cases t <;> rfl

/-- a call rejected by the validation block is rejected by `apply_matcher`, with the same exception -/
theorem applyMatcher_reject (a : MatcherArgs) (t : Option TokObj) (toks : TokFn) (sim : SimArg → SimArg → PyV) (cpu : Int)
    (e : PyErr) (h : validateMatcher a t = .error e) : applyMatcher a t toks sim cpu = .error e := by
  rw [applyMatcher_eq, h]
  rfl

theorem validateKeyAttr_eq (k : String) (f : Frame) : validateKeyAttr k f = raiseIf (!keyTest f k) .assertion := rfl

theorem validateTokenizerOpt_bind {α : Type} (t : Option TokObj) (f : Unit → Except PyErr α) :
    (validateTokenizerOpt t >>= f) = if t.any (fun tk => !tk.isTokenizer) then .error .typeErr else f () := by
  cases t with
  | none => rfl
  | some tk =>
    unfold validateTokenizerOpt validateTokenizer
    rw [raiseIf_bind]
    rfl

theorem genCheck_comp_op_bind {α : Type} (op : PyV) (f : Unit → Except PyErr α) :
    (genCheck (Gen.validate_comp_op op) >>= f) =
      if Gen.validate_comp_op op = .err .assertion then .error .assertion else f () :=
  genCheck_bind_of_cases _ _ _ (Gen.validate_comp_op_cases _) rfl

theorem ite_error_bind {α β : Type} (c : Prop) [Decidable c] (e : PyErr) (x : Except PyErr α)
    (f : α → Except PyErr β) :
    ((if c then Except.error e else x) >>= f) = if c then Except.error e else (x >>= f) := by
  split <;> rfl

theorem validateMatcher_none (a : MatcherArgs) (t : Option TokObj) (h : a.candset = none) :
    validateMatcher a t = .error .typeErr := by
  unfold validateMatcher validateInputTable
  rw [h]
  rfl

/-- the checks of `validateMatcher` after the three `isinstance(·, DataFrame)` tests and the two candset-attribute
    tests: a cascade in code order -/
def matcherCascade (a : MatcherArgs) (t : Option TokObj) (c l r : Frame) : Except PyErr (Frame × Frame × Frame) :=
  if !l.hasCol a.lKey then .error .assertion
  else if !r.hasCol a.rKey then .error .assertion
  else if !l.hasCol a.lAttr then .error .assertion
  else if !r.hasCol a.rAttr then .error .assertion
  else if (a.lOut.getD []).any (fun x => !l.hasCol x) then .error .assertion
  else if (a.rOut.getD []).any (fun x => !r.hasCol x) then .error .assertion
  else if t.any (fun tk => !tk.isTokenizer) then .error .typeErr
  else if Gen.validate_comp_op (.str a.compOp) = .err .assertion then .error .assertion
  else if !keyTest l a.lKey then .error .assertion
  else if !keyTest r a.rKey then .error .assertion
  else .ok (c, l, r)

/-- `validateMatcher` once the candset is a DataFrame.
    (A non-DataFrame `ltable`/`rtable` is only detected after the two candset-attribute checks.) -/
theorem validateMatcher_some (a : MatcherArgs) (t : Option TokObj) (c : Frame) (hc : a.candset = some c) :
    validateMatcher a t =
      if !c.hasCol a.candLKey then .error .assertion
      else if !c.hasCol a.candRKey then .error .assertion
      else match a.ltable, a.rtable with
        | some l, some r => matcherCascade a t c l r
        | _, _ => .error .typeErr := by
  unfold validateMatcher matcherCascade
  simp only [hc, validateInputTable, validateAttr, validateOutputAttrs, validateKeyAttr_eq,
    except_ok_bind, raiseIf_bind]
  generalize c.hasCol a.candLKey = b1
  generalize c.hasCol a.candRKey = b2
  cases b1
  · rfl
  cases b2
  · rfl
  cases a.ltable with
  | none => rfl
  | some l =>
    cases a.rtable with
    | none => rfl
    | some r =>
      simp only [except_ok_bind, raiseIf_bind, ite_error_bind, validateTokenizerOpt_bind, genCheck_comp_op_bind]
      rfl

/-- candset attribute missing ⇒ AssertionError -/
theorem validateMatcher_cand_attr (a : MatcherArgs) (t : Option TokObj) (c : Frame) (hc : a.candset = some c)
    (h : c.hasCol a.candLKey = false ∨ c.hasCol a.candRKey = false) :
    validateMatcher a t = .error .assertion := by
  rw [validateMatcher_some a t c hc]
  rcases h with h | h
  · rw [h]; rfl
  · rw [h]
    cases c.hasCol a.candLKey <;> rfl

/-- `ltable` / `rtable` not a DataFrame (candset fine) ⇒ TypeError -/
theorem validateMatcher_table_none (a : MatcherArgs) (t : Option TokObj) (c : Frame) (hc : a.candset = some c)
    (h1 : c.hasCol a.candLKey = true) (h2 : c.hasCol a.candRKey = true)
    (h : a.ltable = none ∨ a.rtable = none) :
    validateMatcher a t = .error .typeErr := by
  rw [validateMatcher_some a t c hc, h1, h2]
  rcases h with h | h
  · rw [h]; rfl
  · rw [h]
    cases a.ltable <;> rfl

/-- all three are DataFrames and the candset has its two key columns: the cascade decides -/
theorem validateMatcher_tables (a : MatcherArgs) (t : Option TokObj) (c l r : Frame) (hc : a.candset = some c)
    (hl : a.ltable = some l) (hr : a.rtable = some r)
    (h1 : c.hasCol a.candLKey = true) (h2 : c.hasCol a.candRKey = true) :
    validateMatcher a t = matcherCascade a t c l r := by
  rw [validateMatcher_some a t c hc, h1, h2, hl, hr]
  rfl

theorem matcherCascade_error_kind (a : MatcherArgs) (t : Option TokObj) (c l r : Frame) (e : PyErr)
    (h : matcherCascade a t c l r = .error e) : e = .typeErr ∨ e = .assertion := by
  unfold matcherCascade at h
  split_ifs at h <;> cases h <;> simp

/-- the arguments of an `apply_matcher` call are valid (documented preconditions) -/
structure MatcherValid (a : MatcherArgs) (t : Option TokObj) (c l r : Frame) : Prop where
  candset : a.candset = some c
  ltable : a.ltable = some l
  rtable : a.rtable = some r
  candLKey : c.hasCol a.candLKey = true
  candRKey : c.hasCol a.candRKey = true
  lKey : l.hasCol a.lKey = true
  rKey : r.hasCol a.rKey = true
  lAttr : l.hasCol a.lAttr = true
  rAttr : r.hasCol a.rAttr = true
  lOut : ∀ x ∈ a.lOut.getD [], l.hasCol x = true
  rOut : ∀ x ∈ a.rOut.getD [], r.hasCol x = true
  tok : ∀ tk, t = some tk → tk.isTokenizer = true
  op : a.compOp ∈ [">=", ">", "<=", "<", "=", "!="]
  lKeyValid : KeyValid l a.lKey
  rKeyValid : KeyValid r a.rKey

/-- the result of a successful validation is the three tables, whatever else -/
theorem validateMatcher_ok_tables (a : MatcherArgs) (t : Option TokObj) (c l r : Frame)
    (h : validateMatcher a t = .ok (c, l, r)) :
    a.candset = some c ∧ a.ltable = some l ∧ a.rtable = some r ∧
      c.hasCol a.candLKey = true ∧ c.hasCol a.candRKey = true ∧ matcherCascade a t c l r = .ok (c, l, r) := by
  cases hc : a.candset with
  | none => rw [validateMatcher_none a t hc] at h; cases h
  | some c' =>
    cases h1 : c'.hasCol a.candLKey with
    | false => rw [validateMatcher_cand_attr a t c' hc (Or.inl h1)] at h; cases h
    | true =>
      cases h2 : c'.hasCol a.candRKey with
      | false => rw [validateMatcher_cand_attr a t c' hc (Or.inr h2)] at h; cases h
      | true =>
        cases hl : a.ltable with
        | none => rw [validateMatcher_table_none a t c' hc h1 h2 (Or.inl hl)] at h; cases h
        | some l' =>
          cases hr : a.rtable with
          | none => rw [validateMatcher_table_none a t c' hc h1 h2 (Or.inr hr)] at h; cases h
          | some r' =>
            rw [validateMatcher_tables a t c' l' r' hc hl hr h1 h2] at h
            have h' := h
            unfold matcherCascade at h'
            split_ifs at h'
            simp only [Except.ok.injEq, Prod.mk.injEq] at h'
            obtain ⟨rfl, rfl, rfl⟩ := h'
            exact ⟨rfl, rfl, rfl, h1, h2, h⟩

/-- COMPLETE CHARACTERISATION of acceptance by `apply_matcher`'s validation block -/
theorem validateMatcher_ok_iff (a : MatcherArgs) (t : Option TokObj) (c l r : Frame) :
    validateMatcher a t = .ok (c, l, r) ↔ MatcherValid a t c l r := by
  constructor
  · intro h
    obtain ⟨hc, hl, hr, h1, h2, h⟩ := validateMatcher_ok_tables a t c l r h
    unfold matcherCascade at h
    split_ifs at h with h3 h4 h5 h6 h7 h8 h9 h10 h11 h12
    refine ⟨hc, hl, hr, h1, h2, by simpa using h3, by simpa using h4,
      by simpa using h5, by simpa using h6, by simpa using h7, by simpa using h8, ?_, ?_,
      (keyTest_iff _ _).1 (by simpa using h11), (keyTest_iff _ _).1 (by simpa using h12)⟩
    · intro tk htk
      subst htk
      simpa using h9
    · by_contra hop
      exact h10 ((Gen.validate_comp_op_iff _).2 hop)
  · intro h
    rw [validateMatcher_tables a t c l r h.candset h.ltable h.rtable h.candLKey h.candRKey]
    have h7 : ((a.lOut.getD []).any fun x => !l.hasCol x) = false := by simpa using h.lOut
    have h8 : ((a.rOut.getD []).any fun x => !r.hasCol x) = false := by simpa using h.rOut
    have h9 : (t.any fun tk => !tk.isTokenizer) = false := by
      cases t with
      | none => rfl
      | some tk => simpa using h.tok tk rfl
    have h10 : ¬ Gen.validate_comp_op (.str a.compOp) = .err .assertion :=
      fun hh => (Gen.validate_comp_op_iff _).1 hh h.op
    have h11 := (keyTest_iff _ _).2 h.lKeyValid
    have h12 := (keyTest_iff _ _).2 h.rKeyValid
    unfold matcherCascade
    simp only [h.lKey, h.rKey, h.lAttr, h.rAttr, h7, h8, h9, h10, h11, h12, Bool.not_true, Bool.false_eq_true,
      if_false]

/-- a rejected `apply_matcher` call is rejected with TypeError or AssertionError -/
theorem validateMatcher_error_kind (a : MatcherArgs) (t : Option TokObj) (e : PyErr)
    (h : validateMatcher a t = .error e) : e = .typeErr ∨ e = .assertion := by
  cases hc : a.candset with
  | none => rw [validateMatcher_none a t hc] at h; cases h; exact Or.inl rfl
  | some c' =>
    cases h1 : c'.hasCol a.candLKey with
    | false => rw [validateMatcher_cand_attr a t c' hc (Or.inl h1)] at h; cases h; exact Or.inr rfl
    | true =>
      cases h2 : c'.hasCol a.candRKey with
      | false => rw [validateMatcher_cand_attr a t c' hc (Or.inr h2)] at h; cases h; exact Or.inr rfl
      | true =>
        cases hl : a.ltable with
        | none => rw [validateMatcher_table_none a t c' hc h1 h2 (Or.inl hl)] at h; cases h; exact Or.inl rfl
        | some l' =>
          cases hr : a.rtable with
          | none => rw [validateMatcher_table_none a t c' hc h1 h2 (Or.inr hr)] at h; cases h; exact Or.inl rfl
          | some r' =>
            rw [validateMatcher_tables a t c' l' r' hc hl hr h1 h2] at h
            exact matcherCascade_error_kind _ _ _ _ _ _ h

/-- the `hv…` hypotheses of `applyMatcher_spec`, from the single validation hypothesis -/
theorem MatcherValid.validations {a : MatcherArgs} {t : Option TokObj} {c l r : Frame} (h : MatcherValid a t c l r) :
    validateAttr a.candLKey c = .ok () ∧ validateAttr a.candRKey c = .ok () ∧
    validateAttr a.lKey l = .ok () ∧ validateAttr a.rKey r = .ok () ∧
    validateAttr a.lAttr l = .ok () ∧ validateAttr a.rAttr r = .ok () ∧
    validateOutputAttrs a.lOut l a.rOut r = .ok () ∧
    (∀ tk, t = some tk → validateTokenizer tk = .ok ()) ∧
    genCheck (Gen.validate_comp_op (.str a.compOp)) = .ok () ∧
    validateKeyAttr a.lKey l = .ok () ∧ validateKeyAttr a.rKey r = .ok () := by
  have h7 : ((a.lOut.getD []).any fun x => !l.hasCol x) = false := by simpa using h.lOut
  have h8 : ((a.rOut.getD []).any fun x => !r.hasCol x) = false := by simpa using h.rOut
  have hop : Gen.validate_comp_op (.str a.compOp) = .none := by
    rcases Gen.validate_comp_op_cases (.str a.compOp) with hh | hh
    · exact absurd h.op ((Gen.validate_comp_op_iff _).1 hh)
    · exact hh
  refine ⟨?_, ?_, ?_, ?_, ?_, ?_, ?_, ?_, ?_, ?_, ?_⟩
  · simp [validateAttr, raiseIf, h.candLKey]
  · simp [validateAttr, raiseIf, h.candRKey]
  · simp [validateAttr, raiseIf, h.lKey]
  · simp [validateAttr, raiseIf, h.rKey]
  · simp [validateAttr, raiseIf, h.lAttr]
  · simp [validateAttr, raiseIf, h.rAttr]
  · unfold validateOutputAttrs
    rw [h7, h8]
    rfl
  · intro tk htk
    simp [validateTokenizer, raiseIf, h.tok tk htk]
  · rw [hop]; rfl
  · rw [validateKeyAttr_eq, (keyTest_iff _ _).2 h.lKeyValid]; rfl
  · rw [validateKeyAttr_eq, (keyTest_iff _ _).2 h.rKeyValid]; rfl

/-! ## 3. the per-row specification of `apply_matcher` in terms of SOURCE rows -/

/-- the table-level arguments of an `apply_matcher` call, in the shape the `RT.*` lemmas use -/
def MatcherArgs.toTableArgs (a : MatcherArgs) : TableArgs :=
  { ltable := a.ltable, rtable := a.rtable, lKey := a.lKey, rKey := a.rKey, lAttr := a.lAttr, rAttr := a.rAttr,
    lOut := a.lOut, rOut := a.rOut, lPre := a.lPre, rPre := a.rPre, nJobs := a.nJobs }

/-- looking a candidate key up in the dict built from the projected left table = finding the source row whose key is
    Python-equal to it (`1.0` finds the row of key `1`) and projecting it -/
theorem matcherLRows_lookup (a : MatcherArgs) (l : Frame) (hk : PyDistinct (l.col a.lKey)) (k : Cell) :
    Dict.getPy? (buildDict (matcherLRows a l) ((matcherLProj a).idxOf a.lKey)) k
      = (l.rows.find? (fun s => (s.cell (l.colIdx a.lKey)).pyEq k)).map
          (fun s => ((matcherLProj a).map l.colIdx).map s.cell) := by
  have hnd : PyDistinct ((matcherLRows a l).map (·.cell ((matcherLProj a).idxOf a.lKey))) := by
    rw [matcherLRows_keys]; exact hk
  cases hf : l.rows.find? (fun s => (s.cell (l.colIdx a.lKey)).pyEq k) with
  | none =>
    have hnot : ¬ PyMem k ((matcherLRows a l).map (·.cell ((matcherLProj a).idxOf a.lKey))) := by
      rw [matcherLRows_keys]
      rintro ⟨k', hmem, he⟩
      obtain ⟨s, hs, rfl⟩ := List.mem_map.1 hmem
      have := List.find?_eq_none.1 hf s hs
      exact this he
    rw [buildDict_get_none _ _ _ hnot]
    rfl
  | some s =>
    have hs := List.mem_of_find?_eq_some hf
    have hkey : (s.cell (l.colIdx a.lKey)).pyEq k = true := List.find?_some (p := fun s : Row => (s.cell (l.colIdx a.lKey)).pyEq k) hf
    have hcell : Row.cell (((matcherLProj a).map l.colIdx).map s.cell) ((matcherLProj a).idxOf a.lKey) = s.cell (l.colIdx a.lKey) :=
      RT.lRow_key a.toTableArgs l s
    rw [buildDict_get (matcherLRows a l) ((matcherLProj a).idxOf a.lKey) hnd
      (((matcherLProj a).map l.colIdx).map s.cell)
      (List.mem_map_of_mem (f := fun row : Row => ((matcherLProj a).map l.colIdx).map row.cell) hs) k
      (by rw [hcell]; exact hkey)]
    rfl

theorem matcherRRows_lookup (a : MatcherArgs) (r : Frame) (hk : PyDistinct (r.col a.rKey)) (k : Cell) :
    Dict.getPy? (buildDict (matcherRRows a r) ((matcherRProj a).idxOf a.rKey)) k
      = (r.rows.find? (fun s => (s.cell (r.colIdx a.rKey)).pyEq k)).map
          (fun s => ((matcherRProj a).map r.colIdx).map s.cell) := by
  have hnd : PyDistinct ((matcherRRows a r).map (·.cell ((matcherRProj a).idxOf a.rKey))) := by
    rw [matcherRRows_keys]; exact hk
  cases hf : r.rows.find? (fun s => (s.cell (r.colIdx a.rKey)).pyEq k) with
  | none =>
    have hnot : ¬ PyMem k ((matcherRRows a r).map (·.cell ((matcherRProj a).idxOf a.rKey))) := by
      rw [matcherRRows_keys]
      rintro ⟨k', hmem, he⟩
      obtain ⟨s, hs, rfl⟩ := List.mem_map.1 hmem
      have := List.find?_eq_none.1 hf s hs
      exact this he
    rw [buildDict_get_none _ _ _ hnot]
    rfl
  | some s =>
    have hs := List.mem_of_find?_eq_some hf
    have hkey : (s.cell (r.colIdx a.rKey)).pyEq k = true := List.find?_some (p := fun s : Row => (s.cell (r.colIdx a.rKey)).pyEq k) hf
    have hcell : Row.cell (((matcherRProj a).map r.colIdx).map s.cell) ((matcherRProj a).idxOf a.rKey) = s.cell (r.colIdx a.rKey) :=
      RT.rRow_key a.toTableArgs r s
    rw [buildDict_get (matcherRRows a r) ((matcherRProj a).idxOf a.rKey) hnd
      (((matcherRProj a).map r.colIdx).map s.cell)
      (List.mem_map_of_mem (f := fun row : Row => ((matcherRProj a).map r.colIdx).map row.cell) hs) k
      (by rw [hcell]; exact hkey)]
    rfl

/-- what `apply_matcher` does with a candidate row whose `_id` cell is `id` and whose keys name the source
    rows `ls` (left) and `rs` (right) — in terms of the ORIGINAL tables (`none` = dropped) -/
def matcherPairRaw (a : MatcherArgs) (tok : Option (String → List Tok)) (sim : SimArg → SimArg → PyV)
    (l r : Frame) (id : Cell) (ls rs : Row) : Option Row :=
  let lv := ls.cell (l.colIdx a.lAttr)
  let rv := rs.cell (r.colIdx a.rAttr)
  let out (score : Cell) : Row :=
    withScore a.outSimScore
      (id :: ([ls.cell (l.colIdx a.lKey), rs.cell (r.colIdx a.rKey)] ++
        ((removeRedundantAttrs a.lOut a.lKey).getD []).map (fun x => ls.cell (l.colIdx x)) ++
        ((removeRedundantAttrs a.rOut a.rKey).getD []).map (fun x => rs.cell (r.colIdx x)))) score
  if lv.isMissing || rv.isMissing then (if a.allowMissing then some (out .missing) else none)
  else
    let (la, ra) : SimArg × SimArg := match tok with
      | some tk => (.toks (tk lv.strVal), .toks (tk rv.strVal))
      | none => (.raw lv, .raw rv)
    let s := sim la ra
    if compFn a.compOp s a.threshold then some (out (scoreCell s)) else none

/-- `matcherPairRaw` for a candidate row whose key cells are `lk`, `rk` — Python-equal to, but possibly different
    objects from, the keys of `ls`, `rs` (`1.0` against `1`): WITHOUT output attributes `_apply_matcher_split` writes
    the CANDSET's key values into the output row (`[candset_row[0], l_id, r_id]`), WITH output attributes the
    TABLES' (`get_output_row_from_tables(l_row, r_row, …)`); nothing else depends on `lk`, `rk` -/
def matcherPairRawK (a : MatcherArgs) (tok : Option (String → List Tok)) (sim : SimArg → SimArg → PyV)
    (l r : Frame) (id lk rk : Cell) (ls rs : Row) : Option Row :=
  let lv := ls.cell (l.colIdx a.lAttr)
  let rv := rs.cell (r.colIdx a.rAttr)
  let hasOut := (removeRedundantAttrs a.lOut a.lKey).isSome || (removeRedundantAttrs a.rOut a.rKey).isSome
  let out (score : Cell) : Row :=
    withScore a.outSimScore
      (id :: ([if hasOut then ls.cell (l.colIdx a.lKey) else lk, if hasOut then rs.cell (r.colIdx a.rKey) else rk] ++
        ((removeRedundantAttrs a.lOut a.lKey).getD []).map (fun x => ls.cell (l.colIdx x)) ++
        ((removeRedundantAttrs a.rOut a.rKey).getD []).map (fun x => rs.cell (r.colIdx x)))) score
  if lv.isMissing || rv.isMissing then (if a.allowMissing then some (out .missing) else none)
  else
    let (la, ra) : SimArg × SimArg := match tok with
      | some tk => (.toks (tk lv.strVal), .toks (tk rv.strVal))
      | none => (.raw lv, .raw rv)
    let s := sim la ra
    if compFn a.compOp s a.threshold then some (out (scoreCell s)) else none

/-- identical keys: the candidate's key cells ARE the tables' -/
theorem matcherPairRawK_self (a : MatcherArgs) (tok : Option (String → List Tok)) (sim : SimArg → SimArg → PyV)
    (l r : Frame) (id : Cell) (ls rs : Row) :
    matcherPairRawK a tok sim l r id (ls.cell (l.colIdx a.lKey)) (rs.cell (r.colIdx a.rKey)) ls rs
      = matcherPairRaw a tok sim l r id ls rs := by
  unfold matcherPairRawK matcherPairRaw
  simp only [ite_self]

theorem matcherRowSpec_projK (a : MatcherArgs) (tok : Option (String → List Tok)) (sim : SimArg → SimArg → PyV)
    (l r : Frame) (cr ls rs : Row) (lk rk : Cell) :
    matcherRowSpec a (matcherOutCfg a) tok sim ((matcherLProj a).idxOf a.lAttr) ((matcherRProj a).idxOf a.rAttr) cr
        (((matcherLProj a).map l.colIdx).map ls.cell) (((matcherRProj a).map r.colIdx).map rs.cell) lk rk
      = matcherPairRawK a tok sim l r (cr.cell 0) lk rk ls rs := by
  have e1 : Row.cell (((matcherLProj a).map l.colIdx).map ls.cell) ((matcherLProj a).idxOf a.lAttr)
      = ls.cell (l.colIdx a.lAttr) := RT.lRow_attr a.toTableArgs l ls
  have e2 : Row.cell (((matcherRProj a).map r.colIdx).map rs.cell) ((matcherRProj a).idxOf a.rAttr)
      = rs.cell (r.colIdx a.rAttr) := RT.rRow_attr a.toTableArgs r rs
  have e3 : (if (matcherOutCfg a).hasOut then
        cr.cell 0 :: getOutputRow (matcherOutCfg a) (((matcherLProj a).map l.colIdx).map ls.cell)
          (((matcherRProj a).map r.colIdx).map rs.cell)
      else [cr.cell 0, lk, rk])
      = cr.cell 0 :: ([if ((removeRedundantAttrs a.lOut a.lKey).isSome || (removeRedundantAttrs a.rOut a.rKey).isSome)
                        then ls.cell (l.colIdx a.lKey) else lk,
                       if ((removeRedundantAttrs a.lOut a.lKey).isSome || (removeRedundantAttrs a.rOut a.rKey).isSome)
                        then rs.cell (r.colIdx a.rKey) else rk] ++
        ((removeRedundantAttrs a.lOut a.lKey).getD []).map (fun x => ls.cell (l.colIdx x)) ++
        ((removeRedundantAttrs a.rOut a.rKey).getD []).map (fun x => rs.cell (r.colIdx x))) := by
    have hf := RT.outputRow_faithful a.toTableArgs l r ls rs
    change outputRow (matcherOutCfg a) (((matcherLProj a).map l.colIdx).map ls.cell)
      (((matcherRProj a).map r.colIdx).map rs.cell) = _ at hf
    unfold outputRow at hf
    have hho : (matcherOutCfg a).hasOut
        = ((removeRedundantAttrs a.lOut a.lKey).isSome || (removeRedundantAttrs a.rOut a.rKey).isSome) := rfl
    rw [← hho]
    split
    · next h => rw [if_pos h] at hf; rw [hf]; rfl
    · next h =>
      rw [hho] at h
      simp only [Bool.or_eq_true, not_or, Bool.not_eq_true, Option.isSome_eq_false_iff,
        Option.isNone_iff_eq_none] at h
      rw [h.1, h.2]
      rfl
  unfold matcherRowSpec matcherPairRawK
  simp only [e1, e2, e3]
  cases tok <;> rfl

theorem matcherRowSpec_proj (a : MatcherArgs) (tok : Option (String → List Tok)) (sim : SimArg → SimArg → PyV)
    (l r : Frame) (cr ls rs : Row) :
    matcherRowSpec a (matcherOutCfg a) tok sim ((matcherLProj a).idxOf a.lAttr) ((matcherRProj a).idxOf a.rAttr) cr
        (((matcherLProj a).map l.colIdx).map ls.cell) (((matcherRProj a).map r.colIdx).map rs.cell)
        (ls.cell (l.colIdx a.lKey)) (rs.cell (r.colIdx a.rKey))
      = matcherPairRaw a tok sim l r (cr.cell 0) ls rs := by
  rw [matcherRowSpec_projK, matcherPairRawK_self]

/-- `matcherTableSpec` (lookups in dicts of projected rows) in terms of the source rows of the two tables: the rows
    whose keys are Python-equal to the candidate's key cells -/
theorem matcherTableSpec_eq (a : MatcherArgs) (t : Option TokObj) (toks : TokFn) (sim : SimArg → SimArg → PyV)
    (c l r : Frame) (hlk : PyDistinct (l.col a.lKey)) (hrk : PyDistinct (r.col a.rKey)) (cr : Row) :
    matcherTableSpec a t toks sim c l r cr =
      match l.rows.find? (fun s => (s.cell (l.colIdx a.lKey)).pyEq (cr.cell (c.colIdx a.candLKey))),
            r.rows.find? (fun s => (s.cell (r.colIdx a.rKey)).pyEq (cr.cell (c.colIdx a.candRKey))) with
      | some ls, some rs => matcherPairRawK a (t.map (fun tk => toks tk.returnSet)) sim l r (cr.cell 0)
          (cr.cell (c.colIdx a.candLKey)) (cr.cell (c.colIdx a.candRKey)) ls rs
      | _, _ => none := by
  unfold matcherTableSpec matcherSpecFn
  rw [matcherLRows_lookup a l hlk, matcherRRows_lookup a r hrk]
  cases hfl : l.rows.find? (fun s => (s.cell (l.colIdx a.lKey)).pyEq (cr.cell (c.colIdx a.candLKey))) with
  | none => rfl
  | some ls =>
    cases hfr : r.rows.find? (fun s => (s.cell (r.colIdx a.rKey)).pyEq (cr.cell (c.colIdx a.candRKey))) with
    | none => rfl
    | some rs =>
      simp only [Option.map_some]
      exact matcherRowSpec_projK a _ sim l r cr ls rs _ _

theorem matcherTableSpec_cell_zero (a : MatcherArgs) (t : Option TokObj) (toks : TokFn) (sim : SimArg → SimArg → PyV)
    (c l r : Frame) (cr row : Row) (h : matcherTableSpec a t toks sim c l r cr = some row) :
    row.cell 0 = cr.cell 0 := by
  unfold matcherTableSpec matcherSpecFn at h
  split at h
  · exact matcherRowSpec_cell_zero _ _ _ _ _ _ _ _ _ _ _ _ h
  · cases h

/-- order and first cells are preserved by a `filterMap` whose kept images keep the first cell -/
theorem filterMap_cell_zero_sublist (f : Row → Option Row) (rows : List Row)
    (h : ∀ cr row, f cr = some row → row.cell 0 = cr.cell 0) :
    ((rows.filterMap f).map (·.cell 0)).Sublist (rows.map (·.cell 0)) := by
  induction rows with
  | nil => exact List.Sublist.slnil
  | cons cr rows ih =>
    rw [List.filterMap_cons]
    cases hf : f cr with
    | none => exact ih.cons _
    | some row =>
      simp only [List.map_cons]
      rw [h cr row hf]
      exact ih.cons_cons _

/-! ## 4. totality of `apply_matcher` on validated arguments -/

/-- (C05 end to end, one validation hypothesis) for validated arguments, candidate keys present (`PyMem`: up to Python equality) in the
    tables and a candset of fewer than 2⁴⁰ rows, `apply_matcher` returns a frame whose rows are the spec rows -/
theorem applyMatcher_rows' (a : MatcherArgs) (t : Option TokObj) (toks : TokFn) (sim : SimArg → SimArg → PyV) (cpu : Int)
    (c l r : Frame) (hv : validateMatcher a t = .ok (c, l, r))
    (hl : ∀ cr ∈ c.rows, PyMem (cr.cell (c.colIdx a.candLKey)) (l.col a.lKey))
    (hr : ∀ cr ∈ c.rows, PyMem (cr.cell (c.colIdx a.candRKey)) (r.col a.rKey))
    (hlen : c.rows.length < 2 ^ 40)
    (hstr : t.isSome → Props.StrColumn l a.lAttr ∧ Props.StrColumn r a.rAttr) :
    ∃ f, applyMatcher a t toks sim cpu = .ok f ∧
      f.columns = (if c.rows.isEmpty then c.columns else matcherHeader a) ∧
      f.rows = c.rows.filterMap (matcherTableSpec a t toks sim c l r) := by
  have hV := (validateMatcher_ok_iff a t c l r).1 hv
  obtain ⟨hv1, hv2, hv3, hv4, hv5, hv6, hv7, hv8, hv9, hv10, hv11⟩ := hV.validations
  exact applyMatcher_rows a t toks sim cpu c l r hV.candset hV.ltable hV.rtable hv1 hv2 hv3 hv4 hv5 hv6 hv7 hv8 hv9
    hv10 hv11 hl hr (chunksFor_flatten _ _ _ hlen) hstr

/-- the token cache raises TypeError iff it is built (tokenizer given, `useCache`) and a cell of one of the two
    columns is neither missing nor a string -/
theorem tokenCache_typeErr (tk : String → List Tok) (lRows rRows : List Row) (lKeyIdx lAttrIdx rKeyIdx rAttrIdx : Nat)
    (h : ¬ (StrCells lRows lAttrIdx ∧ StrCells rRows rAttrIdx)) :
    tokenCache (some tk) true lRows rRows lKeyIdx lAttrIdx rKeyIdx rAttrIdx = .error .typeErr := by
  unfold tokenCache
  have : (joinCellsOk lRows lAttrIdx && joinCellsOk rRows rAttrIdx) = false := by
    rw [Bool.and_eq_false_iff]
    by_cases h1 : StrCells lRows lAttrIdx
    · right
      exact Bool.eq_false_iff.2 (fun h2 => h ⟨h1, (joinCellsOk_iff _ _).1 h2⟩)
    · left
      exact Bool.eq_false_iff.2 (fun h2 => h1 ((joinCellsOk_iff _ _).1 h2))
  simp only [if_true, this, Bool.false_eq_true, if_false]

/-- `apply_matcher` with a tokenizer, a non-empty candset and the token cache switched on
    (`len(ltable) + len(rtable) < 2·len(candset)`): a present non-string value ANYWHERE in one of the two match columns
    (referenced by the candset or not) makes `generate_tokens` raise TypeError -/
theorem applyMatcher_cache_typeErr (a : MatcherArgs) (tk : TokObj) (toks : TokFn) (sim : SimArg → SimArg → PyV)
    (cpu : Int) (c l r : Frame) (hv : validateMatcher a (some tk) = .ok (c, l, r))
    (hne : c.rows ≠ []) (hsmall : l.rows.length + r.rows.length < c.rows.length * 2)
    (hns : ¬ (Props.StrColumn l a.lAttr ∧ Props.StrColumn r a.rAttr)) :
    applyMatcher a (some tk) toks sim cpu = .error .typeErr := by
  rw [applyMatcher_eq, hv]
  change matcherBody a (some tk) toks sim cpu c l r = .error .typeErr
  unfold matcherBody
  rw [if_neg (by intro h; rw [List.isEmpty_iff] at h; exact hne h)]
  have hc : tokenCache (Option.map (fun tk => toks tk.returnSet) (some tk))
      (decide (l.rows.length + r.rows.length < c.rows.length * 2))
      (matcherLRows a l) (matcherRRows a r) ((matcherLProj a).idxOf a.lKey) ((matcherLProj a).idxOf a.lAttr)
      ((matcherRProj a).idxOf a.rKey) ((matcherRProj a).idxOf a.rAttr) = .error .typeErr := by
    rw [decide_eq_true hsmall]
    exact tokenCache_typeErr _ _ _ _ _ _ _
      (fun h => hns ⟨strColumn_of_matcherLRows a l h.1, strColumn_of_matcherRRows a r h.2⟩)
  exact congrArg (fun x => x >>= _) hc

/-! ## 5. `filter_candset`: the validation block as one function -/

/-- the validations at the top of `Filter.filter_candset`, in code order; returns (candset, ltable, rtable) -/
def validateCandset (a : CandsetArgs) : Except PyErr (Frame × Frame × Frame) := do
  let c ← validateInputTable a.candset
  validateAttr a.candLKey c
  validateAttr a.candRKey c
  let l ← validateInputTable a.ltable
  let r ← validateInputTable a.rtable
  validateAttr a.lKey l
  validateAttr a.rKey r
  validateAttr a.lAttr l
  validateAttr a.rAttr r
  validateAttrType a.lAttr l
  validateAttrType a.rAttr r
  validateKeyAttr a.lKey l
  validateKeyAttr a.rKey r
  return (c, l, r)

/-- what `filter_candset` does after its validations (verbatim) -/
def candsetBody (a : CandsetArgs) (fp : Cell → Cell → Except PyErr Bool) (cpu : Int) (c l r : Frame) : Except PyErr Frame := do
  if c.rows.isEmpty then return c else
  let lRows := l.rows.map (fun row => [row.cell (l.colIdx a.lKey), row.cell (l.colIdx a.lAttr)])
  let rRows := r.rows.map (fun row => [row.cell (r.colIdx a.rKey), row.cell (r.colIdx a.rAttr)])
  let lProj := [a.lKey, a.lAttr]
  let rProj := [a.rKey, a.rAttr]
  let lDict := buildDict lRows (lProj.idxOf a.lKey)
  let rDict := buildDict rRows (rProj.idxOf a.rKey)
  let li := c.colIdx a.candLKey
  let ri := c.colIdx a.candRKey
  let labelled := c.rows.zip (c.index ++ List.replicate (c.rows.length - c.index.length) Cell.missing)
  let chunks ← (chunksFor labelled a.nJobs cpu).mapM (fun ch =>
    ch.filterMapM (fun ((cr, lab) : Row × Cell) => do
      let lRow ← match Dict.getPy? lDict (cr.cell li) with | some x => pure x | none => throw PyErr.other
      let rRow ← match Dict.getPy? rDict (cr.cell ri) with | some x => pure x | none => throw PyErr.other
      let drop ← fp (lRow.cell (lProj.idxOf a.lAttr)) (rRow.cell (rProj.idxOf a.rAttr))
      pure (if !drop then some (cr, lab) else none)))
  let kept := chunks.flatten
  return { c with index := kept.map (·.2), rows := kept.map (·.1) }

theorem filterCandset_eq (a : CandsetArgs) (fp : Cell → Cell → Except PyErr Bool) (cpu : Int) :
    filterCandset a fp cpu = validateCandset a >>= fun p => candsetBody a fp cpu p.1 p.2.1 p.2.2 := by
  unfold filterCandset validateCandset
  simp only [bind_assoc, pure_bind]
  rfl

/-- a `mapM` that succeeds still succeeds, with the same result, for any function that succeeds wherever
    the first one does -/
theorem except_mapM_mono {ε α β : Type} (f g : α → Except ε β) (l : List α)
    (h : ∀ x ∈ l, ∀ y, f x = .ok y → g x = .ok y) (ys : List β) (hf : l.mapM f = .ok ys) : l.mapM g = .ok ys := by
  induction l generalizing ys with
  | nil => exact hf
  | cons x l ih =>
    rw [except_mapM_cons] at hf ⊢
    cases hx : f x with
    | error e => rw [hx] at hf; cases hf
    | ok y =>
      rw [hx] at hf
      rw [h x List.mem_cons_self y hx]
      cases hl : l.mapM f with
      | error e => rw [hl] at hf; cases hf
      | ok zs =>
        rw [hl] at hf
        rw [ih (fun z hz => h z (List.mem_cons_of_mem _ hz)) zs hl]
        exact hf

/-- one candidate row of `filter_candset` (verbatim) -/
def candsetStep (a : CandsetArgs) (fp : Cell → Cell → Except PyErr Bool) (c l r : Frame) :
    Row × Cell → Except PyErr (Option (Row × Cell)) :=
  fun ((cr, lab) : Row × Cell) => do
    let lRow ← match Dict.getPy? (buildDict (l.rows.map (fun row => [row.cell (l.colIdx a.lKey), row.cell (l.colIdx a.lAttr)]))
        ([a.lKey, a.lAttr].idxOf a.lKey)) (cr.cell (c.colIdx a.candLKey)) with
      | some x => pure x | none => throw PyErr.other
    let rRow ← match Dict.getPy? (buildDict (r.rows.map (fun row => [row.cell (r.colIdx a.rKey), row.cell (r.colIdx a.rAttr)]))
        ([a.rKey, a.rAttr].idxOf a.rKey)) (cr.cell (c.colIdx a.candRKey)) with
      | some x => pure x | none => throw PyErr.other
    let drop ← fp (lRow.cell ([a.lKey, a.lAttr].idxOf a.lAttr)) (rRow.cell ([a.rKey, a.rAttr].idxOf a.rAttr))
    pure (if !drop then some (cr, lab) else none)

theorem candsetBody_eq (a : CandsetArgs) (fp : Cell → Cell → Except PyErr Bool) (cpu : Int) (c l r : Frame) :
    candsetBody a fp cpu c l r =
      if c.rows.isEmpty then .ok c else
        (chunksFor (candLabelled c) a.nJobs cpu).mapM (fun ch => ch.filterMapM (candsetStep a fp c l r)) >>= fun chunks =>
          .ok { c with index := chunks.flatten.map (·.2), rows := chunks.flatten.map (·.1) } := rfl

theorem candsetStep_mono (a : CandsetArgs) (fp : Cell → Cell → Except PyErr Bool) (fpb : Cell → Cell → Bool)
    (hfp : ∀ x y b, fp x y = .ok b → b = fpb x y) (c l r : Frame) (x : Row × Cell) (y : Option (Row × Cell))
    (h : candsetStep a fp c l r x = .ok y) : candsetStep a (fun x y => .ok (fpb x y)) c l r x = .ok y := by
  obtain ⟨cr, lab⟩ := x
  unfold candsetStep at h ⊢
  dsimp only at h ⊢
  cases h1 : Dict.getPy? (buildDict (l.rows.map (fun row => [row.cell (l.colIdx a.lKey), row.cell (l.colIdx a.lAttr)]))
      ([a.lKey, a.lAttr].idxOf a.lKey)) (cr.cell (c.colIdx a.candLKey)) with
  | none => rw [h1] at h; cases h
  | some lRow =>
    rw [h1] at h
    cases h2 : Dict.getPy? (buildDict (r.rows.map (fun row => [row.cell (r.colIdx a.rKey), row.cell (r.colIdx a.rAttr)]))
        ([a.rKey, a.rAttr].idxOf a.rKey)) (cr.cell (c.colIdx a.candRKey)) with
    | none => rw [h2] at h; cases h
    | some rRow =>
      rw [h2] at h
      cases h3 : fp (lRow.cell ([a.lKey, a.lAttr].idxOf a.lAttr)) (rRow.cell ([a.rKey, a.rAttr].idxOf a.rAttr)) with
      | error e => simp only [h3, pure_bind] at h; cases h
      | ok b =>
        have hb := hfp _ _ _ h3
        simp only [h3, pure_bind] at h
        simp only [pure_bind]
        rw [← hb]
        exact h

/-- MONOTONICITY in the `filter_pair`: if the call with `fp` returns a frame and every answer of `fp` agrees with
    the total function `fpb`, the call with the never-raising `fpb` returns the same frame -/
theorem filterCandset_ok_pure (a : CandsetArgs) (fp : Cell → Cell → Except PyErr Bool) (fpb : Cell → Cell → Bool)
    (hfp : ∀ x y b, fp x y = .ok b → b = fpb x y) (cpu : Int) (fr : Frame)
    (h : filterCandset a fp cpu = .ok fr) : filterCandset a (fun x y => .ok (fpb x y)) cpu = .ok fr := by
  rw [filterCandset_eq] at h ⊢
  cases hv : validateCandset a with
  | error e => rw [hv] at h; cases h
  | ok p =>
    rw [hv] at h
    obtain ⟨c, l, r⟩ := p
    change candsetBody a fp cpu c l r = .ok fr at h
    change candsetBody a (fun x y => .ok (fpb x y)) cpu c l r = .ok fr
    rw [candsetBody_eq] at h ⊢
    by_cases hemp : c.rows.isEmpty = true
    · rw [if_pos hemp] at h ⊢; exact h
    · rw [if_neg hemp] at h ⊢
      obtain ⟨chunks, hch, hret⟩ := (except_bind_eq_ok_iff _ _ _).1 h
      refine (except_bind_eq_ok_iff _ _ _).2 ⟨chunks, ?_, hret⟩
      refine except_mapM_mono _ _ _ (fun ch _ ys hys => ?_) _ hch
      rw [except_filterMapM_eq] at hys ⊢
      cases hm : ch.mapM (candsetStep a fp c l r) with
      | error e => rw [hm] at hys; cases hys
      | ok zs =>
        rw [hm] at hys
        rw [except_mapM_mono _ _ ch (fun x _ y hy => candsetStep_mono a fp fpb hfp c l r x y hy) zs hm]
        exact hys

theorem filterCandset_reject (a : CandsetArgs) (fp : Cell → Cell → Except PyErr Bool) (cpu : Int) (e : PyErr)
    (h : validateCandset a = .error e) : filterCandset a fp cpu = .error e := by
  rw [filterCandset_eq, h]
  rfl

/-- the checks of `validateCandset` after the `isinstance` tests and the candset-attribute tests -/
def candsetCascade (a : CandsetArgs) (c l r : Frame) : Except PyErr (Frame × Frame × Frame) :=
  if !l.hasCol a.lKey then .error .assertion
  else if !r.hasCol a.rKey then .error .assertion
  else if !l.hasCol a.lAttr then .error .assertion
  else if !r.hasCol a.rAttr then .error .assertion
  else if (l.dtype a.lAttr != "object" && l.dtype a.lAttr != "str") then .error .assertion
  else if (r.dtype a.rAttr != "object" && r.dtype a.rAttr != "str") then .error .assertion
  else if !keyTest l a.lKey then .error .assertion
  else if !keyTest r a.rKey then .error .assertion
  else .ok (c, l, r)

theorem validateCandset_none (a : CandsetArgs) (h : a.candset = none) : validateCandset a = .error .typeErr := by
  unfold validateCandset validateInputTable
  rw [h]
  rfl

theorem validateCandset_some (a : CandsetArgs) (c : Frame) (hc : a.candset = some c) :
    validateCandset a =
      if !c.hasCol a.candLKey then .error .assertion
      else if !c.hasCol a.candRKey then .error .assertion
      else match a.ltable, a.rtable with
        | some l, some r => candsetCascade a c l r
        | _, _ => .error .typeErr := by
  unfold validateCandset candsetCascade
  simp only [hc, validateInputTable, validateAttr, validateAttrType, validateKeyAttr_eq,
    except_ok_bind, raiseIf_bind]
  generalize c.hasCol a.candLKey = b1
  generalize c.hasCol a.candRKey = b2
  cases b1
  · rfl
  cases b2
  · rfl
  cases a.ltable with
  | none => rfl
  | some l =>
    cases a.rtable with
    | none => rfl
    | some r =>
      simp only [except_ok_bind]
      rfl

theorem validateCandset_cand_attr (a : CandsetArgs) (c : Frame) (hc : a.candset = some c)
    (h : c.hasCol a.candLKey = false ∨ c.hasCol a.candRKey = false) :
    validateCandset a = .error .assertion := by
  rw [validateCandset_some a c hc]
  rcases h with h | h
  · rw [h]; rfl
  · rw [h]
    cases c.hasCol a.candLKey <;> rfl

theorem validateCandset_table_none (a : CandsetArgs) (c : Frame) (hc : a.candset = some c)
    (h1 : c.hasCol a.candLKey = true) (h2 : c.hasCol a.candRKey = true)
    (h : a.ltable = none ∨ a.rtable = none) :
    validateCandset a = .error .typeErr := by
  rw [validateCandset_some a c hc, h1, h2]
  rcases h with h | h
  · rw [h]; rfl
  · rw [h]
    cases a.ltable <;> rfl

theorem validateCandset_tables (a : CandsetArgs) (c l r : Frame) (hc : a.candset = some c)
    (hl : a.ltable = some l) (hr : a.rtable = some r)
    (h1 : c.hasCol a.candLKey = true) (h2 : c.hasCol a.candRKey = true) :
    validateCandset a = candsetCascade a c l r := by
  rw [validateCandset_some a c hc, h1, h2, hl, hr]
  rfl

theorem candsetCascade_error_kind (a : CandsetArgs) (c l r : Frame) (e : PyErr)
    (h : candsetCascade a c l r = .error e) : e = .typeErr ∨ e = .assertion := by
  unfold candsetCascade at h
  split_ifs at h <;> cases h <;> simp

/-- the arguments of a `filter_candset` call are valid (documented preconditions) -/
structure CandsetValid (a : CandsetArgs) (c l r : Frame) : Prop where
  candset : a.candset = some c
  ltable : a.ltable = some l
  rtable : a.rtable = some r
  candLKey : c.hasCol a.candLKey = true
  candRKey : c.hasCol a.candRKey = true
  lKey : l.hasCol a.lKey = true
  rKey : r.hasCol a.rKey = true
  lAttr : l.hasCol a.lAttr = true
  rAttr : r.hasCol a.rAttr = true
  lType : l.dtype a.lAttr = "object" ∨ l.dtype a.lAttr = "str"
  rType : r.dtype a.rAttr = "object" ∨ r.dtype a.rAttr = "str"
  lKeyValid : KeyValid l a.lKey
  rKeyValid : KeyValid r a.rKey

theorem validateCandset_ok_tables (a : CandsetArgs) (c l r : Frame) (h : validateCandset a = .ok (c, l, r)) :
    a.candset = some c ∧ a.ltable = some l ∧ a.rtable = some r ∧
      c.hasCol a.candLKey = true ∧ c.hasCol a.candRKey = true ∧ candsetCascade a c l r = .ok (c, l, r) := by
  cases hc : a.candset with
  | none => rw [validateCandset_none a hc] at h; cases h
  | some c' =>
    cases h1 : c'.hasCol a.candLKey with
    | false => rw [validateCandset_cand_attr a c' hc (Or.inl h1)] at h; cases h
    | true =>
      cases h2 : c'.hasCol a.candRKey with
      | false => rw [validateCandset_cand_attr a c' hc (Or.inr h2)] at h; cases h
      | true =>
        cases hl : a.ltable with
        | none => rw [validateCandset_table_none a c' hc h1 h2 (Or.inl hl)] at h; cases h
        | some l' =>
          cases hr : a.rtable with
          | none => rw [validateCandset_table_none a c' hc h1 h2 (Or.inr hr)] at h; cases h
          | some r' =>
            rw [validateCandset_tables a c' l' r' hc hl hr h1 h2] at h
            have h' := h
            unfold candsetCascade at h'
            split_ifs at h'
            simp only [Except.ok.injEq, Prod.mk.injEq] at h'
            obtain ⟨rfl, rfl, rfl⟩ := h'
            exact ⟨rfl, rfl, rfl, h1, h2, h⟩

/-- COMPLETE CHARACTERISATION of acceptance by `filter_candset`'s validation block -/
theorem validateCandset_ok_iff (a : CandsetArgs) (c l r : Frame) :
    validateCandset a = .ok (c, l, r) ↔ CandsetValid a c l r := by
  constructor
  · intro h
    obtain ⟨hc, hl, hr, h1, h2, h⟩ := validateCandset_ok_tables a c l r h
    unfold candsetCascade at h
    split_ifs at h with h3 h4 h5 h6 h7 h8 h9 h10
    refine ⟨hc, hl, hr, h1, h2, by simpa using h3, by simpa using h4,
      by simpa using h5, by simpa using h6, ?_, ?_,
      (keyTest_iff _ _).1 (by simpa using h9), (keyTest_iff _ _).1 (by simpa using h10)⟩
    · simp at h7; tauto
    · simp at h8; tauto
  · intro h
    rw [validateCandset_tables a c l r h.candset h.ltable h.rtable h.candLKey h.candRKey]
    have h7 : (l.dtype a.lAttr != "object" && l.dtype a.lAttr != "str") = false := by
      rcases h.lType with h' | h' <;> simp [h']
    have h8 : (r.dtype a.rAttr != "object" && r.dtype a.rAttr != "str") = false := by
      rcases h.rType with h' | h' <;> simp [h']
    have h9 := (keyTest_iff _ _).2 h.lKeyValid
    have h10 := (keyTest_iff _ _).2 h.rKeyValid
    unfold candsetCascade
    simp only [h.lKey, h.rKey, h.lAttr, h.rAttr, h7, h8, h9, h10, Bool.not_true, Bool.false_eq_true, if_false]

/-- a rejected `filter_candset` call is rejected with TypeError or AssertionError -/
theorem validateCandset_error_kind (a : CandsetArgs) (e : PyErr)
    (h : validateCandset a = .error e) : e = .typeErr ∨ e = .assertion := by
  cases hc : a.candset with
  | none => rw [validateCandset_none a hc] at h; cases h; exact Or.inl rfl
  | some c' =>
    cases h1 : c'.hasCol a.candLKey with
    | false => rw [validateCandset_cand_attr a c' hc (Or.inl h1)] at h; cases h; exact Or.inr rfl
    | true =>
      cases h2 : c'.hasCol a.candRKey with
      | false => rw [validateCandset_cand_attr a c' hc (Or.inr h2)] at h; cases h; exact Or.inr rfl
      | true =>
        cases hl : a.ltable with
        | none => rw [validateCandset_table_none a c' hc h1 h2 (Or.inl hl)] at h; cases h; exact Or.inl rfl
        | some l' =>
          cases hr : a.rtable with
          | none => rw [validateCandset_table_none a c' hc h1 h2 (Or.inr hr)] at h; cases h; exact Or.inl rfl
          | some r' =>
            rw [validateCandset_tables a c' l' r' hc hl hr h1 h2] at h
            exact candsetCascade_error_kind _ _ _ _ _ h

theorem candLabelled_length (c : Frame) : (candLabelled c).length = c.rows.length := by
  rw [← candLabelled_map_fst c, List.length_map]

/-- totality (and rows) of `filter_candset` on validated arguments, candidate keys present (`PyMem`: up to
    Python equality), `< 2⁴⁰` rows -/
theorem filterCandset_total (a : CandsetArgs) (fp : Cell → Cell → Except PyErr Bool) (cpu : Int) (c l r : Frame)
    (hv : validateCandset a = .ok (c, l, r))
    (hl : ∀ cr ∈ c.rows, PyMem (cr.cell (c.colIdx a.candLKey)) (l.col a.lKey))
    (hr : ∀ cr ∈ c.rows, PyMem (cr.cell (c.colIdx a.candRKey)) (r.col a.rKey))
    (hlen : c.rows.length < 2 ^ 40)
    (hfp : ∀ ls ∈ l.rows, ∀ rs ∈ r.rows, ∃ b, fp (ls.cell (l.colIdx a.lAttr)) (rs.cell (r.colIdx a.rAttr)) = .ok b) :
    ∃ f, filterCandset a fp cpu = .ok f ∧ f.columns = c.columns ∧ f.dtypes = c.dtypes ∧
      f.rows.Sublist c.rows := by
  have hV := (validateCandset_ok_iff a c l r).1 hv
  let lval : Row → Cell := fun cr =>
    match l.rows.find? (fun s => (s.cell (l.colIdx a.lKey)).pyEq (cr.cell (c.colIdx a.candLKey))) with
    | some s => s.cell (l.colIdx a.lAttr)
    | none => .missing
  let rval : Row → Cell := fun cr =>
    match r.rows.find? (fun s => (s.cell (r.colIdx a.rKey)).pyEq (cr.cell (c.colIdx a.candRKey))) with
    | some s => s.cell (r.colIdx a.rAttr)
    | none => .missing
  have hl' : ∀ cr ∈ c.rows, ∃ row ∈ l.rows, (row.cell (l.colIdx a.lKey)).pyEq (cr.cell (c.colIdx a.candLKey)) = true ∧
      row.cell (l.colIdx a.lAttr) = lval cr := by
    intro cr hcr
    obtain ⟨k0, hk0m, hk0⟩ := hl cr hcr
    obtain ⟨s0, hs0, rfl⟩ := List.mem_map.1 hk0m
    cases hf : l.rows.find? (fun s => (s.cell (l.colIdx a.lKey)).pyEq (cr.cell (c.colIdx a.candLKey))) with
    | none =>
      exact absurd hk0 (List.find?_eq_none.1 hf s0 hs0)
    | some s =>
      refine ⟨s, List.mem_of_find?_eq_some hf,
        List.find?_some (p := fun s : Row => (s.cell (l.colIdx a.lKey)).pyEq (cr.cell (c.colIdx a.candLKey))) hf, ?_⟩
      show _ = (match l.rows.find? _ with | some s => _ | none => _)
      rw [hf]
  have hr' : ∀ cr ∈ c.rows, ∃ row ∈ r.rows, (row.cell (r.colIdx a.rKey)).pyEq (cr.cell (c.colIdx a.candRKey)) = true ∧
      row.cell (r.colIdx a.rAttr) = rval cr := by
    intro cr hcr
    obtain ⟨k0, hk0m, hk0⟩ := hr cr hcr
    obtain ⟨s0, hs0, rfl⟩ := List.mem_map.1 hk0m
    cases hf : r.rows.find? (fun s => (s.cell (r.colIdx a.rKey)).pyEq (cr.cell (c.colIdx a.candRKey))) with
    | none =>
      exact absurd hk0 (List.find?_eq_none.1 hf s0 hs0)
    | some s =>
      refine ⟨s, List.mem_of_find?_eq_some hf,
        List.find?_some (p := fun s : Row => (s.cell (r.colIdx a.rKey)).pyEq (cr.cell (c.colIdx a.candRKey))) hf, ?_⟩
      show _ = (match r.rows.find? _ with | some s => _ | none => _)
      rw [hf]
  have hok : ∀ (x : String) (f : Frame), f.hasCol x = true → validateAttr x f = .ok () := by
    intro x f h; simp [validateAttr, raiseIf, h]
  have ht1 : validateAttrType a.lAttr l = .ok () := by
    rcases hV.lType with h' | h' <;> simp [validateAttrType, raiseIf, h']
  have ht2 : validateAttrType a.rAttr r = .ok () := by
    rcases hV.rType with h' | h' <;> simp [validateAttrType, raiseIf, h']
  have hk1 : validateKeyAttr a.lKey l = .ok () := by
    rw [validateKeyAttr_eq, (keyTest_iff _ _).2 hV.lKeyValid]; rfl
  have hk2 : validateKeyAttr a.rKey r = .ok () := by
    rw [validateKeyAttr_eq, (keyTest_iff _ _).2 hV.rKeyValid]; rfl
  let fpb : Cell → Cell → Bool := fun x y => match fp x y with | .ok b => b | .error _ => false
  have hfp' : ∀ cr ∈ c.rows, fp (lval cr) (rval cr) = .ok (fpb (lval cr) (rval cr)) := by
    intro cr hcr
    obtain ⟨ls, hls, -, hlv⟩ := hl' cr hcr
    obtain ⟨rs, hrs, -, hrv⟩ := hr' cr hcr
    obtain ⟨b, hb⟩ := hfp ls hls rs hrs
    rw [hlv, hrv] at hb
    show _ = Except.ok (match fp (lval cr) (rval cr) with | .ok b => b | .error _ => false)
    rw [hb]
  obtain ⟨f, hf, hc1, hc2, hrows⟩ := filterCandset_rows a fp fpb cpu c l r hV.candset hV.ltable hV.rtable
    (hok _ _ hV.candLKey) (hok _ _ hV.candRKey) (hok _ _ hV.lKey) (hok _ _ hV.rKey) (hok _ _ hV.lAttr) (hok _ _ hV.rAttr)
    ht1 ht2 hk1 hk2 lval rval hl' hr' hfp'
    (chunksFor_flatten _ _ _ (by rw [candLabelled_length]; exact hlen))
  exact ⟨f, hf, hc1, hc2, by rw [hrows]; exact List.filter_sublist⟩

/-! ## 6. `filter_candset` when `filter_pair` raises -/

theorem except_mapM_error_inv {ε α β : Type} (f : α → Except ε β) (l : List α) (e : ε) (h : l.mapM f = .error e) :
    ∃ x ∈ l, f x = .error e := by
  induction l with
  | nil => cases h
  | cons x l ih =>
    rw [except_mapM_cons] at h
    cases hx : f x with
    | error e' =>
      rw [hx] at h
      cases h
      exact ⟨x, List.mem_cons_self, hx⟩
    | ok y =>
      rw [hx] at h
      cases hl : l.mapM f with
      | error e' =>
        rw [hl] at h
        cases h
        obtain ⟨z, hz, hfz⟩ := ih hl
        exact ⟨z, List.mem_cons_of_mem _ hz, hfz⟩
      | ok ys => rw [hl] at h; cases h

theorem except_mapM_error_of_mem {ε α β : Type} (f : α → Except ε β) (l : List α) (x : α) (hx : x ∈ l) (e : ε)
    (h : f x = .error e) : ∃ e', l.mapM f = .error e' := by
  cases hm : l.mapM f with
  | error e' => exact ⟨e', rfl⟩
  | ok ys =>
    have := except_mapM_ok_inv f l ys hm x hx
    obtain ⟨y, hy⟩ := this
    rw [h] at hy
    cases hy
where
  except_mapM_ok_inv {ε α β : Type} (f : α → Except ε β) (l : List α) (ys : List β) (h : l.mapM f = .ok ys) :
      ∀ x ∈ l, ∃ y, f x = .ok y := by
    induction l generalizing ys with
    | nil => intro x hx; cases hx
    | cons z l ih =>
      rw [except_mapM_cons] at h
      cases hz : f z with
      | error e => rw [hz] at h; cases h
      | ok y =>
        rw [hz] at h
        cases hl : l.mapM f with
        | error e => rw [hl] at h; cases h
        | ok zs =>
          intro x hx
          rcases List.mem_cons.1 hx with rfl | hx
          · exact ⟨y, hz⟩
          · exact ih zs hl x hx

/-- one candidate row whose two keys resolve: the step is `filter_pair` on the two referenced values -/
theorem candsetStep_of_lookup (a : CandsetArgs) (fp : Cell → Cell → Except PyErr Bool) (c l r : Frame)
    (hkl : PyDistinct (l.col a.lKey)) (hkr : PyDistinct (r.col a.rKey)) (x : Row × Cell) (ls rs : Row)
    (hls : ls ∈ l.rows) (hrs : rs ∈ r.rows)
    (h1 : (ls.cell (l.colIdx a.lKey)).pyEq (x.1.cell (c.colIdx a.candLKey)) = true)
    (h2 : (rs.cell (r.colIdx a.rKey)).pyEq (x.1.cell (c.colIdx a.candRKey)) = true) :
    candsetStep a fp c l r x =
      (fp (ls.cell (l.colIdx a.lAttr)) (rs.cell (r.colIdx a.rAttr)) >>= fun drop =>
        pure (if !drop then some x else none)) := by
  obtain ⟨cr, lab⟩ := x
  obtain ⟨pl, hpl1, hpl2⟩ := candset_lookup l a.lKey a.lAttr _ _ hkl ⟨ls, hls, h1, rfl⟩
  obtain ⟨pr, hpr1, hpr2⟩ := candset_lookup r a.rKey a.rAttr _ _ hkr ⟨rs, hrs, h2, rfl⟩
  unfold candsetStep
  simp only [hpl1, hpr1, hpl2, hpr2, pure_bind]

/-- `filter_candset` RAISES `e` when the arguments are valid, every candidate key resolves, `filter_pair` raises `e` on
    the pair of values some candidate row references, and `e` is the only exception `filter_pair` raises
    (for `filterPairPy` / `overlapFilterPairPy`: TypeError) -/
theorem filterCandset_raises (a : CandsetArgs) (fp : Cell → Cell → Except PyErr Bool) (cpu : Int) (c l r : Frame)
    (hv : validateCandset a = .ok (c, l, r))
    (hl : ∀ cr ∈ c.rows, PyMem (cr.cell (c.colIdx a.candLKey)) (l.col a.lKey))
    (hr : ∀ cr ∈ c.rows, PyMem (cr.cell (c.colIdx a.candRKey)) (r.col a.rKey))
    (hlen : c.rows.length < 2 ^ 40) (e : PyErr)
    (honly : ∀ x y e', fp x y = .error e' → e' = e)
    (hex : ∃ cr ∈ c.rows, ∃ ls ∈ l.rows, ∃ rs ∈ r.rows,
      (ls.cell (l.colIdx a.lKey)).pyEq (cr.cell (c.colIdx a.candLKey)) = true ∧
      (rs.cell (r.colIdx a.rKey)).pyEq (cr.cell (c.colIdx a.candRKey)) = true ∧
      fp (ls.cell (l.colIdx a.lAttr)) (rs.cell (r.colIdx a.rAttr)) = .error e) :
    filterCandset a fp cpu = .error e := by
  have hV := (validateCandset_ok_iff a c l r).1 hv
  have hkl : PyDistinct (l.col a.lKey) := hV.lKeyValid.1
  have hkr : PyDistinct (r.col a.rKey) := hV.rKeyValid.1
  have hflat : (chunksFor (candLabelled c) a.nJobs cpu).flatten = candLabelled c :=
    chunksFor_flatten _ _ _ (by rw [candLabelled_length]; exact hlen)
  have hmemc : ∀ ch ∈ chunksFor (candLabelled c) a.nJobs cpu, ∀ x ∈ ch, x.1 ∈ c.rows := by
    intro ch hch x hx
    have : x ∈ candLabelled c := by rw [← hflat]; exact List.mem_flatten.2 ⟨ch, hch, hx⟩
    exact (List.of_mem_zip (a := x.1) (b := x.2) this).1
  obtain ⟨cr, hcr, ls, hls, rs, hrs, h1, h2, hfe⟩ := hex
  rw [filterCandset_eq, hv]
  change candsetBody a fp cpu c l r = .error e
  rw [candsetBody_eq, if_neg (by intro h; rw [List.isEmpty_iff] at h; rw [h] at hcr; cases hcr)]
  have key : (chunksFor (candLabelled c) a.nJobs cpu).mapM (fun ch => ch.filterMapM (candsetStep a fp c l r)) = .error e := by
    apply except_mapM_error
    · intro ch hch e' he'
      rw [except_filterMapM_eq] at he'
      cases hm : ch.mapM (candsetStep a fp c l r) with
      | ok ys => rw [hm] at he'; cases he'
      | error e'' =>
        rw [hm] at he'
        cases he'
        obtain ⟨x, hx, hfx⟩ := except_mapM_error_inv _ _ _ hm
        have hxc := hmemc ch hch x hx
        obtain ⟨kl', hkl', hk1⟩ := hl x.1 hxc
        obtain ⟨ls', hls', rfl⟩ := List.mem_map.1 hkl'
        obtain ⟨kr', hkr', hk2⟩ := hr x.1 hxc
        obtain ⟨rs', hrs', rfl⟩ := List.mem_map.1 hkr'
        rw [candsetStep_of_lookup a fp c l r hkl hkr x ls' rs' hls' hrs' hk1 hk2] at hfx
        cases hf : fp (ls'.cell (l.colIdx a.lAttr)) (rs'.cell (r.colIdx a.rAttr)) with
        | ok b => rw [hf] at hfx; cases hfx
        | error e3 =>
          rw [hf] at hfx
          cases hfx
          exact honly _ _ _ hf
    · -- the chunk holding the offending candidate row fails
      have hx0 : ∃ x ∈ candLabelled c, x.1 = cr := by
        have : cr ∈ (candLabelled c).map Prod.fst := by rw [candLabelled_map_fst]; exact hcr
        obtain ⟨x, hx, hxe⟩ := List.mem_map.1 this
        exact ⟨x, hx, hxe⟩
      obtain ⟨x, hx, hxe⟩ := hx0
      rw [← hflat] at hx
      obtain ⟨ch, hch, hxch⟩ := List.mem_flatten.1 hx
      have hstep : candsetStep a fp c l r x = .error e := by
        rw [candsetStep_of_lookup a fp c l r hkl hkr x ls rs hls hrs (by rw [hxe]; exact h1) (by rw [hxe]; exact h2), hfe]
        rfl
      obtain ⟨e', he'⟩ := except_mapM_error_of_mem _ ch x hxch e hstep
      refine ⟨ch, hch, e', ?_⟩
      rw [except_filterMapM_eq, he']
      rfl
  rw [key]
  rfl

/-! ## 7. `apply_matcher` without the token cache when a referenced value is not a string -/

/-- `apply_matcher` with a tokenizer and WITHOUT the token cache (`len(ltable) + len(rtable) ≥ 2·len(candset)`): valid
    arguments, every candidate key present in its table, and a candidate row referencing two PRESENT values one of which
    is not a string ⇒ TypeError (values that no candidate row references are never tokenized on this path). -/
theorem applyMatcher_nocache_typeErr (a : MatcherArgs) (tk : TokObj) (toks : TokFn) (sim : SimArg → SimArg → PyV)
    (cpu : Int) (c l r : Frame) (hv : validateMatcher a (some tk) = .ok (c, l, r))
    (hl : ∀ cr ∈ c.rows, PyMem (cr.cell (c.colIdx a.candLKey)) (l.col a.lKey))
    (hr : ∀ cr ∈ c.rows, PyMem (cr.cell (c.colIdx a.candRKey)) (r.col a.rKey))
    (hlen : c.rows.length < 2 ^ 40)
    (hbig : ¬ (l.rows.length + r.rows.length < c.rows.length * 2))
    (hex : ∃ cr ∈ c.rows, ∃ ls ∈ l.rows, ∃ rs ∈ r.rows,
      (ls.cell (l.colIdx a.lKey)).pyEq (cr.cell (c.colIdx a.candLKey)) = true ∧
      (rs.cell (r.colIdx a.rKey)).pyEq (cr.cell (c.colIdx a.candRKey)) = true ∧
      (ls.cell (l.colIdx a.lAttr)).isMissing = false ∧ (rs.cell (r.colIdx a.rAttr)).isMissing = false ∧
      ¬ ((ls.cell (l.colIdx a.lAttr)).isStr = true ∧ (rs.cell (r.colIdx a.rAttr)).isStr = true)) :
    applyMatcher a (some tk) toks sim cpu = .error .typeErr := by
  have hV := (validateMatcher_ok_iff a (some tk) c l r).1 hv
  have hlk : PyDistinct ((matcherLRows a l).map (·.cell ((matcherLProj a).idxOf a.lKey))) := by
    rw [matcherLRows_keys]; exact hV.lKeyValid.1
  have hrk : PyDistinct ((matcherRRows a r).map (·.cell ((matcherRProj a).idxOf a.rKey))) := by
    rw [matcherRRows_keys]; exact hV.rKeyValid.1
  have hflat : (chunksFor c.rows a.nJobs cpu).flatten = c.rows := chunksFor_flatten _ _ _ hlen
  have hmem : ∀ ch ∈ chunksFor c.rows a.nJobs cpu, ∀ cr ∈ ch, cr ∈ c.rows := by
    intro ch hch cr hcr
    rw [← hflat]; exact List.mem_flatten.2 ⟨ch, hch, hcr⟩
  have hsomeL : ∀ cr ∈ c.rows, (Dict.getPy? (buildDict (matcherLRows a l) ((matcherLProj a).idxOf a.lKey))
      (cr.cell (c.colIdx a.candLKey))).isSome := by
    intro cr hcr
    apply buildDict_isSome_of_mem _ _ hlk
    rw [matcherLRows_keys]; exact hl cr hcr
  have hsomeR : ∀ cr ∈ c.rows, (Dict.getPy? (buildDict (matcherRRows a r) ((matcherRProj a).idxOf a.rKey))
      (cr.cell (c.colIdx a.candRKey))).isSome := by
    intro cr hcr
    apply buildDict_isSome_of_mem _ _ hrk
    rw [matcherRRows_keys]; exact hr cr hcr
  obtain ⟨cr0, hcr0, ls, hls, rs, hrs, hk1, hk2, hm1, hm2, hns⟩ := hex
  -- the per-chunk work, with the cache switched off
  let step : List Row → Except PyErr (List Row) := fun ch => do
    let rows ← applyMatcherSplit a (c.colIdx a.candLKey) (c.colIdx a.candRKey) (matcherLRows a l) (matcherRRows a r)
        ((matcherLProj a).idxOf a.lKey) ((matcherLProj a).idxOf a.lAttr)
        ((matcherRProj a).idxOf a.rKey) ((matcherRProj a).idxOf a.rAttr)
        (matcherOutCfg a) (some (toks tk.returnSet)) sim none ch
    mkRows rows (matcherHeader a)
  have key : (chunksFor c.rows a.nJobs cpu).mapM step = .error .typeErr := by
    apply except_mapM_error
    · intro ch hch e' he'
      show e' = PyErr.typeErr
      have he'' : (applyMatcherSplit a (c.colIdx a.candLKey) (c.colIdx a.candRKey) (matcherLRows a l) (matcherRRows a r)
          ((matcherLProj a).idxOf a.lKey) ((matcherLProj a).idxOf a.lAttr)
          ((matcherRProj a).idxOf a.rKey) ((matcherRProj a).idxOf a.rAttr)
          (matcherOutCfg a) (some (toks tk.returnSet)) sim none ch >>= fun rows => mkRows rows (matcherHeader a))
          = .error e' := he'
      rw [applyMatcherSplit_eq_mapM] at he''
      cases hm : ch.mapM (matcherRowM a (c.colIdx a.candLKey) (c.colIdx a.candRKey) (matcherLRows a l) (matcherRRows a r)
          ((matcherLProj a).idxOf a.lKey) ((matcherLProj a).idxOf a.lAttr)
          ((matcherRProj a).idxOf a.rKey) ((matcherRProj a).idxOf a.rAttr)
          (matcherOutCfg a) (some (toks tk.returnSet)) sim none) with
      | error e2 =>
        rw [hm] at he''
        cases he''
        obtain ⟨cr, hcr, hfx⟩ := except_mapM_error_inv _ _ _ hm
        exact matcherRowM_none_error _ _ _ _ _ _ _ _ _ _ _ _ _ _ (hsomeL cr (hmem ch hch cr hcr))
          (hsomeR cr (hmem ch hch cr hcr)) hfx
      | ok ys =>
        rw [hm] at he''
        exfalso
        have hw : ∀ row ∈ ys.filterMap id, row.length = (matcherHeader a).length := by
          intro row hrow
          obtain ⟨y, hy, hyr⟩ := List.mem_filterMap.1 hrow
          -- `y` is the outcome of some candidate row of the chunk
          have : ∀ (l' : List Row) (ys' : List (Option Row)), l'.mapM (matcherRowM a (c.colIdx a.candLKey)
              (c.colIdx a.candRKey) (matcherLRows a l) (matcherRRows a r)
              ((matcherLProj a).idxOf a.lKey) ((matcherLProj a).idxOf a.lAttr)
              ((matcherRProj a).idxOf a.rKey) ((matcherRProj a).idxOf a.rAttr)
              (matcherOutCfg a) (some (toks tk.returnSet)) sim none) = .ok ys' → ∀ y ∈ ys', ∃ cr ∈ l',
              matcherRowM a (c.colIdx a.candLKey) (c.colIdx a.candRKey) (matcherLRows a l) (matcherRRows a r)
              ((matcherLProj a).idxOf a.lKey) ((matcherLProj a).idxOf a.lAttr)
              ((matcherRProj a).idxOf a.rKey) ((matcherRProj a).idxOf a.rAttr)
              (matcherOutCfg a) (some (toks tk.returnSet)) sim none cr = .ok y := by
            intro l'
            induction l' with
            | nil => intro ys' h y hy; cases h; cases hy
            | cons x l' ih =>
              intro ys' h y hy
              rw [except_mapM_cons] at h
              cases hx : matcherRowM a (c.colIdx a.candLKey) (c.colIdx a.candRKey) (matcherLRows a l) (matcherRRows a r)
                  ((matcherLProj a).idxOf a.lKey) ((matcherLProj a).idxOf a.lAttr)
                  ((matcherRProj a).idxOf a.rKey) ((matcherRProj a).idxOf a.rAttr)
                  (matcherOutCfg a) (some (toks tk.returnSet)) sim none x with
              | error e => rw [hx] at h; cases h
              | ok y0 =>
                rw [hx] at h
                cases hl' : l'.mapM (matcherRowM a (c.colIdx a.candLKey) (c.colIdx a.candRKey) (matcherLRows a l)
                    (matcherRRows a r) ((matcherLProj a).idxOf a.lKey) ((matcherLProj a).idxOf a.lAttr)
                    ((matcherRProj a).idxOf a.rKey) ((matcherRProj a).idxOf a.rAttr)
                    (matcherOutCfg a) (some (toks tk.returnSet)) sim none) with
                | error e => rw [hl'] at h; cases h
                | ok zs =>
                  rw [hl'] at h
                  cases h
                  rcases List.mem_cons.1 hy with rfl | hy
                  · exact ⟨x, List.mem_cons_self, hx⟩
                  · obtain ⟨cr, hcr, h'⟩ := ih zs hl' y hy
                    exact ⟨cr, List.mem_cons_of_mem _ hcr, h'⟩
          obtain ⟨cr, -, hcr'⟩ := this ch ys hm y hy
          have hspec := matcherRowM_none_ok _ _ _ _ _ _ _ _ _ _ _ _ _ _ hcr'
          have hy' : y = some row := hyr
          rw [hy'] at hspec
          exact matcherTableSpec_length a (some tk) toks sim c l r cr row hspec.symm
        rw [show (Except.map (fun x => x.filterMap id) (Except.ok ys) : Except PyErr (List Row)) =
          .ok (ys.filterMap id) from rfl, except_ok_bind, mkRows_of_length _ _ hw] at he''
        cases he''
    · -- the chunk holding the offending candidate row fails
      rw [← hflat] at hcr0
      obtain ⟨ch, hch, hxch⟩ := List.mem_flatten.1 hcr0
      have hrow : matcherRowM a (c.colIdx a.candLKey) (c.colIdx a.candRKey) (matcherLRows a l) (matcherRRows a r)
          ((matcherLProj a).idxOf a.lKey) ((matcherLProj a).idxOf a.lAttr)
          ((matcherRProj a).idxOf a.rKey) ((matcherRProj a).idxOf a.rAttr)
          (matcherOutCfg a) (some (toks tk.returnSet)) sim none cr0 = .error .typeErr := by
        rw [matcherRowM_none]
        have hL : Dict.getPy? (buildDict (matcherLRows a l) ((matcherLProj a).idxOf a.lKey)) (cr0.cell (c.colIdx a.candLKey))
            = some (((matcherLProj a).map l.colIdx).map ls.cell) := by
          have hkc : Row.cell (((matcherLProj a).map l.colIdx).map ls.cell) ((matcherLProj a).idxOf a.lKey)
              = ls.cell (l.colIdx a.lKey) := (projection_faithful l a.lKey a.lAttr a.lOut ls).1
          exact buildDict_get (matcherLRows a l) ((matcherLProj a).idxOf a.lKey) hlk
            (((matcherLProj a).map l.colIdx).map ls.cell)
            (List.mem_map_of_mem (f := fun row : Row => ((matcherLProj a).map l.colIdx).map row.cell) hls) _
            (by rw [hkc]; exact hk1)
        have hR : Dict.getPy? (buildDict (matcherRRows a r) ((matcherRProj a).idxOf a.rKey)) (cr0.cell (c.colIdx a.candRKey))
            = some (((matcherRProj a).map r.colIdx).map rs.cell) := by
          have hkc : Row.cell (((matcherRProj a).map r.colIdx).map rs.cell) ((matcherRProj a).idxOf a.rKey)
              = rs.cell (r.colIdx a.rKey) := (projection_faithful r a.rKey a.rAttr a.rOut rs).1
          exact buildDict_get (matcherRRows a r) ((matcherRProj a).idxOf a.rKey) hrk
            (((matcherRProj a).map r.colIdx).map rs.cell)
            (List.mem_map_of_mem (f := fun row : Row => ((matcherRProj a).map r.colIdx).map row.cell) hrs) _
            (by rw [hkc]; exact hk2)
        rw [hL, hR]
        have e1 : Row.cell (((matcherLProj a).map l.colIdx).map ls.cell) ((matcherLProj a).idxOf a.lAttr)
            = ls.cell (l.colIdx a.lAttr) := (projection_faithful l a.lKey a.lAttr a.lOut ls).2.1
        have e2 : Row.cell (((matcherRProj a).map r.colIdx).map rs.cell) ((matcherRProj a).idxOf a.rAttr)
            = rs.cell (r.colIdx a.rAttr) := (projection_faithful r a.rKey a.rAttr a.rOut rs).2.1
        dsimp only
        rw [e1, e2, hm1, hm2, if_pos]
        cases h1 : (ls.cell (l.colIdx a.lAttr)).isStr <;> cases h2 : (rs.cell (r.colIdx a.rAttr)).isStr <;> simp_all
      obtain ⟨e', he'⟩ := except_mapM_error_of_mem _ ch cr0 hxch _ hrow
      refine ⟨ch, hch, e', ?_⟩
      show (applyMatcherSplit a (c.colIdx a.candLKey) (c.colIdx a.candRKey) (matcherLRows a l) (matcherRRows a r)
          ((matcherLProj a).idxOf a.lKey) ((matcherLProj a).idxOf a.lAttr)
          ((matcherRProj a).idxOf a.rKey) ((matcherRProj a).idxOf a.rAttr)
          (matcherOutCfg a) (some (toks tk.returnSet)) sim none ch >>= fun rows => mkRows rows (matcherHeader a))
          = .error e'
      rw [applyMatcherSplit_eq_mapM, he']
      rfl
  rw [applyMatcher_eq, hv]
  change matcherBody a (some tk) toks sim cpu c l r = .error .typeErr
  unfold matcherBody
  rw [if_neg (by intro h; rw [List.isEmpty_iff] at h; rw [h] at hcr0; cases hcr0)]
  have hc : tokenCache (Option.map (fun tk => toks tk.returnSet) (some tk))
      (decide (l.rows.length + r.rows.length < c.rows.length * 2))
      (matcherLRows a l) (matcherRRows a r) ((matcherLProj a).idxOf a.lKey) ((matcherLProj a).idxOf a.lAttr)
      ((matcherRProj a).idxOf a.rKey) ((matcherRProj a).idxOf a.rAttr) = .ok none := by
    rw [decide_eq_false hbig]; rfl
  refine Eq.trans (congrArg (fun x => x >>= _) hc) ?_
  rw [except_ok_bind]
  exact congrArg (fun x => x >>= _) key

end SSJ

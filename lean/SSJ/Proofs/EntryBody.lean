/-
  SSJ.Proofs.EntryBody — what the BODY of a join / `filter_tables` does once the argument validations have passed:
  the exact outcome of `runTables` (TypeError for a present non-string join value; else ValueError for an `_id` clash;
  else the frame), for every entry point (`TableCall`), and the tokenizer flag the five joins leave behind when the
  body raises (restored: `try … finally`).
-/
import SSJ.Proofs.EntryGeneric
import SSJ.Proofs.BodyOK

namespace SSJ
open Props

/-- EXACT OUTCOME of `runTables` for a `work` whose rows have the header's width: TypeError iff a present join value
    of either table is not a string; else ValueError iff the header already has an `_id` column; else the frame -/
theorem runTables_outcome (a : TableArgs) (l r : Frame) (am oss : Bool) (cpu : Int)
    (work : OutCfg → Nat → Nat → List Row → List Row → List Row)
    (hw : ∀ ch, ∀ row ∈ work (RT.out a) (RT.lAttrIdx a) (RT.rAttrIdx a) (RT.lArr a l) ch,
      row.length = (RT.header a oss).length) :
    runTables a l r am oss cpu work =
      if StrColumn l a.lAttr ∧ StrColumn r a.rAttr then
        if NoIdClash (outHeader a oss) then
          .ok (finish (RT.header a oss)
            ((chunksFor (RT.rArr a r) a.nJobs cpu).map (fun ch =>
              work (RT.out a) (RT.lAttrIdx a) (RT.rAttrIdx a) (RT.lArr a l) ch))
            (if am then some (RT.missingRows a l r oss) else none))
        else .error .other
      else .error .typeErr := by
  by_cases hs : StrColumn l a.lAttr ∧ StrColumn r a.rAttr
  · rw [if_pos hs]
    by_cases hc : NoIdClash (outHeader a oss)
    · rw [if_pos hc]; exact runTables_eq a l r am oss cpu work hw hs.1 hs.2 hc
    · rw [if_neg hc]; exact runTables_idClash a l r am oss cpu work (fun ch _ => hw ch) hs.1 hs.2 hc
  · rw [if_neg hs]; exact runTables_typeErr a l r am oss cpu work hs

/-- every entry point: a present non-string join value ⇒ TypeError -/
theorem TableCall.typeErr {call : Bool → Int → Int → Except PyErr Frame} {a : TableArgs} {l r : Frame} {oss : Bool}
    (h : TableCall call a l r oss) (hns : ¬ (StrColumn l a.lAttr ∧ StrColumn r a.rAttr)) (am : Bool) (nj cpu : Int) :
    call am nj cpu = .error .typeErr := by
  obtain ⟨_, _, work, _, hcall⟩ := h.normal
  rw [hcall]
  exact runTables_typeErr (a.withJobs nj) l r am oss cpu work hns

/-- every entry point: string join columns but an `_id` clash ⇒ ValueError -/
theorem TableCall.idClash {call : Bool → Int → Int → Except PyErr Frame} {a : TableArgs} {l r : Frame} {oss : Bool}
    (h : TableCall call a l r oss) (hsl : StrColumn l a.lAttr) (hsr : StrColumn r a.rAttr)
    (hc : ¬ NoIdClash (outHeader a oss)) (am : Bool) (nj cpu : Int) :
    call am nj cpu = .error .other := by
  obtain ⟨_, _, work, hwf, hcall⟩ := h.normal
  rw [hcall]
  exact runTables_idClash (a.withJobs nj) l r am oss cpu work
    (fun ch _ => RT.width_of_faithful hwf (a.withJobs nj) l ch) hsl hsr hc

/-- every entry point returns a frame IFF the body conditions hold -/
theorem TableCall.returns_iff {call : Bool → Int → Int → Except PyErr Frame} {a : TableArgs} {l r : Frame} {oss : Bool}
    (h : TableCall call a l r oss) (am : Bool) (nj cpu : Int) :
    (∃ fr, call am nj cpu = .ok fr) ↔ BodyOK a l r oss := by
  constructor
  · rintro ⟨fr, hfr⟩; exact h.bodyOK hfr
  · intro hb
    obtain ⟨_, _, hm⟩ := h.master hb
    obtain ⟨fr, hfr, _⟩ := hm am nj cpu
    exact ⟨fr, hfr⟩

/-! ### the tokenizer flag after a body that raises -/

theorem withFlag_error (t : TokObj) (want : Bool) (e : PyErr) :
    withFlag t want (.error e) = { result := .error e, flagAfter := t.returnSet } := rfl

/-- jaccard / cosine / dice join whose body raises: the exception propagates, the tokenizer's flag is restored
    (`try … finally`).  (The hypotheses are not needed: `setSimJoinPy_flag`.) -/
theorem setSimJoinPy_body_error (m : Measure) (a : JoinArgs) (t : TokObj) (toks : TokFn) (cpu : Int) :
    (setSimJoinPy m a t toks cpu).flagAfter = t.returnSet :=
  setSimJoinPy_flag m a t toks cpu

theorem overlapCoefficientJoinPy_body_error (a : JoinArgs) (t : TokObj) (toks : TokFn) (cpu : Int) :
    (overlapCoefficientJoinPy a t toks cpu).flagAfter = t.returnSet :=
  overlapCoefficientJoinPy_flag a t toks cpu

/-- edit distance join whose body raises: likewise -/
theorem editDistanceJoinPy_body_error (a : JoinArgs) (t : TokObj) (toks : TokFn) (cpu : Int) :
    (editDistanceJoinPy a t toks cpu).flagAfter = t.returnSet :=
  editDistanceJoinPy_flag a t toks cpu

section AxiomCheck
#print axioms runTables_outcome
#print axioms TableCall.typeErr
#print axioms TableCall.idClash
#print axioms TableCall.returns_iff
#print axioms setSimJoinPy_body_error
#print axioms overlapCoefficientJoinPy_body_error
#print axioms editDistanceJoinPy_body_error
end AxiomCheck

end SSJ

/-
  SSJ.Proofs.PresentationCandset — helpers for property C10 (presentation independence) of the two entry points that
  work on a CANDIDATE SET: `apply_matcher` (`applyMatcher`) and `Filter.filter_candset` (`filterCandset`).

  * §1, §2: tables that `EP.Agree` on the referenced columns give EQUAL outcomes (no validity hypothesis) — covers
    another index and extra columns (`agree_withIndex`, `agree_of_extraColumns` of EntryPresentation.lean).
  * §3: the complete frame either entry point returns under the hypotheses of C05 / C04 (`applyMatcher_frame`,
    `filterCandset_frame`; `candKeep` = is the candidate row kept).
  * §4: row-permuted tables give the SAME frame (`*_perm_tables`): with a validated key column the lookup of a key
    does not depend on the order of the rows (`findKey_perm`).
  * §5: the candset presented differently: rows permuted (`applyMatcher_perm_candset`, `filterCandset_two_candsets`),
    index relabelled (`applyMatcher_relabel_candset`).
-/
import SSJ.Proofs.EntryPresentation
import SSJ.Proofs.EntryMatcher

namespace SSJ

/-- the same `apply_matcher` arguments with other tables -/
def MatcherArgs.withTables (a : MatcherArgs) (l r : Frame) : MatcherArgs := { a with ltable := some l, rtable := some r }
/-- the same `apply_matcher` arguments with another candidate set -/
def MatcherArgs.withCandset (a : MatcherArgs) (c : Frame) : MatcherArgs := { a with candset := some c }
/-- the same `filter_candset` arguments with other tables -/
def CandsetArgs.withTables (a : CandsetArgs) (l r : Frame) : CandsetArgs := { a with ltable := some l, rtable := some r }
/-- the same `filter_candset` arguments with another candidate set -/
def CandsetArgs.withCandset (a : CandsetArgs) (c : Frame) : CandsetArgs := { a with candset := some c }

/-- the columns of the left / right table a `filter_candset` call refers to: key and filter attribute -/
def CandsetArgs.lUsed (a : CandsetArgs) : List String := [a.lKey, a.lAttr]
def CandsetArgs.rUsed (a : CandsetArgs) : List String := [a.rKey, a.rAttr]

namespace EP

/-! ## 1. `apply_matcher` on tables that agree on the referenced columns -/

theorem except_map_ite_error {α β ε : Type} (f : α → β) (c : Prop) [Decidable c] (e : ε) (x : Except ε α) :
    Except.map f (if c then .error e else x) = if c then .error e else Except.map f x := by
  split <;> rfl

theorem matcherCascade_withTables (a : MatcherArgs) (t : Option TokObj) (c l0 r0 l r : Frame) :
    matcherCascade (a.withTables l0 r0) t c l r = matcherCascade a t c l r := rfl

theorem matcherCascade_agree (a : MatcherArgs) (t : Option TokObj) (c l r l' r' : Frame)
    (hL : Agree (lUsed a.toTableArgs) l l') (hR : Agree (rUsed a.toTableArgs) r r') :
    matcherCascade (a.withTables l' r') t c l' r' = (matcherCascade a t c l r).map (fun p => (p.1, l', r')) := by
  rw [matcherCascade_withTables]
  unfold matcherCascade
  rw [← hL.hasCol a.lKey (by simp [lUsed, MatcherArgs.toTableArgs]), ← hR.hasCol a.rKey (by simp [rUsed, MatcherArgs.toTableArgs]),
    ← hL.hasCol a.lAttr (by simp [lUsed, MatcherArgs.toTableArgs]), ← hR.hasCol a.rAttr (by simp [rUsed, MatcherArgs.toTableArgs]),
    ← hL.keyTest a.lKey (by simp [lUsed, MatcherArgs.toTableArgs]), ← hR.keyTest a.rKey (by simp [rUsed, MatcherArgs.toTableArgs]),
    any_congr_mem (a.lOut.getD []) (fun x => !l'.hasCol x) (fun x => !l.hasCol x)
      (fun x hx => by rw [hL.hasCol x (by simp [lUsed, MatcherArgs.toTableArgs, hx])]),
    any_congr_mem (a.rOut.getD []) (fun x => !r'.hasCol x) (fun x => !r.hasCol x)
      (fun x hx => by rw [hR.hasCol x (by simp [rUsed, MatcherArgs.toTableArgs, hx])])]
  simp only [except_map_ite_error]
  rfl

theorem validateMatcher_agree (a : MatcherArgs) (t : Option TokObj) (l r l' r' : Frame)
    (hl : a.ltable = some l) (hr : a.rtable = some r)
    (hL : Agree (lUsed a.toTableArgs) l l') (hR : Agree (rUsed a.toTableArgs) r r') :
    validateMatcher (a.withTables l' r') t = (validateMatcher a t).map (fun p => (p.1, l', r')) := by
  cases hc : a.candset with
  | none => rw [validateMatcher_none a t hc, validateMatcher_none (a.withTables l' r') t hc]; rfl
  | some c =>
    rw [validateMatcher_some a t c hc, validateMatcher_some (a.withTables l' r') t c hc, hl, hr]
    show (if !c.hasCol a.candLKey then _ else if !c.hasCol a.candRKey then _ else
      matcherCascade (a.withTables l' r') t c l' r') = _
    rw [matcherCascade_agree a t c l r l' r' hL hR]
    split_ifs <;> rfl

/-- `matcherBody` reads the two tables only through their projections to the referenced columns and their lengths -/
def matcherBodyOn (a : MatcherArgs) (t : Option TokObj) (toks : TokFn) (sim : SimArg → SimArg → PyV) (cpu : Int)
    (c : Frame) (lRows rRows : List Row) (n : Nat) : Except PyErr Frame := do
  if c.rows.isEmpty then return c else
  let lOut := removeRedundantAttrs a.lOut a.lKey
  let rOut := removeRedundantAttrs a.rOut a.rKey
  let lProj := getAttrsToProject lOut a.lKey a.lAttr
  let rProj := getAttrsToProject rOut a.rKey a.rAttr
  let lKeyIdx := lProj.idxOf a.lKey
  let lAttrIdx := lProj.idxOf a.lAttr
  let rKeyIdx := rProj.idxOf a.rKey
  let rAttrIdx := rProj.idxOf a.rAttr
  let o : OutCfg := { lKey := lKeyIdx, rKey := rKeyIdx,
                      lOut := findOutputAttributeIndices lProj lOut,
                      rOut := findOutputAttributeIndices rProj rOut,
                      hasOut := lOut.isSome || rOut.isSome }
  let tokFn : Option (String → List Tok) := t.map (fun tk => toks tk.returnSet)
  let cache ← tokenCache tokFn (decide (n < c.rows.length * 2))
                lRows rRows lKeyIdx lAttrIdx rKeyIdx rAttrIdx
  let header := "_id" :: (getOutputHeader a.lKey a.rKey lOut rOut a.lPre a.rPre ++
                  (if a.outSimScore then ["_sim_score"] else []))
  let chunks ← (chunksFor c.rows a.nJobs cpu).mapM (fun ch => do
      let rows ← applyMatcherSplit a (c.colIdx a.candLKey) (c.colIdx a.candRKey) lRows rRows
                  lKeyIdx lAttrIdx rKeyIdx rAttrIdx o tokFn sim cache ch
      mkRows rows header)
  return { columns := header
           index := chunks.flatMap (fun p => (List.range p.length).map (fun (i : Nat) => Cell.int i))
           rows := chunks.flatten }

theorem matcherBody_eq_on (a : MatcherArgs) (t : Option TokObj) (toks : TokFn) (sim : SimArg → SimArg → PyV) (cpu : Int)
    (c l r : Frame) :
    matcherBody a t toks sim cpu c l r =
      matcherBodyOn a t toks sim cpu c (matcherLRows a l) (matcherRRows a r) (l.rows.length + r.rows.length) := rfl

theorem matcherLRows_agree (a : MatcherArgs) (l l' : Frame) (h : Agree (lUsed a.toTableArgs) l l') :
    matcherLRows a l' = matcherLRows a l := by
  unfold matcherLRows
  refine (forall₂_map_eq ?_ h.rows).symm
  intro x y hxy
  rw [List.map_map, List.map_map]
  exact List.map_congr_left (fun c hc => hxy c (mem_lUsed_of_lProj a.toTableArgs c hc))

theorem matcherRRows_agree (a : MatcherArgs) (r r' : Frame) (h : Agree (rUsed a.toTableArgs) r r') :
    matcherRRows a r' = matcherRRows a r := by
  unfold matcherRRows
  refine (forall₂_map_eq ?_ h.rows).symm
  intro x y hxy
  rw [List.map_map, List.map_map]
  exact List.map_congr_left (fun c hc => hxy c (mem_rUsed_of_rProj a.toTableArgs c hc))

/-- the body of `apply_matcher` on agreeing tables -/
theorem matcherBody_agree (a : MatcherArgs) (t : Option TokObj) (toks : TokFn) (sim : SimArg → SimArg → PyV) (cpu : Int)
    (c l r l' r' : Frame) (hL : Agree (lUsed a.toTableArgs) l l') (hR : Agree (rUsed a.toTableArgs) r r') :
    matcherBody (a.withTables l' r') t toks sim cpu c l' r' = matcherBody a t toks sim cpu c l r := by
  show matcherBody a t toks sim cpu c l' r' = _
  rw [matcherBody_eq_on, matcherBody_eq_on, matcherLRows_agree a l l' hL, matcherRRows_agree a r r' hR,
    hL.rows.length_eq, hR.rows.length_eq]

/-- APPLY_MATCHER, SAME VIEW: tables that agree on the referenced columns give the same outcome -/
theorem applyMatcher_agree (a : MatcherArgs) (t : Option TokObj) (toks : TokFn) (sim : SimArg → SimArg → PyV) (cpu : Int)
    (l r l' r' : Frame) (hl : a.ltable = some l) (hr : a.rtable = some r)
    (hL : Agree (lUsed a.toTableArgs) l l') (hR : Agree (rUsed a.toTableArgs) r r') :
    applyMatcher (a.withTables l' r') t toks sim cpu = applyMatcher a t toks sim cpu := by
  rw [applyMatcher_eq, applyMatcher_eq, validateMatcher_agree a t l r l' r' hl hr hL hR]
  cases hv : validateMatcher a t with
  | error e => rfl
  | ok p =>
    obtain ⟨c, l0, r0⟩ := p
    obtain ⟨-, hl0, hr0, -⟩ := validateMatcher_ok_tables a t c l0 r0 hv
    rw [hl] at hl0; rw [hr] at hr0
    cases hl0; cases hr0
    exact matcherBody_agree a t toks sim cpu c l r l' r' hL hR

/-! ## 2. `filter_candset` on tables that agree on the referenced columns -/

theorem candsetCascade_withTables (a : CandsetArgs) (c l0 r0 l r : Frame) :
    candsetCascade (a.withTables l0 r0) c l r = candsetCascade a c l r := rfl

theorem candsetCascade_agree (a : CandsetArgs) (c l r l' r' : Frame)
    (hL : Agree a.lUsed l l') (hR : Agree a.rUsed r r') :
    candsetCascade (a.withTables l' r') c l' r' = (candsetCascade a c l r).map (fun p => (p.1, l', r')) := by
  rw [candsetCascade_withTables]
  unfold candsetCascade
  rw [← hL.hasCol a.lKey (by simp [CandsetArgs.lUsed]), ← hR.hasCol a.rKey (by simp [CandsetArgs.rUsed]),
    ← hL.hasCol a.lAttr (by simp [CandsetArgs.lUsed]), ← hR.hasCol a.rAttr (by simp [CandsetArgs.rUsed]),
    ← hL.keyTest a.lKey (by simp [CandsetArgs.lUsed]), ← hR.keyTest a.rKey (by simp [CandsetArgs.rUsed]),
    ← hL.dtype a.lAttr (by simp [CandsetArgs.lUsed]), ← hR.dtype a.rAttr (by simp [CandsetArgs.rUsed])]
  simp only [except_map_ite_error]
  rfl

theorem validateCandset_agree (a : CandsetArgs) (l r l' r' : Frame)
    (hl : a.ltable = some l) (hr : a.rtable = some r) (hL : Agree a.lUsed l l') (hR : Agree a.rUsed r r') :
    validateCandset (a.withTables l' r') = (validateCandset a).map (fun p => (p.1, l', r')) := by
  cases hc : a.candset with
  | none => rw [validateCandset_none a hc, validateCandset_none (a.withTables l' r') hc]; rfl
  | some c =>
    rw [validateCandset_some a c hc, validateCandset_some (a.withTables l' r') c hc, hl, hr]
    show (if !c.hasCol a.candLKey then _ else if !c.hasCol a.candRKey then _ else
      candsetCascade (a.withTables l' r') c l' r') = _
    rw [candsetCascade_agree a c l r l' r' hL hR]
    split_ifs <;> rfl

theorem candsetStep_withTables (a : CandsetArgs) (fp : Cell → Cell → Except PyErr Bool) (l0 r0 c l r : Frame) :
    candsetStep (a.withTables l0 r0) fp c l r = candsetStep a fp c l r := rfl

theorem candsetStep_agree (a : CandsetArgs) (fp : Cell → Cell → Except PyErr Bool) (c l r l' r' : Frame)
    (hL : Agree a.lUsed l l') (hR : Agree a.rUsed r r') :
    candsetStep a fp c l' r' = candsetStep a fp c l r := by
  have h1 : l'.rows.map (fun row => [row.cell (l'.colIdx a.lKey), row.cell (l'.colIdx a.lAttr)])
      = l.rows.map (fun row => [row.cell (l.colIdx a.lKey), row.cell (l.colIdx a.lAttr)]) :=
    (forall₂_map_eq (fun x y hxy => by
      rw [hxy a.lKey (by simp [CandsetArgs.lUsed]), hxy a.lAttr (by simp [CandsetArgs.lUsed])]) hL.rows).symm
  have h2 : r'.rows.map (fun row => [row.cell (r'.colIdx a.rKey), row.cell (r'.colIdx a.rAttr)])
      = r.rows.map (fun row => [row.cell (r.colIdx a.rKey), row.cell (r.colIdx a.rAttr)]) :=
    (forall₂_map_eq (fun x y hxy => by
      rw [hxy a.rKey (by simp [CandsetArgs.rUsed]), hxy a.rAttr (by simp [CandsetArgs.rUsed])]) hR.rows).symm
  unfold candsetStep
  rw [h1, h2]

theorem candsetBody_agree (a : CandsetArgs) (fp : Cell → Cell → Except PyErr Bool) (cpu : Int)
    (c l r l' r' : Frame) (hL : Agree a.lUsed l l') (hR : Agree a.rUsed r r') :
    candsetBody (a.withTables l' r') fp cpu c l' r' = candsetBody a fp cpu c l r := by
  rw [candsetBody_eq, candsetBody_eq, candsetStep_withTables, candsetStep_agree a fp c l r l' r' hL hR]
  rfl

/-- FILTER_CANDSET, SAME VIEW: tables that agree on key and filter attribute give the same outcome -/
theorem filterCandset_agree (a : CandsetArgs) (fp : Cell → Cell → Except PyErr Bool) (cpu : Int)
    (l r l' r' : Frame) (hl : a.ltable = some l) (hr : a.rtable = some r)
    (hL : Agree a.lUsed l l') (hR : Agree a.rUsed r r') :
    filterCandset (a.withTables l' r') fp cpu = filterCandset a fp cpu := by
  rw [filterCandset_eq, filterCandset_eq, validateCandset_agree a l r l' r' hl hr hL hR]
  cases hv : validateCandset a with
  | error e => rfl
  | ok p =>
    obtain ⟨c, l0, r0⟩ := p
    obtain ⟨-, hl0, hr0, -⟩ := validateCandset_ok_tables a c l0 r0 hv
    rw [hl] at hl0; rw [hr] at hr0
    cases hl0; cases hr0
    exact candsetBody_agree a fp cpu c l r l' r' hL hR

/-! ## 3. the frames the two entry points return on validated arguments -/

/-- the frame `apply_matcher` returns (C05's hypotheses): everything, index included -/
theorem applyMatcher_frame (a : MatcherArgs) (t : Option TokObj) (toks : TokFn) (sim : SimArg → SimArg → PyV) (cpu : Int)
    (c l r : Frame) (hv : validateMatcher a t = .ok (c, l, r))
    (hl : ∀ cr ∈ c.rows, PyMem (cr.cell (c.colIdx a.candLKey)) (l.col a.lKey))
    (hr : ∀ cr ∈ c.rows, PyMem (cr.cell (c.colIdx a.candRKey)) (r.col a.rKey))
    (hlen : c.rows.length < 2 ^ 40)
    (hstr : t.isSome → Props.StrColumn l a.lAttr ∧ Props.StrColumn r a.rAttr) :
    applyMatcher a t toks sim cpu
      = .ok (if c.rows.isEmpty then c else
          { columns := matcherHeader a
            index := (chunksFor c.rows a.nJobs cpu).flatMap (fun ch =>
              (List.range (ch.filterMap (matcherTableSpec a t toks sim c l r)).length).map (fun (i : Nat) => Cell.int i))
            rows := c.rows.filterMap (matcherTableSpec a t toks sim c l r) }) := by
  have hV := (validateMatcher_ok_iff a t c l r).1 hv
  obtain ⟨hv1, hv2, hv3, hv4, hv5, hv6, hv7, hv8, hv9, hv10, hv11⟩ := hV.validations
  exact applyMatcher_spec a t toks sim cpu c l r hV.candset hV.ltable hV.rtable hv1 hv2 hv3 hv4 hv5 hv6 hv7 hv8 hv9
    hv10 hv11 hl hr (chunksFor_flatten _ _ _ hlen) hstr

/-- the value of column `attr` in THE row of `f` whose key is Python-equal to `k` (missing if there is none) -/
def candVal (f : Frame) (key attr : String) (k : Cell) : Cell :=
  match f.rows.find? (fun s => (s.cell (f.colIdx key)).pyEq k) with
  | some s => s.cell (f.colIdx attr)
  | none => .missing

/-- does `filter_candset` keep the candidate row `cr`?  (`filter_pair` on the two referenced values says "do not
    drop"; an exception counts as "no" — excluded by the hypotheses below) -/
def candKeep (a : CandsetArgs) (fp : Cell → Cell → Except PyErr Bool) (c l r : Frame) (cr : Row) : Bool :=
  match fp (candVal l a.lKey a.lAttr (cr.cell (c.colIdx a.candLKey)))
           (candVal r a.rKey a.rAttr (cr.cell (c.colIdx a.candRKey))) with
  | .ok b => !b
  | .error _ => false

theorem candVal_spec (f : Frame) (key attr : String) (k : Cell) (h : PyMem k (f.col key)) :
    ∃ row ∈ f.rows, (row.cell (f.colIdx key)).pyEq k = true ∧ row.cell (f.colIdx attr) = candVal f key attr k := by
  obtain ⟨k0, hk0m, hk0⟩ := h
  obtain ⟨s0, hs0, rfl⟩ := List.mem_map.1 hk0m
  unfold candVal
  cases hf : f.rows.find? (fun s => (s.cell (f.colIdx key)).pyEq k) with
  | none => exact absurd hk0 (List.find?_eq_none.1 hf s0 hs0)
  | some s =>
    exact ⟨s, List.mem_of_find?_eq_some hf,
      List.find?_some (p := fun s : Row => (s.cell (f.colIdx key)).pyEq k) hf, rfl⟩

/-- the frame `filter_candset` returns on validated arguments, candidate keys present, `< 2⁴⁰` rows, `filter_pair`
    not raising on the pairs of values of the two columns: the candset restricted to the kept rows, labels carried
    along -/
theorem filterCandset_frame (a : CandsetArgs) (fp : Cell → Cell → Except PyErr Bool) (cpu : Int) (c l r : Frame)
    (hv : validateCandset a = .ok (c, l, r))
    (hl : ∀ cr ∈ c.rows, PyMem (cr.cell (c.colIdx a.candLKey)) (l.col a.lKey))
    (hr : ∀ cr ∈ c.rows, PyMem (cr.cell (c.colIdx a.candRKey)) (r.col a.rKey))
    (hlen : c.rows.length < 2 ^ 40)
    (hfp : ∀ ls ∈ l.rows, ∀ rs ∈ r.rows, ∃ b, fp (ls.cell (l.colIdx a.lAttr)) (rs.cell (r.colIdx a.rAttr)) = .ok b) :
    filterCandset a fp cpu
      = .ok (if c.rows.isEmpty then c else
          { c with index := ((candLabelled c).filter (fun p => candKeep a fp c l r p.1)).map (·.2),
                   rows := ((candLabelled c).filter (fun p => candKeep a fp c l r p.1)).map (·.1) }) := by
  have hV := (validateCandset_ok_iff a c l r).1 hv
  have hok : ∀ (x : String) (f : Frame), f.hasCol x = true → validateAttr x f = .ok () := by
    intro x f h; simp [validateAttr, raiseIf, h]
  have ht1 : validateAttrType a.lAttr l = .ok () := by
    rcases hV.lType with h' | h' <;> simp [validateAttrType, raiseIf, h']
  have ht2 : validateAttrType a.rAttr r = .ok () := by
    rcases hV.rType with h' | h' <;> simp [validateAttrType, raiseIf, h']
  have hk1 : validateKeyAttr a.lKey l = .ok () := by
    rw [validateKeyAttr_eq, (keyTest_iff _ _).2 hV.lKeyValid]; rfl
  have hk2 : validateKeyAttr a.rKey r = .ok () := by
    rw [validateKeyAttr_eq, (keyTest_iff _ _).2 hV.rKeyValid]; rfl
  let lval : Row → Cell := fun cr => candVal l a.lKey a.lAttr (cr.cell (c.colIdx a.candLKey))
  let rval : Row → Cell := fun cr => candVal r a.rKey a.rAttr (cr.cell (c.colIdx a.candRKey))
  let fpb : Cell → Cell → Bool := fun x y => match fp x y with | .ok b => b | .error _ => false
  have hfp' : ∀ cr ∈ c.rows, fp (lval cr) (rval cr) = .ok (fpb (lval cr) (rval cr)) := by
    intro cr hcr
    obtain ⟨ls, hls, -, hlv⟩ := candVal_spec l a.lKey a.lAttr _ (hl cr hcr)
    obtain ⟨rs, hrs, -, hrv⟩ := candVal_spec r a.rKey a.rAttr _ (hr cr hcr)
    obtain ⟨b, hb⟩ := hfp ls hls rs hrs
    rw [hlv, hrv] at hb
    show _ = Except.ok (match fp (lval cr) (rval cr) with | .ok b => b | .error _ => false)
    rw [hb]
  have hkeep : ∀ p ∈ candLabelled c, candKeep a fp c l r p.1 = !fpb (lval p.1) (rval p.1) := by
    intro p hp
    have hmem : p.1 ∈ c.rows := (List.of_mem_zip (a := p.1) (b := p.2) hp).1
    have := hfp' p.1 hmem
    show (match fp (lval p.1) (rval p.1) with | .ok b => !b | .error _ => false) = _
    rw [this]
  rw [filterCandset_spec a fp fpb cpu c l r hV.candset hV.ltable hV.rtable
    (hok _ _ hV.candLKey) (hok _ _ hV.candRKey) (hok _ _ hV.lKey) (hok _ _ hV.rKey) (hok _ _ hV.lAttr) (hok _ _ hV.rAttr)
    ht1 ht2 hk1 hk2 lval rval (fun cr hcr => candVal_spec l a.lKey a.lAttr _ (hl cr hcr))
    (fun cr hcr => candVal_spec r a.rKey a.rAttr _ (hr cr hcr)) hfp'
    (chunksFor_flatten _ _ _ (by rw [candLabelled_length]; exact hlen)),
    List.filter_congr hkeep]

/-! ## 4. permuting the rows of the two tables -/

/-- `find?` of a predicate that at most one element satisfies does not depend on the order of the list -/
theorem find?_perm_of_unique {α : Type} (p : α → Bool) {xs ys : List α} (hp : xs.Perm ys)
    (hu : ∀ x ∈ xs, ∀ y ∈ xs, p x = true → p y = true → x = y) : xs.find? p = ys.find? p := by
  cases hx : xs.find? p with
  | none =>
    symm
    rw [List.find?_eq_none] at hx ⊢
    exact fun y hy => hx y (hp.mem_iff.2 hy)
  | some x =>
    have hxm := List.mem_of_find?_eq_some hx
    have hpx : p x = true := List.find?_some hx
    cases hy : ys.find? p with
    | none => exact absurd hpx (List.find?_eq_none.1 hy x (hp.mem_iff.1 hxm))
    | some y =>
      have hym := hp.mem_iff.2 (List.mem_of_find?_eq_some hy)
      have hpy : p y = true := List.find?_some hy
      rw [hu x hxm y hym hpx hpy]

theorem colIdx_congr (f g : Frame) (hc : g.columns = f.columns) : g.colIdx = f.colIdx := by
  funext x; unfold Frame.colIdx; rw [hc]

/-- the lookup of a key in a table with a validated key column does not depend on the order of the rows -/
theorem findKey_perm (f g : Frame) (key : String) (hc : g.columns = f.columns) (hp : g.rows.Perm f.rows)
    (hk : PyDistinct (f.col key)) (k : Cell) :
    g.rows.find? (fun s => (s.cell (g.colIdx key)).pyEq k) = f.rows.find? (fun s => (s.cell (f.colIdx key)).pyEq k) := by
  rw [colIdx_congr f g hc]
  refine (find?_perm_of_unique _ hp.symm ?_).symm
  intro s hs s' hs' h1 h2
  have hkeys : s.cell (f.colIdx key) = s'.cell (f.colIdx key) :=
    hk.unique (List.mem_map_of_mem (f := fun row : Row => row.cell (f.colIdx key)) hs)
      (List.mem_map_of_mem (f := fun row : Row => row.cell (f.colIdx key)) hs') h1 h2
  exact List.inj_on_of_nodup_map hk.nodup hs hs' hkeys

theorem col_perm (f g : Frame) (key : String) (hc : g.columns = f.columns) (hp : g.rows.Perm f.rows) :
    (g.col key).Perm (f.col key) := by
  unfold Frame.col
  rw [colIdx_congr f g hc]
  exact hp.map _

theorem pyMem_perm {k : Cell} {c c' : List Cell} (hp : c'.Perm c) (h : PyMem k c) : PyMem k c' := by
  obtain ⟨k', hm, he⟩ := h
  exact ⟨k', hp.mem_iff.2 hm, he⟩

theorem keyValid_perm (f g : Frame) (key : String) (hc : g.columns = f.columns) (hp : g.rows.Perm f.rows)
    (h : KeyValid f key) : KeyValid g key := by
  rw [← keyTest_iff] at h ⊢
  rw [← keyTest_perm f g key hc hp]; exact h

theorem hasCol_congr (f g : Frame) (hc : g.columns = f.columns) (x : String) : g.hasCol x = f.hasCol x := by
  unfold Frame.hasCol; rw [hc]

theorem dtype_congr (f g : Frame) (hc : g.columns = f.columns) (hd : g.dtypes = f.dtypes) (x : String) :
    g.dtype x = f.dtype x := by
  unfold Frame.dtype; rw [hd, colIdx_congr f g hc]

theorem matcherPairRawK_congr (a : MatcherArgs) (tok : Option (String → List Tok)) (sim : SimArg → SimArg → PyV)
    (l r l' r' : Frame) (hcl : l'.columns = l.columns) (hcr : r'.columns = r.columns) (id lk rk : Cell) (ls rs : Row) :
    matcherPairRawK a tok sim l' r' id lk rk ls rs = matcherPairRawK a tok sim l r id lk rk ls rs := by
  unfold matcherPairRawK
  rw [colIdx_congr l l' hcl, colIdx_congr r r' hcr]

/-- the per-candidate specification of `apply_matcher` does not depend on the order of the rows of the tables -/
theorem matcherTableSpec_perm (a : MatcherArgs) (t : Option TokObj) (toks : TokFn) (sim : SimArg → SimArg → PyV)
    (c l r l' r' : Frame) (hp : RowsPermuted l r l' r')
    (hlk : PyDistinct (l.col a.lKey)) (hrk : PyDistinct (r.col a.rKey)) :
    matcherTableSpec a t toks sim c l' r' = matcherTableSpec a t toks sim c l r := by
  funext cr
  rw [matcherTableSpec_eq a t toks sim c l r hlk hrk,
    matcherTableSpec_eq a t toks sim c l' r' ((PyDistinct.perm (col_perm l l' _ hp.lCols hp.lRows)).2 hlk)
      ((PyDistinct.perm (col_perm r r' _ hp.rCols hp.rRows)).2 hrk),
    findKey_perm l l' a.lKey hp.lCols hp.lRows hlk, findKey_perm r r' a.rKey hp.rCols hp.rRows hrk]
  split
  · rw [matcherPairRawK_congr a _ sim l r l' r' hp.lCols hp.rCols]
  · rfl

theorem matcherValid_perm {a : MatcherArgs} {t : Option TokObj} {c l r l' r' : Frame} (hV : MatcherValid a t c l r)
    (hp : RowsPermuted l r l' r') : MatcherValid (a.withTables l' r') t c l' r' :=
  { candset := hV.candset, ltable := rfl, rtable := rfl, candLKey := hV.candLKey, candRKey := hV.candRKey
    lKey := (hasCol_congr l l' hp.lCols _).trans hV.lKey
    rKey := (hasCol_congr r r' hp.rCols _).trans hV.rKey
    lAttr := (hasCol_congr l l' hp.lCols _).trans hV.lAttr
    rAttr := (hasCol_congr r r' hp.rCols _).trans hV.rAttr
    lOut := fun x hx => (hasCol_congr l l' hp.lCols _).trans (hV.lOut x hx)
    rOut := fun x hx => (hasCol_congr r r' hp.rCols _).trans (hV.rOut x hx)
    tok := hV.tok, op := hV.op
    lKeyValid := keyValid_perm l l' _ hp.lCols hp.lRows hV.lKeyValid
    rKeyValid := keyValid_perm r r' _ hp.rCols hp.rRows hV.rKeyValid }

/-- APPLY_MATCHER, ROW ORDER OF THE TABLES: under C05's hypotheses the call on row-permuted tables returns the very
    same frame (rows, order, columns, index) -/
theorem applyMatcher_perm_tables (a : MatcherArgs) (t : Option TokObj) (toks : TokFn) (sim : SimArg → SimArg → PyV)
    (cpu : Int) (c l r l' r' : Frame) (hv : validateMatcher a t = .ok (c, l, r))
    (hl : ∀ cr ∈ c.rows, PyMem (cr.cell (c.colIdx a.candLKey)) (l.col a.lKey))
    (hr : ∀ cr ∈ c.rows, PyMem (cr.cell (c.colIdx a.candRKey)) (r.col a.rKey))
    (hlen : c.rows.length < 2 ^ 40)
    (hstr : t.isSome → Props.StrColumn l a.lAttr ∧ Props.StrColumn r a.rAttr)
    (hp : RowsPermuted l r l' r') :
    validateMatcher (a.withTables l' r') t = .ok (c, l', r') ∧
    applyMatcher (a.withTables l' r') t toks sim cpu = applyMatcher a t toks sim cpu := by
  have hV := (validateMatcher_ok_iff a t c l r).1 hv
  have hv' : validateMatcher (a.withTables l' r') t = .ok (c, l', r') :=
    (validateMatcher_ok_iff _ t c l' r').2 (matcherValid_perm hV hp)
  refine ⟨hv', ?_⟩
  rw [applyMatcher_frame a t toks sim cpu c l r hv hl hr hlen hstr,
    applyMatcher_frame (a.withTables l' r') t toks sim cpu c l' r' hv'
      (fun cr hcr => pyMem_perm (col_perm l l' _ hp.lCols hp.lRows) (hl cr hcr))
      (fun cr hcr => pyMem_perm (col_perm r r' _ hp.rCols hp.rRows) (hr cr hcr)) hlen
      (fun ht => ⟨strColumn_of_perm l l' a.lAttr hp.lCols hp.lRows (hstr ht).1,
        strColumn_of_perm r r' a.rAttr hp.rCols hp.rRows (hstr ht).2⟩)]
  show Except.ok (if c.rows.isEmpty then c else
      { columns := matcherHeader a
        index := (chunksFor c.rows a.nJobs cpu).flatMap (fun ch =>
          (List.range (ch.filterMap (matcherTableSpec a t toks sim c l' r')).length).map (fun (i : Nat) => Cell.int i))
        rows := c.rows.filterMap (matcherTableSpec a t toks sim c l' r') }) = _
  rw [matcherTableSpec_perm a t toks sim c l r l' r' hp hV.lKeyValid.1 hV.rKeyValid.1]

theorem candVal_perm (f g : Frame) (key attr : String) (hc : g.columns = f.columns) (hp : g.rows.Perm f.rows)
    (hk : PyDistinct (f.col key)) (k : Cell) : candVal g key attr k = candVal f key attr k := by
  unfold candVal
  rw [findKey_perm f g key hc hp hk k, colIdx_congr f g hc]

theorem candKeep_withTables (a : CandsetArgs) (fp : Cell → Cell → Except PyErr Bool) (l0 r0 c l r : Frame) :
    candKeep (a.withTables l0 r0) fp c l r = candKeep a fp c l r := rfl

theorem candKeep_perm (a : CandsetArgs) (fp : Cell → Cell → Except PyErr Bool) (c l r l' r' : Frame)
    (hp : RowsPermuted l r l' r') (hlk : PyDistinct (l.col a.lKey)) (hrk : PyDistinct (r.col a.rKey)) :
    candKeep a fp c l' r' = candKeep a fp c l r := by
  funext cr
  unfold candKeep
  rw [candVal_perm l l' a.lKey a.lAttr hp.lCols hp.lRows hlk, candVal_perm r r' a.rKey a.rAttr hp.rCols hp.rRows hrk]

theorem candsetValid_perm {a : CandsetArgs} {c l r l' r' : Frame} (hV : CandsetValid a c l r)
    (hp : RowsPermuted l r l' r') : CandsetValid (a.withTables l' r') c l' r' :=
  { candset := hV.candset, ltable := rfl, rtable := rfl, candLKey := hV.candLKey, candRKey := hV.candRKey
    lKey := (hasCol_congr l l' hp.lCols _).trans hV.lKey
    rKey := (hasCol_congr r r' hp.rCols _).trans hV.rKey
    lAttr := (hasCol_congr l l' hp.lCols _).trans hV.lAttr
    rAttr := (hasCol_congr r r' hp.rCols _).trans hV.rAttr
    lType := by
      show l'.dtype a.lAttr = "object" ∨ l'.dtype a.lAttr = "str"
      rw [dtype_congr l l' hp.lCols hp.lTypes]; exact hV.lType
    rType := by
      show r'.dtype a.rAttr = "object" ∨ r'.dtype a.rAttr = "str"
      rw [dtype_congr r r' hp.rCols hp.rTypes]; exact hV.rType
    lKeyValid := keyValid_perm l l' _ hp.lCols hp.lRows hV.lKeyValid
    rKeyValid := keyValid_perm r r' _ hp.rCols hp.rRows hV.rKeyValid }

theorem fpTotal_perm (a : CandsetArgs) (fp : Cell → Cell → Except PyErr Bool) (l r l' r' : Frame)
    (hp : RowsPermuted l r l' r')
    (hfp : ∀ ls ∈ l.rows, ∀ rs ∈ r.rows, ∃ b, fp (ls.cell (l.colIdx a.lAttr)) (rs.cell (r.colIdx a.rAttr)) = .ok b) :
    ∀ ls ∈ l'.rows, ∀ rs ∈ r'.rows, ∃ b, fp (ls.cell (l'.colIdx a.lAttr)) (rs.cell (r'.colIdx a.rAttr)) = .ok b := by
  intro ls hls rs hrs
  rw [colIdx_congr l l' hp.lCols, colIdx_congr r r' hp.rCols]
  exact hfp ls (hp.lRows.mem_iff.1 hls) rs (hp.rRows.mem_iff.1 hrs)

/-- FILTER_CANDSET, ROW ORDER OF THE TABLES: the call on row-permuted tables returns the very same frame -/
theorem filterCandset_perm_tables (a : CandsetArgs) (fp : Cell → Cell → Except PyErr Bool) (cpu : Int)
    (c l r l' r' : Frame) (hv : validateCandset a = .ok (c, l, r))
    (hl : ∀ cr ∈ c.rows, PyMem (cr.cell (c.colIdx a.candLKey)) (l.col a.lKey))
    (hr : ∀ cr ∈ c.rows, PyMem (cr.cell (c.colIdx a.candRKey)) (r.col a.rKey))
    (hlen : c.rows.length < 2 ^ 40)
    (hfp : ∀ ls ∈ l.rows, ∀ rs ∈ r.rows, ∃ b, fp (ls.cell (l.colIdx a.lAttr)) (rs.cell (r.colIdx a.rAttr)) = .ok b)
    (hp : RowsPermuted l r l' r') :
    validateCandset (a.withTables l' r') = .ok (c, l', r') ∧
    filterCandset (a.withTables l' r') fp cpu = filterCandset a fp cpu := by
  have hV := (validateCandset_ok_iff a c l r).1 hv
  have hv' : validateCandset (a.withTables l' r') = .ok (c, l', r') :=
    (validateCandset_ok_iff _ c l' r').2 (candsetValid_perm hV hp)
  refine ⟨hv', ?_⟩
  rw [filterCandset_frame a fp cpu c l r hv hl hr hlen hfp,
    filterCandset_frame (a.withTables l' r') fp cpu c l' r' hv'
      (fun cr hcr => pyMem_perm (col_perm l l' _ hp.lCols hp.lRows) (hl cr hcr))
      (fun cr hcr => pyMem_perm (col_perm r r' _ hp.rCols hp.rRows) (hr cr hcr)) hlen
      (fpTotal_perm a fp l r l' r' hp hfp),
    candKeep_withTables, candKeep_perm a fp c l r l' r' hp hV.lKeyValid.1 hV.rKeyValid.1]

/-! ## 5. the candidate set presented differently: rows permuted, index relabelled -/

/-- `c'` is `c` with its rows permuted (same header, same dtypes) -/
structure CandPermuted (c c' : Frame) : Prop where
  cols : c'.columns = c.columns
  types : c'.dtypes = c.dtypes
  rows : c'.rows.Perm c.rows

theorem matcherTableSpec_withCandset (a : MatcherArgs) (t : Option TokObj) (toks : TokFn) (sim : SimArg → SimArg → PyV)
    (c0 c l r : Frame) :
    matcherTableSpec (a.withCandset c0) t toks sim c l r = matcherTableSpec a t toks sim c l r := rfl

theorem matcherTableSpec_cand_congr (a : MatcherArgs) (t : Option TokObj) (toks : TokFn) (sim : SimArg → SimArg → PyV)
    (c c' l r : Frame) (hc : c'.columns = c.columns) :
    matcherTableSpec a t toks sim c' l r = matcherTableSpec a t toks sim c l r := by
  unfold matcherTableSpec
  rw [colIdx_congr c c' hc]

theorem matcherValid_cand {a : MatcherArgs} {t : Option TokObj} {c l r c' : Frame} (hV : MatcherValid a t c l r)
    (hc : c'.columns = c.columns) : MatcherValid (a.withCandset c') t c' l r :=
  { candset := rfl, ltable := hV.ltable, rtable := hV.rtable
    candLKey := (hasCol_congr c c' hc _).trans hV.candLKey
    candRKey := (hasCol_congr c c' hc _).trans hV.candRKey
    lKey := hV.lKey, rKey := hV.rKey, lAttr := hV.lAttr, rAttr := hV.rAttr, lOut := hV.lOut, rOut := hV.rOut
    tok := hV.tok, op := hV.op, lKeyValid := hV.lKeyValid, rKeyValid := hV.rKeyValid }

theorem isEmpty_perm {α : Type} {xs ys : List α} (h : xs.Perm ys) : xs.isEmpty = ys.isEmpty := by
  cases xs with
  | nil => rw [h.nil_eq]
  | cons x xs =>
    cases ys with
    | nil => exact absurd h.eq_nil (by simp)
    | cons y ys => rfl

/-- APPLY_MATCHER, ROW ORDER OF THE CANDSET: both calls succeed, same columns, and the result rows are permuted -/
theorem applyMatcher_perm_candset (a : MatcherArgs) (t : Option TokObj) (toks : TokFn) (sim : SimArg → SimArg → PyV)
    (cpu cpu' : Int) (c l r c' : Frame) (hv : validateMatcher a t = .ok (c, l, r))
    (hl : ∀ cr ∈ c.rows, PyMem (cr.cell (c.colIdx a.candLKey)) (l.col a.lKey))
    (hr : ∀ cr ∈ c.rows, PyMem (cr.cell (c.colIdx a.candRKey)) (r.col a.rKey))
    (hlen : c.rows.length < 2 ^ 40)
    (hstr : t.isSome → Props.StrColumn l a.lAttr ∧ Props.StrColumn r a.rAttr)
    (hp : CandPermuted c c') :
    ∃ fr fr', applyMatcher a t toks sim cpu = .ok fr ∧ applyMatcher (a.withCandset c') t toks sim cpu' = .ok fr' ∧
      fr'.columns = fr.columns ∧ fr'.rows.Perm fr.rows ∧
      fr.rows = c.rows.filterMap (matcherTableSpec a t toks sim c l r) ∧
      fr'.rows = c'.rows.filterMap (matcherTableSpec a t toks sim c l r) := by
  have hV := (validateMatcher_ok_iff a t c l r).1 hv
  have hv' : validateMatcher (a.withCandset c') t = .ok (c', l, r) :=
    (validateMatcher_ok_iff _ t c' l r).2 (matcherValid_cand hV hp.cols)
  have hspec : matcherTableSpec (a.withCandset c') t toks sim c' l r = matcherTableSpec a t toks sim c l r := by
    rw [matcherTableSpec_withCandset, matcherTableSpec_cand_congr a t toks sim c c' l r hp.cols]
  obtain ⟨fr, hfr, hcols, hrows⟩ := applyMatcher_rows' a t toks sim cpu c l r hv hl hr hlen hstr
  obtain ⟨fr', hfr', hcols', hrows'⟩ := applyMatcher_rows' (a.withCandset c') t toks sim cpu' c' l r hv'
    (fun cr hcr => by
      have := hl cr (hp.rows.mem_iff.1 hcr)
      rw [colIdx_congr c c' hp.cols]; exact this)
    (fun cr hcr => by
      have := hr cr (hp.rows.mem_iff.1 hcr)
      rw [colIdx_congr c c' hp.cols]; exact this)
    (by rw [hp.rows.length_eq]; exact hlen) hstr
  rw [hspec] at hrows'
  refine ⟨fr, fr', hfr, hfr', ?_, ?_, hrows, hrows'⟩
  · rw [hcols, hcols', isEmpty_perm hp.rows, hp.cols]; rfl
  · rw [hrows, hrows']
    exact hp.rows.filterMap _

theorem zip_map_fst_snd {α β : Type} (X : List (α × β)) : (X.map (·.1)).zip (X.map (·.2)) = X := by
  induction X with
  | nil => rfl
  | cons x X ih => rw [List.map_cons, List.map_cons, List.zip_cons_cons, ih]

/-- a frame whose rows and labels are the two projections of `X` has `X` as its labelled rows -/
theorem candLabelled_of_maps (f : Frame) (X : List (Row × Cell)) (hr : f.rows = X.map (·.1)) (hi : f.index = X.map (·.2)) :
    candLabelled f = X := by
  unfold candLabelled
  rw [hr, hi, List.length_map, List.length_map, Nat.sub_self, List.replicate_zero, List.append_nil, zip_map_fst_snd]

theorem candLabelled_of_rows_nil (f : Frame) (h : f.rows = []) : candLabelled f = [] := by
  unfold candLabelled; rw [h]; rfl

/-- the labelled rows of the frame `filter_candset` returns -/
theorem candLabelled_result (c : Frame) (keep : Row → Bool) :
    candLabelled (if c.rows.isEmpty then c else
        { c with index := ((candLabelled c).filter (fun p => keep p.1)).map (·.2),
                 rows := ((candLabelled c).filter (fun p => keep p.1)).map (·.1) })
      = (candLabelled c).filter (fun p => keep p.1) := by
  by_cases hemp : c.rows.isEmpty = true
  · rw [if_pos hemp, candLabelled_of_rows_nil c (List.isEmpty_iff.1 hemp)]; rfl
  · rw [if_neg hemp]
    exact candLabelled_of_maps _ _ rfl rfl

/-- `c'` is `c` with its rows permuted, every row keeping its index label -/
structure CandLabelPermuted (c c' : Frame) : Prop where
  cols : c'.columns = c.columns
  types : c'.dtypes = c.dtypes
  labelled : (candLabelled c').Perm (candLabelled c)

theorem CandLabelPermuted.rows {c c' : Frame} (h : CandLabelPermuted c c') : c'.rows.Perm c.rows := by
  rw [← candLabelled_map_fst c, ← candLabelled_map_fst c']
  exact h.labelled.map _

theorem candKeep_withCandset (a : CandsetArgs) (fp : Cell → Cell → Except PyErr Bool) (c0 c l r : Frame) :
    candKeep (a.withCandset c0) fp c l r = candKeep a fp c l r := rfl

theorem candKeep_cand_congr (a : CandsetArgs) (fp : Cell → Cell → Except PyErr Bool) (c c' l r : Frame)
    (hc : c'.columns = c.columns) : candKeep a fp c' l r = candKeep a fp c l r := by
  funext cr
  unfold candKeep
  rw [colIdx_congr c c' hc]

theorem candsetValid_cand {a : CandsetArgs} {c l r c' : Frame} (hV : CandsetValid a c l r)
    (hc : c'.columns = c.columns) : CandsetValid (a.withCandset c') c' l r :=
  { candset := rfl, ltable := hV.ltable, rtable := hV.rtable
    candLKey := (hasCol_congr c c' hc _).trans hV.candLKey
    candRKey := (hasCol_congr c c' hc _).trans hV.candRKey
    lKey := hV.lKey, rKey := hV.rKey, lAttr := hV.lAttr, rAttr := hV.rAttr, lType := hV.lType, rType := hV.rType
    lKeyValid := hV.lKeyValid, rKeyValid := hV.rKeyValid }

/-- FILTER_CANDSET on a candset with the same header whose rows are the same up to order (`hrows`): both calls
    succeed, and each returns its candset restricted to the rows `candKeep` keeps (labels carried along) -/
theorem filterCandset_two_candsets (a : CandsetArgs) (fp : Cell → Cell → Except PyErr Bool) (cpu cpu' : Int)
    (c l r c' : Frame) (hv : validateCandset a = .ok (c, l, r))
    (hl : ∀ cr ∈ c.rows, PyMem (cr.cell (c.colIdx a.candLKey)) (l.col a.lKey))
    (hr : ∀ cr ∈ c.rows, PyMem (cr.cell (c.colIdx a.candRKey)) (r.col a.rKey))
    (hlen : c.rows.length < 2 ^ 40)
    (hfp : ∀ ls ∈ l.rows, ∀ rs ∈ r.rows, ∃ b, fp (ls.cell (l.colIdx a.lAttr)) (rs.cell (r.colIdx a.rAttr)) = .ok b)
    (hcols : c'.columns = c.columns) (hrows : c'.rows.Perm c.rows) :
    filterCandset a fp cpu = .ok (if c.rows.isEmpty then c else
          { c with index := ((candLabelled c).filter (fun p => candKeep a fp c l r p.1)).map (·.2),
                   rows := ((candLabelled c).filter (fun p => candKeep a fp c l r p.1)).map (·.1) }) ∧
    filterCandset (a.withCandset c') fp cpu' = .ok (if c'.rows.isEmpty then c' else
          { c' with index := ((candLabelled c').filter (fun p => candKeep a fp c l r p.1)).map (·.2),
                    rows := ((candLabelled c').filter (fun p => candKeep a fp c l r p.1)).map (·.1) }) := by
  have hV := (validateCandset_ok_iff a c l r).1 hv
  have hv' : validateCandset (a.withCandset c') = .ok (c', l, r) :=
    (validateCandset_ok_iff _ c' l r).2 (candsetValid_cand hV hcols)
  refine ⟨filterCandset_frame a fp cpu c l r hv hl hr hlen hfp, ?_⟩
  rw [filterCandset_frame (a.withCandset c') fp cpu' c' l r hv'
    (fun cr hcr => by
      have := hl cr (hrows.mem_iff.1 hcr)
      rw [colIdx_congr c c' hcols]; exact this)
    (fun cr hcr => by
      have := hr cr (hrows.mem_iff.1 hcr)
      rw [colIdx_congr c c' hcols]; exact this)
    (by rw [hrows.length_eq]; exact hlen) hfp,
    candKeep_withCandset, candKeep_cand_congr a fp c c' l r hcols]

/-- APPLY_MATCHER, CANDSET INDEX: `apply_matcher` never reads the candset's index labels; it returns them only when
    the candset is empty (then the candset itself is the result).  No validity hypothesis. -/
theorem applyMatcher_relabel_candset (a : MatcherArgs) (t : Option TokObj) (toks : TokFn) (sim : SimArg → SimArg → PyV)
    (cpu : Int) (c : Frame) (idx : List Cell) (hc : a.candset = some c) :
    applyMatcher (a.withCandset (c.withIndex idx)) t toks sim cpu =
      (applyMatcher a t toks sim cpu).map (fun fr => if c.rows.isEmpty then fr.withIndex idx else fr) := by
  have hval : validateMatcher (a.withCandset (c.withIndex idx)) t
      = (validateMatcher a t).map (fun p => (c.withIndex idx, p.2.1, p.2.2)) := by
    rw [validateMatcher_some a t c hc, validateMatcher_some (a.withCandset (c.withIndex idx)) t (c.withIndex idx) rfl]
    show (if !c.hasCol a.candLKey then _ else if !c.hasCol a.candRKey then _ else
      match a.ltable, a.rtable with
      | some l, some r => matcherCascade a t (c.withIndex idx) l r
      | _, _ => .error .typeErr) = _
    cases a.ltable with
    | none => split_ifs <;> rfl
    | some l =>
      cases a.rtable with
      | none => split_ifs <;> rfl
      | some r =>
        simp only [except_map_ite_error]
        unfold matcherCascade
        simp only [except_map_ite_error]
        rfl
  rw [applyMatcher_eq, applyMatcher_eq, hval]
  cases hv : validateMatcher a t with
  | error e => rfl
  | ok p =>
    obtain ⟨c0, l, r⟩ := p
    obtain ⟨hc0, -⟩ := validateMatcher_ok_tables a t c0 l r hv
    rw [hc] at hc0; cases hc0
    show matcherBody a t toks sim cpu (c.withIndex idx) l r = (matcherBody a t toks sim cpu c l r).map _
    by_cases hemp : c.rows.isEmpty = true
    · have h1 : matcherBody a t toks sim cpu (c.withIndex idx) l r = .ok (c.withIndex idx) := by
        unfold matcherBody
        rw [if_pos (show (c.withIndex idx).rows.isEmpty = true from hemp)]; rfl
      have h2 : matcherBody a t toks sim cpu c l r = .ok c := by
        unfold matcherBody
        rw [if_pos hemp]; rfl
      rw [h1, h2]
      simp only [Except.map, hemp, if_true]
    · have h1 : matcherBody a t toks sim cpu (c.withIndex idx) l r = matcherBody a t toks sim cpu c l r := by
        unfold matcherBody
        rw [if_neg (show ¬ (c.withIndex idx).rows.isEmpty = true from hemp), if_neg hemp]
        rfl
      rw [h1]
      simp only [hemp, if_false, Bool.false_eq_true]
      cases matcherBody a t toks sim cpu c l r <;> rfl

end EP
end SSJ

section AxiomCheck
open SSJ SSJ.EP
#print axioms applyMatcher_agree
#print axioms filterCandset_agree
#print axioms applyMatcher_frame
#print axioms filterCandset_frame
#print axioms applyMatcher_perm_tables
#print axioms filterCandset_perm_tables
#print axioms applyMatcher_perm_candset
#print axioms filterCandset_two_candsets
#print axioms applyMatcher_relabel_candset
#print axioms candLabelled_result
end AxiomCheck
